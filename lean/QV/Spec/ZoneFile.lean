/-
  QV.Spec.ZoneFile — the presentation side of RFC 1035 §5 master files (C23): how the pieces of a
  zone file are *written*.  Written from the RFC (§5.1: `\X`, `\DDD`, quoted and unquoted
  strings, `@`, relative names, `;` comments, parentheses) and RFC 3597 §5 (`TYPEnnn`,
  `CLASSnnn`, `\# len hex`) — nothing here mentions the parser.

  A presentation is text plus the *choices* the writer made (how each octet is written, how
  fields are separated, what is omitted); `render…` turns it into octets.  The theorems of C23
  say that the parser maps `render p` back to what `p` denotes.
-/
import QV.Prelude

namespace QV.Spec.ZF
open QV

/-! ### numbers -/

/-- the ASCII digit for `d < 10` -/
def digitOctet (d : Nat) : UInt8 := UInt8.ofNat (48 + d)

/-- decimal digits of `n`, most significant first, no leading zeros -/
def decimal (n : Nat) : List UInt8 :=
  if h : n < 10 then [digitOctet n]
  else decimal (n / 10) ++ [digitOctet (n % 10)]
termination_by n
decreasing_by omega

/-! ### octets inside names and strings (RFC 1035 §5.1) -/

/-- how one octet is written: as itself, as `\X`, or as `\DDD` -/
inductive OctetForm where
  | raw | esc | dec
  deriving Repr, DecidableEq, Inhabited

def renderOctet (b : UInt8) : OctetForm → List UInt8
  | .raw => [b]
  | .esc => [92, b]
  | .dec => [92, digitOctet (b.toNat / 100), digitOctet (b.toNat / 10 % 10), digitOctet (b.toNat % 10)]

def isDigitOctet (b : UInt8) : Bool := 48 ≤ b && b ≤ 57

/-- octets that end a field or a line, or are special inside the construct at hand, cannot be
    written raw; `\X` cannot be used for digits (it would start a `\DDD`) -/
def special (b : UInt8) : Bool :=
  b == 32 || b == 9 || b == 40 || b == 41 || b == 59 || b == 10 || b == 13 || b == 92

/-- a form is admissible for an octet of a domain name label -/
def nameFormOK (b : UInt8) : OctetForm → Bool
  | .raw => !special b && b != 46
  | .esc => !isDigitOctet b
  | .dec => true

/-- a label: its octets with the way each is written -/
abbrev PLabel := List (UInt8 × OctetForm)

def renderLabel (l : PLabel) : List UInt8 := l.flatMap fun x => renderOctet x.1 x.2

def labelOctets (l : PLabel) : List UInt8 := l.map (·.1)

/-- labels separated by dots (no trailing dot) -/
def renderLabels : List PLabel → List UInt8
  | [] => []
  | [l] => renderLabel l
  | l :: ls => renderLabel l ++ 46 :: renderLabels ls

/-- an absolute name: labels, each followed by a dot; the root is `.` -/
def renderAbsName (ls : List PLabel) : List UInt8 :=
  if ls.isEmpty then [46] else ls.flatMap fun l => renderLabel l ++ [46]

/-- wire form of the absolute name with these labels -/
def wireName (ls : List (List UInt8)) : List UInt8 :=
  (ls.flatMap fun l => UInt8.ofNat l.length :: l) ++ [0]

/-! ### RFC 3597 §5 forms -/

/-- `CLASSnnn` -/
def renderClass (c : Nat) : List UInt8 := [67, 76, 65, 83, 83] ++ decimal c

/-- `TYPEnnn` -/
def renderType (t : Nat) : List UInt8 := [84, 89, 80, 69] ++ decimal t

def hexDigitOctet (n : Nat) : UInt8 := if n < 10 then UInt8.ofNat (48 + n) else UInt8.ofNat (87 + n)

/-- two lower-case hex digits per octet -/
def renderHex (rd : List UInt8) : List UInt8 :=
  rd.flatMap fun b => [hexDigitOctet (b.toNat / 16), hexDigitOctet (b.toNat % 16)]

/-- the part of the RFC 3597 form after `\#`: the length, and the hex digits if it is not 0 -/
def genericTail (sep rd : List UInt8) : List UInt8 :=
  sep ++ decimal rd.length ++ (if rd.isEmpty then [] else sep ++ renderHex rd)

/-- octal digits of `n`, most significant first, no leading zeros (a Chaosnet address) -/
def octalText (n : Nat) : List UInt8 :=
  if h : n < 8 then [digitOctet n]
  else octalText (n / 8) ++ [digitOctet (n % 8)]
termination_by n
decreasing_by omega

/-- lower-case hexadecimal digits of `n`, no leading zeros (a group of an IPv6 address) -/
def hexText (n : Nat) : List UInt8 :=
  if h : n < 16 then [hexDigitOctet n]
  else hexText (n / 16) ++ [hexDigitOctet (n % 16)]
termination_by n
decreasing_by omega

/-- groups separated by colons -/
def groupsText : List Nat → List UInt8
  | [] => []
  | [g] => hexText g
  | g :: gs => hexText g ++ 58 :: groupsText gs

/-- a dotted quad -/
def quadText (a b c d : Nat) : List UInt8 := decimal a ++ 46 :: (decimal b ++ 46 :: (decimal c ++ 46 :: decimal d))

/-- groups, a colon, and a dotted quad (just the quad if there are no groups) -/
def groupsThenQuad (gs : List Nat) (Q : List UInt8) : List UInt8 :=
  match gs with
  | [] => Q
  | _ :: _ => groupsText gs ++ 58 :: Q

/-- the labels in wire form, without the root label -/
def wireLabels (ls : List (List UInt8)) : List UInt8 := ls.flatMap fun l => UInt8.ofNat l.length :: l

/-! ### mnemonics (RFC 1035 §3.2.2, §3.2.4; RFC 3596; RFC 2782) -/

def upperOctet (b : UInt8) : UInt8 := if 97 ≤ b.toNat ∧ b.toNat ≤ 122 then b - 32 else b

/-- TYPE mnemonics a zone file may use, with their values -/
def typeMnemonics : List (String × Nat) :=
  [("A", 1), ("NS", 2), ("MD", 3), ("MF", 4), ("CNAME", 5), ("SOA", 6), ("MB", 7), ("MG", 8), ("MR", 9),
   ("WKS", 11), ("PTR", 12), ("HINFO", 13), ("MINFO", 14), ("MX", 15), ("TXT", 16), ("AAAA", 28), ("SRV", 33)]

/-- CLASS mnemonics -/
def classMnemonics : List (String × Nat) := [("IN", 1), ("CH", 3), ("HS", 4)]

/-- `text` is the mnemonic for `n` in some mix of upper and lower case -/
def mnemonicFor (tbl : List (String × Nat)) (text : List UInt8) (n : Nat) : Prop :=
  ∃ m, (m, n) ∈ tbl ∧ text.map upperOctet = m.toUTF8.toList

/-- a TYPE or CLASS field: a mnemonic (any case) or the RFC 3597 form -/
inductive PCode where
  | generic (n : Nat)
  | mnemonic (text : List UInt8) (n : Nat)
  deriving Repr, Inhabited

def PCode.value : PCode → Nat
  | .generic n => n
  | .mnemonic _ n => n

def typeText : PCode → List UInt8
  | .generic n => renderType n
  | .mnemonic t _ => t

def classText : PCode → List UInt8
  | .generic n => renderClass n
  | .mnemonic t _ => t

/-! ### names and character-strings as written -/

inductive PName where
  | abs (ls : List PLabel)
  | rel (ls : List PLabel) (l : PLabel)      -- labels `ls ++ [l]`, no trailing dot
  | atSign
  deriving Repr, Inhabited

def nameText : PName → List UInt8
  | .abs ls => renderAbsName ls
  | .rel ls l => renderLabels (ls ++ [l])
  | .atSign => [64]

def labelLines (ls : List PLabel) : Nat := (ls.map fun l => (l.filter fun x => x.2 = .esc ∧ x.1 = 10).length).sum

/-- newlines inside a name (written `\` + newline) -/
def nameLines : PName → Nat
  | .abs ls => labelLines ls
  | .rel ls l => labelLines (ls ++ [l])
  | .atSign => 0

/-- the name denoted: an absolute name as written; a relative name completed with the origin (if
    there is one and the result fits in 255 octets); the origin for `@` -/
def nameWire (origin : Option (List UInt8)) : PName → Option (List UInt8)
  | .abs ls => some (wireName (ls.map labelOctets))
  | .rel ls l =>
    match origin with
    | some o =>
      if (wireLabels ((ls ++ [l]).map labelOctets)).length + o.length ≤ 255 then
        some (wireLabels ((ls ++ [l]).map labelOctets) ++ o)
      else none
    | none => none
  | .atSign => origin

/-- a `<character-string>`: quoted or not, each octet in some form -/
structure PString where
  quoted : Bool
  octets : List (UInt8 × OctetForm)
  deriving Repr, Inhabited

def stringText (s : PString) : List UInt8 :=
  if s.quoted then 34 :: (s.octets.flatMap fun x => renderOctet x.1 x.2) ++ [34]
  else s.octets.flatMap fun x => renderOctet x.1 x.2

def stringOctets (s : PString) : List UInt8 := s.octets.map (·.1)

/-- newlines the reader counts inside a string: raw ones (quoted strings) and `\` + newline -/
def stringLines (s : PString) : Nat := (s.octets.filter fun x => x.1 = 10 ∧ x.2 ≠ .dec).length

/-- inside quotes everything but `"` and `\` may be written raw; outside, nothing special -/
def stringFormOK (quoted : Bool) (b : UInt8) : OctetForm → Bool
  | .raw => if quoted then b != 34 && b != 92 else !special b && b != 34
  | .esc => !isDigitOctet b
  | .dec => true

/-! ### gaps between fields and line ends (RFC 1035 §5.1: blanks, parentheses, comments) -/

/-- one element of the space between two fields: a blank, a parenthesis, or — inside
    parentheses — the end of a line with an optional comment -/
inductive GapItem where
  | blank (tab : Bool)
  | openParen
  | closeParen
  | newline (comment : List UInt8) (crlf : Bool)
  deriving Repr, DecidableEq, Inhabited

abbrev PGap := List GapItem

/-- a line ending: LF or CRLF -/
def eolText (crlf : Bool) : List UInt8 := if crlf then [13, 10] else [10]

/-- how a line of a file ends: LF, CRLF, or — the last line only — with the file -/
inductive PEol where
  | lf | crlf | eof
  deriving Repr, DecidableEq, Inhabited

def lineEnd : PEol → List UInt8
  | .lf => [10]
  | .crlf => [13, 10]
  | .eof => []

/-- the lines a line end adds to the count -/
def eolLines : PEol → Nat
  | .eof => 0
  | _ => 1

def gapItemText : GapItem → List UInt8
  | .blank tab => [if tab then 9 else 32]
  | .openParen => [40]
  | .closeParen => [41]
  | .newline c crlf => c ++ eolText crlf

def gapText (g : PGap) : List UInt8 := g.flatMap gapItemText

/-- line ends inside a gap -/
def gapLines : PGap → Nat
  | [] => 0
  | .newline .. :: g => gapLines g + 1
  | _ :: g => gapLines g

/-- "inside parentheses" after a gap, given the state before it; `none` if parentheses nest, one
    closes that was not opened, or a line ends outside parentheses (that ends the record) -/
def gapRun : Bool → PGap → Option Bool
  | p, [] => some p
  | p, .blank _ :: g => gapRun p g
  | false, .openParen :: g => gapRun true g
  | true, .openParen :: _ => none
  | true, .closeParen :: g => gapRun false g
  | false, .closeParen :: _ => none
  | true, .newline .. :: g => gapRun true g
  | false, .newline .. :: _ => none

/-- the `i`-th gap of a list; a single blank if the list is shorter -/
def gapAt (gs : List PGap) (i : Nat) : PGap := gs.getD i [.blank false]

/-! ### the WKS bit map (RFC 1035 §3.4.2)

"The <BIT MAP> field … has one bit per port of the specified protocol.  The first bit
corresponds to port 0, the second to port 1, etc."  Bits are numbered from the most significant
one (§2.3.2: "the bit labeled 0 is the most significant bit"), so port `8 i + j` is the bit of
value `2 ^ (7 - j)` of octet `i` (what BIND, NSD, ldns and dnspython write and read). -/

/-- the octet whose bit `j`, counted from the most significant, is `c j` -/
def octetOfBits (c : Nat → Bool) : UInt8 :=
  UInt8.ofNat (((List.range 8).map fun j => if c j then 2 ^ (7 - j) else 0).sum)

/-- octet `i` of the bit map of a port list -/
def wksOctet (ports : List Nat) (i : Nat) : UInt8 := octetOfBits fun j => decide (8 * i + j ∈ ports)

/-- the bit map: as many octets as the highest port needs, none without ports -/
def wksBitmap (ports : List Nat) : List UInt8 :=
  match ports.max? with
  | none => []
  | some hi => (List.range (hi / 8 + 1)).map (wksOctet ports)

/-- WKS RDATA: address, protocol, bit map -/
def wksWire (addr : List UInt8) (proto : Nat) (ports : List Nat) : List UInt8 :=
  addr ++ UInt8.ofNat proto :: wksBitmap ports

/-- an octet with its eight bits in the opposite order -/
def revBits (b : UInt8) : UInt8 := octetOfBits fun j => b.toNat.testBit j

/-! ### RDATA as written -/

inductive PRdata where
  | generic (rd : List UInt8)                                  -- `\# len hex`, any class and type
  | a (a b c d : Nat)                                          -- IN A: dotted quad
  | name (n : PName)                                           -- NS MD MF CNAME MB MG MR PTR
  | mx (pref : Nat) (n : PName)
  | soa (m r : PName) (serial refresh retry expire minimum : Nat)
  | minfo (r e : PName)
  | srv (prio weight port : Nat) (n : PName)                   -- IN SRV
  | txt (s : PString) (ss : List PString)
  | hinfo (cpu os : PString)
  | aaaa (groups : List Nat)                                   -- IN AAAA: eight 16-bit groups, written in full
  | chA (n : PName) (addr : Nat)                               -- CH A: network name and octal address
  | aaaaC (hd tl : List Nat)                                   -- IN AAAA with `::` for the zero groups between `hd` and `tl`
  | aaaaV4 (hd : List Nat) (tl : Option (List Nat)) (a b c d : Nat)  -- IN AAAA ending in a dotted quad; `tl = some _`: with `::`
  | wks (a b c d : Nat) (proto : PCode) (ports : List Nat)     -- IN WKS: address, protocol (`TCP`/`UDP` in any case, or a number), ports
  deriving Repr, Inhabited

def u16Wire (n : Nat) : List UInt8 := [UInt8.ofNat (n / 256 % 256), UInt8.ofNat (n % 256)]
def u32Wire (n : Nat) : List UInt8 :=
  [UInt8.ofNat (n / 16777216 % 256), UInt8.ofNat (n / 65536 % 256), UInt8.ofNat (n / 256 % 256), UInt8.ofNat (n % 256)]

def stringWire (s : PString) : List UInt8 := UInt8.ofNat s.octets.length :: stringOctets s

/-- protocol mnemonics of WKS (RFC 1035 §3.4.2; the numbers are the IP protocol numbers) -/
def protoMnemonics : List (String × Nat) := [("TCP", 6), ("UDP", 17)]

/-- the protocol field of WKS: a mnemonic as written, or the decimal number -/
def protoText : PCode → List UInt8
  | .generic n => decimal n
  | .mnemonic t _ => t

/-- the ports of WKS, each after its gap -/
def portsText (G : Nat → PGap) : Nat → List Nat → List UInt8
  | _, [] => []
  | i, p :: ps => gapText (G i) ++ (decimal p ++ portsText G (i + 1) ps)

def portsLines (G : Nat → PGap) : Nat → List Nat → Nat
  | _, [] => 0
  | i, _ :: ps => gapLines (G i) + portsLines G (i + 1) ps

/-- which typed syntax belongs to which class and type -/
def kindOK (cls ty : Nat) : PRdata → Bool
  | .generic _ => true
  | .a .. => cls == 1 && ty == 1
  | .name _ => [2, 3, 4, 5, 7, 8, 9, 12].contains ty
  | .mx .. => ty == 15
  | .soa .. => ty == 6
  | .minfo .. => ty == 14
  | .srv .. => cls == 1 && ty == 33
  | .txt .. => ty == 16
  | .hinfo .. => ty == 13
  | .aaaa .. => cls == 1 && ty == 28
  | .chA .. => cls == 3 && ty == 1
  | .aaaaC .. => cls == 1 && ty == 28
  | .aaaaV4 .. => cls == 1 && ty == 28
  | .wks .. => cls == 1 && ty == 11

/-- the second and later strings of TXT, each after its gap -/
def txtRest (G : Nat → PGap) : Nat → List PString → List UInt8
  | _, [] => []
  | i, x :: xs => gapText (G i) ++ (stringText x ++ txtRest G (i + 1) xs)

/-- the RDATA field(s) as text; `G i` is the gap after the `i`-th field -/
def rdataText (G : Nat → PGap) : PRdata → List UInt8
  | .generic rd =>
    92 :: 35 :: (gapText (G 0) ++ (decimal rd.length ++ (if rd.isEmpty then [] else gapText (G 1) ++ renderHex rd)))
  | .a a b c d => decimal a ++ 46 :: (decimal b ++ 46 :: (decimal c ++ 46 :: decimal d))
  | .name n => nameText n
  | .mx p n => decimal p ++ (gapText (G 0) ++ nameText n)
  | .soa m r s1 s2 s3 s4 s5 =>
    nameText m ++ (gapText (G 0) ++ (nameText r ++ (gapText (G 1) ++ (decimal s1 ++ (gapText (G 2) ++
      (decimal s2 ++ (gapText (G 3) ++ (decimal s3 ++ (gapText (G 4) ++ (decimal s4 ++ (gapText (G 5) ++
        decimal s5)))))))))))
  | .minfo r e => nameText r ++ (gapText (G 0) ++ nameText e)
  | .srv p w port n =>
    decimal p ++ (gapText (G 0) ++ (decimal w ++ (gapText (G 1) ++ (decimal port ++ (gapText (G 2) ++ nameText n)))))
  | .txt s ss => stringText s ++ txtRest G 0 ss
  | .hinfo c o => stringText c ++ (gapText (G 0) ++ stringText o)
  | .aaaa gs => groupsText gs
  | .chA n a => nameText n ++ (gapText (G 0) ++ octalText a)
  | .aaaaC hd tl => groupsText hd ++ (58 :: 58 :: groupsText tl)
  | .aaaaV4 hd none a b c d => groupsThenQuad hd (quadText a b c d)
  | .aaaaV4 hd (some tl) a b c d => groupsText hd ++ (58 :: 58 :: groupsThenQuad tl (quadText a b c d))
  | .wks a b c d pr ports => quadText a b c d ++ (gapText (G 0) ++ (protoText pr ++ portsText G 1 ports))

/-- number of gaps inside the RDATA -/
def rdataGaps : PRdata → Nat
  | .generic rd => if rd.isEmpty then 1 else 2
  | .a .. => 0
  | .name _ => 0
  | .mx .. => 1
  | .soa .. => 6
  | .minfo .. => 1
  | .srv .. => 3
  | .txt _ ss => ss.length
  | .hinfo .. => 1
  | .aaaa .. => 0
  | .chA .. => 1
  | .aaaaC .. => 0
  | .aaaaV4 .. => 0
  | .wks _ _ _ _ _ ports => 1 + ports.length

def txtLines (G : Nat → PGap) : Nat → List PString → Nat
  | _, [] => 0
  | i, x :: xs => gapLines (G i) + stringLines x + txtLines G (i + 1) xs

/-- line ends inside the RDATA text: in names, strings and gaps -/
def rdataLines (G : Nat → PGap) : PRdata → Nat
  | .generic rd => gapLines (G 0) + (if rd.isEmpty then 0 else gapLines (G 1))
  | .a .. => 0
  | .name n => nameLines n
  | .mx _ n => gapLines (G 0) + nameLines n
  | .soa m r .. =>
    nameLines m + gapLines (G 0) + nameLines r + gapLines (G 1) + gapLines (G 2) + gapLines (G 3) + gapLines (G 4) +
      gapLines (G 5)
  | .minfo r e => nameLines r + gapLines (G 0) + nameLines e
  | .srv _ _ _ n => gapLines (G 0) + gapLines (G 1) + gapLines (G 2) + nameLines n
  | .txt s ss => stringLines s + txtLines G 0 ss
  | .hinfo c o => stringLines c + gapLines (G 0) + stringLines o
  | .aaaa .. => 0
  | .chA n _ => nameLines n + gapLines (G 0)
  | .aaaaC .. => 0
  | .aaaaV4 .. => 0
  | .wks _ _ _ _ _ ports => gapLines (G 0) + portsLines G 1 ports

/-- the RDATA denoted (RFC 1035 §3.3, RFC 2782 wire formats); `none` if a name cannot be completed -/
def rdataWire (origin : Option (List UInt8)) : PRdata → Option (List UInt8)
  | .generic rd => some rd
  | .a a b c d => some [UInt8.ofNat a, UInt8.ofNat b, UInt8.ofNat c, UInt8.ofNat d]
  | .name n => nameWire origin n
  | .mx p n => (nameWire origin n).map fun w => u16Wire p ++ w
  | .soa m r s1 s2 s3 s4 s5 =>
    match nameWire origin m, nameWire origin r with
    | some wm, some wr => some (wm ++ wr ++ u32Wire s1 ++ u32Wire s2 ++ u32Wire s3 ++ u32Wire s4 ++ u32Wire s5)
    | _, _ => none
  | .minfo r e =>
    match nameWire origin r, nameWire origin e with
    | some wr, some we => some (wr ++ we)
    | _, _ => none
  | .srv p w port n => (nameWire origin n).map fun wn => u16Wire p ++ u16Wire w ++ u16Wire port ++ wn
  | .txt s ss => some ((s :: ss).flatMap stringWire)
  | .hinfo c o => some (stringWire c ++ stringWire o)
  | .aaaa gs => some (gs.flatMap u16Wire)
  | .chA n a => (nameWire origin n).map fun w => w ++ u16Wire a
  | .aaaaC hd tl => some ((hd ++ List.replicate (8 - hd.length - tl.length) 0 ++ tl).flatMap u16Wire)
  | .aaaaV4 hd none a b c d =>
    some (hd.flatMap u16Wire ++ [UInt8.ofNat a, UInt8.ofNat b, UInt8.ofNat c, UInt8.ofNat d])
  | .aaaaV4 hd (some tl) a b c d =>
    some ((hd ++ List.replicate (8 - hd.length - (tl.length + 2)) 0 ++ tl).flatMap u16Wire ++
      [UInt8.ofNat a, UInt8.ofNat b, UInt8.ofNat c, UInt8.ofNat d])
  | .wks a b c d pr ports =>
    some (wksWire [UInt8.ofNat a, UInt8.ofNat b, UInt8.ofNat c, UInt8.ofNat d] pr.value ports)

/-! ### records and files — the presentation subset of `C23_records_partial`

  One entry per line — or, with parentheses, several.  Records: `[owner] [ttl] [class] type rdata
  [;comment]`.  The gaps between the fields and after the last one are any mix of blanks, `(`,
  `)` and — inside parentheses — line ends (LF or CRLF) with optional comments.  Lines end with
  LF or CRLF (the last one possibly with the end of the file).  Owner: an absolute name, a relative name (completed with the origin), `@`
  (the origin) — names in any mix of octet forms — or omitted (leading blanks: same owner as
  before).  TTL and class written (decimal; mnemonic in any case or `CLASSnnn`; in either order)
  or omitted.  Type: mnemonic in any case or `TYPEnnn`.  RDATA: the RFC 3597 form `\# len hex`
  for any class and type, or the typed syntax of A, NS/MD/MF/CNAME/MB/MG/MR/PTR, MX, SOA, MINFO,
  SRV, TXT, HINFO, AAAA (in full, with `::`, with a dotted-quad suffix), Chaosnet A (names relative / absolute / `@`; character-strings quoted or unquoted with
  escapes).  Directives: `$ORIGIN <absolute name>`, `$TTL <decimal>`,
  `$INCLUDE <path> [<origin>]`.  Blank and comment-only
  lines.  The last line may end with the file instead
  of a line end.  Not in this subset (see C23.lean): the typed syntax of WKS. -/

inductive POwner where
  | same
  | named (n : PName)
  deriving Repr, Inhabited

structure PRecord where
  owner : POwner
  ttl : Option Nat
  cls : Option PCode
  clsFirst : Bool          -- class written before the TTL (matters when both are written)
  ty : PCode
  rdata : PRdata
  head : List PGap         -- gap 0: after the owner (or before the first field when the owner is
                           -- omitted: it then starts with a blank); gaps 1, 2: after the first and
                           -- second of TTL and class that are written
  gaps : List PGap         -- gap 0: between type and RDATA; gap i+1: after the i-th RDATA field
  tail : PGap              -- after the last field (closes the parentheses, if open)
  comment : List UInt8
  eol : PEol
  deriving Repr, Inhabited

inductive PEntry where
  | blank (ws comment : List UInt8) (eol : PEol)
  | record (p : PRecord)
  /-- `$ORIGIN <absolute name>`; `gap` after the keyword, `tail` after the name -/
  | origin (ls : List PLabel) (gap tail : PGap) (comment : List UInt8) (eol : PEol)
  /-- `$TTL <decimal>` -/
  | ttl (n : Nat) (gap tail : PGap) (comment : List UInt8) (eol : PEol)
  /-- `$INCLUDE <path> [<origin>]`: the path a string (quoted or not), the origin a name; `gap2`
      stands between them -/
  | incl (path : PString) (origin : Option PName) (gap gap2 tail : PGap) (comment : List UInt8) (eol : PEol)
  deriving Repr, Inhabited

def ownerText : POwner → List UInt8
  | .same => []
  | .named n => nameText n

/-- the TTL and class fields, each written or omitted, in either order; `gA` follows the first
    field that is written, `gB` the second -/
def ttlClassText (gA gB : List UInt8) (ttl : Option Nat) (cls : Option PCode) (clsFirst : Bool) : List UInt8 :=
  match ttl, cls with
  | some t, some c =>
    if clsFirst then classText c ++ (gA ++ (decimal t ++ gB)) else decimal t ++ (gA ++ (classText c ++ gB))
  | some t, none => decimal t ++ gA
  | none, some c => classText c ++ gA
  | none, none => []

/-- line ends in the gaps after the TTL and class fields that are written -/
def ttlClassLines (a b : Nat) (ttl : Option Nat) (cls : Option PCode) : Nat :=
  match ttl, cls with
  | some _, some _ => a + b
  | none, none => 0
  | _, _ => a

def renderRecord (p : PRecord) : List UInt8 :=
  ownerText p.owner ++ gapText (gapAt p.head 0) ++
  ttlClassText (gapText (gapAt p.head 1)) (gapText (gapAt p.head 2)) p.ttl p.cls p.clsFirst ++
  typeText p.ty ++ gapText (gapAt p.gaps 0) ++ rdataText (fun i => gapAt p.gaps (i + 1)) p.rdata ++
  (gapText p.tail ++ (p.comment ++ lineEnd p.eol))

def renderEntry : PEntry → List UInt8
  | .blank ws comment eol => ws ++ comment ++ lineEnd eol
  | .record p => renderRecord p
  | .origin ls gap tail comment eol =>
    [36, 79, 82, 73, 71, 73, 78] ++ gapText gap ++ renderAbsName ls ++ gapText tail ++ comment ++ lineEnd eol   -- `$ORIGIN`
  | .ttl n gap tail comment eol =>
    [36, 84, 84, 76] ++ gapText gap ++ decimal n ++ gapText tail ++ comment ++ lineEnd eol                       -- `$TTL`
  | .incl path origin gap gap2 tail comment eol =>
    [36, 73, 78, 67, 76, 85, 68, 69] ++ gapText gap ++ stringText path ++                                          -- `$INCLUDE`
      (match origin with
       | some n => gapText gap2 ++ nameText n
       | none => []) ++ gapText tail ++ comment ++ lineEnd eol

def renderFile (es : List PEntry) : List UInt8 := es.flatMap renderEntry

/-- what is carried from entry to entry (RFC 1035 §5.1, RFC 2308 §4) -/
structure SCtx where
  origin : Option (List UInt8) := none
  prevOwner : Option (List UInt8) := none
  prevTtl : Option Nat := none
  prevClass : Option Nat := none
  defaultTtl : Option Nat := none
  deriving Repr, DecidableEq, Inhabited

/-- a denoted record: line, owner (wire form), TTL, class, type, RDATA -/
structure SRecord where
  line : Nat
  owner : List UInt8
  ttl : Nat
  cls : Nat
  ty : Nat
  rdata : List UInt8
  deriving Repr, DecidableEq, Inhabited

/-- RFC 2181 §8: a TTL with the most significant bit set is treated as zero -/
def ttlValue (t : Nat) : Nat := if t > 2147483647 then 0 else t

/-- newlines inside the owner text: the lines a record spans beyond one come from here and from
    the RDATA -/
def ownerLines : POwner → Nat
  | .same => 0
  | .named n => nameLines n

/-- the lines a record's text occupies beyond the first -/
def recordLines (p : PRecord) : Nat :=
  ownerLines p.owner + gapLines (gapAt p.head 0) +
    ttlClassLines (gapLines (gapAt p.head 1)) (gapLines (gapAt p.head 2)) p.ttl p.cls +
    gapLines (gapAt p.gaps 0) + rdataLines (fun i => gapAt p.gaps (i + 1)) p.rdata + gapLines p.tail

/-- the owner a record line denotes -/
def ownerOf (c : SCtx) (p : PRecord) : Option (List UInt8) :=
  match p.owner with
  | .same => c.prevOwner
  | .named n => nameWire c.origin n

/-- the TTL: the written one, else the `$TTL` default, else the previous record's (RFC 2308 §4) -/
def ttlOf (c : SCtx) (p : PRecord) : Option Nat :=
  match p.ttl with
  | some t => some (ttlValue t)
  | none => c.defaultTtl.or c.prevTtl

/-- the class: the written one, else the previous record's -/
def clsOf (c : SCtx) (p : PRecord) : Option Nat :=
  match p.cls with
  | some k => some k.value
  | none => c.prevClass

/-- the RDATA is written in a syntax of this class and type and, in RFC 3597 form, is valid for them -/
def rdataOK (valid : Nat → Nat → List UInt8 → Bool) (cls ty : Nat) (rdata : PRdata) (rd : List UInt8) : Bool :=
  kindOK cls ty rdata &&
    (match rdata with
     | .generic _ => valid cls ty rd
     | _ => true)

/-- The record a presentation denotes in a context, and the context after it; `none` when
    something omitted has nothing to default to, a name cannot be completed, the RDATA is written
    in the typed syntax of another class or type, or RDATA given in RFC 3597 form is not valid
    for the class and type (`valid`: RFC 3597 §5 requires known types to be checked). -/
def denoteRecord (valid : Nat → Nat → List UInt8 → Bool) (c : SCtx) (line : Nat) (p : PRecord) :
    Option (SRecord × SCtx) :=
  match ownerOf c p, ttlOf c p, clsOf c p with
  | some owner, some ttl, some cls =>
    match rdataWire c.origin p.rdata with
    | some rd =>
      if rdataOK valid cls p.ty.value p.rdata rd then
        some (⟨line, owner, ttl, cls, p.ty.value, rd⟩,
              { c with prevOwner := some owner, prevTtl := some ttl, prevClass := some cls })
      else none
    | none => none
  | _, _, _ => none

/-- what a file denotes, entry by entry: records, and requests to include another file -/
inductive SItem where
  | record (r : SRecord)
  /-- `$INCLUDE` at `line`: the path, and the origin the included file starts with (the one
      given, or the current one) -/
  | incl (line : Nat) (path : List UInt8) (origin : Option (List UInt8))
  deriving Repr, DecidableEq, Inhabited

/-- the records (and include requests) a file denotes, in order, with their line numbers.  An
    `$INCLUDE` leaves the context as it is (what the included file does to it is C25). -/
def denoteFile (valid : Nat → Nat → List UInt8 → Bool) : List PEntry → SCtx → Nat → Option (List SItem)
  | [], _, _ => some []
  | .blank _ _ _ :: es, c, line => denoteFile valid es c (line + 1)
  | .origin ls gap tail _ _ :: es, c, line =>
    denoteFile valid es { c with origin := some (wireName (ls.map labelOctets)) }
      (line + gapLines gap + labelLines ls + gapLines tail + 1)
  | .ttl n gap tail _ _ :: es, c, line =>
    denoteFile valid es { c with defaultTtl := some (ttlValue n) } (line + gapLines gap + gapLines tail + 1)
  | .incl path origin gap gap2 tail _ _ :: es, c, line => do
    let o ← match origin with
      | some n => (nameWire c.origin n).map some
      | none => some c.origin
    let rest ← denoteFile valid es c
      (line + gapLines gap + stringLines path +
        (match origin with | some n => gapLines gap2 + nameLines n | none => 0) + gapLines tail + 1)
    pure (.incl line (stringOctets path) o :: rest)
  | .record p :: es, c, line => do
    let (r, c') ← denoteRecord valid c line p
    let rest ← denoteFile valid es c' (line + recordLines p + 1)
    pure (.record r :: rest)

end QV.Spec.ZF
