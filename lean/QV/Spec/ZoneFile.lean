/-
  QV.Spec.ZoneFile — the presentation side of RFC 1035 §5 master files (C23): how the pieces of a
  zone file are *written*.  Written from the RFC (§5.1: `\X`, `\DDD`, quoted and unquoted
  strings, `@`, relative names, `;` comments, parentheses) and RFC 3597 §5 (`TYPEnnn`,
  `CLASSnnn`, `\# len hex`) — nothing here mentions the parser.

  A presentation is text plus the *choices* the writer made (how each octet is written, how
  fields are separated, what is omitted); `render…` turns it into octets.  The theorems of C23
  say that the parser maps `render p` back to what `p` denotes.
-/
import QV.Prelude

namespace QV.Spec.ZF
open QV

/-! ### numbers -/

/-- the ASCII digit for `d < 10` -/
def digitOctet (d : Nat) : UInt8 := UInt8.ofNat (48 + d)

/-- decimal digits of `n`, most significant first, no leading zeros -/
def decimal (n : Nat) : List UInt8 :=
  if h : n < 10 then [digitOctet n]
  else decimal (n / 10) ++ [digitOctet (n % 10)]
termination_by n
decreasing_by omega

/-! ### octets inside names and strings (RFC 1035 §5.1) -/

/-- how one octet is written: as itself, as `\X`, or as `\DDD` -/
inductive OctetForm where
  | raw | esc | dec
  deriving Repr, DecidableEq, Inhabited

def renderOctet (b : UInt8) : OctetForm → List UInt8
  | .raw => [b]
  | .esc => [92, b]
  | .dec => [92, digitOctet (b.toNat / 100), digitOctet (b.toNat / 10 % 10), digitOctet (b.toNat % 10)]

def isDigitOctet (b : UInt8) : Bool := 48 ≤ b && b ≤ 57

/-- octets that end a field or a line, or are special inside the construct at hand, cannot be
    written raw; `\X` cannot be used for digits (it would start a `\DDD`) -/
def special (b : UInt8) : Bool :=
  b == 32 || b == 9 || b == 40 || b == 41 || b == 59 || b == 10 || b == 13 || b == 92

/-- a form is admissible for an octet of a domain name label -/
def nameFormOK (b : UInt8) : OctetForm → Bool
  | .raw => !special b && b != 46
  | .esc => !isDigitOctet b
  | .dec => true

/-- a label: its octets with the way each is written -/
abbrev PLabel := List (UInt8 × OctetForm)

def renderLabel (l : PLabel) : List UInt8 := l.flatMap fun x => renderOctet x.1 x.2

def labelOctets (l : PLabel) : List UInt8 := l.map (·.1)

/-- labels separated by dots (no trailing dot) -/
def renderLabels : List PLabel → List UInt8
  | [] => []
  | [l] => renderLabel l
  | l :: ls => renderLabel l ++ 46 :: renderLabels ls

/-- an absolute name: labels, each followed by a dot; the root is `.` -/
def renderAbsName (ls : List PLabel) : List UInt8 :=
  if ls.isEmpty then [46] else ls.flatMap fun l => renderLabel l ++ [46]

/-- wire form of the absolute name with these labels -/
def wireName (ls : List (List UInt8)) : List UInt8 :=
  (ls.flatMap fun l => UInt8.ofNat l.length :: l) ++ [0]

/-! ### RFC 3597 §5 forms -/

/-- `CLASSnnn` -/
def renderClass (c : Nat) : List UInt8 := [67, 76, 65, 83, 83] ++ decimal c

/-- `TYPEnnn` -/
def renderType (t : Nat) : List UInt8 := [84, 89, 80, 69] ++ decimal t

def hexDigitOctet (n : Nat) : UInt8 := if n < 10 then UInt8.ofNat (48 + n) else UInt8.ofNat (87 + n)

/-- two lower-case hex digits per octet -/
def renderHex (rd : List UInt8) : List UInt8 :=
  rd.flatMap fun b => [hexDigitOctet (b.toNat / 16), hexDigitOctet (b.toNat % 16)]

/-- the part of the RFC 3597 form after `\#`: the length, and the hex digits if it is not 0 -/
def genericTail (sep rd : List UInt8) : List UInt8 :=
  sep ++ decimal rd.length ++ (if rd.isEmpty then [] else sep ++ renderHex rd)

/-- the labels in wire form, without the root label -/
def wireLabels (ls : List (List UInt8)) : List UInt8 := ls.flatMap fun l => UInt8.ofNat l.length :: l

/-! ### records and files — the presentation subset of `C23_records_partial`

  One entry per line.  Records: `[owner] [ttl] [class] TYPEnnn \# len [hex] [;comment]`, fields
  separated by runs of blanks; the owner is an absolute name, a relative name (completed with the
  origin), `@` (the origin) — names in any mix of octet forms — or omitted (leading blanks: same
  owner as before); TTL and class are written (decimal, `CLASSnnn`, in either order) or omitted.  Directives:
  `$ORIGIN <absolute name>`, `$TTL <decimal>`.  Blank and comment-only lines.  Not in this subset
  (see C23.lean): mnemonics, typed RDATA, parentheses, CRLF, a last line
  without newline. -/

inductive POwner where
  | same
  | abs (ls : List PLabel)
  | rel (ls : List PLabel) (l : PLabel)      -- labels `ls ++ [l]`, no trailing dot
  | atSign
  deriving Repr, Inhabited

structure PRecord where
  owner : POwner
  ttl : Option Nat
  cls : Option Nat
  clsFirst : Bool          -- class written before the TTL (matters when both are written)
  ty : Nat
  rdata : List UInt8
  sep : List UInt8
  trail : List UInt8
  comment : List UInt8
  deriving Repr, Inhabited

inductive PEntry where
  | blank (ws comment : List UInt8)
  | record (p : PRecord)
  | origin (ls : List PLabel) (sep trail comment : List UInt8)
  | ttl (n : Nat) (sep trail comment : List UInt8)
  deriving Repr, Inhabited

def ownerText : POwner → List UInt8
  | .same => []
  | .abs ls => renderAbsName ls
  | .rel ls l => renderLabels (ls ++ [l])
  | .atSign => [64]

/-- the TTL and class fields, each written or omitted, in either order -/
def ttlClassText (sep : List UInt8) (ttl cls : Option Nat) (clsFirst : Bool) : List UInt8 :=
  let t := match ttl with
    | some t => decimal t ++ sep
    | none => []
  let c := match cls with
    | some c => renderClass c ++ sep
    | none => []
  if clsFirst then c ++ t else t ++ c

def renderRecord (p : PRecord) : List UInt8 :=
  ownerText p.owner ++ p.sep ++ ttlClassText p.sep p.ttl p.cls p.clsFirst ++
  renderType p.ty ++ p.sep ++ 92 :: 35 :: (genericTail p.sep p.rdata ++ (p.trail ++ p.comment ++ [10]))

def renderEntry : PEntry → List UInt8
  | .blank ws comment => ws ++ comment ++ [10]
  | .record p => renderRecord p
  | .origin ls sep trail comment =>
    [36, 79, 82, 73, 71, 73, 78] ++ sep ++ renderAbsName ls ++ trail ++ comment ++ [10]   -- `$ORIGIN`
  | .ttl n sep trail comment =>
    [36, 84, 84, 76] ++ sep ++ decimal n ++ trail ++ comment ++ [10]                       -- `$TTL`

def renderFile (es : List PEntry) : List UInt8 := es.flatMap renderEntry

/-- what is carried from entry to entry (RFC 1035 §5.1, RFC 2308 §4) -/
structure SCtx where
  origin : Option (List UInt8) := none
  prevOwner : Option (List UInt8) := none
  prevTtl : Option Nat := none
  prevClass : Option Nat := none
  defaultTtl : Option Nat := none
  deriving Repr, Inhabited

/-- a denoted record: line, owner (wire form), TTL, class, type, RDATA -/
structure SRecord where
  line : Nat
  owner : List UInt8
  ttl : Nat
  cls : Nat
  ty : Nat
  rdata : List UInt8
  deriving Repr, DecidableEq, Inhabited

/-- RFC 2181 §8: a TTL with the most significant bit set is treated as zero -/
def ttlValue (t : Nat) : Nat := if t > 2147483647 then 0 else t

def labelLines (ls : List PLabel) : Nat := (ls.map fun l => (l.filter fun x => x.2 = .esc ∧ x.1 = 10).length).sum

/-- newlines inside the owner text (written `\` + newline): the lines a record spans beyond one -/
def ownerLines : POwner → Nat
  | .same => 0
  | .abs ls => labelLines ls
  | .rel ls l => labelLines (ls ++ [l])
  | .atSign => 0

/-- the owner a record line denotes: the written absolute name; a relative name completed with
    the origin (if that fits in 255 octets); the origin for `@`; the previous owner if omitted -/
def ownerOf (c : SCtx) (p : PRecord) : Option (List UInt8) :=
  match p.owner with
  | .same => c.prevOwner
  | .abs ls => some (wireName (ls.map labelOctets))
  | .rel ls l =>
    match c.origin with
    | some o =>
      if (wireLabels ((ls ++ [l]).map labelOctets)).length + o.length ≤ 255 then
        some (wireLabels ((ls ++ [l]).map labelOctets) ++ o)
      else none
    | none => none
  | .atSign => c.origin

/-- the TTL: the written one, else the `$TTL` default, else the previous record's (RFC 2308 §4) -/
def ttlOf (c : SCtx) (p : PRecord) : Option Nat :=
  match p.ttl with
  | some t => some (ttlValue t)
  | none => c.defaultTtl.or c.prevTtl

/-- the class: the written one, else the previous record's -/
def clsOf (c : SCtx) (p : PRecord) : Option Nat :=
  match p.cls with
  | some k => some k
  | none => c.prevClass

/-- the record a presentation denotes in a context, and the context after it; `none` when
    something omitted has nothing to default to -/
def denoteRecord (c : SCtx) (line : Nat) (p : PRecord) : Option (SRecord × SCtx) :=
  match ownerOf c p, ttlOf c p, clsOf c p with
  | some owner, some ttl, some cls =>
    some (⟨line, owner, ttl, cls, p.ty, p.rdata⟩,
          { c with prevOwner := some owner, prevTtl := some ttl, prevClass := some cls })
  | _, _, _ => none

/-- the records a file denotes, with their line numbers -/
def denoteFile : List PEntry → SCtx → Nat → Option (List SRecord)
  | [], _, _ => some []
  | .blank _ _ :: es, c, line => denoteFile es c (line + 1)
  | .origin ls _ _ _ :: es, c, line =>
    denoteFile es { c with origin := some (wireName (ls.map labelOctets)) } (line + labelLines ls + 1)
  | .ttl n _ _ _ :: es, c, line => denoteFile es { c with defaultTtl := some (ttlValue n) } (line + 1)
  | .record p :: es, c, line => do
    let (r, c') ← denoteRecord c line p
    let rest ← denoteFile es c' (line + ownerLines p.owner + 1)
    pure (r :: rest)

end QV.Spec.ZF
