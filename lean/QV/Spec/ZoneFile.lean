/-
  QV.Spec.ZoneFile — the presentation side of RFC 1035 §5 master files (C23): how the pieces of a
  zone file are *written*.  Written from the RFC (§5.1: `\X`, `\DDD`, quoted and unquoted
  strings, `@`, relative names, `;` comments, parentheses) and RFC 3597 §5 (`TYPEnnn`,
  `CLASSnnn`, `\# len hex`) — nothing here mentions the parser.

  A presentation is text plus the *choices* the writer made (how each octet is written, how
  fields are separated, what is omitted); `render…` turns it into octets.  The theorems of C23
  say that the parser maps `render p` back to what `p` denotes.
-/
import QV.Prelude

namespace QV.Spec.ZF
open QV

/-! ### numbers -/

/-- the ASCII digit for `d < 10` -/
def digitOctet (d : Nat) : UInt8 := UInt8.ofNat (48 + d)

/-- decimal digits of `n`, most significant first, no leading zeros -/
def decimal (n : Nat) : List UInt8 :=
  if h : n < 10 then [digitOctet n]
  else decimal (n / 10) ++ [digitOctet (n % 10)]
termination_by n
decreasing_by omega

/-! ### octets inside names and strings (RFC 1035 §5.1) -/

/-- how one octet is written: as itself, as `\X`, or as `\DDD` -/
inductive OctetForm where
  | raw | esc | dec
  deriving Repr, DecidableEq, Inhabited

def renderOctet (b : UInt8) : OctetForm → List UInt8
  | .raw => [b]
  | .esc => [92, b]
  | .dec => [92, digitOctet (b.toNat / 100), digitOctet (b.toNat / 10 % 10), digitOctet (b.toNat % 10)]

def isDigitOctet (b : UInt8) : Bool := 48 ≤ b && b ≤ 57

/-- octets that end a field or a line, or are special inside the construct at hand, cannot be
    written raw; `\X` cannot be used for digits (it would start a `\DDD`) -/
def special (b : UInt8) : Bool :=
  b == 32 || b == 9 || b == 40 || b == 41 || b == 59 || b == 10 || b == 13 || b == 92

/-- a form is admissible for an octet of a domain name label -/
def nameFormOK (b : UInt8) : OctetForm → Bool
  | .raw => !special b && b != 46
  | .esc => !isDigitOctet b
  | .dec => true

/-- a label: its octets with the way each is written -/
abbrev PLabel := List (UInt8 × OctetForm)

def renderLabel (l : PLabel) : List UInt8 := l.flatMap fun x => renderOctet x.1 x.2

def labelOctets (l : PLabel) : List UInt8 := l.map (·.1)

/-- labels separated by dots (no trailing dot) -/
def renderLabels : List PLabel → List UInt8
  | [] => []
  | [l] => renderLabel l
  | l :: ls => renderLabel l ++ 46 :: renderLabels ls

/-- an absolute name: labels, each followed by a dot; the root is `.` -/
def renderAbsName (ls : List PLabel) : List UInt8 :=
  if ls.isEmpty then [46] else ls.flatMap fun l => renderLabel l ++ [46]

/-- wire form of the absolute name with these labels -/
def wireName (ls : List (List UInt8)) : List UInt8 :=
  (ls.flatMap fun l => UInt8.ofNat l.length :: l) ++ [0]

/-! ### RFC 3597 §5 forms -/

/-- `CLASSnnn` -/
def renderClass (c : Nat) : List UInt8 := [67, 76, 65, 83, 83] ++ decimal c

/-- `TYPEnnn` -/
def renderType (t : Nat) : List UInt8 := [84, 89, 80, 69] ++ decimal t

def hexDigitOctet (n : Nat) : UInt8 := if n < 10 then UInt8.ofNat (48 + n) else UInt8.ofNat (87 + n)

/-- two lower-case hex digits per octet -/
def renderHex (rd : List UInt8) : List UInt8 :=
  rd.flatMap fun b => [hexDigitOctet (b.toNat / 16), hexDigitOctet (b.toNat % 16)]

end QV.Spec.ZF
