/-
  QV.Spec.Pool — what C29 demands of an *observed execution*, stated on the event log alone
  (independently of the model `QV.Pool`).

  "Under every thread interleaving, each task accepted by a thread pool runs exactly once, and it
   has run by the time waiting for the group's shutdown returns. Shutdown waiting returns only
   after every thread of the group has exited, work submitted after shutdown has begun is
   rejected, and no interleaving deadlocks."

  Events (one execution of the real code under the controlled scheduler, in order):
    call t op [k]   thread t begins `submit` / `submit_or_spawn` of task k, `shut_down` of the group
                    or of the pool, `await_shutdown`
    ret t op res    that call returned (`ok` / `rej` = Err(ShuttingDown) or Err(Io))
    run t k, fin t k   thread t starts / finishes task k
    spawn p c       thread p created group thread c;  relG c = c released the group mutex
    other t         any other event of thread t (lock traffic …)
    deadlock / panic / stepBound     how the execution ended, if not normally
-/
namespace QV.Spec.Pool

inductive Op where
  | submit | sos | shutdown | poolShutdown | await | startPool
  deriving DecidableEq, Repr

inductive Ev where
  | call (t : Nat) (op : Op) (k : Nat)
  | ret (t : Nat) (op : Op) (ok : Bool)
  | run (t k : Nat)
  | fin (t k : Nat)
  | spawn (p c : Nat)
  | relG (t : Nat)
  | exit (t : Nat)
  | other (t : Nat)
  | deadlock | panic | stepBound
  deriving DecidableEq, Repr

def Ev.thread : Ev → Option Nat
  | .call t _ _ | .ret t _ _ | .run t _ | .fin t _ | .relG t | .exit t | .other t => some t
  | .spawn _ _ => none
  | _ => none

/-- indexed events -/
abbrev Log := List (Nat × Ev)

def index (evs : List Ev) : Log := (List.range evs.length).zip evs

/-- `(k, accepted?, callIndex)` for every submission whose call has returned -/
def submissions (log : Log) : List (Nat × Bool × Nat) :=
  log.filterMap fun (i, e) =>
    match e with
    | .call t op k =>
      if op = .submit ∨ op = .sos then
        -- the matching return: the first `ret` of thread t after i
        match log.find? (fun (j, e') => j > i && (match e' with | .ret t' _ _ => t' == t | _ => false)) with
        | some (_, .ret _ _ ok) => some (k, ok, i)
        | _ => none
      else none
    | _ => none

def awaitReturns (log : Log) : List Nat :=
  log.filterMap fun (i, e) => match e with | .ret _ .await _ => some i | _ => none

def shutdownReturns (log : Log) : List Nat :=
  log.filterMap fun (i, e) =>
    match e with | .ret _ .shutdown _ => some i | .ret _ .poolShutdown _ => some i | _ => none

def runsOf (log : Log) (k : Nat) : List Nat :=
  log.filterMap fun (i, e) => match e with | .run _ k' => if k' = k then some i else none | _ => none

def finsOf (log : Log) (k : Nat) : List Nat :=
  log.filterMap fun (i, e) => match e with | .fin _ k' => if k' = k then some i else none | _ => none

/-- verdict: `none` = the execution satisfies the property; `some why` otherwise -/
def verdict (evs : List Ev) : Option String :=
  let log := index evs
  let subs := submissions log
  let aws := awaitReturns log
  let firstAw := aws.head?
  if evs.contains .deadlock then some "deadlock"
  else if evs.contains .panic then some "panic"
  -- every accepted task runs exactly once …
  else if subs.any (fun (k, ok, _) => ok && (runsOf log k).length != 1) then some "accepted-task-not-run-exactly-once"
  else if subs.any (fun (k, ok, _) => ok && (finsOf log k).length != 1) then some "accepted-task-not-finished"
  -- … and has run by the time any await_shutdown returns
  else if subs.any (fun (k, ok, _) => ok && aws.any (fun a => (finsOf log k).any (fun f => f > a))) then
    some "await-returned-before-accepted-task-ran"
  -- a rejected task never runs; no task runs twice
  else if subs.any (fun (k, ok, _) => !ok && (runsOf log k).length != 0) then some "rejected-task-ran"
  else if log.any (fun (_, e) => match e with | .run _ k => (runsOf log k).length > 1 | _ => false) then some "task-ran-twice"
  -- await_shutdown returns only after shutdown was requested and every group thread has exited:
  -- each thread spawned before the return has released the group mutex (end_thread) and does
  -- nothing but return afterwards
  else if (match firstAw with
      | none => (false : Bool)
      | some a =>
        !(log.any fun (i, e) => i < a && (match e with | .call _ .shutdown _ => true | _ => false)) ||
        (log.any fun (i, e) => match e with
          | .spawn _ c => i < a && (
              !(log.any fun (j, e') => j < a && e' == .relG c) ||
              (log.any fun (j, e') => j > a && e'.thread == some c && (match e' with | .exit _ => false | _ => true)))
          | _ => false)) = true then some "await-returned-before-group-threads-exited"
  -- work submitted after a shutdown call returned is rejected
  else if subs.any (fun (_, ok, ci) => ok && (shutdownReturns log).any (fun r => r < ci)) then
    some "accepted-after-shutdown"
  else none

end QV.Spec.Pool
