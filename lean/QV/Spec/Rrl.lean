/-
  QV.Spec.Rrl — what C26, C27 and C28 demand, written from the property texts and the public
  documentation of `RrlParams`, independently of the code (it never calls the model).

  C26  an *eager* token bucket (DESIGN.md §6): the bucket of a stream is created by the stream's
       first response, at time t₀, holding `cap − 1` tokens (`cap = rate·window`; that first
       response used one). At every tick t₀ + n·1 s (n = 1, 2, …) it gains `rate` tokens, capped
       at `cap`. A response is sent iff a token is available, and takes it. Unbounded ℕ.
       A limited response is dropped when slip = 0, slipped when slip = 1, either when slip ≥ 2;
       a slipped response has TC set and no records other than OPT/TSIG.
  C27  the stream relation, on (source address, configured prefix lengths, RCODE category,
       QNAME-or-source-of-synthesis ignoring case); TCP and non-QUERY are never limited.
  C28  n same-stream responses within one second: exactly `min n (tokens available)` are sent.

  Times are natural numbers of nanoseconds. Core Lean only (linked into the driver).
-/
import QV.Prelude

namespace QV.Spec.Rrl
open QV

/-! ### C26 — the eager token bucket -/

/-- one second, in the unit of the time stamps -/
def second : Nat := 1000000000

/-- one tick: gain `rate` tokens, never more than `cap` in the bucket -/
def tick (cap rate tokens : Nat) : Nat := min cap (tokens + rate)

/-- `n` ticks, one after the other (the declarative form: a loop over the seconds) -/
def ticks (cap rate : Nat) : Nat → Nat → Nat
  | 0, tokens => tokens
  | n + 1, tokens => ticks cap rate n (tick cap rate tokens)

/-- closed form used by the executable oracle (idle periods of 10⁹ s cannot be looped over) -/
def ticksFast (cap rate n tokens : Nat) : Nat :=
  if n = 0 then tokens else min cap (tokens + rate * n)

theorem ticks_eq_ticksFast (cap rate n tokens : Nat) (h : tokens ≤ cap) :
    ticks cap rate n tokens = ticksFast cap rate n tokens := by
  induction n generalizing tokens with
  | zero => simp [ticks, ticksFast]
  | succ n ih =>
    have ht : tick cap rate tokens ≤ cap := by unfold tick; omega
    rw [ticks, ih _ ht]
    unfold ticksFast tick
    by_cases hn : n = 0
    · subst hn; simp
    · simp [hn, Nat.mul_add]
      omega

/-- State of a stream's bucket: creation time, number of ticks already applied, tokens. -/
structure Bucket where
  t0 : Nat
  ticksDone : Nat
  tokens : Nat
  deriving DecidableEq, Repr

/-- number of ticks (whole seconds after `t0`) that have occurred up to and including time `t` -/
def ticksUpTo (t0 t : Nat) : Nat := (t - t0) / second

/-- the bucket a stream's first response (sent at `t0`) leaves behind -/
def Bucket.create (cap t0 : Nat) : Bucket := { t0, ticksDone := 0, tokens := cap - 1 }

/-- A later response of the stream at time `t`: first the ticks that occurred since the last
    response, then the decision. `true` = sent. -/
def Bucket.respond (cap rate : Nat) (b : Bucket) (t : Nat) : Bucket × Bool :=
  let n := ticksUpTo b.t0 t
  let tokens := ticks cap rate (n - b.ticksDone) b.tokens
  if tokens > 0 then ({ b with ticksDone := n, tokens := tokens - 1 }, true)
  else ({ b with ticksDone := n, tokens }, false)

def Bucket.run (cap rate : Nat) (b : Bucket) : List Nat → List Bool
  | [] => []
  | t :: ts => let (b', d) := b.respond cap rate t; d :: Bucket.run cap rate b' ts

/-- The decisions of the eager bucket for one stream whose responses are due at the given
    (non-decreasing) times: the first one creates the bucket and is sent. -/
def eager (cap rate : Nat) : List Nat → List Bool
  | [] => []
  | t0 :: ts => true :: Bucket.run cap rate (Bucket.create cap t0) ts

/-- executable twin of `respond`/`run`/`eager` with the closed form -/
def Bucket.respondFast (cap rate : Nat) (b : Bucket) (t : Nat) : Bucket × Bool :=
  let n := ticksUpTo b.t0 t
  let tokens := ticksFast cap rate (n - b.ticksDone) b.tokens
  if tokens > 0 then ({ b with ticksDone := n, tokens := tokens - 1 }, true)
  else ({ b with ticksDone := n, tokens }, false)

def Bucket.runFast (cap rate : Nat) (b : Bucket) : List Nat → List Bool
  | [] => []
  | t :: ts => let (b', d) := b.respondFast cap rate t; d :: Bucket.runFast cap rate b' ts

def eagerFast (cap rate : Nat) : List Nat → List Bool
  | [] => []
  | t0 :: ts => true :: Bucket.runFast cap rate (Bucket.create cap t0) ts

theorem respond_tokens_le (cap rate : Nat) (b : Bucket) (t : Nat) (h : b.tokens ≤ cap) :
    (b.respond cap rate t).1.tokens ≤ cap := by
  have : ticks cap rate (ticksUpTo b.t0 t - b.ticksDone) b.tokens ≤ cap := by
    rw [ticks_eq_ticksFast _ _ _ _ h]; unfold ticksFast; split <;> omega
  unfold Bucket.respond
  simp only
  split <;> simp <;> omega

theorem runFast_eq_run (cap rate : Nat) (b : Bucket) (ts : List Nat) (h : b.tokens ≤ cap) :
    Bucket.runFast cap rate b ts = Bucket.run cap rate b ts := by
  induction ts generalizing b with
  | nil => rfl
  | cons t ts ih =>
    have e : b.respondFast cap rate t = b.respond cap rate t := by
      unfold Bucket.respondFast Bucket.respond
      simp only [ticks_eq_ticksFast _ _ _ _ h]
    simp only [Bucket.runFast, Bucket.run, e]
    rw [ih _ (respond_tokens_le cap rate b t h)]

/-- the oracle the driver runs is the declarative bucket -/
theorem eagerFast_eq_eager (cap rate : Nat) (ts : List Nat) : eagerFast cap rate ts = eager cap rate ts := by
  cases ts with
  | nil => rfl
  | cons t0 ts =>
    simp only [eagerFast, eager]
    rw [runFast_eq_run]
    simp [Bucket.create]

/-- what may happen to a response -/
inductive Fate where
  | send      -- sent unchanged
  | slip      -- sent truncated: TC set, no records other than OPT/TSIG
  | drop      -- not sent
  deriving DecidableEq, Repr

/-- the fates the `slip` parameter allows for a *limited* response -/
def limitedFateAllowed (slip : Nat) (f : Fate) : Prop :=
  (slip = 0 → f = .drop) ∧ (slip = 1 → f = .slip) ∧ f ≠ .send

/-! ### C27 — streams -/

/-- A source address as the number it denotes (IPv4: 32 bits, IPv6: 128 bits). -/
inductive Addr where
  | v4 (a : Nat)
  | v6 (a : Nat)
  deriving DecidableEq, Repr

/-- "IPv4-mapped IPv6 counting as IPv4": `::ffff:a.b.c.d` (first 80 bits zero, next 16 bits one)
    is the IPv4 address `a.b.c.d`. -/
def Addr.canonical : Addr → Addr
  | .v4 a => .v4 a
  | .v6 a => if a / 2 ^ 32 = 0xFFFF then .v4 (a % 2 ^ 32) else .v6 a

/-- two `width`-bit numbers agree on their first (most significant) `len` bits -/
def samePrefix (width len a b : Nat) : Prop := a / 2 ^ (width - len) = b / 2 ^ (width - len)

instance (width len a b : Nat) : Decidable (samePrefix width len a b) := by
  unfold samePrefix; infer_instance

/-- the sources fall in the same configured IPv4 or IPv6 prefix -/
def sameNetwork (v4len v6len : Nat) (s₁ s₂ : Addr) : Prop :=
  match s₁.canonical, s₂.canonical with
  | .v4 a, .v4 b => samePrefix 32 v4len a b
  | .v6 a, .v6 b => samePrefix 128 v6len a b
  | _, _ => False

instance (v4len v6len : Nat) (s₁ s₂ : Addr) : Decidable (sameNetwork v4len v6len s₁ s₂) := by
  unfold sameNetwork; split <;> infer_instance

/-- the three categories of the documentation: NOERROR, NXDOMAIN, every other RCODE -/
inductive Cat where
  | noerror | nxdomain | other
  deriving DecidableEq, Repr

def catOf (rcode : Nat) : Cat := if rcode = 0 then .noerror else if rcode = 3 then .nxdomain else .other

/-- a name ignoring case: its wire form with ASCII letters lower-cased -/
def foldCase (name : List UInt8) : List UInt8 :=
  name.map fun b => if 65 ≤ b.toNat ∧ b.toNat ≤ 90 then b + 32 else b

/-- A response, as far as rate limiting is concerned. `name` is the QNAME, or the wildcard
    source of synthesis when the answer was synthesised (RFC 4592 §3.3.1). -/
structure Response where
  src : Addr
  rcode : Nat
  name : List UInt8
  udp : Bool
  opcode : Nat
  time : Nat
  deriving Repr

/-- C27: two responses belong to the same stream -/
def SameStream (v4len v6len : Nat) (r₁ r₂ : Response) : Prop :=
  sameNetwork v4len v6len r₁.src r₂.src ∧ catOf r₁.rcode = catOf r₂.rcode ∧
    (catOf r₁.rcode = .noerror → foldCase r₁.name = foldCase r₂.name)

instance (v4len v6len : Nat) (r₁ r₂ : Response) : Decidable (SameStream v4len v6len r₁ r₂) := by
  unfold SameStream; infer_instance

/-- C27: only UDP responses to opcode QUERY (0) are ever limited -/
def Limitable (r : Response) : Prop := r.udp = true ∧ r.opcode = 0

instance (r : Response) : Decidable (Limitable r) := by unfold Limitable; infer_instance

/-- the rate that applies to a response -/
def rateOf (noerrorRate nxdomainRate errorRate : Nat) (r : Response) : Nat :=
  match catOf r.rcode with
  | .noerror => noerrorRate
  | .nxdomain => nxdomainRate
  | .other => errorRate

/-- the configuration, in the vocabulary of the documentation -/
structure Config where
  noerrorRate : Nat
  nxdomainRate : Nat
  errorRate : Nat
  window : Nat
  slip : Nat
  v4len : Nat
  v6len : Nat

/-- the earlier limitable responses of `r`'s stream, oldest first -/
def streamPast (cfg : Config) (past : List Response) (r : Response) : List Response :=
  past.filter fun r' => decide (Limitable r' ∧ SameStream cfg.v4len cfg.v6len r' r)

/-- **The specification of a whole history** (C26 + C27): is the response `r`, which follows the
    responses `past` (oldest first), to be sent (`true`) or limited (`false`)?  Not limitable ⇒
    sent. Otherwise whatever the eager bucket of its stream says, the stream's history being the
    earlier limitable responses of the same stream. -/
def shouldSend (cfg : Config) (past : List Response) (r : Response) : Bool :=
  if Limitable r then
    let rate := rateOf cfg.noerrorRate cfg.nxdomainRate cfg.errorRate r
    let times := ((streamPast cfg past r).map (·.time)) ++ [r.time]
    (eager (rate * cfg.window) rate times).getLast?.getD true
  else true

/-- executable twin (closed-form ticks) -/
def shouldSendFast (cfg : Config) (past : List Response) (r : Response) : Bool :=
  if Limitable r then
    let rate := rateOf cfg.noerrorRate cfg.nxdomainRate cfg.errorRate r
    let times := ((streamPast cfg past r).map (·.time)) ++ [r.time]
    (eagerFast (rate * cfg.window) rate times).getLast?.getD true
  else true

theorem shouldSendFast_eq (cfg : Config) (past : List Response) (r : Response) :
    shouldSendFast cfg past r = shouldSend cfg past r := by
  unfold shouldSendFast shouldSend
  simp only [eagerFast_eq_eager]

/-- decisions for a whole history, oldest first -/
def decisions (cfg : Config) : List Response → List Response → List Bool
  | _, [] => []
  | past, r :: rest => shouldSendFast cfg past r :: decisions cfg (past ++ [r]) rest

/-! ### C28 — a burst -/

/-- `n` responses of one stream within one second, the bucket holding `tokens`: this many are sent -/
def burstSent (n tokens : Nat) : Nat := min n tokens

end QV.Spec.Rrl
