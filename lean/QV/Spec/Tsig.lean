/-
  QV.Spec.Tsig — RFC 8945 written down independently of the model (property C11).

  Vocabulary of the spec: a name is its list of labels; times and 16-bit fields are natural
  numbers; a message is its list of octets.  Nothing here refers to `QV.Model.Tsig`.

  RFC 8945 §4.3 "MAC Computation": "the data listed in the rest of this section are passed, in the
  order listed below, as input to MAC computation":

   §4.3.1 Request MAC   only for a response: "The request's MAC, including the MAC Size field as
                        two octets in network byte order"                (`macWithSize`)
   §4.3.2 DNS Message   the whole message in wire format, "before the TSIG RR has been added to the
                        additional section and before the DNS Message Header's ARCOUNT has been
                        incremented to include the TSIG RR"; on receipt "after the TSIG RR has been
                        removed, the ARCOUNT decremented, and the message ID replaced by the
                        original message ID from the TSIG"               (`digestMessage`)
   §4.3.3 TSIG Variables NAME (key name, canonical wire format) · CLASS (ANY) · TTL (0) ·
                        Algorithm Name (canonical wire format) · Time Signed (u48) · Fudge (u16) ·
                        Error (u16) · Other Len (u16) · Other Data       (`tsigVariables`)
          "The RR RDLENGTH and RDATA MAC Size are not included in the input to MAC computation";
          "The Original ID field is not included in this section, as it has already been
          substituted for the message ID in the DNS header".
   §5.3.1 subsequent messages of a multi-message (TCP) answer: "Prior MAC (running)", the DNS
          message(s) since the last TSIG, "TSIG Timers (current message)" = Time Signed, Fudge.
          *Interpretation:* the prior MAC is framed like the request MAC of §4.3.1, with its
          two-octet size — what BIND does (the BIND-generated triple of the repository's tests
          verifies only with the size included); and every message carries a TSIG, so exactly one
          message lies between two MACs.

  §5.2.2.1 MAC truncation: "If the MAC Size field is greater than the expected size of the MAC"
          or "less than the larger of 10 (octets) and half the length of the hash function in use"
          the server answers FORMERR; "Otherwise ... the received MAC is compared with the first
          MAC Size octets of the locally computed MAC" (failure: BADSIG, §5.2.2).
  §5.2.3  time check, only after the MAC has been validated: the server time must lie within
          Time Signed ± Fudge, ends included (failure: BADTIME).
-/
import QV.Prelude

namespace QV.Spec.Tsig
open QV

abbrev Octets := List UInt8

/-- network byte order -/
def u16 (n : Nat) : Octets := [UInt8.ofNat (n / 256 % 256), UInt8.ofNat (n % 256)]
def u32 (n : Nat) : Octets :=
  [UInt8.ofNat (n / 2^24 % 256), UInt8.ofNat (n / 2^16 % 256), UInt8.ofNat (n / 2^8 % 256), UInt8.ofNat (n % 256)]
def u48 (n : Nat) : Octets :=
  [UInt8.ofNat (n / 2^40 % 256), UInt8.ofNat (n / 2^32 % 256), UInt8.ofNat (n / 2^24 % 256),
   UInt8.ofNat (n / 2^16 % 256), UInt8.ofNat (n / 2^8 % 256), UInt8.ofNat (n % 256)]

/-- ASCII lower case of one octet (RFC 4034 §6.2: "all uppercase US-ASCII letters ... are replaced by
    the corresponding lowercase US-ASCII letters") -/
def lower (b : UInt8) : UInt8 := if 0x41 ≤ b.toNat ∧ b.toNat ≤ 0x5a then UInt8.ofNat (b.toNat + 0x20) else b

/-- canonical wire format of a name (RFC 4034 §6.2): no compression, letters in lower case -/
def canonName (labels : List Octets) : Octets :=
  labels.flatMap (fun l => UInt8.ofNat l.length :: l.map lower) ++ [0]

/-- the TSIG variables of a message (RFC 8945 §4.3.3) and the two fields of the TSIG RR that are
    covered indirectly or not at all -/
structure Vars where
  keyName : List Octets      -- NAME
  cls : Nat := 255           -- CLASS "MUST be ANY"
  ttl : Nat := 0             -- TTL "MUST be 0"
  algName : List Octets      -- Algorithm Name
  timeSigned : Nat           -- seconds since the epoch, 48 bits
  fudge : Nat
  error : Nat
  other : Octets
  deriving Repr, DecidableEq

/-- §4.3.1: MAC "including the MAC Size field as two octets in network byte order" -/
def macWithSize (mac : Octets) : Octets := u16 mac.length ++ mac

/-- the 16-bit field at octets `i`, `i+1` of a message -/
def field16 (msg : Octets) (i : Nat) : Nat := (msg.getD i 0).toNat * 256 + (msg.getD (i + 1) 0).toNat

/-- §4.3.2: the message as it was before the TSIG RR was added: ID := original ID, ARCOUNT one less;
    flags, QDCOUNT, ANCOUNT, NSCOUNT (octets 2..9) and everything after the header unchanged.
    `msg` is the received message with the TSIG RR removed; its ARCOUNT still counts that RR. -/
def digestMessage (msg : Octets) (originalId : Nat) : Octets :=
  u16 originalId ++ (msg.drop 2).take 8 ++ u16 (field16 msg 10 - 1) ++ msg.drop 12

/-- §4.3.3.1 TSIG timers -/
def tsigTimers (v : Vars) : Octets := u48 v.timeSigned ++ u16 v.fudge

/-- §4.3.3 TSIG variables, in the order of the RFC's table -/
def tsigVariables (v : Vars) : Octets :=
  canonName v.keyName ++ u16 v.cls ++ u32 v.ttl ++ canonName v.algName ++ u48 v.timeSigned ++ u16 v.fudge
    ++ u16 v.error ++ u16 v.other.length ++ v.other

inductive Mode where
  | request | response | subsequent
  deriving Repr, DecidableEq

/-- the complete MAC input; `priorMac` = request MAC (response) or MAC of the previous message
    (subsequent), ignored for a request -/
def digestInput (mode : Mode) (msg : Octets) (originalId : Nat) (v : Vars) (priorMac : Octets) : Octets :=
  match mode with
  | .request => digestMessage msg originalId ++ tsigVariables v
  | .response => macWithSize priorMac ++ digestMessage msg originalId ++ tsigVariables v
  | .subsequent => macWithSize priorMac ++ digestMessage msg originalId ++ tsigTimers v

/-- what a message must satisfy for §4.3.2 to make sense: a full header whose ARCOUNT counts the
    TSIG RR; MACs fit their 16-bit size field -/
def Applicable (msg priorMac : Octets) : Prop :=
  12 ≤ msg.length ∧ 1 ≤ field16 msg 10 ∧ priorMac.length ≤ 65535

instance (msg priorMac : Octets) : Decidable (Applicable msg priorMac) := by
  unfold Applicable; infer_instance

/-- §5.2.2.1: admissible MAC sizes for a hash with `out` octets of output -/
def MacSizeAllowed (out n : Nat) : Prop := n ≤ out ∧ 10 ≤ n ∧ out ≤ 2 * n

instance (out n : Nat) : Decidable (MacSizeAllowed out n) := by unfold MacSizeAllowed; infer_instance

/-- §5.2.3: `|now − signed| ≤ fudge` -/
def TimeOk (now signed fudge : Nat) : Prop := now ≤ signed + fudge ∧ signed ≤ now + fudge

instance (a b c : Nat) : Decidable (TimeOk a b c) := by unfold TimeOk; infer_instance

inductive Verdict where
  | ok | formErr | badSig | badTime
  deriving Repr, DecidableEq

def Verdict.toString : Verdict → String
  | .ok => "ok" | .formErr => "err:FormErr" | .badSig => "err:BadSig" | .badTime => "err:BadTime"

/-- §5.2 for a message whose key and algorithm are known: truncation policy, then MAC, then time.
    `tag` is the locally computed full-length MAC over `digestInput`. -/
def verdict (out : Nat) (tag mac : Octets) (now signed fudge : Nat) : Verdict :=
  if ¬ MacSizeAllowed out mac.length then .formErr
  else if tag.take mac.length ≠ mac then .badSig
  else if ¬ TimeOk now signed fudge then .badTime
  else .ok

/-- RFC 8945 §4.2 TSIG RDATA: Algorithm Name · Time Signed (u48) · Fudge · MAC Size · MAC ·
    Original ID · Error · Other Len · Other Data.  "Algorithm Name: ... in domain name syntax.
    (Allowed names are listed in Table 3.) The name is stored in the DNS name wire format ...
    no name compression" -/
def rdata (v : Vars) (mac : Octets) (originalId : Nat) : Octets :=
  canonName v.algName ++ u48 v.timeSigned ++ u16 v.fudge ++ u16 mac.length ++ mac ++ u16 originalId
    ++ u16 v.error ++ u16 v.other.length ++ v.other

/-- RFC 8945 §6, table 3 (the two algorithms quandary implements) with the output size of the hash -/
def algorithms : List (List Octets × Nat) :=
  [(["hmac-sha1".toUTF8.data.toList], 20), (["hmac-sha256".toUTF8.data.toList], 32)]

/-! ### executable helpers for the driver -/

/-- read an uncompressed name at the front of `l` (RFC 1035 §3.1: labels of 1..63 octets, a zero
    octet at the end, at most 255 octets in all): its labels and what follows -/
def splitNameAux : Nat → Octets → Option (List Octets × Octets)
  | 0, _ => none
  | _, [] => none
  | fuel + 1, len :: rest =>
    if len = 0 then some ([], rest)
    else if len.toNat > 63 ∨ rest.length < len.toNat then none
    else (splitNameAux fuel (rest.drop len.toNat)).map (fun (ls, r) => (rest.take len.toNat :: ls, r))

def splitName (l : Octets) : Option (List Octets × Octets) :=
  match splitNameAux (l.length + 1) l with
  | some (ls, r) => if l.length - r.length ≤ 255 then some (ls, r) else none
  | none => none

/-- an uncompressed wire name as labels (`none`: not a name, or octets left over) -/
def labelsOf (l : Octets) : Option (List Octets) :=
  match splitName l with
  | some (ls, []) => some ls
  | _ => none

def nat48 (l : Octets) : Nat := (l.take 6).foldl (fun a b => a * 256 + b.toNat) 0

/-- the fields of a TSIG RDATA (RFC 8945 §4.2) -/
structure RdataFields where
  algName : List Octets
  timeSigned : Nat
  fudge : Nat
  mac : Octets
  originalId : Nat
  error : Nat
  other : Octets
  deriving Repr, DecidableEq

/-- RFC 8945 §4.2, read front to back; every length field must be consistent with RDLENGTH -/
def parseRdata (rd : Octets) : Option RdataFields :=
  match splitName rd with
  | none => none
  | some (alg, r) =>
    if r.length < 10 then none
    else
      let macSize := field16 r 8
      let r2 := r.drop 10
      if r2.length < macSize + 6 then none
      else
        let r3 := r2.drop macSize
        let other := r3.drop 6
        if other.length ≠ field16 r3 4 then none
        else some ⟨alg, nat48 r, field16 r 6, r2.take macSize, field16 r3 0, field16 r3 2, other⟩

/-- output size of the hash of the algorithm named `alg` (RFC 8945 §6) -/
def outputSizeOf (alg : List Octets) : Option Nat :=
  (algorithms.find? (fun a => a.1 = alg.map (·.map lower))).map (·.2)

end QV.Spec.Tsig
