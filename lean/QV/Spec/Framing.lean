/-
  QV.Spec.Framing — what C30 demands, stated on messages and on the byte stream, independently of
  the providers' buffer handling.

  "For any sequence of length-prefixed requests sent on a TCP connection within the read timeout,
   split into segments arbitrarily and pipelined, the blocking and Tokio providers return one
   length-prefixed response per request in request order, each equal to the server's response to
   that request alone, and close the connection after a request that gets no response. Each UDP
   request datagram gets at most one response datagram, sent to its source and no larger than the
   configured payload size."

  RFC 1035 §4.2.2: "The message is prefixed with a two byte length field which gives the message
  length, excluding the two byte length field."
-/
namespace QV.Spec.Framing

/-- RFC 1035 §4.2.2 framing of one message (`m.length ≤ 65535`) -/
def frame (m : List UInt8) : List UInt8 :=
  UInt8.ofNat (m.length / 256) :: UInt8.ofNat (m.length % 256) :: m

inductive End where
  | open     -- every request was answered; the server goes on waiting for the peer
  | closed   -- a request got no response: the server closes the connection
  deriving DecidableEq, Repr

/-- **Message level.**  One framed response per request, in request order, each the handler's
    response to that request alone, up to the first request without a response, after which
    nothing more is sent and the connection is closed. -/
def respond (handler : List UInt8 → Option (List UInt8)) : List (List UInt8) → List UInt8 × End
  | [] => ([], .open)
  | m :: ms =>
    match handler m with
    | none => ([], .closed)
    | some r => ((frame r) ++ (respond handler ms).1, (respond handler ms).2)

/-- the length announced by a stream's first two octets -/
def lenPrefix : List UInt8 → Option Nat
  | a :: b :: _ => some (a.toNat * 256 + b.toNat)
  | _ => none

/-- **Stream level.**  The complete frames at the front of a byte stream, and the incomplete rest
    (fewer than two octets, or a length prefix whose message has not fully arrived). -/
def deframe (s : List UInt8) : List (List UInt8) × List UInt8 :=
  match h : lenPrefix s with
  | some len =>
    if hl : len + 2 ≤ s.length then
      (((s.drop 2).take len) :: (deframe (s.drop (len + 2))).1, (deframe (s.drop (len + 2))).2)
    else ([], s)
  | none => ([], s)
termination_by s.length
decreasing_by all_goals (simp [List.length_drop]; omega)

/-- what a connection that delivers the octets `s` (in whatever pieces) and is then closed by the
    peer must produce: the responses to its complete frames; an incomplete trailing frame is
    never handled -/
def specStream (handler : List UInt8 → Option (List UInt8)) (s : List UInt8) : List UInt8 × End :=
  respond handler (deframe s).1

/-- UDP: at most one response datagram per request datagram, at most `payload` octets -/
def udpOk (payload : Nat) (responses : List (List UInt8)) : Bool :=
  responses.length ≤ 1 && responses.all (·.length ≤ payload)

end QV.Spec.Framing
