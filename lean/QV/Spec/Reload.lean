/-
  QV.Spec.Reload — what a reload must do, zone by zone, written from the property text:

    "After the daemon reloads on SIGHUP, each configured zone is served from its newly loaded data
     if its file loaded and validated, from its previously served data if it failed, and with
     SERVFAIL if it has never loaded; zones removed from the configuration are no longer served.
     A zone's load failure never changes what any other zone serves."

  and from the daemon's documented contract (src/bin/quandaryd/zones.rs, doc of `reload`): "if the
  zone is currently loaded and has not changed on disk, then the currently loaded zone will be
  reused".

  The specification is *per zone*: the state of one zone after a history is a function of that
  zone's own view of the history (`Event`s) and of nothing else. Independence of zones is
  therefore part of the specification's shape, not an extra condition. Nothing here mentions
  catalogs, trees, or the order in which zones are processed.

  Interpretation choices (recorded in the evidence):
  * "has not changed on disk" is the daemon's criterion: same path, and the file's modification
    time is not newer than the one recorded when the served data was loaded (`unchanged`). Under
    the environment assumption `MtimeSound` (such a file still has the content that was loaded)
    reusing the old data *is* serving the newly loadable data; without it the property text does
    not say what to serve and the executable oracle puts no constraint on the case.
  * a file that cannot be stat'ed (missing, permission) counts as a failed load.
-/
import QV.Prelude

namespace QV.Spec.Reload

/-- what one zone is served from -/
inductive SZone where
  /-- answers come from data `data`, which was loaded from `path` when its mtime was `mtime` -/
  | good (data : Nat) (path : Nat) (mtime : Option Nat)
  /-- the zone is configured but has never loaded: every query gets SERVFAIL -/
  | failed
  deriving Repr, DecidableEq, Inhabited

/-- the data answers come from; `none` = SERVFAIL -/
def SZone.data : SZone → Option Nat
  | .good d _ _ => some d
  | .failed => none

/-- result of asking the file system for the modification time of the zone file -/
inductive Stat where
  | mtime (t : Nat)
  | noMtime        -- the platform has no modification times
  | unreadable     -- the file cannot be stat'ed (missing, permission, …)
  deriving Repr, DecidableEq, Inhabited

def Stat.time : Stat → Option Nat
  | .mtime t => some t
  | _ => none

/-- what a reload finds for one configured zone -/
structure ZView where
  path : Nat
  stat : Stat
  /-- would loading and validating the file succeed now, and with which data -/
  load : Option Nat
  deriving Repr, DecidableEq, Inhabited

/-- one zone's view of one (re)load event -/
inductive Event where
  | configured (v : ZView)
  | unconfigured          -- the configuration loaded, and this zone is not in it
  | configError           -- the configuration could not be loaded: nothing is reloaded
  deriving Repr, DecidableEq, Inhabited

/-- the daemon's criterion for "has not changed on disk since it was loaded" -/
def unchanged (prev : Option SZone) (v : ZView) : Bool :=
  match prev, v.stat with
  | some (.good _ p (some loadedAt)), .mtime t => p == v.path && t ≤ loadedAt
  | _, _ => false

/-- the zone's own previous state, or SERVFAIL if it has none -/
def keep (prev : Option SZone) : SZone := prev.getD .failed

/-- **the per-zone rule** -/
def specZone (prev : Option SZone) (v : ZView) : SZone :=
  if unchanged prev v then keep prev                      -- reuse
  else match v.stat, v.load with
    | .unreadable, _ => keep prev                         -- failed: own previous data / SERVFAIL
    | st, some d => .good d v.path st.time                -- loaded and validated: the new data
    | _, none => keep prev                                -- failed: own previous data / SERVFAIL

def specStep (prev : Option SZone) : Event → Option SZone
  | .configured v => some (specZone prev v)
  | .unconfigured => none                                  -- no longer served
  | .configError => prev                                   -- nothing changes

/-- state of one zone after its view of a history; `none` = not served at all -/
def specHist (events : List Event) : Option SZone := events.foldl specStep none

/-- Environment assumption under which "reuse" is indistinguishable from "reload": a file that
    is not newer than the version being served still loads to that version's data. -/
def MtimeSound (prev : Option SZone) (v : ZView) : Prop :=
  unchanged prev v = true → v.load = (keep prev).data

instance (prev : Option SZone) (v : ZView) : Decidable (MtimeSound prev v) := by
  unfold MtimeSound; infer_instance

/-- the assumption along a whole view of a history -/
def mtimeSoundHist : Option SZone → List Event → Bool
  | _, [] => true
  | prev, e :: r =>
    (match e with
     | .configured v => decide (MtimeSound prev v)
     | _ => true) && mtimeSoundHist (specStep prev e) r

end QV.Spec.Reload
