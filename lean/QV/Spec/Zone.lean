/-
  QV.Spec.Zone — what RFC 1034 §4.3.2, RFC 4592 and the texts of C06 / C20 / C21 demand of a zone
  store, stated over a *flat list of records*. Nothing here mentions a tree, a node, a hash map
  or the model's functions; only the plain data types of `QV.Model.ZoneTypes` are shared.
  RR type and class numbers are the RFCs' (NS = 2, CNAME = 5, …).

  Two layers: declarative (`NameExists`, `IsCut`, `IsClosestEncloser`, `BaseSpec`, `HasIssue` —
  used to state theorems) and executable (`specLookup*`, `specAdd`, `specIter*`, `specValidate` —
  run by the driver as oracle). `QV.Proofs.ZoneSpec` proves that the executable form satisfies
  the declarative one.

  Interpretations (recorded in DESIGN.md §6):
  * names are compared case-insensitively: all names here are case-folded label lists;
  * the apex always exists (even in an empty zone); a name *exists* if it is the apex or it or
    one of its descendants owns a record (RFC 4592 §2.2.2: empty non-terminals exist);
  * the *cut* for a name is the topmost name strictly below the apex, at or above the name, that
    owns an NS RRset; a referral is given even when the queried name is the cut itself;
  * the source of synthesis is `*.<closest encloser>` (RFC 4592 §3.3.1); it is used whenever the
    name does not exist, whatever the wildcard owns (NS at a wildcard gives no referral — RFC 4592
    §4.2 leaves it undefined; an empty non-terminal wildcard synthesises "no records");
  * `unchecked` lookups are constrained only when their precondition (name at or below the apex)
    holds; then they must answer like checked ones;
  * a zone is the list of the successfully added, non-duplicate records in order of addition; an
    RRset's RDATAs are listed in that order and its TTL is that of its first record;
  * C21: every NS RRset below the apex is checked as a delegation, including those occluded by a
    higher cut (the code's documented behaviour); address checks apply in classes IN and CH only.
-/
import QV.Model.ZoneTypes

namespace QV.Spec.Zone
open QV QV.NameL QV.Zone

def NS : Nat := 2
def CNAME : Nat := 5
def SOA : Nat := 6
def MX : Nat := 15
def A : Nat := 1
def AAAA : Nat := 28
def IN : Nat := 1
def CH : Nat := 3

/-- a zone as the RFCs see it: apex, class, and a list of records -/
structure SZone where
  apex : Name
  cls : Nat
  glue : GluePolicy
  recs : List Rec
  deriving Repr, Inhabited

/-! ## declarative layer -/

/-- `n` is at or below `m` -/
def Below (n m : Name) : Prop := m <:+ n

/-- RFC 4592 §2.2.2 -/
def NameExists (z : SZone) (n : Name) : Prop := n = z.apex ∨ ∃ r ∈ z.recs, n <:+ r.owner

def Owns (z : SZone) (n : Name) (t : Nat) : Prop := ∃ r ∈ z.recs, r.owner = n ∧ r.rtype = t

/-- a delegation point: strictly below the apex and owning NS -/
def IsDelegation (z : SZone) (c : Name) : Prop := c ≠ z.apex ∧ z.apex <:+ c ∧ Owns z c NS

/-- the topmost delegation at or above `n` -/
def IsCut (z : SZone) (n c : Name) : Prop :=
  IsDelegation z c ∧ c <:+ n ∧ ∀ c', IsDelegation z c' → c' <:+ n → c <:+ c'

/-- RFC 4592 §3.3.1: the longest existing ancestor-or-self of `n` -/
def IsClosestEncloser (z : SZone) (n ce : Name) : Prop :=
  ce <:+ n ∧ NameExists z ce ∧ ∀ e, e <:+ n → NameExists z e → e <:+ ce

/-! ## executable layer: RRsets of the flat list -/

def tails : Name → List Name
  | [] => [[]]
  | l :: n => (l :: n) :: tails n

def nameExists (z : SZone) (n : Name) : Bool :=
  n == z.apex || z.recs.any (fun r => n.isSuffixOf r.owner)

def owns (z : SZone) (n : Name) (t : Nat) : Bool :=
  z.recs.any (fun r => r.owner == n && r.rtype == t)

/-- the RRset `(n, t)`: its records in zone order -/
def rrset (z : SZone) (n : Name) (t : Nat) : Option Rrset :=
  match z.recs.filter (fun r => r.owner == n && r.rtype == t) with
  | [] => none
  | r :: rs => some ⟨t, r.ttl, (r :: rs).map (·.rdata)⟩

def insertType (t : Nat) : List Nat → List Nat
  | [] => [t]
  | u :: us => if t < u then t :: u :: us else if t = u then u :: us else u :: insertType t us

/-- the RR types present at `n`, ascending, each once -/
def typesAt (z : SZone) (n : Name) : List Nat :=
  ((z.recs.filter (fun r => r.owner == n)).map (·.rtype)).foldr insertType []

/-- all RRsets at `n`, by ascending type -/
def rrsetsAt (z : SZone) (n : Name) : List Rrset := (typesAt z n).filterMap (rrset z n)

/-! ## lookups (RFC 1034 §4.3.2 step 3, RFC 4592 §3.3) -/

/-- the names strictly below the apex that are at or above `n`, topmost first -/
def pathBelow (apex n : Name) : List Name :=
  ((tails n).filter (fun s => apex.isSuffixOf s && s != apex)).reverse

def specCut (z : SZone) (n : Name) : Option Name := (pathBelow z.apex n).find? (fun c => owns z c NS)

/-- longest existing ancestor-or-self (within the zone) -/
def closestEncloser (z : SZone) (n : Name) : Option Name :=
  ((tails n).filter (fun s => z.apex.isSuffixOf s)).find? (nameExists z)

/-- declarative statement of the outcome of the node search -/
inductive BaseSpec (z : SZone) (n : Name) (sbc : Bool) : Base → Prop
  | wrongZone (h : ¬ z.apex <:+ n) : BaseSpec z n sbc .wrongZone
  | referral {c s} (hz : z.apex <:+ n) (hs : sbc = false) (hc : IsCut z n c) (hr : rrset z c NS = some s) :
      BaseSpec z n sbc (.referral c s)
  | found (hz : z.apex <:+ n) (hs : sbc = true ∨ ¬ ∃ c, IsCut z n c) (he : NameExists z n) :
      BaseSpec z n sbc (.found (rrsetsAt z n) none)
  | synthesized {ce} (hz : z.apex <:+ n) (hs : sbc = true ∨ ¬ ∃ c, IsCut z n c) (he : ¬ NameExists z n)
      (hce : IsClosestEncloser z n ce) (hw : NameExists z (asterisk :: ce)) :
      BaseSpec z n sbc (.found (rrsetsAt z (asterisk :: ce)) (some (asterisk :: ce)))
  | nxDomain {ce} (hz : z.apex <:+ n) (hs : sbc = true ∨ ¬ ∃ c, IsCut z n c) (he : ¬ NameExists z n)
      (hce : IsClosestEncloser z n ce) (hw : ¬ NameExists z (asterisk :: ce)) :
      BaseSpec z n sbc .nxDomain

def specLookupBase (z : SZone) (n : Name) (sbc : Bool) : Base :=
  if !z.apex.isSuffixOf n then .wrongZone
  else
    match (if sbc then none else specCut z n) with
    | some c =>
      match rrset z c NS with
      | some s => .referral c s
      | none => .nxDomain                      -- impossible: a cut owns NS
    | none =>
      if nameExists z n then .found (rrsetsAt z n) none
      else
        match closestEncloser z n with
        | some ce =>
          if nameExists z (asterisk :: ce) then .found (rrsetsAt z (asterisk :: ce)) (some (asterisk :: ce))
          else .nxDomain
        | none => .nxDomain                    -- impossible: the apex exists

def findType (rrsets : List Rrset) (t : Nat) : Option Rrset := rrsets.find? (fun s => s.rtype == t)

/-- single-type lookup: the data if the name owns the type, else its CNAME, else "no records" -/
def specLookup (z : SZone) (n : Name) (t : Nat) (o : Opts) : LookupResult :=
  match specLookupBase z n o.searchBelowCuts with
  | .found rrsets sos =>
    match findType rrsets t with
    | some s => .found s sos
    | none =>
      match findType rrsets CNAME with
      | some c => .cname c sos
      | none => .noRecords sos
  | .referral c s => .referral c s
  | .nxDomain => .nxDomain
  | .wrongZone => .wrongZone

/-- address lookup: A always, AAAA in class IN -/
def specLookupAddrs (z : SZone) (n : Name) (o : Opts) : AddrsResult :=
  match specLookupBase z n o.searchBelowCuts with
  | .found rrsets sos => .found (findType rrsets A) (if z.cls = IN then findType rrsets AAAA else none) sos
  | .referral c s => .referral c s
  | .nxDomain => .nxDomain
  | .wrongZone => .wrongZone

def specLookupAll (z : SZone) (n : Name) (o : Opts) : AllResult :=
  match specLookupBase z n o.searchBelowCuts with
  | .found rrsets sos => .found rrsets sos
  | .referral c s => .referral c s
  | .nxDomain => .nxDomain
  | .wrongZone => .wrongZone

/-- does the spec constrain a lookup with these options? (`unchecked` shifts the in-zone check
    to the caller) -/
def constrained (z : SZone) (n : Name) (o : Opts) : Bool := !o.unchecked || z.apex.isSuffixOf n

/-! ## C20: adding records -/

/-- "succeeds exactly when its owner is at or below the apex, its class matches the zone's and
    its TTL matches its RRset's"; a record whose RDATA equals (per `eqv`) one already in its
    RRset is not stored again. -/
def specAdd (eqv : Eqv) (z : SZone) (r : Rec) : Except AddErr SZone :=
  if !z.apex.isSuffixOf r.owner then .error .NotInZone
  else if r.cls ≠ z.cls then .error .ClassMismatch
  else if z.recs.any (fun r' => r'.owner == r.owner && r'.rtype == r.rtype && r'.ttl != r.ttl) then
    .error .TtlMismatch
  else if z.recs.any (fun r' => r'.owner == r.owner && r'.rtype == r.rtype && eqv r.cls r.rtype r.rdata r'.rdata) then
    .ok z
  else .ok { z with recs := z.recs ++ [r] }

/-- a rejected add leaves the zone as it was -/
def specAddM (eqv : Eqv) (z : SZone) (r : Rec) : SZone :=
  match specAdd eqv z r with
  | .ok z' => z'
  | .error _ => z

def specBuild (eqv : Eqv) (z : SZone) (rs : List Rec) : SZone := rs.foldl (specAddM eqv) z

/-- the nodes of the zone: the apex and every name between the apex and an owner -/
def IsNode (z : SZone) (n : Name) : Prop := n = z.apex ∨ (n ≠ z.apex ∧ z.apex <:+ n ∧ ∃ r ∈ z.recs, n <:+ r.owner)

/-- remove repeated names (keeps the last occurrence of each) -/
def dedup : List Name → List Name
  | [] => []
  | a :: l => if a ∈ l then dedup l else a :: dedup l

def specNodes (z : SZone) : List Name :=
  dedup (z.apex :: z.recs.flatMap (fun r => pathBelow z.apex r.owner))

def specIterByNode (z : SZone) : List (Name × List Rrset) := (specNodes z).map (fun n => (n, rrsetsAt z n))

def specIterByRrset (z : SZone) : List (Name × Rrset) :=
  (specNodes z).flatMap (fun n => (rrsetsAt z n).map (fun s => (n, s)))

def specSoa (z : SZone) : Option Rrset := rrset z z.apex SOA
def specNs (z : SZone) : Option Rrset := rrset z z.apex NS

/-! ## C21: the reference checker -/

def hasAddrClass (cls : Nat) : Bool := cls == IN || cls == CH

def addrsPresent (cls : Nat) (a aaaa : Option Rrset) : Bool := a.isSome || (cls == IN && aaaa.isSome)

/-- an in-zone, authoritative name without address records (or not existing at all) -/
def noAddress (z : SZone) (g : Name) : Bool :=
  match specLookupAddrs z g ⟨false, false⟩ with
  | .found a aaaa _ => !addrsPresent z.cls a aaaa
  | .nxDomain => true
  | _ => false

/-- glue for `g` is present: searching below cuts finds an address at `g` -/
def glueOk (z : SZone) (g : Name) : Bool :=
  match specLookupAddrs z g ⟨false, true⟩ with
  | .found a aaaa _ => addrsPresent z.cls a aaaa
  | _ => false

/-- does the delegation `child NS g` need glue? `g` must lie below a cut `c`; under the wide
    policy always, under the narrow one only when that cut is `child` itself -/
def needsGlue (z : SZone) (child g : Name) : Bool :=
  match specLookupAddrs z g ⟨false, false⟩ with
  | .referral c _ => (match z.glue with | .wide => true | .narrow => c == child)
  | _ => false

def mxName (nameOf : NameOf) (rd : Rdata) : Option Name := if rd.length < 2 then none else nameOf (rd.drop 2)

/-- the zone holds an NS / MX RDATA (in a class with addresses) whose name field does not parse -/
def InvalidRdata (nameOf : NameOf) (z : SZone) : Prop :=
  hasAddrClass z.cls = true ∧ ∃ r ∈ z.recs, (r.rtype = NS ∧ nameOf r.rdata = none) ∨ (r.rtype = MX ∧ mxName nameOf r.rdata = none)

/-- the issues of a zone, as a predicate ("set comprehension over the flat list") -/
def HasIssue (nameOf : NameOf) (z : SZone) : Issue → Prop
  | .MissingApexSoa => ¬ Owns z z.apex SOA
  | .TooManyApexSoas => 2 ≤ (z.recs.filter (fun r => r.owner == z.apex && r.rtype == SOA)).length
  | .MissingApexNs => ¬ Owns z z.apex NS
  | .MissingNsAddress g => hasAddrClass z.cls = true ∧
      ∃ r ∈ z.recs, r.rtype = NS ∧ nameOf r.rdata = some g ∧ noAddress z g = true
  | .MissingMxAddress g => hasAddrClass z.cls = true ∧
      ∃ r ∈ z.recs, r.rtype = MX ∧ mxName nameOf r.rdata = some g ∧ noAddress z g = true
  | .MissingGlue g => hasAddrClass z.cls = true ∧
      ∃ r ∈ z.recs, r.rtype = NS ∧ r.owner ≠ z.apex ∧ nameOf r.rdata = some g ∧
        needsGlue z r.owner g = true ∧ glueOk z g = false
  | .DuplicateCname o => 2 ≤ (z.recs.filter (fun r => r.owner == o && r.rtype == CNAME)).length
  | .OtherRecordsAtCname o => Owns z o CNAME ∧ ∃ t, t ≠ CNAME ∧ Owns z o t
  | .NsAtWildcard o => Owns z o NS ∧ isWildcard o = true

/-- only the MX-address and NS-at-wildcard issues are warnings -/
def specIsError : Issue → Bool
  | .MissingMxAddress _ | .NsAtWildcard _ => false
  | _ => true

/-! executable form of the reference checker -/

def apexIssues (z : SZone) : List Issue :=
  let apexSoa := z.recs.filter (fun r => r.owner == z.apex && r.rtype == SOA)
  (if apexSoa.isEmpty then [.MissingApexSoa] else []) ++
  (if 2 ≤ apexSoa.length then [.TooManyApexSoas] else []) ++
  (if !owns z z.apex NS then [.MissingApexNs] else [])

/-- the issues caused by one NS record `r` -/
def nsRecIssues (nameOf : NameOf) (z : SZone) (r : Rec) : List Issue :=
  match nameOf r.rdata with
  | some g =>
    (if noAddress z g then [Issue.MissingNsAddress g] else []) ++
    (if r.owner != z.apex && needsGlue z r.owner g && !glueOk z g then [Issue.MissingGlue g] else [])
  | none => []

/-- the issues caused by one MX record -/
def mxRecIssues (nameOf : NameOf) (z : SZone) (r : Rec) : List Issue :=
  match mxName nameOf r.rdata with
  | some g => if noAddress z g then [Issue.MissingMxAddress g] else []
  | none => []

/-- the issues attached to an owner name -/
def ownerIssues (z : SZone) (o : Name) : List Issue :=
  (if 2 ≤ (z.recs.filter (fun r => r.owner == o && r.rtype == CNAME)).length then [Issue.DuplicateCname o] else []) ++
  (if owns z o CNAME && z.recs.any (fun r => r.owner == o && r.rtype != CNAME) then [Issue.OtherRecordsAtCname o] else []) ++
  (if owns z o NS && isWildcard o then [Issue.NsAtWildcard o] else [])

/-- executable form: `none` = invalid RDATA, else the list of issues (a set: order and
    multiplicity carry no meaning) -/
def specValidate (nameOf : NameOf) (z : SZone) : Option (List Issue) :=
  let ac := hasAddrClass z.cls
  let nsRecs := z.recs.filter (fun r => r.rtype == NS)
  let mxRecs := z.recs.filter (fun r => r.rtype == MX)
  if ac && (nsRecs.any (fun r => (nameOf r.rdata).isNone) || mxRecs.any (fun r => (mxName nameOf r.rdata).isNone)) then none
  else
    some (apexIssues z ++
      (if ac then nsRecs.flatMap (nsRecIssues nameOf z) else []) ++
      (if ac then mxRecs.flatMap (mxRecIssues nameOf z) else []) ++
      (dedup (z.recs.map (·.owner))).flatMap (ownerIssues z))

end QV.Spec.Zone
