/-
  QV.Spec.Catalog — what a zone catalog is, written from the property text and RFC 1034 §4.3.2
  step 2 ("find the zone which is the nearest ancestor to QNAME"), independently of the tree.

  A catalog is a finite map  (class × case-folded name) ⇀ entry.  Names are lists of labels, left
  to right, without the root label; `foldName` folds ASCII case (RFC 4343).

    insert   puts the entry under the key of its own name and class, replacing what was there
    erase    deletes that key and nothing else
    get      the entry stored under exactly this key
    lookup   among the entries of that class whose name is a suffix (label-wise) of the query,
             the one with the longest name
    iter     all entries

  Nothing here mentions nodes, children, levels or pruning. The map is polymorphic in the entry
  type `ε`; the key of an entry is supplied by the caller.
-/
import QV.Prelude

namespace QV.Spec.Catalog
open QV

/-- a name: labels left to right, root label omitted -/
abbrev SName := List (List UInt8)

/-- ASCII case folding of a name -/
def foldName (n : SName) : SName := n.map (fun l => l.map lowerU8)

/-- (class, case-folded name) -/
abbrev Key := Nat × SName

/-- finite map as an association list; the first pair with a key is the binding of that key -/
abbrev SMap (ε : Type) := List (Key × ε)

variable {ε : Type}

def sfind (m : SMap ε) (k : Key) : Option ε :=
  match m with
  | [] => none
  | (k', v) :: r => if k' = k then some v else sfind r k

def serase (m : SMap ε) (k : Key) : SMap ε := m.filter (fun p => p.1 ≠ k)

def sinsert (m : SMap ε) (k : Key) (v : ε) : SMap ε := (k, v) :: serase m k

/-- exact lookup -/
def specGet (m : SMap ε) (n : SName) (cls : Nat) : Option ε := sfind m (cls, foldName n)

/-- longest-suffix search over an already folded name: try the name itself, then the name
    without its first label, … , finally the root -/
def longestSuffix (m : SMap ε) (cls : Nat) : SName → Option ε
  | [] => sfind m (cls, [])
  | l :: r => (sfind m (cls, l :: r)).or (longestSuffix m cls r)

/-- the entry of class `cls` whose name is the longest suffix of `n` -/
def specLookup (m : SMap ε) (n : SName) (cls : Nat) : Option ε := longestSuffix m cls (foldName n)

/-- all entries (order irrelevant) -/
def specIter (m : SMap ε) : List ε := m.map (·.2)

/-- Declarative reading of "the entry whose name is the longest suffix of `n`": `r` is bound to
    a suffix `s` of `n`, and no longer suffix of `n` is bound. -/
def IsLongestMatch (m : SMap ε) (cls : Nat) (n : SName) (r : Option ε) : Prop :=
  match r with
  | some e => ∃ s, s <:+ n ∧ sfind m (cls, s) = some e ∧
      ∀ s', s' <:+ n → s.length < s'.length → sfind m (cls, s') = none
  | none => ∀ s, s <:+ n → sfind m (cls, s) = none

/-! ### the single-zone catalog: the map with one binding -/

def single (k : Key) (v : ε) : SMap ε := [(k, v)]

end QV.Spec.Catalog
