/-
  QV.Spec.NameWire — RFC 1035 §4.1.4 name decoding, written from the RFC text.

  The relation `Decodes msg pos cs w n k` says: starting at `pos` (which lies in the chunk that
  began at `cs`), the message holds a possibly compressed name whose uncompressed wire form is
  `w`, with `n` labels (root included), and `k` is the number of contiguous octets occupied at
  `pos` (up to and including the terminating root label or the first pointer).

  Nothing here mentions the Rust parser, its accumulator, or the generated constants: the
  numbers 63, 255, 192 (0xc0) are the RFC's.

  Interpretation (DESIGN.md §6 C14): "pointers strictly backwards" = the target is before the
  start of the chunk that contains the pointer.
-/
import QV.Prelude

namespace QV.Spec
open QV

/-- top two bits set: a compression pointer (RFC 1035 §4.1.4) -/
def specIsPtr (b : UInt8) : Prop := 192 ≤ b.toNat
instance (b : UInt8) : Decidable (specIsPtr b) := by unfold specIsPtr; infer_instance

/-- 14-bit offset of a pointer whose two octets are `a`, `b` -/
def specPtr (a b : UInt8) : Nat := (a.toNat - 192) * 256 + b.toNat

inductive Decodes (msg : Bytes) : Nat → Nat → List UInt8 → Nat → Nat → Prop
  /-- the root label ends the name -/
  | null {pos cs} (h : pos < msg.size) (h0 : msg[pos] = 0) : Decodes msg pos cs [0] 1 1
  /-- an ordinary label: a length octet 1..63 and that many octets, all inside the message -/
  | label {pos cs w n k} (h : pos < msg.size) (h0 : msg[pos] ≠ 0) (h63 : msg[pos].toNat ≤ 63)
      (hin : pos + msg[pos].toNat + 1 ≤ msg.size)
      (rest : Decodes msg (pos + msg[pos].toNat + 1) cs w n k) :
      Decodes msg pos cs ((msg.extract pos (pos + msg[pos].toNat + 1)).toList ++ w) (n + 1)
        (msg[pos].toNat + 1 + k)
  /-- a pointer: two octets inside the message, target strictly before the current chunk; the
      name continues at the target, which starts a new chunk -/
  | ptr {pos cs w n k} (h : pos + 1 < msg.size) (hp : specIsPtr (msg[pos]'(by omega)))
      (hb : specPtr (msg[pos]'(by omega)) (msg[pos+1]'h) < cs)
      (rest : Decodes msg (specPtr (msg[pos]'(by omega)) (msg[pos+1]'h))
                (specPtr (msg[pos]'(by omega)) (msg[pos+1]'h)) w n k) :
      Decodes msg pos cs w n 2

/-- A compressed name at `start`: `Decodes` plus the 255-octet limit on the uncompressed form. -/
def DecodesName (msg : Bytes) (start : Nat) (w : List UInt8) (n k : Nat) : Prop :=
  Decodes msg start start w n k ∧ w.length ≤ 255

/-! ### executable form (oracle): decode labels first, check the total length at the end -/

/-- Follow labels and pointers; `fuel` bounds the number of steps (every step either advances
    inside the message or moves to a strictly earlier chunk, so `msg.size² + 2` always suffices;
    callers pass that). Returns the labels (each with its length octet), and the first-chunk
    length. No length limit on the name is applied here. -/
def specWalk (msg : Bytes) : Nat → Nat → Nat → Option (List (List UInt8) × Nat)
  | 0, _, _ => none
  | fuel+1, pos, cs =>
    match msg[pos]? with
    | none => none
    | some b =>
      if b = 0 then some ([[0]], 1)
      else if b.toNat ≤ 63 then
        if pos + b.toNat + 1 ≤ msg.size then
          match specWalk msg fuel (pos + b.toNat + 1) cs with
          | some (ls, k) => some ((msg.extract pos (pos + b.toNat + 1)).toList :: ls, b.toNat + 1 + k)
          | none => none
        else none
      else if 192 ≤ b.toNat then
        match msg[pos+1]? with
        | none => none
        | some b2 =>
          let t := (b.toNat - 192) * 256 + b2.toNat
          if t < cs then
            match specWalk msg fuel t t with
            | some (ls, _) => some (ls, 2)
            | none => none
          else none
      else none

/-- executable spec decoder: `(wire, nlabels, firstChunkLen)` -/
def specDecodeName (msg : Bytes) (start : Nat) : Option (List UInt8 × Nat × Nat) :=
  match specWalk msg (msg.size * msg.size + msg.size + 2) start start with
  | some (ls, k) =>
    let w := ls.flatten
    if w.length ≤ 255 then some (w, ls.length, k) else none
  | none => none

/-- uncompressed name at the beginning of `b`: a compressed name at 0 that uses no pointer.
    Executable: walk labels without pointers. -/
def specWalkU (b : Bytes) : Nat → Nat → Option (List (List UInt8))
  | 0, _ => none
  | fuel+1, pos =>
    match b[pos]? with
    | none => none
    | some l =>
      if l = 0 then some [[0]]
      else if l.toNat ≤ 63 then
        match specWalkU b fuel (pos + l.toNat + 1) with
        | some ls => some ((b.extract pos (pos + l.toNat + 1)).toList :: ls)
        | none => none
      else none

/-- uncompressed decode: `(wire, nlabels)`; the name occupies `wire.length` octets. Labels must
    lie inside the buffer. -/
def specDecodeUncompressed (b : Bytes) (useAll : Bool) : Option (List UInt8 × Nat) :=
  match specWalkU b (b.size + 1) 0 with
  | some ls =>
    let w := ls.flatten
    if w.length ≤ 255 ∧ w.length ≤ b.size ∧ (useAll → w.length = b.size) then some (w, ls.length) else none
  | none => none

end QV.Spec
