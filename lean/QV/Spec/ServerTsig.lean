/-
  QV.Spec.ServerTsig — what property C10 demands of a server that receives a TSIG-signed request
  (RFC 8945 §5.2, §5.3), stated over the request octets, the configured keys, the server's clock
  and the response octets only.  Nothing here refers to a model of the server.

  Three parts:

  1. `signRequest` — an RFC 8945 §4.3 *signer* (the "independent signer" of the property): from an
     unsigned request and signing parameters it produces the signed message (digest input from
     `QV.Spec.Tsig.digestInput`, the MAC primitive is a parameter).  It also produces deliberately
     wrong messages (wrong key, truncated MAC, shifted time, tampered octets, misplaced TSIG RR).
  2. `specTsigOutcome` — the decision table of C10 in RFC 8945 §5.2's order:
        algorithm unknown (§5.2.1? "key/algorithm not known") ⇒ BADKEY · key unknown, or configured for another
        algorithm ⇒ BADKEY · MAC size not allowed (§5.2.2.1) ⇒ FORMERR · MAC wrong (§5.2.2) ⇒ BADSIG ·
        time outside the fudge window (§5.2.3) ⇒ BADTIME · otherwise authenticated.
  3. `auditResponse` — what the response must then look like (RFC 8945 §5.3, §5.4.x and the property
     text): RCODE, TSIG error, MAC empty / equal to the RFC computation over the *response's own
     octets* with the request MAC prepended (§5.3.1, §4.3.1), no answer data unless authenticated,
     BADTIME responses signed and carrying the server time in Other Data with the client's Time
     Signed, every other response stamped with the server's time, fudge 300, original ID, key and
     algorithm name echoed, TSIG last; and the documented truncation rule when the TSIG RR cannot
     fit (RFC 8945 §5.3: "If addition of the TSIG record will cause the message to be truncated,
     the server MUST alter the response so that a TSIG can be included" — quandary's variant after
     the repair of D03: question only, TC set, RCODE NOERROR, no TSIG, so that the client retries
     over TCP).

  Interpretation choices (recorded in DESIGN.md §6 C10):
    * "original ID = request ID": the response TSIG carries the Original ID of the *request's TSIG
      RR* (equal to the request's message ID unless a forwarder rewrote the ID, RFC 8945 §5.5);
    * names are compared case-insensitively; the digest uses the canonical (lower-case) form;
    * "fits" is decided on the uncompressed size of the TSIG RR (what RFC 8945 §5.3 can promise
      without knowing the compressor): 12 + question + OPT (11 octets, when the request had one)
      + TSIG RR ≤ limit, limit = 65535 over TCP, over UDP 512 or the negotiated EDNS size;
    * "answered normally": same RCODE, AA and answer/authority sections as the response to the same
      request without the TSIG RR; the additional section may have lost optional records (less
      room), and over UDP the signed response may be truncated (TC, no data) where the plain one is
      not.  The comparison is made only when taking the TSIG RR out does not change what the request
      *asks* (`plainComparable`): a compression pointer may point into the header, and ARCOUNT — which
      `stripTsigRr` decrements — then becomes part of a name (QNAME `C0 0B`; OPT owner `C0 0B` with
      ARCOUNT 256).  For such requests "the same request without the TSIG RR" does not exist and the
      clause is skipped; every other clause applies.  It is also made only when the plain response
      leaves room for the TSIG RR (`plain size + uncompressed TSIG RR ≤ limit`): within that margin the
      signed run, having less room, may legitimately end differently — SERVFAIL over TCP because a
      mandatory record no longer fits (TC is not available over TCP), or another selection of optional
      additional records (they are dropped one by one, so less room does not give a subset) — and not
      when the plain response is SERVFAIL while the signed one is not: the plain run may have reached an
      unrenderable optional record that the signed run dropped earlier for lack of room.  Answers that
      close to the limit are audited by C04 / C05.
-/
import QV.Prelude
import QV.Spec.Tsig
import QV.Spec.MsgDecode
import QV.Spec.Server

namespace QV.Spec.ServerTsig
open QV QV.Spec QV.Spec.Tsig

/-- the MAC primitive: `hm sha256 key data` (HMAC-SHA256 when `sha256`, else HMAC-SHA1) -/
abbrev Hm := Bool → Octets → Octets → Octets

/-- one configured key: name (uncompressed wire form, any letter case), algorithm, secret -/
structure KeyCfg where
  name : Octets
  sha256 : Bool
  secret : Octets
  deriving Repr, DecidableEq, Inhabited

/-! ### 1. the signer -/

structure SignParams where
  skey : Octets            -- owner octets of the TSIG RR
  salg : Octets            -- algorithm name in the RDATA
  sha256 : Bool            -- hash actually used
  secret : Octets
  offset : Int             -- time signed = now + offset
  fudge : Nat
  maclen : Nat
  tamper : Option (Nat × Nat)
  tweak : Nat
  idmode : Nat
  err : Nat
  other : Octets
  cls : Nat
  ttl : Nat
  place : String
  deriving Repr, Inhabited

def clampTime (now : Nat) (offset : Int) : Nat :=
  let t : Int := (now : Int) + offset
  if t < 0 then 0 else if t ≥ 281474976710656 then 281474976710655 else t.toNat

/-- add `by` to the 16-bit field at `off` (mod 2^16) -/
def bump (m : Octets) (off by' : Nat) : Octets :=
  m.take off ++ u16 ((field16 m off + by') % 65536) ++ m.drop (off + 2)

def setId (m : Octets) (id : Nat) : Octets := u16 id ++ m.drop 2

/-- RFC 1035 §4.1.3 resource record -/
def rrOctets (owner : Octets) (ty cls ttl : Nat) (rdata : Octets) : Octets :=
  owner ++ u16 ty ++ u16 cls ++ u32 ttl ++ u16 rdata.length ++ rdata

def xorAt (m : Octets) (p x : Nat) : Octets :=
  match m[p]? with
  | some b => m.take p ++ [b ^^^ UInt8.ofNat x] ++ m.drop (p + 1)
  | none => m

structure Signed where
  msg : Octets
  tsigStart : Nat
  tsigEnd : Nat
  macOff : Nat
  macLen : Nat
  deriving Repr, Inhabited

/-- RFC 8945 §4.3: sign `req` (≥ 12 octets).  The digest is taken over the message as it is before
    the TSIG RR is added (§4.3.2) with the original ID in place of the message ID. -/
def signRequest (hm : Hm) (req : Octets) (s : SignParams) (now : Nat) : Signed :=
  let time := clampTime now s.offset
  let id := field16 req 0
  let origid := (id + s.tweak) % 65536
  -- the key name as a reader will see it (the owner may be a compression pointer into `req`)
  let keyName : Octets := match specDecodeName (req ++ s.skey).toArray req.length with
    | some (w, _, _) => w
    | none => s.skey
  let tag : Octets := match labelsOf keyName, labelsOf s.salg with
    | some kn, some an =>
      let v : Vars := { keyName := kn, algName := an, timeSigned := time, fudge := s.fudge, error := s.err, other := s.other }
      -- `digestInput` expects the message with the TSIG RR counted in ARCOUNT
      hm s.sha256 s.secret (digestInput .request (bump req 10 1) (if s.idmode = 0 then origid else id) v [])
    | _, _ => []
  let mac := tag.take s.maclen ++ List.replicate (s.maclen - tag.length) 0
  let rd := s.salg ++ u48 time ++ u16 s.fudge ++ u16 mac.length ++ mac ++ u16 origid ++ u16 s.err ++
            u16 s.other.length ++ s.other
  let rr := rrOctets s.skey 250 s.cls s.ttl rd
  let m0 := req ++ rr
  let m1 :=
    if s.place = "notlast" then bump (m0 ++ rrOctets [0] 1 1 0 [192, 0, 2, 1]) 10 2
    else if s.place = "two" then bump (m0 ++ rr) 10 2
    else if s.place = "an" then bump m0 6 1
    else if s.place = "trail" then bump (m0 ++ [0]) 10 1
    else bump m0 10 1
  let m2 := match s.tamper with
    | some (p, x) => xorAt m1 (p % m1.length) x
    | none => m1
  ⟨m2, req.length, req.length + rr.length, req.length + s.skey.length + 10 + s.salg.length + 10, s.maclen⟩

/-- the signed message with the TSIG RR taken out again (ARCOUNT − 1) -/
def stripped (sg : Signed) : Octets :=
  let m := sg.msg.take sg.tsigStart ++ sg.msg.drop sg.tsigEnd
  if m.length ≥ 12 then bump m 10 65535 else m

/-- the MAC field of the request as sent -/
def priorMac (sg : Signed) : Octets := (sg.msg.drop sg.macOff).take sg.macLen

/-! ### 2. the decision table -/

inductive Outcome
  | authenticated
  | badKey        -- NOTAUTH, TSIG error BADKEY (17), unsigned
  | formErr       -- FORMERR, TSIG error BADSIG (16), unsigned            (RFC 8945 §5.2.2.1)
  | badSig        -- NOTAUTH, TSIG error BADSIG (16), unsigned            (§5.2.2)
  | badTime       -- NOTAUTH, TSIG error BADTIME (18), signed, server time in Other Data (§5.2.3)
  deriving Repr, DecidableEq, Inhabited

def Outcome.toString : Outcome → String
  | .authenticated => "auth" | .badKey => "badkey" | .formErr => "formerr-mac" | .badSig => "badsig"
  | .badTime => "badtime"

def lowerWire (w : Octets) : Octets := w.map lower

/-- the configured key named `kn` (names compare case-insensitively) -/
def findKey (keys : List KeyCfg) (kn : List Octets) : Option KeyCfg :=
  keys.find? (fun k => (labelsOf k.name).map (·.map (·.map lower)) = some (kn.map (·.map lower)))

def outSize (sha256 : Bool) : Nat := if sha256 then 32 else 20

/-- C10's decision table.  `kn` = key name (labels), `f` = the fields of the request's TSIG RDATA,
    `tagOf k` = the full-length MAC of the RFC digest input under key `k`. -/
def specTsigOutcome (keys : List KeyCfg) (kn : List Octets) (f : RdataFields) (tagOf : KeyCfg → Octets)
    (now : Nat) : Outcome :=
  match outputSizeOf f.algName with
  | none => .badKey                                     -- algorithm not implemented
  | some out =>
    match findKey keys kn with
    | none => .badKey                                   -- key not configured
    | some k =>
      if outSize k.sha256 ≠ out then .badKey            -- key configured for another algorithm
      else match verdict out (tagOf k) f.mac now f.timeSigned f.fudge with
        | .formErr => .formErr
        | .badSig => .badSig
        | .badTime => .badTime
        | .ok => .authenticated

/-! ### 3. the response -/

/-- the last record of the additional section of a request that `specScan` classified as
    `tsigReached`: walk question, answer+authority and additional records by delimiting them -/
def walk (msg : Bytes) : Nat → Nat → Option Server.Delim
  | 0, _ => none
  | n+1, pos =>
    match Server.specDelimit msg pos with
    | none => none
    | some d => if n = 0 then some d else walk msg n d.next

def findTsig (msg : Bytes) : Option Server.Delim :=
  let qd := Server.hdr msg 4
  let p1 : Option Nat :=
    if qd = 0 then some 12 else match specQuestionAt msg 12 with
      | some (_, _, _, nx) => some nx
      | none => none
  match p1 with
  | none => none
  | some p => walk msg (Server.hdr msg 6 + Server.hdr msg 8 + Server.hdr msg 10) p

/-- the request with its (last) TSIG RR taken out again and ARCOUNT decremented: what a client
    without a key would have sent ("answered normally" compares with the response to this) -/
def stripTsigRr (req : Bytes) : Option Bytes :=
  match findTsig req with
  | some d =>
    let m := (req.extract 0 d.pos).toList ++ (req.extract d.next req.size).toList
    some (bump m 10 65535).toArray
  | none => none

/-- the decision table `Server.specScanWith` applies after a scan that ended at `pos` without finding
    anything wrong: what a request with question `q` is answered once its TSIG RR (ending at `pos`) has
    been accepted -/
def postVerdict (lookup : List UInt8 → Nat → Option Server.ZoneKind) (msg : Bytes) (q : Option DQuestion)
    (pos : Nat) : Server.Verdict :=
  if pos < msg.size then .formErr
  else if (msg.getD 2 0).toNat / 8 % 16 ≠ 0 then .notImp
  else match q with
    | none => .formErr
    | some qq =>
      if 251 ≤ qq.qtype ∧ qq.qtype ≤ 254 then .notImp
      else if qq.qclass = 255 then .notImp
      else match lookup qq.qname qq.qclass with
        | none => .refused
        | some .loaded => .answer
        | some _ => .servFailZone

/-- taking the TSIG RR out does not change what the request asks: the scan of the stripped request
    finds the same question, the same EDNS state and UDP limit, and ends with the verdict the decision
    table gives the signed request after its TSIG RR.  (It can fail only when a compression pointer of
    the question or of the OPT owner points into octets 10–11 of the header, ARCOUNT.) -/
def plainComparable (cat : List Server.ZoneCfg) (serverSize : Nat) (req : Bytes) : Bool :=
  match findTsig req, stripTsigRr req with
  | some d, some p =>
    let sc := Server.specScan cat serverSize req
    let sp := Server.specScan cat serverSize p
    sp.respond && decide (sp.question = sc.question) && decide (sp.edns = sc.edns) &&
      decide (sp.limitUdp = sc.limitUdp) &&
      decide (sp.verdict = postVerdict (fun qn qc => (Server.specCatalogLookup cat qn qc).map (·.kind)) req
        sc.question d.next)
  | _, _ => false

structure RrKey where
  owner : Octets
  ty : Nat
  cls : Nat
  ttl : Nat
  rdata : Octets
  deriving DecidableEq, Repr

def rrKey (r : DRr) : RrKey := ⟨r.owner.map lower, r.ty, r.cls, r.rawTtl, r.rdata⟩

def subMultiset (a b : List RrKey) : Bool := a.all (fun x => a.count x ≤ b.count x)
def sameMultiset (a b : List RrKey) : Bool := subMultiset a b && subMultiset b a

def plainRrs (l : List DRr) : List RrKey := (l.filter (fun r => r.ty ≠ 41 ∧ r.ty ≠ 250)).map rrKey

inductive Resp
  | none | panic | bytes (b : Bytes)
  deriving Inhabited

/-- everything the audit needs to know about the request -/
structure ReqView where
  keyName : List Octets
  fields : RdataFields
  prefixOctets : Octets       -- the request up to the TSIG RR
  outcome : Outcome
  key : Option KeyCfg

def viewRequest (hm : Hm) (keys : List KeyCfg) (req : Bytes) (now : Nat) : Option ReqView :=
  match findTsig req with
  | none => none
  | some d =>
    match specDecodeName req d.pos, parseRdata (req.extract (d.ownerEnd + 10) d.next).toList with
    | some (owner, _, _), some f =>
      match labelsOf owner with
      | none => none
      | some kn =>
        let pre := (req.extract 0 d.pos).toList
        let v : Vars := { keyName := kn, algName := f.algName, timeSigned := f.timeSigned, fudge := f.fudge,
                          error := f.error, other := f.other }
        let tagOf := fun (k : KeyCfg) => hm k.sha256 k.secret (digestInput .request pre f.originalId v [])
        some ⟨kn, f, pre, specTsigOutcome keys kn f tagOf now, findKey keys kn⟩
    | _, _ => none

/-- audit of one response to a request in which a syntactically acceptable TSIG RR was reached.
    `plain` = the response to the same request without the TSIG RR.  Returns (tags, class). -/
def auditResponse (hm : Hm) (sc : Server.Scan) (rv : ReqView) (now : Nat) (udp : Bool) (reqId : Nat)
    (cmp : Bool) (r plain : Resp) : List String × String :=
  let tr := if udp then "udp" else "tcp"
  let f := rv.fields
  let out := (outputSizeOf f.algName).getD 0
  let (macLen, otherLen) : Nat × Nat := match rv.outcome with
    | .authenticated => (out, 0)
    | .badTime => (out, 6)
    | _ => (0, 0)
  let qlen := match sc.question with | some q => q.qname.length + 4 | none => 0
  let need := 12 + qlen + (if sc.edns then 11 else 0) + (canonName rv.keyName).length + 10 +
              (canonName f.algName).length + 16 + macLen + otherLen
  let limit := if udp then sc.limitUdp else 65535
  let fits := need ≤ limit
  let cls := if fits then rv.outcome.toString else "nofit-" ++ rv.outcome.toString
  match r with
  | .panic => ([s!"C10:panic-{tr}", s!"C01:panic-{tr}"], cls)
  | .none => ([s!"C10:no-response-{tr}"], cls)
  | .bytes b =>
    match specDecodeMsg b with
    | none => ([s!"C10:undecodable-{tr}"], cls)
    | some d =>
      let tsigs := d.ar.filter (fun r => r.ty = 250)
      let noData := Server.noData d
      let opts := d.ar.filter (fun r => r.ty = 41)
      let extRcode := d.rcode + 16 * (match opts with | [o] => o.rawTtl / 16777216 | _ => 0)
      if !fits then
        -- the TSIG RR cannot be included: question only, TC, NOERROR, no TSIG
        ((if !d.tc then [s!"C10:nofit-tc-clear-{tr}"] else []) ++
         (if extRcode ≠ 0 then [s!"C10:nofit-rcode-{extRcode}-{tr}"] else []) ++
         (if !noData then [s!"C10:nofit-data-{tr}"] else []) ++
         (if tsigs ≠ [] then [s!"C10:nofit-tsig-{tr}"] else []), cls)
      else
      match tsigs with
      | [] => ([s!"C10:tsig-missing-{tr}"], cls)
      | _ :: _ :: _ => ([s!"C10:two-tsig-{tr}"], cls)
      | [t] =>
        match parseRdata t.rdata, labelsOf t.owner with
        | some rf, some rkn =>
          let lc := fun (l : List Octets) => l.map (·.map lower)
          let expErr : Nat := match rv.outcome with
            | .authenticated => 0 | .badKey => 17 | .formErr => 16 | .badSig => 16 | .badTime => 18
          let expRcode : Option Nat := match rv.outcome with
            | .authenticated => none | .formErr => some 1 | _ => some 9
          let signed := rv.outcome = .authenticated ∨ rv.outcome = .badTime
          -- RFC 8945 §5.3.1 / §4.3: the MAC a client will compute over this very response
          let v : Vars := { keyName := rkn, algName := rf.algName, timeSigned := rf.timeSigned, fudge := rf.fudge,
                            error := rf.error, other := rf.other }
          let specMac : Octets := match rv.key with
            | some k => hm k.sha256 k.secret
                (digestInput .response (b.extract 0 t.pos).toList rf.originalId v f.mac)
            | none => []
          let common :=
            (if (d.ar.getLast?.map (·.ty)) ≠ some 250 then [s!"C10:tsig-not-last-{tr}"] else []) ++
            (if t.cls ≠ 255 ∨ t.rawTtl ≠ 0 then [s!"C10:tsig-class-ttl-{tr}"] else []) ++
            (if lc rkn ≠ lc rv.keyName then [s!"C10:key-name-{tr}"] else []) ++
            (if lc rf.algName ≠ lc f.algName then [s!"C10:alg-name-{tr}"] else []) ++
            (if rf.fudge ≠ 300 then [s!"C10:fudge-{rf.fudge}-{tr}"] else []) ++
            (if rf.originalId ≠ f.originalId then [s!"C10:original-id-{tr}"] else []) ++
            (if d.id ≠ reqId then [s!"C10:id-{tr}"] else []) ++
            (if rf.error ≠ expErr then [s!"C10:tsig-error-{rf.error}-expected-{expErr}-{tr}"] else []) ++
            (match expRcode with
              | some rc => if extRcode ≠ rc then [s!"C10:rcode-{extRcode}-expected-{rc}-{tr}"] else []
              | none => if extRcode = 9 then [s!"C10:notauth-on-authenticated-{tr}"] else []) ++
            (if signed then
               (if rf.mac.length ≠ out then [s!"C10:mac-length-{rf.mac.length}-{tr}"] else []) ++
               (if rf.mac ≠ specMac then [s!"C10:response-mac-{tr}"] else [])
             else if rf.mac ≠ [] then [s!"C10:mac-not-empty-{tr}"] else []) ++
            (if rv.outcome = .badTime then
               (if rf.other ≠ u48 now then [s!"C10:badtime-other-{tr}"] else []) ++
               (if rf.timeSigned ≠ f.timeSigned then [s!"C10:badtime-time-signed-{tr}"] else [])
             else
               (if rf.other ≠ [] then [s!"C10:other-data-{tr}"] else []) ++
               (if rf.timeSigned ≠ now then [s!"C10:time-signed-{tr}"] else []))
          let data :=
            if rv.outcome ≠ .authenticated then
              (if !noData then [s!"C10:data-in-unauthenticated-{tr}"] else []) ++
              (if d.tc then [s!"C10:tc-in-error-{tr}"] else []) ++
              (if d.aa then [s!"C10:aa-in-error-{tr}"] else [])
            else
              -- answered normally: compare with the response to the request without TSIG
              match plain with
              | .bytes pb =>
                match specDecodeMsg pb with
                | some pd =>
                  if d.tc then
                    (if !udp then [s!"C10:tc-over-tcp"] else []) ++ (if !noData then [s!"C10:tc-with-data-{tr}"] else [])
                  else if pd.tc then []
                  else if !cmp then []     -- not comparable (`plainComparable`)
                  -- the plain response leaves no room for the TSIG RR: the signed answer may
                  -- legitimately differ (SERVFAIL over TCP, other optional records); C04 / C05 audit it
                  else if pb.size + ((canonName rv.keyName).length + 10 + (canonName f.algName).length + 16 +
                      macLen + otherLen) > limit then []
                  -- SERVFAIL of the plain run only: it may stem from a record the signed run never reaches
                  -- (an optional RRset with unrenderable RDATA that does not fit the smaller room)
                  else if pd.rcode = 2 ∧ d.rcode ≠ 2 then []
                  else
                    (if d.rcode ≠ pd.rcode ∨ d.aa ≠ pd.aa then [s!"C10:answer-header-differs-{tr}"] else []) ++
                    (if !sameMultiset (d.an.map rrKey) (pd.an.map rrKey) then [s!"C10:answer-differs-{tr}"] else []) ++
                    (if !sameMultiset (d.ns.map rrKey) (pd.ns.map rrKey) then [s!"C10:authority-differs-{tr}"] else []) ++
                    (if !subMultiset (plainRrs d.ar) (plainRrs pd.ar) then [s!"C10:additional-differs-{tr}"] else [])
                | none => []
              | _ => []
          (common ++ data, cls)
        | _, _ => ([s!"C10:tsig-rdata-{tr}"], cls)

/-- the audit of one (request, response) pair; requests that do not reach TSIG processing are the
    business of `specScan`'s properties (C08, C09, C03): no tag -/
def audit (hm : Hm) (cat : List Server.ZoneCfg) (serverSize : Nat) (keys : List KeyCfg) (req : Bytes)
    (now : Nat) (udp : Bool) (r plain : Resp) : List String × String :=
  let sc := Server.specScan cat serverSize req
  if !sc.respond then ([], "no-response")
  else if sc.verdict ≠ .tsigReached then
    -- no acceptable TSIG RR was reached (none in the request, or the request is malformed before
    -- or at it): nothing was authenticated, so the response must not carry a TSIG RR
    let tr := if udp then "udp" else "tcp"
    match r with
    | .bytes b =>
      match specDecodeMsg b with
      | some d => (if d.ar.any (fun r => r.ty = 250) then [s!"C10:tsig-in-response-without-acceptable-request-tsig-{tr}"] else [], "pre-tsig")
      | none => ([], "pre-tsig")
    | _ => ([], "pre-tsig")
  else match viewRequest hm keys req now with
    | none => ([], "pre-tsig")
    | some rv => auditResponse hm sc rv now udp (Server.hdr req 0) (plainComparable cat serverSize req) r plain

end QV.Spec.ServerTsig
