/-
  QV.Spec.NameText — domain names as label lists: wire form, text form, equality, canonical
  order.  Written from RFC 1034 §3.1, RFC 1035 §2.3.4, §3.1, §5.1, RFC 4343 §2.1 / §3, RFC 4034
  §6.1; nothing here mentions the model.  The numbers 63 and 255 are the RFCs'.

  A name is the list of its non-null labels, leftmost first; the root is `[]`.  A label is a list
  of octets (any octet value is allowed in a label, RFC 2181 §11).

  Text form (RFC 1035 §5.1, RFC 4343 §2.1): labels are separated by dots; a name written with a
  trailing dot is absolute; `\X` (X any octet other than an ASCII digit) stands for X; `\DDD`
  (three decimal digits, value ≤ 255) stands for the octet DDD; any other ASCII octet except `.`
  and `\` stands for itself.  Interpretation choices: text is ASCII (a non-ASCII octet may only
  appear as the X of `\X`, where the grammar works octet-wise); only absolute names are denoted
  (the property: "text parsing accepts exactly the absolute names"); the empty text denotes
  nothing; `.` denotes the root.
-/
import QV.Prelude

namespace QV.Spec.NameText
open QV

abbrev Label := List UInt8
abbrev DName := List Label

/-! ### valid names and the wire form (RFC 1035 §3.1, §2.3.4) -/

/-- octets of the wire form: one length octet per label, plus the terminating null label -/
def wireLength (n : DName) : Nat := (n.map (fun l => l.length + 1)).sum + 1

/-- labels of 1..63 octets, at most 255 octets on the wire -/
def ValidName (n : DName) : Prop := (∀ l ∈ n, 1 ≤ l.length ∧ l.length ≤ 63) ∧ wireLength n ≤ 255

def toWire (n : DName) : List UInt8 := n.flatMap (fun l => UInt8.ofNat l.length :: l) ++ [0]

/-- `w` is the wire form of a valid name -/
def IsName (w : List UInt8) : Prop := ∃ n, ValidName n ∧ w = toWire n

/-! ### text form (RFC 1035 §5.1) -/

def IsDigit (c : UInt8) : Prop := 48 ≤ c.toNat ∧ c.toNat ≤ 57
instance (c : UInt8) : Decidable (IsDigit c) := by unfold IsDigit; infer_instance

/-- value of `\DDD` -/
def dddValue (a b c : UInt8) : Nat := 100 * (a.toNat - 48) + 10 * (b.toNat - 48) + (c.toNat - 48)

/-- `t` is a text for the label octets `l` -/
inductive LabelText : List UInt8 → Label → Prop
  | nil : LabelText [] []
  /-- an ordinary ASCII character other than `.` and `\` -/
  | plain {c : UInt8} {t : List UInt8} {l : Label} (hdot : c ≠ 46) (hbs : c ≠ 92)
      (hascii : c.toNat < 128) (r : LabelText t l) : LabelText (c :: t) (c :: l)
  /-- `\X`, X not a digit -/
  | quoted {c : UInt8} {t : List UInt8} {l : Label} (hnd : ¬ IsDigit c) (r : LabelText t l) :
      LabelText (92 :: c :: t) (c :: l)
  /-- `\DDD` -/
  | decimal {a b c : UInt8} {t : List UInt8} {l : Label} (ha : IsDigit a) (hb : IsDigit b)
      (hc : IsDigit c) (hv : dddValue a b c ≤ 255) (r : LabelText t l) :
      LabelText (92 :: a :: b :: c :: t) (UInt8.ofNat (dddValue a b c) :: l)

/-- `s` is the text of the absolute name `n`: `.` for the root, otherwise every label (non-empty)
    followed by a dot -/
inductive Denotes : List UInt8 → DName → Prop
  | root : Denotes [46] []
  | last {t : List UInt8} {l : Label} (ht : LabelText t l) (hne : l ≠ []) : Denotes (t ++ [46]) [l]
  | cons {t s : List UInt8} {l : Label} {n : DName} (ht : LabelText t l) (hne : l ≠ [])
      (r : Denotes s n) (hn : n ≠ []) : Denotes (t ++ 46 :: s) (l :: n)

/-! ### equality, canonical order, hierarchy (RFC 1034 §3.1, RFC 4343 §3, RFC 4034 §6.1) -/

/-- ASCII lower-casing of one octet (RFC 4343 §3: only `A`–`Z` are affected) -/
def lowerOctet (b : UInt8) : UInt8 := if 65 ≤ b.toNat ∧ b.toNat ≤ 90 then UInt8.ofNat (b.toNat + 32) else b

def lowerLabel (l : Label) : Label := l.map lowerOctet
def lowerName (n : DName) : DName := n.map lowerLabel

/-- names are equal iff they are equal after ASCII lower-casing — and in nothing else -/
def SameName (a b : DName) : Prop := lowerName a = lowerName b
instance (a b : DName) : Decidable (SameName a b) := by unfold SameName; infer_instance

/-- lexicographic comparison; a proper prefix sorts first ("absence of an octet sorts before a
    zero octet") -/
def lexCmp {α : Type} (cmp : α → α → Ordering) : List α → List α → Ordering
  | [], [] => .eq
  | [], _ :: _ => .lt
  | _ :: _, [] => .gt
  | x :: xs, y :: ys => match cmp x y with
    | .eq => lexCmp cmp xs ys
    | o => o

/-- labels as unsigned left-justified octet strings -/
def cmpOctetString (a b : List UInt8) : Ordering := lexCmp (fun x y => compare x.toNat y.toNat) a b

/-- RFC 4034 §6.1: compare the label sequences right to left (most significant label first),
    labels as lower-cased octet strings -/
def canonicalCmp (a b : DName) : Ordering :=
  lexCmp cmpOctetString (lowerName a).reverse (lowerName b).reverse

/-- `a` is `b` or a subdomain of `b`: `b`'s labels are the trailing labels of `a` (up to case) -/
def IsSubdomainOrEq (a b : DName) : Prop := lowerName b <:+ lowerName a
instance (a b : DName) : Decidable (IsSubdomainOrEq a b) := by unfold IsSubdomainOrEq; infer_instance

/-- the name obtained by removing the `k` leftmost labels; `none` when `k` exceeds the number of
    non-null labels (removing all of them leaves the root) -/
def superdomain (n : DName) (k : Nat) : Option DName := if k ≤ n.length then some (n.drop k) else none

/-- all labels including the terminating null label -/
def allLabels (n : DName) : List Label := n ++ [[]]

def isWildcard (n : DName) : Bool := (allLabels n).head? == some [42]

/-! ### reference model of the incremental builder -/

structure RefBuilder where
  done : DName
  cur : Label
  deriving Repr, DecidableEq

inductive BuildErr where
  | LabelTooLong | NameTooLong | NullNonTerminal | NonNullTerminal
  deriving Repr, DecidableEq

def BuildErr.toString : BuildErr → String
  | .LabelTooLong => "LabelTooLong"
  | .NameTooLong => "NameTooLong"
  | .NullNonTerminal => "NullNonTerminal"
  | .NonNullTerminal => "NonNullTerminal"

/-- octets the name would occupy if it were terminated now (the current label, even when empty,
    already has its length octet) -/
def RefBuilder.size (b : RefBuilder) : Nat := (b.done.map (fun l => l.length + 1)).sum + 1 + b.cur.length

/-- every operation either succeeds or leaves the builder as it was -/
def RefBuilder.pushSlice (b : RefBuilder) (os : List UInt8) : Except BuildErr RefBuilder :=
  if b.cur.length + os.length > 63 then .error .LabelTooLong
  else if b.size + os.length > 255 then .error .NameTooLong
  else .ok { b with cur := b.cur ++ os }

def RefBuilder.push (b : RefBuilder) (o : UInt8) : Except BuildErr RefBuilder := b.pushSlice [o]

def RefBuilder.nextLabel (b : RefBuilder) : Except BuildErr RefBuilder :=
  if b.cur.isEmpty then .error .NullNonTerminal
  else if b.size + 1 > 255 then .error .NameTooLong
  else .ok ⟨b.done ++ [b.cur], []⟩

def RefBuilder.finish (b : RefBuilder) : Except BuildErr DName :=
  if b.cur.isEmpty then .ok b.done else .error .NonNullTerminal

def RefBuilder.finishWithSuffix (b : RefBuilder) (suffix : DName) : Except BuildErr DName :=
  if b.cur.isEmpty then .error .NullNonTerminal
  else if wireLength (b.done ++ [b.cur] ++ suffix) > 255 then .error .NameTooLong
  else .ok (b.done ++ [b.cur] ++ suffix)

/-! ### executable form (oracle) -/

inductive Tok where
  | oct (v : UInt8)
  | dot
  deriving Repr, DecidableEq

/-- the text as a sequence of label octets and separators (`none`: bad escape or non-ASCII) -/
def tokenize (s : List UInt8) : Option (List Tok) :=
  match s with
  | [] => some []
  | c :: t =>
    if c = 92 then
      match t with
      | [] => none
      | a :: t1 =>
        if IsDigit a then
          match t1 with
          | b :: d :: t2 =>
            if IsDigit b ∧ IsDigit d ∧ dddValue a b d ≤ 255 then
              (tokenize t2).map (Tok.oct (UInt8.ofNat (dddValue a b d)) :: ·)
            else none
          | _ => none
        else (tokenize t1).map (Tok.oct a :: ·)
    else if c = 46 then (tokenize t).map (Tok.dot :: ·)
    else if c.toNat < 128 then (tokenize t).map (Tok.oct c :: ·)
    else none
termination_by s.length
decreasing_by all_goals simp <;> omega

/-- group the tokens into non-empty labels, each closed by a separator -/
def groupLabels : List Tok → Label → Option DName
  | [], cur => if cur.isEmpty then some [] else none
  | .dot :: ts, cur => if cur.isEmpty then none else (groupLabels ts []).map (cur :: ·)
  | .oct v :: ts, cur => groupLabels ts (cur ++ [v])

/-- the name a text denotes, if any -/
def parseText (s : List UInt8) : Option DName :=
  if s.isEmpty then none
  else if s = [46] then some []
  else (tokenize s).bind (fun toks => groupLabels toks [])

def validName (n : DName) : Bool := n.all (fun l => 1 ≤ l.length && l.length ≤ 63) && wireLength n ≤ 255

/-- text → wire form: accepted exactly when the text denotes a valid name -/
def specFromStr (s : List UInt8) : Option (List UInt8) :=
  match parseText s with
  | some n => if validName n then some (toWire n) else none
  | none => none

/-- wire form → labels (`none`: not the wire form of a valid name) -/
def fromWireAux : Nat → List UInt8 → Option DName
  | 0, _ => none
  | _ + 1, [] => none
  | fuel + 1, l :: rest =>
    if l = 0 then (if rest.isEmpty then some [] else none)
    else if l.toNat ≤ 63 ∧ l.toNat ≤ rest.length then
      (fromWireAux fuel (rest.drop l.toNat)).map (rest.take l.toNat :: ·)
    else none

def fromWire (w : List UInt8) : Option DName :=
  if w.length ≤ 255 then fromWireAux (w.length + 1) w else none

def ordStr : Ordering → String
  | .lt => "lt"
  | .eq => "eq"
  | .gt => "gt"

end QV.Spec.NameText
