/-
  QV.Spec.Reader — what a question and a resource record at a position of a message *are*
  (RFC 1035 §4.1.2, §4.1.3), independent of the reader's code.
-/
import QV.Prelude
import QV.Spec.NameWire

namespace QV.Spec
open QV

/-- big-endian 16-bit field at `pos`, both octets inside the message -/
def Field16 (msg : Bytes) (pos v : Nat) : Prop :=
  ∃ (h : pos + 1 < msg.size), v = (msg[pos]'(by omega)).toNat * 256 + (msg[pos+1]'h).toNat

def Field32 (msg : Bytes) (pos v : Nat) : Prop :=
  ∃ (h : pos + 3 < msg.size),
    v = (msg[pos]'(by omega)).toNat * 16777216 + (msg[pos+1]'(by omega)).toNat * 65536 +
        (msg[pos+2]'(by omega)).toNat * 256 + (msg[pos+3]'h).toNat

/-- a question at `pos`: QNAME, QTYPE, QCLASS; `next` is the position after it -/
def QuestionAt (msg : Bytes) (pos : Nat) (qname : List UInt8) (qtype qclass next : Nat) : Prop :=
  ∃ n k, DecodesName msg pos qname n k ∧ Field16 msg (pos + k) qtype ∧
    Field16 msg (pos + k + 2) qclass ∧ next = pos + k + 4

/-- RFC 2181 §8: a TTL with the most significant bit set is treated as zero -/
def specTtl (raw : Nat) : Nat := if raw < 2147483648 then raw else 0

/-- the fixed part of a resource record at `pos`; `rdpos`/`rdlen` delimit its RDATA -/
def RrHeaderAt (msg : Bytes) (pos : Nat) (owner : List UInt8) (ty cl ttl rdpos rdlen next : Nat) : Prop :=
  ∃ n k raw, DecodesName msg pos owner n k ∧ Field16 msg (pos + k) ty ∧ Field16 msg (pos + k + 2) cl ∧
    Field32 msg (pos + k + 4) raw ∧ ttl = specTtl raw ∧ Field16 msg (pos + k + 8) rdlen ∧
    rdpos = pos + k + 10 ∧ next = rdpos + rdlen ∧ next ≤ msg.size

/-! executable forms (oracle) -/

def specField16 (msg : Bytes) (pos : Nat) : Option Nat :=
  match msg[pos]?, msg[pos+1]? with
  | some a, some b => some (a.toNat * 256 + b.toNat)
  | _, _ => none

def specField32 (msg : Bytes) (pos : Nat) : Option Nat :=
  match specField16 msg pos, specField16 msg (pos + 2) with
  | some a, some b => some (a * 65536 + b)
  | _, _ => none

/-- `(qname, qtype, qclass, next)` -/
def specQuestionAt (msg : Bytes) (pos : Nat) : Option (List UInt8 × Nat × Nat × Nat) :=
  match specDecodeName msg pos with
  | some (w, _, k) =>
    match specField16 msg (pos + k), specField16 msg (pos + k + 2) with
    | some t, some c => some (w, t, c, pos + k + 4)
    | _, _ => none
  | none => none

/-- `(owner, type, class, ttl, rdpos, rdlen, next)` -/
def specRrHeaderAt (msg : Bytes) (pos : Nat) : Option (List UInt8 × Nat × Nat × Nat × Nat × Nat × Nat) :=
  match specDecodeName msg pos with
  | some (w, _, k) =>
    match specField16 msg (pos + k), specField16 msg (pos + k + 2), specField32 msg (pos + k + 4),
          specField16 msg (pos + k + 8) with
    | some t, some c, some raw, some rdlen =>
      if pos + k + 10 + rdlen ≤ msg.size then some (w, t, c, specTtl raw, pos + k + 10, rdlen, pos + k + 10 + rdlen)
      else none
    | _, _, _, _ => none
  | none => none

end QV.Spec
