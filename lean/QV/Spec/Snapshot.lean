/-
  QV.Spec.Snapshot — what C32 demands, stated without the model.

  "While catalogs and TSIG key sets are being replaced concurrently, every response is computed
   entirely from one catalog snapshot and one key set, never a mixture, and every request handled
   after a replacement returns uses the new catalog."

  A *timeline* is the list of values a shared cell (the catalog, the key set) has held, oldest
  first; version `i` is `timeline[i]`.  A request is handled during a window of versions
  `lo..hi` (`lo` = the version installed by the last replacement that had returned when handling
  started, `hi` = the newest version installed before handling ended).
-/
namespace QV.Spec.Snapshot

/-- `v` was the current value of the cell at some instant of the window `lo..hi` -/
def CurrentDuring {α : Type} (timeline : List α) (lo hi : Nat) (v : α) : Prop :=
  ∃ i, lo ≤ i ∧ i ≤ hi ∧ timeline[i]? = some v

/-- The response `r` to `req` is computed from ONE catalog `c` and at most ONE key set `k`
    (`f` is the message-handling function), each of which was current during the handling window.
    Because `lo ≤ i`, a value replaced before handling started can never be used. -/
def SnapshotOk {C K Req Resp : Type} (f : C → Option K → Req → Resp)
    (catTimeline : List C) (keyTimeline : List K) (clo chi klo khi : Nat) (req : Req) (r : Resp) : Prop :=
  ∃ c, CurrentDuring catTimeline clo chi c ∧
    (r = f c none req ∨ ∃ k, CurrentDuring keyTimeline klo khi k ∧ r = f c (some k) req)

/-! ### executable form for generation-marked responses

  Catalog generation `g` marks every record it serves with `g`; key-set generation `g` holds one
  key whose secret encodes `g`.  An observed response is the list of its records' markers and,
  for a request signed with the secret of generation `j`, whether the server accepted the MAC. -/

/-- key-set generations 3, 7, 11, … are empty key maps: nothing is accepted while one is current -/
def emptyGen (k : Nat) : Bool := k % 4 == 3

/-- verdict on one observation: `none` = allowed by the property -/
def obsVerdict (lo hi klo khi nrec : Nat) (signedWith : Option Nat) (markers : List Nat) (sig : Option Bool) :
    Option String :=
  if hi < lo ∨ khi < klo then some "shape"           -- empty window: harness bookkeeping error
  else match sig with
  | some false =>                                    -- MAC refused: the server answers without records
    if markers ≠ [] then some "shape" else sigVerdict
  | _ =>
    match markers with
    | [] => if nrec = 0 then sigVerdict else some "shape"
    | g :: rest =>
      if rest.any (· != g) then some "mixed"         -- records of two catalogs in one response
      else if g < lo then some "stale"               -- a catalog replaced before the request began
      else if hi < g then some "future"              -- a catalog not yet installed (harness sanity)
      else if markers.length ≠ nrec then some "shape"
      else sigVerdict
where
  sigVerdict : Option String :=
    match signedWith, sig with
    | none, none => none
    -- accepted: the key set of generation j was current during the window
    | some j, some true => if klo ≤ j ∧ j ≤ khi ∧ !emptyGen j then none else some "keys-stale"
    -- refused: some other key set was current during the window
    | some j, some false => if klo = j ∧ khi = j ∧ !emptyGen j then some "keys-stale" else none
    -- a signed request whose response carries no MAC verdict: the handler stopped before the TSIG
    -- branch (allowed, e.g. FORMERR); an unsigned request with a MAC verdict is not
    | some _, none => none
    | none, some _ => some "shape"

/-- sequential history: `(true, g)` installs catalog generation `g`, `(false, g)` key generation
    `g`; a query `(nrec, signedWith)` must be answered from the latest of each.  Result per query:
    the markers and the MAC verdict. -/
def seqSpec : (cat key : Nat) → List ((Bool × Nat) ⊕ (Nat × Option Nat)) → List (List Nat × Option Bool)
  | _, _, [] => []
  | cat, key, .inl (isCat, g) :: ops => if isCat then seqSpec g key ops else seqSpec cat g ops
  | cat, key, .inr (nrec, sw) :: ops =>
      (match sw with
       | some j => if j == key && !emptyGen key then (List.replicate nrec cat, some true) else ([], some false)
       | none => (List.replicate nrec cat, none)) :: seqSpec cat key ops

end QV.Spec.Snapshot
