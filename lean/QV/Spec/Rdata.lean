/-
  QV.Spec.Rdata — what RDATA of each (class, type) looks like on the wire, written from the
  defining RFCs; when two RDATA are equal (RFC 3597 §6 + RFC 1035 §2.3.3 / RFC 4343); what reading
  RDATA out of a message yields (RFC 1035 §4.1.4, RFC 3597 §4); what a de-duplicated RDATA list is.

  Nothing here mentions the Rust code, the model, or the generated dispatch tables: type and class
  codes are IANA's numbers, lengths are the RFCs'.

  Formats (RFC 1035 unless noted):
    §3.3.1 CNAME, §3.3.3 MB, §3.3.4 MD, §3.3.5 MF, §3.3.6 MG, §3.3.8 MR, §3.3.11 NS, §3.3.12 PTR
                      one <domain-name>
    §3.3.2 HINFO      two <character-string>s
    §3.3.7 MINFO      two <domain-name>s
    §3.3.9 MX         16 bit PREFERENCE, <domain-name>
    §3.3.10 NULL      anything (65535 octets or less)
    §3.3.13 SOA       two <domain-name>s, five 32 bit fields
    §3.3.14 TXT       one or more <character-string>s
    §3.4.1 A (IN)     32 bit address           §3.4.2 WKS (IN)  32 bit address, 8 bit protocol, bit map
    RFC 1034 §3.6 A (CH)   a domain name followed by a 16 bit octal Chaos address
    RFC 3596 §2.2 AAAA (IN) 128 bit address
    RFC 2782 SRV (IN) three 16 bit fields, <domain-name> (Target)
    RFC 6891 §6.1.2 OPT    zero or more {OPTION-CODE u16, OPTION-LENGTH u16, OPTION-DATA}
    RFC 8945 §4.2 TSIG     algorithm name, 48 bit time, 16 bit fudge, 16 bit MAC size, MAC,
                           16 bit original ID, 16 bit error, 16 bit other len, other data
    RFC 3597 §5       any other type (or a class-specific type in another class): opaque
-/
import QV.Prelude
import QV.Spec.NameWire

namespace QV.Spec
open QV

/-! ### which format applies to which (class, type) -/

inductive Fmt where
  | name | inA | chA | soa | wks | hinfo | minfo | mx | txt | aaaa | srv | opt | tsig | opaque
  deriving Repr, DecidableEq, Inhabited

/-- IANA type codes: A 1, NS 2, MD 3, MF 4, CNAME 5, SOA 6, MB 7, MG 8, MR 9, NULL 10, WKS 11,
    PTR 12, HINFO 13, MINFO 14, MX 15, TXT 16, AAAA 28, SRV 33, OPT 41, TSIG 250; classes IN 1,
    CH 3.  A, WKS, AAAA and SRV are class-specific. -/
def fmtOf (c t : Nat) : Fmt :=
  if t = 2 ∨ t = 3 ∨ t = 4 ∨ t = 5 ∨ t = 7 ∨ t = 8 ∨ t = 9 ∨ t = 12 then .name
  else if t = 1 then (if c = 1 then .inA else if c = 3 then .chA else .opaque)
  else if t = 6 then .soa
  else if t = 11 then (if c = 1 then .wks else .opaque)
  else if t = 13 then .hinfo
  else if t = 14 then .minfo
  else if t = 15 then .mx
  else if t = 16 then .txt
  else if t = 28 then (if c = 1 then .aaaa else .opaque)
  else if t = 33 then (if c = 1 then .srv else .opaque)
  else if t = 41 then .opt
  else if t = 250 then .tsig
  else .opaque

/-! ### building blocks -/

/-- `w` is exactly one uncompressed domain name in wire form: it decodes per RFC 1035 §4.1.4 from
    its first octet with no pointer allowed (chunk start 0: no target can be smaller), occupies all
    of `w`, and is at most 255 octets. -/
def WireName (w : List UInt8) : Prop :=
  ∃ n, Decodes w.toArray 0 0 w n w.length ∧ w.length ≤ 255

/-- RFC 1035 §3.3 `<character-string>`: a length octet followed by that many octets -/
def CharStr (s : List UInt8) : Prop :=
  ∃ l body, s = l :: body ∧ body.length = l.toNat

/-- RFC 6891 §6.1.2: one option -/
def OptTLV (o : List UInt8) : Prop :=
  ∃ c1 c2 l1 l2 data, o = c1 :: c2 :: l1 :: l2 :: data ∧ data.length = l1.toNat * 256 + l2.toNat

/-- RFC 8945 §4.2 -/
def TsigRdata (r : List UInt8) : Prop :=
  ∃ alg time fudge m1 m2 mac oid err o1 o2 other,
    WireName alg ∧ time.length = 6 ∧ fudge.length = 2 ∧ mac.length = m1.toNat * 256 + m2.toNat ∧
    oid.length = 2 ∧ err.length = 2 ∧ other.length = o1.toNat * 256 + o2.toNat ∧
    r = alg ++ time ++ fudge ++ [m1, m2] ++ mac ++ oid ++ err ++ [o1, o2] ++ other

/-- a field of a name-bearing RDATA format -/
inductive Field where
  | name
  | fixed (n : Nat)
  deriving Repr, DecidableEq

/-- the field layout of the formats that embed domain names and predate RFC 3597 -/
def layoutOf : Fmt → Option (List Field)
  | .name => some [.name]
  | .chA => some [.name, .fixed 2]
  | .soa => some [.name, .name, .fixed 20]
  | .minfo => some [.name, .name]
  | .mx => some [.fixed 2, .name]
  | .srv => some [.fixed 6, .name]
  | _ => none

/-- `r` is the concatenation of fields `fs` matching the layout -/
inductive Splits : List Field → List UInt8 → List (List UInt8) → Prop
  | nil : Splits [] [] []
  | name {w rest ls fs} (hw : WireName w) (tl : Splits ls rest fs) :
      Splits (.name :: ls) (w ++ rest) (w :: fs)
  | fixed {n f rest ls fs} (hf : f.length = n) (tl : Splits ls rest fs) :
      Splits (.fixed n :: ls) (f ++ rest) (f :: fs)

/-! ### RdataSpec -/

def FmtSpec (f : Fmt) (r : List UInt8) : Prop :=
  match f with
  | .inA => r.length = 4
  | .wks => 5 ≤ r.length
  | .aaaa => r.length = 16
  | .hinfo => ∃ a b, CharStr a ∧ CharStr b ∧ r = a ++ b
  | .txt => ∃ ss : List (List UInt8), ss ≠ [] ∧ (∀ s ∈ ss, CharStr s) ∧ r = ss.flatten
  | .opt => ∃ os : List (List UInt8), (∀ o ∈ os, OptTLV o) ∧ r = os.flatten
  | .tsig => TsigRdata r
  | .opaque => True
  | .name => ∃ fs, Splits [.name] r fs
  | .chA => ∃ fs, Splits [.name, .fixed 2] r fs
  | .soa => ∃ fs, Splits [.name, .name, .fixed 20] r fs
  | .minfo => ∃ fs, Splits [.name, .name] r fs
  | .mx => ∃ fs, Splits [.fixed 2, .name] r fs
  | .srv => ∃ fs, Splits [.fixed 6, .name] r fs

/-- **the encodings the defining RFC allows** for RDATA of type `t` in class `c` -/
def RdataSpec (c t : Nat) (r : List UInt8) : Prop := FmtSpec (fmtOf c t) r

/-! ### equality (C19) -/

/-- RFC 4343 §3: ASCII upper-case letters fold onto lower-case ones, nothing else changes -/
def specLower (b : UInt8) : UInt8 := if 0x41 ≤ b.toNat ∧ b.toNat ≤ 0x5a then b + 0x20 else b

/-- two wire-form names are the same name: equal after case folding.  (Length octets are ≤ 63 <
    'A', so folding leaves them alone and this is label-by-label comparison.) -/
def NameCiEq (a b : List UInt8) : Prop := a.map specLower = b.map specLower
instance (a b : List UInt8) : Decidable (NameCiEq a b) := by unfold NameCiEq; infer_instance

/-- field-wise equality: names case-insensitively, everything else octet for octet -/
inductive FieldsEq : List Field → List (List UInt8) → List (List UInt8) → Prop
  | nil : FieldsEq [] [] []
  | name {ls x y xs ys} (h : NameCiEq x y) (tl : FieldsEq ls xs ys) : FieldsEq (.name :: ls) (x :: xs) (y :: ys)
  | fixed {n ls x y xs ys} (h : x = y) (tl : FieldsEq ls xs ys) : FieldsEq (.fixed n :: ls) (x :: xs) (y :: ys)

/-- RDATA equality demanded by the property: for a name-bearing pre-RFC 3597 format, when both
    RDATA are well formed, field-wise with names compared case-insensitively; otherwise octet-wise. -/
def SpecEq (c t : Nat) (a b : List UInt8) : Prop :=
  match layoutOf (fmtOf c t) with
  | some l =>
    (∃ fa fb, Splits l a fa ∧ Splits l b fb ∧ FieldsEq l fa fb) ∨
    (¬ ((∃ fa, Splits l a fa) ∧ (∃ fb, Splits l b fb)) ∧ a = b)
  | none => a = b

/-! ### reading RDATA from a message (C18) -/

/-- expansion of the fields of a layout lying at `pos` in `buf`: names are decoded (possibly
    compressed, RFC 1035 §4.1.4), fixed fields are copied; `e` is where the last field ends -/
inductive Expands (buf : Bytes) : List Field → Nat → List UInt8 → Nat → Prop
  | nil {pos} : Expands buf [] pos [] pos
  | name {ls pos w n k out e} (hd : DecodesName buf pos w n k) (tl : Expands buf ls (pos + k) out e) :
      Expands buf (.name :: ls) pos (w ++ out) e
  | fixed {n ls pos out e} (hin : pos + n ≤ buf.size) (tl : Expands buf ls (pos + n) out e) :
      Expands buf (.fixed n :: ls) pos ((buf.extract pos (pos + n)).toList ++ out) e

/-- reading `rdlength` octets of RDATA of type `t`, class `c` at `cursor` of `msg` yields `r`:
    the RDATA region lies inside the message; nothing past its end is looked at (`buf`); for a
    name-bearing format the fields fill the region exactly and `r` is their expansion; for any other
    format `r` is the region itself and must be well formed. -/
def SpecRead (c t : Nat) (msg : Bytes) (cursor rdlength : Nat) (r : List UInt8) : Prop :=
  cursor + rdlength ≤ msg.size ∧
  match layoutOf (fmtOf c t) with
  | some l => Expands (msg.extract 0 (cursor + rdlength)) l cursor r (cursor + rdlength)
  | none => r = (msg.extract cursor (cursor + rdlength)).toList ∧ FmtSpec (fmtOf c t) r

/-! ### de-duplicated list (C19) -/

/-- keep the first member of each class of `E`, in order: keep the head, drop everything later
    that is equivalent to it, continue -/
def firstOfEachClass {α} (E : α → α → Bool) : List α → List α
  | [] => []
  | x :: xs => x :: (firstOfEachClass E xs).filter (fun y => !E x y)

/-! ## executable forms (oracle for the driver) -/

/-- length of the uncompressed name at the start of `r` -/
def specUNameLen (r : List UInt8) : Option Nat :=
  (specDecodeUncompressed r.toArray false).map (fun x => x.1.length)

def specSplit : List Field → List UInt8 → Option (List (List UInt8))
  | [], r => if r.isEmpty then some [] else none
  | .name :: ls, r =>
    match specUNameLen r with
    | some k => (specSplit ls (r.drop k)).map (fun fs => r.take k :: fs)
    | none => none
  | .fixed n :: ls, r =>
    if n ≤ r.length then (specSplit ls (r.drop n)).map (fun fs => r.take n :: fs) else none

/-- split into `<character-string>`s (`fuel` ≥ length suffices) -/
def specCharStrs : Nat → List UInt8 → Option (List (List UInt8))
  | _, [] => some []
  | 0, _ => none
  | fuel + 1, l :: rest =>
    if l.toNat ≤ rest.length then (specCharStrs fuel (rest.drop l.toNat)).map (fun ss => (l :: rest.take l.toNat) :: ss)
    else none

def specOpts : Nat → List UInt8 → Option (List (List UInt8))
  | _, [] => some []
  | 0, _ => none
  | fuel + 1, c1 :: c2 :: l1 :: l2 :: rest =>
    let n := l1.toNat * 256 + l2.toNat
    if n ≤ rest.length then (specOpts fuel (rest.drop n)).map (fun os => (c1 :: c2 :: l1 :: l2 :: rest.take n) :: os)
    else none
  | _ + 1, _ => none

def specTsig (r : List UInt8) : Bool :=
  match specUNameLen r with
  | none => false
  | some a =>
    let x := r.drop a
    -- time(6) fudge(2) macsize(2) mac origid(2) error(2) otherlen(2) other
    if x.length < 10 then false else
    let mac := (x.getD 8 0).toNat * 256 + (x.getD 9 0).toNat
    if x.length < 16 + mac then false else
    let other := (x.getD (14 + mac) 0).toNat * 256 + (x.getD (15 + mac) 0).toNat
    x.length == 16 + mac + other

def specValidateFmt (f : Fmt) (r : List UInt8) : Bool :=
  match layoutOf f with
  | some l => (specSplit l r).isSome
  | none =>
    match f with
    | .inA => r.length == 4
    | .wks => 5 ≤ r.length
    | .aaaa => r.length == 16
    | .hinfo => match specCharStrs (r.length + 1) r with
                | some ss => ss.length == 2
                | none => false
    | .txt => match specCharStrs (r.length + 1) r with
              | some ss => 1 ≤ ss.length
              | none => false
    | .opt => (specOpts (r.length + 1) r).isSome
    | .tsig => specTsig r
    | _ => true

/-- executable `RdataSpec` -/
def specValidate (c t : Nat) (r : List UInt8) : Bool := specValidateFmt (fmtOf c t) r

def specFieldsEq : List Field → List (List UInt8) → List (List UInt8) → Bool
  | [], [], [] => true
  | .name :: ls, x :: xs, y :: ys => x.map specLower == y.map specLower && specFieldsEq ls xs ys
  | .fixed _ :: ls, x :: xs, y :: ys => x == y && specFieldsEq ls xs ys
  | _, _, _ => false

/-- executable `SpecEq` -/
def specEq (c t : Nat) (a b : List UInt8) : Bool :=
  match layoutOf (fmtOf c t) with
  | some l =>
    match specSplit l a, specSplit l b with
    | some fa, some fb => specFieldsEq l fa fb
    | _, _ => a == b
  | none => a == b

def specExpand (buf : Bytes) : List Field → Nat → Option (List UInt8 × Nat)
  | [], pos => some ([], pos)
  | .name :: ls, pos =>
    match specDecodeName buf pos with
    | some (w, _, k) => (specExpand buf ls (pos + k)).map (fun x => (w ++ x.1, x.2))
    | none => none
  | .fixed n :: ls, pos =>
    if pos + n ≤ buf.size then
      (specExpand buf ls (pos + n)).map (fun x => ((buf.extract pos (pos + n)).toList ++ x.1, x.2))
    else none

/-- executable `SpecRead` -/
def specRead (c t : Nat) (msg : Bytes) (cursor rdlength : Nat) : Option (List UInt8) :=
  if cursor + rdlength ≤ msg.size then
    match layoutOf (fmtOf c t) with
    | some l =>
      match specExpand (msg.extract 0 (cursor + rdlength)) l cursor with
      | some (r, e) => if e = cursor + rdlength then some r else none
      | none => none
    | none =>
      let r := (msg.extract cursor (cursor + rdlength)).toList
      if specValidateFmt (fmtOf c t) r then some r else none
  else none

/-- components demanded of the writer's view of RDATA (RFC 3597 §4: only names in RDATA of the
    RFC 1035 types may be compressed; class-specific CH A and the later SRV must not be): for a
    well-formed name-bearing RDATA its fields, names tagged compressible (`'C'`) or not (`'U'`),
    fixed fields `'O'`; for anything else the whole RDATA as one opaque component (none if empty). -/
def specComponents (c t : Nat) (r : List UInt8) : Option (List (Char × List UInt8)) :=
  match layoutOf (fmtOf c t) with
  | some l =>
    match specSplit l r with
    | some fs =>
      let tag := if fmtOf c t = .chA ∨ fmtOf c t = .srv then 'U' else 'C'
      some ((l.zip fs).map (fun x => match x.1 with
                                      | .name => (tag, x.2)
                                      | .fixed _ => ('O', x.2)))
    | none => none
  | none => some (if r.isEmpty then [] else [('O', r)])

end QV.Spec
