/-
  QV.Model.Sha — SHA-1 and SHA-256 (FIPS 180-4) in plain core Lean.

  These are *re-implementations* of what quandary obtains from the `sha1` / `sha2` crates
  (src/message/tsig.rs `Algorithm::make_authenticator`: `Hmac<Sha1>`, `Hmac<Sha256>`).  They are
  tied to the crates by the correspondence check (ops `sha`, `hmac`, FIPS / RFC 2202 / RFC 4231
  vectors in corpus/C11/), not by proof.  Nothing in C11's theorems depends on these
  definitions: the theorems quantify over an arbitrary MAC function.

  Written for the native driver: `UInt32` arithmetic, arrays in the compression function.
-/
import QV.Prelude

namespace QV.Sha
open QV

@[inline] def rotl (x : UInt32) (n : UInt32) : UInt32 := (x <<< n) ||| (x >>> (32 - n))
@[inline] def rotr (x : UInt32) (n : UInt32) : UInt32 := (x >>> n) ||| (x <<< (32 - n))

/-- big-endian 32-bit word at `off` of `b` (octets outside `b` read as 0) -/
@[inline] def word (b : Bytes) (off : Nat) : UInt32 :=
  ((b.getD off 0).toUInt32 <<< 24) ||| ((b.getD (off+1) 0).toUInt32 <<< 16) |||
  ((b.getD (off+2) 0).toUInt32 <<< 8) ||| (b.getD (off+3) 0).toUInt32

@[inline] def pushWord (out : Bytes) (w : UInt32) : Bytes :=
  (((out.push (w >>> 24).toUInt8).push (w >>> 16).toUInt8).push (w >>> 8).toUInt8).push w.toUInt8

/-- FIPS 180-4 §5.1.1: `msg ‖ 0x80 ‖ 0…0 ‖ (8·|msg| as 64-bit big-endian)`, a multiple of 64 octets -/
def pad (msg : Bytes) : Bytes := Id.run do
  let bitLen : UInt64 := (msg.size * 8).toUInt64
  let mut out := msg.push 0x80
  let z := (64 + 56 - out.size % 64) % 64
  for _ in [0:z] do
    out := out.push 0
  for i in [0:8] do
    out := out.push (bitLen >>> ((7 - i) * 8).toUInt64).toUInt8
  return out

/-! ### SHA-256 (FIPS 180-4 §6.2) -/

def k256 : Array UInt32 := #[
  0x428a2f98, 0x71374491, 0xb5c0fbcf, 0xe9b5dba5, 0x3956c25b, 0x59f111f1, 0x923f82a4, 0xab1c5ed5,
  0xd807aa98, 0x12835b01, 0x243185be, 0x550c7dc3, 0x72be5d74, 0x80deb1fe, 0x9bdc06a7, 0xc19bf174,
  0xe49b69c1, 0xefbe4786, 0x0fc19dc6, 0x240ca1cc, 0x2de92c6f, 0x4a7484aa, 0x5cb0a9dc, 0x76f988da,
  0x983e5152, 0xa831c66d, 0xb00327c8, 0xbf597fc7, 0xc6e00bf3, 0xd5a79147, 0x06ca6351, 0x14292967,
  0x27b70a85, 0x2e1b2138, 0x4d2c6dfc, 0x53380d13, 0x650a7354, 0x766a0abb, 0x81c2c92e, 0x92722c85,
  0xa2bfe8a1, 0xa81a664b, 0xc24b8b70, 0xc76c51a3, 0xd192e819, 0xd6990624, 0xf40e3585, 0x106aa070,
  0x19a4c116, 0x1e376c08, 0x2748774c, 0x34b0bcb5, 0x391c0cb3, 0x4ed8aa4a, 0x5b9cca4f, 0x682e6ff3,
  0x748f82ee, 0x78a5636f, 0x84c87814, 0x8cc70208, 0x90befffa, 0xa4506ceb, 0xbef9a3f7, 0xc67178f2]

def h256 : Array UInt32 := #[
  0x6a09e667, 0xbb67ae85, 0x3c6ef372, 0xa54ff53a, 0x510e527f, 0x9b05688c, 0x1f83d9ab, 0x5be0cd19]

/-- one application of the SHA-256 compression function to the block at `off` -/
def block256 (hs : Array UInt32) (m : Bytes) (off : Nat) : Array UInt32 := Id.run do
  let mut w : Array UInt32 := Array.mkEmpty 64
  for t in [0:16] do
    w := w.push (word m (off + 4 * t))
  for t in [16:64] do
    let w15 := w[t - 15]!
    let w2 := w[t - 2]!
    let s0 := rotr w15 7 ^^^ rotr w15 18 ^^^ (w15 >>> 3)
    let s1 := rotr w2 17 ^^^ rotr w2 19 ^^^ (w2 >>> 10)
    w := w.push (s1 + w[t - 7]! + s0 + w[t - 16]!)
  let mut a := hs[0]!
  let mut b := hs[1]!
  let mut c := hs[2]!
  let mut d := hs[3]!
  let mut e := hs[4]!
  let mut f := hs[5]!
  let mut g := hs[6]!
  let mut h := hs[7]!
  for t in [0:64] do
    let S1 := rotr e 6 ^^^ rotr e 11 ^^^ rotr e 25
    let ch := (e &&& f) ^^^ ((~~~ e) &&& g)
    let t1 := h + S1 + ch + k256[t]! + w[t]!
    let S0 := rotr a 2 ^^^ rotr a 13 ^^^ rotr a 22
    let maj := (a &&& b) ^^^ (a &&& c) ^^^ (b &&& c)
    let t2 := S0 + maj
    h := g
    g := f
    f := e
    e := d + t1
    d := c
    c := b
    b := a
    a := t1 + t2
  return #[hs[0]! + a, hs[1]! + b, hs[2]! + c, hs[3]! + d, hs[4]! + e, hs[5]! + f, hs[6]! + g, hs[7]! + h]

/-- the hash state after all blocks of the padded message -/
def sha256State (msg : Bytes) : Array UInt32 := Id.run do
  let m := pad msg
  let mut hs := h256
  for i in [0:m.size / 64] do
    hs := block256 hs m (64 * i)
  return hs

/-- the eight state words in big-endian order: 32 octets -/
def sha256 (msg : Bytes) : Bytes :=
  let hs := sha256State msg
  pushWord (pushWord (pushWord (pushWord (pushWord (pushWord (pushWord (pushWord (Array.mkEmpty 32)
    hs[0]!) hs[1]!) hs[2]!) hs[3]!) hs[4]!) hs[5]!) hs[6]!) hs[7]!

/-! ### SHA-1 (FIPS 180-4 §6.1) -/

def h1 : Array UInt32 := #[0x67452301, 0xefcdab89, 0x98badcfe, 0x10325476, 0xc3d2e1f0]

def block1 (hs : Array UInt32) (m : Bytes) (off : Nat) : Array UInt32 := Id.run do
  let mut w : Array UInt32 := Array.mkEmpty 80
  for t in [0:16] do
    w := w.push (word m (off + 4 * t))
  for t in [16:80] do
    w := w.push (rotl (w[t - 3]! ^^^ w[t - 8]! ^^^ w[t - 14]! ^^^ w[t - 16]!) 1)
  let mut a := hs[0]!
  let mut b := hs[1]!
  let mut c := hs[2]!
  let mut d := hs[3]!
  let mut e := hs[4]!
  for t in [0:80] do
    let (f, k) : UInt32 × UInt32 :=
      if t < 20 then ((b &&& c) ||| ((~~~ b) &&& d), 0x5a827999)
      else if t < 40 then (b ^^^ c ^^^ d, 0x6ed9eba1)
      else if t < 60 then ((b &&& c) ||| (b &&& d) ||| (c &&& d), 0x8f1bbcdc)
      else (b ^^^ c ^^^ d, 0xca62c1d6)
    let tmp := rotl a 5 + f + e + k + w[t]!
    e := d
    d := c
    c := rotl b 30
    b := a
    a := tmp
  return #[hs[0]! + a, hs[1]! + b, hs[2]! + c, hs[3]! + d, hs[4]! + e]

/-- the hash state after all blocks of the padded message -/
def sha1State (msg : Bytes) : Array UInt32 := Id.run do
  let m := pad msg
  let mut hs := h1
  for i in [0:m.size / 64] do
    hs := block1 hs m (64 * i)
  return hs

/-- the five state words in big-endian order: 20 octets -/
def sha1 (msg : Bytes) : Bytes :=
  let hs := sha1State msg
  pushWord (pushWord (pushWord (pushWord (pushWord (Array.mkEmpty 20)
    hs[0]!) hs[1]!) hs[2]!) hs[3]!) hs[4]!

end QV.Sha
