/-
  QV.Model.TsigMsg — how a received message reaches `ReadTsigRr::verify_*` (op `tvmsg`).

  Mirrors the harness function `split_last_rr` (harness/src/g_tsig.rs), which is the server's
  path in miniature: `Reader::try_from`, `skip_question` × QDCOUNT, `skip_rr` × (records − 1),
  `message_to_cursor`, `peek_rr`, `PeekRr::rr_type`, `PeekRr::parse`, `at_eom`; then
  `ReadTsigRr::try_from`, `Algorithm::from_name`, `verify_*`.  Only the parts of
  src/message/reader.rs that this path executes are modelled here (the `Reader` as a whole is
  C15's model); names go through the C14 model (`QV.Model.Wire`).
-/
import QV.Model.Tsig

namespace QV.Tsig.Msg
open QV QV.Tsig

/-- big-endian u16 at `i` of a buffer whose range was checked by the caller -/
def rd16b (b : Bytes) (i : Nat) : Nat := QV.be16 b i

/-- mirrors `Reader::skip_question`: new cursor -/
def skipQuestion (msg : Bytes) (cursor : Nat) : Out Unit Nat :=
  match Wire.skipCompressed (msg.extract cursor msg.size) with
  | .panic => .panic
  | .err _ => .err ()
  | .ok qnameLen =>
    if cursor + qnameLen + 4 > msg.size then .err () else .ok (cursor + qnameLen + 4)

/-- mirrors the common part of `Reader::skip_rr` / `peek_rr`: `(owner_end, rr_end)` -/
def peekRr (msg : Bytes) (cursor : Nat) : Out Unit (Nat × Nat) :=
  match Wire.skipCompressed (msg.extract cursor msg.size) with
  | .panic => .panic
  | .err _ => .err ()
  | .ok ownerLen =>
    let ownerEnd := cursor + ownerLen
    if ownerEnd + 8 > msg.size then .err ()            -- octets.get(owner_end + 8..)
    else if ownerEnd + 10 > msg.size then .err ()      -- read_u16
    else
      let rrEnd := ownerEnd + 10 + rd16b msg (ownerEnd + 8)
      if rrEnd > msg.size then .err () else .ok (ownerEnd, rrEnd)

def skipN (f : Bytes → Nat → Out Unit Nat) (msg : Bytes) : Nat → Nat → Out Unit Nat
  | 0, cursor => .ok cursor
  | n + 1, cursor =>
    match f msg cursor with
    | .ok c => skipN f msg n c
    | .err e => .err e
    | .panic => .panic

/-- what `split_last_rr` hands on: the message up to the last RR and that RR's fields
    (`ttl` already through `Ttl::from`, which maps values above `i32::MAX` to 0) -/
structure LastRr where
  prefixLen : Nat
  owner : Octets
  rrType : Nat
  cls : Nat
  ttl : Nat
  rdata : Octets

/-- mirrors harness `split_last_rr` (`err ()` = the harness's "unreadable") -/
def splitLastRr (msg : Bytes) : Out Unit LastRr :=
  if msg.size < Gen.HEADER_SIZE then .err ()                         -- Reader::try_from
  else
    let qd := rd16b msg Gen.QDCOUNT_START
    let total := rd16b msg Gen.ANCOUNT_START + rd16b msg Gen.NSCOUNT_START + rd16b msg Gen.ARCOUNT_START
    match skipN skipQuestion msg qd Gen.HEADER_SIZE with
    | .panic => .panic
    | .err _ => .err ()
    | .ok c0 =>
      if total = 0 then .err ()
      else match skipN (fun m c => (peekRr m c).bind (fun p => .ok p.2)) msg (total - 1) c0 with
        | .panic => .panic
        | .err _ => .err ()
        | .ok cursor =>
          match peekRr msg cursor with
          | .panic => .panic
          | .err _ => .err ()
          | .ok (ownerEnd, rrEnd) =>
            let rrType := rd16b msg ownerEnd
            if rrType ≠ Gen.TYPE_TSIG then .err ()
            else match Wire.parseCompressed msg cursor with            -- PeekRr::parse: take_owner
              | .panic => .panic
              | .err _ => .err ()
              | .ok owner =>
                -- Rdata::read → prepare_to_read_rdata (range already checked) → validate_as_tsig
                let rdata := (msg.extract (ownerEnd + 10) rrEnd).toList
                match validateAsTsig rdata with
                | .panic => .panic
                | .err _ => .err ()
                | .ok _ =>
                  if rrEnd < msg.size then .err ()                     -- !reader.at_eom()
                  else
                    let rawTtl := QV.be32 msg (ownerEnd + 4)
                    .ok ⟨cursor, owner.wire, rrType, rd16b msg (ownerEnd + 2),
                         if rawTtl > 2147483647 then 0 else rawTtl, rdata⟩

inductive MsgOutcome where
  | unreadable | rrFormErr | rrNotTsig | algMismatch | panic
  | verified (r : Out VerificationError Unit)

/-- the whole path of op `tvmsg`; `verify` is one of `verifyRequest/Response/Subsequent` partially
    applied to everything but the record and the message -/
def verifyMessage (verify : ReadTsigRr → Octets → Out VerificationError Unit) (alg : Algorithm)
    (msg : Bytes) : MsgOutcome :=
  match splitLastRr msg with
  | .panic => .panic
  | .err _ => .unreadable
  | .ok l =>
    match ReadTsigRr.tryFrom l.owner l.rrType l.cls l.ttl l.rdata with
    | .panic => .panic
    | .err .FormErr => .rrFormErr
    | .err .NotTsig => .rrNotTsig
    | .ok r =>
      if Algorithm.fromName r.algorithm ≠ some alg then .algMismatch
      else .verified (verify r ((msg.extract 0 l.prefixLen).toList))

end QV.Tsig.Msg
