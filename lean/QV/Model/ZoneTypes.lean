/-
  QV.Model.ZoneTypes — plain data shared by the zone model (`QV.Model.Zone`,
  `QV.Model.Validation`) and the zone specification (`QV.Spec.Zone`): records, RRsets, lookup
  options, the result enums of src/db/zone/mod.rs, `db::Error`, `ValidationIssue`.
  Types only; no behaviour.
-/
import QV.Prelude
import QV.Model.NameL
import QV.Generated.Validation

namespace QV.Zone
open QV QV.NameL

abbrev Rdata := List UInt8

/-- one resource record as handed to `HashMapTreeZone::add` (owner case-folded; `ttl` is the
    value of the `Ttl`, i.e. after `Ttl::from`) -/
structure Rec where
  owner : Name
  rtype : Nat
  cls : Nat
  ttl : Nat
  rdata : Rdata
  deriving DecidableEq, Repr, Inhabited

/-- `db::rrset::Rrset` (src/db/rrset.rs): type, TTL, and the RDATAs of an `RdataSetOwned` in
    storage order -/
structure Rrset where
  rtype : Nat
  ttl : Nat
  rdatas : List Rdata
  deriving DecidableEq, Repr, Inhabited

/-- `GluePolicy` (src/db/zone/mod.rs) -/
inductive GluePolicy where
  | narrow | wide
  deriving DecidableEq, Repr, Inhabited

/-- `LookupOptions` -/
structure Opts where
  unchecked : Bool
  searchBelowCuts : Bool
  deriving DecidableEq, Repr, Inhabited

/-- the failures of `HashMapTreeZone::add` (`db::Error`) -/
inductive AddErr where
  | NotInZone | ClassMismatch | TtlMismatch
  deriving DecidableEq, Repr, Inhabited

def AddErr.toString : AddErr → String
  | .NotInZone => "NotInZone"
  | .ClassMismatch => "ClassMismatch"
  | .TtlMismatch => "TtlMismatch"

/-- `LookupBaseResult` (private to src/db/hash_map_tree/zone.rs): what the tree walk finds.
    `found` carries the RRset list of the node reached. -/
inductive Base where
  | found (rrsets : List Rrset) (sos : Option Name)
  | referral (child : Name) (ns : Rrset)
  | nxDomain
  | wrongZone
  deriving DecidableEq, Repr, Inhabited

/-- `LookupResult` -/
inductive LookupResult where
  | found (rrset : Rrset) (sos : Option Name)
  | cname (rrset : Rrset) (sos : Option Name)
  | referral (child : Name) (ns : Rrset)
  | noRecords (sos : Option Name)
  | nxDomain
  | wrongZone
  deriving DecidableEq, Repr, Inhabited

/-- `LookupAddrsResult` (its `Cname` variant is never produced by `HashMapTreeZone`) -/
inductive AddrsResult where
  | found (a : Option Rrset) (aaaa : Option Rrset) (sos : Option Name)
  | referral (child : Name) (ns : Rrset)
  | nxDomain
  | wrongZone
  deriving DecidableEq, Repr, Inhabited

/-- `LookupAllResult` -/
inductive AllResult where
  | found (rrsets : List Rrset) (sos : Option Name)
  | referral (child : Name) (ns : Rrset)
  | nxDomain
  | wrongZone
  deriving DecidableEq, Repr, Inhabited

/-- `ValidationIssue` (src/db/zone/validation.rs) -/
inductive Issue where
  | MissingApexSoa
  | TooManyApexSoas
  | MissingApexNs
  | MissingNsAddress (n : Name)
  | MissingMxAddress (n : Name)
  | MissingGlue (n : Name)
  | DuplicateCname (n : Name)
  | OtherRecordsAtCname (n : Name)
  | NsAtWildcard (n : Name)
  deriving DecidableEq, Repr, Inhabited

def Issue.tag : Issue → String
  | .MissingApexSoa => "MissingApexSoa"
  | .TooManyApexSoas => "TooManyApexSoas"
  | .MissingApexNs => "MissingApexNs"
  | .MissingNsAddress _ => "MissingNsAddress"
  | .MissingMxAddress _ => "MissingMxAddress"
  | .MissingGlue _ => "MissingGlue"
  | .DuplicateCname _ => "DuplicateCname"
  | .OtherRecordsAtCname _ => "OtherRecordsAtCname"
  | .NsAtWildcard _ => "NsAtWildcard"

def Issue.name? : Issue → Option Name
  | .MissingNsAddress n | .MissingMxAddress n | .MissingGlue n
  | .DuplicateCname n | .OtherRecordsAtCname n | .NsAtWildcard n => some n
  | _ => none

/-- RDATA equality used for de-duplication: `eqv class type new existing` models
    `new.equals(existing, class, type)` (`Rdata::equals`, modelled elsewhere — C19). -/
abbrev Eqv := Nat → Nat → Rdata → Rdata → Bool

/-- extraction of the domain name embedded in an RDATA field
    (`Name::try_from_uncompressed_all`); `none` = `Err` -/
abbrev NameOf := Rdata → Option Name

end QV.Zone
