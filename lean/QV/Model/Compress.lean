/-
  QV.Model.Compress — the name-compression machinery of `src/message/writer.rs` (layer 3).

  Pure functions of the buffer written so far: `move_to_next_real_label`, `build_prior_ctx` and
  the column scan of `write_compressed_unhinted_name` (writer.rs:1091-1316). Every slice/index
  access of the Rust code is bounds-checked here and yields `Out.panic` when it would panic,
  as does the explicit `panic!("invalid pointer found during compression; this is a bug")`.

  A domain name handed to the writer (`&Name`) is represented by its list of non-root labels
  (`WName`); `Name::len()` counts the root label too.
-/
import QV.Prelude
import QV.Generated.Consts
import QV.Model.Wire

namespace QV.Writer
open QV QV.Wire

/-- a label: its octets without the length octet (1..63 octets for a well-formed name) -/
abbrev Label := List UInt8

/-- `&Name`: the non-root labels, leftmost first -/
structure WName where
  labels : List Label
  deriving Repr, DecidableEq, Inhabited

namespace WName

/-- wire form of one label -/
def encLabel (l : Label) : List UInt8 := UInt8.ofNat l.length :: l

/-- `Name::len()`: number of labels including the root label -/
def len (n : WName) : Nat := n.labels.length + 1

/-- `Name::wire_repr()` -/
def wire (n : WName) : List UInt8 := (n.labels.flatMap encLabel) ++ [0]

/-- `Name::wire_repr_to(k)` for `k < len` (the first `k` labels, no terminator); for `k = len`
    the whole wire form; `k > len` panics in Rust and is never requested by the writer. -/
def wireTo (n : WName) (k : Nat) : List UInt8 :=
  if k ≥ n.len then n.wire else (n.labels.take k).flatMap encLabel

/-- documented invariant of `Name`: labels of 1..63 octets, wire form ≤ 255 octets -/
def WF (n : WName) : Prop :=
  (∀ l ∈ n.labels, 1 ≤ l.length ∧ l.length ≤ Gen.MAX_LABEL_LEN) ∧ n.wire.length ≤ Gen.MAX_WIRE_LEN

instance (n : WName) : Decidable n.WF := by unfold WF; infer_instance

def root : WName := ⟨[]⟩

/-- structural parser used for `Name::try_from_uncompressed(rdata)` in `Rdata::components`
    (`build_name_component`): labels and the remaining octets. `fuel` ≥ number of labels + 1. -/
def parseLabels : Nat → List UInt8 → Option (List Label × List UInt8)
  | 0, _ => none
  | _+1, [] => none
  | fuel+1, l :: rest =>
    if l = 0 then some ([], rest)
    else if l.toNat > Gen.MAX_LABEL_LEN then none
    else if rest.length < l.toNat then none
    else match parseLabels fuel (rest.drop l.toNat) with
      | some (ls, r) => some (rest.take l.toNat :: ls, r)
      | none => none

/-- mirrors `Name::try_from_uncompressed`: the name at the start of `b` and the rest of `b`;
    `none` = any `name::Error` (label > 63, name > 255, end of data). -/
def parse (b : List UInt8) : Option (WName × List UInt8) :=
  match parseLabels (b.length + 1) b with
  | some (ls, r) =>
    let n : WName := ⟨ls⟩
    if n.wire.length ≤ Gen.MAX_WIRE_LEN then some (n, r) else none
  | none => none

/-- `u8::eq_ignore_ascii_case` on label octets -/
def labelEqIgnoreCase (a b : Label) : Bool := a.map lowerU8 == b.map lowerU8

end WName

/-- `CompressionMode` -/
inductive CMode where
  | standard | casePreserving | disabled
  deriving Repr, DecidableEq, Inhabited

/-- `PriorName { pointer: HintPointer, len: u8 }` -/
structure Prior where
  ptr : Nat
  len : Nat
  deriving Repr, DecidableEq, Inhabited

/-- `HintPointer::new(cursor)`: `None` for zero or values above `POINTER_MAX` -/
def hintPointerNew (cursor : Nat) : Option Nat :=
  if cursor ≤ Gen.POINTER_MAX ∧ cursor ≠ 0 then some cursor else none

/-- mirrors the closure `move_to_next_real_label` (writer.rs:1173-1185) -/
def moveToNextRealLabel (oct : Bytes) (p : Nat) : Out Unit Nat :=
  if h : p < oct.size then
    if isPtr oct[p] then
      if h1 : p + 1 < oct.size then
        if ptrOf oct[p] oct[p+1] < p then moveToNextRealLabel oct (ptrOf oct[p] oct[p+1])
        else .panic       -- panic!("invalid pointer found during compression; this is a bug")
      else .panic         -- self.octets[*pointer + 1] out of range
    else .ok p
  else .panic             -- self.octets[*pointer] out of range
termination_by p
decreasing_by omega

/-- the `for _ in 0..skip` loop of `build_prior_ctx` (writer.rs:1197-1205) -/
def skipLabels (oct : Bytes) : Nat → Nat → Out Unit Nat
  | 0, pp => .ok pp
  | k+1, pp =>
    if h : pp < oct.size then
      match moveToNextRealLabel oct (pp + oct[pp].toNat + 1) with
      | .ok p' => skipLabels oct k p'
      | .err e => .err e
      | .panic => .panic
    else .panic

/-- `MatchStart { start_column, prior_pointer }` -/
structure MatchStart where
  startColumn : Nat
  priorPointer : Nat
  deriving Repr, DecidableEq, Inhabited

/-- `PriorCtx { start_column, pointer, match_start }` -/
structure PriorCtx where
  startColumn : Nat
  pointer : Nat
  matchStart : Option MatchStart
  deriving Repr, DecidableEq, Inhabited

/-- mirrors the closure `build_prior_ctx` (writer.rs:1191-1212); `clen = compressee.len()` -/
def buildPriorCtx (oct : Bytes) (clen : Nat) (prior : Prior) : Out Unit PriorCtx :=
  match skipLabels oct (prior.len - clen) prior.ptr with
  | .ok pp => .ok ⟨clen - prior.len, pp, none⟩
  | .err e => .err e
  | .panic => .panic

def buildPriorCtxOpt (oct : Bytes) (clen : Nat) : Option Prior → Out Unit (Option PriorCtx)
  | none => .ok none
  | some p => match buildPriorCtx oct clen p with
    | .ok c => .ok (some c)
    | .err e => .err e
    | .panic => .panic

/-- the elimination of a duplicate prior name at the top of each column (writer.rs:1230-1245) -/
def dedup (c0 c1 : Option PriorCtx) : Option PriorCtx × Option PriorCtx :=
  match c0, c1 with
  | some a, some b =>
    if a.pointer = b.pointer then
      match a.matchStart, b.matchStart with
      | some ma, some mb => if ma.startColumn ≤ mb.startColumn then (c0, none) else (none, c1)
      | some _, none => (c0, none)
      | none, some _ => (none, c1)
      | none, none => (c0, none)
    else (c0, c1)
  | _, _ => (c0, c1)

/-- one prior context processed against the compressee's label in `column`
    (body of `for prior_ctx in &mut prior_ctxs`, writer.rs:1247-1284) -/
def stepCtx (oct : Bytes) (mode : CMode) (column : Nat) (lab : Label) :
    Option PriorCtx → Out Unit (Option PriorCtx)
  | none => .ok none
  | some pc =>
    if column < pc.startColumn then .ok (some pc)
    else if h : pc.pointer < oct.size then
      let plen := oct[pc.pointer].toNat
      if pc.pointer + 1 + plen > oct.size then .panic      -- slice end out of range
      else
        let prior : Label := (oct.extract (pc.pointer + 1) (pc.pointer + 1 + plen)).toList
        let ms : Option MatchStart :=
          match hintPointerNew pc.pointer with
          | some pp =>
            let eq := if mode = .casePreserving then decide (lab = prior)
                      else WName.labelEqIgnoreCase lab prior
            if eq then (match pc.matchStart with
                        | some m => some m
                        | none => some ⟨column, pp⟩)
            else none
          | none => none
        match moveToNextRealLabel oct (pc.pointer + 1 + plen) with
        | .ok p' => .ok (some ⟨pc.startColumn, p', ms⟩)
        | .err e => .err e
        | .panic => .panic
    else .panic                                            -- self.octets[prior_ctx.pointer]

/-- the scan over the compressee's non-root labels (writer.rs:1225-1285) -/
def scan (oct : Bytes) (mode : CMode) : Nat → List Label → Option PriorCtx → Option PriorCtx →
    Out Unit (Option PriorCtx × Option PriorCtx)
  | _, [], c0, c1 => .ok (c0, c1)
  | column, lab :: rest, c0, c1 =>
    match stepCtx oct mode column lab (dedup c0 c1).1 with
    | .ok c0' =>
      match stepCtx oct mode column lab (dedup c0 c1).2 with
      | .ok c1' => scan oct mode (column + 1) rest c0' c1'
      | .err e => .err e
      | .panic => .panic
    | .err e => .err e
    | .panic => .panic

/-- `longest_match` (writer.rs:1287-1298): the match with the smallest start column, the first
    context winning ties -/
def longestMatch (c0 c1 : Option PriorCtx) : Option MatchStart :=
  match c0.bind (·.matchStart), c1.bind (·.matchStart) with
  | some a, some b => if b.startColumn < a.startColumn then some b else some a
  | some a, none => some a
  | none, some b => some b
  | none, none => none

/-- Everything `write_compressed_unhinted_name` computes before it writes: `none` = write the
    name uncompressed; `some m` = write the first `m.startColumn` labels and then a pointer to
    `m.priorPointer`. `ownerOrQname` = `most_recent_owner.or(qname)`. -/
def compressDecision (oct : Bytes) (mode : CMode) (ownerOrQname inRdata : Option Prior)
    (name : WName) : Out Unit (Option MatchStart) :=
  if ownerOrQname.isNone && inRdata.isNone then .ok none
  else
    match buildPriorCtxOpt oct name.len ownerOrQname with
    | .ok c0 =>
      match buildPriorCtxOpt oct name.len inRdata with
      | .ok c1 =>
        match scan oct mode 0 name.labels c0 c1 with
        | .ok (c0', c1') => .ok (longestMatch c0' c1')
        | .err e => .err e
        | .panic => .panic
      | .err e => .err e
      | .panic => .panic
    | .err e => .err e
    | .panic => .panic

end QV.Writer
