/-
  QV.Model.Writer — byte-exact functional model of `src/message/writer.rs` (layer 3).

  * `State` has one field per field of the Rust `Writer` (same names), plus
      - `hv`    : the caller's `&mut HintPointerVec` lent for the duration of one call
                  (`none` = the caller passed `None`);
      - ghost fields `gLabels`, `gPtrs`, `gCtx` (never read by non-ghost code): the positions of
        the label length octets of every name written literally, the log of emitted compression
        pointers, and which kind of name is being written. They exist to state C13.
  * `M α = State → Out WriterErr α × State` mirrors `&mut self` + `Result`: the state after a
    failed internal step is visible (that is what `with_rollback` is for). Octets beyond
    `cursor` are *not* restored by a rollback, exactly as in Rust.
  * Every slice/index access, `unwrap` and the subtraction `available - cursor` are checked and
    yield `Out.panic` where Rust would panic.
  * TSIG signing is a parameter: `finish s macFn` calls `macFn tsig message` where Rust calls
    `sign_request/sign_response/sign_subsequent`; the RDATA layout (RFC 8945 §4.2) is modelled.

  Stable names used by other models: `QV.Writer.State`, `QV.Writer.Op`, `QV.Writer.step`,
  `QV.Writer.run`, `QV.Writer.finish`.
-/
import QV.Prelude
import QV.Generated.Consts
import QV.Generated.Tables
import QV.Model.Compress
import QV.Model.Rdata

namespace QV.Writer
open QV QV.Wire

/-- `writer::Error` -/
inductive WriterErr where
  | CountOverflow | Truncation | OutOfOrder | InvalidRdata | NotEdns | AlreadyEdns
  | ExtendedRcodeOverflow | NotTsig | AlreadyTsig | NotSignedTsig
  deriving Repr, DecidableEq, Inhabited

def WriterErr.toString : WriterErr → String
  | .CountOverflow => "CountOverflow"
  | .Truncation => "Truncation"
  | .OutOfOrder => "OutOfOrder"
  | .InvalidRdata => "InvalidRdata"
  | .NotEdns => "NotEdns"
  | .AlreadyEdns => "AlreadyEdns"
  | .ExtendedRcodeOverflow => "ExtendedRcodeOverflow"
  | .NotTsig => "NotTsig"
  | .AlreadyTsig => "AlreadyTsig"
  | .NotSignedTsig => "NotSignedTsig"

inductive Section where
  | question | answer | authority | additional
  deriving Repr, DecidableEq, Inhabited

/-- `Hint` (an explicit pointer is a `HintPointer`, i.e. a value in 1..=POINTER_MAX) -/
inductive Hint where
  | qname | mostRecentOwner | mostRecentNameInRdata | explicit (p : Nat) | none
  deriving Repr, DecidableEq, Inhabited

/-- `Edns { udp_payload_size, extended_rcode_upper_bits }` -/
structure Edns where
  payload : Nat
  upper : Nat
  deriving Repr, DecidableEq, Inhabited

/-- `tsig::Algorithm` -/
inductive Alg where
  | hmacSha1 | hmacSha256
  deriving Repr, DecidableEq, Inhabited

/-- `TsigMode` -/
inductive TsigMode where
  | request (alg : Alg) (key : List UInt8)
  | response (alg : Alg) (requestMac key : List UInt8)
  | subsequent (alg : Alg) (priorMac key : List UInt8)
  | unsigned (algName : WName)
  deriving Repr, DecidableEq, Inhabited

/-- `PreparedTsigRr` -/
structure TsigRr where
  keyName : WName
  timeSigned : List UInt8      -- 6 octets
  fudge : Nat
  originalId : Nat
  error : Nat
  serverTime : List UInt8      -- 6 octets
  deriving Repr, DecidableEq, Inhabited

/-- `Tsig { mode, reserved_len, rr }` -/
structure Tsig where
  mode : TsigMode
  reservedLen : Nat
  rr : TsigRr
  deriving Repr, DecidableEq, Inhabited

/-- ghost: the kind of name being written -/
inductive NameCtx where
  | qname | owner | rdataCompressible | rdataUncompressible | none
  deriving Repr, DecidableEq, Inhabited

/-- ghost: one emitted compression pointer -/
structure PtrEv where
  pos : Nat
  target : Nat
  ctx : NameCtx
  mode : CMode
  deriving Repr, DecidableEq, Inhabited

/-- `HintPointerVec`: at most `HINT_POINTER_VEC_SIZE` entries -/
abbrev HV := List (Option Nat)

structure State where
  octets : Bytes
  cursor : Nat
  limit : Nat
  available : Nat
  rrStart : Nat
  sect : Section
  qdcount : Nat
  ancount : Nat
  nscount : Nat
  arcount : Nat
  qname : Option Prior
  mostRecentOwner : Option Prior
  mostRecentNameInRdata : Option Prior
  mode : CMode
  edns : Option Edns
  tsig : Option Tsig
  hv : Option HV := none
  gLabels : List Nat := []
  gPtrs : List PtrEv := []
  gCtx : NameCtx := .none
  deriving Repr, Inhabited

/-! ### constants taken from the generated tables -/

def lookupConst (t : List (String × Nat)) (k : String) : Nat := (t.lookup k).getD 0

def T_OPT : Nat := lookupConst Gen.typeConsts "OPT"
def T_TSIG : Nat := lookupConst Gen.typeConsts "TSIG"
def C_IN : Nat := lookupConst Gen.classConsts "IN"
def C_CH : Nat := lookupConst Gen.classConsts "CH"
def QC_ANY : Nat := lookupConst Gen.qclassConsts "ANY"
def XR_BADTIME : Nat := lookupConst Gen.extRcodeConsts "BADTIME"

/-! ### the state monad with failure -/

def M (α : Type) := State → Out WriterErr α × State

instance : Monad M where
  pure a := fun s => (.ok a, s)
  bind x f := fun s =>
    match x s with
    | (.ok a, s') => f a s'
    | (.err e, s') => (.err e, s')
    | (.panic, s') => (.panic, s')

namespace M
def fail {α} (e : WriterErr) : M α := fun s => (.err e, s)
def panic {α} : M α := fun s => (.panic, s)
def get : M State := fun s => (.ok s, s)
/-- read a (small) part of the state; unlike `get` this does not keep the whole state — and so
    the buffer — alive across the writes that follow (the compiled driver updates in place) -/
def gets {α} (f : State → α) : M α := fun s => (.ok (f s), s)
def modify (f : State → State) : M Unit := fun s => (.ok (), f s)
end M

/-- write `data` at `pos`; positions outside the array are ignored (callers check first) -/
def writeAt (a : Bytes) (pos : Nat) : List UInt8 → Bytes
  | [] => a
  | b :: bs => writeAt (a.setIfInBounds pos b) (pos + 1) bs

/-- mirrors `Writer::write`: `self.octets[position..position + data.len()].copy_from_slice(data)` -/
def write (pos : Nat) (data : List UInt8) : M Unit := fun s =>
  if pos + data.length ≤ s.octets.size then (.ok (), { s with octets := writeAt s.octets pos data })
  else (.panic, s)

/-- mirrors `Writer::try_push` -/
def tryPush (data : List UInt8) : M Unit := fun s =>
  if s.available < s.cursor then (.panic, s)            -- `available - cursor` underflow
  else if s.available - s.cursor ≥ data.length then
    if s.cursor + data.length ≤ s.octets.size then       -- `self.write(self.cursor, data)`
      (.ok (), { s with octets := writeAt s.octets s.cursor data, cursor := s.cursor + data.length })
    else (.panic, s)
  else (.err .Truncation, s)

def tryPushU16 (v : Nat) : M Unit := tryPush (u16be v)
def tryPushU32 (v : Nat) : M Unit := tryPush (u32be v)

/-- ghost: record the label starts of `k` labels of `n` written literally at `pos`
    (`withRoot`: the terminating root label was written too) -/
def labelStartsFrom (pos : Nat) : List Label → List Nat
  | [] => []
  | l :: ls => pos :: labelStartsFrom (pos + l.length + 1) ls

def ghostLabels (pos : Nat) (labels : List Label) (withRoot : Bool) : M Unit :=
  M.modify fun s =>
    let ls := labelStartsFrom pos labels
    let endPos := pos + (labels.flatMap WName.encLabel).length
    { s with gLabels := (if withRoot then [endPos] else []) ++ ls.reverse ++ s.gLabels }

/-- push a compression pointer `0xc000 | p` (all pointer emissions of the writer go through
    here); ghost: log it -/
def pushPointer (p : Nat) : M Unit := do
  let ev ← M.gets fun s => (⟨s.cursor, p, s.gCtx, s.mode⟩ : PtrEv)
  tryPushU16 (49152 + p)
  M.modify fun s' => { s' with gPtrs := ev :: s'.gPtrs }

/-- mirrors `Writer::write_uncompressed_name` -/
def writeUncompressedName (n : WName) : M (Option Prior) := do
  let cur ← M.gets (·.cursor)
  tryPush n.wire
  ghostLabels cur n.labels true
  pure ((hintPointerNew cur).map fun p => ⟨p, n.len⟩)

/-- mirrors `Writer::write_compressed_unhinted_name` -/
def writeCompressedUnhintedName (n : WName) : M (Option Prior) := do
  let d ← M.gets fun s => compressDecision s.octets s.mode (s.mostRecentOwner.orElse fun _ => s.qname)
          s.mostRecentNameInRdata n
  let cur ← M.gets (·.cursor)
  match d with
  | .panic => M.panic
  | .err _ => M.panic
  | .ok none => writeUncompressedName n
  | .ok (some m) =>
    if m.startColumn = 0 then do
      pushPointer m.priorPointer
      pure (some ⟨m.priorPointer, n.len⟩)
    else do
      tryPush (n.wireTo m.startColumn)
      ghostLabels cur (n.labels.take m.startColumn) false
      pushPointer m.priorPointer
      pure ((hintPointerNew cur).map fun p => ⟨p, n.len⟩)

/-- mirrors `Writer::write_unhinted_name` -/
def writeUnhintedName (n : WName) : M (Option Prior) := do
  let mode ← M.gets (·.mode)
  if mode ≠ .disabled ∧ n.wire.length > 2 then writeCompressedUnhintedName n
  else writeUncompressedName n

/-- the hinted arms of `write_hinted_name`: `try_push_u16(0xc000 | p).and(Ok(Some(prior)))` -/
def pushHinted (prior : Prior) : M (Option Prior) := do
  pushPointer prior.ptr
  pure (some prior)

/-- mirrors `Writer::write_hinted_name` -/
def writeHintedName (hint : Hint) (n : WName) : M (Option Prior) := do
  let mode ← M.gets (·.mode)
  if mode = .disabled ∨ n.wire.length ≤ 2 then writeUncompressedName n
  else if mode = .casePreserving then writeCompressedUnhintedName n
  else match hint with
    | .qname => do
      match ← M.gets (·.qname) with
      | some q => pushHinted q
      | none => writeCompressedUnhintedName n
    | .mostRecentOwner => do
      match ← M.gets (·.mostRecentOwner) with
      | some o => pushHinted o
      | none => writeCompressedUnhintedName n
    | .mostRecentNameInRdata => do
      match ← M.gets (·.mostRecentNameInRdata) with
      | some r => pushHinted r
      | none => writeCompressedUnhintedName n
    | .explicit p => do
      let cur ← M.gets (·.cursor)
      if p < cur then pushHinted ⟨p, n.len⟩
      else writeCompressedUnhintedName n
    | .none => writeCompressedUnhintedName n

/-! ### RDATA components (`src/rr/rdata/mod.rs` `Rdata::components`, `Components::next`) -/

/-- `ComponentType` -/
inductive CompType where
  | compressibleName | uncompressibleName | fixedLen (n : Nat)
  deriving Repr, DecidableEq, Inhabited

/-- a generated component type tag: ("C",_) compressible name, ("U",_) uncompressible name,
    ("F",n) `FixedLen(n)` -/
def convCompType (t : String × Nat) : Option CompType :=
  if t.1 = "C" then some .compressibleName
  else if t.1 = "U" then some .uncompressibleName
  else if t.1 = "F" then some (.fixedLen t.2)
  else none

/-- mirrors `Rdata::components(class, rr_type)`: the `types` of the `Components` iterator.
    The `match rr_type` arms and the `types: &[…]` lists are *generated from the source*
    (`QV.Gen.rdataComponentsArms`, `QV.Gen.rdataComponentTypes`, extractor `extract_rdata.py`);
    `none` = the generated tables do not have the expected shape. -/
def componentTypes (cls ty : Nat) : Option (List CompType) :=
  match QV.Rdata.componentTypesOf
      (QV.Rdata.lookup Gen.rdataComponentsArms Gen.rdataComponentsDefault cls ty) with
  | some tys => tys.mapM convCompType
  | none => none

/-- `hint_pointer_vec.push(..)`: silently dropped when full or absent -/
def hvPush (p : Option Nat) : M Unit := M.modify fun s =>
  match s.hv with
  | some v => if v.length < Gen.HINT_POINTER_VEC_SIZE then { s with hv := some (v ++ [p]) } else s
  | none => s

def setCtx (c : NameCtx) : M Unit := M.modify fun s => { s with gCtx := c }

/-- the `for component in rdata.components(..)` loop of `add_rr` -/
def writeComponents : List CompType → List UInt8 → M Unit
  | [], rdata => if rdata.isEmpty then pure () else tryPush rdata      -- Component::Other(rest)
  | .compressibleName :: ts, rdata =>
    match WName.parse rdata with
    | none => M.fail .InvalidRdata
    | some (n, rest) => do
      setCtx .rdataCompressible
      let p ← writeUnhintedName n
      setCtx .none
      M.modify fun s => { s with mostRecentNameInRdata := p }
      hvPush (p.map (·.ptr))
      writeComponents ts rest
  | .uncompressibleName :: ts, rdata =>
    match WName.parse rdata with
    | none => M.fail .InvalidRdata
    | some (n, rest) => do
      setCtx .rdataUncompressible
      let p ← writeUncompressedName n
      setCtx .none
      M.modify fun s => { s with mostRecentNameInRdata := p }
      hvPush (p.map (·.ptr))
      writeComponents ts rest
  | .fixedLen k :: ts, rdata =>
    if rdata.length < k then M.fail .InvalidRdata                      -- `self.rdata.get(0..len)`
    else do
      tryPush (rdata.take k)
      writeComponents ts (rdata.drop k)

/-- `for component in rdata.components(class, rr_type)` -/
def writeRdata (cls ty : Nat) (rdata : List UInt8) : M Unit :=
  match componentTypes cls ty with
  | some ts => writeComponents ts rdata
  | none => M.panic          -- the generated dispatch tables are malformed

/-- `Ttl::from(u32)` (src/rr/ttl.rs): values above `i32::MAX` become 0 -/
def ttlFrom (raw : Nat) : Nat := if raw > 2147483647 then 0 else raw

/-- mirrors `Writer::add_rr`; `ttl` is the value inside the `Ttl` -/
def addRr (hint : Hint) (owner : WName) (ty cls ttl : Nat) (rdata : List UInt8) : M Unit := do
  setCtx .owner
  let p ← writeHintedName hint owner
  setCtx .none
  M.modify fun s => { s with mostRecentOwner := p }
  tryPushU16 ty
  tryPushU16 cls
  tryPushU32 ttl
  let av ← M.gets (·.available)
  let rdlengthStart ← M.gets (·.cursor)
  if av < rdlengthStart then M.panic
  else if av - rdlengthStart < 2 then M.fail .Truncation
  else do
    M.modify fun s => { s with cursor := s.cursor + 2 }
    writeRdata cls ty rdata
    let cur' ← M.gets (·.cursor)
    if cur' < rdlengthStart + 2 then M.panic
    else write rdlengthStart (u16be ((cur' - rdlengthStart - 2) % 65536))

/-- mirrors `Writer::add_rrset`: the number of records added -/
def addRrset (hint : Hint) (owner : WName) (ty cls ttl : Nat) : List (List UInt8) → Nat → M Nat
  | [], n => pure n
  | rd :: rds, n => do
    addRr hint owner ty cls ttl rd
    addRrset .mostRecentOwner owner ty cls ttl rds (n + 1)

/-- mirrors `Writer::with_rollback` (ghost fields describing the prefix are restored too) -/
def withRollback {α} (f : M α) : M α := fun s =>
  match f s with
  | (.ok a, s') => (.ok a, s')
  | (.err e, s') =>
    (.err e, { s' with sect := s.sect, cursor := s.cursor, qname := s.qname,
                       mostRecentOwner := s.mostRecentOwner,
                       mostRecentNameInRdata := s.mostRecentNameInRdata,
                       gLabels := s.gLabels, gPtrs := s.gPtrs, gCtx := s.gCtx })
  | (.panic, s') => (.panic, s')

/-! ### construction, templates -/

/-- `octets[0..HEADER_SIZE].fill(0)` -/
def zeroHeader (b : Bytes) : Bytes := writeAt b 0 (List.replicate Gen.HEADER_SIZE 0)

/-- mirrors `Writer::new(octets, limit)` -/
def new (buf : Bytes) (limit : Nat) : Out WriterErr State :=
  let limit := min limit buf.size
  if limit < Gen.HEADER_SIZE then .err .Truncation
  else .ok { octets := zeroHeader buf, cursor := Gen.HEADER_SIZE, limit := limit, available := limit,
             rrStart := Gen.HEADER_SIZE, sect := .question, qdcount := 0, ancount := 0,
             nscount := 0, arcount := 0, qname := none, mostRecentOwner := none,
             mostRecentNameInRdata := none, mode := .standard, edns := none, tsig := none }

/-- `Template` -/
structure Template where
  octets : List UInt8
  limit : Nat
  reserved : Nat
  rrStart : Nat
  sect : Section
  qdcount : Nat
  ancount : Nat
  nscount : Nat
  arcount : Nat
  qname : Option Prior
  mostRecentOwner : Option Prior
  mostRecentNameInRdata : Option Prior
  mode : CMode
  edns : Option Edns
  tsig : Option Tsig
  gLabels : List Nat
  gPtrs : List PtrEv
  gCtx : NameCtx
  deriving Repr, Inhabited

/-- mirrors `Writer::into_template` -/
def intoTemplate (s : State) : Out WriterErr Template :=
  if s.cursor > s.octets.size then .panic                 -- `self.octets[0..self.cursor]`
  else if s.limit < s.available then .panic               -- `self.limit - self.available`
  else .ok { octets := (s.octets.extract 0 s.cursor).toList, limit := s.limit,
             reserved := s.limit - s.available, rrStart := s.rrStart, sect := s.sect,
             qdcount := s.qdcount, ancount := s.ancount, nscount := s.nscount,
             arcount := s.arcount, qname := s.qname, mostRecentOwner := s.mostRecentOwner,
             mostRecentNameInRdata := s.mostRecentNameInRdata, mode := s.mode, edns := s.edns,
             tsig := s.tsig, gLabels := s.gLabels, gPtrs := s.gPtrs, gCtx := s.gCtx }

/-- mirrors `Writer::try_from_template_impl` -/
def tryFromTemplateImpl (buf : Bytes) (t : Template) (tsig : Option Tsig) : Out WriterErr State :=
  let cursor := t.octets.length
  if buf.size < cursor + t.reserved then .err .Truncation
  else
    let limit := min t.limit buf.size
    if limit < t.reserved then .panic                     -- `limit - template.reserved`
    else .ok { octets := writeAt buf 0 t.octets, cursor := cursor, limit := limit,
               available := limit - t.reserved, rrStart := t.rrStart, sect := t.sect,
               qdcount := t.qdcount, ancount := t.ancount, nscount := t.nscount,
               arcount := t.arcount, qname := t.qname, mostRecentOwner := t.mostRecentOwner,
               mostRecentNameInRdata := t.mostRecentNameInRdata, mode := t.mode, edns := t.edns,
               tsig := tsig, gLabels := t.gLabels, gPtrs := t.gPtrs, gCtx := t.gCtx }

/-- mirrors `Writer::try_from_template` -/
def tryFromTemplate (buf : Bytes) (t : Template) : Out WriterErr State :=
  tryFromTemplateImpl buf t t.tsig

/-- mirrors `Writer::try_from_template_as_tsig_subsequent` -/
def tryFromTemplateAsTsigSubsequent (buf : Bytes) (t : Template) (priorMac : List UInt8) :
    Out WriterErr State :=
  match t.tsig with
  | some ts =>
    match ts.mode with
    | .request alg key | .response alg _ key | .subsequent alg _ key =>
      tryFromTemplateImpl buf t (some { mode := .subsequent alg priorMac key,
                                        reservedLen := ts.reservedLen, rr := ts.rr })
    | .unsigned _ => .err .NotSignedTsig
  | none => .err .NotTsig

/-! ### header accessors -/

def hdr (s : State) (i : Nat) : UInt8 := s.octets.getD i 0

/-- `self.octets[i] = v` for a header octet -/
def setHdr (i : Nat) (f : UInt8 → UInt8) : M Unit := fun s =>
  if h : i < s.octets.size then (.ok (), { s with octets := s.octets.set i (f s.octets[i]) })
  else (.panic, s)

def setBit (byte mask : Nat) (v : Bool) : M Unit :=
  setHdr byte fun b => if v then b ||| UInt8.ofNat mask else b &&& ~~~ (UInt8.ofNat mask)

/-- mirrors `set_id` -/
def setId (id : Nat) : M Unit := write Gen.ID_START (u16be id)
def setQr := setBit Gen.QR_BYTE Gen.QR_MASK
def setAa := setBit Gen.AA_BYTE Gen.AA_MASK
def setTc := setBit Gen.TC_BYTE Gen.TC_MASK
def setRd := setBit Gen.RD_BYTE Gen.RD_MASK
def setRa := setBit Gen.RA_BYTE Gen.RA_MASK

/-- mirrors `set_opcode` (`opcode` < 16 by construction of `Opcode`) -/
def setOpcode (opcode : Nat) : M Unit :=
  setHdr Gen.OPCODE_BYTE fun b =>
    (b &&& ~~~ (UInt8.ofNat Gen.OPCODE_MASK)) ||| (UInt8.ofNat opcode <<< UInt8.ofNat Gen.OPCODE_SHIFT)

/-- mirrors `set_rcode` (`rcode` < 16 by construction of `Rcode`) -/
def setRcode (rcode : Nat) : M Unit := do
  setHdr Gen.RCODE_BYTE fun b => (b &&& ~~~ (UInt8.ofNat Gen.RCODE_MASK)) ||| UInt8.ofNat rcode
  M.modify fun s => match s.edns with
    | some e => { s with edns := some { e with upper := 0 } }
    | none => s

/-- mirrors `set_extended_rcode` -/
def setExtendedRcode (raw : Nat) : M Unit := do
  match ← M.gets (·.edns) with
  | some e =>
    if raw > 4095 then M.fail .ExtendedRcodeOverflow
    else do
      setHdr Gen.RCODE_BYTE (fun b => (b &&& ~~~ (UInt8.ofNat Gen.RCODE_MASK)) |||
              (UInt8.ofNat (raw % 256) &&& UInt8.ofNat Gen.RCODE_MASK))
      M.modify fun s' => { s' with edns := some { e with upper := (raw / 16) % 256 } }
  | none => M.fail .NotEdns

/-- getters: `id qr aa tc rd ra opcode rcode extended_rcode` -/
def getId (s : State) : Nat := be16 s.octets Gen.ID_START
def getBit (s : State) (byte mask : Nat) : Bool := (hdr s byte &&& UInt8.ofNat mask) != 0
def getOpcode (s : State) : Nat :=
  ((hdr s Gen.OPCODE_BYTE &&& UInt8.ofNat Gen.OPCODE_MASK) >>> UInt8.ofNat Gen.OPCODE_SHIFT).toNat
def getRcode (s : State) : Nat := (hdr s Gen.RCODE_BYTE &&& UInt8.ofNat Gen.RCODE_MASK).toNat
def getExtendedRcode (s : State) : Nat :=
  match s.edns with
  | some e => e.upper * 16 + getRcode s
  | none => getRcode s

/-! ### the public operations -/

/-- mirrors `set_limit` -/
def setLimit (newLimit : Nat) : M Unit := fun s =>
  if newLimit ≥ s.limit then
    let nl := min newLimit s.octets.size
    if nl < s.limit then (.panic, s)                      -- `new_limit - self.limit`
    else (.ok (), { s with limit := nl, available := s.available + (nl - s.limit) })
  else
    if s.cursor + s.limit < s.available then (.panic, s)  -- `cursor + limit - available`
    else
      let nl := max newLimit (s.cursor + s.limit - s.available)
      if s.limit < nl then (.panic, s)                    -- `self.limit - new_limit`
      else if s.available < s.limit - nl then (.panic, s) -- `self.available -= decrease`
      else (.ok (), { s with limit := nl, available := s.available - (s.limit - nl) })

def setCompressionMode (m : CMode) : M Unit := M.modify fun s => { s with mode := m }

/-- the closure passed to `with_rollback` in `add_question` -/
def addQuestionBody (qname : WName) (qtype qclass : Nat) : M Unit := do
  setCtx .qname
  let p ← writeUnhintedName qname
  setCtx .none
  M.modify fun s => if s.qdcount = 0 then { s with qname := p } else s
  tryPushU16 qtype
  tryPushU16 qclass

/-- mirrors `add_question` -/
def addQuestion (qname : WName) (qtype qclass : Nat) : M Unit := do
  let sect ← M.gets (·.sect)
  let qd ← M.gets (·.qdcount)
  if sect ≠ .question then M.fail .OutOfOrder
  else if qd + 1 > 65535 then M.fail .CountOverflow
  else do
    withRollback (addQuestionBody qname qtype qclass)
    M.modify fun s' => { s' with qdcount := s'.qdcount + 1, rrStart := s'.cursor }

inductive RrSection where
  | answer | authority | additional
  deriving Repr, DecidableEq, Inhabited

/-- `change_section_to_answer` / `change_section_to_authority` / `this.section = Additional` -/
def changeSection (sec : RrSection) : M Unit := fun s =>
  match sec, s.sect with
  | .answer, .question => (.ok (), { s with sect := .answer })
  | .answer, .answer => (.ok (), s)
  | .answer, _ => (.err .OutOfOrder, s)
  | .authority, .question => (.ok (), { s with sect := .authority })
  | .authority, .answer => (.ok (), { s with sect := .authority })
  | .authority, .authority => (.ok (), s)
  | .authority, _ => (.err .OutOfOrder, s)
  | .additional, _ => (.ok (), { s with sect := .additional })

def getCount (sec : RrSection) (s : State) : Nat :=
  match sec with
  | .answer => s.ancount
  | .authority => s.nscount
  | .additional => s.arcount

def setCount (sec : RrSection) (n : Nat) : M Unit := M.modify fun s =>
  match sec with
  | .answer => { s with ancount := n }
  | .authority => { s with nscount := n }
  | .additional => { s with arcount := n }

/-- mirrors `add_answer_rr` / `add_authority_rr` / `add_additional_rr`;
    `ttlRaw` is the `u32` handed to `Ttl::from` by the caller -/
def addRrOp (sec : RrSection) (hint : Hint) (owner : WName) (ty cls ttlRaw : Nat)
    (rdata : List UInt8) : M Unit :=
  withRollback (do
    changeSection sec
    addRr hint owner ty cls (ttlFrom ttlRaw) rdata
    let c ← M.gets (getCount sec)
    if c + 1 > 65535 then M.fail .CountOverflow
    else setCount sec (c + 1))

/-- mirrors `add_answer_rrset` / `add_authority_rrset` / `add_additional_rrset`;
    `rdatas` = `rdatas.iter()` (non-empty by construction of `RdataSet`) -/
def addRrsetOp (sec : RrSection) (hint : Hint) (owner : WName) (ty cls ttlRaw : Nat)
    (rdatas : List (List UInt8)) : M Unit :=
  withRollback (do
    changeSection sec
    let n ← addRrset hint owner ty cls (ttlFrom ttlRaw) rdatas 0
    let c ← M.gets (getCount sec)
    if n > 65535 then M.fail .CountOverflow
    else if c + n > 65535 then M.fail .CountOverflow
    else setCount sec (c + n))

/-- mirrors `clear_rrs` -/
def clearRrs : M Unit := M.modify fun s =>
  { s with ancount := 0, nscount := 0,
           arcount := (if s.edns.isSome then 1 else 0) + (if s.tsig.isSome then 1 else 0),
           cursor := s.rrStart, sect := .question, mostRecentOwner := none,
           mostRecentNameInRdata := none,
           gLabels := s.gLabels.filter (· < s.rrStart),
           gPtrs := s.gPtrs.filter (·.pos < s.rrStart) }

/-- mirrors `set_edns` -/
def setEdns (payload : Nat) : M Unit := fun s =>
  if s.edns.isSome then (.err .AlreadyEdns, s)
  else if s.cursor + Gen.OPT_RECORD_SIZE > s.available then (.err .Truncation, s)
  else if s.arcount + 1 > 65535 then (.err .CountOverflow, s)
  else (.ok (), { s with arcount := s.arcount + 1, available := s.available - Gen.OPT_RECORD_SIZE,
                         edns := some ⟨payload, 0⟩ })

/-- wire form of the algorithm names (`tsig::Algorithm::name`): "hmac-sha1.", "hmac-sha256." -/
def algName : Alg → WName
  | .hmacSha1 => ⟨["hmac-sha1".toUTF8.toList]⟩
  | .hmacSha256 => ⟨["hmac-sha256".toUTF8.toList]⟩

/-- `Algorithm::output_size` -/
def algOutputSize : Alg → Nat
  | .hmacSha1 => 20
  | .hmacSha256 => 32

/-- mirrors `PreparedTsigRr::unsigned_len` -/
def unsignedLen (rr : TsigRr) (alg : WName) : Nat :=
  rr.keyName.wire.length + alg.wire.length + 26 + (if rr.error = XR_BADTIME then 6 else 0)

/-- mirrors `PreparedTsigRr::signed_len` -/
def signedLen (rr : TsigRr) (alg : Alg) : Nat := unsignedLen rr (algName alg) + algOutputSize alg

def tsigAlgName : TsigMode → WName
  | .request a _ | .response a _ _ | .subsequent a _ _ => algName a
  | .unsigned n => n

/-- the space `set_tsig` reserves -/
def reservedLenOf (mode : TsigMode) (rr : TsigRr) : Nat :=
  match mode with
  | .request a _ | .response a _ _ | .subsequent a _ _ => signedLen rr a
  | .unsigned n => unsignedLen rr n

/-- mirrors `set_tsig` -/
def setTsig (mode : TsigMode) (rr : TsigRr) : M Unit := fun s =>
  if s.tsig.isSome then (.err .AlreadyTsig, s)
  else if s.cursor + reservedLenOf mode rr > s.available then (.err .Truncation, s)
  else if s.arcount + 1 > 65535 then (.err .CountOverflow, s)
  else (.ok (), { s with arcount := s.arcount + 1, available := s.available - reservedLenOf mode rr,
                         tsig := some ⟨mode, reservedLenOf mode rr, rr⟩ })

/-- mirrors `update_time_signed` -/
def updateTimeSigned (t : List UInt8) : M Unit := fun s =>
  match s.tsig with
  | some ts => (.ok (), { s with tsig := some { ts with rr := { ts.rr with timeSigned := t } } })
  | none => (.err .NotTsig, s)

/-- mirrors `serialize_tsig_unchecked` (src/rr/rdata/tsig.rs) with `other = rr.other()` -/
def tsigRdata (rr : TsigRr) (alg : WName) (mac : List UInt8) : List UInt8 :=
  let other := if rr.error = XR_BADTIME then rr.serverTime else []
  alg.wire ++ rr.timeSigned ++ u16be rr.fudge ++ u16be mac.length ++ mac ++ u16be rr.originalId ++
    u16be rr.error ++ u16be other.length ++ other

/-- `result.unwrap()` -/
def unwrap {α} (f : M α) : M α := fun s =>
  match f s with
  | (.err _, s') => (.panic, s')
  | r => r

/-- `finish_with_mac`, first part: the four counts are written into the header -/
def finishCounts (qd an ns ar : Nat) : M Unit := do
  write Gen.QDCOUNT_START (u16be qd)
  write Gen.ANCOUNT_START (u16be an)
  write Gen.NSCOUNT_START (u16be ns)
  write Gen.ARCOUNT_START (u16be ar)

/-- `finish_with_mac`, second part: the OPT record (`if let Some(ref edns) = self.edns`) -/
def finishOpt (edns : Option Edns) : M Unit :=
  match edns with
  | some e => do
    M.modify fun s => { s with available := s.available + Gen.OPT_RECORD_SIZE }
    unwrap (addRr .none WName.root T_OPT e.payload ((e.upper * 16777216) % 4294967296) [])
  | none => pure ()

/-- `finish_with_mac`, third part: the TSIG record (`if let Some(tsig) = self.tsig.take()`);
    `macFn tsig message` stands for `sign_request` / `sign_response` / `sign_subsequent`
    (not called in `Unsigned` mode). Result: final length and MAC. -/
def finishTsig (macFn : Tsig → List UInt8 → List UInt8) (tsig : Option Tsig) :
    M (Nat × Option (List UInt8)) :=
  match tsig with
  | some ts => do
    -- `let message = &self.octets[0..self.cursor]`
    let message ← M.gets fun s1 =>
      if s1.cursor > s1.octets.size then none else some (s1.octets.extract 0 s1.cursor).toList
    match message with
    | none => M.panic
    | some message => do
      let mac : Option (List UInt8) := match ts.mode with
        | .unsigned _ => none
        | _ => some (macFn ts message)
      let rdata := tsigRdata ts.rr (tsigAlgName ts.mode) (mac.getD [])
      M.modify fun s => { s with tsig := none, available := s.available + ts.reservedLen }
      unwrap (addRr .none ts.rr.keyName T_TSIG QC_ANY (ttlFrom 0) rdata)
      let len ← M.gets (·.cursor)
      pure (len, mac)
  | none => do
    let len ← M.gets (·.cursor)
    pure (len, none)

/-- mirrors `finish_with_mac` -/
def finishWithMac (macFn : Tsig → List UInt8 → List UInt8) : M (Nat × Option (List UInt8)) := do
  let (qd, an, ns, ar) ← M.gets fun s => (s.qdcount, s.ancount, s.nscount, s.arcount)
  let edns ← M.gets (·.edns)
  let tsig ← M.gets (·.tsig)
  finishCounts qd an ns ar
  finishOpt edns
  finishTsig macFn tsig

/-- `finish`: the octets of the finished message (the first `len` octets of the buffer) and
    the MAC -/
def finish (s : State) (macFn : Tsig → List UInt8 → List UInt8 := fun _ _ => []) :
    Out WriterErr (Bytes × Option (List UInt8)) :=
  match finishWithMac macFn s with
  | (.ok (len, mac), s') => .ok (s'.octets.extract 0 len, mac)
  | (.err e, _) => .err e
  | (.panic, _) => .panic

/-! ### sessions: one `Op` per public method -/

/-- how an owner hint is given on the API: directly, or `HintedName::from_hint_pointer_vec(slot, idx)` -/
inductive HintRef where
  | direct (h : Hint)
  | slot (slot idx : Nat)
  deriving Repr, DecidableEq, Inhabited

inductive Op where
  | setId (v : Nat) | setQr (b : Bool) | setAa (b : Bool) | setTc (b : Bool) | setRd (b : Bool)
  | setRa (b : Bool) | setOpcode (v : Nat) | setRcode (v : Nat) | setExtendedRcode (v : Nat)
  | setLimit (v : Nat) | setMode (m : CMode)
  | addQuestion (qname : WName) (qtype qclass : Nat)
  | addRr (sec : RrSection) (hint : HintRef) (owner : WName) (ty cls ttl : Nat)
      (rdata : List UInt8) (hv : Option Nat)
  | addRrset (sec : RrSection) (hint : HintRef) (owner : WName) (ty cls ttl : Nat)
      (rdatas : List (List UInt8)) (hv : Option Nat)
  | clearRrs
  | setEdns (payload : Nat)
  | setTsig (mode : TsigMode) (rr : TsigRr)
  | updateTimeSigned (t : List UInt8)
  | template (buflen : Nat) (fill : UInt8)                -- into_template; try_from_template
  | templateSubsequent (buflen : Nat) (fill : UInt8) (priorMac : List UInt8)
  | getters
  deriving Repr, Inhabited

/-- a session: the writer plus the caller's `HintPointerVec`s -/
structure Session where
  w : State
  hvs : List HV := []
  deriving Repr, Inhabited

def hvGet (hvs : List HV) (slot : Nat) : HV := hvs.getD slot []

def hvSet : List HV → Nat → HV → List HV
  | [], 0, v => [v]
  | [], n+1, v => [] :: hvSet [] n v
  | _ :: r, 0, v => v :: r
  | x :: r, n+1, v => x :: hvSet r n v

/-- `HintedName::from_hint_pointer_vec(vec, idx, name).hint` -/
def resolveHint (hvs : List HV) : HintRef → Hint
  | .direct h => h
  | .slot sl idx =>
    match (hvGet hvs sl)[idx]? with
    | some (some p) => .explicit p
    | _ => .none

/-- run one call that lends `HintPointerVec` number `slot` to the writer -/
def withHv (ss : Session) (slot : Option Nat) (f : M Unit) : Out WriterErr Unit × Session :=
  let s0 := { ss.w with hv := slot.map (hvGet ss.hvs) }
  match f s0 with
  | (r, s1) =>
    let hvs := match slot, s1.hv with
      | some sl, some v => hvSet ss.hvs sl v
      | _, _ => ss.hvs
    (r, { w := { s1 with hv := none }, hvs := hvs })

def liftW (ss : Session) (f : M Unit) : Out WriterErr Unit × Session :=
  match f ss.w with
  | (r, s1) => (r, { ss with w := s1 })

/-- replace the writer by one re-created from its template on a fresh buffer; when that fails
    the session continues on a fresh buffer of the old size (which always suffices) -/
def retemplate (ss : Session) (buflen : Nat) (fill : UInt8)
    (mk : Bytes → Template → Out WriterErr State) : Out WriterErr Unit × Session :=
  match intoTemplate ss.w with
  | .ok t =>
    match mk (Array.replicate buflen fill) t with
    | .ok s' => (.ok (), { ss with w := s' })
    | r =>
      let res : Out WriterErr Unit := match r with
        | .err e => .err e
        | _ => .panic
      match tryFromTemplate (Array.replicate ss.w.octets.size fill) t with
      | .ok s' => (res, { ss with w := s' })
      | _ => (.panic, ss)
  | _ => (.panic, ss)

/-- one public call; the result of `getters` is reported separately by the driver -/
def step (ss : Session) : Op → Out WriterErr Unit × Session
  | .setId v => liftW ss (setId v)
  | .setQr b => liftW ss (setQr b)
  | .setAa b => liftW ss (setAa b)
  | .setTc b => liftW ss (setTc b)
  | .setRd b => liftW ss (setRd b)
  | .setRa b => liftW ss (setRa b)
  | .setOpcode v => liftW ss (setOpcode v)
  | .setRcode v => liftW ss (setRcode v)
  | .setExtendedRcode v => liftW ss (setExtendedRcode v)
  | .setLimit v => liftW ss (setLimit v)
  | .setMode m => liftW ss (setCompressionMode m)
  | .addQuestion n t c => liftW ss (addQuestion n t c)
  | .addRr sec h o ty cls ttl rd hv =>
    withHv ss hv (addRrOp sec (resolveHint ss.hvs h) o ty cls ttl rd)
  | .addRrset sec h o ty cls ttl rds hv =>
    withHv ss hv (addRrsetOp sec (resolveHint ss.hvs h) o ty cls ttl rds)
  | .clearRrs => liftW ss clearRrs
  | .setEdns p => liftW ss (setEdns p)
  | .setTsig m rr => liftW ss (setTsig m rr)
  | .updateTimeSigned t => liftW ss (updateTimeSigned t)
  | .template n fill => retemplate ss n fill tryFromTemplate
  | .templateSubsequent n fill mac =>
    retemplate ss n fill (fun b t => tryFromTemplateAsTsigSubsequent b t mac)
  | .getters => (.ok (), ss)

/-- run a whole session: final session state and the result of every call, in order.
    A panic aborts the session (the remaining calls are not made). -/
def run (ss : Session) : List Op → Session × List (Out WriterErr Unit)
  | [] => (ss, [])
  | op :: ops =>
    match step ss op with
    | (.panic, ss') => (ss', [.panic])
    | (r, ss') =>
      match run ss' ops with
      | (ss'', rs) => (ss'', r :: rs)

end QV.Writer
