/-
  QV.Model.ServerRrl — `Server::handle_message` with response rate limiting enabled
  (`self.rrl = Some(..)`): the glue between the request handler (QV.Model.Server) and the RRL table
  (QV.Model.Rrl), i.e. the last third of `handle_message` in src/server/mod.rs

      self.handle_message_with_context(&mut context);
      if let Some(ref rrl) = self.rrl { rrl.process_response(&mut context); }
      if context.send_response { Response::Single(context.response.finish()) } else { Response::None }

  and what `Rrl::process_response` (src/server/rrl.rs) reads from and does to the `Context`:
  `subject_to_rrl` (send_response, UDP, opcode QUERY), the category from the writer's extended
  RCODE, the name to hash (source of synthesis, else the question's QNAME, else the root — the
  repair of D17), and the action: Send (nothing), Slip (`response.clear_rrs(); response.set_tc(true)`)
  or Drop (`send_response = false`).

  * `handleToContext` is the first two thirds of `handle_message` (it is `QV.Server.handleMessage`
    cut before `finish`; `QV.ServerSafety.handleMessage_eq_toContext` proves that
    `handleMessage = handleToContext >>= finishResponse`).
  * Environment inputs (DESIGN.md §3.5): `now` = `SystemTime::now()` of the TSIG branch (seconds),
    `tnow` = `Instant::now()` read under the bucket lock (nanoseconds), `rs` = the table's
    `RandomState`, `rnd` = the random bit of `should_slip` (slip ≥ 2), `src` = the source address as
    handed to `ReceivedInfo::new`.
  * `context.source_of_synthesis` is not carried by `QV.Server.handleWithContext` (which returns
    `send_response` and the writer). It is recomputed: `sosOfQuery` repeats the first zone lookup of
    `answer` / `answer_any` — the only places that assign it (Found / Cname / NoRecords resp. Found)
    — and `rrlContext` uses it only when the handler reached one of those arms, which it recognises
    by the AA bit of the response: every arm that assigns the source of synthesis also calls
    `set_aa(true)`, and AA is reset only together with `set_rcode(SERVFAIL)`; a NOERROR response
    whose AA bit is clear is a referral or the RFC 8945 §5.3 truncation (neither assigns it), and
    for categories other than NoError `process_response` does not look at the field at all.

  Core Lean only (linked into the driver).
-/
import QV.Model.Server
import QV.Model.Rrl

namespace QV.Server
open QV QV.Writer

/-- where `handle_message` stands when it turns to RRL -/
inductive Handled where
  /-- `Response::None` was returned before a `Context` existed (short message, QR set) -/
  | noContext
  /-- `handle_message_with_context` returned: `send_response`, the writer, the reader -/
  | ctx (send : Bool) (w : State) (r0 : Reader.Reader)
  deriving Inhabited

/-- `handle_message` up to and including `handle_message_with_context` -/
def handleToContext (cfg : Cfg) (tr : Transport) (now : Nat) (bufLen : Nat) (req : Bytes) : Out Unit Handled :=
  let minBuf := match tr with | .tcp => 65535 | .udp => cfg.payload
  if bufLen < minBuf then .panic
  else
    match Reader.tryFrom req with
    | .ok r0 =>
      match Reader.qr r0, Reader.msgId r0, Reader.opcode r0, Reader.rd r0 with
      | .ok qr, .ok id, .ok opcode, .ok rd =>
        if qr then .ok .noContext
        else
          let limit := match tr with | .tcp => 65535 | .udp => 512
          match Writer.new (Array.replicate bufLen 0) limit with
          | .ok w0 =>
            let prog : M Bool := do
              setId id
              setQr true
              setOpcode opcode
              if opcode = 0 then setRd rd else pure ()
              handleWithContext cfg tr now r0
            match prog w0 with
            | (.ok send, w1) => .ok (.ctx send w1 r0)
            | _ => .panic
          | _ => .panic
      | _, _, _, _ => .panic
    | .err _ => .ok .noContext
    | .panic => .panic

/-- `if context.send_response { Response::Single(context.response.finish()) } else { Response::None }` -/
def finishResponse : Handled → Out Unit (Option Bytes)
  | .noContext => .ok none
  | .ctx false _ _ => .ok none
  | .ctx true w1 _ =>
    match Writer.finish w1 macFn with
    | .ok (bytes, _) => .ok (some bytes)
    | _ => .panic

/-! ### what `process_response` reads from the `Context` -/

/-- `context.question` as `handle_message_with_context` leaves it: `Some` iff QDCOUNT = 1 and
    `read_question` succeeded (and `add_question` did: otherwise the response is SERVFAIL, a
    category for which the question is not looked at) -/
def questionOf (r0 : Reader.Reader) : Option Reader.Question :=
  match Reader.qdcount r0 with
  | .ok 1 =>
    match Reader.readQuestion r0 with
    | (.ok q, _) => some q
    | _ => none
  | _ => none

/-- the assignments `context.source_of_synthesis = …` of `answer` (Found, Cname, NoRecords) and
    `answer_any` (Found): the source of synthesis of the first lookup of QNAME in the zone
    `handle_query` selects -/
def sosOfQuery (cfg : Cfg) (qname : WName) (qtype qclass : Nat) : Option NameL.Name :=
  if qtype = QT "IXFR" ∨ qtype = QT "AXFR" ∨ qtype = QT "MAILB" ∨ qtype = QT "MAILA" then none
  else if qclass = QC_ANY then none
  else
    match Catalog.lookup (mkCatalog cfg.zones) qname.labels qclass with
    | some e =>
      match e.kind with
      | .Loaded =>
        match cfg.zones[e.zone]? with
        | some ze =>
          if qtype = QT "ANY" then
            match Zone.lookupAll ze.zone (fold qname) ⟨true, false⟩ with
            | .ok (.found _ sos) => sos
            | _ => none
          else
            match Zone.lookup ze.zone (fold qname) qtype ⟨true, false⟩ with
            | .ok (.found _ sos) => sos
            | .ok (.cname _ sos) => sos
            | .ok (.noRecords sos) => sos
            | _ => none
        | none => none
      | _ => none
    | none => none

/-- `Transport` of the handler in the vocabulary of the RRL model -/
def rrlTransport : Transport → Rrl.Transport
  | .udp => .Udp
  | .tcp => .Tcp

/-- the `Context` as `process_response` sees it -/
def rrlContext (cfg : Cfg) (tr : Transport) (src : Rrl.IpAddr) (send : Bool) (w : State)
    (r0 : Reader.Reader) : Rrl.Context :=
  let question := questionOf r0
  let sos : Option (List UInt8) :=
    if getBit w Gen.AA_BYTE Gen.AA_MASK then
      match question with
      | some q =>
        match WName.parse q.qname with
        | some (qn, []) => (sosOfQuery cfg qn q.qtype q.qclass).map NameL.toWire
        | _ => none
      | none => none
    else none
  { send_response := send
    transport := rrlTransport tr
    opcode := match Reader.opcode r0 with | .ok o => o | _ => 0
    source := Rrl.ReceivedInfo.new src
    extended_rcode := getExtendedRcode w
    question := question.map (·.qname)
    source_of_synthesis := sos
    response := { tc := getBit w Gen.TC_BYTE Gen.TC_MASK, ancount := w.ancount, nscount := w.nscount,
                  arcount := w.arcount, edns := w.edns.isSome, tsig := w.tsig.isSome }
    rrl_action := none }

/-- what `process_response` does to the writer: `Slip` ⇒ `clear_rrs(); set_tc(true)` -/
def applyRrlAction : Option Rrl.Action → M Unit
  | some .Slip => do clearRrs; setTc true
  | _ => pure ()

/-- **`Server::handle_message` with `rrl = Some(..)`**: the response (if any) and the table -/
def handleMessageRrl (cfg : Cfg) (tr : Transport) (now : Nat) (bufLen : Nat) (req : Bytes)
    (rs : Rrl.RandomState) (rrl : Rrl.Rrl) (src : Rrl.IpAddr) (tnow : Nat) (rnd : Bool) :
    Out Unit (Option Bytes × Rrl.Rrl) :=
  match handleToContext cfg tr now bufLen req with
  | .ok .noContext => .ok (none, rrl)
  | .ok (.ctx send w1 r0) =>
    match Rrl.processResponse rs rrl tnow rnd (rrlContext cfg tr src send w1 r0) with
    | .ok (rrl', c') =>
      match applyRrlAction c'.rrl_action w1 with
      | (.ok (), w2) =>
        match finishResponse (.ctx c'.send_response w2 r0) with
        | .ok resp => .ok (resp, rrl')
        | _ => .panic
      | _ => .panic
    | .err e => nomatch e
    | .panic => .panic
  | .err _ => .panic
  | .panic => .panic

/-- one received message together with the environment inputs read while it is handled -/
structure Arrival where
  tr : Transport
  now : Nat
  bufLen : Nat
  req : Bytes
  src : Rrl.IpAddr
  tnow : Nat
  rnd : Bool

/-- one `Server` with RRL enabled handles a sequence of messages: the table is the only state that
    passes from one call of `handle_message` to the next. (Calls may run concurrently; each holds
    the lock of the one bucket it touches for its whole read-modify-write, so every concurrent run
    is some sequence of this form.) -/
def serveAll (cfg : Cfg) (rs : Rrl.RandomState) : Rrl.Rrl → List Arrival → Out Unit (List (Option Bytes) × Rrl.Rrl)
  | rrl, [] => .ok ([], rrl)
  | rrl, a :: rest =>
    match handleMessageRrl cfg a.tr a.now a.bufLen a.req rs rrl a.src a.tnow a.rnd with
    | .ok (resp, rrl') =>
      match serveAll cfg rs rrl' rest with
      | .ok (resps, rrl'') => .ok (resp :: resps, rrl'')
      | _ => .panic
    | _ => .panic

end QV.Server
