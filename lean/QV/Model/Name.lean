/-
  QV.Model.Name — model of src/name/mod.rs, src/name/label.rs, src/name/builder.rs,
  src/name/lowercase.rs (layer 1; property C16).

  A `Name` is represented by its uncompressed wire form (`List UInt8`): for every label a length
  octet followed by the label's octets, terminated by the null label `0`.  The Rust `Name` also
  stores `n_labels` and a table of label offsets; both are functions of the wire form here
  (`nLabels`, `labelOffset`), and the builder — the only code that *computes* such a table
  incrementally — carries its table explicitly so that `ArrayVec::push` past capacity and the
  consistency of the table are modelled (`Builder.offsets`).

  Text is `List UInt8`, the UTF-8 octets of a `&str` (functions are total on arbitrary octets).
  `Out.panic` models index/slice out of range, `unwrap` on `None`, `ArrayVec::push` past capacity
  and `u8` overflow in the dev profile.

  Constants are the generated `Gen.MAX_LABEL_LEN`, `Gen.MAX_WIRE_LEN`, `Gen.MAX_N_LABELS`.
-/
import QV.Prelude
import QV.Generated.Consts
import QV.Model.Codes

namespace QV.Name
open QV
open QV.Codes (Text eqIgnoreAsciiCase isDigit)

abbrev Label := List UInt8

/-- src/name/error.rs `Error` (the variants the name text/builder code can return) -/
inductive NameErr where
  | InvalidEscape | LabelTooLong | NameTooLong | NonNullTerminal | NullNonTerminal
  | StrEmpty | StrNotAscii
  | NotWF   -- not a Rust error: the driver's answer when handed a wire form that is no name
  deriving Repr, DecidableEq, Inhabited

def NameErr.toString : NameErr → String
  | .InvalidEscape => "InvalidEscape"
  | .LabelTooLong => "LabelTooLong"
  | .NameTooLong => "NameTooLong"
  | .NonNullTerminal => "NonNullTerminal"
  | .NullNonTerminal => "NullNonTerminal"
  | .StrEmpty => "StrEmpty"
  | .StrNotAscii => "StrNotAscii"
  | .NotWF => "NotWF"

/-! ### walking the wire form (what `labels()`, `Index`, `label_offset` compute) -/

/-- `name.labels()` collected: every label's octets, the final null label included.
    mirrors src/name/mod.rs `Labels` / `Index<usize> for Name` -/
def labelsOf : List UInt8 → List Label
  | [] => []
  | l :: rest => if l = 0 then [[]] else rest.take l.toNat :: labelsOf (rest.drop l.toNat)
termination_by w => w.length
decreasing_by simp; omega

/-- `name.len()` = `n_labels` -/
def nLabels (w : List UInt8) : Nat := (labelsOf w).length

/-- `label_offset(n)`: position in the wire form of the length octet of label `n` -/
def labelOffset : List UInt8 → Nat → Nat
  | _, 0 => 0
  | [], _ + 1 => 0
  | l :: rest, n + 1 => 1 + l.toNat + labelOffset (rest.drop l.toNat) n

/-- the stored table `label_offsets()` -/
def labelOffsets (w : List UInt8) : List Nat := (List.range (nLabels w)).map (labelOffset w)

/-- executable well-formedness check (labels 1..63 octets, null-terminated, nothing after the
    terminator, ≤ 255 octets) — used by the driver to refuse wire forms that are no names -/
def wfAux : List UInt8 → Bool
  | [] => false
  | l :: rest =>
    if l = 0 then rest.isEmpty
    else l.toNat ≤ Gen.MAX_LABEL_LEN && l.toNat ≤ rest.length && wfAux (rest.drop l.toNat)
termination_by w => w.length
decreasing_by simp; omega

def wfb (w : List UInt8) : Bool := wfAux w && w.length ≤ Gen.MAX_WIRE_LEN

/-! ### Display  (src/name/label.rs `impl Display for Label`, src/name/mod.rs `impl Display for Name`) -/

/-- `u8::is_ascii_graphic`: `!`..=`~` -/
@[inline] def isGraphic (b : UInt8) : Bool := 33 ≤ b.toNat && b.toNat ≤ 126

/-- `write!(f, "\\{:03}", octet)` -/
def escDecimal (b : UInt8) : Text :=
  [92, UInt8.ofNat (48 + b.toNat / 100), UInt8.ofNat (48 + b.toNat / 10 % 10), UInt8.ofNat (48 + b.toNat % 10)]

def escapeOctet (b : UInt8) : Text :=
  if b = 46 then [92, 46]            -- `\.`
  else if b = 92 then [92, 92]       -- `\\`
  else if isGraphic b then [b]
  else escDecimal b

def displayLabel (l : Label) : Text := l.flatMap escapeOctet

/-- `impl Display for Name`: `.` for the root; otherwise the first label, then `.` + label for each
    further label (the final null label prints as the trailing dot) -/
def displayName (w : List UInt8) : Out NameErr Text :=
  if nLabels w ≤ 1 then .ok [46]
  else
    match labelsOf w with
    | [] => .panic                    -- `labels.next().unwrap()`
    | first :: rest => .ok (displayLabel first ++ rest.flatMap (fun l => 46 :: displayLabel l))

/-! ### NameBuilder  (src/name/builder.rs) -/

structure Builder where
  wire : List UInt8       -- wire_repr: ArrayVec<u8, MAX_WIRE_LEN>
  offsets : List Nat      -- label_offsets: ArrayVec<u8, MAX_N_LABELS>
  labelStart : Nat
  labelLen : Nat          -- u8
  deriving Repr, DecidableEq, Inhabited

/-- `NameBuilder::new` -/
def Builder.new : Builder := ⟨[0], [0], 0, 0⟩

/-- `is_fully_qualified` -/
def Builder.isFullyQualified (b : Builder) : Bool := b.labelLen == 0

/-- `try_push`: the builder after the call, and the call's result -/
def Builder.tryPush (b : Builder) (o : UInt8) : Builder × Out NameErr Unit :=
  if b.labelLen ≥ Gen.MAX_LABEL_LEN then (b, .err .LabelTooLong)
  else if b.wire.length < Gen.MAX_WIRE_LEN then
    ({ b with wire := b.wire ++ [o], labelLen := b.labelLen + 1 }, .ok ())
  else (b, .err .NameTooLong)

/-- `try_push_slice` -/
def Builder.tryPushSlice (b : Builder) (os : List UInt8) : Builder × Out NameErr Unit :=
  if b.labelLen + os.length > Gen.MAX_LABEL_LEN then (b, .err .LabelTooLong)
  else if b.wire.length + os.length ≤ Gen.MAX_WIRE_LEN then
    ({ b with wire := b.wire ++ os, labelLen := b.labelLen + os.length }, .ok ())
  else (b, .err .NameTooLong)

/-- `update_label_len`: `self.wire_repr[self.label_start] = self.label_len` -/
def Builder.updateLabelLen (b : Builder) : Option (List UInt8) :=
  if b.labelStart < b.wire.length then some (b.wire.set b.labelStart (UInt8.ofNat b.labelLen)) else none

/-- `next_label` -/
def Builder.nextLabel (b : Builder) : Builder × Out NameErr Unit :=
  if b.isFullyQualified then (b, .err .NullNonTerminal)
  else if b.wire.length ≥ Gen.MAX_WIRE_LEN then (b, .err .NameTooLong)
  else
    match b.updateLabelLen with
    | none => (b, .panic)                                   -- index out of bounds
    | some w =>
      if b.offsets.length ≥ Gen.MAX_N_LABELS then (b, .panic)  -- ArrayVec::push past capacity
      else ({ wire := w ++ [0], offsets := b.offsets ++ [w.length], labelStart := w.length, labelLen := 0 }, .ok ())

/-- a finished name: wire form and the label-offset table handed to `new_boxed_name` -/
structure Built where
  wire : List UInt8
  offsets : List Nat
  deriving Repr, DecidableEq, Inhabited

/-- `finish` -/
def Builder.finish (b : Builder) : Out NameErr Built :=
  if !b.isFullyQualified then .err .NonNullTerminal else .ok ⟨b.wire, b.offsets⟩

/-- the first loop of `finish_with_suffix`: `try_push(label.len())`, `try_extend_from_slice(octets)` -/
def pushSuffixLabels (w : List UInt8) : List Label → Out NameErr (List UInt8)
  | [] => .ok w
  | l :: ls =>
    if w.length < Gen.MAX_WIRE_LEN then
      if w.length + 1 + l.length ≤ Gen.MAX_WIRE_LEN then
        pushSuffixLabels (w ++ [UInt8.ofNat l.length] ++ l) ls
      else .err .NameTooLong
    else .err .NameTooLong

/-- the second loop: `label_offsets.push(*offset + label_offset_base)` (`u8` addition) -/
def pushSuffixOffsets (offs : List Nat) (base : Nat) : List Nat → Out NameErr (List Nat)
  | [] => .ok offs
  | o :: os =>
    if o + base > 255 then .panic                       -- u8 overflow (dev profile)
    else if offs.length ≥ Gen.MAX_N_LABELS then .panic  -- ArrayVec::push past capacity
    else pushSuffixOffsets (offs ++ [o + base]) base os

/-- `finish_with_suffix(suffix)`; `suffix` is a name (wire form) -/
def Builder.finishWithSuffix (b : Builder) (suffix : List UInt8) : Out NameErr Built :=
  if b.isFullyQualified then .err .NullNonTerminal
  else
    match b.updateLabelLen with
    | none => .panic
    | some w =>
      match pushSuffixLabels w (labelsOf suffix) with
      | .ok w' =>
        match pushSuffixOffsets b.offsets w.length (labelOffsets suffix) with
        | .ok offs => .ok ⟨w', offs⟩
        | .err e => .err e
        | .panic => .panic
      | .err e => .err e
      | .panic => .panic

/-! ### FromStr for Box<Name>  (src/name/mod.rs `from_str`, `parse_escape`) -/

/-- `parse_escape(remaining_octets)`: the octet value and the number of octets consumed -/
def parseEscape (r : Text) : Out NameErr (UInt8 × Nat) :=
  match r with
  | [] => .err .InvalidEscape
  | a :: rest =>
    if isDigit a then
      match rest with
      | b :: c :: _ =>
        if !isDigit b || !isDigit c then .err .InvalidEscape
        else
          let value := 100 * (a.toNat - 48) + 10 * (b.toNat - 48) + (c.toNat - 48)
          if value > 255 then .err .InvalidEscape else .ok (UInt8.ofNat value, 3)
      | _ => .err .InvalidEscape
    else .ok (a, 1)

/-- the `while let Some(&octet) = remaining_octets.first()` loop, then `builder.finish()` -/
def fromStrLoop (b : Builder) (s : Text) : Out NameErr Built :=
  match s with
  | [] => b.finish
  | octet :: rest =>
    if octet = 92 then
      match parseEscape rest with
      | .ok (value, consumed) =>
        match b.tryPush value with
        | (b', .ok ()) => fromStrLoop b' (rest.drop consumed)
        | (_, .err e) => .err e
        | (_, .panic) => .panic
      | .err e => .err e
      | .panic => .panic
    else if octet = 46 then
      match b.nextLabel with
      | (b', .ok ()) => fromStrLoop b' rest
      | (_, .err e) => .err e
      | (_, .panic) => .panic
    else if octet.toNat ≥ 128 then .err .StrNotAscii
    else
      match b.tryPush octet with
      | (b', .ok ()) => fromStrLoop b' rest
      | (_, .err e) => .err e
      | (_, .panic) => .panic
termination_by s.length
decreasing_by all_goals simp <;> omega

/-- `impl FromStr for Box<Name>` (`Name::root().to_owned()` has wire `[0]`, offsets `[0]`) -/
def fromStr (s : Text) : Out NameErr Built :=
  if s.isEmpty then .err .StrEmpty
  else if s = [46] then .ok ⟨[0], [0]⟩
  else fromStrLoop Builder.new s

/-! ### equality, hashing, ordering  (src/name/label.rs, src/name/mod.rs) -/

/-- `impl PartialEq for Label` -/
def labelEq (a b : Label) : Bool := eqIgnoreAsciiCase a b

/-- `impl PartialEq for Name`: `len` equal and all zipped labels equal -/
def nameEq (a b : List UInt8) : Bool :=
  nLabels a == nLabels b && ((labelsOf a).zip (labelsOf b)).all (fun p => labelEq p.1 p.2)

/-- the octets `impl Hash for Label` feeds to the hasher: `write_u8(len)`, then each octet
    lower-cased -/
def labelHashInput (l : Label) : List UInt8 := UInt8.ofNat l.length :: l.map lowerU8

/-- the octets `impl Hash for Name` feeds to the hasher -/
def hashInput (w : List UInt8) : List UInt8 := (labelsOf w).flatMap labelHashInput

/-- `u8::cmp` of the lower-cased octets -/
def octetCmp (a b : UInt8) : Ordering := compare (lowerU8 a).toNat (lowerU8 b).toNat

/-- `zip(..).find_map(|(a, b)| Some(cmp a b).filter(is_ne))` -/
def zipFindNe {α : Type} (cmp : α → α → Ordering) : List α → List α → Option Ordering
  | a :: as, b :: bs => if cmp a b != .eq then some (cmp a b) else zipFindNe cmp as bs
  | _, _ => none

/-- `impl Ord for Label` -/
def labelCmp (a b : Label) : Ordering :=
  (zipFindNe octetCmp a b).getD (compare a.length b.length)      -- `.unwrap_or_else(len cmp)`

/-- `impl Ord for Name`: labels compared from the last one backwards -/
def nameCmp (a b : List UInt8) : Ordering :=
  (zipFindNe labelCmp (labelsOf a).reverse (labelsOf b).reverse).getD (compare (nLabels a) (nLabels b))

/-! ### the rest of the public API -/

/-- `eq_or_subdomain_of` -/
def eqOrSubdomainOf (a b : List UInt8) : Bool :=
  nLabels a ≥ nLabels b &&
    ((labelsOf a).reverse.zip (labelsOf b).reverse).all (fun p => labelEq p.1 p.2)

/-- `is_root` -/
def isRoot (w : List UInt8) : Bool := nLabels w == 1

/-- `Index<usize> for Name` -/
def index (w : List UInt8) (i : Nat) : Out NameErr Label :=
  if i < nLabels w then
    match (labelsOf w)[i]? with
    | some l => .ok l
    | none => .panic
  else .panic                                   -- `self.label_offsets()[n]` out of bounds

/-- `is_wildcard`: `self[0].is_asterisk()` (`Label::eq`, i.e. case-insensitive, with `*`) -/
def isWildcard (w : List UInt8) : Out NameErr Bool :=
  match index w 0 with
  | .ok l => .ok (labelEq l [42])
  | .err e => .err e
  | .panic => .panic

/-- `superdomain(skip)`: `wire_repr()[label_offset(skip)..]` -/
def superdomain (w : List UInt8) (skip : Nat) : Option (List UInt8) :=
  if skip < nLabels w then some (w.drop (labelOffset w skip)) else none

/-- `wire_repr_to(n)` -/
def wireReprTo (w : List UInt8) (n : Nat) : Out NameErr (List UInt8) :=
  if n = nLabels w then .ok w
  else if n < nLabels w then .ok (w.take (labelOffset w n))
  else .panic

/-- `wire_repr_from(n)` -/
def wireReprFrom (w : List UInt8) (n : Nat) : Out NameErr (List UInt8) :=
  if n = nLabels w then .ok []
  else if n < nLabels w then .ok (w.drop (labelOffset w n))
  else .panic

/-- `make_ascii_lowercase`: every label's octets are lower-cased in place (length octets are
    not touched) -/
def makeAsciiLowercase : List UInt8 → List UInt8
  | [] => []
  | l :: rest =>
    if l = 0 then l :: rest
    else l :: (rest.take l.toNat).map lowerU8 ++ makeAsciiLowercase (rest.drop l.toNat)
termination_by w => w.length
decreasing_by simp; omega

end QV.Name
