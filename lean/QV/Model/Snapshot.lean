/-
  QV.Model.Snapshot — the snapshot discipline of `Server` (src/server/mod.rs) as a
  nondeterministic transition system (DESIGN.md §6 C32).

  mirrors src/server/mod.rs:
    * `Server::catalog()`       = one locked read  `self.catalog.read().unwrap().clone()`
    * `Server::set_catalog(g)`  = one locked write `*self.catalog.write().unwrap() = g`
    * `Server::tsig_keys()` / `set_tsig_keys(h)` likewise
    * `handle_message`: `let catalog = self.catalog();` exactly once, the `Context` keeps `&C`;
      the TSIG branch of `handle_message_with_context`: `let tsig_keys = self.tsig_keys();`
      at most once (only for the final additional record).
  That the source has this shape is re-checked on every run by tools/extract_snapshot.py
  (`QV.Gen.snapshot*`, required by `QV.C32.C32_structural_premise`).

  Model: any number of handlers and swappers, every interleaving of their atomic steps.
    handler  : start → gotCat c → (gotKeys c k)? → done (f c k? req)
    swappers : `setCat g`, `setKeys h` (atomic writes)
  Ghost state (history lists, version indices) records *when* each value was current, so that
  linearizability of the two reads can be stated.  Core Lean only (linked into the driver).
-/
namespace QV.Snapshot

/-- program counter of one in-flight `handle_message` call; the `Nat`s are ghost version indices
    (position in the history list of the value that was read). -/
inductive Pc (C K Resp : Type) where
  | start
  | gotCat (c : C) (ci : Nat)
  | gotKeys (c : C) (ci : Nat) (k : K) (ki : Nat)
  /-- response `r`, computed from catalog `c` (version `ci`) and key set `ko`; `ce`/`ke` are the
      newest catalog / key versions that existed when the handler finished -/
  | done (r : Resp) (c : C) (ci : Nat) (ko : Option (K × Nat)) (ce ke : Nat)

structure Handler (C K Req Resp : Type) where
  req : Req
  /-- ghost: version of the catalog / key set that was current when the handler started -/
  catLo : Nat
  keyLo : Nat
  pc : Pc C K Resp

structure State (C K Req Resp : Type) where
  cat : C
  keys : K
  /-- ghost: every value the catalog has had, oldest first (the current one is last) -/
  catHist : List C
  keyHist : List K
  hs : List (Handler C K Req Resp)

variable {C K Req Resp : Type}

def init (c0 : C) (k0 : K) : State C K Req Resp :=
  { cat := c0, keys := k0, catHist := [c0], keyHist := [k0], hs := [] }

/-- version index of the value that is current -/
def State.catVer (s : State C K Req Resp) : Nat := s.catHist.length - 1
def State.keyVer (s : State C K Req Resp) : Nat := s.keyHist.length - 1

/-- One atomic step.  `f c k? req` is the response the message-handling code computes from the
    catalog snapshot `c`, the key-set snapshot (if the TSIG branch was reached) and the request.
    Whether a handler reads the keys is left nondeterministic (it depends on the request and the
    clock), which only makes the theorems stronger. -/
inductive Step (f : C → Option K → Req → Resp) : State C K Req Resp → State C K Req Resp → Prop where
  /-- a new `handle_message` call begins -/
  | spawn (s) (req : Req) :
      Step f s { s with hs := s.hs ++ [{ req := req, catLo := s.catVer, keyLo := s.keyVer, pc := .start }] }
  /-- `let catalog = self.catalog();` -/
  | readCat (s) (i : Nat) (h : Handler C K Req Resp) (hi : s.hs[i]? = some h) (hp : h.pc = .start) :
      Step f s { s with hs := s.hs.set i { h with pc := .gotCat s.cat s.catVer } }
  /-- `let tsig_keys = self.tsig_keys();` -/
  | readKeys (s) (i : Nat) (h : Handler C K Req Resp) (c : C) (ci : Nat) (hi : s.hs[i]? = some h)
      (hp : h.pc = .gotCat c ci) :
      Step f s { s with hs := s.hs.set i { h with pc := .gotKeys c ci s.keys s.keyVer } }
  /-- the response is finished without the key set having been consulted -/
  | respondNoKeys (s) (i : Nat) (h : Handler C K Req Resp) (c : C) (ci : Nat) (hi : s.hs[i]? = some h)
      (hp : h.pc = .gotCat c ci) :
      Step f s { s with hs := s.hs.set i { h with pc := .done (f c none h.req) c ci none s.catVer s.keyVer } }
  /-- the response is finished after the TSIG branch -/
  | respondKeys (s) (i : Nat) (h : Handler C K Req Resp) (c : C) (ci : Nat) (k : K) (ki : Nat)
      (hi : s.hs[i]? = some h) (hp : h.pc = .gotKeys c ci k ki) :
      Step f s { s with hs := s.hs.set i { h with pc := .done (f c (some k) h.req) c ci (some (k, ki)) s.catVer s.keyVer } }
  /-- `set_catalog(g)` -/
  | setCat (s) (g : C) : Step f s { s with cat := g, catHist := s.catHist ++ [g] }
  /-- `set_tsig_keys(h)` -/
  | setKeys (s) (k : K) : Step f s { s with keys := k, keyHist := s.keyHist ++ [k] }

/-- states reachable from an initial catalog / key set under any interleaving -/
inductive Reachable (f : C → Option K → Req → Resp) (c0 : C) (k0 : K) : State C K Req Resp → Prop where
  | init : Reachable f c0 k0 (init c0 k0)
  | step {s s'} : Reachable f c0 k0 s → Step f s s' → Reachable f c0 k0 s'

/-! ### the hypothetical handler that reads the catalog twice (why the structural premise matters) -/

namespace TwoReads

/-- a handler that consults `self.catalog()` a second time later in the same message -/
inductive Pc2 (C Resp : Type) where
  | start
  | got1 (c1 : C)
  | got2 (c1 c2 : C)
  | done (r : Resp)

structure State2 (C Req Resp : Type) where
  cat : C
  hs : List (Req × Pc2 C Resp)

inductive Step2 (f2 : C → C → Req → Resp) : State2 C Req Resp → State2 C Req Resp → Prop where
  | spawn (s) (req : Req) : Step2 f2 s { s with hs := s.hs ++ [(req, .start)] }
  | read1 (s) (i) (req) (hi : s.hs[i]? = some (req, .start)) : Step2 f2 s { s with hs := s.hs.set i (req, .got1 s.cat) }
  | read2 (s) (i) (req) (c1) (hi : s.hs[i]? = some (req, .got1 c1)) : Step2 f2 s { s with hs := s.hs.set i (req, .got2 c1 s.cat) }
  | respond (s) (i) (req) (c1 c2) (hi : s.hs[i]? = some (req, .got2 c1 c2)) :
      Step2 f2 s { s with hs := s.hs.set i (req, .done (f2 c1 c2 req)) }
  | setCat (s) (g : C) : Step2 f2 s { s with cat := g }

inductive Reachable2 (f2 : C → C → Req → Resp) (c0 : C) : State2 C Req Resp → Prop where
  | init : Reachable2 f2 c0 { cat := c0, hs := [] }
  | step {s s'} : Reachable2 f2 c0 s → Step2 f2 s s' → Reachable2 f2 c0 s'

end TwoReads

/-! ### executable forms used by the driver

  Generation-marker instance: catalogs and key sets are identified by their generation number
  (`C = K = Nat`, version `i` holds generation `i`); the response to a request is the list of
  generation markers it carries plus, for a request signed with the key of generation `j`,
  whether the signature verified. -/

/-- what the harness observes of one response: markers of the answer / authority / additional
    records, and for signed requests whether the server accepted the signature -/
structure Obs where
  markers : List Nat
  sig : Option Bool
  deriving DecidableEq, Repr

/-- request: number of marked records in the response, and the signing generation if signed -/
structure GenReq where
  nrec : Nat
  signedWith : Option Nat
  deriving DecidableEq, Repr

/-- key-set generations 3, 7, 11, … are *empty* key maps (all keys revoked): a signed request that
    meets one is refused whatever it was signed with (harness: `make_keys`) -/
def genEmpty (k : Nat) : Bool := k % 4 == 3

/-- `f` of the generation-marker instance.  A request signed with the secret of generation `j`
    that meets key set `kk ≠ j` is refused (NOTAUTH, no records); otherwise every record carries
    the catalog's generation. -/
def genResp (c : Nat) (k : Option Nat) (r : GenReq) : Obs :=
  match r.signedWith, k with
  | some j, some kk =>
    if j == kk && !genEmpty kk then { markers := List.replicate r.nrec c, sig := some true }
    else { markers := [], sig := some false }
  | _, _ => { markers := List.replicate r.nrec c, sig := none }

/-- Is `o` a response the model can produce for a handler whose whole execution lay in a window
    where the catalog versions `lo..hi` and key versions `klo..khi` were current?
    (`C32_window` proves every reachable response passes this test.) -/
def admits (lo hi klo khi : Nat) (r : GenReq) (o : Obs) : Bool :=
  (List.range (hi + 1 - lo)).any fun dc =>
    let c := lo + dc
    (o == genResp c none r) ||
    (List.range (khi + 1 - klo)).any fun dk => o == genResp c (some (klo + dk)) r

/-- sequential schedule: every handler runs to completion before the next operation.
    ops: `inl (inl g)` set catalog, `inl (inr h)` set keys, `inr req` handle a request. -/
def runSeq (f : C → Option K → Req → Resp) (wantsKeys : Req → Bool) :
    C → K → List ((C ⊕ K) ⊕ Req) → List Resp
  | _, _, [] => []
  | _, k, .inl (.inl g) :: ops => runSeq f wantsKeys g k ops
  | c, _, .inl (.inr h) :: ops => runSeq f wantsKeys c h ops
  | c, k, .inr req :: ops =>
      f c (if wantsKeys req then some k else none) req :: runSeq f wantsKeys c k ops

end QV.Snapshot
