/-
  QV.Model.Rdata — model of `src/rr/rdata/*` (layer 2): `Rdata::{validate, read, equals,
  components}` and their type-specific helpers.

  * RDATA is a `Bytes`; class and type are `Nat` (the Rust `u16` newtypes `Class`, `Type`).
  * Every slice / index / `unwrap` / `usize` subtraction is explicit (`sliceFrom`, `slice`,
    `csub`, `mkRdata`), so that a panic is the outcome `Out.panic`.
  * The four dispatchers do not restate the `match rr_type { … }` arms: they walk the tables in
    `QV.Generated.RdataDispatch` (written by tools/extract_rdata.py from src/rr/rdata/mod.rs) and
    map the handler *names* found there to the model functions below.  A handler name the model
    does not know is the outcome `panic` (so an added arm makes the theorems fail loudly).

  Public names used by other layers (keep stable): `QV.Rdata.validate`, `QV.Rdata.read`,
  `QV.Rdata.equals`, `QV.Rdata.components`, `QV.Rdata.Comp`, `QV.Rdata.RErr`.

  Core Lean + Std only (linked into the native driver).
-/
import QV.Prelude
import QV.Generated.Consts
import QV.Generated.RdataDispatch
import QV.Model.Wire

namespace QV.Rdata
open QV QV.Wire

/-- `ReadRdataError` (src/rr/rdata/mod.rs) -/
inductive RErr where
  | InvalidName (e : NameErr)
  | UnexpectedEom
  | Other
  deriving Repr, DecidableEq, Inhabited

def RErr.toString : RErr → String
  | .InvalidName e => "InvalidName(" ++ e.toString ++ ")"
  | .UnexpectedEom => "UnexpectedEom"
  | .Other => "Other"

/-- `usize::MAX` on the 64-bit targets the harness runs on -/
def USIZE_MAX : Nat := 18446744073709551615
/-- `u16::MAX`: the length cap of `Rdata` (`TryFrom<&[u8]> for &Rdata`) -/
def RDATA_MAX : Nat := 65535

/-! ### primitives that can panic -/

/-- `&b[i..]` -/
def sliceFrom (b : Bytes) (i : Nat) : Out RErr Bytes :=
  if i ≤ b.size then .ok (b.extract i b.size) else .panic

/-- `&b[i..j]` -/
def slice (b : Bytes) (i j : Nat) : Out RErr Bytes :=
  if i ≤ j ∧ j ≤ b.size then .ok (b.extract i j) else .panic

/-- `a - b` on `usize` (dev profile: overflow checks on) -/
def csub (a b : Nat) : Out RErr Nat :=
  if b ≤ a then .ok (a - b) else .panic

/-- `<&Rdata>::try_from(octets).unwrap()` / `Vec<u8>::try_into().unwrap()` -/
def mkRdata (b : Bytes) : Out RErr Bytes :=
  if b.size > RDATA_MAX then .panic else .ok b

/-- `?` on a `Result<_, name::Error>` inside a function returning `ReadRdataError`
    (`impl From<name::Error> for ReadRdataError`) -/
def liftName {α} (x : Out NameErr α) : Out RErr α := x.mapErr .InvalidName

/-! ### helpers.rs — validation and reading -/

/-- mirrors src/rr/rdata/helpers.rs `validate_name` (`Name::validate_uncompressed_all`) -/
def validateName (r : Bytes) : Out RErr Unit :=
  liftName (validateUncompressed r true) >>= fun _ => .ok ()

/-- mirrors src/rr/rdata/helpers.rs `prepare_to_read_rdata`; returns `&message[..end]` -/
def prepareToReadRdata (msg : Bytes) (cursor rdlength : Nat) : Out RErr Bytes :=
  if cursor + rdlength > USIZE_MAX then .panic            -- `cursor + rdlength as usize` overflows
  else if cursor + rdlength > msg.size then .err .UnexpectedEom
  else .ok (msg.extract 0 (cursor + rdlength))

/-- mirrors src/rr/rdata/helpers.rs `read_name_rdata` -/
def readNameRdata (msg : Bytes) (cursor rdlength : Nat) : Out RErr Bytes := do
  let buf ← prepareToReadRdata msg cursor rdlength
  let p ← liftName (parseCompressed buf cursor)
  let avail ← csub buf.size cursor
  if avail ≠ p.len then .err .Other
  else mkRdata p.wire.toArray

/-! ### std13.rs -/

/-- mirrors src/rr/rdata/std13.rs `validate_character_string` -/
def validateCharacterString (b : Bytes) : Out RErr Nat :=
  if h : 0 < b.size then
    if 1 + b[0].toNat ≤ b.size then .ok (1 + b[0].toNat) else .err .Other
  else .err .Other

/-- mirrors `Rdata::validate_as_in_a` -/
def validateAsInA (r : Bytes) : Out RErr Unit :=
  if r.size = 4 then .ok () else .err .Other

/-- mirrors `Rdata::validate_as_ch_a` -/
def validateAsChA (r : Bytes) : Out RErr Unit := do
  let lanLen ← liftName (validateUncompressed r false)
  if r.size = lanLen + 2 then .ok () else .err .Other

/-- mirrors `Rdata::read_ch_a` -/
def readChA (msg : Bytes) (cursor rdlength : Nat) : Out RErr Bytes := do
  let buf ← prepareToReadRdata msg cursor rdlength
  let lan ← liftName (parseCompressed buf cursor)
  let avail ← csub buf.size cursor
  if avail = lan.len + 2 then do
    let tail ← sliceFrom buf (cursor + lan.len)
    mkRdata (lan.wire.toArray ++ tail)
  else .err .Other

/-- mirrors `Rdata::validate_as_soa` -/
def validateAsSoa (r : Bytes) : Out RErr Unit := do
  let mnameLen ← liftName (validateUncompressed r false)
  let rest ← sliceFrom r mnameLen
  let rnameLen ← liftName (validateUncompressed rest false)
  if r.size = 20 + mnameLen + rnameLen then .ok () else .err .Other

/-- mirrors `Rdata::read_soa` -/
def readSoa (msg : Bytes) (cursor rdlength : Nat) : Out RErr Bytes := do
  let buf ← prepareToReadRdata msg cursor rdlength
  let m ← liftName (parseCompressed buf cursor)
  let r ← liftName (parseCompressed buf (cursor + m.len))
  let a ← csub buf.size cursor
  let b ← csub a m.len
  let c ← csub b r.len
  if c ≠ 20 then .err .Other
  else do
    let tail ← sliceFrom buf (cursor + m.len + r.len)
    mkRdata (m.wire.toArray ++ r.wire.toArray ++ tail)

/-- mirrors `Rdata::validate_as_in_wks` -/
def validateAsInWks (r : Bytes) : Out RErr Unit :=
  if r.size ≥ 5 then .ok () else .err .Other

/-- mirrors `Rdata::validate_as_hinfo` -/
def validateAsHinfo (r : Bytes) : Out RErr Unit := do
  let cpuLen ← validateCharacterString r
  let rest ← sliceFrom r cpuLen
  let osLen ← validateCharacterString rest
  if r.size = cpuLen + osLen then .ok () else .err .Other

/-- mirrors `Rdata::validate_as_minfo` -/
def validateAsMinfo (r : Bytes) : Out RErr Unit := do
  let rmailbxLen ← liftName (validateUncompressed r false)
  let rest ← sliceFrom r rmailbxLen
  liftName (validateUncompressed rest true) >>= fun _ => .ok ()

/-- mirrors `Rdata::read_minfo` -/
def readMinfo (msg : Bytes) (cursor rdlength : Nat) : Out RErr Bytes := do
  let buf ← prepareToReadRdata msg cursor rdlength
  let r ← liftName (parseCompressed buf cursor)
  let e ← liftName (parseCompressed buf (cursor + r.len))
  let avail ← csub buf.size cursor
  if avail ≠ r.len + e.len then .err .Other
  else mkRdata (r.wire.toArray ++ e.wire.toArray)

/-- mirrors `Rdata::validate_as_mx`; `self.octets.get(2..)` is `Some` iff `2 ≤ len` -/
def validateAsMx (r : Bytes) : Out RErr Unit :=
  if 2 ≤ r.size then
    liftName (validateUncompressed (r.extract 2 r.size) true) >>= fun _ => .ok ()
  else .err .Other

/-- shared shape of `read_mx` (`n = 2`) and `read_in_srv` (`n = 6`): `n` fixed octets, then a
    possibly compressed name that must fill the rest of the RDATA -/
def readFixedThenName (n : Nat) (msg : Bytes) (cursor rdlength : Nat) : Out RErr Bytes := do
  let buf ← prepareToReadRdata msg cursor rdlength
  let avail ← csub buf.size cursor
  if avail < n then .err .Other
  else do
    let p ← liftName (parseCompressed buf (cursor + n))
    let avail' ← csub buf.size cursor
    if avail' ≠ p.len + n then .err .Other
    else do
      let head ← slice buf cursor (cursor + n)
      mkRdata (head ++ p.wire.toArray)

/-- mirrors `Rdata::read_mx` -/
def readMx (msg : Bytes) (cursor rdlength : Nat) : Out RErr Bytes :=
  readFixedThenName 2 msg cursor rdlength

/-- loop of `Rdata::validate_as_txt`: `while offset < len { offset += vcs(&octets[offset..])? }` -/
def txtLoop (r : Bytes) (off : Nat) : Out RErr Unit :=
  if off < r.size then
    match validateCharacterString (r.extract off r.size) with
    | .ok n => if n = 0 then .panic /- unreachable: a character-string occupies ≥ 1 octet -/
               else txtLoop r (off + n)
    | .err e => .err e
    | .panic => .panic
  else .ok ()
termination_by r.size - off
decreasing_by omega

/-- mirrors `Rdata::validate_as_txt` -/
def validateAsTxt (r : Bytes) : Out RErr Unit :=
  if r.size = 0 then .err .Other else txtLoop r 0

/-! ### ipv6.rs, srv.rs -/

/-- mirrors `Rdata::validate_as_in_aaaa` -/
def validateAsInAaaa (r : Bytes) : Out RErr Unit :=
  if r.size = 16 then .ok () else .err .Other

/-- mirrors `Rdata::validate_as_in_srv`; `get(6..)` is `Some` iff `6 ≤ len` -/
def validateAsInSrv (r : Bytes) : Out RErr Unit :=
  if 6 ≤ r.size then
    liftName (validateUncompressed (r.extract 6 r.size) true) >>= fun _ => .ok ()
  else .err .Other

/-- mirrors `Rdata::read_in_srv` -/
def readInSrv (msg : Bytes) (cursor rdlength : Nat) : Out RErr Bytes :=
  readFixedThenName 6 msg cursor rdlength

/-! ### opt.rs, tsig.rs -/

/-- mirrors src/rr/rdata/opt.rs `validate_option`; `get(2..4)` is `Some` iff `4 ≤ len` -/
def validateOption (b : Bytes) : Out RErr Nat :=
  if 4 ≤ b.size then
    if b.size ≥ be16 b 2 + 4 then .ok (be16 b 2 + 4) else .err .Other
  else .err .Other

/-- loop of `Rdata::validate_as_opt` -/
def optLoop (r : Bytes) (off : Nat) : Out RErr Unit :=
  if off < r.size then
    match validateOption (r.extract off r.size) with
    | .ok n => if n = 0 then .panic /- unreachable: an option occupies ≥ 4 octets -/
               else optLoop r (off + n)
    | .err e => .err e
    | .panic => .panic
  else .ok ()
termination_by r.size - off
decreasing_by omega

/-- mirrors `Rdata::validate_as_opt` -/
def validateAsOpt (r : Bytes) : Out RErr Unit := optLoop r 0

/-- mirrors `Rdata::validate_as_tsig`; `get(a..a+2)` is `Some` iff `a + 2 ≤ len` -/
def validateAsTsig (r : Bytes) : Out RErr Unit := do
  let alg ← liftName (validateUncompressed r false)
  if alg + 10 ≤ r.size then
    let macSize := be16 r (alg + 8)
    if alg + macSize + 16 ≤ r.size then
      let otherLen := be16 r (alg + macSize + 14)
      if alg + macSize + otherLen + 16 = r.size then .ok () else .err .Other
    else .err .Other
  else .err .Other

/-! ### dispatch through the generated tables -/

/-- first arm of a generated `match rr_type { … }` table that matches `(class, type)`;
    `dflt` is the `_ =>` arm -/
def lookup (arms : List (List Nat × Option Nat × String)) (dflt : String) (c t : Nat) : String :=
  match arms with
  | [] => dflt
  | (tys, g, h) :: rest =>
    if tys.contains t && (match g with | none => true | some k => c == k) then h
    else lookup rest dflt c t

/-- handler names of `Rdata::validate` → model functions -/
def validateHandler (h : String) : Option (Bytes → Out RErr Unit) :=
  if h = "validate_name" then some validateName
  else if h = "validate_as_in_a" then some validateAsInA
  else if h = "validate_as_ch_a" then some validateAsChA
  else if h = "validate_as_soa" then some validateAsSoa
  else if h = "validate_as_in_wks" then some validateAsInWks
  else if h = "validate_as_hinfo" then some validateAsHinfo
  else if h = "validate_as_minfo" then some validateAsMinfo
  else if h = "validate_as_mx" then some validateAsMx
  else if h = "validate_as_txt" then some validateAsTxt
  else if h = "validate_as_in_aaaa" then some validateAsInAaaa
  else if h = "validate_as_in_srv" then some validateAsInSrv
  else if h = "validate_as_opt" then some validateAsOpt
  else if h = "validate_as_tsig" then some validateAsTsig
  else if h = "ok" then some (fun _ => .ok ())
  else none

/-- mirrors `Rdata::validate` -/
def validate (c t : Nat) (r : Bytes) : Out RErr Unit :=
  match validateHandler (lookup Gen.rdataValidateArms Gen.rdataValidateDefault c t) with
  | some f => f r
  | none => .panic

/-- the closure `without_decompression` of `Rdata::read`: check the length, then validate
    `&buf[cursor..]` in place -/
def withoutDecompression (validator : Bytes → Out RErr Unit) (msg : Bytes) (cursor rdlength : Nat) :
    Out RErr Bytes := do
  let buf ← prepareToReadRdata msg cursor rdlength
  let s ← sliceFrom buf cursor
  let rdata ← mkRdata s
  validator rdata >>= fun _ => .ok rdata

/-- handler names of `Rdata::read` → model functions -/
def readHandler (h : String) : Option (Bytes → Nat → Nat → Out RErr Bytes) :=
  if h = "with_decompression:read_name_rdata" then some readNameRdata
  else if h = "with_decompression:read_ch_a" then some readChA
  else if h = "with_decompression:read_soa" then some readSoa
  else if h = "with_decompression:read_minfo" then some readMinfo
  else if h = "with_decompression:read_mx" then some readMx
  else if h = "with_decompression:read_in_srv" then some readInSrv
  else if h = "without_decompression:validate_as_in_a" then some (withoutDecompression validateAsInA)
  else if h = "without_decompression:validate_as_in_wks" then some (withoutDecompression validateAsInWks)
  else if h = "without_decompression:validate_as_hinfo" then some (withoutDecompression validateAsHinfo)
  else if h = "without_decompression:validate_as_txt" then some (withoutDecompression validateAsTxt)
  else if h = "without_decompression:validate_as_in_aaaa" then some (withoutDecompression validateAsInAaaa)
  else if h = "without_decompression:validate_as_opt" then some (withoutDecompression validateAsOpt)
  else if h = "without_decompression:validate_as_tsig" then some (withoutDecompression validateAsTsig)
  else if h = "without_decompression:noop" then some (withoutDecompression (fun _ => .ok ()))
  else none

/-- mirrors `Rdata::read` (`rdlength` is a `u16` in Rust: callers pass `≤ 65535`) -/
def read (c t : Nat) (msg : Bytes) (cursor rdlength : Nat) : Out RErr Bytes :=
  match readHandler (lookup Gen.rdataReadArms Gen.rdataReadDefault c t) with
  | some f => f msg cursor rdlength
  | none => .panic

/-! ### equality (helpers.rs `names_equal`, `test_n_name_fields`; `equals_as_*`) -/

/-- the labels (contents, without length octets) of an uncompressed wire-form name; the root
    label is the final `[]` (mirrors the `Labels` iterator of src/name/mod.rs) -/
def labelsOf (w : List UInt8) : List (List UInt8) :=
  match w with
  | [] => []
  | l :: rest => rest.take l.toNat :: labelsOf (rest.drop l.toNat)
termination_by w.length
decreasing_by simp; omega

/-- `<[u8]>::eq_ignore_ascii_case` (src/name/label.rs `impl PartialEq for Label`) -/
def labelEq (a b : List UInt8) : Bool :=
  a.length == b.length && (a.zip b).all (fun p => lowerU8 p.1 == lowerU8 p.2)

/-- mirrors src/name/mod.rs `impl PartialEq for Name`:
    `self.len() == other.len() && self.labels().zip(other.labels()).all(|(a, b)| a == b)` -/
def nameEq (p q : Parsed) : Bool :=
  p.nlabels == q.nlabels && ((labelsOf p.wire).zip (labelsOf q.wire)).all (fun x => labelEq x.1 x.2)

/-- mirrors src/rr/rdata/helpers.rs `test_n_name_fields` (the `for _ in 0..n` loop, `offset`
    carried along). Result: `some (some len)` all fields valid and equal; `some none` definitely
    unequal; `none` undecided (compare bitwise). -/
def testNNameFieldsAux (first second : Bytes) : Nat → Nat → Out RErr (Option (Option Nat))
  | 0, offset => .ok (some (some offset))
  | n + 1, offset => do
    let f ← sliceFrom first offset
    let s ← sliceFrom second offset
    match parseUncompressed f false, parseUncompressed s false with
    | .panic, _ => .panic
    | _, .panic => .panic
    | .err _, .err _ => .ok none
    | .ok _, .err _ => .ok (some none)
    | .err _, .ok _ => .ok (some none)
    | .ok p, .ok q =>
      if nameEq p q then testNNameFieldsAux first second n (offset + p.len)
      else .ok (some none)

def testNNameFields (first second : Bytes) (n : Nat) : Out RErr (Option (Option Nat)) :=
  testNNameFieldsAux first second n 0

/-- `first == second` on slices -/
def bytesEq (a b : Bytes) : Bool := decide (a = b)

/-- mirrors src/rr/rdata/helpers.rs `names_equal` -/
def namesEqual (first second : Bytes) : Out RErr Bool := do
  match ← testNNameFields first second 1 with
  | some (some len) =>
    if len = first.size ∧ len = second.size then .ok true else .ok (bytesEq first second)
  | some none => .ok false
  | none => .ok (bytesEq first second)

/-- mirrors `Rdata::equals_as_ch_a` -/
def equalsAsChA (a b : Bytes) : Out RErr Bool := do
  if a.size ≠ b.size then .ok false
  else match ← testNNameFields a b 1 with
  | some (some len) =>
    if len + 2 = a.size then do
      let x ← sliceFrom a len
      let y ← sliceFrom b len
      .ok (bytesEq x y)
    else .ok (bytesEq a b)
  | some none => .ok false
  | none => .ok (bytesEq a b)

/-- mirrors `Rdata::equals_as_soa` -/
def equalsAsSoa (a b : Bytes) : Out RErr Bool := do
  if a.size ≠ b.size then .ok false
  else match ← testNNameFields a b 2 with
  | some (some len) => do
    let rest ← csub a.size len
    if rest ≠ 20 then .ok (bytesEq a b)
    else do
      let x ← sliceFrom a len
      let y ← sliceFrom b len
      .ok (bytesEq x y)
  | some none => .ok false
  | none => .ok (bytesEq a b)

/-- mirrors `Rdata::equals_as_minfo` -/
def equalsAsMinfo (a b : Bytes) : Out RErr Bool := do
  if a.size ≠ b.size then .ok false
  else match ← testNNameFields a b 2 with
  | some (some len) => if len = a.size then .ok true else .ok (bytesEq a b)
  | some none => .ok false
  | none => .ok (bytesEq a b)

/-- shared shape of `equals_as_mx` (`n = 2`) and `equals_as_in_srv` (`n = 6`) -/
def equalsFixedThenName (n : Nat) (a b : Bytes) : Out RErr Bool := do
  if a.size ≠ b.size then .ok false
  else if a.size > n then do
    let ha ← slice a 0 n
    let hb ← slice b 0 n
    if bytesEq ha hb then do     -- `&&` short-circuits
      let ta ← sliceFrom a n
      let tb ← sliceFrom b n
      namesEqual ta tb
    else .ok false
  else .ok (bytesEq a b)

/-- mirrors `Rdata::equals_as_mx` -/
def equalsAsMx (a b : Bytes) : Out RErr Bool := equalsFixedThenName 2 a b
/-- mirrors `Rdata::equals_as_in_srv` -/
def equalsAsInSrv (a b : Bytes) : Out RErr Bool := equalsFixedThenName 6 a b

/-- handler names of `Rdata::equals` → model functions -/
def equalsHandler (h : String) : Option (Bytes → Bytes → Out RErr Bool) :=
  if h = "names_equal" then some namesEqual
  else if h = "equals_as_ch_a" then some equalsAsChA
  else if h = "equals_as_soa" then some equalsAsSoa
  else if h = "equals_as_minfo" then some equalsAsMinfo
  else if h = "equals_as_mx" then some equalsAsMx
  else if h = "equals_as_in_srv" then some equalsAsInSrv
  else if h = "octets_eq" then some (fun a b => .ok (bytesEq a b))
  else none

/-- mirrors `Rdata::equals` (`self = a`, `other = b`) -/
def equals (c t : Nat) (a b : Bytes) : Out RErr Bool :=
  match equalsHandler (lookup Gen.rdataEqualsArms Gen.rdataEqualsDefault c t) with
  | some f => f a b
  | none => .panic

/-! ### components (`Rdata::components`, the `Components` iterator) -/

/-- `Component` -/
inductive Comp where
  | compressibleName (wire : List UInt8)
  | uncompressibleName (wire : List UInt8)
  | other (octets : List UInt8)
  deriving Repr, DecidableEq, Inhabited

/-- `ComponentType`, as generated: ("C",_) | ("U",_) | ("F",n) -/
abbrev CompType := String × Nat

/-- mirrors `Components::next`, iterated until `None` or the first `Err` (the writer stops at the
    first error).  `types` = the remaining `ComponentType`s, `rdata` = the remaining octets. -/
def componentsAux : List CompType → Bytes → Out RErr (List Comp)
  | [], rdata => if rdata.size = 0 then .ok [] else .ok [.other rdata.toList]
  | (k, n) :: rest, rdata =>
    if k = "F" then
      -- `self.rdata.get(0..len)`; `&self.rdata[len..]`
      if n ≤ rdata.size then do
        let tl ← sliceFrom rdata n
        let more ← componentsAux rest tl
        .ok (.other (rdata.extract 0 n).toList :: more)
      else .err .UnexpectedEom
    else if k = "C" ∨ k = "U" then do
      -- build_name_component: `Name::try_from_uncompressed(rdata)?`, `&rdata[len..]`
      let p ← liftName (parseUncompressed rdata false)
      let tl ← sliceFrom rdata p.len
      let more ← componentsAux rest tl
      .ok ((if k = "C" then .compressibleName p.wire else .uncompressibleName p.wire) :: more)
    else .panic

/-- the `types: &[…]` list of a `Components` constructor (generated) -/
def componentTypesOf (h : String) : Option (List CompType) :=
  (Gen.rdataComponentTypes.find? (fun x => x.1 == h)).map (·.2)

/-- mirrors `Rdata::components` followed by iteration to the end / first error -/
def components (c t : Nat) (r : Bytes) : Out RErr (List Comp) :=
  match componentTypesOf (lookup Gen.rdataComponentsArms Gen.rdataComponentsDefault c t) with
  | some tys => componentsAux tys r
  | none => .panic

end QV.Rdata
