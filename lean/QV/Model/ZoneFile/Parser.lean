/-
  QV.Model.ZoneFile.Parser — model of src/zone_file/directive.rs and src/zone_file/mod.rs
  (`parse_line`, `parse_lines_until_returnable_data_found`, the `Iterator` with its error latch,
  `new_for_include`, `update_context_from_include`, `RecordsOnly`).
-/
import QV.Model.ZoneFile.Record

namespace QV.ZF
open QV

/-! ### directive.rs -/

/-- `parse_include_path` (a `<character-string>` without the 255-octet limit:
    `INCLUDE_PATH_MAX`) -/
def parseIncludePath : P (List UInt8) :=
  parseString Gen.INCLUDE_PATH_MAX .IncludePathTooLong .EofInQuotedIncludePath

/-- `parse_origin_directive` -/
def parseOriginDirective (ctx : Ctx) : P Ctx := do
  skipToNextField .ExpectedName
  let name ← pName ctx
  expectEol
  pure { ctx with origin := some name }

/-- `parse_ttl_directive` -/
def parseTtlDirective (ctx : Ctx) : P Ctx := do
  skipToNextField .ExpectedTtl
  let ttl ← readField parseU32 .InvalidTtl
  expectEol
  pure { ctx with defaultTtl := some (ttlFrom ttl) }

/-- `parse_include_directive` -/
def parseIncludeDirective (ctx : Ctx) : P Item := do
  let line ← getLine
  skipToNextField .ExpectedIncludePath
  let path ← parseIncludePath
  if (← skipToNextFieldOrThroughEol) == .Eol then pure (.incl line path ctx.origin)
  else
    let origin ← pName ctx
    expectEol
    pure (.incl line path (some origin))

/-- `parse_directive` -/
def parseDirective (ctx : Ctx) : P (Option Item × Ctx) := do
  if ← liftB (expectFieldCI "$ORIGIN".toUTF8.toList) then
    let ctx' ← parseOriginDirective ctx
    pure (none, ctx')
  else do
    if ← liftB (expectFieldCI "$TTL".toUTF8.toList) then
      let ctx' ← parseTtlDirective ctx
      pure (none, ctx')
    else do
      if ← liftB (expectFieldCI "$INCLUDE".toUTF8.toList) then
        let item ← parseIncludeDirective ctx
        pure (some item, ctx)
      else P.fail .UnknownDirective

/-! ### mod.rs -/

/-- `parse_line` -/
def parseLine (ctx : Ctx) : P (Option Item × Ctx) := fun st =>
  match st.inp with
  | c :: _ => if c == 36 then parseDirective ctx st else parseRecordOrEmpty ctx st
  | [] => parseRecordOrEmpty ctx st

/-- `parse_lines_until_returnable_data_found`: `while !at_eof() { parse_line()? … }`.
    A `parse_line` that returned `Ok(None)` without consuming anything would make the Rust loop
    spin forever: the model reports `ModelStuck` (proved unreachable in `QV.C24`). -/
def untilData (ctx : Ctx) (st : St) : R (Option Item × Ctx) :=
  match st.inp with
  | [] => .ok ((none, ctx), st)
  | _ :: _ =>
    match parseLine ctx st with
    | .ok ((some item, ctx'), st') => .ok ((some item, ctx'), st')
    | .ok ((none, ctx'), st') =>
      if st'.inp.length < st.inp.length then untilData ctx' st'
      else fail .ModelStuck st'.line
    | .err e => .err e
    | .panic => .panic
termination_by st.inp.length

/-- `Parser<S>`: error latch, reader, context -/
structure Parser where
  error : Bool
  st : St
  ctx : Ctx
  deriving Repr, DecidableEq, Inhabited

/-- `Parser::new` / `with_context` -/
def Parser.withContext (input : List UInt8) (ctx : Ctx) : Parser := ⟨false, ⟨input, 1, false⟩, ctx⟩
def Parser.new (input : List UInt8) : Parser := Parser.withContext input {}

/-- what `Iterator::next` returns inside `Some(..)` -/
inductive Yield where
  | item (i : Item)
  | err (e : Err)
  | panic
  deriving Repr, DecidableEq, Inhabited

/-- `impl Iterator for Parser`: `next` -/
def Parser.next (p : Parser) : Option Yield × Parser :=
  if p.error then (none, p)
  else match untilData p.ctx p.st with
    | .ok ((some item, ctx'), st') => (some (.item item), { p with st := st', ctx := ctx' })
    | .ok ((none, ctx'), st') => (none, { p with st := st', ctx := ctx' })
    | .err e => (some (.err e), { p with error := true })
    | .panic => (some .panic, { p with error := true })   -- a panic unwinds: nothing more is observed

/-- `new_for_include(stream, origin)` -/
def Parser.newForInclude (p : Parser) (input : List UInt8) (origin : Option (List UInt8)) : Parser :=
  match origin with
  | some o => Parser.withContext input { p.ctx with origin := some o }
  | none => Parser.withContext input p.ctx

/-- `update_context_from_include(include_parser)` -/
def Parser.updateContextFromInclude (p inc : Parser) : Parser :=
  { p with ctx := { inc.ctx with origin := p.ctx.origin } }

/-- all items the iterator yields (drive `next` until `None`).  Every `Some(Ok(_))` consumed
    input, every `Some(Err(_))` sets the latch; a `next` that yields an item without consuming
    anything would let a `for` loop over the parser spin: `ModelStuck` (proved unreachable). -/
def collect (p : Parser) : List Yield :=
  match p.next with
  | (none, _) => []
  | (some (.item i), p') =>
    if p'.st.inp.length < p.st.inp.length then .item i :: collect p'
    else [.item i, .err ⟨.ModelStuck, p'.st.line⟩]
  | (some y, p') =>
    -- error (or panic): the latch is set, the next call returns `None`
    y :: (match p'.next with | (none, _) => [] | (some y', _) => [y'])
termination_by p.st.inp.length

/-- the whole parse of an input under an initial context -/
def parseAll (input : List UInt8) (ctx : Ctx) : List Yield := collect (Parser.withContext input ctx)

/-! ### `RecordsOnly` -/

/-- `RecordsOnly::next` on top of `Parser::next` -/
def recordsOnlyNext (p : Parser) : Option Yield × Parser :=
  match p.next with
  | (some (.item (.incl line _ _)), p') => (some (.err ⟨.IncludeNotSupported, line⟩), { p' with error := true })
  | r => r

def collectRecordsOnly (p : Parser) : List Yield :=
  match recordsOnlyNext p with
  | (none, _) => []
  | (some (.item i), p') =>
    if p'.st.inp.length < p.st.inp.length then .item i :: collectRecordsOnly p'
    else [.item i, .err ⟨.ModelStuck, p'.st.line⟩]
  | (some y, p') => y :: (match recordsOnlyNext p' with | (none, _) => [] | (some y', _) => [y'])
termination_by p.st.inp.length

end QV.ZF
