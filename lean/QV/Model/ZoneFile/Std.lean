/-
  QV.Model.ZoneFile.Std — re-implementation of the Rust `std`/`core` text parsers that
  `Reader::read_field` calls through `FromStr` (trusted base, DESIGN.md §5: re-implemented and
  compared by the correspondence ops `zf.u32`, `zf.u16`, `zf.u8`, `zf.ipv4`, `zf.ipv6`), and of
  quandary's own `FromStr for Class` / `FromStr for Type` (src/class.rs, src/rr/rr_type.rs; the
  mnemonic tables come from `QV.Gen`).

  All functions take the octets of a field that is already known to be valid UTF-8.
-/
import QV.Model.ZoneFile.Lex
import QV.Generated.Tables

namespace QV.ZF
open QV

/-! ### `u8/u16/u32::from_str` (core::num `from_str_radix(src, 10)` for unsigned types) -/

/-- fold decimal digits, failing on a non-digit or as soon as the value exceeds `max` -/
def digitsVal (max : Nat) : List UInt8 → Nat → Option Nat
  | [], acc => some acc
  | c :: rest, acc =>
    if isDigit c then
      let v := acc * 10 + (c.toNat - 48)
      if v > max then none else digitsVal max rest v
    else none

/-- `"".parse()`, `"+"`, `"-"` fail; one leading `+` is accepted; no `-` for unsigned types -/
def parseUInt (max : Nat) (s : List UInt8) : Option Nat :=
  match s with
  | [] => none
  | [c] => if c == 43 || c == 45 then none else digitsVal max [c] 0
  | c :: rest => if c == 43 then digitsVal max rest 0 else digitsVal max (c :: rest) 0

def parseU8 := parseUInt 255
def parseU16 := parseUInt 65535
def parseU32 := parseUInt 4294967295

/-! ### `core::net::parser` -/

/-- `char::to_digit(radix)` for radix 10 / 16 on one octet -/
def toDigit (radix : Nat) (c : UInt8) : Option Nat :=
  if 48 ≤ c && c ≤ 57 then some (c.toNat - 48)
  else if radix == 16 then
    if 97 ≤ c && c ≤ 102 then some (c.toNat - 87)
    else if 65 ≤ c && c ≤ 70 then some (c.toNat - 55)
    else none
  else none

/-- leading digits of `s` (values) and the rest -/
def spanDigits (radix : Nat) : List UInt8 → List Nat × List UInt8
  | [] => ([], [])
  | c :: rest =>
    match toDigit radix c with
    | some d => let (ds, r) := spanDigits radix rest; (d :: ds, r)
    | none => ([], c :: rest)

/-- `Parser::read_number(radix, Some(max_digits), allow_zero_prefix)` for a target type with
    maximum `max`: all leading digits are read; more than `max_digits` of them, none at all, a
    forbidden zero prefix, or a value above `max` make the whole read fail (atomically). -/
def readNumber (radix maxDigits max : Nat) (allowZeroPrefix : Bool) (s : List UInt8) :
    Option (Nat × List UInt8) :=
  let (ds, r) := spanDigits radix s
  if ds.length == 0 then none
  else if ds.length > maxDigits then none
  else if !allowZeroPrefix && ds.head? == some 0 && ds.length > 1 then none
  else
    let v := ds.foldl (fun a d => a * radix + d) 0
    if v > max then none else some (v, r)

/-- `read_given_char` -/
def readChar (ch : UInt8) : List UInt8 → Option (List UInt8)
  | c :: rest => if c == ch then some rest else none
  | [] => none

/-- `read_separator(sep, index, inner)` -/
def readSep {α} (sep : UInt8) (index : Nat) (inner : List UInt8 → Option (α × List UInt8))
    (s : List UInt8) : Option (α × List UInt8) :=
  if index > 0 then
    match readChar sep s with
    | some r => inner r
    | none => none
  else inner s

/-- `read_ipv4_addr`: four decimal groups (≤ 3 digits, no zero prefix, ≤ 255) separated by `.` -/
def readIpv4 (s : List UInt8) : Option (List UInt8 × List UInt8) :=
  let grp (i : Nat) := readSep 46 i (readNumber 10 3 255 false)
  match grp 0 s with
  | none => none
  | some (a, s1) =>
  match grp 1 s1 with
  | none => none
  | some (b, s2) =>
  match grp 2 s2 with
  | none => none
  | some (c, s3) =>
  match grp 3 s3 with
  | none => none
  | some (d, s4) => some ([UInt8.ofNat a, UInt8.ofNat b, UInt8.ofNat c, UInt8.ofNat d], s4)

/-- `Ipv4Addr::from_str` (`parse_ascii`): at most 15 octets, whole input consumed -/
def parseIpv4 (s : List UInt8) : Option (List UInt8) :=
  if s.length > 15 then none
  else match readIpv4 s with
    | some (a, []) => some a
    | _ => none

/-- `read_groups(p, &mut groups[..limit])` of `read_ipv6_addr`, from group index `i`:
    returns the 16-bit groups read (in order), whether an embedded IPv4 address ended them, and
    the rest.  `n` = `limit - i` (structural recursion). -/
def readGroups (limit : Nat) : Nat → Nat → List UInt8 → List Nat × Bool × List UInt8
  | 0, _, s => ([], false, s)
  | n+1, i, s =>
    let v4 := if i + 1 < limit then readSep 58 i readIpv4 s else none
    match v4 with
    | some (o, r) =>
      ([ (o.getD 0 0).toNat * 256 + (o.getD 1 0).toNat, (o.getD 2 0).toNat * 256 + (o.getD 3 0).toNat ], true, r)
    | none =>
      match readSep 58 i (readNumber 16 4 65535 true) s with
      | some (g, r) =>
        let (gs, v4', r') := readGroups limit n (i + 1) r
        (g :: gs, v4', r')
      | none => ([], false, s)

def u16be' (n : Nat) : List UInt8 := [UInt8.ofNat (n / 256), UInt8.ofNat (n % 256)]

/-- `Ipv6Addr::from_str`: head groups, optional `::`, tail groups; whole input consumed -/
def parseIpv6 (s : List UInt8) : Option (List UInt8) :=
  let (head, headV4, r) := readGroups 8 8 0 s
  if head.length == 8 then
    (if r.isEmpty then some (head.flatMap u16be') else none)
  else if headV4 then none
  else
    match readChar 58 r with
    | none => none
    | some r1 =>
    match readChar 58 r1 with
    | none => none
    | some r2 =>
      let limit := 8 - (head.length + 1)
      let (tail, _, r3) := readGroups limit limit 0 r2
      if r3.isEmpty then
        some ((head ++ List.replicate (8 - head.length - tail.length) 0 ++ tail).flatMap u16be')
      else none

/-! ### `FromStr for Class`, `FromStr for Type` -/

/-- `u8::to_ascii_uppercase` -/
def upperU8 (b : UInt8) : UInt8 := if 97 ≤ b.toNat ∧ b.toNat ≤ 122 then b - 32 else b

/-- First row of a generated `(mnemonic, value)` table whose mnemonic equals
    `text.to_ascii_uppercase()`.  (`match Caseless(&upper) { Caseless("IN") => … }` is a
    structural pattern match on the inner string — exact comparison — which is why the source
    upper-cases the text first; before the `fix:` commit "parse TYPE, CLASS, QTYPE and QCLASS
    mnemonics case-insensitively" only the exact upper-case spelling parsed.) -/
def lookupCaseless (tbl : List (String × Nat)) (s : List UInt8) : Option Nat :=
  match tbl.find? (fun row => row.1.toUTF8.toList == s.map upperU8) with
  | some row => some row.2
  | none => none

/-- `match Caseless(text) { table arms…, _ => prefix + u16 }` -/
def parseCode (tbl : List (String × Nat)) (pfx : String) (s : List UInt8) : Option Nat :=
  match lookupCaseless tbl s with
  | some v => some v
  | none =>
    let p := pfx.toUTF8.toList
    if s.length ≥ p.length && eqIgnoreCase (s.take p.length) p then parseU16 (s.drop p.length)
    else none

/-- src/class.rs `impl FromStr for Class` -/
def parseClass (s : List UInt8) : Option Nat := parseCode Gen.classParse Gen.classDisplayPrefix s

/-- src/rr/rr_type.rs `impl FromStr for Type` -/
def parseType (s : List UInt8) : Option Nat := parseCode Gen.typeParse Gen.typeDisplayPrefix s

end QV.ZF
