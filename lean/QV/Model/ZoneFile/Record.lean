/-
  QV.Model.ZoneFile.Record — model of src/zone_file/record.rs (records, TTL/class/type fields,
  per-type RDATA parsers, RFC 3597 `\#` form) and of the RDATA constructors / validators of
  src/rr/rdata/{std13,ipv6,srv,helpers}.rs that it calls.

  `P α` is the parser monad over the `Reader` state `St`; the parse `Context` is read-only while
  a record is parsed and is passed as a parameter.
-/
import QV.Model.ZoneFile.Name
import QV.Model.ZoneFile.Std
import QV.Model.Wire
import QV.Model.Rdata
import QV.Generated.ZoneFileDispatch

namespace QV.ZF
open QV

/-! ### the parser monad -/

abbrev P (α : Type) := St → R α

@[inline] def P.pure {α} (a : α) : P α := fun st => .ok (a, st)

@[inline] def P.bind {α β} (p : P α) (f : α → P β) : P β := fun st =>
  match p st with
  | .ok (a, st') => f a st'
  | .err e => .err e
  | .panic => .panic

instance : Monad P where
  pure := P.pure
  bind := P.bind

/-- `Err(Error::new(self.reader.position(), kind))` -/
def P.fail {α} (k : Kind) : P α := fun st => QV.ZF.fail k st.line
/-- `Err(Error::new(saved_position, kind))` -/
def P.failAt {α} (k : Kind) (line : Nat) : P α := fun _ => QV.ZF.fail k line
def P.panic {α} : P α := fun _ => .panic
/-- `self.reader.position().line` -/
def getLine : P Nat := fun st => .ok (st.line, st)
def liftB (f : St → Bool × St) : P Bool := fun st => .ok (f st)
/-- `if let Ok(x) = p`: any error of `p` is swallowed (`read_field` consumes nothing on failure) -/
def tryP {α} (p : P α) : P (Option α) := fun st =>
  match p st with
  | .ok (a, st') => .ok (some a, st')
  | .err _ => .ok (none, st)
  | .panic => .panic

/-! ### navigation wrappers (reader.rs) -/

def skipToNextFieldOrThroughEol : P FieldOrEol := fun st => fieldOrEol true st.inp st.line st.paren
def skipToNextFieldOrToEol : P FieldOrEol := fun st => fieldOrEol false st.inp st.line st.paren

/-- `skip_to_next_field(error_on_eol)` -/
def skipToNextField (k : Kind) : P Unit := do
  let r ← skipToNextFieldOrToEol
  if r != .Field then P.fail k else pure ()

/-- `expect_eol` -/
def expectEol : P Unit := do
  let r ← skipToNextFieldOrThroughEol
  if r != .Eol then P.fail .ExpectedEol else pure ()

/-! ### context and results (src/zone_file/mod.rs) -/

/-- `Context` -/
structure Ctx where
  origin : Option (List UInt8) := none
  prevOwner : Option (List UInt8) := none
  prevTtl : Option Nat := none
  prevClass : Option Nat := none
  defaultTtl : Option Nat := none
  deriving Repr, DecidableEq, Inhabited

/-- `ParsedRr` -/
structure Rec where
  owner : List UInt8
  ttl : Nat
  cls : Nat
  ty : Nat
  rdata : List UInt8
  deriving Repr, DecidableEq, Inhabited

/-- `Line` -/
inductive Item where
  | record (line : Nat) (r : Rec)
  | incl (line : Nat) (path : List UInt8) (origin : Option (List UInt8))
  deriving Repr, DecidableEq, Inhabited

/-- `Ttl::from(u32)` (src/rr/ttl.rs): values above `i32::MAX` become 0 -/
def ttlFrom (raw : Nat) : Nat := if raw > 2147483647 then 0 else raw

/-! ### RDATA constructors and validators (src/rr/rdata) -/

/-- `Vec<u8>::try_into::<Box<Rdata>>().unwrap()`: panics above 65 535 octets -/
def mkRdata (l : List UInt8) : P (List UInt8) := fun st =>
  if l.length > 65535 then .panic else .ok (l, st)

/-- `Name::validate_uncompressed_all(octets).is_ok()` -/
def vNameAll (rd : List UInt8) : Bool := (Wire.validateUncompressed rd.toArray true).isOk

/-- `Rdata::validate(class, rr_type)` — the shared RDATA model `QV.Rdata.validate`
    (lean/QV/Model/Rdata.lean, dispatching through the generated table `Gen.rdataValidateArms`) -/
def validate (cls ty : Nat) (rd : List UInt8) : Out Rdata.RErr Unit := Rdata.validate cls ty rd.toArray

/-- the mask `serialize_in_wks` ors into octet `p / 8` for port `p`: `1 << (p % 8)` or, with
    `msb`, `0x80 >> (p % 8)` -/
def wksMask (msb : Bool) (p : Nat) : UInt8 :=
  if msb then 0x80 >>> UInt8.ofNat (p % 8) else 1 <<< UInt8.ofNat (p % 8)

/-- `serialize_in_wks`: address, protocol, then a bitmap of `max(ports)/8 + 1` octets; the bit
    order inside an octet is a parameter (the repository's is `Gen.wksMaskMsbFirst`) -/
def newInWksWith (msb : Bool) (addr : List UInt8) (proto : Nat) (ports : List Nat) : List UInt8 :=
  let len := match ports.foldl (fun (m : Option Nat) p => some (match m with | some x => max x p | none => p)) none with
    | some hi => hi / 8 + 1
    | none => 0
  let bm := ports.foldl (fun (a : Array UInt8) p => a.modify (p / 8) (fun b => b ||| wksMask msb p))
              (Array.replicate len 0)
  addr ++ UInt8.ofNat proto :: bm.toList

/-- `serialize_in_wks` as the repository under test has it (the extractor reads the mask
    expression; `false` = `1 << (port % 8)`, known finding D18) -/
def newInWks (addr : List UInt8) (proto : Nat) (ports : List Nat) : List UInt8 :=
  newInWksWith Gen.wksMaskMsbFirst addr proto ports

/-! ### TTL, class, type (record.rs `parse_ttl_and_class`, `parse_type`) -/

def parseTtl : P Nat := do
  let v ← readField parseU32 .InvalidTtl
  pure (ttlFrom v)

def parseClassField : P Nat := readField parseClass .InvalidClass

/-- `default_or_previous_ttl` -/
def defaultOrPreviousTtl (ctx : Ctx) : Option Nat := ctx.defaultTtl.or ctx.prevTtl

/-- `parse_ttl_and_class`: TTL then class, class then TTL, only one, or neither -/
def parseTtlAndClass (ctx : Ctx) : P (Nat × Nat) := do
  match ← tryP parseTtl with
  | some ttl =>
    skipToNextField .ExpectedClassOrType
    match ← tryP parseClassField with
    | some cls => pure (ttl, cls)
    | none =>
      match ctx.prevClass with
      | some cls => pure (ttl, cls)
      | none => P.fail .OmittedClassWithNoPrevious
  | none =>
    match ← tryP parseClassField with
    | some cls =>
      skipToNextField .ExpectedTtlOrType
      match ← tryP parseTtl with
      | some ttl => pure (ttl, cls)
      | none =>
        match defaultOrPreviousTtl ctx with
        | some ttl => pure (ttl, cls)
        | none => P.fail .OmittedTtlWithNoDefaultOrPrevious
    | none =>
      match defaultOrPreviousTtl ctx, ctx.prevClass with
      | some ttl, some cls => pure (ttl, cls)
      | some _, none => P.fail .OmittedClassWithNoPrevious
      | none, _ => P.fail .OmittedTtlWithNoDefaultOrPrevious

/-- error kinds named in the generated tables -/
def kindOfString (s : String) : Kind :=
  match s with
  | "NullNotAllowed" => .NullNotAllowed
  | "OptNotAllowed" => .OptNotAllowed
  | "TsigNotAllowed" => .TsigNotAllowed
  | "ExpectedNameOrBh" => .ExpectedNameOrBh
  | "ExpectedIpv4OrBh" => .ExpectedIpv4OrBh
  | "ExpectedIpv6OrBh" => .ExpectedIpv6OrBh
  | "ExpectedU16OrBh" => .ExpectedU16OrBh
  | "ExpectedCharacterStringOrBh" => .ExpectedCharacterStringOrBh
  | _ => .ExpectedBackslashHash

/-- `parse_type`: a type, except those `parse_type` refuses (generated table) -/
def parseTypeField : P Nat := do
  let line ← getLine
  let ty ← readField parseType .InvalidType
  match Gen.parseTypeRejected.find? (fun r => r.1 == ty) with
  | some r => P.failAt (kindOfString r.2) line
  | none => pure ty

/-! ### RFC 3597 generic RDATA (`parse_unknown_rdata*`) -/

/-- `ascii_hex_digit_to_nibble` (src/util.rs) -/
def hexNibble (d : UInt8) : Option Nat :=
  if isDigit d then some (d.toNat - 48)
  else if 65 ≤ d && d ≤ 70 then some (d.toNat - 55)
  else if 97 ≤ d && d ≤ 102 then some (d.toNat - 87)
  else none

/-- `parse_ascii_hex_digit` -/
def parseHexDigit : P Nat := fun st =>
  match readFieldOctet st with
  | some (d, st') =>
    match hexNibble d with
    | some n => .ok (n, st')
    | none => fail .InvalidHexDigit st'.line
  | none => fail .UnexpectedEndOfHexRdata st.line

/-- `parse_unknown_rdata_hex_digits(len)`; `acc` reversed -/
def hexDigits : Nat → List UInt8 → P (List UInt8)
  | 0, acc => pure acc.reverse
  | n+1, acc => do
    let hi ← parseHexDigit
    let lo ← parseHexDigit
    hexDigits n (UInt8.ofNat (hi * 16 + lo) :: acc)

/-- `parse_unknown_rdata_impl`: `(hex_digits_position.line, rdata)` -/
def parseUnknownRdataImpl : P (Nat × List UInt8) := do
  skipToNextField .ExpectedRdataLen
  let len ← readField parseU16 .InvalidRdataLen
  let res ← if len == 0 then (do let l ← getLine; pure (l, ([] : List UInt8)))
            else do
              skipToNextField .ExpectedHexRdata
              let l ← getLine
              let rd ← hexDigits len []
              let rd ← mkRdata rd
              pure (l, rd)
  expectEol
  pure res

/-- `parse_unknown_rdata` -/
def parseUnknownRdata : P (List UInt8) := do
  let r ← parseUnknownRdataImpl
  pure r.2

/-- `parse_unknown_rdata_with_validation(validator)`: `validator` is the name of a
    `Rdata::validate_as_*` / `validate_name` function, resolved in the shared RDATA model
    (`QV.Rdata.validateHandler`); a validator this model does not know, or one that panics, is
    `panic` -/
def parseUnknownRdataWithValidation (validator : String) : P (List UInt8) := do
  let (line, rd) ← parseUnknownRdataImpl
  match Rdata.validateHandler validator with
  | some f =>
    match f rd.toArray with
    | .ok _ => pure rd
    | .err _ => P.failAt .InvalidRdataForType line
    | .panic => P.panic
  | none => P.panic

/-- `check_backslash_hash(expected)` -/
def checkBackslashHash (k : Kind) : P Bool := do
  skipToNextField k
  liftB (expectField [92, 35])

/-! ### typed RDATA parsers (the `else` branches of `parse_*_rdata`) -/

def pName (ctx : Ctx) : P (List UInt8) := parseName ctx.origin

def nameRdataBody (ctx : Ctx) : P (List UInt8) := do
  let name ← pName ctx
  expectEol
  mkRdata name

def inARdataBody : P (List UInt8) := do
  let a ← readField parseIpv4 .InvalidIpv4
  expectEol
  mkRdata a

/-- the loop of `parse_chaosnet_address` (octal, `u16::checked_mul(8)`) -/
def chaosLoop (startLine : Nat) : List UInt8 → Nat → Out Err (Nat × List UInt8)
  | [], addr => .ok (addr, [])
  | c :: rest, addr =>
    if atFieldEnd (c :: rest) then .ok (addr, c :: rest)
    else if 48 ≤ c && c ≤ 55 then
      if addr * 8 > 65535 then fail .InvalidChaosnetAddr startLine
      else chaosLoop startLine rest (addr * 8 + (c.toNat - 48))
    else fail .InvalidChaosnetAddr startLine

def parseChaosnetAddress : P Nat := fun st =>
  match chaosLoop st.line st.inp 0 with
  | .ok (a, rest) => .ok (a, { st with inp := rest })
  | .err e => .err e
  | .panic => .panic

def chARdataBody (ctx : Ctx) : P (List UInt8) := do
  let lan ← pName ctx
  skipToNextField .ExpectedChaosnetAddr
  let addr ← parseChaosnetAddress
  expectEol
  mkRdata (lan ++ u16be addr)

def soaRdataBody (ctx : Ctx) : P (List UInt8) := do
  let mname ← pName ctx
  skipToNextField .ExpectedName
  let rname ← pName ctx
  skipToNextField .ExpectedU32
  let serial ← readField parseU32 .InvalidInt
  skipToNextField .ExpectedU32
  let refresh ← readField parseU32 .InvalidInt
  skipToNextField .ExpectedU32
  let retry ← readField parseU32 .InvalidInt
  skipToNextField .ExpectedU32
  let expire ← readField parseU32 .InvalidInt
  skipToNextField .ExpectedU32
  let minimum ← readField parseU32 .InvalidInt
  expectEol
  mkRdata (mname ++ rname ++ u32be serial ++ u32be refresh ++ u32be retry ++ u32be expire ++ u32be minimum)

/-- the `while skip_to_next_field_or_through_eol()? == Field` loop of `parse_in_wks_rdata`;
    `ports` reversed, `n = ports.len()`.  A round that consumed nothing would make the Rust loop
    spin: `ModelStuck` (proved unreachable). -/
def wksLoop (startLine : Nat) (st : St) (ports : List Nat) (n : Nat) : R (List Nat) :=
  match fieldOrEol true st.inp st.line st.paren with
  | .ok (.Eol, st1) => .ok (ports.reverse, st1)
  | .ok (.Field, st1) =>
    if n ≥ 65535 then fail .WksTooLong startLine
    else match readField parseU16 .InvalidInt st1 with
      | .ok (p, st2) =>
        if st2.inp.length < st.inp.length then wksLoop startLine st2 (p :: ports) (n + 1)
        else fail .ModelStuck st2.line
      | .err e => .err e
      | .panic => .panic
  | .err e => .err e
  | .panic => .panic
termination_by st.inp.length

def inWksRdataBody : P (List UInt8) := do
  let startLine ← getLine
  let addr ← readField parseIpv4 .InvalidIpv4
  skipToNextField .ExpectedIpProto
  let proto ← do
    if ← liftB (expectFieldCI "TCP".toUTF8.toList) then pure 6
    else do
      if ← liftB (expectFieldCI "UDP".toUTF8.toList) then pure 17
      else readField parseU8 .InvalidInt
  let ports ← (fun st => wksLoop startLine st [] 0)
  mkRdata (newInWks addr proto ports)

def hinfoRdataBody : P (List UInt8) := do
  let cpu ← parseCharacterString
  skipToNextField .ExpectedCharacterString
  let os ← parseCharacterString
  expectEol
  mkRdata (UInt8.ofNat cpu.length :: cpu ++ UInt8.ofNat os.length :: os)

def minfoRdataBody (ctx : Ctx) : P (List UInt8) := do
  let r ← pName ctx
  skipToNextField .ExpectedName
  let e ← pName ctx
  expectEol
  mkRdata (r ++ e)

def mxRdataBody (ctx : Ctx) : P (List UInt8) := do
  let pref ← readField parseU16 .InvalidInt
  skipToNextField .ExpectedName
  let ex ← pName ctx
  expectEol
  mkRdata (u16be pref ++ ex)

/-- the `loop` of `parse_txt_rdata` with `TxtBuilder::try_push`; `acc` = RDATA so far, reversed -/
def txtLoop (startLine : Nat) (st : St) (acc : List UInt8) : R (List UInt8) :=
  match parseCharacterString st with
  | .ok (cs, st1) =>
    if acc.length + cs.length + 1 > 65535 then fail .TxtTooLong startLine
    else
      let acc' := cs.reverse ++ UInt8.ofNat cs.length :: acc
      match fieldOrEol true st1.inp st1.line st1.paren with
      | .ok (.Eol, st2) => .ok (acc'.reverse, st2)
      | .ok (.Field, st2) =>
        if st2.inp.length < st.inp.length then txtLoop startLine st2 acc'
        else fail .ModelStuck st2.line
      | .err e => .err e
      | .panic => .panic
  | .err e => .err e
  | .panic => .panic
termination_by st.inp.length

def txtRdataBody : P (List UInt8) := do
  let startLine ← getLine
  let rd ← (fun st => txtLoop startLine st [])
  mkRdata rd

def inAaaaRdataBody : P (List UInt8) := do
  let a ← readField parseIpv6 .InvalidIpv6
  expectEol
  mkRdata a

def inSrvRdataBody (ctx : Ctx) : P (List UInt8) := do
  let prio ← readField parseU16 .InvalidInt
  skipToNextField .ExpectedU16
  let weight ← readField parseU16 .InvalidInt
  skipToNextField .ExpectedU16
  let port ← readField parseU16 .InvalidInt
  skipToNextField .ExpectedName
  let target ← pName ctx
  expectEol
  mkRdata (u16be prio ++ u16be weight ++ u16be port ++ target)

/-- typed body of a handler, by its name in the source.  An unknown name means the source has a
    handler this model does not know: `panic` (so that `C24_no_panic` stops checking). -/
def handlerBody (name : String) (ctx : Ctx) : P (List UInt8) :=
  match name with
  | "parse_name_rdata" => nameRdataBody ctx
  | "parse_in_a_rdata" => inARdataBody
  | "parse_ch_a_rdata" => chARdataBody ctx
  | "parse_soa_rdata" => soaRdataBody ctx
  | "parse_in_wks_rdata" => inWksRdataBody
  | "parse_hinfo_rdata" => hinfoRdataBody
  | "parse_minfo_rdata" => minfoRdataBody ctx
  | "parse_mx_rdata" => mxRdataBody ctx
  | "parse_txt_rdata" => txtRdataBody
  | "parse_in_aaaa_rdata" => inAaaaRdataBody
  | "parse_in_srv_rdata" => inSrvRdataBody ctx
  | _ => P.panic

/-- a `parse_*_rdata` handler: `\#` form with the handler's validator, or the typed body
    (both from the generated table `rdataHandlers`) -/
def runHandler (name : String) (ctx : Ctx) : P (List UInt8) :=
  match Gen.rdataHandlers.find? (fun h => h.1 == name) with
  | some (_, expected, validator) => do
    if ← checkBackslashHash (kindOfString expected) then parseUnknownRdataWithValidation validator
    else handlerBody name ctx
  | none => P.panic

/-- does the arm `Type::X | Type::Y … [if class == Class::C] => …` match `(class, type)`? -/
def armMatches (cls ty : Nat) (a : List Nat × Option Nat × String) : Bool :=
  a.1.contains ty && (match a.2.1 with | some g => g == cls | none => true)

/-- first arm of the generated `parse_rdata` table that matches `(class, type)` -/
def findArm (cls ty : Nat) : Option String :=
  match Gen.parseRdataArms.find? (armMatches cls ty) with
  | some a => some a.2.2
  | none => none

/-- `parse_rdata(class, rr_type)` -/
def parseRdata (ctx : Ctx) (cls ty : Nat) : P (List UInt8) :=
  match findArm cls ty with
  | some h => runHandler h ctx
  | none => do
    -- the `_` arm: require `\#`
    if !(← checkBackslashHash .ExpectedBackslashHash) then P.fail .ExpectedBackslashHash
    else parseUnknownRdata

/-! ### records (record.rs `parse_record_or_empty`) -/

/-- the part of `parse_record_or_empty` after the start of a record has been found -/
def parseRecordRest (ctx : Ctx) (startLine : Nat) (leadingWhitespace : Bool) : P (Option Item × Ctx) := do
  let owner ←
    if leadingWhitespace then
      match ctx.prevOwner with
      | some o => pure o
      | none => P.failAt .EmptyOwnerWithNoPrevious startLine
    else pName ctx
  skipToNextField .ExpectedTtlClassOrType
  let (ttl, cls) ← parseTtlAndClass ctx
  skipToNextField .ExpectedType
  let ty ← parseTypeField
  let rdata ← parseRdata ctx cls ty
  pure (some (.record startLine ⟨owner, ttl, cls, ty, rdata⟩),
        { ctx with prevOwner := some owner, prevTtl := some ttl, prevClass := some cls })

def parseRecordOrEmpty (ctx : Ctx) : P (Option Item × Ctx) := do
  let startLine ← getLine
  let leadingWhitespace ← liftB skipWhitespace
  if (← skipToNextFieldOrThroughEol) == .Eol then pure (none, ctx)
  else parseRecordRest ctx startLine leadingWhitespace

end QV.ZF
