/-
  QV.Model.ZoneFile.Name — model of src/zone_file/escape.rs, src/zone_file/name.rs,
  src/zone_file/character_string.rs and of `name::NameBuilder` (src/name/builder.rs) as used by
  the zone-file parser.

  A name is its uncompressed wire form (`List UInt8`).
-/
import QV.Model.ZoneFile.Lex

namespace QV.ZF
open QV

/-! ### escape.rs -/

/-- `parse_escape` (the leading `\` is already consumed).  On the remaining input; returns the
    octet, the rest and the new line number.  `parse_decimal_escape` reads the two further digits
    with `Reader::read`, which does not count newlines (they make the escape fail anyway). -/
def parseEscapeL (l : List UInt8) (line : Nat) : Out Err (UInt8 × List UInt8 × Nat) :=
  match l with
  | [] => fail .EofInEscape line
  | c :: rest =>
    if isDigit c then
      match rest with
      | d1 :: d2 :: rest2 =>
        if !(isDigit d1 && isDigit d2) then fail .EscapeNeedsThreeDigits line
        else
          let v := 100 * (c.toNat - 48) + 10 * (d1.toNat - 48) + (d2.toNat - 48)
          if v > 255 then fail .EscapeValueOutOfRange line
          else .ok (UInt8.ofNat v, rest2, line)
      | _ => fail .EofInEscape line
    else .ok (c, rest, if c == 10 then line + 1 else line)

theorem parseEscapeL_length {l : List UInt8} {line : Nat} {v : UInt8} {l' : List UInt8} {line' : Nat}
    (h : parseEscapeL l line = .ok (v, l', line')) : l'.length < l.length := by
  unfold parseEscapeL at h
  cases l with
  | nil => simp [fail] at h
  | cons c rest =>
    simp only at h
    split at h
    · split at h
      · split at h
        · simp [fail] at h
        · split at h
          · simp [fail] at h
          · simp only [Out.ok.injEq, Prod.mk.injEq] at h
            obtain ⟨_, rfl, _⟩ := h; simp; omega
      · simp [fail] at h
    · simp only [Out.ok.injEq, Prod.mk.injEq] at h
      obtain ⟨_, rfl, _⟩ := h; simp

/-! ### name::NameBuilder (src/name/builder.rs) -/

/-- `NameBuilder`: `done` = the completed labels in wire form (each with its length octet),
    `cur` = the octets of the label being written (`wire_repr` = `done ++ [len] ++ cur`,
    `label_len = cur.length`), `nl` = `label_offsets.len()`. -/
structure Builder where
  done : List UInt8
  cur : List UInt8
  nl : Nat
  deriving Repr, DecidableEq, Inhabited

def Builder.new : Builder := ⟨[], [], 1⟩

/-- `wire_repr.len()` -/
def Builder.wireLen (b : Builder) : Nat := b.done.length + 1 + b.cur.length

inductive NErr where
  | LabelTooLong | NameTooLong | NullNonTerminal | NonNullTerminal
  deriving Repr, DecidableEq, Inhabited

/-- `try_push` -/
def Builder.tryPush (b : Builder) (o : UInt8) : Out NErr Builder :=
  if b.cur.length ≥ Gen.MAX_LABEL_LEN then .err .LabelTooLong
  else if b.wireLen ≥ Gen.MAX_WIRE_LEN then .err .NameTooLong
  else .ok { b with cur := b.cur ++ [o] }

/-- `next_label` (`label_offsets.push` past `MAX_N_LABELS` would panic) -/
def Builder.nextLabel (b : Builder) : Out NErr Builder :=
  if b.cur.isEmpty then .err .NullNonTerminal
  else if b.wireLen ≥ Gen.MAX_WIRE_LEN then .err .NameTooLong
  else if b.nl ≥ Gen.MAX_N_LABELS then .panic
  else .ok ⟨b.done ++ UInt8.ofNat b.cur.length :: b.cur, [], b.nl + 1⟩

/-- number of labels (root included) of a wire-form name, `suffix.label_offsets().len()`;
    walks at most `fuel` labels (a valid name has at most 128) -/
def countLabels : Nat → List UInt8 → Nat
  | 0, _ => 0
  | _, [] => 0
  | fuel+1, c :: rest => if c == 0 then 1 else 1 + countLabels fuel (rest.drop c.toNat)

/-- `finish` -/
def Builder.finish (b : Builder) : Out NErr (List UInt8) :=
  if !b.cur.isEmpty then .err .NonNullTerminal
  else .ok (b.done ++ [0])

/-- `finish_with_suffix`: labels of `suffix` are appended while they fit in `MAX_WIRE_LEN`; the
    label offsets of the suffix are then pushed (`ArrayVec::push`, panics past capacity) -/
def Builder.finishWithSuffix (b : Builder) (suffix : List UInt8) : Out NErr (List UInt8) :=
  if b.cur.isEmpty then .err .NullNonTerminal
  else if b.wireLen + suffix.length > Gen.MAX_WIRE_LEN then .err .NameTooLong
  else if b.nl + countLabels 256 suffix > Gen.MAX_N_LABELS then .panic
  else .ok (b.done ++ UInt8.ofNat b.cur.length :: b.cur ++ suffix)

/-! ### name.rs -/

/-- `build_label_parse_error` -/
def labelErr {α} (e : NErr) (nameLine labelLine : Nat) : Out Err α :=
  if e = .LabelTooLong then fail .InvalidLabel labelLine else fail .InvalidName nameLine

/-- the `while let Some(octet) = read_field_octet()` loop of `parse_non_root_name` and the
    finishing step -/
def nameLoop (origin : Option (List UInt8)) (nameLine : Nat) (inp : List UInt8) (line labelLine : Nat)
    (paren : Bool) (b : Builder) : R (List UInt8) :=
  if atFieldEnd inp then
    -- end of the loop
    if b.cur.isEmpty then
      match b.finish with
      | .ok w => .ok (w, ⟨inp, line, paren⟩)
      | .err _ => fail .InvalidName nameLine
      | .panic => .panic
    else match origin with
      | some o =>
        match b.finishWithSuffix o with
        | .ok w => .ok (w, ⟨inp, line, paren⟩)
        | .err _ => fail .InvalidName nameLine
        | .panic => .panic
      | none => fail .PqdnWhenOriginNotSet nameLine
  else
    match inp with
    | [] => .panic   -- unreachable: `atFieldEnd [] = true`
    | c :: rest =>
      if c == 92 then               -- '\\'
        match h : parseEscapeL rest line with
        | .ok (e, rest', line') =>
          match b.tryPush e with
          | .ok b' => nameLoop origin nameLine rest' line' labelLine paren b'
          | .err er => labelErr er nameLine labelLine
          | .panic => .panic
        | .err er => .err er
        | .panic => .panic
      else if c == 46 then          -- '.'
        match b.nextLabel with
        | .ok b' => nameLoop origin nameLine rest line line paren b'
        | .err er => labelErr er nameLine labelLine
        | .panic => .panic
      else
        match b.tryPush c with
        | .ok b' => nameLoop origin nameLine rest line labelLine paren b'
        | .err er => labelErr er nameLine labelLine
        | .panic => .panic
termination_by inp.length
decreasing_by
  · have := parseEscapeL_length h; simp; omega
  · simp
  · simp

/-- `parse_name`: `@`, `.`, or a (possibly relative) name -/
def parseName (origin : Option (List UInt8)) (st : St) : R (List UInt8) :=
  let (isAt, st1) := expectField [64] st
  if isAt then
    match origin with
    | some o => .ok (o, st1)
    | none => fail .AtWhenOriginNotSet st.line
  else
    let (isRoot, st2) := expectField [46] st1
    if isRoot then .ok ([0], st2)
    else nameLoop origin st2.line st2.inp st2.line st2.line st2.paren Builder.new

/-! ### character_string.rs (and the include paths of directive.rs, which differ only in the
      length limit and the error kinds) -/

/-- the `loop` of `parse_quoted_character_string` / `parse_quoted_include_path` (opening quote
    already consumed); `acc` is reversed -/
def quotedLoop (max : Nat) (tooLong eofKind : Kind) (startLine : Nat) (inp : List UInt8) (line : Nat)
    (acc : List UInt8) (n : Nat) : Out Err (List UInt8 × List UInt8 × Nat) :=
  match inp with
  | [] => fail eofKind line
  | c :: rest =>
    if c == 92 then
      match h : parseEscapeL rest line with
      | .ok (e, rest', line') =>
        if n ≥ max then fail tooLong startLine
        else quotedLoop max tooLong eofKind startLine rest' line' (e :: acc) (n + 1)
      | .err er => .err er
      | .panic => .panic
    else if c == 34 then .ok (acc.reverse, rest, line)
    else if n ≥ max then fail tooLong startLine
    else quotedLoop max tooLong eofKind startLine rest (if c == 10 then line + 1 else line) (c :: acc) (n + 1)
termination_by inp.length
decreasing_by
  · have := parseEscapeL_length h; simp; omega
  · simp

/-- the loop of `parse_unquoted_character_string` / `parse_unquoted_include_path` -/
def unquotedLoop (max : Nat) (tooLong : Kind) (startLine : Nat) (inp : List UInt8) (line : Nat)
    (acc : List UInt8) (n : Nat) : Out Err (List UInt8 × List UInt8 × Nat) :=
  if atFieldEnd inp then .ok (acc.reverse, inp, line)
  else match inp with
    | [] => .panic   -- unreachable
    | c :: rest =>
      if c == 92 then
        match h : parseEscapeL rest line with
        | .ok (e, rest', line') =>
          if n ≥ max then fail tooLong startLine
          else unquotedLoop max tooLong startLine rest' line' (e :: acc) (n + 1)
        | .err er => .err er
        | .panic => .panic
      else if n ≥ max then fail tooLong startLine
      else unquotedLoop max tooLong startLine rest line (c :: acc) (n + 1)
termination_by inp.length
decreasing_by
  · have := parseEscapeL_length h; simp; omega
  · simp

/-- quoted or unquoted string with a length limit -/
def parseString (max : Nat) (tooLong eofKind : Kind) (st : St) : R (List UInt8) :=
  match st.inp with
  | 34 :: rest =>
    match quotedLoop max tooLong eofKind st.line rest st.line [] 0 with
    | .ok (s, inp', line') => .ok (s, ⟨inp', line', st.paren⟩)
    | .err e => .err e
    | .panic => .panic
  | _ =>
    match unquotedLoop max tooLong st.line st.inp st.line [] 0 with
    | .ok (s, inp', line') => .ok (s, ⟨inp', line', st.paren⟩)
    | .err e => .err e
    | .panic => .panic

/-- `parse_character_string` (`ArrayVec<u8, 255>`) -/
def parseCharacterString (st : St) : R (List UInt8) :=
  parseString 255 .CharacterStringTooLong .EofInQuotedCharacterString st

end QV.ZF
