/-
  QV.Model.ZoneFile.Lex — model of `src/zone_file/reader.rs` (the `Reader`) and
  `src/zone_file/error.rs` (layer 6).

  Abstraction (DESIGN.md §6 C23–C25): the refill/shift buffer (`buf`, `start`, `end`, `try_fill`,
  `shift`) is abstracted to "the remaining input" `inp : List UInt8`; `try_fill(n)` succeeds iff
  at least `n` octets remain.  This is exact as long as the underlying `Read` returns `0` only
  at end of input; the correspondence harness feeds the real parser through a `Read` that returns
  1–7-octet chunks (and whole buffers) so the buffering code is exercised against this model.
  I/O errors are outside the model (the harness's streams never fail).

  Of `Position {line, column}` only `line` is tracked (the column is used only in messages).
-/
import QV.Prelude
import QV.Generated.Consts

namespace QV.ZF
open QV

/-- `ErrorKind` of src/zone_file/error.rs, payloads dropped; `ModelStuck` is not a Rust error:
    it marks a loop iteration of the *model* that consumed nothing (the Rust loop would spin
    forever).  `QV.C24.C24_total` proves it is never produced. -/
inductive Kind where
  | AtWhenOriginNotSet | BadUtf8 | CharacterStringTooLong | EmptyOwnerWithNoPrevious
  | EofBeforeCloseParen | EofInEscape | EofInQuotedCharacterString | EofInQuotedIncludePath
  | EscapeNeedsThreeDigits | EscapeValueOutOfRange | ExpectedBackslashHash | ExpectedChaosnetAddr
  | ExpectedCharacterString | ExpectedCharacterStringOrBh | ExpectedClassOrType | ExpectedEol
  | ExpectedHexRdata | ExpectedIncludePath | ExpectedIpProto | ExpectedIpv4OrBh | ExpectedIpv6OrBh
  | ExpectedName | ExpectedNameOrBh | ExpectedRdataLen | ExpectedTtl | ExpectedTtlClassOrType
  | ExpectedTtlOrType | ExpectedType | ExpectedU16 | ExpectedU16OrBh | ExpectedU32 | FieldTooLong
  | IncludeNotSupported | IncludePathTooLong | InvalidChaosnetAddr | InvalidClass | InvalidHexDigit
  | InvalidInt | InvalidIpv4 | InvalidIpv6 | InvalidLabel | InvalidName | InvalidRdataForType
  | InvalidRdataLen | InvalidTtl | InvalidType | NestedParens | NullNotAllowed
  | OmittedClassWithNoPrevious | OmittedTtlWithNoDefaultOrPrevious | OptNotAllowed
  | PqdnWhenOriginNotSet | TsigNotAllowed | TxtTooLong | UnexpectedEndOfHexRdata | UnknownDirective
  | UnmatchedCloseParen | WksTooLong
  | ModelStuck
  deriving Repr, DecidableEq, Inhabited

/-- a syntax error: kind and the line of its `Position` -/
structure Err where
  kind : Kind
  line : Nat
  deriving Repr, DecidableEq, Inhabited

/-- the `Reader`'s observable state: remaining input, `position.line`, `in_parens` -/
structure St where
  inp : List UInt8
  line : Nat
  paren : Bool
  deriving Repr, DecidableEq, Inhabited

abbrev R (α : Type) := Out Err (α × St)

@[inline] def fail {α} (k : Kind) (line : Nat) : Out Err α := .err ⟨k, line⟩

/-! ### character classes (reader.rs `is_whitespace`, `ends_field`) -/

/-- `c == b' ' || c == b'\t'` -/
def isWs (c : UInt8) : Bool := c == 32 || c == 9

/-- `is_whitespace(c) || c == b'(' || c == b')' || c == b';'` -/
def endsField (c : UInt8) : Bool := isWs c || c == 40 || c == 41 || c == 59

/-- `u8::is_ascii_digit` -/
def isDigit (c : UInt8) : Bool := 48 ≤ c && c ≤ 57

/-! ### EOL detection (reader.rs `get_eol_at`) -/

/-- `get_eol`: `some 0` at end of input, `some 1` at `\n`, `some 2` at `\r\n`, else `none` -/
def eolLen : List UInt8 → Option Nat
  | [] => some 0
  | c :: rest =>
    if c == 10 then some 1
    else if c == 13 then
      match rest with
      | d :: _ => if d == 10 then some 2 else none
      | [] => none
    else none

/-- `at_field_end_at` on the remaining input -/
def atFieldEnd (l : List UInt8) : Bool :=
  match l with
  | [] => true
  | c :: _ => (eolLen l).isSome || endsField c

/-- number of octets before the next field end (the `while !at_field_end_at(len)` scan of
    `read_field`) -/
def fieldLen : List UInt8 → Nat
  | [] => 0
  | c :: rest => if atFieldEnd (c :: rest) then 0 else fieldLen rest + 1

/-! ### reading raw data -/

/-- `read_octet`: consumes one octet, counting a newline -/
def readOctet (st : St) : Option (UInt8 × St) :=
  match st.inp with
  | [] => none
  | c :: rest => some (c, { st with inp := rest, line := if c == 10 then st.line + 1 else st.line })

/-- `read_field_octet`: `none` at a field end, else consumes one octet (never a newline) -/
def readFieldOctet (st : St) : Option (UInt8 × St) :=
  if atFieldEnd st.inp then none
  else match st.inp with
    | [] => none
    | c :: rest => some (c, { st with inp := rest })

/-- `eq_ignore_ascii_case` on octets -/
def eqIgnoreCase (a b : List UInt8) : Bool := a.map lowerU8 == b.map lowerU8

/-- `expect_field_impl`: if the next field equals `field` (under `cmp`) it is consumed -/
def expectFieldImpl (cmp : List UInt8 → List UInt8 → Bool) (field : List UInt8) (st : St) : Bool × St :=
  if st.inp.length < field.length then (false, st)
  else if cmp (st.inp.take field.length) field && atFieldEnd (st.inp.drop field.length) then
    (true, { st with inp := st.inp.drop field.length })
  else (false, st)

def expectField (field : List UInt8) (st : St) : Bool × St := expectFieldImpl (· == ·) field st
def expectFieldCI (field : List UInt8) (st : St) : Bool × St := expectFieldImpl eqIgnoreCase field st

/-! ### UTF-8 validity (`str::from_utf8`, Unicode Table 3-7 well-formed byte sequences) -/

@[inline] def isCont (c : UInt8) : Bool := 0x80 ≤ c && c ≤ 0xBF

def utf8Valid : List UInt8 → Bool
  | [] => true
  | b :: rest =>
    if b < 0x80 then utf8Valid rest
    else if 0xC2 ≤ b && b ≤ 0xDF then
      match rest with
      | c1 :: r => isCont c1 && utf8Valid r
      | _ => false
    else if 0xE0 ≤ b && b ≤ 0xEF then
      match rest with
      | c1 :: c2 :: r =>
        (if b == 0xE0 then 0xA0 ≤ c1 && c1 ≤ 0xBF
         else if b == 0xED then 0x80 ≤ c1 && c1 ≤ 0x9F
         else isCont c1) && isCont c2 && utf8Valid r
      | _ => false
    else if 0xF0 ≤ b && b ≤ 0xF4 then
      match rest with
      | c1 :: c2 :: c3 :: r =>
        (if b == 0xF0 then 0x90 ≤ c1 && c1 ≤ 0xBF
         else if b == 0xF4 then 0x80 ≤ c1 && c1 ≤ 0x8F
         else isCont c1) && isCont c2 && isCont c3 && utf8Valid r
      | _ => false
    else false

/-- `read_field::<T, _>(or_else)`: scan to the field end (at most `MAX_READ_FIELD_SIZE` octets),
    require UTF-8, parse with `parse`; nothing is consumed on failure. -/
def readField {α} (parse : List UInt8 → Option α) (orElse : Kind) (st : St) : R α :=
  let n := fieldLen st.inp
  if n > Gen.MAX_READ_FIELD_SIZE then fail .FieldTooLong st.line
  else if !utf8Valid (st.inp.take n) then fail .BadUtf8 st.line
  else match parse (st.inp.take n) with
    | some v => .ok (v, { st with inp := st.inp.drop n })
    | none => fail orElse st.line

/-! ### navigation (reader.rs `skip_whitespace`, `eol_skipping_impl`,
      `field_or_eol_skipping_impl`) -/

/-- `skip_whitespace`: returns whether anything was skipped -/
def skipWhitespace (st : St) : Bool × St :=
  match st.inp with
  | [] => (false, st)
  | c :: _ => (isWs c, { st with inp := st.inp.dropWhile isWs })

/-- `skip_to_eol`: drop octets until a line ending (or the end of input) is next -/
def skipToEol : List UInt8 → List UInt8
  | [] => []
  | c :: rest => if (eolLen (c :: rest)).isSome then c :: rest else skipToEol rest

/-- consume the line ending `eolLen l = some n` (n > 0 bumps the line) -/
def takeEol (l : List UInt8) (line : Nat) : List UInt8 × Nat :=
  match eolLen l with
  | some 0 => (l, line)
  | some n => (l.drop n, line + 1)
  | none => (l, line)

theorem skipToEol_length_le (l : List UInt8) : (skipToEol l).length ≤ l.length := by
  induction l with
  | nil => simp [skipToEol]
  | cons c rest ih => unfold skipToEol; split <;> simp <;> omega

theorem takeEol_length_le (l : List UInt8) (line : Nat) : (takeEol l line).1.length ≤ l.length := by
  unfold takeEol; split <;> simp

theorem eolLen_cons_pos {c : UInt8} {rest : List UInt8} {n : Nat} (h : eolLen (c :: rest) = some n) :
    0 < n := by
  unfold eolLen at h
  repeat' split at h
  all_goals simp_all
  all_goals omega

inductive FieldOrEol where
  | Field | Eol
  deriving Repr, DecidableEq, Inhabited

/-- `field_or_eol_skipping_impl(through_eol)`.  One recursion step = one iteration of the Rust
    `loop` (the leading `skip_whitespace` is folded in octet by octet; a comment inside
    parentheses is skipped with `skipToEol` and its line ending is then handled by the next
    iteration exactly as `skip_through_eol` + next iteration do). -/
def fieldOrEol (through : Bool) (inp : List UInt8) (line : Nat) (paren : Bool) : R FieldOrEol :=
  match inp with
  | [] =>
    if paren then fail .EofBeforeCloseParen line
    else .ok (.Eol, ⟨[], line, paren⟩)
  | c :: rest =>
    if isWs c then fieldOrEol through rest line paren
    else match h : eolLen (c :: rest) with
      | some n =>
        -- n = 1 or 2 here
        if paren then fieldOrEol through ((c :: rest).drop n) (line + 1) paren
        else if through then .ok (.Eol, ⟨(c :: rest).drop n, line + 1, paren⟩)
        else .ok (.Eol, ⟨c :: rest, line, paren⟩)
      | none =>
        if c == 59 then            -- ';'
          if paren then
            -- skip_through_eol, then loop
            fieldOrEol through (takeEol (skipToEol rest) line).1 (takeEol (skipToEol rest) line).2 paren
          else if through then
            .ok (.Eol, ⟨(takeEol (skipToEol rest) line).1, (takeEol (skipToEol rest) line).2, paren⟩)
          else .ok (.Eol, ⟨skipToEol rest, line, paren⟩)
        else if c == 40 then       -- '('
          if paren then fail .NestedParens line
          else fieldOrEol through rest line true
        else if c == 41 then       -- ')'
          if !paren then fail .UnmatchedCloseParen line
          else fieldOrEol through rest line false
        else .ok (.Field, ⟨c :: rest, line, paren⟩)
termination_by inp.length
decreasing_by
  · simp
  · have := eolLen_cons_pos h; simp; omega
  · have := takeEol_length_le (skipToEol rest) line
    have := skipToEol_length_le rest
    simp; omega
  · simp
  · simp

end QV.ZF
