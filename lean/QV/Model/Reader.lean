/-
  QV.Model.Reader — model of `src/message/reader.rs` (layer 3).

  A `Reader` is (octets, cursor, mark). Every operation returns the outcome *and* the reader
  state after the call, so that "a failed operation leaves the read position unchanged" is a
  theorem about the model rather than an artefact of its types.

  `Rdata::read` is a parameter (`RdRead`) — it is modelled in `QV.Model.Rdata` (C18); the reader's
  theorems need only that it does not panic and that on success the RDATA lies inside the message.

  mirrors src/message/reader.rs (with the repair of `skip_rr`/`peek_rr`: `.get(owner_end + 8..)`).
-/
import QV.Prelude
import QV.Generated.Consts
import QV.Model.Wire

namespace QV.Reader
open QV QV.Wire

/-- error of `Rdata::read` (src/rr/rdata/mod.rs `ReadRdataError`) — opaque to the reader -/
abbrev RdErr := String

inductive ReaderErr where
  | HeaderTooShort
  | InvalidQname (e : NameErr)
  | InvalidOwner (e : NameErr)
  | InvalidRdata (e : RdErr)
  | UnexpectedEomInField
  deriving Repr, DecidableEq, Inhabited

def ReaderErr.toString : ReaderErr → String
  | .HeaderTooShort => "HeaderTooShort"
  | .InvalidQname e => "InvalidQname(" ++ e.toString ++ ")"
  | .InvalidOwner e => "InvalidOwner(" ++ e.toString ++ ")"
  | .InvalidRdata e => "InvalidRdata(" ++ e ++ ")"
  | .UnexpectedEomInField => "UnexpectedEomInField"

/-- `Rdata::read(class, rr_type, octets, cursor, rdlength)` → uncompressed RDATA -/
abbrev RdRead := (cls : Nat) → (ty : Nat) → Bytes → (cursor : Nat) → (rdlength : Nat) → Out RdErr (List UInt8)

structure Reader where
  octets : Bytes
  cursor : Nat
  mark : Option Nat
  deriving Repr, DecidableEq, Inhabited

/-- `Reader::try_from(&[u8])` -/
def tryFrom (b : Bytes) : Out ReaderErr Reader :=
  if b.size ≥ Gen.HEADER_SIZE then .ok ⟨b, Gen.HEADER_SIZE, none⟩ else .err .HeaderTooShort

/-! ### header accessors (fixed positions; a `Reader` always has ≥ 12 octets) -/

/-- `octets[i]`, panicking outside the buffer -/
def idx (b : Bytes) (i : Nat) : Out ReaderErr UInt8 :=
  if h : i < b.size then .ok b[i] else .panic

/-- `u16::from_be_bytes(octets[a..a+2])` -/
def hdr16 (r : Reader) (a : Nat) : Out ReaderErr Nat :=
  if a + 2 ≤ r.octets.size then .ok (be16 r.octets a) else .panic

def msgId (r : Reader) : Out ReaderErr Nat := hdr16 r Gen.ID_START
def qdcount (r : Reader) : Out ReaderErr Nat := hdr16 r Gen.QDCOUNT_START
def ancount (r : Reader) : Out ReaderErr Nat := hdr16 r Gen.ANCOUNT_START
def nscount (r : Reader) : Out ReaderErr Nat := hdr16 r Gen.NSCOUNT_START
def arcount (r : Reader) : Out ReaderErr Nat := hdr16 r Gen.ARCOUNT_START

def flag (r : Reader) (byte mask : Nat) : Out ReaderErr Bool :=
  match idx r.octets byte with
  | .ok b => .ok ((b.toNat &&& mask) != 0)
  | .err e => .err e
  | .panic => .panic

def qr (r : Reader) := flag r Gen.QR_BYTE Gen.QR_MASK
def aa (r : Reader) := flag r Gen.AA_BYTE Gen.AA_MASK
def tc (r : Reader) := flag r Gen.TC_BYTE Gen.TC_MASK
def rd (r : Reader) := flag r Gen.RD_BYTE Gen.RD_MASK
def ra (r : Reader) := flag r Gen.RA_BYTE Gen.RA_MASK

/-- `opcode()`: `((octets[2] & 0x78) >> 3).try_into().unwrap()` — `Opcode::try_from` fails for ≥ 16 -/
def opcode (r : Reader) : Out ReaderErr Nat :=
  match idx r.octets Gen.OPCODE_BYTE with
  | .ok b =>
    let raw := (b.toNat &&& Gen.OPCODE_MASK) >>> Gen.OPCODE_SHIFT
    if raw < 16 then .ok raw else .panic
  | .err e => .err e
  | .panic => .panic

def rcode (r : Reader) : Out ReaderErr Nat :=
  match idx r.octets Gen.RCODE_BYTE with
  | .ok b =>
    let raw := b.toNat &&& Gen.RCODE_MASK
    if raw < 16 then .ok raw else .panic
  | .err e => .err e
  | .panic => .panic

/-! ### mark / rewind / at_eom / message_to_cursor -/

def setMark (r : Reader) : Reader := { r with mark := some r.cursor }

/-- `rewind`: panics when no mark is set (documented) -/
def rewind (r : Reader) : Out ReaderErr Reader :=
  match r.mark with
  | some m => .ok { r with cursor := m, mark := none }
  | none => .panic

def atEom (r : Reader) : Bool := r.cursor ≥ r.octets.size

/-- `&octets[0..cursor]` -/
def messageToCursor (r : Reader) : Out ReaderErr Bytes :=
  if r.cursor ≤ r.octets.size then .ok (r.octets.extract 0 r.cursor) else .panic

/-! ### multi-byte reads -/

/-- `read_u16(&octets[from..])`: the slice panics when `from > len`; the read fails with
    `UnexpectedEomInField` when fewer than two octets remain. -/
def readU16At (b : Bytes) (pos : Nat) : Out ReaderErr Nat :=
  if pos > b.size then .panic
  else if pos + 2 ≤ b.size then .ok (be16 b pos) else .err .UnexpectedEomInField

def readU32At (b : Bytes) (pos : Nat) : Out ReaderErr Nat :=
  if pos > b.size then .panic
  else if pos + 4 ≤ b.size then .ok (be32 b pos) else .err .UnexpectedEomInField

/-- `read_u16(octets.get(from..).ok_or(UnexpectedEomInField)?)` (the repaired form) -/
def readU16Get (b : Bytes) (pos : Nat) : Out ReaderErr Nat :=
  if pos > b.size then .err .UnexpectedEomInField
  else if pos + 2 ≤ b.size then .ok (be16 b pos) else .err .UnexpectedEomInField

/-! ### questions -/

structure Question where
  qname : List UInt8
  qtype : Nat
  qclass : Nat
  deriving Repr, DecidableEq, Inhabited

/-- `Reader::read_question` -/
def readQuestion (r : Reader) : Out ReaderErr Question × Reader :=
  match parseCompressed r.octets r.cursor with
  | .panic => (.panic, r)
  | .err e => (.err (.InvalidQname e), r)
  | .ok p =>
    match readU16At r.octets (r.cursor + p.len) with
    | .panic => (.panic, r)
    | .err e => (.err e, r)
    | .ok qt =>
      match readU16At r.octets (r.cursor + p.len + 2) with
      | .panic => (.panic, r)
      | .err e => (.err e, r)
      | .ok qc => (.ok ⟨p.wire, qt, qc⟩, { r with cursor := r.cursor + p.len + 4 })

/-- `&self.octets[self.cursor..]` then `Name::skip_compressed` -/
def skipAtCursor (r : Reader) : Out NameErr Nat :=
  if r.cursor > r.octets.size then .panic
  else skipCompressed (r.octets.extract r.cursor r.octets.size)

/-- `Reader::skip_question` -/
def skipQuestion (r : Reader) : Out ReaderErr Unit × Reader :=
  match skipAtCursor r with
  | .panic => (.panic, r)
  | .err e => (.err (.InvalidQname e), r)
  | .ok k =>
    if r.cursor + k + 4 > r.octets.size then (.err .UnexpectedEomInField, r)
    else (.ok (), { r with cursor := r.cursor + k + 4 })

/-! ### resource records -/

structure Rr where
  owner : List UInt8
  rrType : Nat
  cls : Nat
  /-- `Ttl::from(u32)`: values with the top bit set read as 0 (RFC 2181 §8) -/
  ttl : Nat
  rdata : List UInt8
  deriving Repr, DecidableEq, Inhabited

/-- `Ttl::from(raw)` -/
def ttlFrom (raw : Nat) : Nat := if raw > 2147483647 then 0 else raw

/-- `Reader::read_rr` (`owner_end = cursor + owner_len`) -/
def readRr (rdr : RdRead) (r : Reader) : Out ReaderErr Rr × Reader :=
  match parseCompressed r.octets r.cursor with
  | .panic => (.panic, r)
  | .err e => (.err (.InvalidOwner e), r)
  | .ok p =>
    match readU16At r.octets (r.cursor + p.len) with
    | .panic => (.panic, r)
    | .err e => (.err e, r)
    | .ok ty =>
      match readU16At r.octets (r.cursor + p.len + 2) with
      | .panic => (.panic, r)
      | .err e => (.err e, r)
      | .ok cl =>
        match readU32At r.octets (r.cursor + p.len + 4) with
        | .panic => (.panic, r)
        | .err e => (.err e, r)
        | .ok ttl =>
          match readU16At r.octets (r.cursor + p.len + 8) with
          | .panic => (.panic, r)
          | .err e => (.err e, r)
          | .ok rdlen =>
            match rdr cl ty r.octets (r.cursor + p.len + 10) rdlen with
            | .panic => (.panic, r)
            | .err e => (.err (.InvalidRdata e), r)
            | .ok rd => (.ok ⟨p.wire, ty, cl, ttlFrom ttl, rd⟩,
                         { r with cursor := r.cursor + p.len + 10 + rdlen })

/-- what `skip_rr` and `peek_rr` compute before committing: `(owner_end, rr_end)` -/
def delimitRr (r : Reader) : Out ReaderErr (Nat × Nat) :=
  match skipAtCursor r with
  | .panic => .panic
  | .err e => .err (.InvalidOwner e)
  | .ok k =>
    match readU16Get r.octets (r.cursor + k + 8) with
    | .panic => .panic
    | .err e => .err e
    | .ok rdlen =>
      if r.cursor + k + 10 + rdlen > r.octets.size then .err (.InvalidRdata "UnexpectedEom")
      else .ok (r.cursor + k, r.cursor + k + 10 + rdlen)

/-- `Reader::skip_rr` -/
def skipRr (r : Reader) : Out ReaderErr Unit × Reader :=
  match delimitRr r with
  | .panic => (.panic, r)
  | .err e => (.err e, r)
  | .ok (_, re) => (.ok (), { r with cursor := re })

/-- `PeekRr`: the parent reader plus `owner_end`, `rr_end` (the cached owner is not modelled:
    it is a pure cache of `parse_owner`). -/
structure PeekRr where
  reader : Reader
  ownerEnd : Nat
  rrEnd : Nat
  deriving Repr, DecidableEq, Inhabited

/-- `Reader::peek_rr` (does not move the cursor) -/
def peekRr (r : Reader) : Out ReaderErr PeekRr :=
  match delimitRr r with
  | .panic => .panic
  | .err e => .err e
  | .ok (oe, re) => .ok ⟨r, oe, re⟩

/-- slice `octets[a..b]` as a big-endian number; panics outside the buffer (the `PeekRr`
    accessors index without checks, relying on `peek_rr`'s validation) -/
def sliceBe (b : Bytes) (a n : Nat) : Out ReaderErr Nat :=
  if a + n ≤ b.size then .ok (if n = 2 then be16 b a else be32 b a) else .panic

def PeekRr.rrType (p : PeekRr) := sliceBe p.reader.octets p.ownerEnd 2
def PeekRr.cls (p : PeekRr) := sliceBe p.reader.octets (p.ownerEnd + 2) 2
def PeekRr.rawTtl (p : PeekRr) := sliceBe p.reader.octets (p.ownerEnd + 4) 4
def PeekRr.ttl (p : PeekRr) : Out ReaderErr Nat :=
  match p.rawTtl with
  | .ok t => .ok (ttlFrom t)
  | .err e => .err e
  | .panic => .panic
def PeekRr.rdlength (p : PeekRr) := sliceBe p.reader.octets (p.ownerEnd + 8) 2

/-- `PeekRr::owner` / `parse_owner` -/
def PeekRr.owner (p : PeekRr) : Out ReaderErr (List UInt8) :=
  match parseCompressed p.reader.octets p.reader.cursor with
  | .ok n => .ok n.wire
  | .err e => .err (.InvalidOwner e)
  | .panic => .panic

/-- `PeekRr::message_to_rr` -/
def PeekRr.messageToRr (p : PeekRr) := messageToCursor p.reader

/-- `PeekRr::skip` -/
def PeekRr.skip (p : PeekRr) : Reader := { p.reader with cursor := p.rrEnd }

/-- `PeekRr::parse` -/
def PeekRr.parse (rdr : RdRead) (p : PeekRr) : Out ReaderErr Rr × Reader :=
  match p.owner with
  | .panic => (.panic, p.reader)
  | .err e => (.err e, p.reader)
  | .ok owner =>
    match p.cls, p.rrType, p.rdlength, p.ttl with
    | .ok cl, .ok ty, .ok rdlen, .ok ttl =>
      match rdr cl ty p.reader.octets (p.ownerEnd + 10) rdlen with
      | .panic => (.panic, p.reader)
      | .err e => (.err (.InvalidRdata e), p.reader)
      | .ok rd => (.ok ⟨owner, ty, cl, ttl, rd⟩, { p.reader with cursor := p.rrEnd })
    | _, _, _, _ => (.panic, p.reader)

end QV.Reader
