/-
  QV.Model.NameL — domain names as lists of labels (shared by the zone / catalog / server models).

  `Name` = the labels of a domain name, leftmost first, *without* the terminating root label:
  the root is `[]`, `www.example.` is `[www, example]`. Rust's `Name::len()` (which counts the
  root label) is `n.length + 1`; differences of lengths are the same in both views.

  Case: `Label`'s `PartialEq`/`Hash` are ASCII-case-insensitive (src/name/label.rs), and every
  use of names in the zone store goes through them (`HashMap<LabelBuf, _>` keys,
  `eq_or_subdomain_of`, `Name == Name`). The model therefore works on *case-folded* labels:
  `ofWire` lower-cases (`u8::to_ascii_lowercase`), and the harness prints every name that the real
  code returns in lower case. RDATA octets are never folded.

  Core Lean only (linked into the driver).
-/
import QV.Prelude
import QV.Model.Wire

namespace QV.NameL
open QV

abbrev Label := List UInt8
abbrev Name := List Label

/-- `Label::asterisk()` -/
def asterisk : Label := [42]

def lowerLabel (l : Label) : Label := l.map lowerU8

/-- split an uncompressed wire-format name (`len label len label … 0`) into its labels; `none`
    unless the octets are exactly one name. `fuel` ≥ number of labels + 1. -/
def splitWire : Nat → List UInt8 → Option Name
  | 0, _ => none
  | _ + 1, [] => none
  | f + 1, b :: rest =>
    if b = 0 then (if rest.isEmpty then some [] else none)
    else if rest.length < b.toNat then none
    else (splitWire f (rest.drop b.toNat)).map (fun n => rest.take b.toNat :: n)

/-- wire form → case-folded label list -/
def ofWire (w : List UInt8) : Option Name :=
  (splitWire (w.length + 1) w).map (fun n => n.map lowerLabel)

/-- label list → wire form -/
def toWire (n : Name) : List UInt8 :=
  n.foldr (fun l acc => UInt8.ofNat l.length :: (l ++ acc)) [0]

/-- `Name::try_from_uncompressed_all(octets)` followed by case folding: `none` = `Err(_)` -/
def parseAll (octets : List UInt8) : Option Name :=
  match QV.Wire.parseUncompressed octets.toArray true with
  | .ok p => ofWire p.wire
  | _ => none

/-- `Name::eq_or_subdomain_of` (src/name/mod.rs): `self.len() >= other.len()` and the labels
    zipped from the right are pairwise equal. -/
def eqOrSubdomainOf (self other : Name) : Bool :=
  decide (other.length ≤ self.length) && (self.reverse.zip other.reverse).all (fun p => p.1 == p.2)

/-- `Name::is_wildcard`: `self[0].is_asterisk()` (for the root, label 0 is the null label) -/
def isWildcard (n : Name) : Bool :=
  match n with
  | [] => false
  | l :: _ => l == asterisk

end QV.NameL
