/-
  QV.Model.Server — model of `src/server/mod.rs` (`Server::handle_message`,
  `handle_message_with_context`, OPT/TSIG handling) and `src/server/query.rs` (QUERY handling),
  layer 5. Byte-exact: it drives the reader model (C15), the RDATA reader (C18), the catalog and
  zone models (C22, C06), the TSIG model (C11) and the writer model (C12/C13) in exactly the order
  the Rust code calls them, and returns the response octets.

  Response rate limiting is modelled separately (`QV.Model.Rrl`); here `rrl = None`.
  Environment input: `now` (the `SystemTime::now()` read in the TSIG branch), in seconds.

  mirrors src/server/mod.rs and src/server/query.rs as repaired by the `fix:` commits recorded in
  known_findings.json (D03, D04, D05, D06, D14, D15).
-/
import QV.Prelude
import QV.Generated.Consts
import QV.Model.Reader
import QV.Model.Rdata
import QV.Model.Catalog
import QV.Model.Zone
import QV.Model.Tsig
import QV.Model.Writer

namespace QV.Server
open QV QV.Writer

/-! ### configuration -/

/-- what a catalog entry carries: `Entry::Loaded(zone)` / placeholders -/
structure ZoneEntry where
  apex : WName
  cls : Nat
  kind : Catalog.Kind
  zone : Zone.Zone
  deriving Inhabited

structure Key where
  name : List UInt8            -- wire form, lower-cased (`LowercaseName`)
  alg : Hmac.Alg
  secret : List UInt8
  deriving Inhabited

structure Cfg where
  payload : Nat                          -- `edns_udp_payload_size`
  zones : List ZoneEntry
  keys : List Key := []
  deriving Inhabited

inductive Transport | udp | tcp
  deriving DecidableEq, Repr, Inhabited

/-- constants of the code tables -/
def T (n : String) : Nat := lookupConst Gen.typeConsts n
def RC (n : String) : Nat := lookupConst Gen.rcodeConsts n
def XRC (n : String) : Nat := lookupConst Gen.extRcodeConsts n
def QT (n : String) : Nat := lookupConst Gen.qtypeConsts n

/-- build the catalog (`HashMapTreeCatalog`) the way the harness does: one insert per entry -/
def mkCatalog (zs : List ZoneEntry) : Catalog.Cat Unit :=
  (zs.zipIdx.foldl (fun (c : Catalog.Cat Unit) (p : ZoneEntry × Nat) =>
    (Catalog.insert c ⟨p.1.apex.labels, p.1.cls, p.1.kind, p.2, ()⟩).1) Catalog.Cat.empty)

/-! ### processing monad: writer state + ghost log + `ProcessingError` -/

/-- `ProcessingError` -/
inductive PErr | servFail | truncation
  deriving DecidableEq, Repr, Inhabited

/-- `impl From<writer::Error> for ProcessingError` -/
def PErr.ofWriter : WriterErr → PErr
  | .Truncation => .truncation
  | _ => .servFail

/-- ghost: one `add_{answer,authority,additional}_{rr,rrset}` call of the answer phase and how it
    ended. `optional` = issued inside `execute_allowing_truncation`. (`ttl` is the value handed
    over; hints are not recorded: they change octets, never records.) -/
structure AddEv where
  sec : RrSection
  owner : WName
  ty : Nat
  cls : Nat
  ttl : Nat
  rdatas : List (List UInt8)
  optional : Bool
  res : Out WriterErr Unit
  deriving Repr, DecidableEq, Inhabited

/-- ghost: the writer operations of the answer phase, in order -/
inductive Ev where
  | add (e : AddEv)
  | aa (b : Bool)
  | rcode (r : Nat)
  | tc (b : Bool)
  | clear
  | bad                      -- a header operation failed or panicked (never happens: C01)
  deriving Repr, DecidableEq, Inhabited

/-- the state of the answer phase: the writer and the ghost operation log. The log is written,
    never read: `PS.w` evolves exactly as the writer alone would (`srv` stays byte-exact). -/
structure PS where
  w : State
  log : List Ev := []
  deriving Inhabited

abbrev PM (α : Type) := PS → Out PErr α × PS

namespace PM
@[inline] def pure {α} (a : α) : PM α := fun s => (.ok a, s)
@[inline] def bind {α β} (x : PM α) (f : α → PM β) : PM β := fun s =>
  match x s with
  | (.ok a, s') => f a s'
  | (.err e, s') => (.err e, s')
  | (.panic, s') => (.panic, s')
instance : Monad PM where
  pure := PM.pure
  bind := PM.bind
def fail {α} (e : PErr) : PM α := fun s => (.err e, s)
def panic {α} : PM α := fun s => (.panic, s)

/-- an infallible header operation (`set_aa`, `set_rcode`, `set_tc`, `clear_rrs`), logged -/
def hdrOp (ev : Ev) (m : M Unit) : PM Unit := fun s =>
  match m s.w with
  | (.ok (), w') => (.ok (), { w := w', log := s.log ++ [ev] })
  | (.err e, w') => (.err (PErr.ofWriter e), { w := w', log := s.log ++ [.bad] })
  | (.panic, w') => (.panic, { w := w', log := s.log ++ [.bad] })

def setAa (b : Bool) : PM Unit := hdrOp (.aa b) (Writer.setAa b)
def setRcode (r : Nat) : PM Unit := hdrOp (.rcode r) (Writer.setRcode r)
def setTc (b : Bool) : PM Unit := hdrOp (.tc b) (Writer.setTc b)
def clearRrs : PM Unit := hdrOp .clear Writer.clearRrs
end PM

/-- run a writer call that is lent a fresh/extended `HintPointerVec`; returns the vector -/
def withHv (hv : HV) (m : M Unit) : M HV := fun s =>
  match m { s with hv := some hv } with
  | (.ok (), s') => (.ok (s'.hv.getD hv), { s' with hv := none })
  | (.err e, s') => (.err e, { s' with hv := none })
  | (.panic, s') => (.panic, { s' with hv := none })

/-- one record-adding writer call, logged. `none` = the call was optional and did not fit
    (`execute_allowing_truncation` swallowed `Truncation`: the rest of that closure is skipped);
    every other error is `?`-propagated (`impl From<writer::Error> for ProcessingError`). -/
def PM.addCall (ev : AddEv) (m : M HV) : PM (Option HV) := fun s =>
  match m s.w with
  | (.ok hv, w') => (.ok (some hv), { w := w', log := s.log ++ [.add { ev with res := .ok () }] })
  | (.err e, w') =>
    let s' : PS := { w := w', log := s.log ++ [.add { ev with res := .err e }] }
    if ev.optional ∧ e = .Truncation then (.ok none, s') else (.err (PErr.ofWriter e), s')
  | (.panic, w') => (.panic, { w := w', log := s.log ++ [.add { ev with res := .panic }] })

/-- `response.add_{answer,authority,additional}_rrset(hinted owner, type, class, ttl, rdatas, hv)` -/
def PM.addRrs (optional : Bool) (sec : RrSection) (hint : Hint) (owner : WName) (ty cls ttl : Nat)
    (rdatas : List (List UInt8)) : PM (Option HV) :=
  PM.addCall ⟨sec, owner, ty, cls, ttl, rdatas, optional, .ok ()⟩
    (withHv [] (addRrsetOp sec hint owner ty cls ttl rdatas))

/-- `response.add_{answer,authority}_rr(hinted owner, type, class, ttl, rdata, None)?` -/
def PM.addRr1 (sec : RrSection) (hint : Hint) (owner : WName) (ty cls ttl : Nat)
    (rdata : List UInt8) : PM Unit := do
  let _ ← PM.addCall ⟨sec, owner, ty, cls, ttl, [rdata], false, .ok ()⟩
    (withHv [] (addRrOp sec hint owner ty cls ttl rdata))
  pure ()

/-- `HintedName::from_hint_pointer_vec(vec, index, name).hint` -/
def hintFrom (hv : HV) (index : Nat) : Hint :=
  match hv[index]? with
  | some (some p) => .explicit p
  | _ => .none

/-! ### names -/

/-- case-folded label list used by the zone model -/
def fold (n : WName) : NameL.Name := n.labels.map NameL.lowerLabel

def unfold (n : NameL.Name) : WName := ⟨n⟩

/-- `Name == Name` (ASCII case-insensitive) -/
def nameEq (a b : WName) : Bool := fold a == fold b

/-- `read_name_from_rdata(rdata, start)`:
    `rdata.get(start..).map(Name::try_from_uncompressed_all).and_then(Result::ok).ok_or(ServFail)` -/
def readNameFromRdata (rdata : List UInt8) (start : Nat) : PM WName :=
  if start > rdata.length then PM.fail .servFail
  else
    match WName.parse (rdata.drop start) with
    | some (n, []) => pure n
    | _ => PM.fail .servFail

/-! ### helpers of query.rs -/

/-- the AAAA half of `add_additional_addresses` (class IN only) -/
def addAaaa (z : Zone.Zone) (hint : Hint) (owner : WName) (optional : Bool) (aaaa : Option Zone.Rrset) : PM Unit :=
  if z.cls = Gen.CLASS_IN then
    match aaaa with
    | some r => do
      let _ ← PM.addRrs optional .additional hint owner Gen.T_AAAA Gen.CLASS_IN r.ttl r.rdatas
      pure ()
    | none => pure ()
  else pure ()

/-- `add_additional_addresses(zone, owner, search_below_cuts, response)`; `optional` = the call is
    wrapped in `execute_allowing_truncation` (a `Truncation` from the A RRset ends the closure:
    the AAAA RRset is then not attempted) -/
def addAdditionalAddresses (z : Zone.Zone) (hint : Hint) (owner : WName) (sbc optional : Bool) : PM Unit :=
  match Zone.lookupAddrs z (fold owner) ⟨false, sbc⟩ with
  | .ok (.found a aaaa _) =>
    match a with
    | some r =>
      PM.addRrs optional .additional hint owner Gen.T_A z.cls r.ttl r.rdatas >>= fun o =>
        match o with
        | some _ => addAaaa z Hint.mostRecentOwner owner optional aaaa   -- `owner = HintedName::new(MostRecentOwner, ..)`
        | none => pure ()
    | none => addAaaa z hint owner optional aaaa
  | .ok _ => pure ()
  | .err _ => pure ()
  | .panic => PM.panic

/-- the three loops of `do_additional_section_processing` -/
def additionalLoop (z : Zone.Zone) (start : Nat) (hv : Option HV) : List (List UInt8) → Nat → PM Unit
  | [], _ => pure ()
  | rd :: rest, index => do
    let name ← readNameFromRdata rd start
    let hint := match hv with
      | some v => hintFrom v index
      | none => Hint.none
    addAdditionalAddresses z hint name false true
    additionalLoop z start hv rest (index + 1)

/-- `do_additional_section_processing` -/
def doAdditionalSectionProcessing (z : Zone.Zone) (rrType : Nat) (rrset : Zone.Rrset) (hv : Option HV) : PM Unit :=
  if z.cls ≠ Gen.CLASS_IN ∧ z.cls ≠ Gen.CLASS_CH then pure ()
  else if rrType = T "MB" ∨ rrType = T "MD" ∨ rrType = T "MF" ∨ rrType = T "NS" then
    additionalLoop z 0 hv rrset.rdatas 0
  else if rrType = T "MX" then additionalLoop z 2 hv rrset.rdatas 0
  else if rrType = T "SRV" then additionalLoop z 6 hv rrset.rdatas 0
  else pure ()

/-- `read_soa_minimum`: `Name::validate_uncompressed` twice (the lengths of MNAME and RNAME), then
    exactly four octets at offset 16 after them. (`WName.parse` is the structural twin of
    `Name::validate_uncompressed`: same acceptance condition, the rest of the octets instead of
    the length.) -/
def readSoaMinimum (rdata : List UInt8) : PM Nat :=
  match WName.parse rdata with
  | some (_, r1) =>
    match WName.parse r1 with
    | some (_, r2) =>
      if 16 > r2.length then PM.fail .servFail
      else
        let rest := r2.drop 16
        if rest.length = 4 then pure (be32 rest.toArray 0) else PM.fail .servFail
    | none => PM.fail .servFail
  | none => PM.fail .servFail

/-- `add_negative_caching_soa` -/
def addNegativeCachingSoa (z : Zone.Zone) : PM Unit :=
  match Zone.soa z with
  | none => PM.fail .servFail
  | some rrset =>
    match rrset.rdatas with
    | [] => PM.fail .servFail
    | rd :: _ => do
      let minimum ← readSoaMinimum rd
      let ttl := Nat.min (ttlFrom minimum) rrset.ttl
      PM.addRr1 .authority .none (unfold z.apex) (T "SOA") z.cls ttl rd

/-- the classification loop of `do_referral`: (index, nsdname) pairs, glue first -/
def classifyNs (child : WName) : List (List UInt8) → Nat → PM (List (Nat × WName) × List (Nat × WName))
  | [], _ => pure ([], [])
  | rd :: rest, index => do
    let n ← readNameFromRdata rd 0
    let (g, a) ← classifyNs child rest (index + 1)
    if NameL.eqOrSubdomainOf (fold n) (fold child) then pure ((index, n) :: g, a) else pure (g, (index, n) :: a)

/-- the two `for (index, nsdname) in …` loops of `do_referral` -/
def glueLoop (z : Zone.Zone) (hv : HV) (optional : Bool) : List (Nat × WName) → PM Unit
  | [] => pure ()
  | p :: rest => do
    addAdditionalAddresses z (hintFrom hv p.1) p.2 true optional
    glueLoop z hv optional rest

/-- `do_referral`: the NS RRset, then the mandatory glue (never inside
    `execute_allowing_truncation`), then the optional addresses (always inside it) -/
def doReferral (z : Zone.Zone) (child : NameL.Name) (ns : Zone.Rrset) : PM Unit := do
  let childW := unfold child
  let hv ← PM.addRrs false .authority .none childW (T "NS") z.cls ns.ttl ns.rdatas
  let (glues, additionals) ← classifyNs childW ns.rdatas 0
  glueLoop z (hv.getD []) false glues
  glueLoop z (hv.getD []) true additionals

/-- `follow_cname_1` + `follow_cname_2`, as one recursion; `fuel` bounds the number of links
    (`owners_seen` is an `ArrayVec` of capacity `MAX_CNAME_CHAIN_LEN - 1`, so the recursion is at
    most `MAX_CNAME_CHAIN_LEN` deep). -/
def followCname (z : Zone.Zone) (qname : WName) (rrType : Nat) :
    Nat → Zone.Rrset → List WName → PM Unit
  | 0, _, _ => PM.fail .servFail
  | fuel+1, cnameRrset, ownersSeen =>
    -- step 1
    match cnameRrset.rdatas with
    | [] => PM.fail .servFail
    | rd :: _ =>
      match WName.parse rd with
      | some (cname, []) =>
        if nameEq cname qname || ownersSeen.any (nameEq cname) then PM.fail .servFail   -- a loop
        else do
          let (hint, owner) := match ownersSeen.getLast? with
            | some o => (Hint.mostRecentNameInRdata, o)
            | none => (Hint.qname, qname)
          PM.addRr1 .answer hint owner (T "CNAME") z.cls cnameRrset.ttl cname.wire
          -- step 2: re-run the query with the CNAME as the new QNAME, in the same zone
          match Zone.lookup z (fold cname) rrType ⟨false, false⟩ with
          | .ok (.found found _) => do
            let hv ← PM.addRrs false .answer .mostRecentNameInRdata cname rrType z.cls found.ttl found.rdatas
            doAdditionalSectionProcessing z rrType found hv
          | .ok (.cname next _) =>
            if ownersSeen.length < Gen.MAX_CNAME_CHAIN_LEN - 1 then
              followCname z qname rrType fuel next (ownersSeen ++ [cname])
            else PM.fail .servFail
          | .ok (.referral child ns) => doReferral z child ns
          | .ok (.noRecords _) => addNegativeCachingSoa z
          | .ok .nxDomain => do
            PM.setRcode (RC "NXDOMAIN")
            addNegativeCachingSoa z
          | .ok .wrongZone => pure ()
          | .err _ => pure ()
          | .panic => PM.panic
      | _ => PM.fail .servFail

/-- `do_cname` -/
def doCname (z : Zone.Zone) (qname : WName) (cnameRrset : Zone.Rrset) (rrType : Nat) : PM Unit := do
  PM.setAa true
  followCname z qname rrType (Gen.MAX_CNAME_CHAIN_LEN + 1) cnameRrset []

/-- `answer` -/
def answer (z : Zone.Zone) (qname : WName) (qtype : Nat) : PM Unit :=
  match Zone.lookup z (fold qname) qtype ⟨true, false⟩ with
  | .ok (.found found _) => do
    PM.setAa true
    let hv ← PM.addRrs false .answer .qname qname qtype z.cls found.ttl found.rdatas
    doAdditionalSectionProcessing z qtype found hv
  | .ok (.cname c _) => doCname z qname c qtype
  | .ok (.referral child ns) => doReferral z child ns
  | .ok (.noRecords _) => do
    PM.setAa true
    addNegativeCachingSoa z
  | .ok .nxDomain => do
    PM.setRcode (RC "NXDOMAIN")
    PM.setAa true
    addNegativeCachingSoa z
  | .ok .wrongZone => PM.panic            -- `panic!("tried to look up a name in the wrong zone")`
  | .err _ => PM.panic
  | .panic => PM.panic

def answerAnyLoop (z : Zone.Zone) (qname : WName) : List Zone.Rrset → Nat → PM Nat
  | [], n => pure n
  | r :: rest, n => do
    let _ ← PM.addRrs false .answer .qname qname r.rtype z.cls r.ttl r.rdatas
    answerAnyLoop z qname rest (n + 1)

/-- `answer_any` -/
def answerAny (z : Zone.Zone) (qname : WName) : PM Unit :=
  match Zone.lookupAll z (fold qname) ⟨true, false⟩ with
  | .ok (.found rrsets _) => do
    PM.setAa true
    let n ← answerAnyLoop z qname rrsets 0
    if n = 0 then addNegativeCachingSoa z else pure ()
  | .ok (.referral child ns) => doReferral z child ns
  | .ok .nxDomain => do
    PM.setRcode (RC "NXDOMAIN")
    PM.setAa true
    addNegativeCachingSoa z
  | .ok .wrongZone => PM.panic
  | .err _ => PM.panic
  | .panic => PM.panic

/-- `handle_non_axfr_query`, on the writer plus the ghost log -/
def handleNonAxfrQueryL (z : Zone.Zone) (qname : WName) (qtype : Nat) (tr : Transport) : PM Unit := fun s =>
  let result := if qtype = QT "ANY" then answerAny z qname s else answer z qname qtype s
  match result with
  | (.ok (), s') => (.ok (), s')
  | (.err .servFail, s') =>
    (do PM.setAa false; PM.setRcode (RC "SERVFAIL"); PM.clearRrs) s'
  | (.err .truncation, s') =>
    (do
      PM.clearRrs
      if tr = Transport.tcp then do PM.setAa false; PM.setRcode (RC "SERVFAIL")
      else PM.setTc true) s'
  | (.panic, s') => (.panic, s')

/-- `handle_non_axfr_query`: what the writer sees (the ghost log is dropped) -/
def handleNonAxfrQuery (z : Zone.Zone) (qname : WName) (qtype : Nat) (tr : Transport) : M Unit := fun w =>
  match handleNonAxfrQueryL z qname qtype tr { w := w } with
  | (.ok (), s') => (.ok (), s'.w)
  | (.err e, s') => (.err (match e with | .servFail => WriterErr.InvalidRdata | .truncation => WriterErr.Truncation), s'.w)
  | (.panic, s') => (.panic, s'.w)

/-- `handle_query` -/
def handleQuery (cfg : Cfg) (question : Option (WName × Nat × Nat)) (tr : Transport) : M Unit :=
  match question with
  | none => setRcode (RC "FORMERR")
  | some (qname, qtype, qclass) =>
    if qtype = QT "IXFR" ∨ qtype = QT "AXFR" ∨ qtype = QT "MAILB" ∨ qtype = QT "MAILA" then setRcode (RC "NOTIMP")
    else if qclass = QC_ANY then setRcode (RC "NOTIMP")
    else
      match Catalog.lookup (mkCatalog cfg.zones) qname.labels qclass with
      | some e =>
        match e.kind with
        | .Loaded =>
          match cfg.zones[e.zone]? with
          | some ze => handleNonAxfrQuery ze.zone qname qtype tr
          | none => M.panic
        | _ => setRcode (RC "SERVFAIL")
      | none => setRcode (RC "REFUSED")

/-! ### OPT and TSIG handling (src/server/mod.rs) -/

/-- `Rdata::read` as the reader sees it -/
def rdRead : Reader.RdRead := fun c t msg cur len =>
  match Rdata.read c t msg cur len with
  | .ok b => .ok b.toList
  | .err e => .err e.toString
  | .panic => .panic

/-- `set_tsig_or_truncate` (the repair of D03): whether the TSIG RR was added -/
def setTsigOrTruncate (mode : TsigMode) (rr : TsigRr) : M Bool := fun s =>
  match setTsig mode rr s with
  | (.ok (), s') => (.ok true, s')
  | (.err _, s') => (do setRcode (RC "NOERROR"); setTc true; pure false) s'
  | (.panic, s') => (.panic, s')

/-- `PreparedTsigRr::new_from_read(tsig_rr, now, TSIG_FUDGE, error)` in the writer's vocabulary -/
def preparedFromRead (r : Tsig.ReadTsigRr) (now : Tsig.TimeSigned) (error : Nat) : Option TsigRr :=
  match WName.parse r.keyName with
  | some (kn, []) =>
    -- `new_from_read`: for BADTIME the request's time is echoed and the server time goes into
    -- "other data"; otherwise the response is stamped with the server time
    let ts := if error = XRC "BADTIME" then (Tsig.ReadTsigRr.timeSigned r).asSlice else now.asSlice
    some ⟨kn, ts, Gen.TSIG_FUDGE, (Tsig.ReadTsigRr.originalId r).toNat, error, now.asSlice⟩
  | _ => none

def toWriterAlg : Hmac.Alg → Alg
  | .HmacSha1 => .hmacSha1
  | .HmacSha256 => .hmacSha256

/-- outcome of the scan of the request (`handle_message_with_context` up to the opcode dispatch) -/
inductive ScanEnd
  | stop            -- a response is ready (an error RCODE was set, or TSIG processing ended it)
  | noResponse      -- `send_response = false`
  | proceed (question : Option (WName × Nat × Nat))
  deriving Inhabited

/-- answer + authority sections: `peek_rr`; OPT/TSIG ⇒ FORMERR; else `skip` -/
def scanAnNs : Nat → Reader.Reader → Option Reader.Reader
  | 0, r => some r
  | n+1, r =>
    match Reader.peekRr r with
    | .ok p =>
      match p.rrType with
      | .ok t => if t = T "OPT" ∨ t = T "TSIG" then none else scanAnNs n p.skip
      | _ => none
    | _ => none

structure ScanSt where
  r : Reader.Reader
  seenOpt : Bool := false

/-- `tsig_keys.get(tsig_rr.key_name()).filter(|(a, _)| *a == algorithm)`: the key map is keyed by
    name (one algorithm per key); a key configured for another algorithm is as good as unknown -/
def findKey (keys : List Key) (keyName : List UInt8) (alg : Hmac.Alg) : Option Key :=
  match keys.find? (fun k => k.name == keyName) with
  | some k => if k.alg = alg then some k else none
  | none => none

/-- the common tail of `find_tsig_algorithm_or_write_error` and `find_tsig_key_or_write_error`:
    NOTAUTH, unsigned TSIG RR (algorithm name echoed) with error BADKEY; processing stops -/
def tsigBadKey (tsigRr : Tsig.ReadTsigRr) (nowT : Tsig.TimeSigned) : M (Option Reader.Reader) := do
  setRcode (RC "NOTAUTH")
  match WName.parse tsigRr.algorithm, preparedFromRead tsigRr nowT (XRC "BADKEY") with
  | some (an, []), some prep => do
    let _ ← setTsigOrTruncate (.unsigned an) prep
    pure none
  | _, _ => M.panic

/-- the `match` of `verify_tsig_and_write_tsig_rr`: (RCODE, TSIG error, TSIG mode) for each outcome
    of `verify_request` (`none`: `verify_request` panicked) -/
def tsigReply (alg : Hmac.Alg) (requestMac secret : List UInt8) :
    Out Tsig.VerificationError Unit → Option (Nat × Nat × TsigMode)
  | .ok () => some (RC "NOERROR", XRC "NOERROR", .response (toWriterAlg alg) requestMac secret)
  | .err .BadSig => some (RC "NOTAUTH", XRC "BADVERSBADSIG", .unsigned (algName (toWriterAlg alg)))
  | .err .BadTime => some (RC "NOTAUTH", XRC "BADTIME", .response (toWriterAlg alg) requestMac secret)
  | .err .FormErr => some (RC "FORMERR", XRC "BADVERSBADSIG", .unsigned (algName (toWriterAlg alg)))
  | .panic => none

/-- `verify_tsig_and_write_tsig_rr`; `hm` = the MAC primitive -/
def tsigVerifyAndWrite (hm : Tsig.Algorithm → Tsig.Octets → Tsig.Octets → Tsig.Octets)
    (tsigRr : Tsig.ReadTsigRr) (messageWithoutTsig : List UInt8) (alg : Hmac.Alg) (secret : List UInt8)
    (nowT : Tsig.TimeSigned) (r' : Reader.Reader) : M (Option Reader.Reader) := fun s =>
  match tsigReply alg (Tsig.ReadTsigRr.mac tsigRr) secret
          (Tsig.verifyRequest hm tsigRr messageWithoutTsig alg secret nowT) with
  | some (rcode, tsigErr, mode) =>
    match preparedFromRead tsigRr nowT tsigErr with
    | some prep =>
      (do
        setRcode rcode
        let added ← setTsigOrTruncate mode prep
        if added && rcode = RC "NOERROR" then pure (some r') else pure none) s
    | none => (.panic, s)
  | none => (.panic, s)

/-- the TSIG processing proper (`handle_message_with_context` after `ReadTsigRr::try_from`):
    algorithm lookup, key lookup, verification; each step writes the response TSIG on failure -/
def tsigProcess (hm : Tsig.Algorithm → Tsig.Octets → Tsig.Octets → Tsig.Octets) (keys : List Key)
    (nowT : Tsig.TimeSigned) (tsigRr : Tsig.ReadTsigRr) (messageWithoutTsig : List UInt8)
    (r' : Reader.Reader) : M (Option Reader.Reader) :=
  match Tsig.Algorithm.fromName tsigRr.algorithm with
  | none => tsigBadKey tsigRr nowT
  | some alg =>
    match findKey keys tsigRr.keyName alg with
    | none => tsigBadKey tsigRr nowT
    | some key => tsigVerifyAndWrite hm tsigRr messageWithoutTsig alg key.secret nowT r'

/-- the TSIG branch; `some r'` = verified (continue scanning at `r'`), `none` = stop -/
def handleTsig (cfg : Cfg) (now : Nat) (p : Reader.PeekRr) (rawTtl : Nat) : M (Option Reader.Reader) := fun s =>
  match p.messageToRr with
  | .ok messageWithoutTsig =>
    match p.parse rdRead with
    | (.ok rr, r') =>
      if rawTtl ≠ 0 then (do setRcode (RC "FORMERR"); pure none) s
      else
        match Tsig.ReadTsigRr.tryFrom rr.owner rr.rrType rr.cls rr.ttl rr.rdata with
        | .err .FormErr => (do setRcode (RC "FORMERR"); pure none) s
        | .err .NotTsig => (.panic, s)
        | .panic => (.panic, s)
        | .ok tsigRr =>
          match Tsig.TimeSigned.tryFromUnix now with
          | none => (.panic, s)
          | some nowT => tsigProcess Tsig.realHmac cfg.keys nowT tsigRr messageWithoutTsig.toList r' s
    | (.err _, _) => (do setRcode (RC "FORMERR"); pure none) s
    | (.panic, _) => (.panic, s)
  | _ => (.panic, s)

/-- additional section scan -/
def scanAr (cfg : Cfg) (tr : Transport) (now : Nat) (arcount : Nat) :
    Nat → Nat → ScanSt → M (Option ScanSt)
  | 0, _, st => pure (some st)
  | n+1, index, st => fun s =>
    match Reader.peekRr st.r with
    | .ok p =>
      match p.rrType with
      | .ok t =>
        if t = T "OPT" then
          if st.seenOpt then (do setRcode (RC "FORMERR"); pure none) s
          else
            match setEdns cfg.payload s with
            | (.ok (), s1) =>
              match p.rawTtl with
              | .ok raw =>
                match p.parse rdRead with
                | (.ok opt, r') =>
                  (do
                    if tr = Transport.udp then setLimit (max 512 (min opt.cls cfg.payload)) else pure ()
                    -- validate_opt
                    if opt.owner ≠ [0] then do
                      Writer.unwrap (setExtendedRcode (XRC "FORMERR"))
                      pure none
                    else if raw / 65536 % 256 ≠ 0 then do
                      Writer.unwrap (setExtendedRcode (XRC "BADVERSBADSIG"))
                      pure none
                    else scanAr cfg tr now arcount n (index + 1) { r := r', seenOpt := true }) s1
                | (.err _, _) => (do setRcode (RC "FORMERR"); pure none) s1
                | (.panic, _) => (.panic, s1)
              | _ => (.panic, s1)
            | (.err _, s1) => (do setRcode (RC "SERVFAIL"); pure none) s1
            | (.panic, s1) => (.panic, s1)
        else if t = T "TSIG" then
          if index ≠ arcount - 1 then (do setRcode (RC "FORMERR"); pure none) s
          else
            match p.rawTtl with
            | .ok raw =>
              match handleTsig cfg now p raw s with
              | (.ok (some r'), s1) => scanAr cfg tr now arcount n (index + 1) { st with r := r' } s1
              | (.ok none, s1) => (.ok none, s1)
              | (.err e, s1) => (.err e, s1)
              | (.panic, s1) => (.panic, s1)
            | _ => (.panic, s)
        else scanAr cfg tr now arcount n (index + 1) { st with r := p.skip } s
      | _ => (.panic, s)
    | .err _ => (do setRcode (RC "FORMERR"); pure none) s
    | .panic => (.panic, s)

/-- `handle_message_with_context` -/
def handleWithContext (cfg : Cfg) (tr : Transport) (now : Nat) (r0 : Reader.Reader) : M Bool := fun s =>
  -- returns `send_response`
  match Reader.qdcount r0, Reader.ancount r0, Reader.nscount r0, Reader.arcount r0, Reader.opcode r0 with
  | .ok qd, .ok an, .ok ns, .ok ar, .ok opcode =>
    let qres : Option (Option (WName × Nat × Nat) × Reader.Reader) × Bool × Option Nat :=
      -- (question+reader | none, send_response, rcode to set on failure)
      if qd = 0 then (some (none, r0), true, none)
      else if qd = 1 then
        match Reader.readQuestion r0 with
        | (.ok q, r1) =>
          match WName.parse q.qname with
          | some (qn, []) => (some (some (qn, q.qtype, q.qclass), r1), true, none)
          | _ => (none, true, some 255)        -- unreachable: a parsed name is a well-formed name
        | (.err _, _) => (none, true, some (RC "FORMERR"))
        | (.panic, _) => (none, true, some 255)
      else (none, false, none)
    match qres with
    | (none, false, _) => (.ok false, s)
    | (none, true, some 255) => (.panic, s)
    | (none, true, rc) => (do setRcode (rc.getD 0); pure true) s
    | (some (question, r1), _, _) =>
      let addQ : M Bool := match question with
        | some (qn, qt, qc) => fun s =>
          match addQuestion qn qt qc s with
          | (.ok (), s') => (.ok true, s')
          | (.err _, s') => (do setRcode (RC "SERVFAIL"); pure false) s'
          | (.panic, s') => (.panic, s')
        | none => pure true
      (do
        let okQ ← addQ
        if !okQ then pure true
        else
          let r2 := Reader.setMark r1
          match scanAnNs (an + ns) r2 with
          | none => do setRcode (RC "FORMERR"); pure true
          | some r3 => do
            let st ← scanAr cfg tr now ar ar 0 { r := r3 }
            match st with
            | none => pure true
            | some st' =>
              if !Reader.atEom st'.r then do setRcode (RC "FORMERR"); pure true
              else do
                if opcode = 0 then handleQuery cfg question tr else setRcode (RC "NOTIMP")
                pure true) s
  | _, _, _, _, _ => (.panic, s)

/-- the MAC of the response TSIG (`sign_response` in `finish_with_mac`); `hm` = the MAC primitive -/
def macFnWith (hm : Tsig.Algorithm → Tsig.Octets → Tsig.Octets → Tsig.Octets) (ts : Writer.Tsig)
    (message : List UInt8) : List UInt8 :=
  match ts.mode with
  | .response alg requestMac key =>
    let a : Hmac.Alg := match alg with | .hmacSha1 => .HmacSha1 | .hmacSha256 => .HmacSha256
    let prep : Tsig.PreparedTsigRr :=
      { keyName := ts.rr.keyName.wire, timeSigned := Tsig.TimeSigned.ofList ts.rr.timeSigned,
        fudge := UInt16.ofNat ts.rr.fudge, originalId := UInt16.ofNat ts.rr.originalId,
        error := UInt16.ofNat ts.rr.error, serverTime := Tsig.TimeSigned.ofList ts.rr.serverTime }
    match (Tsig.signResponse (ε := Unit) hm prep message requestMac a key) with
    | .ok (_, mac) => mac
    | _ => []
  | _ => []

/-- `macFnWith` with the real HMAC -/
def macFn (ts : Writer.Tsig) (message : List UInt8) : List UInt8 := macFnWith Tsig.realHmac ts message

/-- `Server::handle_message` (RRL disabled). `bufLen` = `response_buf.len()`. -/
def handleMessage (cfg : Cfg) (tr : Transport) (now : Nat) (bufLen : Nat) (req : Bytes) : Out Unit (Option Bytes) :=
  let minBuf := match tr with | .tcp => 65535 | .udp => cfg.payload
  if bufLen < minBuf then .panic
  else
    match Reader.tryFrom req with
    | .ok r0 =>
      match Reader.qr r0, Reader.msgId r0, Reader.opcode r0, Reader.rd r0 with
      | .ok qr, .ok id, .ok opcode, .ok rd =>
        if qr then .ok none
        else
          let limit := match tr with | .tcp => 65535 | .udp => 512
          match Writer.new (Array.replicate bufLen 0) limit with
          | .ok w0 =>
            let prog : M Bool := do
              setId id
              setQr true
              setOpcode opcode
              if opcode = 0 then setRd rd else pure ()
              handleWithContext cfg tr now r0
            match prog w0 with
            | (.ok true, w1) =>
              match Writer.finish w1 macFn with
              | .ok (bytes, _) => .ok (some bytes)
              | _ => .panic
            | (.ok false, _) => .ok none
            | _ => .panic
          | _ => .panic
      | _, _, _, _ => .panic
    | .err _ => .ok none
    | .panic => .panic

end QV.Server
