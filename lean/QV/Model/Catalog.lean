/-
  QV.Model.Catalog — model of the zone catalogs (layer 4).

  mirrors src/db/catalog.rs                  (trait `Catalog`: default `get`; enum `Entry`)
          src/db/hash_map_tree/catalog.rs    (`HashMapTreeCatalog`: insert / remove /
                                              remove_in_class / lookup / lookup_in_class / iter)
          src/db/hash_map_tree/node.rs       (`Node`: get_or_create_descendant, iter)
          src/db/single_zone_catalog.rs      (`SingleZoneCatalog`: lookup / get)

  Representation choices (DESIGN.md §3.4):

  * a domain name is the list of its labels, left to right, *without* the final null label
    (`DName`); Rust's `name.len()` is `n.length + 1`, so `name.len() - 1` never underflows;
  * `HashMap<LabelBuf, Node>` / `HashMap<Class, Node>` are association lists without duplicate
    keys (`aget`/`aset`/`adel`). `LabelBuf`'s `Hash`/`Eq` ignore ASCII case, so the key of a
    child is the lower-cased label. Rust's iteration order is unspecified: `iter` is only
    meaningful up to permutation (the driver sorts);
  * the Rust functions recurse on `level` from `name.len() - 1` down to `0` and index
    `name[level - 1]`; that is a walk along the labels from right to left, written here as
    structural recursion on the reversed (lower-cased) label list `pathOf name`;
  * an `Entry` is a record `(name, class, kind, zone, md)`: `kind` is the Rust enum variant,
    `zone` identifies the `Arc<Z>` of a `Loaded` entry (0 for placeholders), `md : μ` is the
    user metadata `M`. `Entry::name()`/`class()` return the zone's apex and class for `Loaded`
    entries and the stored ones otherwise; both are the fields `name`/`cls` here.

  Core Lean + Std only (linked into the native driver).
-/
import QV.Prelude

namespace QV.Catalog
open QV

/-! ### vocabulary -/

abbrev Label := List UInt8
/-- labels left to right, without the terminating null label -/
abbrev DName := List Label

def lowerLabel (l : Label) : Label := l.map lowerU8
def lowerName (n : DName) : DName := n.map lowerLabel

/-- the walk from the root node down to the node of `n`: lower-cased labels, right to left -/
def pathOf (n : DName) : List Label := (lowerName n).reverse

/-- variant of the Rust enum `Entry` -/
inductive Kind where
  | Loaded | NotYetLoaded | FailedToLoad
  deriving Repr, DecidableEq, Inhabited

/-- `Entry<Z, M>` -/
structure Entry (μ : Type) where
  name : DName
  cls : Nat
  kind : Kind
  zone : Nat
  md : μ
  deriving Repr, DecidableEq, Inhabited

/-! ### hash maps as association lists -/

section AList
variable {κ : Type} [DecidableEq κ] {β : Type}

/-- `HashMap::get` -/
def aget (k : κ) : List (κ × β) → Option β
  | [] => none
  | (k', v) :: r => if k' = k then some v else aget k r

/-- `HashMap::insert` / assignment through `get_mut` / `entry(k).or_insert_with(..)` -/
def aset (k : κ) (v : β) : List (κ × β) → List (κ × β)
  | [] => [(k, v)]
  | (k', v') :: r => if k' = k then (k, v) :: r else (k', v') :: aset k v r

/-- `HashMap::remove` -/
def adel (k : κ) : List (κ × β) → List (κ × β)
  | [] => []
  | (k', v') :: r => if k' = k then adel k r else (k', v') :: adel k r

end AList

/-! ### the tree -/

/-- `Node<Option<Entry<Z, M>>>` (the `name` field of the Rust node is never read by the catalog) -/
inductive Node (μ : Type) where
  | mk (data : Option (Entry μ)) (children : List (Label × Node μ))

namespace Node
variable {μ : Type}

/-- `Node::new` -/
def empty : Node μ := .mk none []

def data : Node μ → Option (Entry μ)
  | .mk d _ => d

def children : Node μ → List (Label × Node μ)
  | .mk _ cs => cs

instance : Inhabited (Node μ) := ⟨empty⟩

end Node

variable {μ : Type}

/-- mirrors src/db/hash_map_tree/node.rs `get_or_create_descendant` followed by
    `node.data.replace(entry)` (src/db/hash_map_tree/catalog.rs `insert`): returns the new
    subtree and the replaced entry. -/
def insertNode : List Label → Entry μ → Node μ → Node μ × Option (Entry μ)
  | [], e, .mk d cs => (.mk (some e) cs, d)
  | l :: p, e, .mk d cs =>
    -- self.children.entry(name[level - 1]).or_insert_with(Node::new)
    let r := insertNode p e ((aget l cs).getD Node.empty)
    (.mk d (aset l r.1 cs), r.2)

/-- mirrors src/db/hash_map_tree/catalog.rs `lookup_in_class` -/
def lookupNode : List Label → Node μ → Option (Entry μ)
  | [], .mk d _ => d                                    -- level == 0: matched the entire name
  | l :: p, .mk d cs =>
    let longer := match aget l cs with
      | some sub => lookupNode p sub
      | none => none
    longer.or d                                          -- longer_match.or(node.data.as_ref())

/-- mirrors src/db/hash_map_tree/catalog.rs `remove_in_class`: the new subtree, the removed
    entry, and the flag "the caller should remove this node". -/
def removeNode : List Label → Node μ → Node μ × Option (Entry μ) × Bool
  | [], .mk d cs => (.mk none cs, d, cs.isEmpty)         -- (node.data.take(), children.is_empty())
  | l :: p, .mk d cs =>
    match aget l cs with
    | some sub =>
      let r := removeNode p sub
      if r.2.2 then
        let cs' := adel l cs                              -- node.children.remove(..)
        (.mk d cs', r.2.1, cs'.isEmpty && d.isNone)
      else
        (.mk d (aset l r.1 cs), r.2.1, false)
    | none => (.mk d cs, none, false)

mutual
/-- mirrors src/db/hash_map_tree/node.rs `Iter` (this node first, then every child subtree)
    composed with `filter_map(|(_, entry_option)| entry_option.as_ref())` -/
def Node.entries : Node μ → List (Entry μ)
  | .mk d cs => d.toList ++ entriesL cs
def entriesL : List (Label × Node μ) → List (Entry μ)
  | [] => []
  | (_, n) :: r => n.entries ++ entriesL r
end

/-! ### HashMapTreeCatalog -/

/-- `roots_by_class: HashMap<Class, Node>` -/
abbrev Cat (μ : Type) := List (Nat × Node μ)

/-- `HashMapTreeCatalog::new` -/
def Cat.empty : Cat μ := []

/-- mirrors `HashMapTreeCatalog::insert` -/
def insert (c : Cat μ) (e : Entry μ) : Cat μ × Option (Entry μ) :=
  let root := (aget e.cls c).getD Node.empty             -- entry(class).or_insert_with(Node::new)
  let r := insertNode (pathOf e.name) e root
  (aset e.cls r.1 c, r.2)

/-- mirrors `HashMapTreeCatalog::remove` -/
def remove (c : Cat μ) (n : DName) (cls : Nat) : Cat μ × Option (Entry μ) :=
  match aget cls c with
  | some root =>
    let r := removeNode (pathOf n) root
    if r.2.2 then (adel cls c, r.2.1) else (aset cls r.1 c, r.2.1)
  | none => (c, none)

/-- mirrors `<HashMapTreeCatalog as Catalog>::lookup` -/
def lookup (c : Cat μ) (n : DName) (cls : Nat) : Option (Entry μ) :=
  match aget cls c with
  | none => none
  | some root => lookupNode (pathOf n) root

/-- mirrors the default `Catalog::get` (src/db/catalog.rs):
    `self.lookup(name, class).filter(|entry| entry.name().len() == name.len())` -/
def get (c : Cat μ) (n : DName) (cls : Nat) : Option (Entry μ) :=
  (lookup c n cls).filter (fun e => e.name.length + 1 == n.length + 1)

/-- mirrors `HashMapTreeCatalog::iter` -/
def iter : Cat μ → List (Entry μ)
  | [] => []
  | (_, root) :: r => root.entries ++ iter r

/-! ### histories -/

inductive Op (μ : Type) where
  | insert (e : Entry μ)
  | remove (n : DName) (cls : Nat)

def step (c : Cat μ) : Op μ → Cat μ
  | .insert e => (insert c e).1
  | .remove n cls => (remove c n cls).1

/-- the catalog after a history of operations on `HashMapTreeCatalog::new()` -/
def run (ops : List (Op μ)) : Cat μ := ops.foldl step Cat.empty

/-! ### SingleZoneCatalog -/

/-- mirrors src/name/mod.rs `Name::eq_or_subdomain_of`: at least as many labels, and the labels
    compared pairwise from the right (case-insensitively) all agree -/
def eqOrSubdomainOf (n other : DName) : Bool :=
  n.length + 1 ≥ other.length + 1 &&
    ((lowerName n).reverse.zip (lowerName other).reverse).all (fun p => p.1 == p.2)

/-- mirrors src/name/mod.rs `impl PartialEq for Name` -/
def nameEq (a b : DName) : Bool :=
  a.length + 1 == b.length + 1 && ((lowerName a).zip (lowerName b)).all (fun p => p.1 == p.2)

/-- mirrors `<SingleZoneCatalog as Catalog>::lookup` -/
def szLookup (e : Entry μ) (n : DName) (cls : Nat) : Option (Entry μ) :=
  if e.cls == cls && eqOrSubdomainOf n e.name then some e else none

/-- mirrors `<SingleZoneCatalog as Catalog>::get` -/
def szGet (e : Entry μ) (n : DName) (cls : Nat) : Option (Entry μ) :=
  if e.cls == cls && nameEq n e.name then some e else none

end QV.Catalog
