/-
  QV.Model.Hmac — HMAC (RFC 2104) over the SHA functions of `QV.Model.Sha`.

  Re-implementation of what `hmac::Hmac<Sha1>` / `hmac::Hmac<Sha256>` compute for quandary
  (src/message/tsig.rs `Algorithm::make_authenticator`, `Authenticator::{update,finalize,
  verify_truncated_left}`); compared with the crates on every correspondence case (op `hmac` and,
  implicitly, every `tsign` / `tverify`).  `Hmac::new_from_slice` accepts keys of every length
  (keys longer than the block are hashed first), so the `unwrap()` there cannot fail.
-/
import QV.Model.Sha

namespace QV.Hmac
open QV

/-- mirrors src/message/tsig.rs `enum Algorithm` (the two algorithms quandary supports) -/
inductive Alg where
  | HmacSha1
  | HmacSha256
  deriving Repr, DecidableEq, Inhabited

/-- mirrors `Algorithm::output_size` (`Hmac::<Sha1>::output_size()` = 20, SHA-256: 32) -/
def Alg.outputSize : Alg → Nat
  | .HmacSha1 => 20
  | .HmacSha256 => 32

/-- the underlying hash -/
def Alg.hash : Alg → Bytes → Bytes
  | .HmacSha1 => Sha.sha1
  | .HmacSha256 => Sha.sha256

/-- block size of both SHA-1 and SHA-256 -/
def blockSize : Nat := 64

/-- RFC 2104 §2: `H(K ⊕ opad ‖ H(K ⊕ ipad ‖ text))`, `K` hashed first when longer than a block
    and zero-padded to the block size. -/
def hmacWith (H : Bytes → Bytes) (key msg : Bytes) : Bytes :=
  let k0 := if key.size > blockSize then H key else key
  let k := k0 ++ Array.replicate (blockSize - k0.size) (0 : UInt8)
  let ipad := k.map (· ^^^ 0x36)
  let opad := k.map (· ^^^ 0x5c)
  H (opad ++ H (ipad ++ msg))

def hmac (alg : Alg) (key msg : Bytes) : Bytes := hmacWith alg.hash key msg

end QV.Hmac
