/-
  QV.Model.Rrl — model of response rate limiting: src/server/rrl.rs (all of it) and, from
  src/server/mod.rs, `ReceivedInfo::new` and the part of `Context` that RRL reads and writes.

  Conventions (DESIGN.md §3):
  * `u32` counters/rates are `Nat` with explicit overflow checks (dev profile: overflow = panic);
    netmasks and addresses, where the code does bit operations, are `UInt32` / `UInt64`.
  * `Instant` is a `Nat` (nanoseconds on the monotonic clock); `Duration` likewise. Every
    `Instant::now()` is an explicit argument `now` (§3.5 environment inputs).
  * `RandomState` is a parameter: two arbitrary functions (hash of a name, hash of a key). The
    theorems quantify over all of them; the driver instantiates them with the values the
    harness probed on the real server, so bucket collisions are modelled exactly.
  * `thread_rng` (`should_slip`, slip ≥ 2) is an explicit input bit `rnd`.

  Core Lean only (linked into the driver).
-/
import QV.Prelude
import QV.Generated.Rrl

namespace QV.Rrl
open QV

def NANOS_PER_SEC : Nat := 1000000000
def U32_MAX : Nat := 4294967295
def U64_MAX : Nat := 18446744073709551615

/-! ### RRL parameters -/

/-- mirrors src/server/rrl.rs `struct RrlParams` -/
structure RrlParams where
  noerror_rate : Nat    -- u32
  nxdomain_rate : Nat   -- u32
  error_rate : Nat      -- u32
  window : Nat          -- u32
  slip : Nat            -- usize
  ipv4_netmask : UInt32
  ipv6_netmask : UInt64
  size : Nat            -- usize

/-- mirrors src/server/rrl.rs `enum RrlParamError` -/
inductive RrlParamError where
  | NoerrorRateIsZero | NxdomainRateIsZero | ErrorRateIsZero | WindowIsZero
  | WindowIsTooLargeForRates | InvalidIpv4PrefixLen | InvalidIpv6PrefixLen | SizeIsZero
  deriving DecidableEq, Repr

def RrlParamError.toString : RrlParamError → String
  | .NoerrorRateIsZero => "NoerrorRateIsZero" | .NxdomainRateIsZero => "NxdomainRateIsZero"
  | .ErrorRateIsZero => "ErrorRateIsZero" | .WindowIsZero => "WindowIsZero"
  | .WindowIsTooLargeForRates => "WindowIsTooLargeForRates"
  | .InvalidIpv4PrefixLen => "InvalidIpv4PrefixLen" | .InvalidIpv6PrefixLen => "InvalidIpv6PrefixLen"
  | .SizeIsZero => "SizeIsZero"

/-- `u32::checked_mul(..).is_none()` -/
def u32MulOverflows (a b : Nat) : Bool := decide (a * b > U32_MAX)

/-- mirrors src/server/rrl.rs `RrlParams::new` (arguments are `u32`). -/
def RrlParams.new (noerror_rate nxdomain_rate error_rate window : Nat) : Out RrlParamError RrlParams :=
  if noerror_rate = 0 then .err .NoerrorRateIsZero
  else if nxdomain_rate = 0 then .err .NxdomainRateIsZero
  else if error_rate = 0 then .err .ErrorRateIsZero
  else if window = 0 then .err .WindowIsZero
  else if u32MulOverflows noerror_rate window || u32MulOverflows nxdomain_rate window
      || u32MulOverflows error_rate window then .err .WindowIsTooLargeForRates
  else .ok { noerror_rate, nxdomain_rate, error_rate, window,
             slip := Gen.RRL_DEFAULT_SLIP,
             ipv4_netmask := UInt32.ofNat Gen.RRL_DEFAULT_IPV4_NETMASK,
             ipv6_netmask := UInt64.ofNat Gen.RRL_DEFAULT_IPV6_NETMASK,
             size := Gen.RRL_DEFAULT_SIZE }

/-- mirrors `RrlParams::set_slip` -/
def RrlParams.setSlip (p : RrlParams) (slip : Nat) : RrlParams := { p with slip }

/-- `u32::MAX << (32 - len)` for `1 ≤ len ≤ 32` (shift amount 0..31, never an overflow). -/
def ipv4MaskOfLen (len : Nat) : UInt32 := (0xFFFFFFFF : UInt32) <<< UInt32.ofNat (32 - len)

/-- `u64::MAX << (64 - len)` for `1 ≤ len ≤ 64`. -/
def ipv6MaskOfLen (len : Nat) : UInt64 := (0xFFFFFFFFFFFFFFFF : UInt64) <<< UInt64.ofNat (64 - len)

/-- mirrors `RrlParams::set_ipv4_prefix_len` (`len : u8`) -/
def RrlParams.setIpv4PrefixLen (p : RrlParams) (len : Nat) : Out RrlParamError RrlParams :=
  if len > 32 then .err .InvalidIpv4PrefixLen
  else if len = 0 then .ok { p with ipv4_netmask := 0 }
  else .ok { p with ipv4_netmask := ipv4MaskOfLen len }

/-- mirrors `RrlParams::set_ipv6_prefix_len` (`len : u8`) -/
def RrlParams.setIpv6PrefixLen (p : RrlParams) (len : Nat) : Out RrlParamError RrlParams :=
  if len > 64 then .err .InvalidIpv6PrefixLen
  else if len = 0 then .ok { p with ipv6_netmask := 0 }
  else .ok { p with ipv6_netmask := ipv6MaskOfLen len }

/-- mirrors `RrlParams::set_size` -/
def RrlParams.setSize (p : RrlParams) (size : Nat) : Out RrlParamError RrlParams :=
  if size = 0 then .err .SizeIsZero else .ok { p with size }

/-- The whole configuration sequence a user performs (constructor, then the four setters). -/
def RrlParams.configure (ne nx er window slip v4len v6len size : Nat) : Out RrlParamError RrlParams := do
  let p ← RrlParams.new ne nx er window
  let p := p.setSlip slip
  let p ← p.setIpv4PrefixLen v4len
  let p ← p.setIpv6PrefixLen v6len
  p.setSize size

/-! ### keys, entries, categories, actions -/

/-- mirrors `enum Category` -/
inductive Category where
  | NoError | NxDomain | Error
  deriving DecidableEq, Repr, Inhabited

/-- mirrors `impl From<ExtendedRcode> for Category` (arms from the extractor). -/
def Category.ofExtendedRcode (rcode : Nat) : Category :=
  match Gen.rrlCategoryCode rcode with
  | 0 => .NoError
  | 1 => .NxDomain
  | _ => .Error

/-- mirrors `enum Action` -/
inductive Action where
  | Send | Slip | Drop
  deriving DecidableEq, Repr, Inhabited

/-- mirrors `struct Key` -/
structure Key where
  dest : UInt64
  ipv6 : Bool
  qname_hash : UInt32
  category : Category
  deriving DecidableEq

/-- mirrors `struct Entry` -/
structure Entry where
  key : Key
  count : Nat          -- u32
  last_refill : Nat    -- Instant
  deriving DecidableEq

/-- mirrors `std::net::IpAddr`: an IPv4 address as a `u32`, an IPv6 address as the two halves of
    its `u128` (`hi` = the first eight octets). -/
inductive IpAddr where
  | v4 (a : UInt32)
  | v6 (hi lo : UInt64)
  deriving DecidableEq

def IpAddr.isIpv6 : IpAddr → Bool
  | .v4 _ => false
  | .v6 _ _ => true

/-- mirrors src/server/mod.rs `ReceivedInfo::new`: an IPv4-mapped IPv6 address
    (`octets[0..10] == 0`, `octets[10] == octets[11] == 0xff`) becomes the IPv4 address in its last
    four octets. -/
def ReceivedInfo.new (source : IpAddr) : IpAddr :=
  match source with
  | .v4 a => .v4 a
  | .v6 hi lo =>
    if hi = 0 ∧ lo >>> 32 = 0xFFFF then .v4 lo.toUInt32 else .v6 hi lo

inductive Transport where
  | Tcp | Udp
  deriving DecidableEq, Repr

/-- What RRL sees of the `Writer`: the TC bit, the three record counts, and whether an OPT / a
    TSIG record is reserved (`clear_rrs` keeps those two). -/
structure Resp where
  tc : Bool
  ancount : Nat
  nscount : Nat
  arcount : Nat
  edns : Bool
  tsig : Bool
  deriving DecidableEq

/-- mirrors src/message/writer.rs `Writer::clear_rrs` (counts only) -/
def Resp.clearRrs (r : Resp) : Resp :=
  { r with ancount := 0, nscount := 0,
           arcount := (if r.edns then 1 else 0) + (if r.tsig then 1 else 0) }

def Resp.setTc (r : Resp) (tc : Bool) : Resp := { r with tc }

/-- The fields of src/server/mod.rs `struct Context` that `process_response` uses. Names are
    wire-format octet strings. `source` is `received_info.source`, i.e. already canonicalised by
    `ReceivedInfo::new`. -/
structure Context where
  send_response : Bool
  transport : Transport
  opcode : Nat
  source : IpAddr
  extended_rcode : Nat
  question : Option (List UInt8)             -- `question.qname`
  source_of_synthesis : Option (List UInt8)
  response : Resp
  rrl_action : Option Action

/-- mirrors `fn subject_to_rrl` (opcode and transport from the extractor) -/
def subjectToRrl (c : Context) : Bool :=
  c.send_response
    && (decide (c.transport = .Udp) == Gen.RRL_LIMITED_TRANSPORT_IS_UDP)
    && decide (c.opcode = Gen.RRL_LIMITED_OPCODE)

/-- `RandomState`: the two uses of `hash_one`. `impl Hash for Name` feeds the lower-cased wire
    octets to the hasher, so the QNAME hash is a function of the lower-cased name. -/
structure RandomState where
  hashName : List UInt8 → UInt32      -- `hash_one(qname) as u32`, as a function of the lower-cased wire form
  hashKey : Key → Nat                 -- `hash_one(&key)` (u64)

def lowerName (n : List UInt8) : List UInt8 := n.map lowerU8

/-- mirrors `struct Rrl` (`buckets: Vec<Mutex<Entry>>` as a function on indices `< params.size`) -/
structure Rrl where
  params : RrlParams
  buckets : Nat → Entry

/-- the key every bucket holds after `Rrl::new` -/
def initialKey : Key := { dest := 0, ipv6 := false, qname_hash := 0, category := .NoError }

/-- mirrors `Rrl::new` (`now` = the `Instant::now()` taken there) -/
def Rrl.new (params : RrlParams) (now : Nat) : Rrl :=
  { params, buckets := fun _ => { key := initialKey, count := 0, last_refill := now } }

def Rrl.setBucket (r : Rrl) (idx : Nat) (e : Entry) : Rrl :=
  { r with buckets := fun j => if j = idx then e else r.buckets j }

/-- mirrors `Rrl::ip_to_dest_u64` -/
def ipToDestU64 (p : RrlParams) (ip : IpAddr) : UInt64 :=
  match ip with
  | .v4 a => (a &&& p.ipv4_netmask).toUInt64
  | .v6 hi _ => hi &&& p.ipv6_netmask

/-- `u32 * u32` in the dev profile -/
def u32Mul (a b : Nat) : Out Empty Nat := if a * b ≤ U32_MAX then .ok (a * b) else .panic

/-- mirrors `Rrl::rate_and_limit_for_category` -/
def rateAndLimitForCategory (p : RrlParams) (category : Category) : Out Empty (Nat × Nat) :=
  match category with
  | .NoError => do let l ← u32Mul p.noerror_rate p.window; pure (p.noerror_rate, l)
  | .NxDomain => do let l ← u32Mul p.nxdomain_rate p.window; pure (p.nxdomain_rate, l)
  | .Error => do let l ← u32Mul p.error_rate p.window; pure (p.error_rate, l)

/-- mirrors `Rrl::should_slip`; `rnd` = the outcome of `thread_rng().gen_range(0..slip) == 0` -/
def shouldSlip (p : RrlParams) (rnd : Bool) : Bool :=
  if p.slip = 0 then false else if p.slip = 1 then true else rnd

/-- `u64::saturating_mul` -/
def satMulU64 (a b : Nat) : Nat := if a * b ≤ U64_MAX then a * b else U64_MAX

/-- The refill of the current code:
    `(rate as u64).saturating_mul(since.as_secs()).min(u32::MAX as u64) as u32`. -/
def refillOf (rate secs : Nat) : Nat := (min (satMulU64 rate secs) U32_MAX) % (U32_MAX + 1)

/-- mirrors the critical section of `Rrl::process_response`: everything between
    `mutex.lock()` and the release of the guard, on the locked entry. -/
def processBucket (p : RrlParams) (key : Key) (category : Category) (entry : Entry) (now : Nat)
    (rnd : Bool) : Out Empty (Entry × Action) :=
  if entry.key = key then
    match rateAndLimitForCategory p category with
    | .panic => .panic
    | .err e => nomatch e
    | .ok (rate, limit) =>
      -- `now.duration_since(entry.last_refill)` saturates at zero
      let since_last_refill := now - entry.last_refill
      let refilled : Out Empty Entry :=
        if since_last_refill ≥ NANOS_PER_SEC then
          let refill := refillOf rate (since_last_refill / NANOS_PER_SEC)
          let subsec := since_last_refill % NANOS_PER_SEC
          -- `now.checked_sub(..).expect(..)`
          if subsec ≤ now then
            .ok { entry with count := entry.count - refill, last_refill := now - subsec }
          else .panic
        else .ok entry
      match refilled with
      | .panic => .panic
      | .err e => nomatch e
      | .ok entry =>
        if entry.count ≥ limit then
          if shouldSlip p rnd then .ok (entry, .Slip) else .ok (entry, .Drop)
        else if entry.count + 1 ≤ U32_MAX then   -- `entry.count += 1`
          .ok ({ entry with count := entry.count + 1 }, .Send)
        else .panic
  else
    -- hash collision: the old entry is forgotten
    .ok ({ key, count := 1, last_refill := now }, .Send)

/-- what `process_response` does to the context for each action -/
def applyAction (c : Context) : Action → Context
  | .Slip => { c with rrl_action := some .Slip, response := (c.response.clearRrs).setTc true }
  | .Drop => { c with rrl_action := some .Drop, send_response := false }
  | .Send => { c with rrl_action := some .Send }

/-- wire form of `Name::root()` -/
def ROOT_NAME : List UInt8 := [0]

/-- the `qname_hash` computation: source of synthesis, else the question's QNAME, else the root
    name (a NOERROR response without question exists: QDCOUNT = 0 request whose TSIG response does
    not fit, RFC 8945 §5.3). Before commit 2232f31 the last case was `question.unwrap()`, a
    panic; the extractor tells which of the two the source has. -/
def qnameHashOf (rs : RandomState) (category : Category) (c : Context) : Out Empty UInt32 :=
  if category = .NoError then
    match c.source_of_synthesis with
    | some s => .ok (rs.hashName (lowerName s))
    | none =>
      match c.question with
      | some q => .ok (rs.hashName (lowerName q))
      | none => if Gen.RRL_QNAME_FALLBACK_IS_ROOT then .ok (rs.hashName (lowerName ROOT_NAME)) else .panic
  else .ok 0

/-- the key of a response -/
def keyOf (rs : RandomState) (p : RrlParams) (c : Context) : Out Empty Key :=
  let category := Category.ofExtendedRcode c.extended_rcode
  match qnameHashOf rs category c with
  | .panic => .panic
  | .err e => nomatch e
  | .ok qname_hash =>
    .ok { dest := ipToDestU64 p c.source, ipv6 := c.source.isIpv6, qname_hash, category }

/-- mirrors `Rrl::process_response`. `now` is the instant read under the lock, `rnd` the random
    bit of `should_slip`. -/
def processResponse (rs : RandomState) (r : Rrl) (now : Nat) (rnd : Bool) (c : Context) :
    Out Empty (Rrl × Context) :=
  if !subjectToRrl c then .ok (r, c) else
  match keyOf rs r.params c with
  | .panic => .panic
  | .err e => nomatch e
  | .ok key =>
    if r.params.size = 0 then .panic else   -- `% self.buckets.len()`
    let idx := rs.hashKey key % r.params.size
    match processBucket r.params key key.category (r.buckets idx) now rnd with
    | .panic => .panic
    | .err e => nomatch e
    | .ok (entry, action) => .ok (r.setBucket idx entry, applyAction c action)

/-- mirrors the hook `Rrl::verif_shift` (feature `verif_hooks`): every `last_refill` moves `secs`
    seconds into the past. In the model, time is shifted forward instead (same differences), so
    this is only used by the driver to document the correspondence: see `Driver/Rrl.lean`. -/
def shiftNanos (secs : Nat) : Nat := secs * NANOS_PER_SEC

/-! ### the pre-fix refill (defect D10, repaired by commit a2294ed) — kept to state what was wrong -/

/-- `rate * since_last_refill.as_secs() as u32` in the dev profile: the cast truncates the
    seconds, the multiplication panics on overflow. -/
def refillOldDev (rate secs : Nat) : Out Empty Nat := u32Mul rate (secs % (U32_MAX + 1))

/-- the same in the release profile (wrapping multiplication) -/
def refillOldRelease (rate secs : Nat) : Nat := (rate * (secs % (U32_MAX + 1))) % (U32_MAX + 1)

end QV.Rrl
