/-
  QV.Model.Framing — the TCP framing loop shared by the blocking and the Tokio I/O provider, and
  their UDP step, as pure functions (DESIGN.md §6 C30).

  mirrors src/io/blocking.rs fn handle_tcp_connection (the inner `loop` that reads one message
  and the outer per-message loop) and src/io/tokio.rs fn handle_tcp_connection +
  fn read_message_over_tcp — the two are the same code up to `.await`:

      received_buf = vec![0; 2 + 65535];  n_read = 0
      loop {                                            -- per message
        received_len_opt = None
        received_len = loop {                           -- read_message_over_tcp
          if let Some(len) = received_len_opt { if n_read >= len + 2 { break len } }
          else if n_read >= 2 { len = be16(buf[0], buf[1]);
                                if n_read >= len + 2 { break len } else { received_len_opt = Some(len) } }
          n = socket.read(&mut buf[n_read..]);  if n == 0 { return }   -- peer closed
          n_read += n
        }
        match server.handle_message(&buf[2..len + 2]) {
          Single(r) => write(be16(r.len) ++ r),   None => return }     -- close
        if n_read > len + 2 { buf.copy_within(len + 2..n_read, 0); n_read -= len + 2 } else { n_read = 0 }
      }

  The network is a list of *segments*: what successive `read` calls can return (a `read` returns
  at most the free space of the buffer; the rest of the segment stays for the next `read`; when
  no segment is left the peer has closed and `read` returns 0).  The valid part of the buffer
  (`received_buf[0..n_read]`) is the list `buf`, so `n_read = buf.length`.
  Not modelled: the read timeout, write errors, shutdown (partial, see tools/props.py).
  Core Lean only (linked into the driver).
-/
namespace QV.Framing

/-- `2 + u16::MAX as usize`, the size of `received_buf` -/
def CAP : Nat := 2 + 65535

def be16 (a b : UInt8) : Nat := a.toNat * 256 + b.toNat

/-- two-octet length prefix + message (`response_buf[0..2 + response_len]`) -/
def frame (m : List UInt8) : List UInt8 :=
  UInt8.ofNat (m.length / 256) :: UInt8.ofNat (m.length % 256) :: m

def bytes (segs : List (List UInt8)) : Nat := (segs.map List.length).sum

/-- the length announced by the first two octets of the buffer, once they are there -/
def announced (buf : List UInt8) : Option Nat :=
  match buf with
  | a :: b :: _ => some (be16 a b)
  | _ => none

inductive ReadEnd where
  | msg (len : Nat)      -- a whole message of `len` octets is in the buffer
  | eof                  -- `read` returned 0 because the peer closed
  | full                 -- `read` returned 0 because the buffer had no room (proved unreachable)
  deriving DecidableEq, Repr

/-- `received_len_opt` after the top of the inner loop has looked at the buffer -/
def lenAfterLook (buf : List UInt8) (lenOpt : Option Nat) : Option Nat :=
  match lenOpt with
  | some len => some len
  | none => if buf.length ≥ 2 then announced buf else none

/-- `break received_len` -/
def ready (buf : List UInt8) (lenOpt' : Option Nat) : Option Nat :=
  match lenOpt' with
  | some len => if buf.length ≥ len + 2 then some len else none
  | none => none

/-- the segments left after a `read` took `n` octets of the first one -/
def afterRead (seg : List UInt8) (rest : List (List UInt8)) (n : Nat) : List (List UInt8) :=
  if seg.length > n then seg.drop n :: rest else rest

theorem bytes_afterRead (seg : List UInt8) (rest : List (List UInt8)) (n : Nat) (h1 : 0 < n) (h2 : n ≤ seg.length) :
    bytes (afterRead seg rest n) < bytes (seg :: rest) := by
  unfold afterRead bytes
  split <;> simp [List.length_drop] <;> omega

/-- `read_message_over_tcp`: returns how it ended, the buffer and the segments left.
    `lenOpt` is `received_len_opt`. -/
def readMessage (buf : List UInt8) (segs : List (List UInt8)) (lenOpt : Option Nat) :
    ReadEnd × List UInt8 × List (List UInt8) :=
  match ready buf (lenAfterLook buf lenOpt) with
  | some len => (.msg len, buf, segs)
  | none =>
    match segs with
    | [] => (.eof, buf, [])
    | seg :: rest =>
      -- `socket.read(&mut received_buf[n_read..])`
      if h : min seg.length (CAP - buf.length) = 0 then
        (if seg.length = 0 then (.eof, buf, segs) else (.full, buf, segs))
      else
        readMessage (buf ++ seg.take (min seg.length (CAP - buf.length)))
          (afterRead seg rest (min seg.length (CAP - buf.length))) (lenAfterLook buf lenOpt)
termination_by bytes segs
decreasing_by
  exact bytes_afterRead seg rest _ (by omega) (by omega)

inductive ConnEnd where
  | eof          -- the peer closed (possibly in the middle of a frame): return without answering
  | noResponse   -- `Response::None`: the connection is closed by the server
  | full         -- unreachable (see `ReadEnd.full`)
  | fuel         -- unreachable (the fuel below always suffices)
  deriving DecidableEq, Repr

/-- `handle_tcp_connection`: `handler` is `server.handle_message` on the message octets
    (`none` = `Response::None`).  Returns the octets written to the socket and why it returned. -/
def connLoop (handler : List UInt8 → Option (List UInt8)) :
    Nat → List UInt8 → List (List UInt8) → List UInt8 → List UInt8 × ConnEnd
  | 0, _, _, out => (out, .fuel)
  | fuel + 1, buf, segs, out =>
    match readMessage buf segs none with
    | (.eof, _, _) => (out, .eof)
    | (.full, _, _) => (out, .full)
    | (.msg len, buf', segs') =>
      match handler ((buf'.drop 2).take len) with
      | none => (out, .noResponse)
      | some r => connLoop handler fuel (buf'.drop (len + 2)) segs' (out ++ frame r)

/-- a connection on which the peer delivers `segs` and then closes -/
def conn (handler : List UInt8 → Option (List UInt8)) (segs : List (List UInt8)) : List UInt8 × ConnEnd :=
  connLoop handler (bytes segs + 1) [] segs []

/-! ### UDP (run_udp_worker / run_udp_receiver) -/

inductive UdpOut where
  | none                       -- `Response::None`: nothing is sent
  | send (d : List UInt8)      -- one datagram, to the request's source address
  | panic                      -- `&response_buf[0..response_len]` out of range (handler broke its size contract)
  deriving DecidableEq, Repr

/-- one received datagram: the request is what fits `received_buf` (`payload` octets); at most one
    response datagram is sent, and never one larger than `response_buf` (`payload` octets) -/
def udpStep (handler : List UInt8 → Option (List UInt8)) (payload : Nat) (dgram : List UInt8) : UdpOut :=
  match handler (dgram.take payload) with
  | none => .none
  | some r => if r.length ≤ payload then .send r else .panic

end QV.Framing
