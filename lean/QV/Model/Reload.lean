/-
  QV.Model.Reload — model of the daemon's zone (re)loading (layer 7).

  mirrors src/bin/quandaryd/zones.rs   (`load`, `reload`, `load_impl`, `check_mtime`,
                                        `make_error_catalog_entry`, struct `Metadata`)
          src/bin/quandaryd/run.rs     (`try_running`: initial `zones::load`;
                                        `reload_zones_and_keys` on SIGHUP: a configuration that
                                        cannot be loaded leaves the served catalog untouched)

  The file system and the zone-file parser/validator are abstracted (DESIGN.md §3.5: whatever
  the code reads from its environment is a parameter):

  * a path is a number; `fs.stat p` is the outcome of `fs::metadata(p).and_then(|m| m.modified())`:
    a modification time, an error whose kind is not `Unsupported` (missing file, permission …),
    or `Unsupported` (platform without mtimes);
  * `fs.load zc` is the outcome of `load_and_validate_zone(&zc)`: the zone data (identified by a
    number) or a failure (cannot open, parse error, record rejected by `zone.add`, validation
    errors). It may depend on the whole zone configuration (name, class, path), not just the path;
  * the catalog is the C22 model `QV.Catalog.Cat` with metadata `Meta = (path, mtime)`; a `Loaded`
    entry's `zone` field is the data id, its `name`/`cls` are the zone's apex and class, i.e. those
    of the configuration it was loaded for.

  Logging is not modelled. Core Lean + Std only.
-/
import QV.Model.Catalog

namespace QV.Reload
open QV QV.Catalog

/-- outcome of `fs::metadata(path).and_then(|m| m.modified())` -/
inductive MetaRes where
  | ok (mtime : Nat)
  | err            -- `Err(e)` with `e.kind() != ErrorKind::Unsupported`
  | unsupported    -- `Err(e)` with `e.kind() == ErrorKind::Unsupported`
  deriving Repr, DecidableEq, Inhabited

/-- outcome of `load_and_validate_zone` -/
inductive LoadRes where
  | ok (data : Nat)
  | fail
  deriving Repr, DecidableEq, Inhabited

/-- `config::ZoneConfig` (the glue policy only influences `fs.load`) -/
structure ZoneConfig where
  name : DName
  cls : Nat
  path : Nat
  deriving Repr, DecidableEq, Inhabited

/-- `zones::Metadata` -/
structure Meta where
  path : Nat
  mtime : Option Nat
  deriving Repr, DecidableEq, Inhabited

/-- the environment at the time of one (re)load -/
structure FS where
  stat : Nat → MetaRes
  load : ZoneConfig → LoadRes

abbrev Catalog := Cat Meta
abbrev CEntry := Entry Meta

/-- mirrors `make_error_catalog_entry`: the currently loaded entry if there is one, else a
    `FailedToLoad` placeholder -/
def makeErrorCatalogEntry (zc : ZoneConfig) (loaded : Option CEntry) : CEntry :=
  match loaded with
  | some e => e                                             -- loaded.cloned()
  | none => ⟨zc.name, zc.cls, .FailedToLoad, 0, ⟨zc.path, none⟩⟩

/-- `MtimeCheckResult` -/
inductive MtimeCheck where
  | load (mtime : Option Nat)
  | skip (entry : CEntry)
  deriving Repr, DecidableEq

/-- mirrors `check_mtime` -/
def checkMtime (fs : FS) (zc : ZoneConfig) (loadedZone : Option CEntry) : MtimeCheck :=
  match fs.stat zc.path with
  | .ok mtime =>
    match loadedZone with
    | some e =>
      if e.kind = .Loaded then                               -- Some(Entry::Loaded(zone, metadata))
        if e.md.path == zc.path &&
            (match e.md.mtime with                           -- .map(|lm| mtime <= lm).unwrap_or(false)
             | some loadedMtime => decide (mtime ≤ loadedMtime)
             | none => false) then
          .skip e                                            -- Entry::Loaded(zone.clone(), metadata.clone())
        else .load (some mtime)
      else .load (some mtime)
    | none => .load (some mtime)
  | .err => .skip (makeErrorCatalogEntry zc loadedZone)
  | .unsupported => .load none

/-- one iteration of the `for zone_config in zones` loop of `load_impl` -/
def loadOne (fs : FS) (loaded : Option Catalog) (catalog : Catalog) (zc : ZoneConfig) : Catalog :=
  -- loaded.and_then(|c| c.get(&zone_config.name.0, zone_config.class.0))
  let loadedZone := loaded.bind (fun c => get c zc.name zc.cls)
  match checkMtime fs zc loadedZone with
  | .skip entry => (insert catalog entry).1
  | .load mtime =>
    match fs.load zc with
    | .ok d => (insert catalog ⟨zc.name, zc.cls, .Loaded, d, ⟨zc.path, mtime⟩⟩).1
    | .fail => (insert catalog (makeErrorCatalogEntry zc loadedZone)).1

/-- mirrors `load_impl` -/
def loadImpl (fs : FS) (zones : List ZoneConfig) (loaded : Option Catalog) : Catalog :=
  zones.foldl (loadOne fs loaded) Cat.empty

/-- mirrors `zones::load` -/
def load (fs : FS) (zones : List ZoneConfig) : Catalog := loadImpl fs zones none

/-- mirrors `zones::reload` -/
def reload (fs : FS) (zones : List ZoneConfig) (loaded : Catalog) : Catalog :=
  loadImpl fs zones (some loaded)

/-! ### the daemon's history (src/bin/quandaryd/run.rs) -/

/-- one (re)load event: start-up or SIGHUP -/
inductive Step where
  /-- the configuration was read successfully; these zones, this environment -/
  | reload (zones : List ZoneConfig) (fs : FS)
  /-- `config::load_from_path` failed (unreadable, invalid TOML, a zone configured twice …):
      `reload_zones_and_keys` returns `Err` before touching the catalog -/
  | configError

/-- the catalog being served: `none` before the first successful load -/
def daemonStep (st : Option Catalog) : Step → Option Catalog
  | .reload zones fs =>
    match st with
    | none => some (load fs zones)                         -- try_running: zones::load(config.zones)
    | some c => some (reload fs zones c)                   -- reload_zones_and_keys
  | .configError => st

def daemonRun (steps : List Step) : Option Catalog := steps.foldl daemonStep none

/-! ### the signal loop of `try_running`, with its plumbing explicit

  `daemonStep` above takes for granted that the catalog a reload builds is (a) installed in the
  server and (b) the baseline of the *next* reload. In `run.rs` these are two separate pieces of
  plumbing: `server.set_catalog(..)` (what queries are answered from) and the local variable
  `catalog` of `try_running` (what `zones::reload` gets as `loaded`). `LoopShape` records how the
  source does the plumbing — its four fields are read off `run.rs` by tools/extract_reload.py on
  every run (`QV.Gen.reload…`) — and `loopStep` is the loop for an arbitrary shape. -/

/-- how `try_running` / `reload_zones_and_keys` plumb the catalog -/
structure LoopShape where
  /-- `server.set_catalog(catalog.clone())` after the start-up load -/
  startupInstalls : Bool
  /-- the `Ok(new_catalog)` arm assigns `catalog = new_catalog` -/
  threads : Bool
  /-- `server.set_catalog(new_catalog…)` on the success path of a reload -/
  installs : Bool
  /-- `zones::reload(zone_configs, catalog)` gets the variable `catalog` of the loop -/
  baselineIsCurrent : Bool
  deriving Repr, DecidableEq

/-- the shape the unchanged source has -/
def LoopShape.good : LoopShape := ⟨true, true, true, true⟩

/-- state of the daemon process -/
structure DState where
  /-- the catalog queries are answered from (`Server::set_catalog`); `none` before start-up -/
  served : Option Catalog
  /-- the variable `catalog` of `try_running`; `none` before start-up -/
  var : Option Catalog

/-- mirrors the start-up sequence and the `SIGHUP` arm of `try_running` for a loop of shape
    `sh`; `alt` stands for whatever catalog a loop with `baselineIsCurrent = false` would pass
    instead of its variable (nothing is assumed about it). -/
def loopStep (sh : LoopShape) (alt : Catalog) (st : DState) : Step → DState
  | .reload zones fs =>
    match st.var with
    | none =>
      -- let mut catalog = Arc::new(zones::load(config.zones)); server.set_catalog(catalog.clone());
      let c := load fs zones
      ⟨if sh.startupInstalls then some c else st.served, some c⟩
    | some v =>
      -- reload_zones_and_keys(&reload_source, &server, &catalog)
      let newCatalog := reload fs zones (if sh.baselineIsCurrent then v else alt)
      ⟨if sh.installs then some newCatalog else st.served,
       if sh.threads then some newCatalog else some v⟩
  | .configError => st                                    -- Err(e) => error!(…)

def loopRun (sh : LoopShape) (alt : Catalog) (steps : List Step) : DState :=
  steps.foldl (loopStep sh alt) ⟨none, none⟩

end QV.Reload
