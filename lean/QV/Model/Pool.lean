/-
  QV.Model.Pool — `ThreadGroup` / `ThreadPool` (src/thread.rs) as a nondeterministic transition
  system at lock granularity (DESIGN.md §6 C29).

  One group with one pool.  The state holds the two records protected by the two mutexes, the
  two mutexes themselves (who holds them), and one *local state* (program counter + the task it
  carries) per thread, for arbitrarily many threads; tasks are tracked individually by id.
  A step is one of

      arrive / call…     the environment starts a thread / an API call           (environment)
      acq t              thread t acquires the mutex it is waiting for
      spawn t            thread t (holding the group mutex) spawns a thread
      rel t              thread t runs the rest of its critical section and releases the mutex
                         or atomically releases it by waiting on a condition variable;
                         `notify_one`/`notify_all` issued in the section take effect here
      timeout t          the timeout of t's timed wait fires                      (time passes)
      spurious t         t wakes up although nobody notified it                  (environment)
      run t / fin t      t starts / finishes the task it took

  Every nondeterministic choice is carried by the label (`notify_one`'s target, whether a
  deadline has passed, whether the OS refuses to create a thread), so `next` is a *function*
  `State → Label → Option State`: the transition relation is `∃ l, next cfg s l = some s'`, and
  the driver validates a logged execution of the real code by folding `next` over it.

  `cfg.fixed = false` gives the transition system of the code before commit a7b63db
  (`if wait_result.timed_out() { available -= 1; return }`, defect D11): `stepBuggy`.

  mirrors src/thread.rs: ThreadGroup::{start_pool, shut_down, await_shutdown}, start_oneshot,
  start_respawnable, OneshotHandle::drop, RespawnableHandle::drop, end_thread,
  ThreadPool::{submit, submit_or_spawn, shut_down, shut_down_without_removing}, pool_worker_loop.

  Modelling decisions (also listed in tools/props.py):
    * mutexes: mutual exclusion, no fairness; condvars: Mesa semantics, waiter sets, spurious
      wake-ups, `notify_one` wakes exactly one waiter if there is one (nondeterministic which);
      a timed-out waiter has left the waiter set before it re-acquires the mutex;
    * submitters, shutters and awaiters are threads outside the group; tasks terminate and do not
      panic, and do not themselves call into the pool;
    * `ThreadPool::shut_down` is called at most once and not after/concurrently with
      `ThreadGroup::shut_down` (otherwise `Slab::remove` panics under the group mutex — observed,
      outside this property);
    * one pool per group.
  Core Lean only (linked into the driver).
-/
namespace QV.Pool

inductive WKind where
  | perm   -- permanent worker (a respawnable thread; waits untimed)
  | aux    -- lingering auxiliary worker (a one-shot thread; waits with the linger timeout)
  deriving DecidableEq, Repr, Inhabited

/-- thread-local state: program point at lock granularity, plus the task carried (`k`) -/
inductive Local where
  | idle                                   -- thread outside the group, not inside an API call
  | exited                                 -- group thread after `end_thread`
  -- ThreadGroup::start_pool(n permanent workers)
  | spWantG (n : Nat) | spInG (n : Nat)
  -- ThreadPool::submit(task k)
  | subWantP (k : Nat) | subInP (k : Nat) | subWait (k : Nat)
  -- ThreadPool::submit_or_spawn(task k)
  | sosWantP (k : Nat) | sosInP (k : Nat) | sosWantG (k : Nat) | sosInG (k : Nat) | sosInG2 (k : Nat)
  -- ThreadGroup::shut_down
  | shWantG | shInG | shInP | shInG2
  -- ThreadPool::shut_down
  | pshWantG | pshInG | pshWantP | pshInP
  -- ThreadGroup::await_shutdown
  | awWantG | awInG | awWait
  -- pool_worker_loop
  | wWantP (w : WKind)                       -- top of the outer loop
  | wInP (w : WKind) (reg : Bool) (to : Bool) -- holding P; `reg`: already counted in `available`; `to`: wait timed out
  | wWait (w : WKind)                        -- waiting on `task_wakeup` (timed iff `w = aux`)
  | wWoken (w : WKind) (to : Bool)           -- left the wait, re-acquiring P
  | wRun (w : WKind) (k : Nat)               -- popped task k, lock released, about to run it
  | wRunning (w : WKind) (k : Nat)
  -- auxiliary thread spawned by submit_or_spawn with task k
  | auxStart (k : Nat) | auxRunning (k : Nat)
  -- OneshotHandle::drop
  | endWantG | endInG
  -- RespawnableHandle::drop (`first`: the throttling wait has not happened yet)
  | rhWantG (first : Bool) | rhInG (first : Bool) | rhInG2 | rhWait
  deriving DecidableEq, Repr, Inhabited

/-- where a task is (ghost) -/
inductive Status where
  | pending (t : Nat)    -- being submitted by thread t, not yet accepted or rejected
  | queued               -- accepted: in the pool's queue
  | handed (t : Nat)     -- accepted: popped by worker t / handed to the new auxiliary thread t
  | running (t : Nat)
  | done
  | rejected
  deriving DecidableEq, Repr, Inhabited

/-- forward order of statuses -/
def Status.rank : Status → Nat
  | .pending _ => 0 | .queued => 1 | .handed _ => 2 | .running _ => 3 | .done => 4 | .rejected => 5

def Status.accepted : Status → Bool
  | .queued | .handed _ | .running _ | .done => true
  | _ => false

structure Cfg where
  linger : Bool    -- `linger_timeout` non-zero
  fixed : Bool     -- commit a7b63db applied (the code as it is now)
  deriving DecidableEq, Repr

structure State where
  threads : List Local
  gLock : Option Nat          -- holder of `ThreadGroup::records`
  pLock : Option Nat          -- holder of `ThreadPool::records`
  -- GroupRecords
  threadCount : Nat
  gShutting : Bool
  hasPool : Bool              -- the pool is in `GroupRecords::pools`
  -- PoolRecords
  queue : List Nat
  available : Nat
  pShutting : Bool
  -- ghost
  stale : Nat                 -- workers that returned on shutdown without decrementing `available`
  tasks : List Status
  runs : List Nat             -- how often each task has been started
  poolStarted : Bool
  poolReady : Bool            -- start_pool has returned
  shCalled : Bool             -- ThreadGroup::shut_down has been called
  pshCalled : Bool            -- ThreadPool::shut_down has been called
  shDone : Bool               -- some ThreadGroup::shut_down call has returned
  deriving Repr

def init : State :=
  { threads := [], gLock := none, pLock := none, threadCount := 0, gShutting := false, hasPool := false,
    queue := [], available := 0, pShutting := false, stale := 0, tasks := [], runs := [],
    poolStarted := false, poolReady := false, shCalled := false, pshCalled := false, shDone := false }

inductive Label where
  | arrive
  | callStartPool (t n : Nat)
  | callSubmit (t : Nat)
  | callSos (t : Nat)
  | callShutdown (t : Nat)
  | callPoolShutdown (t : Nat)
  | callAwait (t : Nat)
  | acq (t : Nat)
  | spawn (t : Nat) (fails : Bool)
  /-- `target`: the waiter chosen by the `notify_one` issued in this section (if any);
      `flag`: worker — the linger deadline has already passed; respawn handle — throttle -/
  | rel (t : Nat) (target : Option Nat) (flag : Bool)
  | timeout (t : Nat)
  | spurious (t : Nat)
  | run (t : Nat)
  | fin (t : Nat)
  deriving DecidableEq, Repr

/-! ### condition variables -/

def isWWait : Local → Bool | .wWait _ => true | _ => false
def isSubWait : Local → Bool | .subWait _ => true | _ => false

/-- `task_wakeup.notify_all()` -/
def wakeTask : Local → Local
  | .wWait w => .wWoken w false
  | l => l

/-- `available_wakeup.notify_all()` -/
def wakeAvail : Local → Local
  | .subWait k => .subWantP k
  | l => l

/-- `shutdown_wakeup.notify_all()` -/
def wakeShut : Local → Local
  | .awWait => .awWantG
  | .rhWait => .rhWantG false
  | l => l

/-- `cv.notify_one()`: `target = some u` must be a waiter of that condvar; `none` is allowed only
    when nobody waits (no lost notification) -/
def notifyOne (isW : Local → Bool) (wake : Local → Local) (ths : List Local) (target : Option Nat) :
    Option (List Local) :=
  match target with
  | none => if ths.countP isW = 0 then some ths else none
  | some u =>
    match ths[u]? with
    | some l => if isW l then some (ths.set u (wake l)) else none
    | none => none

/-! ### the step function -/

def State.setT (s : State) (t : Nat) (l : Local) : State := { s with threads := s.threads.set t l }

def setStatus (ts : List Status) (k : Nat) (st : Status) : List Status := ts.set k st

/-- `end_thread` -/
def endThread (s : State) : State :=
  let c := s.threadCount - 1
  { s with threadCount := c,
           threads := if s.gShutting && c == 0 then s.threads.map wakeShut else s.threads }

def nextAcq (s : State) (t : Nat) : Option State :=
  match s.threads[t]? with
  | none => none
  | some l =>
    let takeG (l' : Local) : Option State :=
      if s.gLock.isNone then some { s.setT t l' with gLock := some t } else none
    let takeP (l' : Local) : Option State :=
      if s.pLock.isNone then some { s.setT t l' with pLock := some t } else none
    match l with
    | .spWantG n => takeG (.spInG n)
    | .subWantP k => takeP (.subInP k)
    | .sosWantP k => takeP (.sosInP k)
    | .sosWantG k => takeG (.sosInG k)
    | .shWantG => takeG .shInG
    -- `records.shutting_down = true; for pool in records.pools.drain() { pool.shut_down_without_removing() }`
    | .shInG =>
      if s.hasPool && s.pLock.isNone then
        some { s.setT t .shInP with pLock := some t, gShutting := true, hasPool := false }
      else none
    | .pshWantG => takeG .pshInG
    | .pshWantP => takeP .pshInP
    | .awWantG => takeG .awInG
    | .wWantP w => takeP (.wInP w false false)
    | .wWoken w to => takeP (.wInP w true to)
    | .endWantG => takeG .endInG
    | .rhWantG f => takeG (.rhInG f)
    | _ => none

def nextSpawn (s : State) (t : Nat) (fails : Bool) : Option State :=
  match s.threads[t]? with
  | none => none
  | some l =>
    match l with
    -- start_pool_workers: one `start_respawnable` per permanent worker
    | .spInG (n + 1) =>
      if fails then none else
      some { s with threads := (s.threads.set t (.spInG n)) ++ [.wWantP .perm], threadCount := s.threadCount + 1 }
    -- submit_or_spawn → group.start_oneshot
    | .sosInG k =>
      if s.gShutting then none
      else if fails then some { s.setT t (.sosInG2 k) with tasks := setStatus s.tasks k .rejected }
      else some { s with threads := (s.threads.set t (.sosInG2 k)) ++ [.auxStart k],
                         threadCount := s.threadCount + 1,
                         tasks := setStatus s.tasks k (.handed s.threads.length) }
    -- RespawnableHandle::drop: `if !records.shutting_down { start_respawnable(..) }`
    | .rhInG _ =>
      if s.gShutting then none
      else if fails then some (s.setT t .rhInG2)
      else some { s with threads := (s.threads.set t .rhInG2) ++ [.wWantP .perm], threadCount := s.threadCount + 1 }
    | _ => none

/-- the worker's critical section (pool_worker_loop lines 547–584), without the effect of
    `available_wakeup.notify_one()` on the woken submitter -/
def relWorkerBody (cfg : Cfg) (s : State) (t : Nat) (w : WKind) (reg to : Bool) (deadline : Bool) : State :=
  -- `records.available_workers += 1;` on entry to the outer loop
  let s1 : State := { s with pLock := none, available := if reg then s.available else s.available + 1 }
  let ret : Local := match w with | .perm => .rhWantG true | .aux => .endWantG
  -- `if wait_result.timed_out() && records.queue.is_empty()`  (before a7b63db: `if wait_result.timed_out()`)
  if reg && to && (!cfg.fixed || s1.queue.isEmpty) then
    { s1.setT t ret with available := s1.available - 1 }
  else
    match s1.queue with
    | k :: q =>
      { s1.setT t (.wRun w k) with queue := q, available := s1.available - 1,
                                   tasks := setStatus s1.tasks k (.handed t) }
    | [] =>
      if s1.pShutting then { s1.setT t ret with stale := s1.stale + 1 }
      else if w == .aux && deadline then { s1.setT t ret with available := s1.available - 1 }
      else s1.setT t (.wWait w)

def relWorker (cfg : Cfg) (s : State) (t : Nat) (w : WKind) (reg to : Bool) (target : Option Nat) (deadline : Bool) :
    Option State :=
  let s2 := relWorkerBody cfg s t w reg to deadline
  -- `pool.available_wakeup.notify_one();` (issued right after the increment; the woken submitter
  -- cannot proceed before the mutex is released, so its position in the section is immaterial)
  if reg then (if target.isNone then some s2 else none)
  else (notifyOne isSubWait wakeAvail s2.threads target).map fun ths => { s2 with threads := ths }

/-- `records.queue.push_back(task); self.task_wakeup.notify_one();` -/
def pushTask (s : State) (t k : Nat) (target : Option Nat) : Option State :=
  (notifyOne isWWait wakeTask (s.threads.set t .idle) target).map fun ths =>
    { s with threads := ths, queue := s.queue ++ [k], tasks := setStatus s.tasks k .queued, pLock := none }

def nextRel (cfg : Cfg) (s : State) (t : Nat) (target : Option Nat) (flag : Bool) : Option State :=
  match s.threads[t]? with
  | none => none
  | some l =>
    let noTarget (r : Option State) : Option State := if target.isNone then r else none
    match l with
    | .spInG 0 => noTarget (some { s.setT t .idle with gLock := none, hasPool := true, poolReady := true })
    | .subInP k =>
      if s.pShutting then
        noTarget (some { s.setT t .idle with pLock := none, tasks := setStatus s.tasks k .rejected })
      else if s.available > s.queue.length then pushTask s t k target
      else noTarget (some { s.setT t (.subWait k) with pLock := none })
    | .sosInP k =>
      if s.pShutting then
        noTarget (some { s.setT t .idle with pLock := none, tasks := setStatus s.tasks k .rejected })
      else if s.available > s.queue.length then pushTask s t k target
      else noTarget (some { s.setT t (.sosWantG k) with pLock := none })
    -- start_oneshot refused: the group is shutting down
    | .sosInG k =>
      if s.gShutting then
        noTarget (some { s.setT t .idle with gLock := none, tasks := setStatus s.tasks k .rejected })
      else none
    | .sosInG2 _ => noTarget (some { s.setT t .idle with gLock := none })
    -- group shut_down when the pool was already removed: `self.shutdown_wakeup.notify_all()`
    | .shInG =>
      if s.hasPool then none
      else noTarget (some { s with threads := (s.threads.set t .idle).map wakeShut, gLock := none,
                                   gShutting := true, shDone := true })
    -- shut_down_without_removing
    | .shInP =>
      noTarget (some { s with threads := ((s.threads.set t .shInG2).map wakeTask).map wakeAvail,
                              pLock := none, pShutting := true })
    | .shInG2 =>
      noTarget (some { s with threads := (s.threads.set t .idle).map wakeShut, gLock := none, shDone := true })
    | .pshInG =>
      if s.hasPool then noTarget (some { s.setT t .pshWantP with gLock := none, hasPool := false })
      else none   -- `Slab::remove` panics: excluded by the environment assumption
    | .pshInP =>
      noTarget (some { s with threads := ((s.threads.set t .idle).map wakeTask).map wakeAvail,
                              pLock := none, pShutting := true })
    -- `wait_while(records, |r| !r.shutting_down || r.thread_count > 0)`
    | .awInG =>
      if s.gShutting && s.threadCount == 0 then noTarget (some { s.setT t .idle with gLock := none })
      else noTarget (some { s.setT t .awWait with gLock := none })
    | .wInP w reg to => relWorker cfg s t w reg to target flag
    | .endInG => noTarget (some (endThread { s.setT t .exited with gLock := none }))
    | .rhInG first =>
      if s.gShutting then noTarget (some (endThread { s.setT t .exited with gLock := none }))
      -- throttled respawn: `shutdown_wakeup.wait_timeout(records, wait_for)`
      else if first && flag then noTarget (some { s.setT t .rhWait with gLock := none })
      else none  -- must `spawn` first
    | .rhInG2 => noTarget (some (endThread { s.setT t .exited with gLock := none }))
    | _ => none

def nextTimeout (s : State) (t : Nat) : Option State :=
  match s.threads[t]? with
  | some (.wWait .aux) => some (s.setT t (.wWoken .aux true))
  | some .rhWait => some (s.setT t (.rhWantG false))
  | _ => none

def nextSpurious (s : State) (t : Nat) : Option State :=
  match s.threads[t]? with
  | some (.wWait w) => some (s.setT t (.wWoken w false))
  | some (.subWait k) => some (s.setT t (.subWantP k))
  | some .awWait => some (s.setT t .awWantG)
  | some .rhWait => some (s.setT t (.rhWantG false))
  | _ => none

def bump (rs : List Nat) (k : Nat) : List Nat := rs.set k (rs[k]?.getD 0 + 1)

def nextRun (s : State) (t : Nat) : Option State :=
  match s.threads[t]? with
  | some (.wRun w k) =>
    some { s.setT t (.wRunning w k) with tasks := setStatus s.tasks k (.running t), runs := bump s.runs k }
  | some (.auxStart k) =>
    some { s.setT t (.auxRunning k) with tasks := setStatus s.tasks k (.running t), runs := bump s.runs k }
  | _ => none

def nextFin (cfg : Cfg) (s : State) (t : Nat) : Option State :=
  match s.threads[t]? with
  | some (.wRunning w k) => some { s.setT t (.wWantP w) with tasks := setStatus s.tasks k .done }
  | some (.auxRunning k) =>
    some { s.setT t (if cfg.linger then .wWantP .aux else .endWantG) with tasks := setStatus s.tasks k .done }
  | _ => none

def isIdle (s : State) (t : Nat) : Bool := s.threads[t]? == some .idle

/-- a pool shutter that has not yet removed the pool from the group -/
def isPshEarly : Local → Bool | .pshWantG | .pshInG => true | _ => false

def next (cfg : Cfg) (s : State) : Label → Option State
  | .arrive => some { s with threads := s.threads ++ [.idle] }
  | .callStartPool t n =>
    if isIdle s t && !s.poolStarted then some { s.setT t (.spWantG n) with poolStarted := true } else none
  | .callSubmit t =>
    if isIdle s t && s.poolReady then
      some { s.setT t (.subWantP s.tasks.length) with tasks := s.tasks ++ [.pending t], runs := s.runs ++ [0] }
    else none
  | .callSos t =>
    if isIdle s t && s.poolReady then
      some { s.setT t (.sosWantP s.tasks.length) with tasks := s.tasks ++ [.pending t], runs := s.runs ++ [0] }
    else none
  | .callShutdown t =>
    -- environment assumption: not while a `ThreadPool::shut_down` call has yet to remove the pool
    if isIdle s t && s.poolReady && s.threads.countP isPshEarly = 0 then some { s.setT t .shWantG with shCalled := true } else none
  | .callPoolShutdown t =>
    -- environment assumption: at most once, and not after `ThreadGroup::shut_down` was called
    if isIdle s t && s.poolReady && !s.pshCalled && !s.shCalled then
      some { s.setT t .pshWantG with pshCalled := true }
    else none
  | .callAwait t => if isIdle s t then some (s.setT t .awWantG) else none
  | .acq t => nextAcq s t
  | .spawn t fails => nextSpawn s t fails
  | .rel t target flag => nextRel cfg s t target flag
  | .timeout t => nextTimeout s t
  | .spurious t => nextSpurious s t
  | .run t => nextRun s t
  | .fin t => nextFin cfg s t

/-- the transition relation of the code as it is now (`cfg.fixed = true`) or before a7b63db -/
def Step (cfg : Cfg) (s s' : State) : Prop := ∃ l, next cfg s l = some s'

inductive Reachable (cfg : Cfg) : State → Prop where
  | init : Reachable cfg init
  | step {s s'} : Reachable cfg s → Step cfg s s' → Reachable cfg s'

/-- run a list of labels (trace validation; witnesses) -/
def runLabels (cfg : Cfg) : State → List Label → Option State
  | s, [] => some s
  | s, l :: ls => match next cfg s l with
    | some s' => runLabels cfg s' ls
    | none => none

/-- pure environment steps: arrivals of threads and API calls, spurious wake-ups -/
def Label.isEnv : Label → Bool
  | .arrive | .callStartPool _ _ | .callSubmit _ | .callSos _ | .callShutdown _ | .callPoolShutdown _
  | .callAwait _ | .spurious _ => true
  | _ => false

end QV.Pool
