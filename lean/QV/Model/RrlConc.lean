/-
  QV.Model.RrlConc — the locking discipline of `Rrl::process_response` as a transition system
  (C28). src/server/rrl.rs:364-411: `let mut entry = mutex.lock().unwrap();` … read, refill,
  compare, increment through the guard … guard dropped at the end of the function.

  Threads interleave at the granularity of four instructions; `lock` is enabled only while the
  mutex is free. What is *assumed* (not modelled): that `std::sync::Mutex` provides mutual
  exclusion and the memory ordering that makes the previous holder's writes visible; that a
  thread is never cancelled between `lock` and `unlock` (no panic there: C26_never_panics).

  Core Lean only.
-/
import QV.Model.Rrl

namespace QV.Rrl.Conc
open QV QV.Rrl

/-- what a worker does with the bucket of its response -/
inductive Instr where
  | lock     -- `mutex.lock()`: enabled only while nobody holds the mutex
  | read     -- read the clock and the entry, compute refill / comparison / new entry and action
  | write    -- store the new entry; the response's fate is decided
  | unlock   -- the guard is dropped
  deriving DecidableEq, Repr

/-- `process_response` as written -/
def progLocked : List Instr := [.lock, .read, .write, .unlock]

/-- a broken variant, for contrast: the guard is dropped between the read and the write -/
def progSplit : List Instr := [.lock, .read, .unlock, .lock, .write, .unlock]

structure Thread where
  pc : Nat
  snap : Option (Entry × Action)
  deriving DecidableEq

/-- what thread `i` gets from its environment: the instant it reads, its `should_slip` draw -/
structure Input where
  now : Nat
  rnd : Bool

/-- the fixed part of a burst: configuration, the (common) key, the code every thread runs,
    and the per-thread inputs -/
structure Env where
  p : RrlParams
  key : Key
  prog : List Instr
  inputs : Nat → Input

/-- shared state: the mutex (its owner), the bucket entry it protects, the threads, and the
    observed outcomes so far -/
structure State where
  lock : Option Nat
  entry : Entry
  threads : List Thread
  sent : Nat
  slipped : Nat
  dropped : Nat

def State.count (s : State) (a : Action) : State :=
  match a with
  | .Send => { s with sent := s.sent + 1 }
  | .Slip => { s with slipped := s.slipped + 1 }
  | .Drop => { s with dropped := s.dropped + 1 }

/-- thread `i` executes its next instruction; `none` if it is not enabled -/
def step (env : Env) (s : State) (i : Nat) : Option State :=
  match s.threads[i]? with
  | none => none
  | some t =>
    match env.prog[t.pc]? with
    | none => none
    | some .lock =>
      if s.lock = none then
        some { s with lock := some i, threads := s.threads.set i { t with pc := t.pc + 1 } }
      else none
    | some .read =>
      match processBucket env.p env.key env.key.category s.entry (env.inputs i).now (env.inputs i).rnd with
      | .ok r => some { s with threads := s.threads.set i { pc := t.pc + 1, snap := some r } }
      | _ => none
    | some .write =>
      match t.snap with
      | some (e, a) =>
        some ({ s with entry := e, threads := s.threads.set i { t with pc := t.pc + 1 } }.count a)
      | none => none
    | some .unlock =>
      if s.lock = some i then
        some { s with lock := none, threads := s.threads.set i { t with pc := t.pc + 1 } }
      else none

/-- a schedule: which thread moves next -/
def exec (env : Env) : State → List Nat → Option State
  | s, [] => some s
  | s, i :: rest =>
    match step env s i with
    | some s' => exec env s' rest
    | none => none

/-- `n` threads about to handle one response each, the bucket holding `e₀` -/
def init (e₀ : Entry) (n : Nat) : State :=
  { lock := none, entry := e₀, threads := List.replicate n { pc := 0, snap := none },
    sent := 0, slipped := 0, dropped := 0 }

/-- every thread has run its code to the end -/
def finished (env : Env) (s : State) : Prop := ∀ t ∈ s.threads, t.pc = env.prog.length

end QV.Rrl.Conc
