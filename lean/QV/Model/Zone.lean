/-
  QV.Model.Zone — model of the in-memory zone store (layer 4).

  mirrors src/db/hash_map_tree/zone.rs (`HashMapTreeZone`: `add`, `lookup_base`, `lookup_impl`,
  `lookup`, `lookup_addrs`, `lookup_all`, `soa`, `ns`, `iter_by_node`, `iter_by_rrset`),
  src/db/hash_map_tree/node.rs (`Node`, `get_or_create_descendant`, `Iter`),
  src/db/rrset.rs (`RrsetList::{add, lookup, iter}`) and
  src/rr/rdata_set.rs (`RdataSetOwned::insert`).

  Conventions
  * names are case-folded label lists (`QV.NameL`); a node does not store its name: the name of
    the node reached by the labels `p` (top-down) below a node named `nm` is `p.reverse ++ nm`,
    which is what `Node::new(name.superdomain(level - 1))` stores (up to letter case).
  * `HashMap<LabelBuf, Node>` = association list keyed by the folded label (GUIDE: iteration
    order unspecified ⇒ iteration results are stated up to permutation and printed sorted).
  * the walk of `get_or_create_descendant` / `lookup_impl` indexes `name[level - 1]` with `level`
    counting down: the labels below the apex are visited right-to-left. `relPath` is that
    sequence; the recursion is structural in it.
  * `RrsetList` is a `Vec<Rrset>` kept sorted by `rr_type` and searched by
    `binary_search_by_key`. On a list strictly sorted by type (invariant `Sorted`, established
    by `add`, the only mutator — lemma `rrsetsAdd_sorted`) binary search is: the element with that
    type if there is one (`Ok(index)`), otherwise the position of the first larger type
    (`Err(index)`); `rrsetsAdd` / `lookupRrset` are written as that linear scan.
  * RDATA equality (`Rdata::equals`) is the parameter `eqv` (C19 models it).
-/
import QV.Model.ZoneTypes

namespace QV.Zone
open QV QV.NameL

/-- `node::Node<NodeData>` without the redundant `name` field -/
inductive Node where
  | mk (rrsets : List Rrset) (children : List (Label × Node))
  deriving Repr, Inhabited

def Node.rrsets : Node → List Rrset
  | .mk r _ => r

def Node.children : Node → List (Label × Node)
  | .mk _ c => c

/-- `Node::new` -/
def Node.empty : Node := .mk [] []

/-- `HashMapTreeZone` -/
structure Zone where
  apex : Name
  cls : Nat
  glue : GluePolicy
  root : Node
  deriving Repr, Inhabited

/-- `HashMapTreeZone::new` -/
def Zone.new (apex : Name) (cls : Nat) (glue : GluePolicy) : Zone := ⟨apex, cls, glue, .empty⟩

/-! ### hash map of children -/

/-- `HashMap::get` -/
def childGet : List (Label × Node) → Label → Option Node
  | [], _ => none
  | (k, v) :: rest, l => if k = l then some v else childGet rest l

/-- write-back of `HashMap::entry(key).or_insert_with(..)` after the entry was modified -/
def childSet : List (Label × Node) → Label → Node → List (Label × Node)
  | [], l, n => [(l, n)]
  | (k, v) :: rest, l, n => if k = l then (k, n) :: rest else (k, v) :: childSet rest l n

/-! ### RrsetList, RdataSetOwned -/

/-- `RrsetList::lookup` -/
def lookupRrset : List Rrset → Nat → Option Rrset
  | [], _ => none
  | s :: rest, t => if s.rtype = t then some s else lookupRrset rest t

/-- `RdataSetOwned::insert`: skip the new RDATA if `rdata.equals(existing, class, rr_type)` for
    some stored one, else append -/
def rdataInsert (eqv : Eqv) (cls t : Nat) (rdatas : List Rdata) (rd : Rdata) : List Rdata :=
  if rdatas.any (fun e => eqv cls t rd e) then rdatas else rdatas ++ [rd]

/-- `RrsetList::add` -/
def rrsetsAdd (eqv : Eqv) (cls t ttl : Nat) (rd : Rdata) : List Rrset → Except AddErr (List Rrset)
  | [] => .ok [⟨t, ttl, [rd]⟩]                         -- Err(index): insert at the end
  | s :: rest =>
    if s.rtype = t then                                -- Ok(index)
      if s.ttl ≠ ttl then .error .TtlMismatch
      else .ok (⟨s.rtype, s.ttl, rdataInsert eqv cls t s.rdatas rd⟩ :: rest)
    else if t < s.rtype then .ok (⟨t, ttl, [rd]⟩ :: s :: rest)   -- Err(index): insert here
    else match rrsetsAdd eqv cls t ttl rd rest with
      | .ok r => .ok (s :: r)
      | .error e => .error e

/-! ### add -/

/-- labels of `name` below a zone whose apex has `apexLen` labels, in the order the tree walk
    consumes them (`name[level-1]`, `name[level-2]`, …, `name[0]`) -/
def relPath (apexLen : Nat) (name : Name) : List Label :=
  (name.take (name.length - apexLen)).reverse

/-- `self.apex.get_or_create_descendant(owner, level)` followed by
    `node.data.rrsets.add(class, rr_type, ttl, rdata)` on the node reached. Every node on the way
    is created (`entry().or_insert_with(Node::new)`) *before* the RRset list is consulted, so the
    returned tree may differ from the argument even when the result is an error. -/
def addAt (eqv : Eqv) (cls t ttl : Nat) (rd : Rdata) : Node → List Label → Node × Option AddErr
  | .mk rrsets children, [] =>
    match rrsetsAdd eqv cls t ttl rd rrsets with
    | .ok rr' => (.mk rr' children, none)
    | .error e => (.mk rrsets children, some e)
  | .mk rrsets children, l :: rest =>
    let r := addAt eqv cls t ttl rd ((childGet children l).getD .empty) rest
    (.mk rrsets (childSet children l r.1), r.2)

/-- `HashMapTreeZone::add` as a state transformer: the zone afterwards and the `Err`, if any -/
def addM (eqv : Eqv) (z : Zone) (r : Rec) : Zone × Option AddErr :=
  if !eqOrSubdomainOf r.owner z.apex then (z, some .NotInZone)
  else if r.cls ≠ z.cls then (z, some .ClassMismatch)
  else
    let res := addAt eqv r.cls r.rtype r.ttl r.rdata z.root (relPath z.apex.length r.owner)
    ({ z with root := res.1 }, res.2)

/-- `HashMapTreeZone::add` -/
def add (eqv : Eqv) (z : Zone) (r : Rec) : Out AddErr Zone :=
  match addM eqv z r with
  | (z', none) => .ok z'
  | (_, some e) => .err e

/-- the zone after a sequence of `add` calls (failed ones included, as the caller sees it) -/
def build (eqv : Eqv) (z : Zone) (rs : List Rec) : Zone :=
  rs.foldl (fun z r => (addM eqv z r).1) z

/-! ### lookups -/

/-- `lookup_impl(node, name, level, search_below_cuts, at_apex)`; `nm` = `node.name`,
    `path` = the `level` labels still to be matched. -/
def lookupImpl (sbc : Bool) : Node → Name → List Label → Bool → Base
  | .mk rrsets children, nm, path, atApex =>
    -- "If the node has an NS record, that triggers a referral—even when the node is the target"
    match (if !atApex && !sbc then lookupRrset rrsets Gen.T_NS else none) with
    | some ns => .referral nm ns
    | none =>
      match path with
      | [] => .found rrsets none                                   -- level == 0
      | l :: rest =>
        match childGet children l with
        | some sub => lookupImpl sbc sub (l :: nm) rest false
        | none =>
          match childGet children asterisk with
          | some w => .found w.rrsets (some (asterisk :: nm))      -- source of synthesis
          | none => .nxDomain

/-- `lookup_base`. `name.len() - self.name().len()` is a `usize` subtraction: with `unchecked`
    and a name shorter than the apex it overflows, which panics in the dev profile. -/
def lookupBase (z : Zone) (name : Name) (o : Opts) : Out Unit Base :=
  if !o.unchecked && !eqOrSubdomainOf name z.apex then .ok .wrongZone
  else if name.length < z.apex.length then .panic
  else .ok (lookupImpl o.searchBelowCuts z.root z.apex (relPath z.apex.length name) true)

/-- `Zone::lookup` -/
def lookup (z : Zone) (name : Name) (t : Nat) (o : Opts) : Out Unit LookupResult :=
  match lookupBase z name o with
  | .ok (.found rrsets sos) =>
    match lookupRrset rrsets t with
    | some s => .ok (.found s sos)
    | none =>
      match lookupRrset rrsets Gen.T_CNAME with
      | some c => .ok (.cname c sos)
      | none => .ok (.noRecords sos)
  | .ok (.referral c ns) => .ok (.referral c ns)
  | .ok .nxDomain => .ok .nxDomain
  | .ok .wrongZone => .ok .wrongZone
  | .err e => .err e
  | .panic => .panic

/-- `Zone::lookup_addrs` -/
def lookupAddrs (z : Zone) (name : Name) (o : Opts) : Out Unit AddrsResult :=
  match lookupBase z name o with
  | .ok (.found rrsets sos) =>
    .ok (.found (lookupRrset rrsets Gen.T_A)
          (if z.cls = Gen.CLASS_IN then lookupRrset rrsets Gen.T_AAAA else none) sos)
  | .ok (.referral c ns) => .ok (.referral c ns)
  | .ok .nxDomain => .ok .nxDomain
  | .ok .wrongZone => .ok .wrongZone
  | .err e => .err e
  | .panic => .panic

/-- `Zone::lookup_all` -/
def lookupAll (z : Zone) (name : Name) (o : Opts) : Out Unit AllResult :=
  match lookupBase z name o with
  | .ok (.found rrsets sos) => .ok (.found rrsets sos)
  | .ok (.referral c ns) => .ok (.referral c ns)
  | .ok .nxDomain => .ok .nxDomain
  | .ok .wrongZone => .ok .wrongZone
  | .err e => .err e
  | .panic => .panic

/-- `Zone::soa` (overridden by `HashMapTreeZone`) -/
def soa (z : Zone) : Option Rrset := lookupRrset z.root.rrsets Gen.T_SOA

/-- `Zone::ns` -/
def ns (z : Zone) : Option Rrset := lookupRrset z.root.rrsets Gen.T_NS

/-! ### iteration -/

mutual
/-- `Node::iter` (`node::Iter`): the node, then each child's subtree (pre-order; the order among
    children is the hash map's) -/
def Node.iter : Node → Name → List (Name × List Rrset)
  | .mk rrsets children, nm => (nm, rrsets) :: iterChildren children nm
def iterChildren : List (Label × Node) → Name → List (Name × List Rrset)
  | [], _ => []
  | (l, c) :: rest, nm => c.iter (l :: nm) ++ iterChildren rest nm
end

/-- `iter_by_node` -/
def iterByNode (z : Zone) : List (Name × List Rrset) := z.root.iter z.apex

/-- `iter_by_rrset` -/
def iterByRrset (z : Zone) : List (Name × Rrset) :=
  (iterByNode z).flatMap (fun p => p.2.map (fun s => (p.1, s)))

/-- abstraction: the records stored in the zone, one per (owner, type, RDATA) -/
def abs (z : Zone) : List Rec :=
  (iterByRrset z).flatMap (fun p => p.2.rdatas.map (fun rd => ⟨p.1, p.2.rtype, z.cls, p.2.ttl, rd⟩))

end QV.Zone
