/-
  QV.Model.RdataSet — model of `src/rr/rdata_set.rs` (`RdataSet`, `RdataSetOwned`, `Iter`).

  `inner: Vec<u8>` is a `List UInt8`: each member is a 2-octet length prefix
  (`(rdata.len() as u16).to_ne_bytes()`, native endianness — little-endian on the targets the
  harness runs on; encode and decode use the same order, so the choice is unobservable) followed
  by the octets.  `rdata.len() as u16` truncates; `Rdata`'s invariant (`len ≤ 65535`) is what
  makes it lossless, and is a hypothesis of the theorems that need it.

  Core Lean + Std only.
-/
import QV.Model.Rdata

namespace QV.RdataSet
open QV QV.Rdata

/-- `(n as u16).to_ne_bytes()` -/
def lenPrefix (n : Nat) : List UInt8 := [UInt8.ofNat (n % 256), UInt8.ofNat (n / 256 % 256)]

/-- what `From<&Rdata> for RdataSetOwned` / `insert` append for one member -/
def encodeOne (r : Bytes) : List UInt8 := lenPrefix r.size ++ r.toList

/-- mirrors `Iter::next`, iterated to the end: `cursor.get(0..2)?`, `u16::from_ne_bytes`,
    `cursor.get(2..len + 2)`, `cursor = &cursor[len + 2..]` -/
def iter (cursor : List UInt8) : List Bytes :=
  match cursor with
  | b0 :: b1 :: rest =>
    if b0.toNat + 256 * b1.toNat ≤ rest.length then
      (rest.take (b0.toNat + 256 * b1.toNat)).toArray :: iter (rest.drop (b0.toNat + 256 * b1.toNat))
    else []
  | _ => []
termination_by cursor.length
decreasing_by simp; omega

/-- the `for existing_rdata in self.iter()` loop of `insert`: is `rdata` equal to a member? -/
def anyEquals (c t : Nat) (rdata : Bytes) : List Bytes → Out RErr Bool
  | [] => .ok false
  | e :: es => do
    if (← equals c t rdata e) then .ok true else anyEquals c t rdata es

/-- mirrors `RdataSetOwned::insert`; returns the new `inner` and whether the RDATA was inserted -/
def insert (c t : Nat) (inner : List UInt8) (rdata : Bytes) : Out RErr (List UInt8 × Bool) := do
  if (← anyEquals c t rdata (iter inner)) then .ok (inner, false)
  else .ok (inner ++ encodeOne rdata, true)

/-- the loop of `from_iter` -/
def insertAll (c t : Nat) (inner : List UInt8) : List Bytes → Out RErr (List UInt8)
  | [] => .ok inner
  | x :: xs => do
    let (inner', _) ← insert c t inner x
    insertAll c t inner' xs

/-- mirrors `RdataSetOwned::from_iter`: `None` for an empty iterator -/
def fromIter (c t : Nat) (xs : List Bytes) : Out RErr (Option (List UInt8)) :=
  match xs with
  | [] => .ok none
  | _ => (insertAll c t [] xs) >>= fun i => .ok (some i)

end QV.RdataSet
