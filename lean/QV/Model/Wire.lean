/-
  QV.Model.Wire — model of `src/name/wire.rs` (layer 1).

  A parsed name is represented by its uncompressed wire form (`List UInt8`); the number of
  labels pushed onto `label_offsets` (an `ArrayVec<u8, MAX_N_LABELS>`) is tracked so that the
  capacity panic of `ArrayVec::push` is a modelled outcome.

  mirrors src/name/wire.rs (as repaired by the `fix:` commit that bounds-checks the first
  octet of a compressed name: `*octets.get(index).ok_or(Error::UnexpectedEom)?`).
-/
import QV.Prelude
import QV.Generated.Consts

namespace QV.Wire
open QV

inductive NameErr where
  | LabelTooLong | NameTooLong | UnexpectedEom | ExtraData | InvalidPointer
  deriving Repr, DecidableEq, Inhabited

def NameErr.toString : NameErr → String
  | .LabelTooLong => "LabelTooLong"
  | .NameTooLong => "NameTooLong"
  | .UnexpectedEom => "UnexpectedEom"
  | .ExtraData => "ExtraData"
  | .InvalidPointer => "InvalidPointer"

/-- `len & 0xc0 == 0xc0` -/
@[inline] def isPtr (b : UInt8) : Bool := b &&& 0xc0 == 0xc0

/-- `u16::from_be_bytes([a, b]) & !0xc000` -/
@[inline] def ptrOf (a b : UInt8) : Nat := (a.toNat % 64) * 256 + b.toNat

/-- result of a successful parse: wire form, number of labels, consumed length -/
structure Parsed where
  wire : List UInt8
  nlabels : Nat
  len : Nat
  deriving Repr, DecidableEq, Inhabited

/-! ### parse_compressed_name  (src/name/wire.rs `parse_compressed_name`, `parse_pointer`) -/

/-- The two nested loops of `parse_compressed_name` as one recursion.
    `cs` = `chunk_start`, `i` = `index`, `w` = `wire_repr`, `nl` = `label_offsets.len()`,
    `f` = `wire_len_of_first_chunk`. -/
def parseAux (msg : Bytes) (cs i : Nat) (w : List UInt8) (nl : Nat) (f : Option Nat) :
    Out NameErr Parsed :=
  if h : i < msg.size then
    if isPtr msg[i] then
      -- parse_pointer(octets, chunk_start, index)
      if h1 : i + 1 < msg.size then
        if ptrOf msg[i] msg[i+1] ≥ cs then .err .InvalidPointer
        else parseAux msg (ptrOf msg[i] msg[i+1]) (ptrOf msg[i] msg[i+1]) w nl
               (some (f.getD (i + 2 - cs)))
      else .err .UnexpectedEom
    else if msg[i].toNat > Gen.MAX_LABEL_LEN then .err .LabelTooLong
    else if nl ≥ Gen.MAX_N_LABELS then .panic            -- ArrayVec::push past capacity
    else if msg[i] = 0 then
      if w.length + 1 > Gen.MAX_WIRE_LEN then .err .NameTooLong
      else .ok ⟨w ++ [0], nl + 1, f.getD (i + 1 - cs)⟩
    else if i + msg[i].toNat + 1 ≥ msg.size then .err .UnexpectedEom
    else if w.length + (msg[i].toNat + 1) > Gen.MAX_WIRE_LEN then .err .NameTooLong
    else parseAux msg cs (i + msg[i].toNat + 1)
           (w ++ (msg.extract i (i + msg[i].toNat + 1)).toList) (nl + 1) f
  else .err .UnexpectedEom
termination_by (cs, msg.size - i)
decreasing_by
  all_goals simp_wf
  · apply Prod.Lex.left; omega
  · apply Prod.Lex.right; omega

def parseCompressed (msg : Bytes) (start : Nat) : Out NameErr Parsed :=
  parseAux msg start start [] 0 none

/-! ### parse_uncompressed_name / validate_uncompressed_name -/

/-- loop of `parse_uncompressed_name`; `track` = whether `label_offsets` is maintained
    (`parse`: true, `validate`: false). Returns the final offset. -/
def uncompAux (b : Bytes) (track : Bool) (off nl : Nat) : Out NameErr (Nat × Nat) :=
  if h : off < b.size then
    if b[off].toNat > Gen.MAX_LABEL_LEN then .err .LabelTooLong
    else if track && nl ≥ Gen.MAX_N_LABELS then .panic
    else if off + b[off].toNat + 1 > Gen.MAX_WIRE_LEN then .err .NameTooLong
    else if b[off] = 0 then .ok (off + 1, nl + 1)
    else uncompAux b track (off + b[off].toNat + 1) (nl + 1)
  else .err .UnexpectedEom
termination_by b.size - off
decreasing_by omega

def parseUncompressed (b : Bytes) (useAll : Bool) : Out NameErr Parsed :=
  match uncompAux b true 0 0 with
  | .ok (off, nl) =>
    if useAll && off < b.size then .err .ExtraData
    else .ok ⟨(b.extract 0 off).toList, nl, off⟩
  | .err e => .err e
  | .panic => .panic

def validateUncompressed (b : Bytes) (useAll : Bool) : Out NameErr Nat :=
  match uncompAux b false 0 0 with
  | .ok (off, _) => if useAll && off < b.size then .err .ExtraData else .ok off
  | .err e => .err e
  | .panic => .panic

/-! ### skip_compressed_name -/

def skipAux (b : Bytes) (off : Nat) : Out NameErr Nat :=
  if h : off < b.size then
    if isPtr b[off] then
      if off + 1 > Gen.MAX_WIRE_LEN then .err .NameTooLong else .ok (off + 2)
    else if b[off].toNat > Gen.MAX_LABEL_LEN then .err .LabelTooLong
    else if b[off] = 0 then
      if off + 1 > Gen.MAX_WIRE_LEN then .err .NameTooLong else .ok (off + 1)
    else if off + 1 + b[off].toNat > Gen.MAX_WIRE_LEN then .err .NameTooLong
    else skipAux b (off + 1 + b[off].toNat)
  else .err .UnexpectedEom
termination_by b.size - off
decreasing_by omega

def skipCompressed (b : Bytes) : Out NameErr Nat := skipAux b 0

end QV.Wire
