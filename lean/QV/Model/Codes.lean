/-
  QV.Model.Codes — model of the code ↔ text conversions (layer 1; property C17).

  mirrors src/rr/rr_type.rs (`Type`), src/class.rs (`Class`), src/message/question.rs
  (`Qtype`, `Qclass`), src/message/opcode.rs (`Opcode`), src/message/rcode.rs (`Rcode`,
  `ExtendedRcode`), src/util.rs (`Caseless`), and the pieces of `core` they call:
  `u16::from_str`, `str::eq_ignore_ascii_case`, `str::get(0..n)`, `str[n..]`,
  `Display for u16`.

  Text is a `List UInt8`: the UTF-8 octets of a Rust `&str` (every function below is total on
  arbitrary octet lists; a `&str` is always valid UTF-8, so the model is exercised on those).
  Values are `Nat` (callers state `v < 65536` / `x < 256`).

  The mnemonic tables, the words "TYPE"/"CLASS", the slice bounds 4/5 and the bounds 16 are NOT
  written here: they are the generated `QV.Gen.*` (tools/extract.py, tools/extract_codes.py),
  re-read from the Rust source on every run.

  IMPORTANT (how `match Caseless(x) { Caseless("IN") => … }` behaves).  `Caseless("IN")` in
  pattern position is a tuple-struct *pattern* with a string-literal sub-pattern.  Rust matches it
  structurally: the field is compared with the literal octet-for-octet.  `PartialEq for Caseless`
  (the case-insensitive comparison in src/util.rs) is never called by a `match`.  So the arms
  compare exactly, and what makes the mnemonics case-insensitive is the normalisation of the
  scrutinee: `let upper = text.to_ascii_uppercase(); match Caseless(&upper) { … }` (commit
  41208a0; before it the scrutinee was `Caseless(text)` and `"a"`, `"in"`, `"any"` were rejected).
  Whether that normalisation is present is *extracted* (`Gen.typeParseNormalise` … =
  "to_ascii_uppercase" | "none") and the model follows it (`normaliseBy`), so reverting the fix
  makes the model case-sensitive again and the theorems of C17 fail.  The RFC 3597 fallback arm
  works on the original `text`.
-/
import QV.Prelude
import QV.Generated.Tables
import QV.Generated.CodesShape

namespace QV.Codes
open QV

abbrev Text := List UInt8

/-- UTF-8 octets of a string (`str::as_bytes`) -/
def bytesOf (s : String) : Text := s.toList.flatMap String.utf8EncodeChar

inductive ParseErr where
  | Unknown    -- "unknown type" / "unknown class"
  | BadValue   -- "type/class value is not a valid unsigned 16-bit integer"
  deriving Repr, DecidableEq, Inhabited

def ParseErr.toString : ParseErr → String
  | .Unknown => "Unknown"
  | .BadValue => "BadValue"

/-! ### pieces of `core` -/

/-- `u8::is_ascii_digit` -/
@[inline] def isDigit (c : UInt8) : Bool := 48 ≤ c.toNat && c.toNat ≤ 57

/-- the checked loop of `u16::from_ascii_radix(_, 10)`: `result.checked_mul(10)`, `to_digit`,
    `checked_add`; `none` = `InvalidDigit` or `PosOverflow`.  (The unchecked fast path for ≤ 4
    digits computes the same value: 9999 < 65536.) -/
def digitsFrom (acc : Nat) : List UInt8 → Option Nat
  | [] => some acc
  | c :: cs =>
    if isDigit c then
      if acc * 10 + (c.toNat - 48) > 65535 then none
      else digitsFrom (acc * 10 + (c.toNat - 48)) cs
    else none

/-- `u16::from_str` (`core::num`, `from_ascii_radix` with radix 10, unsigned):
    `""` → Empty; `"+"`, `"-"` alone → InvalidDigit; one leading `+` is dropped (a leading `-` is
    kept and then is an invalid digit); then the digit loop. -/
def parseU16 (s : Text) : Option Nat :=
  match s with
  | [] => none
  | [c] => if c = 43 ∨ c = 45 then none else digitsFrom 0 [c]
  | c :: rest => if c = 43 then digitsFrom 0 rest else digitsFrom 0 (c :: rest)

/-- `impl Display for u16`: decimal, no sign, no leading zeros, `0` → "0" -/
def dec (n : Nat) : Text :=
  if n < 10 then [UInt8.ofNat (48 + n)] else dec (n / 10) ++ [UInt8.ofNat (48 + n % 10)]
termination_by n
decreasing_by omega

/-- `u8::to_ascii_uppercase` -/
def upperU8 (b : UInt8) : UInt8 := if 97 ≤ b.toNat ∧ b.toNat ≤ 122 then b - 32 else b

/-- the scrutinee of the mnemonic `match`: `text.to_ascii_uppercase()` (octet-wise; non-ASCII
    octets are unchanged) if the source normalises, the text itself otherwise -/
def normaliseBy (how : String) (t : Text) : Text :=
  if how = "to_ascii_uppercase" then t.map upperU8 else t

/-- `str::eq_ignore_ascii_case`: same length and octet-wise `to_ascii_lowercase` equal -/
def eqIgnoreAsciiCase (a b : Text) : Bool :=
  a.length == b.length && (a.zip b).all (fun p => lowerU8 p.1 == lowerU8 p.2)

/-- `str::is_char_boundary` -/
def isCharBoundary (t : Text) (i : Nat) : Bool :=
  if i = 0 then true
  else if h : i < t.length then
    -- `(b as i8) >= -0x40`: not a UTF-8 continuation octet
    decide (t[i].toNat < 128 ∨ 192 ≤ t[i].toNat)
  else i == t.length

/-- `str::get(0..n)` -/
def getPrefix (t : Text) (n : Nat) : Option Text :=
  if isCharBoundary t 0 && isCharBoundary t n then some (t.take n) else none

/-- `&text[n..]`: panics unless `n` is a char boundary -/
def sliceFrom (t : Text) (n : Nat) : Out ParseErr Text :=
  if isCharBoundary t n then .ok (t.drop n) else .panic

/-! ### the `match Caseless(text) { Caseless("…") => Ok(Self::…), … }` arms -/

/-- table with octet keys -/
def toBytesTable (tbl : List (String × Nat)) : List (Text × Nat) := tbl.map (fun r => (bytesOf r.1, r.2))

/-- first arm whose literal equals the scrutinee octet for octet (see the header comment) -/
def lookupParse (tbl : List (Text × Nat)) (text : Text) : Option Nat :=
  match tbl with
  | [] => none
  | (m, v) :: rest => if text = m then some v else lookupParse rest text

/-- the RFC 3597 fallback arm of `Type::from_str` / `Class::from_str` -/
def generic (word : Text) (getEnd sliceStart : Nat) (text : Text) : Out ParseErr Nat :=
  if (getPrefix text getEnd).any (fun p => eqIgnoreAsciiCase p word) then
    match sliceFrom text sliceStart with
    | .ok rest =>
      match parseU16 rest with
      | some v => .ok v
      | none => .err .BadValue
    | .err e => .err e
    | .panic => .panic
  else .err .Unknown

/-- a `FromStr` impl: mnemonic arms, then the fallback -/
def parseWith (tbl : List (Text × Nat)) (how : String) (word : Text) (getEnd sliceStart : Nat)
    (text : Text) : Out ParseErr Nat :=
  match lookupParse tbl (normaliseBy how text) with
  | some v => .ok v
  | none => generic word getEnd sliceStart text

def typeTable : List (Text × Nat) := toBytesTable Gen.typeParse
def classTable : List (Text × Nat) := toBytesTable Gen.classParse
def qtypeTable : List (Text × Nat) := toBytesTable Gen.qtypeParse
def qclassTable : List (Text × Nat) := toBytesTable Gen.qclassParse
def typeWord : Text := bytesOf Gen.typeParsePrefix
def classWord : Text := bytesOf Gen.classParsePrefix

/-- mirrors src/rr/rr_type.rs `impl FromStr for Type` -/
def typeFromStr (text : Text) : Out ParseErr Nat :=
  parseWith typeTable Gen.typeParseNormalise typeWord Gen.typeParseGetEnd Gen.typeParseSliceFrom text

/-- mirrors src/class.rs `impl FromStr for Class` -/
def classFromStr (text : Text) : Out ParseErr Nat :=
  parseWith classTable Gen.classParseNormalise classWord Gen.classParseGetEnd Gen.classParseSliceFrom text

/-- mirrors src/message/question.rs `impl FromStr for Qtype`
    (`_ => Type::from_str(text).map(Into::into)`; `Gen.qtypeParseDelegate = "Type"`) -/
def qtypeFromStr (text : Text) : Out ParseErr Nat :=
  match lookupParse qtypeTable (normaliseBy Gen.qtypeParseNormalise text) with
  | some v => .ok v
  | none => typeFromStr text

/-- mirrors src/message/question.rs `impl FromStr for Qclass` -/
def qclassFromStr (text : Text) : Out ParseErr Nat :=
  match lookupParse qclassTable (normaliseBy Gen.qclassParseNormalise text) with
  | some v => .ok v
  | none => classFromStr text

/-! ### Display -/

/-- `match *self { Self::A => …, … }`: first arm whose constant equals the value -/
def lookupDisplay (tbl : List (Nat × String)) (v : Nat) : Option String :=
  match tbl with
  | [] => none
  | (x, s) :: rest => if v = x then some s else lookupDisplay rest v

/-- a `Display` impl with the fallback `Self(value) => write!(f, "<prefix>{value}")` -/
def displayWith (tbl : List (Nat × String)) (pre : String) (v : Nat) : Text :=
  match lookupDisplay tbl v with
  | some s => bytesOf s
  | none => bytesOf pre ++ dec v

/-- mirrors src/rr/rr_type.rs `impl Display for Type` -/
def typeDisplay (v : Nat) : Text := displayWith Gen.typeDisplay Gen.typeDisplayPrefix v

/-- mirrors src/class.rs `impl Display for Class` -/
def classDisplay (v : Nat) : Text := displayWith Gen.classDisplay Gen.classDisplayPrefix v

/-- mirrors src/message/question.rs `impl Display for Qtype` (`_ => Type::from(*self).fmt(f)`) -/
def qtypeDisplay (v : Nat) : Text :=
  match lookupDisplay Gen.qtypeDisplay v with
  | some s => bytesOf s
  | none => typeDisplay v

/-- mirrors src/message/question.rs `impl Display for Qclass` -/
def qclassDisplay (v : Nat) : Text :=
  match lookupDisplay Gen.qclassDisplay v with
  | some s => bytesOf s
  | none => classDisplay v

/-! ### Opcode / Rcode conversions -/

/-- mirrors src/message/opcode.rs `impl TryFrom<u8> for Opcode` followed by `u8::from` -/
def opcodeTryFrom (x : Nat) : Option Nat := if x < Gen.opcodeTryFromBound then some x else none

/-- mirrors src/message/rcode.rs `impl TryFrom<u8> for Rcode` followed by `u8::from` -/
def rcodeTryFrom (x : Nat) : Option Nat := if x < Gen.rcodeTryFromBound then some x else none

/-- mirrors src/message/rcode.rs `impl TryFrom<ExtendedRcode> for Rcode` (`value.0 as u8`)
    followed by `u8::from` -/
def rcodeFromExt (e : Nat) : Option Nat := if e < Gen.rcodeFromExtBound then some (e % 256) else none

end QV.Codes
