/-
  QV.Model.Validation — model of src/db/zone/validation.rs (`validate`, `scan_node`,
  `check_apex_ns_address`, `check_delegation_ns_address`, `check_glue`, `check_mx_address`,
  `class_has_addrs`, `addrs_found`, `ValidationIssue::is_error`).

  The `HashSet<ValidationIssue>` is modelled by the list of inserted issues (duplicates kept);
  statements and printed results treat it as a set. `Err(Error::InvalidRdata)` is `none`: the
  `?` operators return it as soon as one inspected RDATA does not hold a name, and every RDATA
  that is inspected at all is inspected in every iteration order, so the outcome does not depend
  on the hash map's order.

  Name extraction from RDATA (`Name::try_from_uncompressed_all`) is the parameter `nameOf`
  (instantiated by `QV.NameL.parseAll`, i.e. `QV.Wire.parseUncompressed`, in the driver).
  `class_has_addrs` and the severity split come from the extractor
  (`Gen.addrClasses`, `Gen.validationErrors`).
-/
import QV.Model.Zone

namespace QV.Zone
open QV QV.NameL

/-- `ValidationIssue::is_error` -/
def Issue.isError (i : Issue) : Bool := Gen.validationErrors.contains i.tag

/-- `class_has_addrs` -/
def classHasAddrs (cls : Nat) : Bool := Gen.addrClasses.contains cls

/-- `addrs_found` -/
def addrsFound (cls : Nat) (a aaaa : Option Rrset) : Bool :=
  a.isSome || (cls = Gen.CLASS_IN && aaaa.isSome)

def defaultOpts : Opts := ⟨false, false⟩

/-- `check_apex_ns_address` -/
def checkApexNsAddress (z : Zone) (nsd : Name) : List Issue :=
  match lookupAddrs z nsd defaultOpts with
  | .ok (.found a aaaa _) => if !addrsFound z.cls a aaaa then [.MissingNsAddress nsd] else []
  | .ok .nxDomain => [.MissingNsAddress nsd]           -- `Cname(_) | NxDomain`
  | _ => []                                            -- `Referral(_) | WrongZone`

/-- `check_glue` -/
def checkGlue (z : Zone) (nsd : Name) : List Issue :=
  match lookupAddrs z nsd ⟨false, true⟩ with
  | .ok (.found a aaaa _) => if !addrsFound z.cls a aaaa then [.MissingGlue nsd] else []
  | _ => [.MissingGlue nsd]

/-- `check_delegation_ns_address` -/
def checkDelegationNsAddress (z : Zone) (nsd child : Name) : List Issue :=
  match lookupAddrs z nsd defaultOpts with
  | .ok (.found a aaaa _) => if !addrsFound z.cls a aaaa then [.MissingNsAddress nsd] else []
  | .ok (.referral c _) =>
    match z.glue with
    | .wide => checkGlue z nsd
    | .narrow => if c = child then checkGlue z nsd else []
  | .ok .nxDomain => [.MissingNsAddress nsd]
  | _ => []                                            -- `WrongZone`

/-- `check_mx_address` -/
def checkMxAddress (z : Zone) (n : Name) : List Issue :=
  match lookupAddrs z n defaultOpts with
  | .ok (.found a aaaa _) => if !addrsFound z.cls a aaaa then [.MissingMxAddress n] else []
  | .ok .nxDomain => [.MissingMxAddress n]
  | _ => []

/-- run `f` over the names extracted from `rds`; `none` as soon as one extraction fails -/
def forNames (nameOf : NameOf) (f : Name → List Issue) : List Rdata → Option (List Issue)
  | [] => some []
  | rd :: rest =>
    match nameOf rd with
    | none => none
    | some n => (forNames nameOf f rest).map (fun is => f n ++ is)

/-- one iteration of the `for rrset in rrsets.iter()` loop of `scan_node` -/
def scanRrset (nameOf : NameOf) (z : Zone) (owner : Name) (nRrsets : Nat) (s : Rrset) :
    Option (List Issue) :=
  if s.rtype = Gen.T_CNAME then
    some ((if nRrsets ≠ 1 then [.OtherRecordsAtCname owner] else []) ++
          (if s.rdatas.length ≠ 1 then [.DuplicateCname owner] else []))
  else if s.rtype = Gen.T_MX then
    if classHasAddrs z.cls then
      -- `rdata.octets().get(2..)`: `None` (→ InvalidRdata) when fewer than two octets
      forNames (fun rd => if rd.length < 2 then none else nameOf (rd.drop 2)) (checkMxAddress z) s.rdatas
    else some []
  else if s.rtype = Gen.T_NS then
    let w : List Issue := if isWildcard owner then [.NsAtWildcard owner] else []
    let atApex := owner.length = z.apex.length
    if !atApex && classHasAddrs z.cls then
      (forNames nameOf (fun nsd => checkDelegationNsAddress z nsd owner) s.rdatas).map (fun is => w ++ is)
    else some w
  else some []

/-- accumulate the issues of one more step; `none` (= `Err`, propagated by `?`) is absorbing -/
def optAppend (acc b : Option (List Issue)) : Option (List Issue) :=
  match acc, b with
  | some a, some b => some (a ++ b)
  | _, _ => none

/-- `scan_node` -/
def scanNode (nameOf : NameOf) (z : Zone) (owner : Name) (rrsets : List Rrset) : Option (List Issue) :=
  rrsets.foldl (fun acc s => optAppend acc (scanRrset nameOf z owner rrsets.length s)) (some [])

/-- `validate`, check 2: exactly one SOA record at the apex -/
def soaIssues (z : Zone) : List Issue :=
  match soa z with
  | some s => if s.rdatas.length ≠ 1 then [.TooManyApexSoas] else []
  | none => [.MissingApexSoa]

/-- `validate`, check 5 and the apex part of check 8 -/
def apexNsIssues (nameOf : NameOf) (z : Zone) : Option (List Issue) :=
  match ns z with
  | some s =>
    if classHasAddrs z.cls then forNames nameOf (checkApexNsAddress z) s.rdatas else some []
  | none => some [.MissingApexNs]

/-- `validate`: `none` = `Err(Error::InvalidRdata)` -/
def validate (nameOf : NameOf) (z : Zone) : Option (List Issue) :=
  match apexNsIssues nameOf z with
  | none => none
  | some nsI =>
    (iterByNode z).foldl (fun acc p => optAppend acc (scanNode nameOf z p.1 p.2)) (some (soaIssues z ++ nsI))

end QV.Zone
