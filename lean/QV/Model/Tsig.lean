/-
  QV.Model.Tsig — model of `src/message/tsig.rs` and of the TSIG parts of `src/rr/rdata/tsig.rs`
  (layer 3).

  Octet strings are `List UInt8` here (`Octets`): the theorems of C11 are about concatenation,
  prefixes and lengths, for which lists are the convenient carrier; the driver converts from and
  to `Bytes` at its boundary.

  The MAC function is a *parameter* `hm : Algorithm → Octets → Octets → Octets`
  (algorithm, key, data ↦ full-length tag).  The driver instantiates it with `realHmac`
  (`QV.Hmac.hmac`); the theorems of C11 hold for every `hm`.

  Names.  `Box<LowercaseName>` values (`key_name`, `algorithm`) are represented by their
  lower-cased uncompressed wire form.  `lowerName` maps `u8::to_ascii_lowercase` over *all*
  octets of the wire form, the Rust (`Name::make_ascii_lowercase`) over label contents only; on
  wire forms of names the two coincide because a length octet is at most 63 < 'A'
  (`QV.Tsig.lowerName_wireOf`).

  Panics (dev profile, DESIGN §3.2) as outcomes:
    * `add_modified_message`: `message[ID_END..ARCOUNT_START]`, `message[ARCOUNT_START..ARCOUNT_END]`
      slice out of range when the message has fewer than 12 octets; `ARCOUNT - 1` underflow when
      ARCOUNT = 0.  Documented precondition of every `sign_*` / `verify_*`: the buffer "must be a
      valid DNS message" whose ARCOUNT counts the TSIG RR ("set to their final values (i.e. for
      the latter, including the TSIG RR)").  In release builds the subtraction wraps to 0xffff.
    * `assert!(request_mac.len() <= u16::MAX)` in `sign_response`, `sign_subsequent`,
      `verify_response` — but *not* in `verify_subsequent`, which silently truncates the length
      prefix (`prior_mac.len() as u16`).
    * `assert_eq!(self.algorithm(), algorithm.name())` in `verification_core`.
    * `serialize_rdata(..).expect(..)` (unreachable: name ≤ 255, MAC ≤ 32, other ≤ 6 octets).
-/
import QV.Prelude
import QV.Generated.Consts
import QV.Generated.Tsig
import QV.Model.Hmac
import QV.Model.Wire

namespace QV.Tsig
open QV

abbrev Octets := List UInt8

/-- mirrors src/message/tsig.rs `enum Algorithm` -/
abbrev Algorithm := Hmac.Alg

/-! ### algorithms (src/message/tsig.rs `lazy_static!`, `impl Algorithm`) -/

/-- `HMAC_SHA1_NAME` = "hmac-sha1." -/
def hmacSha1Name : Octets := [9, 104, 109, 97, 99, 45, 115, 104, 97, 49, 0]
/-- `HMAC_SHA256_NAME` = "hmac-sha256." -/
def hmacSha256Name : Octets := [11, 104, 109, 97, 99, 45, 115, 104, 97, 50, 53, 54, 0]

/-- mirrors `Algorithm::name` -/
def Algorithm.name : Algorithm → Octets
  | .HmacSha1 => hmacSha1Name
  | .HmacSha256 => hmacSha256Name

/-- the model's algorithm table is the one extracted from the source (variants in source order,
    wire form of the names, output sizes of the hashes) -/
theorem algorithms_match_source :
    Gen.tsigAlgorithms.map (fun r => (r.2.2.1, r.2.2.2.2)) =
      [(Algorithm.name .HmacSha1, Hmac.Alg.outputSize .HmacSha1),
       (Algorithm.name .HmacSha256, Hmac.Alg.outputSize .HmacSha256)] := by decide

/-- `u8::to_ascii_lowercase` over the wire form (see the header comment) -/
def lowerName (w : Octets) : Octets := w.map lowerU8

/-- mirrors `Algorithm::from_name` (`HashMap<&Name, Algorithm>` lookup; `Name` equality and hash
    ignore ASCII case) -/
def Algorithm.fromName (n : Octets) : Option Algorithm :=
  if lowerName n = hmacSha1Name then some .HmacSha1
  else if lowerName n = hmacSha256Name then some .HmacSha256
  else none

/-- the MAC primitive the real code uses: `Hmac<Sha1>` / `Hmac<Sha256>` -/
def realHmac (alg : Algorithm) (key data : Octets) : Octets :=
  (Hmac.hmac alg key.toArray data.toArray).toList

/-! ### `TimeSigned` (src/rr/rdata/tsig.rs) -/

/-- mirrors `struct TimeSigned([u8; 6])` -/
structure TimeSigned where
  b0 : UInt8
  b1 : UInt8
  b2 : UInt8
  b3 : UInt8
  b4 : UInt8
  b5 : UInt8
  deriving Repr, DecidableEq, Inhabited

/-- mirrors `TimeSigned::as_slice` -/
def TimeSigned.asSlice (t : TimeSigned) : Octets := [t.b0, t.b1, t.b2, t.b3, t.b4, t.b5]

/-- mirrors `TimeSigned::to_unix_time` -/
def TimeSigned.toUnix (t : TimeSigned) : Nat :=
  t.b0.toNat * 2^40 + t.b1.toNat * 2^32 + t.b2.toNat * 2^24 + t.b3.toNat * 2^16 + t.b4.toNat * 2^8 + t.b5.toNat

/-- mirrors `TimeSigned::try_from_unix_time` (`None` = `UnrepresentableTimeError`) -/
def TimeSigned.tryFromUnix (s : Nat) : Option TimeSigned :=
  if s < 2^48 then
    some ⟨UInt8.ofNat (s / 2^40 % 256), UInt8.ofNat (s / 2^32 % 256), UInt8.ofNat (s / 2^24 % 256),
          UInt8.ofNat (s / 2^16 % 256), UInt8.ofNat (s / 2^8 % 256), UInt8.ofNat (s % 256)⟩
  else none

/-- mirrors `impl From<[u8; 6]> for TimeSigned` applied to a 6-octet slice -/
def TimeSigned.ofList (l : Octets) : TimeSigned :=
  ⟨l.getD 0 0, l.getD 1 0, l.getD 2 0, l.getD 3 0, l.getD 4 0, l.getD 5 0⟩

/-! ### integers on the wire -/

/-- `u16::to_be_bytes` -/
def toBe16 (x : UInt16) : Octets := u16be x.toNat

/-- `u16::from_be_bytes(l[i..i+2])` (callers guarantee the range) -/
def rd16 (l : Octets) (i : Nat) : UInt16 :=
  UInt16.ofNat ((l.getD i 0).toNat * 256 + (l.getD (i + 1) 0).toNat)

/-! ### digest components (src/message/tsig.rs, "TSIG SIGNING AND VERIFICATION HELPERS") -/

/-- mirrors `trait Variables` -/
structure Variables where
  keyName : Octets
  algorithm : Octets
  timeSigned : TimeSigned
  fudge : UInt16
  error : UInt16
  other : Octets
  deriving Repr, DecidableEq

/-- mirrors `add_modified_message`: original ID, `message[2..10]`, ARCOUNT − 1, `message[12..]` -/
def addModifiedMessage {ε} (message : Octets) (originalId : UInt16) : Out ε Octets :=
  if message.length < Gen.ARCOUNT_START then .panic        -- message[ID_END..ARCOUNT_START]
  else if message.length < Gen.ARCOUNT_END then .panic     -- message[ARCOUNT_START..ARCOUNT_END]
  else if rd16 message Gen.ARCOUNT_START = 0 then .panic   -- `- 1` overflows (dev profile)
  else .ok (toBe16 originalId
            ++ (message.drop Gen.ID_END).take (Gen.ARCOUNT_START - Gen.ID_END)
            ++ toBe16 (rd16 message Gen.ARCOUNT_START - 1)
            ++ message.drop Gen.ARCOUNT_END)

/-- mirrors `add_tsig_timers` -/
def addTsigTimers (v : Variables) : Octets := v.timeSigned.asSlice ++ toBe16 v.fudge

/-- mirrors `add_tsig_variables` (`other.len() as u16` truncates) -/
def addTsigVariables (v : Variables) : Octets :=
  v.keyName ++ Gen.TSIG_CLASS_TTL ++ v.algorithm ++ addTsigTimers v ++ toBe16 v.error
    ++ u16be (v.other.length % 65536) ++ v.other

/-- `update(&(mac.len() as u16).to_be_bytes()); update(mac)` -/
def addPriorMac (mac : Octets) : Octets := u16be (mac.length % 65536) ++ mac

/-- what `sign_request` / `verify_request` feed to the MAC -/
def requestInput {ε} (message : Octets) (originalId : UInt16) (v : Variables) : Out ε Octets := do
  let m ← addModifiedMessage message originalId
  pure (m ++ addTsigVariables v)

/-- what `sign_response` / `verify_response` feed to the MAC (after their `assert!`) -/
def responseInput {ε} (message requestMac : Octets) (originalId : UInt16) (v : Variables) : Out ε Octets := do
  let m ← addModifiedMessage message originalId
  pure (addPriorMac requestMac ++ m ++ addTsigVariables v)

/-- what `sign_subsequent` / `verify_subsequent` feed to the MAC -/
def subsequentInput {ε} (message priorMac : Octets) (originalId : UInt16) (v : Variables) : Out ε Octets := do
  let m ← addModifiedMessage message originalId
  pure (addPriorMac priorMac ++ m ++ addTsigTimers v)

/-! ### TSIG RDATA (src/rr/rdata/tsig.rs) -/

/-- mirrors `serialize_tsig_unchecked` -/
def serializeTsig (algorithm : Octets) (timeSigned : TimeSigned) (fudge : UInt16) (mac : Octets)
    (originalId error : UInt16) (other : Octets) : Octets :=
  algorithm ++ timeSigned.asSlice ++ toBe16 fudge ++ u16be (mac.length % 65536) ++ mac
    ++ toBe16 originalId ++ toBe16 error ++ u16be (other.length % 65536) ++ other

/-- mirrors `Rdata::new_tsig` (`none` = `RdataTooLongError`) -/
def newTsig (algorithm : Octets) (timeSigned : TimeSigned) (fudge : UInt16) (mac : Octets)
    (originalId error : UInt16) (other : Octets) : Option Octets :=
  if algorithm.length + 16 + mac.length + other.length ≤ 65535 then
    some (serializeTsig algorithm timeSigned fudge mac originalId error other)
  else none

/-- mirrors `Rdata::validate_as_tsig`; `ok` carries `(algorithm_len, mac_size)` -/
def validateAsTsig (rdata : Octets) : Out Unit (Nat × Nat) :=
  match Wire.validateUncompressed rdata.toArray false with
  | .panic => .panic
  | .err _ => .err ()
  | .ok algoLen =>
    if rdata.length < algoLen + 10 then .err ()
    else
      let macSize := (rd16 rdata (algoLen + 8)).toNat
      if rdata.length < algoLen + macSize + 16 then .err ()
      else
        let otherLen := (rd16 rdata (algoLen + macSize + 14)).toNat
        if algoLen + macSize + otherLen + 16 = rdata.length then .ok (algoLen, macSize) else .err ()

/-! ### reading / verification (src/message/tsig.rs `ReadTsigRr`) -/

inductive FromReadRrError where
  | FormErr | NotTsig
  deriving Repr, DecidableEq, Inhabited

inductive VerificationError where
  | BadSig | BadTime | FormErr
  deriving Repr, DecidableEq, Inhabited

def FromReadRrError.toString : FromReadRrError → String
  | .FormErr => "FormErr" | .NotTsig => "NotTsig"

def VerificationError.toString : VerificationError → String
  | .BadSig => "BadSig" | .BadTime => "BadTime" | .FormErr => "FormErr"

/-- mirrors `struct ReadTsigRr` (`rdata` validated by the `Reader`) -/
structure ReadTsigRr where
  keyName : Octets
  algorithm : Octets
  macSize : Nat
  rdata : Octets
  deriving Repr, DecidableEq

namespace ReadTsigRr

/-- mirrors `impl TryFrom<ReadRr> for ReadTsigRr`; `ttl` is the value of `u32::from(rr.ttl)`.
    The two `expect`/`unwrap`s cannot fail on RDATA that passed `validate_as_tsig`. -/
def tryFrom (owner : Octets) (rrType cls ttl : Nat) (rdata : Octets) : Out FromReadRrError ReadTsigRr :=
  if rrType ≠ Gen.TYPE_TSIG then .err .NotTsig
  else if cls ≠ Gen.QCLASS_ANY ∨ ttl ≠ 0 then .err .FormErr
  else match Wire.parseUncompressed rdata.toArray false with
    | .ok p =>
      if rdata.length < p.len + 10 then .panic
      else .ok ⟨lowerName owner, lowerName p.wire, (rd16 rdata (p.len + 8)).toNat, rdata⟩
    | _ => .panic

def algoLen (r : ReadTsigRr) : Nat := r.algorithm.length
/-- mirrors `ReadTsigRr::time_signed` -/
def timeSigned (r : ReadTsigRr) : TimeSigned := TimeSigned.ofList ((r.rdata.drop r.algoLen).take 6)
/-- mirrors `ReadTsigRr::fudge` -/
def fudge (r : ReadTsigRr) : UInt16 := rd16 r.rdata (r.algoLen + 6)
/-- mirrors `ReadTsigRr::mac` -/
def mac (r : ReadTsigRr) : Octets := (r.rdata.drop (r.algoLen + 10)).take r.macSize
/-- mirrors `ReadTsigRr::original_id` -/
def originalId (r : ReadTsigRr) : UInt16 := rd16 r.rdata (r.algoLen + r.macSize + 10)
/-- mirrors `ReadTsigRr::error` -/
def error (r : ReadTsigRr) : UInt16 := rd16 r.rdata (r.algoLen + r.macSize + 12)
/-- mirrors `ReadTsigRr::other` -/
def other (r : ReadTsigRr) : Octets := r.rdata.drop (r.algoLen + r.macSize + 16)

/-- mirrors `impl Variables for ReadTsigRr` -/
def vars (r : ReadTsigRr) : Variables :=
  ⟨r.keyName, r.algorithm, r.timeSigned, r.fudge, r.error, r.other⟩

end ReadTsigRr

/-- mirrors `check_mac_size` -/
def checkMacSize (alg : Algorithm) (macSize : Nat) : Out VerificationError Unit :=
  let halfOutputSize := (alg.outputSize + 1) / 2
  if macSize > alg.outputSize ∨ macSize < max Gen.TSIG_MIN_MAC_SIZE halfOutputSize then .err .FormErr
  else .ok ()

/-- mirrors `check_time` (`u64::saturating_sub` / `saturating_add`) -/
def checkTime (timeSigned : TimeSigned) (fudge : UInt16) (now : TimeSigned) : Out VerificationError Unit :=
  let timeWindowStart := timeSigned.toUnix - fudge.toNat
  let timeWindowEnd := min (timeSigned.toUnix + fudge.toNat) (2^64 - 1)
  if now.toUnix ≥ timeWindowStart ∧ now.toUnix ≤ timeWindowEnd then .ok () else .err .BadTime

/-- mirrors `Mac::verify_truncated_left` of the `digest` crate as used by `verification_core`:
    `n == 0 || n > OutputSize` is an error, otherwise the first `n` octets of the tag are compared -/
def verifyTruncatedLeft (alg : Algorithm) (tag mac : Octets) : Bool :=
  !(mac.length = 0 ∨ mac.length > alg.outputSize) && tag.take mac.length == mac

/-- mirrors `ReadTsigRr::verification_core`; `input` is the closure `add_data_to_mac` -/
def verificationCore (hm : Algorithm → Octets → Octets → Octets) (r : ReadTsigRr)
    (input : Out VerificationError Octets) (alg : Algorithm) (key : Octets) (now : TimeSigned) :
    Out VerificationError Unit :=
  if r.algorithm ≠ alg.name then .panic                        -- assert_eq!
  else do
    checkMacSize alg r.macSize
    let data ← input
    if verifyTruncatedLeft alg (hm alg key data) r.mac then checkTime r.timeSigned r.fudge now
    else .err .BadSig

/-- mirrors `ReadTsigRr::verify_request` -/
def verifyRequest (hm : Algorithm → Octets → Octets → Octets) (r : ReadTsigRr) (message : Octets)
    (alg : Algorithm) (key : Octets) (now : TimeSigned) : Out VerificationError Unit :=
  verificationCore hm r (requestInput message r.originalId r.vars) alg key now

/-- mirrors `ReadTsigRr::verify_response` -/
def verifyResponse (hm : Algorithm → Octets → Octets → Octets) (r : ReadTsigRr)
    (message requestMac : Octets) (alg : Algorithm) (key : Octets) (now : TimeSigned) :
    Out VerificationError Unit :=
  if requestMac.length > 65535 then .panic                     -- assert!
  else verificationCore hm r (responseInput message requestMac r.originalId r.vars) alg key now

/-- mirrors `ReadTsigRr::verify_subsequent` (no `assert!` on the prior MAC's length here) -/
def verifySubsequent (hm : Algorithm → Octets → Octets → Octets) (r : ReadTsigRr)
    (message priorMac : Octets) (alg : Algorithm) (key : Octets) (now : TimeSigned) :
    Out VerificationError Unit :=
  verificationCore hm r (subsequentInput message priorMac r.originalId r.vars) alg key now

/-! ### writing / signing (src/message/tsig.rs `PreparedTsigRr`) -/

/-- mirrors `struct PreparedTsigRr` -/
structure PreparedTsigRr where
  keyName : Octets
  timeSigned : TimeSigned
  fudge : UInt16
  originalId : UInt16
  error : UInt16
  serverTime : TimeSigned
  deriving Repr, DecidableEq

/-- `ExtendedRcode::BADTIME` -/
def BADTIME : UInt16 := UInt16.ofNat Gen.XRCODE_BADTIME

namespace PreparedTsigRr

/-- mirrors `PreparedTsigRr::other` -/
def other (p : PreparedTsigRr) : Octets :=
  if p.error = BADTIME then p.serverTime.asSlice else []

/-- mirrors `impl Variables for (&LowercaseName, &PreparedTsigRr)` -/
def vars (p : PreparedTsigRr) (algorithm : Octets) : Variables :=
  ⟨p.keyName, algorithm, p.timeSigned, p.fudge, p.error, p.other⟩

/-- mirrors `PreparedTsigRr::new_from_read` -/
def newFromRead (r : ReadTsigRr) (timeSigned : TimeSigned) (fudge error : UInt16) : PreparedTsigRr :=
  if error = BADTIME then ⟨r.keyName, r.timeSigned, fudge, r.originalId, error, timeSigned⟩
  else ⟨r.keyName, timeSigned, fudge, r.originalId, error, timeSigned⟩

/-- mirrors `PreparedTsigRr::unsigned_len` -/
def unsignedLen (p : PreparedTsigRr) (algorithm : Octets) : Nat :=
  p.keyName.length + algorithm.length + 26 + (if p.error = BADTIME then 6 else 0)

/-- mirrors `PreparedTsigRr::signed_len` -/
def signedLen (p : PreparedTsigRr) (alg : Algorithm) : Nat := p.unsignedLen alg.name + alg.outputSize

/-- mirrors `PreparedTsigRr::serialize_rdata` (`expect` on `RdataTooLongError`) -/
def serializeRdata {ε} (p : PreparedTsigRr) (algorithm mac : Octets) : Out ε Octets :=
  match newTsig algorithm p.timeSigned p.fudge mac p.originalId p.error p.other with
  | some rd => .ok rd
  | none => .panic

/-- mirrors `PreparedTsigRr::unsigned` -/
def unsigned {ε} (p : PreparedTsigRr) (algorithm : Octets) : Out ε Octets := p.serializeRdata algorithm []

end PreparedTsigRr

/-- mirrors `PreparedTsigRr::sign_request`; result `(rdata, mac)` -/
def signRequest {ε} (hm : Algorithm → Octets → Octets → Octets) (p : PreparedTsigRr) (message : Octets)
    (alg : Algorithm) (key : Octets) : Out ε (Octets × Octets) := do
  let data ← requestInput message p.originalId (p.vars alg.name)
  let mac := hm alg key data
  let rdata ← p.serializeRdata alg.name mac
  pure (rdata, mac)

/-- mirrors `PreparedTsigRr::sign_response` -/
def signResponse {ε} (hm : Algorithm → Octets → Octets → Octets) (p : PreparedTsigRr)
    (message requestMac : Octets) (alg : Algorithm) (key : Octets) : Out ε (Octets × Octets) :=
  if requestMac.length > 65535 then .panic                     -- assert!
  else do
    let data ← responseInput message requestMac p.originalId (p.vars alg.name)
    let mac := hm alg key data
    let rdata ← p.serializeRdata alg.name mac
    pure (rdata, mac)

/-- mirrors `PreparedTsigRr::sign_subsequent` -/
def signSubsequent {ε} (hm : Algorithm → Octets → Octets → Octets) (p : PreparedTsigRr)
    (message priorMac : Octets) (alg : Algorithm) (key : Octets) : Out ε (Octets × Octets) :=
  if priorMac.length > 65535 then .panic                       -- assert!
  else do
    let data ← subsequentInput message priorMac p.originalId (p.vars alg.name)
    let mac := hm alg key data
    let rdata ← p.serializeRdata alg.name mac
    pure (rdata, mac)

end QV.Tsig
