/-
  QV.Model.Include — model of src/zone_file/fs/mod.rs: the file-system parser with its include
  stack (`fs::Parser::next`), `compute_path`, and the depth limit.

  Environment (trusted base, DESIGN.md §5): the file system is an association list
  `FS = List (Path × contents)` keyed by *canonical* paths (relative to the working directory,
  or absolute); `openFile` models `File::open` on Unix for regular files: component-wise
  resolution of `.` and `..`, every intermediate component must be an existing directory.
  `std::path::Path::{parent, join}` are re-implemented for Unix (`parentOf`, `joinPath`).
  Opening directories, symlinks, I/O errors while reading and paths that leave the working
  directory through `..` are outside the model (the generators do not produce them).
-/
import QV.Model.ZoneFile.Parser

namespace QV.Inc
open QV QV.ZF

abbrev Path := List UInt8
abbrev FS := List (Path × List UInt8)

/-! ### std::path on Unix -/

def isSep (c : UInt8) : Bool := c == 47

/-- split off the last component of `body`: `(component, remaining body)`
    (`Components::parse_next_component_back`: the component and its separator are removed) -/
def splitLast (body : List UInt8) : List UInt8 × List UInt8 :=
  let r := body.reverse
  let comp := (r.takeWhile (fun c => !isSep c)).reverse
  let rest := r.dropWhile (fun c => !isSep c)
  (comp, (rest.drop 1).reverse)

/-- `Components::trim_right`: drop trailing empty and `.` components -/
def trimRight : Nat → List UInt8 → List UInt8
  | 0, body => body
  | fuel+1, body =>
    if body.isEmpty then body
    else
      let (comp, rest) := splitLast body
      if comp.isEmpty || comp == [46] then trimRight fuel rest else body

/-- `Path::parent` (Unix). `none` = the path has no parent (empty path, or only a root). -/
def parentOf (p : Path) : Option Path :=
  let hasRoot := p.head? == some 47
  let curDir := !hasRoot && (p == [46] || p.take 2 == [46, 47])
  let pre := if hasRoot || curDir then 1 else 0
  let rec go : Nat → List UInt8 → Option Path
    | 0, _ => none
    | fuel+1, body =>
      if body.isEmpty then
        -- State::StartDir
        if hasRoot then none                     -- RootDir: no parent
        else if curDir then some []              -- CurDir: parent is ""
        else none
      else
        let (comp, rest) := splitLast body
        if comp.isEmpty || comp == [46] then go fuel rest
        else some (p.take pre ++ trimRight (rest.length + 1) rest)
  go (p.length + 1) (p.drop pre)

/-- `Path::join` / `PathBuf::push` (Unix) -/
def joinPath (base inc : Path) : Path :=
  if inc.head? == some 47 then inc
  else
    match base.getLast? with
    | some c => if isSep c then base ++ inc else base ++ 47 :: inc
    | none => inc

/-- `compute_path`: `none` = `.expect("including file's path has no parent")` panics
    (`convert_to_path` never fails on Unix) -/
def computePath (includer inc : Path) : Option Path :=
  match parentOf includer with
  | some par => some (joinPath par inc)
  | none => none

/-! ### File::open on the modelled file system -/

/-- split at every `/` (like `str::split('/')`: `n` separators give `n + 1` pieces) -/
def splitComps : List UInt8 → List (List UInt8)
  | [] => [[]]
  | c :: rest =>
    match splitComps rest with
    | cur :: more => if c == 47 then [] :: cur :: more else (c :: cur) :: more
    | [] => [[c]]

/-- canonical key → (absolute?, components) -/
def keyComps (k : Path) : Bool × List (List UInt8) :=
  (k.head? == some 47, (splitComps k).filter (fun c => !c.isEmpty))

/-- does directory `(abs, comps)` exist, i.e. is it a proper prefix of some file's key? -/
def dirExists (fs : FS) (abs : Bool) (comps : List (List UInt8)) : Bool :=
  comps.isEmpty || fs.any (fun e =>
    let (a, kc) := keyComps e.1
    a == abs && comps.length < kc.length && kc.take comps.length == comps)

/-- walk the components of a path; `cur` is the current directory (reversed) -/
def walk (fs : FS) (abs : Bool) : List (List UInt8) → List (List UInt8) → Option (List (List UInt8))
  | [], cur => some cur.reverse
  | c :: rest, cur =>
    if c.isEmpty || c == [46] then
      (if dirExists fs abs cur.reverse then walk fs abs rest cur else none)
    else if c == [46, 46] then
      (if !dirExists fs abs cur.reverse then none
       else match cur with
         | _ :: up => walk fs abs rest up
         | [] => if abs then walk fs abs rest [] else none)   -- leaving the working directory: not modelled
    else
      if !dirExists fs abs cur.reverse then none
      else walk fs abs rest (c :: cur)

/-- `File::open(path)` for a regular file: its contents, or `none` (ENOENT, ENOTDIR, …) -/
def openFile (fs : FS) (p : Path) : Option (List UInt8) :=
  if p.isEmpty then none
  else
    let abs := p.head? == some 47
    match walk fs abs (splitComps p) [] with
    | some comps =>
      -- a trailing separator or `.`/`..` as last component designates a directory
      let last := (splitComps p).getLast?.getD []
      if last.isEmpty || last == [46] || last == [46, 46] then none
      else match fs.find? (fun e => keyComps e.1 == (abs, comps)) with
        | some e => some e.2
        | none => none
    | none => none

/-- result of `compute_path` + `File::open` for an `$INCLUDE` seen in file `includer` -/
inductive Res where
  | opened (path : Path) (content : List UInt8)
  | failed                -- `File::open` failed: `FailedToOpenInclude`
  | noParent              -- `.expect("including file's path has no parent")` panics
  deriving Repr, DecidableEq, Inhabited

/-- how includes are resolved: includer's path → path in the directive → result -/
abbrev Resolver := Path → Path → Res

/-- the resolver of the modelled file system -/
def resolveFs (fs : FS) : Resolver := fun includer inc =>
  match computePath includer inc with
  | none => .noParent
  | some newPath =>
    match openFile fs newPath with
    | some content => .opened newPath content
    | none => .failed

/-! ### fs::Parser -/

inductive FsErrKind where
  | Syntax (k : Kind)
  | IncludesTooDeep
  | InvalidPath
  | FailedToOpenInclude
  | ModelStuck
  deriving Repr, DecidableEq, Inhabited

/-- items of `fs::Parser`: `Ok(Line {path, number, record})` or `Err(Error {path, kind})`
    (`line` = the line the error kind carries) -/
inductive FsYield where
  | record (path : Path) (line : Nat) (r : Rec)
  | err (path : Path) (kind : FsErrKind) (line : Nat)
  | panic
  deriving Repr, DecidableEq, Inhabited

/-- one entry of `files: Vec<(Rc<Path>, usize, super::Parser<File>)>` -/
structure Frame where
  path : Path
  includedFrom : Nat
  parser : Parser
  deriving Repr, DecidableEq, Inhabited

/-- `fs::Parser`; `files` has the top of the stack first -/
structure FsParser where
  files : List Frame
  maxDepth : Nat
  deriving Repr, DecidableEq, Inhabited

/-- `fs::Parser::open(path, max_depth)` once `File::open(path)` has returned `content` -/
def FsParser.start (path : Path) (content : List UInt8) (maxDepth : Nat) : FsParser :=
  ⟨[⟨path, 0, Parser.new content⟩], maxDepth⟩

inductive Step where
  | done (m : FsParser)                    -- `return None`
  | yield (y : FsYield) (m : FsParser)     -- `return Some(..)`
  | again (m : FsParser)                   -- `return self.next()`
  deriving Repr, Inhabited

/-- one pass through the body of `fs::Parser::next` (up to its `return`) -/
def step (res : Resolver) (m : FsParser) : Step :=
  match m.files with
  | [] => .done m
  | top :: rest =>
    let depth := m.files.length - 1
    match top.parser.next with
    | (none, parser') =>
      -- EOF of the current file: pop, update the includer's context, try again
      match rest with
      | prev :: rest' =>
        .again { m with files := { prev with parser := prev.parser.updateContextFromInclude parser' } :: rest' }
      | [] => .done { m with files := [] }
    | (some (.err e), _) => .yield (.err top.path (.Syntax e.kind) e.line) { m with files := [] }
    | (some .panic, _) => .yield .panic { m with files := [] }
    | (some (.item (.record line r)), parser') =>
      .yield (.record top.path line r) { m with files := { top with parser := parser' } :: rest }
    | (some (.item (.incl line ipath origin)), parser') =>
      if depth ≥ m.maxDepth then .yield (.err top.path .IncludesTooDeep line) { m with files := [] }
      else match res top.path ipath with
        | .noParent => .yield .panic { m with files := [] }
        | .failed => .yield (.err top.path .FailedToOpenInclude line) { m with files := [] }
        | .opened newPath content =>
          .again { m with files := ⟨newPath, line, parser'.newForInclude content origin⟩
                                    :: { top with parser := parser' } :: rest }

/-- termination measure of the stack machine: a frame at depth `i` (0 = main file) with `r`
    octets left weighs `(r + 1) * B ^ (D - i)`; `B` exceeds every file size by at least 2, so
    pushing a whole new file one level deeper costs less than the octet the includer consumed. -/
def mu (B D : Nat) : List Frame → Nat
  | [] => 0
  | f :: rest => (f.parser.st.inp.length + 1) * B ^ (D - rest.length) + mu B D rest

/-- `fs::Parser::next`.  `B` must exceed the size of every file that can be opened by 2 (see
    `mu`); a recursive call that did not decrease the measure would mean unbounded recursion in
    the Rust code: `ModelStuck` (proved unreachable in `QV.C25`). -/
def FsParser.next (res : Resolver) (B : Nat) (m : FsParser) : Option FsYield × FsParser :=
  match step res m with
  | .done m' => (none, m')
  | .yield y m' => (some y, m')
  | .again m' =>
    if mu B m'.maxDepth m'.files < mu B m.maxDepth m.files then FsParser.next res B m'
    else (some (.err [] .ModelStuck 0), { m with files := [] })
termination_by mu B m.maxDepth m.files

/-- everything the iterator yields -/
def runFs (res : Resolver) (B : Nat) (m : FsParser) : List FsYield :=
  match step res m with
  | .done _ => []
  | .yield y m' =>
    if mu B m'.maxDepth m'.files < mu B m.maxDepth m.files then y :: runFs res B m'
    else [y, .err [] .ModelStuck 0]
  | .again m' =>
    if mu B m'.maxDepth m'.files < mu B m.maxDepth m.files then runFs res B m'
    else [.err [] .ModelStuck 0]
termination_by mu B m.maxDepth m.files

/-- `B` for a modelled file system -/
def fsBound (fs : FS) : Nat := fs.foldl (fun a e => max a e.2.length) 0 + 2

end QV.Inc
