/-
  QV.Model.ReloadView — the glue between the reload model and the per-zone specification:
  how a catalog entry is read as a zone state, and what one zone sees of one step of the
  daemon's history. Definitions only (used by the theorems of C31 *and* by the driver's oracle,
  so that what is proved and what is run cannot drift apart). Core Lean + Std only.
-/
import QV.Model.Reload
import QV.Spec.Catalog
import QV.Spec.Reload
import QV.Generated.Reload

namespace QV.Reload
open QV QV.Catalog QV.Spec.Catalog QV.Spec.Reload

/-! ### glue: from the model's vocabulary to the specification's -/

/-- the key a zone configuration is served under -/
def cfgKey (zc : ZoneConfig) : Key := (zc.cls, foldName zc.name)

/-- what a catalog entry means for the zone: served from data, or SERVFAIL -/
def stateOf (e : CEntry) : SZone :=
  if e.kind = .Loaded then .good e.zone e.md.path e.md.mtime else .failed

def statOf : MetaRes → Stat
  | .ok t => .mtime t
  | .err => .unreadable
  | .unsupported => .noMtime

def loadOf : LoadRes → Option Nat
  | .ok d => some d
  | .fail => none

/-- what a reload finds for the zone configured by `zc` -/
def viewOfCfg (fs : FS) (zc : ZoneConfig) : ZView := ⟨zc.path, statOf (fs.stat zc.path), loadOf (fs.load zc)⟩

/-- the configuration in force for key `k`: the last one in the list with that key
    (`config.rs` rejects configurations in which a key occurs twice, see `C31` header) -/
def lastCfg (k : Key) : List ZoneConfig → Option ZoneConfig
  | [] => none
  | zc :: r =>
    match lastCfg k r with
    | some x => some x
    | none => if cfgKey zc = k then some zc else none

/-- one zone's view of one step of the daemon's history -/
def viewOf (k : Key) : Step → Event
  | .reload zones fs =>
    match lastCfg k zones with
    | some zc => .configured (viewOfCfg fs zc)
    | none => .unconfigured
  | .configError => .configError

/-- the shape of the signal loop in the repository under test (tools/extract_reload.py reads it
    off src/bin/quandaryd/run.rs on every run) -/
def codeShape : LoopShape :=
  ⟨Gen.reloadStartupInstallsCatalog, Gen.reloadLoopThreadsCatalog, Gen.reloadInstallsCatalog,
   Gen.reloadBaselineIsCurrent⟩

end QV.Reload
