/-
  C07 — Zone selection and RCODEs for unsupported queries.

  "Well-formed requests with an opcode other than QUERY, and queries with QCLASS ANY or QTYPE AXFR,
   IXFR, MAILA or MAILB, get NOTIMP regardless of the catalog. Any other query is answered from the
   catalog entry of its class whose name is the longest suffix of the QNAME: no such entry gives
   REFUSED, and an entry that is not loaded or failed to load gives SERVFAIL. All of these NOTIMP,
   REFUSED and SERVFAIL responses carry no records besides OPT/TSIG and have AA clear."

  Model: `QV.Server.handleMessage` (src/server/mod.rs, src/server/query.rs `handle_query`) over the
  catalog model of C22 (src/db/hash_map_tree/catalog.rs).  Spec: `specScanWith`'s decision table and
  `specErrorResponse`; the catalog lookup is C22's `IsLongestMatch`.

  Proved, for every configuration, transport, buffer and request:
  * `C07_decision` — the decision table itself (which verdict for which opcode/QTYPE/QCLASS/catalog
    state), for requests whose scan reaches the dispatch;
  * `C07_response` — for each of the three verdicts the response exists and is exactly
    `specErrorResponse`: that RCODE, ANCOUNT = NSCOUNT = 0, nothing after the question but the OPT
    record (iff the scan reached one), AA and TC clear;
  * `C07_catalog_longest` — the entry consulted is the entry of QCLASS whose name is the longest
    suffix of QNAME among the entries inserted (C22's theorem applied to the server's catalog).
  For requests that carry a TSIG record reaching TSIG processing (verdict `tsigReached`; C10 decides
  whether the TSIG step authenticates):
  * `C07_after_verified_tsig` — whenever the TSIG step authenticates, the *same* decision table
    (`endVerdict`, by `specTail_done` literally the table of `specScanWith`) is applied, and for
    NOTIMP / REFUSED / SERVFAIL the response is `finish` of the writer the TSIG step left with only
    the RCODE set;
  * `C07_signed_response` — and on the octets: the response exists, has exactly that RCODE, ANCOUNT =
    NSCOUNT = 0, AA and TC clear, ARCOUNT = (OPT ? 2 : 1), and after the question nothing but the OPT
    record (iff the scan reached one) followed by the TSIG record (TYPE 250, CLASS ANY, TTL 0, RDATA per
    RFC 8945 §4.2, MAC over exactly the octets before it), which is last (`Proofs/FinishTsig`,
    `Proofs/ServerSigned`: `finish` read backwards in every compression mode).
  `theorem C07 : C07_full` — both halves.  The one thing the octet statement leaves symbolic is the
  TSIG record's owner: it is the key name as `write_hinted_name` wrote it, literally or as a literal
  prefix plus a compression pointer (`NameShape`); that a compressed owner *decodes* to the key name
  is the writer's compression theorem (C12/C13), not restated here.
-/
import QV.Proofs.ServerProps
import QV.Proofs.ScanTsigCont
import QV.Proofs.ServerSigned
import QV.Properties.C22

namespace QV.C07
open QV QV.Spec.Server QV.ServerScan

/-- a response without data: no answer, no authority, and after the question nothing but the OPT -/
structure NoData (p : Nat) (sc : Scan) (b : Bytes) : Prop where
  an : hdr b 6 = 0
  ns : hdr b 8 = 0
  ar : hdr b 10 = (if sc.edns then 1 else 0)
  rest : b.toList.drop 12 = specQuestionOctets sc.question ++ specOptOctets p sc
  aa : hdr b 2 / 1024 % 2 = 0
  tc : hdr b 2 / 512 % 2 = 0

/-- C07 at full strength: unsigned requests (the verdict of the scan is one of the three), and
    TSIG-signed requests that the TSIG step authenticates (the same decision table, applied after the
    TSIG record).  Requests that fail authentication get NOTAUTH / FORMERR from the TSIG step: C10. -/
def C07_full : Prop :=
  ∀ (cfg : Server.Cfg) (tr : Server.Transport) (now bufLen : Nat) (req : Bytes),
    minBuf tr cfg.payload ≤ bufLen → 512 ≤ cfg.payload → req.size ≤ Rdata.USIZE_MAX →
    (∀ v, (v = Verdict.notImp ∨ v = .refused ∨ v = .servFailZone) →
      (specScanWith (catKind cfg) cfg.payload req).respond = true →
      (specScanWith (catKind cfg) cfg.payload req).verdict = v →
      ∃ b, Server.handleMessage cfg tr now bufLen req = .ok (some b) ∧
        hdr b 2 % 16 = (verdictRcode v).1 ∧ NoData cfg.payload (specScanWith (catKind cfg) cfg.payload req) b) ∧
    -- signed requests (well-formed configuration, clock below 2^48 s: C01's hypotheses)
    (ServerSafety.CfgWF cfg → now < 2^48 →
      (specScanWith (catKind cfg) cfg.payload req).respond = true →
      (specScanWith (catKind cfg) cfg.payload req).verdict = .tsigReached →
      ∃ (t : Tsig.ReadTsigRr) (mw : Bytes) (r' : Reader.Reader), r'.octets = req ∧ r'.cursor ≤ req.size ∧
        ∀ r'' S, Server.tsigAfter cfg now t mw r' (preTsigState cfg tr bufLen req) = (.ok (some r''), S) →
        ∀ v, (v = Verdict.notImp ∨ v = .refused ∨ v = .servFailZone) →
          endVerdict (catKind cfg) req.size (specScanWith (catKind cfg) cfg.payload req).question
            r'.cursor ((req.getD 2 0).toNat / 8 % 16) = v →
          ∃ b, Server.handleMessage cfg tr now bufLen req = .ok (some b) ∧
            SignedNoData cfg.payload (specScanWith (catKind cfg) cfg.payload req) (verdictRcode v).1 b)

/-! ### the decision table -/

/-- **Theorem (decision table).** For a request whose three record sections scan cleanly to the end
    of the message: an opcode other than QUERY gives NOTIMP; a QUERY for QTYPE 251–254 (IXFR, AXFR,
    MAILB, MAILA) or QCLASS 255 gives NOTIMP whatever the catalog says; otherwise the catalog
    decides — no entry: REFUSED; entry not loaded / failed: SERVFAIL; loaded: it answers. -/
theorem C07_decision (lookup : List UInt8 → Nat → Option ZoneKind) (S : Nat) (msg : Bytes)
    (q : Spec.DQuestion) (p1 an ns ar opcode p2 p3 : Nat) (e : Bool) (l : Nat)
    (h1 : scanPlain msg (an + ns) p1 = some p2) (h2 : scanAr msg S ar ar p2 false 512 = (.done p3, e, l))
    (h3 : ¬ p3 < msg.size) :
    (specTail lookup S msg (some q) p1 an ns ar opcode).verdict =
      if opcode ≠ 0 then .notImp
      else if 251 ≤ q.qtype ∧ q.qtype ≤ 254 then .notImp
      else if q.qclass = 255 then .notImp
      else match lookup q.qname q.qclass with
        | none => .refused
        | some .loaded => .answer
        | some _ => .servFailZone := by
  unfold specTail
  simp only [h1, h2, h3, if_false]
  repeat' split
  all_goals simp_all

/-! ### the responses -/

/-- **Theorem.** Whenever the scan's verdict is NOTIMP, REFUSED or SERVFAIL (zone not loaded), the
    server responds, with exactly that RCODE, no answer or authority records, no additional record
    except the OPT (present iff the scan reached an OPT), and AA and TC clear. -/
theorem C07_response (cfg : Server.Cfg) (tr : Server.Transport) (now bufLen : Nat) (req : Bytes)
    (hbuf : minBuf tr cfg.payload ≤ bufLen) (hpay : 512 ≤ cfg.payload) (hreq : req.size ≤ Rdata.USIZE_MAX)
    (hr : (specScanWith (catKind cfg) cfg.payload req).respond = true)
    (v : Verdict) (hv : v = .notImp ∨ v = .refused ∨ v = .servFailZone)
    (hsv : (specScanWith (catKind cfg) cfg.payload req).verdict = v) :
    ∃ b, Server.handleMessage cfg tr now bufLen req = .ok (some b) ∧
      b.toList = specErrorResponse req cfg.payload (specScanWith (catKind cfg) cfg.payload req) ∧
      hdr b 2 % 16 = (verdictRcode v).1 ∧ NoData cfg.payload (specScanWith (catKind cfg) cfg.payload req) b := by
  have hnd : noDataV (specScanWith (catKind cfg) cfg.payload req).verdict = true := by
    rw [hsv]; rcases hv with rfl | rfl | rfl <;> rfl
  obtain ⟨b, hb, hl⟩ := server_error_response cfg tr now bufLen req hbuf hpay hreq hr hnd
  obtain ⟨_, _, h2, h3, _, han, hns, har, hrest⟩ := errResp_facts _ _ _ _ hl
  obtain ⟨_, _, f3, f4, _, _, _, f8⟩ := flags_facts b req _ (verdictRcode_lt _) h2 h3
  exact ⟨b, hb, hl, by rw [f8, hsv], han, hns, har, hrest, f3, f4⟩

/-! ### after a TSIG record that verifies -/

/-- **Theorem (signed requests).** For a request whose scan reaches a well-formed TSIG record there
    are the TSIG record `t`, the message without it `mw` and the reader `r'` after it such that:
    if the TSIG step authenticates (returns a reader, leaving the writer `S`; C10 says exactly when)
    and the decision table gives NOTIMP, REFUSED or SERVFAIL-for-a-zone-not-loaded, then the
    response is `finish` of `S` with that RCODE set and nothing else changed. -/
theorem C07_after_verified_tsig (cfg : Server.Cfg) (tr : Server.Transport) (now bufLen : Nat) (req : Bytes)
    (hbuf : minBuf tr cfg.payload ≤ bufLen) (hpay : 512 ≤ cfg.payload) (hreq : req.size ≤ Rdata.USIZE_MAX)
    (hr : (specScanWith (catKind cfg) cfg.payload req).respond = true)
    (hv : (specScanWith (catKind cfg) cfg.payload req).verdict = .tsigReached) :
    ∃ (t : Tsig.ReadTsigRr) (mw : Bytes) (r' : Reader.Reader), r'.octets = req ∧ r'.cursor ≤ req.size ∧
      ∀ r'' S, Server.tsigAfter cfg now t mw r' (preTsigState cfg tr bufLen req) = (.ok (some r''), S) →
        ∀ v, (v = Verdict.notImp ∨ v = .refused ∨ v = .servFailZone) →
        endVerdict (catKind cfg) req.size (specScanWith (catKind cfg) cfg.payload req).question
          r'.cursor ((req.getD 2 0).toNat / 8 % 16) = v →
        Server.handleMessage cfg tr now bufLen req =
          match Writer.finish (Writer.stRcode (verdictRcode v).1 S) Server.macFn with
          | .ok (bytes, _) => .ok (some bytes)
          | _ => .panic := by
  obtain ⟨t, mw, r', h1, h2, h3⟩ := handleMessage_after_tsig cfg tr now bufLen req hbuf hpay hreq hr hv
  refine ⟨t, mw, r', h1, h2, fun r'' S hT v hvv hev => ?_⟩
  have := h3 r'' S hT (by rw [hev]; rcases hvv with rfl | rfl | rfl <;> simp)
  rw [this, hev]
  rcases hvv with rfl | rfl | rfl <;> rfl

/-- **Theorem (signed requests, on the octets).** For a request whose scan reaches a well-formed
    TSIG record: if the TSIG step authenticates it and the decision table gives NOTIMP, REFUSED or
    SERVFAIL-for-a-zone-not-loaded, the server responds with exactly that RCODE, no answer or
    authority records, AA and TC clear, and after the question only the OPT record (iff the scan
    reached one) and the TSIG record, which is last. -/
theorem C07_signed_response (cfg : Server.Cfg) (hcfg : ServerSafety.CfgWF cfg) (tr : Server.Transport)
    (now bufLen : Nat) (req : Bytes)
    (hbuf : minBuf tr cfg.payload ≤ bufLen) (hpay : 512 ≤ cfg.payload) (hreq : req.size ≤ Rdata.USIZE_MAX)
    (hnow : now < 2^48)
    (hr : (specScanWith (catKind cfg) cfg.payload req).respond = true)
    (hv : (specScanWith (catKind cfg) cfg.payload req).verdict = .tsigReached) :
    ∃ (t : Tsig.ReadTsigRr) (mw : Bytes) (r' : Reader.Reader), r'.octets = req ∧ r'.cursor ≤ req.size ∧
      ∀ r'' S, Server.tsigAfter cfg now t mw r' (preTsigState cfg tr bufLen req) = (.ok (some r''), S) →
      ∀ v, (v = Verdict.notImp ∨ v = .refused ∨ v = .servFailZone) →
        endVerdict (catKind cfg) req.size (specScanWith (catKind cfg) cfg.payload req).question
          r'.cursor ((req.getD 2 0).toNat / 8 % 16) = v →
        ∃ b, Server.handleMessage cfg tr now bufLen req = .ok (some b) ∧
          SignedNoData cfg.payload (specScanWith (catKind cfg) cfg.payload req) (verdictRcode v).1 b := by
  obtain ⟨t, mw, r', h1, h2, h3⟩ := signed_noData_full cfg hcfg tr now bufLen req hbuf hpay hreq hnow hr hv
  exact ⟨t, mw, r', h1, h2, fun r'' S hT v hvv hev =>
    h3 r'' S hT v (by rcases hvv with h | h | h <;> simp [h]) hev⟩

/-! ### the catalog entry used -/

/-- the history of catalog operations that builds the server's catalog: one insert per entry -/
def catOps (zs : List Server.ZoneEntry) : List (Catalog.Op Unit) :=
  zs.zipIdx.map (fun p => Catalog.Op.insert ⟨p.1.apex.labels, p.1.cls, p.1.kind, p.2, ()⟩)

theorem mkCatalog_eq_run (zs : List Server.ZoneEntry) : Server.mkCatalog zs = Catalog.run (catOps zs) := by
  unfold Server.mkCatalog Catalog.run catOps
  rw [List.foldl_map]
  rfl

/-- **Theorem.** The catalog entry `handle_query` consults for `(qname, qclass)` is the entry of that
    class whose name is the longest suffix (label-wise, ASCII case-insensitively) of the QNAME among
    the entries inserted — `none` exactly when no entry's name is a suffix (C22). -/
theorem C07_catalog_longest (cfg : Server.Cfg) (qn : Writer.WName) (qclass : Nat) :
    Spec.Catalog.IsLongestMatch (Catalog.specRun (catOps cfg.zones)) qclass
      (Spec.Catalog.foldName qn.labels) (Catalog.lookup (Server.mkCatalog cfg.zones) qn.labels qclass) := by
  rw [mkCatalog_eq_run]
  exact C22.C22_lookup_longest (catOps cfg.zones) qn.labels qclass

/-! ### C07 -/

/-- **C07 holds at full strength.** -/
theorem C07 : C07_full := by
  intro cfg tr now bufLen req hbuf hpay hreq
  refine ⟨fun v hvv hr hsv => ?_, fun hcfg hnow hr hv =>
    C07_signed_response cfg hcfg tr now bufLen req hbuf hpay hreq hnow hr hv⟩
  obtain ⟨b, hb, _, h2, h3⟩ := C07_response cfg tr now bufLen req hbuf hpay hreq hr v hvv hsv
  exact ⟨b, hb, h2, h3⟩

/-! ### non-vacuity -/

def exCfg : Server.Cfg := { payload := 1232, zones := [] }
/-- catalog: `.` class IN not yet loaded -/
def exCfgN : Server.Cfg := { payload := 1232, zones := [⟨⟨[]⟩, 1, .NotYetLoaded, default⟩] }
/-- `. IN NS` -/
def exQuery : Bytes := #[0x12, 0x34, 0x01, 0x00, 0, 1, 0, 0, 0, 0, 0, 0, 0, 0, 2, 0, 1]
/-- `. IN AXFR` (QTYPE 252) -/
def exAxfr : Bytes := #[0x12, 0x34, 0x00, 0x00, 0, 1, 0, 0, 0, 0, 0, 0, 0, 0, 252, 0, 1]
/-- opcode 4 (NOTIFY), no question -/
def exNotify : Bytes := #[0, 1, 0x20, 0, 0, 0, 0, 0, 0, 0, 0, 0]

example : (specScanWith (catKind exCfg) 1232 exQuery).verdict = .refused := by decide +kernel
example : (specScanWith (catKind exCfgN) 1232 exQuery).verdict = .servFailZone := by decide +kernel
example : (specScanWith (catKind exCfgN) 1232 exAxfr).verdict = .notImp := by decide +kernel
example : (specScanWith (catKind exCfg) 1232 exNotify).verdict = .notImp := by decide +kernel

/-- the theorem applies to a concrete query against a not-yet-loaded zone: SERVFAIL, no records -/
example : ∃ b, Server.handleMessage exCfgN .tcp 0 65535 exQuery = .ok (some b) ∧
    b.toList = [0x12, 0x34, 0x81, 0x02, 0, 1, 0, 0, 0, 0, 0, 0, 0, 0, 2, 0, 1] := by
  obtain ⟨b, hb, hl, _⟩ := C07_response exCfgN .tcp 0 65535 exQuery (by decide) (by decide) (by decide)
    (by decide +kernel) .servFailZone (Or.inr (Or.inr rfl)) (by decide +kernel)
  exact ⟨b, hb, by rw [hl]; decide +kernel⟩

end QV.C07
