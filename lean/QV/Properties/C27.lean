/-
  C27 — Rate limiting groups responses into the documented streams.

  "Two responses share a rate-limit stream exactly when their sources fall in the same configured
   IPv4 or IPv6 prefix (IPv4-mapped IPv6 counting as IPv4) and they have the same category, where
   NOERROR responses must also share the QNAME (ignoring case) or wildcard source of synthesis,
   and NXDOMAIN and all other RCODEs form one stream each per prefix. TCP responses and responses
   to non-QUERY opcodes are never limited."

  Model: `QV.Model.Rrl` (`keyOf`, `ipToDestU64`, `ReceivedInfo.new`, `subjectToRrl`).
  Spec:  `QV.Spec.Rrl.SameStream`, `Limitable` — on source addresses as numbers, prefix lengths,
         the RCODE and the lower-cased QNAME-or-source-of-synthesis.

  The table stores a 32-bit hash of the name, not the name. "Exactly when" therefore needs
  `HashInjectiveOn` for the names involved (one direction — same stream ⇒ same key — holds
  unconditionally); the correspondence run counts the histories outside it (none so far: 2⁻³²
  per pair). That the *decisions* follow the streams is `C26_history`, re-exported below.
-/
import QV.Properties.C26

namespace QV.C27
open QV QV.Rrl

/-! ### what is limitable -/

/-- a response is subject to rate limiting iff it is going to be sent, came over UDP, and
    answers opcode QUERY -/
theorem C27_subject_iff (c : Context) (s : IpAddr) (t : Nat) :
    subjectToRrl c = true ↔ c.send_response = true ∧ Spec.Rrl.Limitable (toSpecResponse s c t) :=
  subject_iff c s t

/-- TCP responses are never limited: `process_response` changes neither the table nor the response -/
theorem C27_tcp_never_limited (rs : RandomState) (R : Rrl) (now : Nat) (rnd : Bool) (c : Context)
    (h : c.transport = .Tcp) : processResponse rs R now rnd c = .ok (R, c) := by
  apply processResponse_not_subject
  simp [subjectToRrl, h, Gen.RRL_LIMITED_TRANSPORT_IS_UDP]

/-- responses to non-QUERY opcodes are never limited -/
theorem C27_non_query_never_limited (rs : RandomState) (R : Rrl) (now : Nat) (rnd : Bool) (c : Context)
    (h : c.opcode ≠ 0) : processResponse rs R now rnd c = .ok (R, c) := by
  apply processResponse_not_subject
  simp [subjectToRrl, h, Gen.RRL_LIMITED_OPCODE]

/-- … and they do not use up tokens: they leave no trace in any later decision either (the table
    is returned unchanged), nor does a request that gets no response at all -/
theorem C27_no_response_no_trace (rs : RandomState) (R : Rrl) (now : Nat) (rnd : Bool) (c : Context)
    (h : c.send_response = false) : processResponse rs R now rnd c = .ok (R, c) := by
  apply processResponse_not_subject
  simp [subjectToRrl, h]

/-! ### keys -/

/-- the key `process_response` computes is `keyFn`, for every context (a NOERROR response without
    question — possible, D17 — is keyed under the root name) -/
theorem C27_key_computed (rs : RandomState) (p : RrlParams) (c : Context) :
    keyOf rs p c = .ok (keyFn rs p c) :=
  keyOf_ok rs p c

/-- **Key equality, as coded**: same address family (after the IPv4-mapped canonicalisation),
    same masked destination, same category, and for NOERROR the same 32-bit QNAME hash — nothing
    else (NXDOMAIN and the other RCODEs ignore the QNAME altogether). -/
theorem C27_key_eq_iff (rs : RandomState) (p : RrlParams) (c₁ c₂ : Context) :
    keyFn rs p c₁ = keyFn rs p c₂ ↔
      (c₁.source.isIpv6 = c₂.source.isIpv6 ∧ ipToDestU64 p c₁.source = ipToDestU64 p c₂.source) ∧
      Category.ofExtendedRcode c₁.extended_rcode = Category.ofExtendedRcode c₂.extended_rcode ∧
      (Category.ofExtendedRcode c₁.extended_rcode = .NoError →
        rs.hashName (lowerName c₁.streamName) = rs.hashName (lowerName c₂.streamName)) :=
  keyFn_eq_iff rs p c₁ c₂

/-- the three categories are NOERROR, NXDOMAIN, and everything else -/
theorem C27_categories (rcode : Nat) :
    (Category.ofExtendedRcode rcode = .NoError ↔ rcode = 0) ∧
    (Category.ofExtendedRcode rcode = .NxDomain ↔ rcode = 3) ∧
    (Category.ofExtendedRcode rcode = .Error ↔ rcode ≠ 0 ∧ rcode ≠ 3) := by
  unfold Category.ofExtendedRcode Gen.rrlCategoryCode
  by_cases h0 : rcode = 0
  · simp [h0]
  · by_cases h3 : rcode = 3
    · simp [h3]
    · simp [h0, h3]

/-! ### netmasks: every prefix length -/

/-- the netmask `set_ipv4_prefix_len(len)` installs has exactly the `len` leading bits set -/
theorem C27_ipv4_netmask_value (len : Nat) (h1 : 1 ≤ len) (h2 : len ≤ 32) :
    (ipv4MaskOfLen len).toNat = 2 ^ 32 - 2 ^ (32 - len) :=
  ipv4MaskOfLen_toNat len h1 h2

/-- **IPv4, all lengths 1..32**: masked addresses are equal iff the addresses agree on their
    first `len` bits -/
theorem C27_ipv4_masked_eq_iff (len : Nat) (h1 : 1 ≤ len) (h2 : len ≤ 32) (a b : UInt32) :
    a &&& ipv4MaskOfLen len = b &&& ipv4MaskOfLen len ↔ Spec.Rrl.samePrefix 32 len a.toNat b.toNat :=
  ipv4_masked_eq_iff len h1 h2 a b

/-- **IPv6, all lengths 1..64**, on the first eight octets -/
theorem C27_ipv6_masked_eq_iff (len : Nat) (h1 : 1 ≤ len) (h2 : len ≤ 64) (a b : UInt64) :
    a &&& ipv6MaskOfLen len = b &&& ipv6MaskOfLen len ↔ Spec.Rrl.samePrefix 64 len a.toNat b.toNat :=
  ipv6_masked_eq_iff len h1 h2 a b

/-- **Destinations, all lengths 0..32 / 0..64 including the `len = 0` special case**: same
    family and same `ip_to_dest_u64` iff the two addresses, as 32-bit resp. 128-bit numbers, agree
    on the configured number of leading bits. -/
theorem C27_dest_eq_iff {p : RrlParams} {v4len v6len : Nat} (hm : MasksOf p v4len v6len) (a b : IpAddr) :
    (a.isIpv6 = b.isIpv6 ∧ ipToDestU64 p a = ipToDestU64 p b) ↔
      (match a.toSpec, b.toSpec with
       | .v4 x, .v4 y => Spec.Rrl.samePrefix 32 v4len x y
       | .v6 x, .v6 y => Spec.Rrl.samePrefix 128 v6len x y
       | _, _ => False) :=
  dest_eq_iff hm a b

/-- `ReceivedInfo::new` implements "IPv4-mapped IPv6 counts as IPv4" -/
theorem C27_ipv4_mapped (src : IpAddr) : (ReceivedInfo.new src).toSpec = src.toSpec.canonical :=
  receivedInfo_toSpec src

/-! ### keys ↔ streams -/

/-- **Main theorem.** For every `RandomState`, every configuration whose netmasks come from
    prefix lengths `v4len ≤ 32`, `v6len ≤ 64`, and any two responses (sources as received, before
    canonicalisation): if the QNAME hash separates their two names, they get the same key — hence
    the same bucket entry — **exactly when** they belong to the same stream of the specification. -/
theorem C27_same_key_iff_same_stream (rs : RandomState) {p : RrlParams} {v4len v6len : Nat}
    (hm : MasksOf p v4len v6len) (s₁ s₂ : IpAddr) (c₁ c₂ : Context) (t₁ t₂ : Nat)
    (h₁ : c₁.source = ReceivedInfo.new s₁) (h₂ : c₂.source = ReceivedInfo.new s₂)
    (hinj : rs.hashName (lowerName c₁.streamName) = rs.hashName (lowerName c₂.streamName) →
      lowerName c₁.streamName = lowerName c₂.streamName) :
    keyFn rs p c₁ = keyFn rs p c₂ ↔
      Spec.Rrl.SameStream v4len v6len (toSpecResponse s₁ c₁ t₁) (toSpecResponse s₂ c₂ t₂) :=
  keyFn_eq_iff_sameStream rs hm s₁ s₂ c₁ c₂ t₁ t₂ h₁ h₂ hinj

/-- Without any assumption on the hash: responses of the same stream always share their key
    (a hash collision can only merge streams, never split one). -/
theorem C27_same_stream_same_key (rs : RandomState) {p : RrlParams} {v4len v6len : Nat}
    (hm : MasksOf p v4len v6len) (s₁ s₂ : IpAddr) (c₁ c₂ : Context) (t₁ t₂ : Nat)
    (h₁ : c₁.source = ReceivedInfo.new s₁) (h₂ : c₂.source = ReceivedInfo.new s₂)
    (h : Spec.Rrl.SameStream v4len v6len (toSpecResponse s₁ c₁ t₁) (toSpecResponse s₂ c₂ t₂)) :
    keyFn rs p c₁ = keyFn rs p c₂ := by
  rw [keyFn_eq_iff, dest_eq_iff hm]
  unfold Spec.Rrl.SameStream Spec.Rrl.sameNetwork toSpecResponse at h
  simp only [← receivedInfo_toSpec, ← h₁, ← h₂, ← category_toSpec, Category.toSpec_inj,
    ← lowerName_eq_foldCase] at h
  exact ⟨h.1, h.2.1, fun hn => by rw [h.2.2 ((Category.toSpec_inj _ .NoError).mpr hn)]⟩

/-- streams partition the responses: `SameStream` is an equivalence relation -/
theorem C27_sameStream_equivalence (v4len v6len : Nat) :
    (∀ r, Spec.Rrl.sameNetwork v4len v6len r.src r.src → Spec.Rrl.SameStream v4len v6len r r) ∧
    (∀ r₁ r₂, Spec.Rrl.SameStream v4len v6len r₁ r₂ → Spec.Rrl.SameStream v4len v6len r₂ r₁) ∧
    (∀ r₁ r₂ r₃, Spec.Rrl.SameStream v4len v6len r₁ r₂ → Spec.Rrl.SameStream v4len v6len r₂ r₃ →
      Spec.Rrl.SameStream v4len v6len r₁ r₃) := by
  refine ⟨fun r h => ⟨h, rfl, fun _ => rfl⟩, ?_, ?_⟩
  · intro r₁ r₂ ⟨hn, hc, hq⟩
    refine ⟨?_, hc.symm, fun h => (hq (hc ▸ h)).symm⟩
    unfold Spec.Rrl.sameNetwork at hn ⊢
    cases h1 : r₁.src.canonical <;> cases h2 : r₂.src.canonical <;>
      simp only [h1, h2, Spec.Rrl.samePrefix] at hn ⊢ <;> first | exact hn.symm | exact hn
  · intro r₁ r₂ r₃ ⟨hn, hc, hq⟩ ⟨hn', hc', hq'⟩
    refine ⟨?_, hc.trans hc', fun h => (hq h).trans (hq' (hc ▸ h))⟩
    unfold Spec.Rrl.sameNetwork at hn hn' ⊢
    cases h1 : r₁.src.canonical <;> cases h2 : r₂.src.canonical <;> cases h3 : r₃.src.canonical <;>
      simp only [h1, h2, h3, Spec.Rrl.samePrefix] at hn hn' ⊢ <;>
      first | exact hn.trans hn' | exact hn.elim | exact hn'.elim

/-- every address is in its own network (so `SameStream` is reflexive outright) -/
theorem C27_sameNetwork_refl (v4len v6len : Nat) (s : Spec.Rrl.Addr) : Spec.Rrl.sameNetwork v4len v6len s s := by
  unfold Spec.Rrl.sameNetwork
  cases h : s.canonical <;> simp [Spec.Rrl.samePrefix]

/-- **Decisions follow the streams** (= `C26_history`): over any history satisfying the hash-table
    hypotheses, whether a response is sent or limited is a function of the earlier limitable
    responses *of its stream* only. -/
theorem C27_decisions_follow_streams {rs : RandomState} {p : RrlParams} {v4len v6len : Nat} (hv : p.Valid)
    (hm : MasksOf p v4len v6len) (T₀ : Nat) (reqs : List Req)
    (hmono : Mono T₀ reqs) (hsrc : SourcesCanonical reqs)
    (hnc : NoBucketCollision rs p reqs) (hni : NoInitialKey rs p reqs) (hinj : HashInjectiveOn rs reqs) :
    runAll rs (Rrl.new p T₀) reqs =
      .ok (expectedFrom (specDecision (cfgOf p v4len v6len)) p [] reqs) :=
  C26.C26_history hv hm T₀ reqs hmono hsrc hnc hni hinj

/-! ### non-vacuity: concrete addresses -/

/-- 192.0.2.1 and 192.0.2.200 share a /24, 192.0.3.1 does not; `::ffff:192.0.2.9` counts as IPv4
    and is in the same /24; `::192.0.2.9` is a different family -/
example :
    Spec.Rrl.sameNetwork 24 56 (.v4 0xC0000201) (.v4 0xC00002C8) ∧
    ¬ Spec.Rrl.sameNetwork 24 56 (.v4 0xC0000201) (.v4 0xC0000301) ∧
    Spec.Rrl.sameNetwork 24 56 (.v4 0xC0000201) (.v6 0xFFFFC0000209) ∧
    ¬ Spec.Rrl.sameNetwork 24 56 (.v4 0xC0000201) (.v6 0xC0000209) := by decide

/-- the model agrees on these (instance of `C27_dest_eq_iff` + `C27_ipv4_mapped`) -/
example :
    ipToDestU64 C26.exParams (ReceivedInfo.new (.v4 0xC0000201)) =
      ipToDestU64 C26.exParams (ReceivedInfo.new (.v6 0 0xFFFFC0000209)) ∧
    (ReceivedInfo.new (.v6 0 0xFFFFC0000209)).isIpv6 = false ∧
    (ReceivedInfo.new (.v6 0 0xC0000209)).isIpv6 = true := by decide

/-- **Documented defaults.**  `RrlParams::new` without any call of the prefix setters groups
    sources by /24 (IPv4) and /56 (IPv6), as src/server/rrl.rs documents under "Defaults"
    (`ipv4_prefix_len: 24`, `ipv6_prefix_len: 56`); the two default netmask literals are read
    from the source by the extractor (`Gen.RRL_DEFAULT_IPV4_NETMASK/IPV6_NETMASK`), so every
    stream theorem above (`MasksOf p 24 56 → …`) applies to an unconfigured `RrlParams`. -/
theorem C27_default_masks {ne nx er w : Nat} {p : RrlParams}
    (h : RrlParams.new ne nx er w = .ok p) : MasksOf p 24 56 := by
  unfold RrlParams.new at h
  by_cases h1 : ne = 0 <;> simp only [h1, if_true, if_false] at h
  · cases h
  by_cases h2 : nx = 0 <;> simp only [h2, if_true, if_false] at h
  · cases h
  by_cases h3 : er = 0 <;> simp only [h3, if_true, if_false] at h
  · cases h
  by_cases h4 : w = 0 <;> simp only [h4, if_true, if_false] at h
  · cases h
  by_cases h5 : (u32MulOverflows ne w || u32MulOverflows nx w || u32MulOverflows er w) = true
  · rw [if_pos h5] at h; cases h
  · rw [if_neg h5] at h
    cases h
    exact ⟨by decide, by decide,
      show UInt32.ofNat Gen.RRL_DEFAULT_IPV4_NETMASK = _ by decide,
      show UInt64.ofNat Gen.RRL_DEFAULT_IPV6_NETMASK = _ by decide⟩

/-- `MasksOf` is satisfiable for every pair of lengths in range (the setters produce it) -/
example : MasksOf C26.exParams 24 56 := (C26.C26_configure_valid C26.exParams_configured).2.1

end QV.C27
