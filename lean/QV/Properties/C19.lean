/-
  C19 — RDATA equality is an equivalence and RRsets deduplicate by it.

  "For every class and type, RDATA equality is reflexive, symmetric and transitive, equals
   octet-wise equality except that embedded names of pre-RFC 3597 types compare case-insensitively
   when both RDATA are well formed, and falls back to octet-wise comparison when either is
   malformed. An RDATA set keeps, in insertion order, the first member of each equality class and
   nothing else."

  Model: `QV.Rdata.equals` (src/rr/rdata/mod.rs `Rdata::equals`, helpers.rs, std13.rs, srv.rs; the
  dispatch arms come from `QV.Generated.RdataDispatch`), `QV.RdataSet` (src/rr/rdata_set.rs).
  Spec: `QV.Spec.SpecEq`, `QV.Spec.firstOfEachClass`.
-/
import QV.Proofs.Rdata

namespace QV.C19
open QV QV.Rdata QV.Spec

/-- the Boolean the model computes, named: field-wise comparison along the RFC layout of the
    format if both sides split along it, octet-wise otherwise -/
def specEqB (c t : Nat) (a b : List UInt8) : Bool :=
  match layoutOf (fmtOf c t) with
  | some l => eqB l a b
  | none => decide (a = b)

theorem specEqB_iff (c t : Nat) (a b : List UInt8) : specEqB c t a b = true ↔ SpecEq c t a b := by
  unfold specEqB SpecEq
  cases layoutOf (fmtOf c t) with
  | none => simp
  | some l => exact eqB_iff l a b

theorem equals_specEqB (c t : Nat) (a b : Bytes) :
    equals c t a b = .ok (specEqB c t a.toList b.toList) := by
  rw [equals_eq]
  unfold specEqB
  cases h : fmtOf c t <;> simp only [equalsFmt, layoutOf]
  · exact namesEqual_eq a b
  · simp [bytesEq_iff]
  · exact equalsAsChA_eq a b
  · exact equalsAsSoa_eq a b
  · simp [bytesEq_iff]
  · simp [bytesEq_iff]
  · exact equalsAsMinfo_eq a b
  · exact equalsAsMx_eq a b
  · simp [bytesEq_iff]
  · simp [bytesEq_iff]
  · exact equalsAsInSrv_eq a b
  · simp [bytesEq_iff]
  · simp [bytesEq_iff]
  · simp [bytesEq_iff]

/-- **Main theorem (equality).** For every class, type and pair of octet strings — well formed or
    not — `Rdata::equals` neither panics nor fails, and answers `true` exactly when the
    specification's equality holds: field-wise with embedded names compared ASCII-case-insensitively
    when the type is a name-bearing pre-RFC 3597 type and both RDATA are well formed; octet-wise in
    every other case. -/
theorem C19_equals_iff_spec (c t : Nat) (a b : Bytes) :
    ∃ v, equals c t a b = .ok v ∧ (v = true ↔ SpecEq c t a.toList b.toList) :=
  ⟨_, equals_specEqB c t a b, specEqB_iff c t _ _⟩

/-- `Rdata::equals` never panics (no slice of `test_n_name_fields` or of the `equals_as_*`
    helpers is out of range, no `usize` subtraction underflows). -/
theorem C19_equals_no_panic (c t : Nat) (a b : Bytes) : equals c t a b ≠ .panic := by
  rw [equals_specEqB]; simp

/-- the specification's equality is an equivalence relation on *all* octet strings (its classes:
    the well-formed RDATA of a name-bearing type modulo letter case in names; every other octet
    string alone) -/
theorem C19_spec_equivalence (c t : Nat) :
    (∀ a, SpecEq c t a a) ∧ (∀ a b, SpecEq c t a b → SpecEq c t b a) ∧
    (∀ a b d, SpecEq c t a b → SpecEq c t b d → SpecEq c t a d) := by
  unfold SpecEq
  cases layoutOf (fmtOf c t) with
  | none => exact ⟨fun _ => rfl, fun _ _ h => h.symm, fun _ _ _ h1 h2 => h1.trans h2⟩
  | some l => exact ⟨layoutEq_refl l, fun _ _ h => layoutEq_symm h, fun _ _ _ h1 h2 => layoutEq_trans h1 h2⟩

/-- reflexive, for every class, type and octet string -/
theorem C19_equals_refl (c t : Nat) (a : Bytes) : equals c t a a = .ok true := by
  obtain ⟨v, hv, hiff⟩ := C19_equals_iff_spec c t a a
  rw [hv, hiff.mpr ((C19_spec_equivalence c t).1 _)]

/-- symmetric, for every class, type and pair of octet strings (the repaired defect D08:
    `names_equal` used to test `len == first.len()` only) -/
theorem C19_equals_symm (c t : Nat) (a b : Bytes) : equals c t a b = equals c t b a := by
  rw [equals_specEqB, equals_specEqB]
  congr 1
  have h1 := specEqB_iff c t a.toList b.toList
  have h2 := specEqB_iff c t b.toList a.toList
  have s := (C19_spec_equivalence c t).2.1
  cases e1 : specEqB c t a.toList b.toList <;> cases e2 : specEqB c t b.toList a.toList <;> simp_all

/-- transitive, for every class, type and triple of octet strings, across the valid / invalid
    boundary too -/
theorem C19_equals_trans (c t : Nat) (a b d : Bytes)
    (h1 : equals c t a b = .ok true) (h2 : equals c t b d = .ok true) : equals c t a d = .ok true := by
  rw [equals_specEqB] at h1 h2 ⊢
  simp only [Out.ok.injEq] at h1 h2 ⊢
  rw [specEqB_iff] at h1 h2 ⊢
  exact (C19_spec_equivalence c t).2.2 _ _ _ h1 h2

/-! ### non-vacuity and regression witnesses -/

/-- NS RDATA `\x01a\x00` and `\x01A\x00` are equal (names are case-insensitive) … -/
example : equals 1 2 #[1, 97, 0] #[1, 65, 0] = .ok true := by
  rw [equals_specEqB]; decide +kernel
