/-
  C19 — RDATA equality is an equivalence and RRsets deduplicate by it.

  "For every class and type, RDATA equality is reflexive, symmetric and transitive, equals
   octet-wise equality except that embedded names of pre-RFC 3597 types compare case-insensitively
   when both RDATA are well formed, and falls back to octet-wise comparison when either is
   malformed. An RDATA set keeps, in insertion order, the first member of each equality class and
   nothing else."

  Model: `QV.Rdata.equals` (src/rr/rdata/mod.rs `Rdata::equals`, helpers.rs, std13.rs, srv.rs; the
  dispatch arms come from `QV.Generated.RdataDispatch`), `QV.RdataSet` (src/rr/rdata_set.rs).
  Spec: `QV.Spec.SpecEq`, `QV.Spec.firstOfEachClass`.
-/
import QV.Proofs.Rdata
import QV.Proofs.RdataSet

namespace QV.C19
open QV QV.Rdata QV.Spec

/-- the Boolean the model computes, named: field-wise comparison along the RFC layout of the
    format if both sides split along it, octet-wise otherwise -/
def specEqB (c t : Nat) (a b : List UInt8) : Bool :=
  match layoutOf (fmtOf c t) with
  | some l => eqB l a b
  | none => decide (a = b)

theorem specEqB_iff (c t : Nat) (a b : List UInt8) : specEqB c t a b = true ↔ SpecEq c t a b := by
  unfold specEqB SpecEq
  cases layoutOf (fmtOf c t) with
  | none => simp
  | some l => exact eqB_iff l a b

theorem equals_specEqB (c t : Nat) (a b : Bytes) :
    equals c t a b = .ok (specEqB c t a.toList b.toList) := by
  rw [equals_eq]
  unfold specEqB
  cases h : fmtOf c t <;> simp only [equalsFmt, layoutOf]
  · exact namesEqual_eq a b
  · simp [bytesEq_iff]
  · exact equalsAsChA_eq a b
  · exact equalsAsSoa_eq a b
  · simp [bytesEq_iff]
  · simp [bytesEq_iff]
  · exact equalsAsMinfo_eq a b
  · exact equalsAsMx_eq a b
  · simp [bytesEq_iff]
  · simp [bytesEq_iff]
  · exact equalsAsInSrv_eq a b
  · simp [bytesEq_iff]
  · simp [bytesEq_iff]
  · simp [bytesEq_iff]

/-- **Main theorem (equality).** For every class, type and pair of octet strings — well formed or
    not — `Rdata::equals` neither panics nor fails, and answers `true` exactly when the
    specification's equality holds: field-wise with embedded names compared ASCII-case-insensitively
    when the type is a name-bearing pre-RFC 3597 type and both RDATA are well formed; octet-wise in
    every other case. -/
theorem C19_equals_iff_spec (c t : Nat) (a b : Bytes) :
    ∃ v, equals c t a b = .ok v ∧ (v = true ↔ SpecEq c t a.toList b.toList) :=
  ⟨_, equals_specEqB c t a b, specEqB_iff c t _ _⟩

/-- `Rdata::equals` never panics (no slice of `test_n_name_fields` or of the `equals_as_*`
    helpers is out of range, no `usize` subtraction underflows). -/
theorem C19_equals_no_panic (c t : Nat) (a b : Bytes) : equals c t a b ≠ .panic := by
  rw [equals_specEqB]; simp

/-- the specification's equality is an equivalence relation on *all* octet strings (its classes:
    the well-formed RDATA of a name-bearing type modulo letter case in names; every other octet
    string alone) -/
theorem C19_spec_equivalence (c t : Nat) :
    (∀ a, SpecEq c t a a) ∧ (∀ a b, SpecEq c t a b → SpecEq c t b a) ∧
    (∀ a b d, SpecEq c t a b → SpecEq c t b d → SpecEq c t a d) := by
  unfold SpecEq
  cases layoutOf (fmtOf c t) with
  | none => exact ⟨fun _ => rfl, fun _ _ h => h.symm, fun _ _ _ h1 h2 => h1.trans h2⟩
  | some l => exact ⟨layoutEq_refl l, fun _ _ h => layoutEq_symm h, fun _ _ _ h1 h2 => layoutEq_trans h1 h2⟩

/-- reflexive, for every class, type and octet string -/
theorem C19_equals_refl (c t : Nat) (a : Bytes) : equals c t a a = .ok true := by
  obtain ⟨v, hv, hiff⟩ := C19_equals_iff_spec c t a a
  rw [hv, hiff.mpr ((C19_spec_equivalence c t).1 _)]

/-- symmetric, for every class, type and pair of octet strings (the repaired defect D08:
    `names_equal` used to test `len == first.len()` only) -/
theorem C19_equals_symm (c t : Nat) (a b : Bytes) : equals c t a b = equals c t b a := by
  rw [equals_specEqB, equals_specEqB]
  congr 1
  have h1 := specEqB_iff c t a.toList b.toList
  have h2 := specEqB_iff c t b.toList a.toList
  have s := (C19_spec_equivalence c t).2.1
  cases e1 : specEqB c t a.toList b.toList <;> cases e2 : specEqB c t b.toList a.toList <;> simp_all

/-- transitive, for every class, type and triple of octet strings, across the valid / invalid
    boundary too -/
theorem C19_equals_trans (c t : Nat) (a b d : Bytes)
    (h1 : equals c t a b = .ok true) (h2 : equals c t b d = .ok true) : equals c t a d = .ok true := by
  rw [equals_specEqB] at h1 h2 ⊢
  simp only [Out.ok.injEq] at h1 h2 ⊢
  rw [specEqB_iff] at h1 h2 ⊢
  exact (C19_spec_equivalence c t).2.2 _ _ _ h1 h2

/-! ### non-vacuity and regression witnesses -/

/-- NS RDATA `\x01a\x00` and `\x01A\x00` are equal (names are case-insensitive) … -/
example : equals 1 2 #[1, 97, 0] #[1, 65, 0] = .ok true := by
  rw [equals_specEqB]; decide +kernel

/-- … while `\x01a\x00` and `\x01a\x00\xff` (trailing junk: malformed) are unequal in *both*
    orders — the witness of the repaired asymmetry (known_findings D08) -/
example : equals 1 2 #[1, 97, 0] #[1, 97, 0, 255] = .ok false ∧
          equals 1 2 #[1, 97, 0, 255] #[1, 97, 0] = .ok false := by
  rw [equals_specEqB, equals_specEqB]; decide +kernel

/-- two malformed NS RDATA that differ only in case are *not* equal (octet-wise fallback) -/
example : equals 1 2 #[1, 97, 0, 255] #[1, 65, 0, 255] = .ok false := by
  rw [equals_specEqB]; decide +kernel

/-- SOA: names case-insensitive, the 20 fixed octets exact -/
example : equals 1 6 (#[1, 97, 0, 0] ++ Array.replicate 20 7) (#[1, 65, 0, 0] ++ Array.replicate 20 7) = .ok true := by
  rw [equals_specEqB]; decide +kernel

/-! ## RDATA sets -/

open QV.RdataSet

/-- the encoding of a list of members (what `from_iter` builds when nothing is rejected) -/
abbrev encode := QV.RdataSet.encode

/-- **Encode / iterate round trip.** Iterating the length-prefixed encoding of any list of RDATA
    (each at most 65535 octets — the invariant of the `Rdata` type) yields exactly that list. -/
theorem C19_iter_encode (xs : List Bytes) (h : ∀ x ∈ xs, x.size ≤ 65535) : iter (encode xs) = xs :=
  iter_encode xs h

/-- **Main theorem (sets).** For every class and type and every non-empty list of RDATA (each at
    most 65535 octets), `RdataSetOwned::from_iter` succeeds without panicking, and iterating the
    resulting set yields, in insertion order, the first member of each equality class and nothing
    else — `firstOfEachClass` for any Boolean test `E` that decides the specification's equality. -/
theorem C19_set_first_of_each_class (c t : Nat) (xs : List Bytes) (hne : xs ≠ [])
    (hlen : ∀ x ∈ xs, x.size ≤ 65535)
    (E : Bytes → Bytes → Bool) (hE : ∀ x y, E x y = true ↔ SpecEq c t x.toList y.toList) :
    ∃ inner, fromIter c t xs = .ok (some inner) ∧ iter inner = firstOfEachClass E xs := by
  have hEq : ∀ x y, equals c t x y = .ok (E x y) := by
    intro x y
    rw [equals_specEqB]
    congr 1
    have := specEqB_iff c t x.toList y.toList
    have := hE x y
    cases h1 : specEqB c t x.toList y.toList <;> cases h2 : E x y <;> simp_all
  obtain ⟨_, hs, ht⟩ := C19_spec_equivalence c t
  have hsymm : ∀ x y, E x y = E y x := by
    intro x y
    have a := hE x y; have b := hE y x
    cases h1 : E x y <;> cases h2 : E y x <;> simp_all
  have htrans : ∀ x y z, E x y = true → E y z = true → E x z = true := by
    intro x y z h1 h2
    exact (hE x z).mpr (ht _ _ _ ((hE x y).mp h1) ((hE y z).mp h2))
  have h := insertAll_eq c t E hEq xs [] (by simp) hlen
  refine ⟨encode (dedupFold E [] xs), ?_, ?_⟩
  · cases xs with
    | nil => exact absurd rfl hne
    | cons x xs =>
      have e : (QV.RdataSet.encode [] : List UInt8) = [] := rfl
      rw [e] at h
      simp only [fromIter, h, Out.bind_ok]
  · have hd := dedupFold_eq E hsymm htrans xs []
    have e : ∀ l : List Bytes, List.filter (fun _ => true) l = l := by
      intro l; induction l with
      | nil => rfl
      | cons a l ih => simp
    simp only [List.nil_append, List.any_nil, Bool.not_false, e] at hd
    rw [hd]
    apply iter_encode
    intro x hx
    exact hlen x ((foec_sublist E xs).subset hx)

/-- an empty iterator gives no set -/
theorem C19_set_empty (c t : Nat) : fromIter c t [] = .ok none := rfl

/-- **What "first of each class" means** (properties of the specification, for any reflexive and
    transitive test): the kept list is a sublist of the input (insertion order, nothing invented),
    its members are pairwise inequivalent, and for every input member the *first* input member
    equivalent to it is kept. -/
theorem C19_first_of_each_class_spec {α} (E : α → α → Bool) (hrefl : ∀ x, E x x = true)
    (htrans : ∀ x y z, E x y = true → E y z = true → E x z = true) (xs : List α) :
    (firstOfEachClass E xs).Sublist xs ∧
    (firstOfEachClass E xs).Pairwise (fun a b => E a b = false) ∧
    (∀ x ∈ xs, ∃ y, xs.find? (fun y => E y x) = some y ∧ y ∈ firstOfEachClass E xs) :=
  ⟨foec_sublist E xs, foec_pairwise E xs, foec_first E hrefl htrans xs⟩

/-- non-vacuity: a Boolean test deciding `SpecEq` exists (the one the model computes), so the
    hypothesis of `C19_set_first_of_each_class` is satisfiable for every class and type -/
example (c t : Nat) : ∃ E : Bytes → Bytes → Bool, ∀ x y, E x y = true ↔ SpecEq c t x.toList y.toList :=
  ⟨fun x y => specEqB c t x.toList y.toList, fun x y => specEqB_iff c t _ _⟩

/-- a concrete set: CNAME `a.`, `A.`, `a.` keeps only the first (the crate's own unit test) … -/
example : ∃ inner, fromIter 1 5 [#[1, 97, 0], #[1, 65, 0], #[1, 97, 0]] = .ok (some inner) ∧
    iter inner = [#[1, 97, 0]] := by
  obtain ⟨inner, h1, h2⟩ := C19_set_first_of_each_class 1 5 [#[1, 97, 0], #[1, 65, 0], #[1, 97, 0]]
    (by simp) (by simp) (fun x y => specEqB 1 5 x.toList y.toList) (fun x y => specEqB_iff 1 5 _ _)
  refine ⟨inner, h1, ?_⟩
  rw [h2]; decide +kernel

end QV.C19
