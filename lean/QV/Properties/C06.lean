/-
  C06 — Zone lookups follow RFC 1034 and RFC 4592.

  "For any zone contents, name and lookup options, the zone store's single-type, address and
   all-records lookups return the outcome an independent model of RFC 1034 §4.3.2 and RFC 4592
   prescribes: found data (with the wildcard source of synthesis when one was used), a CNAME, a
   referral to the topmost delegation on the path, no records for existing or empty non-terminal
   names, a name error, or wrong-zone. Searching below zone cuts ignores delegations, and checked
   lookups reject names outside the zone."

  Model: `QV.Model.Zone` (mirrors src/db/hash_map_tree/{zone,node}.rs, src/db/rrset.rs).
  Spec: `QV.Spec.Zone` — a zone is a flat list of records; `specLookup*` / `BaseSpec`.
  Names are case-folded label lists (see `QV.Model.NameL`).
-/
import QV.Proofs.Zone

namespace QV.C06
open QV QV.NameL QV.Zone QV.Spec.Zone

/-- The property at full strength: for every add sequence (every reachable tree), every name,
    type and option combination whose precondition holds, the three lookups of the tree return
    exactly what the flat-list specification prescribes — and they do not panic. -/
def C06_full : Prop :=
  ∀ (eqv : Eqv) (apex : Name) (cls : Nat) (glue : GluePolicy) (rs : List Rec) (n : Name) (t : Nat) (o : Opts),
    constrained (specBuild eqv ⟨apex, cls, glue, []⟩ rs) n o = true →
      lookup (build eqv (Zone.new apex cls glue) rs) n t o
        = .ok (specLookup (specBuild eqv ⟨apex, cls, glue, []⟩ rs) n t o) ∧
      lookupAddrs (build eqv (Zone.new apex cls glue) rs) n o
        = .ok (specLookupAddrs (specBuild eqv ⟨apex, cls, glue, []⟩ rs) n o) ∧
      lookupAll (build eqv (Zone.new apex cls glue) rs) n o
        = .ok (specLookupAll (specBuild eqv ⟨apex, cls, glue, []⟩ rs) n o)

end QV.C06
