/-
  C06 — Zone lookups follow RFC 1034 and RFC 4592.

  "For any zone contents, name and lookup options, the zone store's single-type, address and
   all-records lookups return the outcome an independent model of RFC 1034 §4.3.2 and RFC 4592
   prescribes: found data (with the wildcard source of synthesis when one was used), a CNAME, a
   referral to the topmost delegation on the path, no records for existing or empty non-terminal
   names, a name error, or wrong-zone. Searching below zone cuts ignores delegations, and checked
   lookups reject names outside the zone."

  Model: `QV.Model.Zone` (mirrors src/db/hash_map_tree/{zone,node}.rs, src/db/rrset.rs).
  Spec: `QV.Spec.Zone` — a zone is a flat list of records; `specLookup*` (executable) and
  `BaseSpec` (declarative: existence, topmost cut, closest encloser, source of synthesis).
  Names are case-folded label lists (see `QV.Model.NameL`); RDATA equality for de-duplication
  is a parameter `eqv` (no assumption on it is needed for C06).

  Proof: `QV.Proofs.ZoneRefine` (refinement relation `Rel` between tree and flat list, preserved
  by every `add`), `QV.Proofs.ZoneLookup` (tree walk = flat walk = `specLookupBase`),
  `QV.Proofs.ZoneSpec` (`specLookupBase` satisfies `BaseSpec`, which is functional).
-/
import QV.Proofs.ZoneLookup

namespace QV.C06
open QV QV.NameL QV.Zone QV.Spec.Zone

/-- The property at full strength: for every add sequence (every reachable tree), every name,
    type and option combination whose precondition holds, the three lookups of the tree return
    exactly what the flat-list specification prescribes — and they do not panic. -/
def C06_full : Prop :=
  ∀ (eqv : Eqv) (apex : Name) (cls : Nat) (glue : GluePolicy) (rs : List Rec) (n : Name) (t : Nat) (o : Opts),
    constrained (specBuild eqv ⟨apex, cls, glue, []⟩ rs) n o = true →
      lookup (build eqv (Zone.new apex cls glue) rs) n t o
        = .ok (specLookup (specBuild eqv ⟨apex, cls, glue, []⟩ rs) n t o) ∧
      lookupAddrs (build eqv (Zone.new apex cls glue) rs) n o
        = .ok (specLookupAddrs (specBuild eqv ⟨apex, cls, glue, []⟩ rs) n o) ∧
      lookupAll (build eqv (Zone.new apex cls glue) rs) n o
        = .ok (specLookupAll (specBuild eqv ⟨apex, cls, glue, []⟩ rs) n o)

/-- **Main theorem**: C06 holds at full strength. -/
theorem C06_holds : C06_full := by
  intro eqv apex cls glue rs n t o hc
  have h := Rel.reachable eqv apex cls glue rs
  exact ⟨lookup_eq_spec h n t o hc, lookupAddrs_eq_spec h n o hc, lookupAll_eq_spec h n o hc⟩

/-- The node search of every reachable tree satisfies the *declarative* specification: wrong
    zone iff the name is not at or below the apex; otherwise a referral to the topmost delegation
    at or above the name (unless searching below cuts); otherwise the name's own RRsets if it
    exists (possibly none: empty non-terminal); otherwise the RRsets of `*.<closest encloser>`
    with that name as source of synthesis if it exists; otherwise a name error. -/
theorem C06_declarative (eqv : Eqv) (apex : Name) (cls : Nat) (glue : GluePolicy) (rs : List Rec) (n : Name)
    (o : Opts) (hc : constrained (specBuild eqv ⟨apex, cls, glue, []⟩ rs) n o = true) :
    ∃ b, lookupBase (build eqv (Zone.new apex cls glue) rs) n o = .ok b ∧
      BaseSpec (specBuild eqv ⟨apex, cls, glue, []⟩ rs) n o.searchBelowCuts b :=
  ⟨_, lookupBase_eq_spec (Rel.reachable eqv apex cls glue rs) n o hc, specLookupBase_sound _ _ _⟩

/-- … and that specification determines the outcome uniquely. -/
theorem C06_spec_functional (z : SZone) (n : Name) (sbc : Bool) (b b' : Base)
    (h : BaseSpec z n sbc b) (h' : BaseSpec z n sbc b') : b = b' := h.unique h'

/-- The executable oracle used by the correspondence check is the declarative specification. -/
theorem C06_oracle_iff (z : SZone) (n : Name) (sbc : Bool) (b : Base) :
    BaseSpec z n sbc b ↔ specLookupBase z n sbc = b :=
  ⟨fun h => (specLookupBase_sound z n sbc).unique h, fun h => h ▸ specLookupBase_sound z n sbc⟩

/-- Checked lookups reject names outside the zone (whatever the zone contains). -/
theorem C06_wrong_zone (eqv : Eqv) (apex : Name) (cls : Nat) (glue : GluePolicy) (rs : List Rec) (n : Name)
    (t : Nat) (sbc : Bool) (hn : ¬ apex <:+ n) :
    lookup (build eqv (Zone.new apex cls glue) rs) n t ⟨false, sbc⟩ = .ok .wrongZone := by
  have h := Rel.reachable eqv apex cls glue rs
  rw [lookup_eq_spec h n t ⟨false, sbc⟩ (by simp [constrained])]
  have ha : (specBuild eqv ⟨apex, cls, glue, []⟩ rs).apex = apex := (specBuild_fields eqv _ rs).1
  have : apex.isSuffixOf n = false := by
    cases he : apex.isSuffixOf n with
    | false => rfl
    | true => exact absurd (List.isSuffixOf_iff_suffix.mp he) hn
  simp [specLookup, specLookupBase, ha, this]

/-- Unchecked lookups answer exactly like checked ones whenever their precondition holds. -/
theorem C06_unchecked_same (eqv : Eqv) (apex : Name) (cls : Nat) (glue : GluePolicy) (rs : List Rec) (n : Name)
    (t : Nat) (sbc : Bool) (hn : apex <:+ n) :
    lookup (build eqv (Zone.new apex cls glue) rs) n t ⟨true, sbc⟩
      = lookup (build eqv (Zone.new apex cls glue) rs) n t ⟨false, sbc⟩ := by
  have h := Rel.reachable eqv apex cls glue rs
  have ha : (specBuild eqv ⟨apex, cls, glue, []⟩ rs).apex = apex := (specBuild_fields eqv _ rs).1
  rw [lookup_eq_spec h n t ⟨true, sbc⟩ (by simp [constrained, ha, List.isSuffixOf_iff_suffix.mpr hn]),
      lookup_eq_spec h n t ⟨false, sbc⟩ (by simp [constrained])]
  rfl

/-- The model's only panic: an unchecked lookup of a name with fewer labels than the apex
    (`name.len() - self.name().len()` underflows; LookupOptions allows this: "may panic"). -/
theorem C06_unchecked_panic_iff (z : Zone) (n : Name) (sbc : Bool) :
    lookupBase z n ⟨true, sbc⟩ = .panic ↔ n.length < z.apex.length := by
  unfold lookupBase
  by_cases h : n.length < z.apex.length <;> simp [h]

/-! ### non-vacuity: a concrete zone exercising wildcard synthesis, an empty non-terminal,
    a referral, search below the cut and a name error (RFC 4592 §2.2.1 in miniature) -/

def oct : Eqv := fun _ _ a b => a == b
def lz : Label := [122]
def la : Label := [97]
def lb : Label := [98]
def lx : Label := [120]
/-- `*.z TXT`, `b.a.z A` (so `a.z` is an empty non-terminal), `sub.z NS`, `x.sub.z A` (glue) -/
def exRecs : List Rec :=
  [⟨[asterisk, lz], 16, 1, 60, [1, 120]⟩, ⟨[lb, la, lz], 1, 1, 60, [127, 0, 0, 1]⟩,
   ⟨[[115], lz], 2, 1, 60, [1, 120, 1, 115, 1, 122, 0]⟩, ⟨[lx, [115], lz], 1, 1, 60, [127, 0, 0, 2]⟩]
def exZone : Zone := build oct (Zone.new [lz] 1 .narrow) exRecs

example : lookup exZone [lx, lz] 16 ⟨false, false⟩ = .ok (.found ⟨16, 60, [[1, 120]]⟩ (some [asterisk, lz])) := by decide
example : lookup exZone [la, lz] 16 ⟨false, false⟩ = .ok (.noRecords none) := by decide
example : lookup exZone [lx, la, lz] 16 ⟨false, false⟩ = .ok .nxDomain := by decide
example : lookup exZone [lx, [115], lz] 1 ⟨false, false⟩
    = .ok (.referral [[115], lz] ⟨2, 60, [[1, 120, 1, 115, 1, 122, 0]]⟩) := by decide
example : lookup exZone [lx, [115], lz] 1 ⟨false, true⟩ = .ok (.found ⟨1, 60, [[127, 0, 0, 2]]⟩ none) := by decide
example : lookup exZone [lx] 1 ⟨false, false⟩ = .ok .wrongZone := by decide
example : constrained (specBuild oct ⟨[lz], 1, .narrow, []⟩ exRecs) [lx, lz] ⟨true, false⟩ = true := by decide

end QV.C06
