/-
  C20 — The zone store holds exactly the records added to it.

  "Adding a record to a zone succeeds exactly when its owner is at or below the apex, its class
   matches the zone's and its TTL matches its RRset's, and a rejected add leaves lookups
   unchanged. Iterating a zone yields every node once, including empty non-terminals, and exactly
   the de-duplicated RRsets added, with the apex SOA and NS lookups agreeing with iteration."

  Model: `QV.Model.Zone` (`add`/`addM`, `iterByNode`, `iterByRrset`, `soa`, `ns`; mirrors
  src/db/hash_map_tree/{zone,node}.rs, src/db/rrset.rs, src/rr/rdata_set.rs).
  Spec: `QV.Spec.Zone` — the zone as the flat list of the successfully added, non-duplicate
  records (`specAdd`, `specBuild`), its nodes (`IsNode`: apex and every name between the apex and
  an owner) and RRsets (`rrsetsAt`). "De-duplicated" is relative to the RDATA equality `eqv`
  (`Rdata::equals`, a parameter here; C19 is about it) — no property of `eqv` is needed.

  `z` below is the tree reached by an arbitrary add sequence `rs` (failed adds included) from
  the empty zone; `s` the specification's flat zone for the same sequence.
-/
import QV.Proofs.ZoneAbs

namespace QV.C20
open QV QV.NameL QV.Zone QV.Spec.Zone

/-- The property at full strength. -/
def C20_full : Prop :=
  ∀ (eqv : Eqv) (apex : Name) (cls : Nat) (glue : GluePolicy) (rs : List Rec) (r : Rec),
    let z := build eqv (Zone.new apex cls glue) rs
    let s := specBuild eqv ⟨apex, cls, glue, []⟩ rs
    -- add succeeds exactly when owner ⊑ apex, class matches, TTL matches the RRset's
    ((∃ z', add eqv z r = .ok z') ↔
        (apex <:+ r.owner ∧ r.cls = cls ∧
          ∀ r' ∈ s.recs, r'.owner = r.owner → r'.rtype = r.rtype → r'.ttl = r.ttl)) ∧
    -- and fails with the error the specification names
    (∀ e, add eqv z r = .err e ↔ specAdd eqv s r = .error e) ∧
    -- a rejected add leaves the zone — hence every lookup and iteration — unchanged
    (∀ z' e, addM eqv z r = (z', some e) → z' = z) ∧
    -- iteration: every node once, including empty non-terminals
    (iterByNode z).Perm (specIterByNode s) ∧
    ((iterByNode z).map (·.1)).Nodup ∧
    (∀ n, n ∈ (iterByNode z).map (·.1) ↔ IsNode s n) ∧
    -- exactly the de-duplicated RRsets added
    (iterByRrset z).Perm (specIterByRrset s) ∧
    -- the records stored in the tree (abstraction `abs`) are, up to order, the flat zone's
    (abs z).Perm s.recs ∧
    -- apex SOA / NS agree with the specification and with iteration
    soa z = specSoa s ∧ ns z = specNs s ∧
    (∀ rr, soa z = some rr ↔ ((apex, rr) ∈ iterByRrset z ∧ rr.rtype = Gen.T_SOA)) ∧
    (∀ rr, ns z = some rr ↔ ((apex, rr) ∈ iterByRrset z ∧ rr.rtype = Gen.T_NS))

/-- the invariants every reachable zone satisfies -/
theorem reach (eqv : Eqv) (apex : Name) (cls : Nat) (glue : GluePolicy) (rs : List Rec) :
    Rel (build eqv (Zone.new apex cls glue) rs) (specBuild eqv ⟨apex, cls, glue, []⟩ rs) ∧
      Node.WF (build eqv (Zone.new apex cls glue) rs).root ∧
      (build eqv (Zone.new apex cls glue) rs).apex = apex ∧
      (specBuild eqv ⟨apex, cls, glue, []⟩ rs).apex = apex ∧
      (specBuild eqv ⟨apex, cls, glue, []⟩ rs).cls = cls := by
  have h := Rel.reachable eqv apex cls glue rs
  have hf := specBuild_fields eqv ⟨apex, cls, glue, []⟩ rs
  exact ⟨h, build_wf eqv _ rs Node.empty_wf, h.apex.trans hf.1, hf.1, hf.2.1⟩

/-- **Main theorem**: C20 holds at full strength. -/
theorem C20_holds : C20_full := by
  intro eqv apex cls glue rs r z s
  obtain ⟨h, hw, hza, hsa, hsc⟩ := reach eqv apex cls glue rs
  refine ⟨?_, ?_, ?_, ?_, ?_, ?_, ?_, ?_, ?_, ?_, ?_, ?_⟩
  · rw [add_ok_iff h eqv r, specAdd_ok_iff, hsa, hsc]
  · exact fun e => add_err_iff h eqv r e
  · exact fun z' e hm => addM_err_unchanged eqv _ r z' e hm
  · exact iterByNode_perm h hw
  · exact iterByNode_names_nodup hw
  · intro n
    simp only [List.mem_map]
    constructor
    · rintro ⟨x, hx, rfl⟩; exact ((mem_iterByNode h hw x).mp hx).1
    · intro hn; exact ⟨(n, rrsetsAt _ n), (mem_iterByNode h hw _).mpr ⟨hn, rfl⟩, rfl⟩
  · exact iterByRrset_perm h hw
  · exact abs_perm h hw
  · exact soa_eq_spec h
  · exact ns_eq_spec h
  · intro rr; have := apexRrset_iff h hw Gen.T_SOA rr; rw [hza] at this; exact this
  · intro rr; have := apexRrset_iff h hw Gen.T_NS rr; rw [hza] at this; exact this

/-- `add` succeeds exactly when the owner is at or below the apex, the class is the zone's and
    every record already in the record's RRset has the record's TTL. -/
theorem C20_add_succeeds_iff (eqv : Eqv) (apex : Name) (cls : Nat) (glue : GluePolicy) (rs : List Rec) (r : Rec) :
    (∃ z', add eqv (build eqv (Zone.new apex cls glue) rs) r = .ok z') ↔
      (apex <:+ r.owner ∧ r.cls = cls ∧
        ∀ r' ∈ (specBuild eqv ⟨apex, cls, glue, []⟩ rs).recs, r'.owner = r.owner → r'.rtype = r.rtype → r'.ttl = r.ttl) :=
  (C20_holds eqv apex cls glue rs r).1

/-- A rejected add changes nothing: the tree afterwards is the tree before, so every lookup,
    iteration and validation result is unchanged. (`TtlMismatch` needs an RRset at the owner, so
    the owner's node and all its ancestors existed: `get_or_create_descendant` created nothing.) -/
theorem C20_rejected_add_unchanged (eqv : Eqv) (z z' : Zone) (r : Rec) (e : AddErr)
    (h : addM eqv z r = (z', some e)) : z' = z := addM_err_unchanged eqv z r z' e h

/-- A successful add is `specAdd` on the flat list: the record is appended unless an `eqv`-equal
    RDATA is already in its RRset — the abstraction commutes with `add`. -/
theorem C20_add_refines (eqv : Eqv) (z : Zone) (s : SZone) (h : Rel z s) (r : Rec) :
    Rel (addM eqv z r).1 (specAddM eqv s r) := (h.add eqv r).1

/-- The abstraction commutes with `add`, stated on `abs`: after any add sequence followed by one
    more `add`, the records stored in the tree are a permutation of `specAddM` applied to the flat
    zone (the record appended, unless it is rejected or an `eqv`-duplicate). -/
theorem C20_abs_commutes (eqv : Eqv) (apex : Name) (cls : Nat) (glue : GluePolicy) (rs : List Rec) (r : Rec) :
    (abs (addM eqv (build eqv (Zone.new apex cls glue) rs) r).1).Perm
      (specAddM eqv (specBuild eqv ⟨apex, cls, glue, []⟩ rs) r).recs := by
  obtain ⟨h, hw, _⟩ := reach eqv apex cls glue rs
  exact abs_perm (h.add eqv r).1 (addM_wf eqv _ r hw)

/-- Every node's RRset list is exactly the list of the RRsets the flat zone has at that name,
    ascending by type; a name has a node iff it is the apex or lies between the apex and an owner. -/
theorem C20_node_contents (eqv : Eqv) (apex : Name) (cls : Nat) (glue : GluePolicy) (rs : List Rec)
    (x : Name × List Rrset) :
    x ∈ iterByNode (build eqv (Zone.new apex cls glue) rs) ↔
      IsNode (specBuild eqv ⟨apex, cls, glue, []⟩ rs) x.1 ∧ x.2 = rrsetsAt (specBuild eqv ⟨apex, cls, glue, []⟩ rs) x.1 :=
  let ⟨h, hw, _⟩ := reach eqv apex cls glue rs
  mem_iterByNode h hw x

/-! ### non-vacuity -/

def oct : Eqv := fun _ _ a b => a == b
def z0 : Zone := Zone.new [[122]] 1 .narrow
def r1 : Rec := ⟨[[98], [97], [122]], 1, 1, 60, [127, 0, 0, 1]⟩

/-- adding `b.a.z A` creates the empty non-terminal `a.z`; iteration yields three nodes -/
example : (iterByNode (build oct z0 [r1])).map (·.1) = [[[122]], [[97], [122]], [[98], [97], [122]]] := by decide
/-- the same record again is de-duplicated; another TTL is rejected and changes nothing -/
example : iterByRrset (build oct z0 [r1, r1]) = iterByRrset (build oct z0 [r1]) := by decide
example : (addM oct (build oct z0 [r1]) { r1 with ttl := 61 }).2 = some .TtlMismatch := by decide
example : (addM oct z0 { r1 with owner := [[113]] }).2 = some .NotInZone := by decide
example : (addM oct z0 { r1 with cls := 3 }).2 = some .ClassMismatch := by decide
/-- a TTL mismatch at a name whose node does not exist yet cannot happen: the add succeeds -/
example : (addM oct (build oct z0 [r1]) { r1 with owner := [[120], [97], [122]], ttl := 61 }).2 = none := by decide

end QV.C20
