/-
  C20 — The zone store holds exactly the records added to it.

  "Adding a record to a zone succeeds exactly when its owner is at or below the apex, its class
   matches the zone's and its TTL matches its RRset's, and a rejected add leaves lookups
   unchanged. Iterating a zone yields every node once, including empty non-terminals, and exactly
   the de-duplicated RRsets added, with the apex SOA and NS lookups agreeing with iteration."
-/
import QV.Proofs.Zone

namespace QV.C20
open QV QV.NameL QV.Zone QV.Spec.Zone

/-- The property at full strength, for the zone `z` reached by any add sequence `rs` from the
    empty zone and the flat list `s` the specification keeps for the same sequence. -/
def C20_full : Prop :=
  ∀ (eqv : Eqv) (apex : Name) (cls : Nat) (glue : GluePolicy) (rs : List Rec) (r : Rec),
    let z := build eqv (Zone.new apex cls glue) rs
    let s := specBuild eqv ⟨apex, cls, glue, []⟩ rs
    -- add succeeds exactly when owner ⊑ apex, class matches, TTL matches the RRset's
    ((∃ z', add eqv z r = .ok z') ↔
        (apex <:+ r.owner ∧ r.cls = cls ∧
          ∀ r' ∈ s.recs, r'.owner = r.owner → r'.rtype = r.rtype → r'.ttl = r.ttl)) ∧
    -- and fails with the error the specification names
    (∀ e, add eqv z r = .err e ↔ specAdd eqv s r = .error e) ∧
    -- a rejected add leaves the zone — hence every lookup and iteration — unchanged
    (∀ z' e, addM eqv z r = (z', some e) → z' = z) ∧
    -- iteration: every node once, including empty non-terminals
    (iterByNode z).Perm (specIterByNode s) ∧
    ((iterByNode z).map (·.1)).Nodup ∧
    (∀ n, n ∈ (iterByNode z).map (·.1) ↔ IsNode s n) ∧
    -- exactly the de-duplicated RRsets / records added
    (iterByRrset z).Perm (specIterByRrset s) ∧
    (abs z).Perm s.recs ∧
    -- apex SOA / NS agree with the specification and with iteration
    soa z = specSoa s ∧ ns z = specNs s ∧
    (∀ rr, soa z = some rr ↔ ((apex, rr) ∈ iterByRrset z ∧ rr.rtype = Gen.T_SOA)) ∧
    (∀ rr, ns z = some rr ↔ ((apex, rr) ∈ iterByRrset z ∧ rr.rtype = Gen.T_NS))

end QV.C20
