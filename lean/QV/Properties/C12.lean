/-
  C12 — The message writer serialises exactly what it was given.

  "For any sequence of writer operations, the finished message decodes to exactly the header
   values, questions, records, EDNS extended RCODE and TSIG record of the operations that
   succeeded, in order, and failed operations leave the message unchanged. The message never
   exceeds the size limit in effect, an operation whose uncompressed encoding fits in the
   remaining space never fails with truncation, and decompressed names equal the names given
   (exactly in case-preserving or disabled compression mode, ignoring ASCII case otherwise)."

  Model: `QV.Model.Writer` / `QV.Model.Compress` (mirror src/message/writer.rs, the `components`
  dispatcher of src/rr/rdata/mod.rs and `Ttl::from` of src/rr/ttl.rs), one `Op` per public
  method; a session is `run : Session → List Op → Session × List (Out WriterErr Unit)`.
  Spec: `QV.Spec.Message` (independent RFC 1035 message decoder `specDecodeMsg`, abstract
  messages, `checkSession` = the whole property as an executable check; the driver evaluates it
  on the implementation's octets for every generated session: op `waudit`).

  TSIG signing is a parameter `macFn` of `finish` (the MAC itself is C11's business).
-/
import QV.Proofs.Writer

namespace QV.C12
open QV QV.Writer

/-! ## (a) the invariant, for all operation sequences -/

/-- `Writer::new` establishes the invariant
    `12 ≤ cursor ≤ available ≤ limit ≤ |buffer|`, `limit − available = 11·[EDNS] + TSIG
    reservation`, `12 ≤ rr_start ≤ cursor`, all counts ≤ 65535, `ARCOUNT ≥ [EDNS] + [TSIG]`. -/
theorem C12_new_establishes_invariant (buf : Bytes) (limit : Nat) (s : State)
    (h : Writer.new buf limit = .ok s) : Inv s := new_inv buf limit s h

/-- every public call keeps it, whatever the call returns (success, error, even a panic) -/
theorem C12_invariant_step (ss : Session) (op : Op) (h : Inv ss.w) : Inv (step ss op).2.w :=
  step_inv ss op h

/-- hence it holds after **any** sequence of calls -/
theorem C12_invariant_all_sequences (buf : Bytes) (limit : Nat) (s : State)
    (h : Writer.new buf limit = .ok s) (ops : List Op) : Inv (run { w := s } ops).1.w :=
  run_inv _ ops (new_inv buf limit s h)

/-! ## (b) the message never exceeds the size limit in effect -/

theorem C12_finish_within_limit (macFn : Tsig → List UInt8 → List UInt8) (s : State) (h : Inv s)
    (m : Bytes) (mac : Option (List UInt8)) (hf : finish s macFn = .ok (m, mac)) :
    m.size ≤ s.limit := finish_size_le_limit macFn s h m mac hf

/-- for all sequences: whatever was done before, the finished message fits the limit then in
    effect (which itself never exceeds the buffer) -/
theorem C12_limit_all_sequences (buf : Bytes) (limit : Nat) (s : State)
    (h : Writer.new buf limit = .ok s) (ops : List Op) (macFn : Tsig → List UInt8 → List UInt8)
    (m : Bytes) (mac : Option (List UInt8))
    (hf : finish (run { w := s } ops).1.w macFn = .ok (m, mac)) :
    m.size ≤ (run { w := s } ops).1.w.limit ∧
    (run { w := s } ops).1.w.limit ≤ (run { w := s } ops).1.w.octets.size :=
  ⟨finish_size_le_limit macFn _ (run_inv _ ops (new_inv buf limit s h)) m mac hf,
   (run_inv _ ops (new_inv buf limit s h)).lim_size⟩

/-! ## (c) failed operations leave the message unchanged (the `with_rollback` theorem) -/

/-- A call that returns an error leaves every field of the writer (cursor, section, the four
    counts, the three compression anchors, limit bookkeeping, EDNS/TSIG configuration) and
    every octet below the cursor exactly as they were. -/
theorem C12_failed_op_changes_nothing (ss : Session) (op : Op) (h : Inv ss.w) (e : WriterErr)
    (he : (step ss op).1 = .err e) : Same ss.w (step ss op).2.w :=
  step_err_same ss op h e he

/-! ## (f) the extended RCODE (repaired defect D07) -/

/-- every 12-bit extended RCODE is accepted on an EDNS message and read back unchanged -/
theorem C12_ext_rcode_roundtrip (s : State) (e : Edns) (v : Nat) (he : s.edns = some e)
    (hv : v ≤ 4095) (hs : 12 ≤ s.octets.size) :
    ∃ s', setExtendedRcode v s = (.ok (), s') ∧ getExtendedRcode s' = v ∧
      s'.edns = some ⟨e.payload, v / 16⟩ :=
  setExtendedRcode_roundtrip s e v he hv hs

/-- values above 4095 are rejected -/
theorem C12_ext_rcode_rejects_above_4095 (s : State) (v : Nat) (hv : v > 4095) :
    setExtendedRcode v s = (.err (if s.edns.isSome then .ExtendedRcodeOverflow else .NotEdns), s) :=
  setExtendedRcode_rejects s v hv

end QV.C12
