/-
  C12 — The message writer serialises exactly what it was given.

  "For any sequence of writer operations, the finished message decodes to exactly the header
   values, questions, records, EDNS extended RCODE and TSIG record of the operations that
   succeeded, in order, and failed operations leave the message unchanged. The message never
   exceeds the size limit in effect, an operation whose uncompressed encoding fits in the
   remaining space never fails with truncation, and decompressed names equal the names given
   (exactly in case-preserving or disabled compression mode, ignoring ASCII case otherwise)."

  Model: `QV.Model.Writer` / `QV.Model.Compress` (mirror src/message/writer.rs, the `components`
  dispatcher of src/rr/rdata/mod.rs and `Ttl::from` of src/rr/ttl.rs), one `Op` per public
  method; a session is `run : Session → List Op → Session × List (Out WriterErr Unit)`.
  Spec: `QV.Spec.Message` (independent RFC 1035 message decoder `specDecodeMsg`, abstract
  messages, `checkSession` = the whole property as an executable check; the driver evaluates it
  on the implementation's octets for every generated session: op `waudit`).

  TSIG signing is a parameter `macFn` of `finish` (the MAC itself is C11's business).
-/
import QV.Proofs.WriterSession
import QV.Proofs.WriterBridge
import QV.Proofs.WriterRefine
import QV.Proofs.WriterHeader
import QV.Proofs.WriterShapeRun

namespace QV.C12
open QV QV.Writer QV.ServerSafety

/-! ## the property, in full

  `C12_full`: for every buffer, limit, initial compression mode and every sequence of public
  calls that respects the hint contract, with any MAC function that respects the reservation —
  the session does not panic, and the statuses and octets the model produces satisfy the
  executable specification `QV.Spec.Message.checkSession` (the finished message decodes with the
  independent decoder to exactly the header values, questions, records, OPT and TSIG record of
  the calls that succeeded, every failure is justified — `Truncation` only when the
  uncompressed encoding does not fit —, the message fits the limit in effect, names equal the
  names given exactly / up to ASCII case according to the mode, and the pointer audit passes).
  This is literally what the driver evaluates as the *model column* of every `waudit` case, and
  (on the implementation's octets) as the *spec column*.

  Proved below for all operation sequences: (a) the invariant, (b) the size limit, (c) failed
  operations change nothing, (e) no spurious truncation, (f) the extended RCODE, no panic and
  `finish` succeeds under the hint contract, and (d) the decoding half **in `Disabled`
  compression mode** (`C12_disabled_refinement`: the independent decoder `specDecodeMsg` reads the
  finished octets as exactly the questions, records, OPT and TSIG record of the calls that
  succeeded). For `Standard` / `CasePreserving` mode, where names may be compressed, (d) is proved in
  two parts: the structure of the finished message for all sequences of calls
  (`C12_finished_message_decodes_all_modes`: it decodes completely, with exactly the counted
  questions and records, OPT and TSIG last) and the content record by record
  (`C12_record_round_trip_all_modes`: owner up to ASCII case / exactly, TYPE, CLASS, TTL, RDLENGTH;
  C13 has the round trip of every single written name). Not proved: the read-back of names inside
  RDATA within a whole message and the assembly into one statement about the abstract message —
  that remains with the oracle (model column of `waudit`, 100 % of generated sessions). The header
  half of (d) is proved for every mode (`C12_header_all_sequences`). -/

def C12_full : Prop :=
  ∀ (buf : Bytes) (limit : Nat) (mode : CMode) (s : State) (ops : List Op) (mac : Option (List UInt8)),
    Writer.new buf limit = .ok s → Respects { w := { s with mode := mode } } ops →
    MacLenOK (fun _ _ => mac.getD []) →
    let r := Driver.runModel { w := { s with mode := mode } } ops mac true
    ∃ m, r.msg = some m ∧
      Spec.Message.checkSession buf.size limit (Driver.toSpecMode mode) (ops.map Driver.toSpecOp)
        r.statuses (r.pre ++ [m]) r.mac = "ok"

/-! ## (a) the invariant, for all operation sequences -/

/-- `Writer::new` establishes the invariant
    `12 ≤ cursor ≤ available ≤ limit ≤ |buffer|`, `limit − available = 11·[EDNS] + TSIG
    reservation`, `12 ≤ rr_start ≤ cursor`, all counts ≤ 65535, `ARCOUNT ≥ [EDNS] + [TSIG]`. -/
theorem C12_new_establishes_invariant (buf : Bytes) (limit : Nat) (s : State)
    (h : Writer.new buf limit = .ok s) : Inv s := new_inv buf limit s h

/-- every public call keeps it, whatever the call returns (success, error, even a panic) -/
theorem C12_invariant_step (ss : Session) (op : Op) (h : Inv ss.w) : Inv (step ss op).2.w :=
  step_inv ss op h

/-- hence it holds after **any** sequence of calls -/
theorem C12_invariant_all_sequences (buf : Bytes) (limit : Nat) (s : State)
    (h : Writer.new buf limit = .ok s) (ops : List Op) : Inv (run { w := s } ops).1.w :=
  run_inv _ ops (new_inv buf limit s h)

/-! ## (b) the message never exceeds the size limit in effect -/

theorem C12_finish_within_limit (macFn : Tsig → List UInt8 → List UInt8) (s : State) (h : Inv s)
    (m : Bytes) (mac : Option (List UInt8)) (hf : finish s macFn = .ok (m, mac)) :
    m.size ≤ s.limit := finish_size_le_limit macFn s h m mac hf

/-- for all sequences: whatever was done before, the finished message fits the limit then in
    effect (which itself never exceeds the buffer) -/
theorem C12_limit_all_sequences (buf : Bytes) (limit : Nat) (s : State)
    (h : Writer.new buf limit = .ok s) (ops : List Op) (macFn : Tsig → List UInt8 → List UInt8)
    (m : Bytes) (mac : Option (List UInt8))
    (hf : finish (run { w := s } ops).1.w macFn = .ok (m, mac)) :
    m.size ≤ (run { w := s } ops).1.w.limit ∧
    (run { w := s } ops).1.w.limit ≤ (run { w := s } ops).1.w.octets.size :=
  ⟨finish_size_le_limit macFn _ (run_inv _ ops (new_inv buf limit s h)) m mac hf,
   (run_inv _ ops (new_inv buf limit s h)).lim_size⟩

/-! ## (c) failed operations leave the message unchanged (the `with_rollback` theorem) -/

/-- A call that returns an error leaves every field of the writer (cursor, section, the four
    counts, the three compression anchors, limit bookkeeping, EDNS/TSIG configuration) and
    every octet below the cursor exactly as they were. -/
theorem C12_failed_op_changes_nothing (ss : Session) (op : Op) (h : Inv ss.w) (e : WriterErr)
    (he : (step ss op).1 = .err e) : Same ss.w (step ss op).2.w :=
  step_err_same ss op h e he

/-! ## (e) no spurious truncation -/

/-- For every state, every call and every hint (valid or not): a call fails with `Truncation`
    only if its *uncompressed* encoding (`uncompressedLen`) does not fit between the cursor and
    `available` (= limit minus the OPT/TSIG reservations). (Re-creating the writer from a
    template on a smaller buffer is the one other source of `Truncation`.) -/
theorem C12_no_spurious_truncation (ss : Session) (op : Op) (ht : isTemplateOp op = false)
    (hfit : ss.w.cursor + uncompressedLen op ≤ ss.w.available) :
    (step ss op).1 ≠ .err .Truncation := by
  intro h
  have := step_truncation ss op ht h
  omega

/-! ## no panic, and `finish` succeeds, for every sequence that respects the hint contract -/

/-- `Respects`: names are well-formed `Name`s, every hint given for an owner is valid in the state
    in which it is used (`HintOK`: the anchor it resolves to starts an earlier copy of that name,
    up to ASCII case), TSIG times are 48-bit. Then no call panics — in particular neither the
    `panic!("invalid pointer found during compression; this is a bug")` nor any slice index of
    the scan — and the full invariant `I` (numeric invariant, valid anchors, sound pointer log)
    holds at the end. -/
theorem C12_no_panic_under_contract (buf : Bytes) (limit : Nat) (s : State)
    (h : Writer.new buf limit = .ok s) (ops : List Op) (hr : Respects { w := s } ops) :
    (∀ r ∈ (run { w := s } ops).2, r ≠ .panic) ∧ I (run { w := s } ops).1.w :=
  run_I _ ops (new_i buf limit s h) hr

/-- from any such state `finish` returns a message (the two `unwrap`s cannot fail: the OPT and
    TSIG records fit the space reserved for them) provided the MAC is not longer than the
    algorithm's output -/
theorem C12_finish_succeeds (s : State) (hI : I s) (macFn : Tsig → List UInt8 → List UInt8)
    (hmac : MacLenOK macFn) : ∃ m mac, finish s macFn = .ok (m, mac) :=
  finish_ok macFn hmac s hI

/-- non-vacuity of `Respects`: any session that passes well-formed names and no hints respects
    the contract, from any state (`Hint::None` "will always produce correct results") -/
example (ss : Session) :
    Respects ss [.addQuestion ⟨[[119, 119, 119], [97]]⟩ 1 1,
      .addRr .answer (.direct .none) ⟨[[119, 119, 119], [97]]⟩ 5 1 60 [1, 98, 1, 97, 0] none,
      .clearRrs, .setEdns 1232] :=
  ⟨(by decide : WName.WF ⟨[[119, 119, 119], [97]]⟩), ⟨(by decide : WName.WF ⟨[[119, 119, 119], [97]]⟩), trivial⟩,
    trivial, trivial, trivial⟩

/-! ## (f) the extended RCODE (repaired defect D07) -/

/-- every 12-bit extended RCODE is accepted on an EDNS message and read back unchanged -/
theorem C12_ext_rcode_roundtrip (s : State) (e : Edns) (v : Nat) (he : s.edns = some e)
    (hv : v ≤ 4095) (hs : 12 ≤ s.octets.size) :
    ∃ s', setExtendedRcode v s = (.ok (), s') ∧ getExtendedRcode s' = v ∧
      s'.edns = some ⟨e.payload, v / 16⟩ :=
  setExtendedRcode_roundtrip s e v he hv hs

/-- values above 4095 are rejected -/
theorem C12_ext_rcode_rejects_above_4095 (s : State) (v : Nat) (hv : v > 4095) :
    setExtendedRcode v s = (.err (if s.edns.isSome then .ExtendedRcodeOverflow else .NotEdns), s) :=
  setExtendedRcode_rejects s v hv


/-! ## (d) refinement: the finished message decodes to what was given (`Disabled` mode)

  For **all** sequences of calls that respect the API contract and stay in `Disabled` compression
  mode, the specification's independent RFC 1035 decoder `specDecodeMsg` reads the finished
  message as exactly: the questions and records of the calls that succeeded — in order, section
  by section, names octet for octet, TTLs per RFC 2181 §8, RDATA as the specification itself
  reads the RDATA given (`givenRdata`) —, followed by the OPT record (if EDNS was set) and the
  TSIG record with the MAC returned (if TSIG was set); nothing else (failed calls left no trace:
  `bodyRun` skips them). The header is the one held in the first four octets of the buffer.

  `Op.Typed`: arguments are values of their Rust types (`Name` well formed, 16-bit type/class,
  `Rdata` ≤ 65535 octets). `Respects`: the hint contract. `MacLenOK`: the MAC fits its
  reservation. -/

theorem C12_disabled_refinement (macFn : Tsig → List UInt8 → List UInt8) (hmac : MacLenOK macFn)
    (ss : Session) (b : Body) (ops : List Op) (hI : I ss.w) (hlay : Lay ss.w b) (hb : b.Typed)
    (hk : ∀ op ∈ ops, keepsDisabled op = true) (ht : ∀ op ∈ ops, op.Typed) (hr : Respects ss ops) :
    ∃ m mac d, finish (run ss ops).1.w macFn = .ok (m, mac) ∧ Spec.Message.specDecodeMsg m = some d ∧
      d.msg = ⟨specHeader (run ss ops).1.w.octets,
        (bodyRun b ops (run ss ops).2).qs.map specQ,
        (bodyRun b ops (run ss ops).2).an.map specR,
        (bodyRun b ops (run ss ops).2).ns.map specR,
        ((bodyRun b ops (run ss ops).2).ar ++ optRecs (run ss ops).1.w.edns ++
          tsigRecs (run ss ops).1.w.tsig mac).map specR⟩ :=
  disabled_refines macFn hmac ss b ops hI hlay hb hk ht hr

/-- **the header, for all sequences of calls in every compression mode**: the header the decoder
    reads off the buffer is the all-zero header of `Writer::new` updated by the header setters that
    succeeded, in order — each sets exactly its field (`set_extended_rcode` the low four bits of
    the RCODE); no other call and no failed call touches it -/
theorem C12_header_all_sequences (buf : Bytes) (limit : Nat) (s0 : State)
    (hnew : Writer.new buf limit = .ok s0) (mode : CMode) (ops : List Op) (ht : ∀ op ∈ ops, op.Typed)
    (hr : Respects { w := { s0 with mode := mode } } ops) :
    specHeader (run { w := { s0 with mode := mode } } ops).1.w.octets =
      hdrRun ⟨0, false, 0, false, false, false, false, 0, 0⟩ ops
        (run { w := { s0 with mode := mode } } ops).2 := by
  have hI : I { s0 with mode := mode } := (safe_setMode mode s0 (new_i buf limit s0 hnew)).2
  have := hdr_run { w := { s0 with mode := mode } } ops hI.inv ht (run_I _ ops hI hr).1
  rw [this]
  show hdrRun (specHeader s0.octets) _ _ = _
  rw [hdr_new buf limit s0 hnew]

/-- the same from a fresh writer (`Writer::new`, then `set_compression_mode(Disabled)`) -/
theorem C12_disabled_refinement_fresh (macFn : Tsig → List UInt8 → List UInt8) (hmac : MacLenOK macFn)
    (buf : Bytes) (limit : Nat) (s0 : State) (hnew : Writer.new buf limit = .ok s0) (ops : List Op)
    (hk : ∀ op ∈ ops, keepsDisabled op = true) (ht : ∀ op ∈ ops, op.Typed)
    (hr : Respects { w := { s0 with mode := .disabled } } ops) :
    let fin := run { w := { s0 with mode := .disabled } } ops
    let B := bodyRun {} ops fin.2
    ∃ m mac d, finish fin.1.w macFn = .ok (m, mac) ∧ Spec.Message.specDecodeMsg m = some d ∧
      d.msg = ⟨hdrRun ⟨0, false, 0, false, false, false, false, 0, 0⟩ ops fin.2,
        B.qs.map specQ, B.an.map specR, B.ns.map specR,
        (B.ar ++ optRecs fin.1.w.edns ++ tsigRecs fin.1.w.tsig mac).map specR⟩ := by
  have hI : I { s0 with mode := .disabled } := (safe_setMode .disabled s0 (new_i buf limit s0 hnew)).2
  intro fin B
  rw [← C12_header_all_sequences buf limit s0 hnew .disabled ops ht hr]
  exact disabled_refines macFn hmac { w := { s0 with mode := .disabled } } {} ops hI
    (lay_new buf limit s0 hnew) ⟨(fun _ h => by cases h), (fun _ h => by cases h), (fun _ h => by cases h),
      (fun _ h => by cases h)⟩ hk ht hr

/-- RDATA the writer accepted is RDATA the specification can read: the implementation's
    `Rdata::components` table (generated from the source) is exactly the RFC layout table of the
    specification, for every class and type -/
theorem C12_accepted_rdata_is_wellformed (sec : RrSection) (hint : Hint) (owner : WName)
    (ty cls ttl : Nat) (rd : List UInt8) (s : State)
    (h : (addRrOp sec hint owner ty cls ttl rd s).1 = .ok ()) :
    (Spec.Message.givenRdata ty cls rd).isSome = true :=
  givenRdata_of_rdataOK cls ty rd ((addRrOp_rdata sec hint owner ty cls ttl rd s).1 h)

theorem C12_component_table_is_rfc_layout (cls ty : Nat) :
    componentTypes cls ty = some ((Spec.Message.layoutOf ty cls).map layToComp) :=
  componentTypes_layout cls ty

/-! ## (d) in every compression mode: structure, and the round trip of each record

  For `Standard` and `CasePreserving` mode the refinement is proved in two parts.
  * **Structure, for all sequences of calls** (`C12_finished_message_decodes_all_modes`): the
    finished message — if at most 65535 octets, as every DNS message is — decodes completely under
    the independent message decoder of `QV.Spec.MsgDecode`: exactly QDCOUNT questions and
    ANCOUNT / NSCOUNT / ARCOUNT records (the counts the writer kept: failed calls left no trace),
    the message ending after the last record; the additional section ends with the OPT record iff
    EDNS is set, then the TSIG record iff a TSIG is set. (Invariant `SLay`: every question and
    record starts with a name that decoder reads — C13 — on exactly the octets the writer wrote,
    and every RDLENGTH leads to the next record.)
  * **Content, record by record** (`C12_record_round_trip_all_modes`): what one successful `add_rr`
    appended reads back, on every later message, as the owner given (same labels up to ASCII case;
    octet for octet in `CasePreserving` and `Disabled` mode), TYPE, CLASS, TTL as given, and an
    RDLENGTH that is the number of octets written after it.
  Not proved for these two modes: that the names *inside RDATA* read back (C13 proves each of them
  is written validly and `C13_written_name_round_trip` that each reads back on its own), and the
  assembly of the two parts into one statement about the abstract message. -/

theorem C12_finished_message_decodes_all_modes (macFn : Tsig → List UInt8 → List UInt8) (hmac : MacLenOK macFn)
    (buf : Bytes) (limit : Nat) (s0 : State) (hnew : Writer.new buf limit = .ok s0) (mode : CMode)
    (ops : List Op) (hr : Respects { w := { s0 with mode := mode } } ops) :
    let fin := (run { w := { s0 with mode := mode } } ops).1.w
    ∃ m mac, finish fin macFn = .ok (m, mac) ∧ (m.size ≤ 65535 →
      ∃ d, Spec.specDecodeMsg m = some d ∧ d.questions.length = fin.qdcount ∧ d.an.length = fin.ancount ∧
        d.ns.length = fin.nscount ∧ d.ar.length = fin.arcount ∧
        ∃ body, d.ar.map (·.ty) = body ++ (if fin.edns.isSome then [41] else []) ++
          (if fin.tsig.isSome then [250] else [])) := by
  intro fin
  have hI0 : I { s0 with mode := mode } := (safe_setMode mode s0 (new_i buf limit s0 hnew)).2
  have hL0 : SLay { s0 with mode := mode } :=
    slay_setMode mode s0 (slay_new buf limit s0 hnew) (new_i buf limit s0 hnew)
  have hI := (run_I { w := { s0 with mode := mode } } ops hI0 hr).2
  have hL := slay_run { w := { s0 with mode := mode } } ops hI0 hL0 hr
  obtain ⟨m, mac, hf⟩ := finish_ok macFn hmac fin hI
  exact ⟨m, mac, hf, fun hsz => finish_decodes macFn fin hI hL m mac hf hsz⟩

theorem C12_record_round_trip_all_modes (hint : Hint) (owner : WName) (ty cls ttl : Nat) (rd : List UInt8)
    (s s' : State) (hw : WInv s) (hwf : owner.WF) (hh : Writer.HintOK s hint owner)
    (hty : ty < 65536) (hcls : cls < 65536) (httl : ttl < 4294967296)
    (h : addRr hint owner ty cls ttl rd s = (.ok (), s')) (msg : Bytes)
    (hmsg : ∀ i, i < s'.cursor → msg[i]? = s'.octets[i]?) :
    ∃ w k, Spec.specDecodeName msg s.cursor = some (w, owner.len, k) ∧ s.cursor + k + 10 ≤ s'.cursor ∧
      w.map lowerU8 = owner.wire.map lowerU8 ∧ (s.mode ≠ .standard → w = owner.wire) ∧
      be16 msg (s.cursor + k) = ty ∧ be16 msg (s.cursor + k + 2) = cls ∧ be32 msg (s.cursor + k + 4) = ttl ∧
      be16 msg (s.cursor + k + 8) = (s'.cursor - (s.cursor + k + 10)) % 65536 :=
  addRr_round_trip hint owner ty cls ttl rd s s' hw hwf hh hty hcls httl h msg hmsg

/-- the same for the question (`add_question`): QNAME, then QTYPE and QCLASS -/
theorem C12_question_round_trip_all_modes (qn : WName) (qt qc : Nat) (s s' : State) (hw : WInv s)
    (hwf : qn.WF) (hqt : qt < 65536) (hqc : qc < 65536)
    (h : addQuestionBody qn qt qc s = (.ok (), s')) (msg : Bytes)
    (hmsg : ∀ i, i < s'.cursor → msg[i]? = s'.octets[i]?) :
    ∃ w k, Spec.specDecodeName msg s.cursor = some (w, qn.len, k) ∧ s'.cursor = s.cursor + k + 4 ∧
      w.map lowerU8 = qn.wire.map lowerU8 ∧ (s.mode ≠ .standard → w = qn.wire) ∧
      be16 msg (s.cursor + k) = qt ∧ be16 msg (s.cursor + k + 2) = qc :=
  addQuestionBody_round_trip qn qt qc s s' hw hwf hqt hqc h msg hmsg

end QV.C12
