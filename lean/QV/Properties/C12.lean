/-
  C12 — The message writer serialises exactly what it was given.

  "For any sequence of writer operations, the finished message decodes to exactly the header
   values, questions, records, EDNS extended RCODE and TSIG record of the operations that
   succeeded, in order, and failed operations leave the message unchanged. The message never
   exceeds the size limit in effect, an operation whose uncompressed encoding fits in the
   remaining space never fails with truncation, and decompressed names equal the names given
   (exactly in case-preserving or disabled compression mode, ignoring ASCII case otherwise)."

  Model: `QV.Model.Writer` / `QV.Model.Compress` (mirror src/message/writer.rs, the `components`
  dispatcher of src/rr/rdata/mod.rs and `Ttl::from` of src/rr/ttl.rs), one `Op` per public
  method; a session is `run : Session → List Op → Session × List (Out WriterErr Unit)`.
  Spec: `QV.Spec.Message` (independent RFC 1035 message decoder `specDecodeMsg`, abstract
  messages, `checkSession` = the whole property as an executable check; the driver evaluates it
  on the implementation's octets for every generated session: op `waudit`).

  TSIG signing is a parameter `macFn` of `finish` (the MAC itself is C11's business).
-/
import QV.Proofs.WriterSession
import QV.Proofs.WriterBridge
import QV.Proofs.WriterRefine
import QV.Proofs.WriterHeader
import QV.Proofs.WriterShapeRun
import QV.Proofs.WriterContentDecode
import QV.Proofs.WriterMsgRefine
import QV.Proofs.WriterJustified
import QV.Proofs.WriterAbsStep
import QV.Proofs.WriterWalk
import QV.Proofs.WriterSegment
import QV.Proofs.WriterCheckSession
import QV.Proofs.WriterSessions

namespace QV.C12
open QV QV.Writer QV.ServerSafety

/-! ## the property, in full

  `C12_full`: for every buffer, limit, initial compression mode and every sequence of public
  calls that respects the hint contract, with any MAC function that respects the reservation —
  the session does not panic, and the statuses and octets the model produces satisfy the
  executable specification `QV.Spec.Message.checkSession` (the finished message decodes with the
  independent decoder to exactly the header values, questions, records, OPT and TSIG record of
  the calls that succeeded, every failure is justified — `Truncation` only when the
  uncompressed encoding does not fit —, the message fits the limit in effect, names equal the
  names given exactly / up to ASCII case according to the mode, and the pointer audit passes).
  This is literally what the driver evaluates as the *model column* of every `waudit` case, and
  (on the implementation's octets) as the *spec column*.

  Proved below for all operation sequences: (a) the invariant, (b) the size limit, (c) failed
  operations change nothing, (e) no spurious truncation, (f) the extended RCODE, no panic and
  `finish` succeeds under the hint contract, and (d) the decoding half **in every compression
  mode**: `C12_refinement_all_modes` (the specification's decoder `specDecodeMsg` reads the finished
  octets as the header octets of the writer and exactly the questions, records, OPT and TSIG record
  of the calls that succeeded, in order; names — QNAME, owners, names inside RDATA, decompressed —
  equal to the names given up to ASCII case), `C12_refinement_without_standard_mode` (sessions that
  never use `Standard` mode: the decoded message *equals* the abstract message; for `Disabled` mode
  alone also `C12_disabled_refinement`, proved from the octets), `C12_header_all_sequences` (what
  the header octets are).
  **`C12_full` itself is proved: `C12_full_holds : C12_full`** (end of this file), for the statement
  as corrected below (typed calls, limits of at most 65535, MAC of the algorithm's size). The way
  there, each step a theorem of this file: the walk of `checkSession` over the status strings
  with `absOk` and `justified` (`C12_failures_justified`, `C12_walk_reaches_final_check_partial`),
  the getters, header, questions and records by item mode, OPT, TSIG, size
  (`C12_final_check_clauses_partial`, `C12_segment_reduces_to_pointer_audit_partial`), the pointer
  audit, sessions of one segment (`C12_full_without_clear_rrs_partial`), all sessions
  (`C12_full_all_sessions_partial`).
  The audit premise is proved (`QV.Proofs.WriterAudit`, `C12_pointer_audit_passes_partial`), in four
  layers: (1) every name write records only label starts of the name it leaves at the old cursor
  (`PhysLab`, `NameSpec.ok`) and writes the name literally in `Disabled` mode; (2) the layout
  invariant `CLay` carries, for all call sequences, that every recorded label start is the first
  octet of a label of a name of the chains — a QNAME below `rr_start`, an owner or a name inside
  RDATA above (`QLab`, `RLab`; `RdAt` lists the name positions of each RDATA) — and that a name
  written in `Disabled` mode ends with its root label (`NameIs`); `finish` keeps this for the OPT
  and TSIG records (`Labs` in `FinLayC`); (3) the decoder's name occurrences `d.names` are, in
  order, the names at the name positions of the chains of the final buffer, each described as the
  physical walk finds it there (`FinAudit` in `finish_refines`, `physical_inv`, `chunk_unique`);
  (4) the induction over `auditPointers.go` (`audit_go`: a pointer's target is a recorded label
  start below the name — `item_ptr_target` —, hence a label of an earlier occurrence; no pointer
  in `Disabled` items and in uncompressible RDATA). So `C12_full_without_clear_rrs_partial` is
  `C12_full` word for word for sessions without `clear_rrs`, with no premise.
  Sessions with `clear_rrs` are covered too: `C12_full_all_sessions_partial` is `C12_full` for every
  session, with the MAC-size hypothesis asked at every prefix of the calls instead of only at the end.
  That difference is closed by `after_sig` (a TSIG configuration keeps its algorithm for the rest of
  the session), so `C12_full_holds : C12_full` — the single statement, as corrected above, is proved.
  Nothing of `C12_full` is open. (d) is stated for limits of at
  most 65535 (RDLENGTH is a 16-bit field; the writer itself accepts larger buffers). The driver
  evaluates `checkSession` itself on 100 % of the generated sessions (model column and, on the
  implementation's octets, spec column of `waudit`). -/

/- The statement as first written (kept for the record):

    def C12_full : Prop :=
      ∀ (buf : Bytes) (limit : Nat) (mode : CMode) (s : State) (ops : List Op) (mac : Option (List UInt8)),
        Writer.new buf limit = .ok s → Respects { w := { s with mode := mode } } ops →
        MacLenOK (fun _ _ => mac.getD []) →
        let r := Driver.runModel { w := { s with mode := mode } } ops mac true
        ∃ m, r.msg = some m ∧
          Spec.Message.checkSession buf.size limit (Driver.toSpecMode mode) (ops.map Driver.toSpecOp)
            r.statuses (r.pre ++ [m]) r.mac = "ok"

   **Correction of the statement.** As written it quantifies over calls whose arguments are not values
   of the Rust API's types: the model takes natural numbers, so `set_id 70000`, a 17-bit type or
   class, a payload size above 65535 or an empty `RdataSet` are calls of the model that the Rust
   writer cannot receive, and for them the model (which truncates to the field width, as the octets
   must) and the abstract specification (which records the number given) disagree — `checkSession`
   reports a difference that no real session can show. The statement therefore needs the hypothesis
   that every call is typed (`ApiTyped`: `Op.Typed`, the `u16` bounds of `set_edns` / `set_tsig`, and
   non-empty RRsets). It also needs the limits to be at most 65535 (the largest DNS message; RDLENGTH
   and the TCP length prefix are 16-bit): (d) is proved for finished messages of at most 65535
   octets. And the MAC handed over must have exactly the output size of the algorithm when the TSIG mode
   signs (`MacLenOK` only bounds it; the specification's `tsigRecordOk` compares the RDATA length with
   the algorithm's size). The driver generates typed calls, limits below 65536 and MACs of the right
   size only. -/
def C12_full : Prop :=
  ∀ (buf : Bytes) (limit : Nat) (mode : CMode) (s : State) (ops : List Op) (mac : Option (List UInt8)),
    Writer.new buf limit = .ok s → Respects { w := { s with mode := mode } } ops →
    (∀ op ∈ ops, ApiTyped op) → limit ≤ 65535 → (∀ v, Op.setLimit v ∈ ops → v ≤ 65535) →
    MacLenOK (fun _ _ => mac.getD []) →
    (∀ ts, (run { w := { s with mode := mode } } ops).1.w.tsig = some ts → isUnsigned ts.mode = false →
      (mac.getD []).length = (toATsig ts).macLen) →
    let r := Driver.runModel { w := { s with mode := mode } } ops mac true
    ∃ m, r.msg = some m ∧
      Spec.Message.checkSession buf.size limit (Driver.toSpecMode mode) (ops.map Driver.toSpecOp)
        r.statuses (r.pre ++ [m]) r.mac = "ok"

/-! ## (a) the invariant, for all operation sequences -/

/-- `Writer::new` establishes the invariant
    `12 ≤ cursor ≤ available ≤ limit ≤ |buffer|`, `limit − available = 11·[EDNS] + TSIG
    reservation`, `12 ≤ rr_start ≤ cursor`, all counts ≤ 65535, `ARCOUNT ≥ [EDNS] + [TSIG]`. -/
theorem C12_new_establishes_invariant (buf : Bytes) (limit : Nat) (s : State)
    (h : Writer.new buf limit = .ok s) : Inv s := new_inv buf limit s h

/-- every public call keeps it, whatever the call returns (success, error, even a panic) -/
theorem C12_invariant_step (ss : Session) (op : Op) (h : Inv ss.w) : Inv (step ss op).2.w :=
  step_inv ss op h

/-- hence it holds after **any** sequence of calls -/
theorem C12_invariant_all_sequences (buf : Bytes) (limit : Nat) (s : State)
    (h : Writer.new buf limit = .ok s) (ops : List Op) : Inv (run { w := s } ops).1.w :=
  run_inv _ ops (new_inv buf limit s h)

/-! ## (b) the message never exceeds the size limit in effect -/

theorem C12_finish_within_limit (macFn : Tsig → List UInt8 → List UInt8) (s : State) (h : Inv s)
    (m : Bytes) (mac : Option (List UInt8)) (hf : finish s macFn = .ok (m, mac)) :
    m.size ≤ s.limit := finish_size_le_limit macFn s h m mac hf

/-- for all sequences: whatever was done before, the finished message fits the limit then in
    effect (which itself never exceeds the buffer) -/
theorem C12_limit_all_sequences (buf : Bytes) (limit : Nat) (s : State)
    (h : Writer.new buf limit = .ok s) (ops : List Op) (macFn : Tsig → List UInt8 → List UInt8)
    (m : Bytes) (mac : Option (List UInt8))
    (hf : finish (run { w := s } ops).1.w macFn = .ok (m, mac)) :
    m.size ≤ (run { w := s } ops).1.w.limit ∧
    (run { w := s } ops).1.w.limit ≤ (run { w := s } ops).1.w.octets.size :=
  ⟨finish_size_le_limit macFn _ (run_inv _ ops (new_inv buf limit s h)) m mac hf,
   (run_inv _ ops (new_inv buf limit s h)).lim_size⟩

/-! ## (c) failed operations leave the message unchanged (the `with_rollback` theorem) -/

/-- A call that returns an error leaves every field of the writer (cursor, section, the four
    counts, the three compression anchors, limit bookkeeping, EDNS/TSIG configuration) and
    every octet below the cursor exactly as they were. -/
theorem C12_failed_op_changes_nothing (ss : Session) (op : Op) (h : Inv ss.w) (e : WriterErr)
    (he : (step ss op).1 = .err e) : Same ss.w (step ss op).2.w :=
  step_err_same ss op h e he

/-! ## (e) no spurious truncation -/

/-- For every state, every call and every hint (valid or not): a call fails with `Truncation`
    only if its *uncompressed* encoding (`uncompressedLen`) does not fit between the cursor and
    `available` (= limit minus the OPT/TSIG reservations). (Re-creating the writer from a
    template on a smaller buffer is the one other source of `Truncation`.) -/
theorem C12_no_spurious_truncation (ss : Session) (op : Op) (ht : isTemplateOp op = false)
    (hfit : ss.w.cursor + uncompressedLen op ≤ ss.w.available) :
    (step ss op).1 ≠ .err .Truncation := by
  intro h
  have := step_truncation ss op ht h
  omega

/-! ## no panic, and `finish` succeeds, for every sequence that respects the hint contract -/

/-- `Respects`: names are well-formed `Name`s, every hint given for an owner is valid in the state
    in which it is used (`HintOK`: the anchor it resolves to starts an earlier copy of that name,
    up to ASCII case), TSIG times are 48-bit. Then no call panics — in particular neither the
    `panic!("invalid pointer found during compression; this is a bug")` nor any slice index of
    the scan — and the full invariant `I` (numeric invariant, valid anchors, sound pointer log)
    holds at the end. -/
theorem C12_no_panic_under_contract (buf : Bytes) (limit : Nat) (s : State)
    (h : Writer.new buf limit = .ok s) (ops : List Op) (hr : Respects { w := s } ops) :
    (∀ r ∈ (run { w := s } ops).2, r ≠ .panic) ∧ I (run { w := s } ops).1.w :=
  run_I _ ops (new_i buf limit s h) hr

/-- from any such state `finish` returns a message (the two `unwrap`s cannot fail: the OPT and
    TSIG records fit the space reserved for them) provided the MAC is not longer than the
    algorithm's output -/
theorem C12_finish_succeeds (s : State) (hI : I s) (macFn : Tsig → List UInt8 → List UInt8)
    (hmac : MacLenOK macFn) : ∃ m mac, finish s macFn = .ok (m, mac) :=
  finish_ok macFn hmac s hI

/-- non-vacuity of `Respects`: any session that passes well-formed names and no hints respects
    the contract, from any state (`Hint::None` "will always produce correct results") -/
example (ss : Session) :
    Respects ss [.addQuestion ⟨[[119, 119, 119], [97]]⟩ 1 1,
      .addRr .answer (.direct .none) ⟨[[119, 119, 119], [97]]⟩ 5 1 60 [1, 98, 1, 97, 0] none,
      .clearRrs, .setEdns 1232] :=
  ⟨(by decide : WName.WF ⟨[[119, 119, 119], [97]]⟩), ⟨(by decide : WName.WF ⟨[[119, 119, 119], [97]]⟩), trivial⟩,
    trivial, trivial, trivial⟩

/-! ## (f) the extended RCODE (repaired defect D07) -/

/-- every 12-bit extended RCODE is accepted on an EDNS message and read back unchanged -/
theorem C12_ext_rcode_roundtrip (s : State) (e : Edns) (v : Nat) (he : s.edns = some e)
    (hv : v ≤ 4095) (hs : 12 ≤ s.octets.size) :
    ∃ s', setExtendedRcode v s = (.ok (), s') ∧ getExtendedRcode s' = v ∧
      s'.edns = some ⟨e.payload, v / 16⟩ :=
  setExtendedRcode_roundtrip s e v he hv hs

/-- values above 4095 are rejected -/
theorem C12_ext_rcode_rejects_above_4095 (s : State) (v : Nat) (hv : v > 4095) :
    setExtendedRcode v s = (.err (if s.edns.isSome then .ExtendedRcodeOverflow else .NotEdns), s) :=
  setExtendedRcode_rejects s v hv


/-! ## (d) refinement: the finished message decodes to what was given (`Disabled` mode)

  For **all** sequences of calls that respect the API contract and stay in `Disabled` compression
  mode, the specification's independent RFC 1035 decoder `specDecodeMsg` reads the finished
  message as exactly: the questions and records of the calls that succeeded — in order, section
  by section, names octet for octet, TTLs per RFC 2181 §8, RDATA as the specification itself
  reads the RDATA given (`givenRdata`) —, followed by the OPT record (if EDNS was set) and the
  TSIG record with the MAC returned (if TSIG was set); nothing else (failed calls left no trace:
  `bodyRun` skips them). The header is the one held in the first four octets of the buffer.

  `Op.Typed`: arguments are values of their Rust types (`Name` well formed, 16-bit type/class,
  `Rdata` ≤ 65535 octets). `Respects`: the hint contract. `MacLenOK`: the MAC fits its
  reservation. -/

theorem C12_disabled_refinement (macFn : Tsig → List UInt8 → List UInt8) (hmac : MacLenOK macFn)
    (ss : Session) (b : Body) (ops : List Op) (hI : I ss.w) (hlay : Lay ss.w b) (hb : b.Typed)
    (hk : ∀ op ∈ ops, keepsDisabled op = true) (ht : ∀ op ∈ ops, op.Typed) (hr : Respects ss ops) :
    ∃ m mac d, finish (run ss ops).1.w macFn = .ok (m, mac) ∧ Spec.Message.specDecodeMsg m = some d ∧
      d.msg = ⟨specHeader (run ss ops).1.w.octets,
        (bodyRun b ops (run ss ops).2).qs.map specQ,
        (bodyRun b ops (run ss ops).2).an.map specR,
        (bodyRun b ops (run ss ops).2).ns.map specR,
        ((bodyRun b ops (run ss ops).2).ar ++ optRecs (run ss ops).1.w.edns ++
          tsigRecs (run ss ops).1.w.tsig mac).map specR⟩ :=
  disabled_refines macFn hmac ss b ops hI hlay hb hk ht hr

/-- **the header, for all sequences of calls in every compression mode**: the header the decoder
    reads off the buffer is the all-zero header of `Writer::new` updated by the header setters that
    succeeded, in order — each sets exactly its field (`set_extended_rcode` the low four bits of
    the RCODE); no other call and no failed call touches it -/
theorem C12_header_all_sequences (buf : Bytes) (limit : Nat) (s0 : State)
    (hnew : Writer.new buf limit = .ok s0) (mode : CMode) (ops : List Op) (ht : ∀ op ∈ ops, op.Typed)
    (hr : Respects { w := { s0 with mode := mode } } ops) :
    specHeader (run { w := { s0 with mode := mode } } ops).1.w.octets =
      hdrRun ⟨0, false, 0, false, false, false, false, 0, 0⟩ ops
        (run { w := { s0 with mode := mode } } ops).2 := by
  have hI : I { s0 with mode := mode } := (safe_setMode mode s0 (new_i buf limit s0 hnew)).2
  have := hdr_run { w := { s0 with mode := mode } } ops hI.inv ht (run_I _ ops hI hr).1
  rw [this]
  show hdrRun (specHeader s0.octets) _ _ = _
  rw [hdr_new buf limit s0 hnew]

/-- the same from a fresh writer (`Writer::new`, then `set_compression_mode(Disabled)`) -/
theorem C12_disabled_refinement_fresh (macFn : Tsig → List UInt8 → List UInt8) (hmac : MacLenOK macFn)
    (buf : Bytes) (limit : Nat) (s0 : State) (hnew : Writer.new buf limit = .ok s0) (ops : List Op)
    (hk : ∀ op ∈ ops, keepsDisabled op = true) (ht : ∀ op ∈ ops, op.Typed)
    (hr : Respects { w := { s0 with mode := .disabled } } ops) :
    let fin := run { w := { s0 with mode := .disabled } } ops
    let B := bodyRun {} ops fin.2
    ∃ m mac d, finish fin.1.w macFn = .ok (m, mac) ∧ Spec.Message.specDecodeMsg m = some d ∧
      d.msg = ⟨hdrRun ⟨0, false, 0, false, false, false, false, 0, 0⟩ ops fin.2,
        B.qs.map specQ, B.an.map specR, B.ns.map specR,
        (B.ar ++ optRecs fin.1.w.edns ++ tsigRecs fin.1.w.tsig mac).map specR⟩ := by
  have hI : I { s0 with mode := .disabled } := (safe_setMode .disabled s0 (new_i buf limit s0 hnew)).2
  intro fin B
  rw [← C12_header_all_sequences buf limit s0 hnew .disabled ops ht hr]
  exact disabled_refines macFn hmac { w := { s0 with mode := .disabled } } {} ops hI
    (lay_new buf limit s0 hnew) ⟨(fun _ h => by cases h), (fun _ h => by cases h), (fun _ h => by cases h),
      (fun _ h => by cases h)⟩ hk ht hr

/-- RDATA the writer accepted is RDATA the specification can read: the implementation's
    `Rdata::components` table (generated from the source) is exactly the RFC layout table of the
    specification, for every class and type -/
theorem C12_accepted_rdata_is_wellformed (sec : RrSection) (hint : Hint) (owner : WName)
    (ty cls ttl : Nat) (rd : List UInt8) (s : State)
    (h : (addRrOp sec hint owner ty cls ttl rd s).1 = .ok ()) :
    (Spec.Message.givenRdata ty cls rd).isSome = true :=
  givenRdata_of_rdataOK cls ty rd ((addRrOp_rdata sec hint owner ty cls ttl rd s).1 h)

theorem C12_component_table_is_rfc_layout (cls ty : Nat) :
    componentTypes cls ty = some ((Spec.Message.layoutOf ty cls).map layToComp) :=
  componentTypes_layout cls ty

/-! ## (d) in every compression mode

  The refinement for `Standard` and `CasePreserving` mode is `C12_refinement_all_modes` (the single
  statement, at the end of this file) with its corollary `C12_refinement_without_standard_mode`
  (decoded message = abstract message, exactly). The theorems before it state its parts for the
  independent message decoder of `QV.Spec.MsgDecode` (the oracle of C02):
  * **Structure, for all sequences of calls** (`C12_finished_message_decodes_all_modes`): the
    finished message — if at most 65535 octets, as every DNS message is — decodes completely under
    the independent message decoder of `QV.Spec.MsgDecode`: exactly QDCOUNT questions and
    ANCOUNT / NSCOUNT / ARCOUNT records (the counts the writer kept: failed calls left no trace),
    the message ending after the last record; the additional section ends with the OPT record iff
    EDNS is set, then the TSIG record iff a TSIG is set. (Invariant `SLay`: every question and
    record starts with a name that decoder reads — C13 — on exactly the octets the writer wrote,
    and every RDLENGTH leads to the next record.)
  * **Content, record by record** (`C12_record_round_trip_all_modes`): what one successful `add_rr`
    appended reads back, on every later message, as the owner given (same labels up to ASCII case;
    octet for octet in `CasePreserving` and `Disabled` mode), TYPE, CLASS, TTL as given, and an
    RDLENGTH that is the number of octets written after it.
  * **Content, all records of a session** (`C12_records_are_the_calls_all_modes`, below): the decoded
    questions and records are, section by section and in order, those of the calls that succeeded.
  * **RDATA** (`C12_rdata_round_trip_all_modes`, below): the RDATA of a record reads back field by
    field, the names inside it decompressed to the names given.
  * **The whole message, RFC-layout decoder** (`C12_refinement_all_modes`, below). -/

theorem C12_finished_message_decodes_all_modes (macFn : Tsig → List UInt8 → List UInt8) (hmac : MacLenOK macFn)
    (buf : Bytes) (limit : Nat) (s0 : State) (hnew : Writer.new buf limit = .ok s0) (mode : CMode)
    (ops : List Op) (hr : Respects { w := { s0 with mode := mode } } ops) :
    let fin := (run { w := { s0 with mode := mode } } ops).1.w
    ∃ m mac, finish fin macFn = .ok (m, mac) ∧ (m.size ≤ 65535 →
      ∃ d, Spec.specDecodeMsg m = some d ∧ d.questions.length = fin.qdcount ∧ d.an.length = fin.ancount ∧
        d.ns.length = fin.nscount ∧ d.ar.length = fin.arcount ∧
        ∃ body, d.ar.map (·.ty) = body ++ (if fin.edns.isSome then [41] else []) ++
          (if fin.tsig.isSome then [250] else [])) := by
  intro fin
  have hI0 : I { s0 with mode := mode } := (safe_setMode mode s0 (new_i buf limit s0 hnew)).2
  have hL0 : SLay { s0 with mode := mode } :=
    slay_setMode mode s0 (slay_new buf limit s0 hnew) (new_i buf limit s0 hnew)
  have hI := (run_I { w := { s0 with mode := mode } } ops hI0 hr).2
  have hL := slay_run { w := { s0 with mode := mode } } ops hI0 hL0 hr
  obtain ⟨m, mac, hf⟩ := finish_ok macFn hmac fin hI
  exact ⟨m, mac, hf, fun hsz => finish_decodes macFn fin hI hL m mac hf hsz⟩

theorem C12_record_round_trip_all_modes (hint : Hint) (owner : WName) (ty cls ttl : Nat) (rd : List UInt8)
    (s s' : State) (hw : WInv s) (hwf : owner.WF) (hh : Writer.HintOK s hint owner)
    (hty : ty < 65536) (hcls : cls < 65536) (httl : ttl < 4294967296)
    (h : addRr hint owner ty cls ttl rd s = (.ok (), s')) (msg : Bytes)
    (hmsg : ∀ i, i < s'.cursor → msg[i]? = s'.octets[i]?) :
    ∃ w k, Spec.specDecodeName msg s.cursor = some (w, owner.len, k) ∧ s.cursor + k + 10 ≤ s'.cursor ∧
      w.map lowerU8 = owner.wire.map lowerU8 ∧ (s.mode ≠ .standard → w = owner.wire) ∧
      be16 msg (s.cursor + k) = ty ∧ be16 msg (s.cursor + k + 2) = cls ∧ be32 msg (s.cursor + k + 4) = ttl ∧
      be16 msg (s.cursor + k + 8) = (s'.cursor - (s.cursor + k + 10)) % 65536 :=
  addRr_round_trip hint owner ty cls ttl rd s s' hw hwf hh hty hcls httl h msg hmsg

/-- the same for the question (`add_question`): QNAME, then QTYPE and QCLASS -/
theorem C12_question_round_trip_all_modes (qn : WName) (qt qc : Nat) (s s' : State) (hw : WInv s)
    (hwf : qn.WF) (hqt : qt < 65536) (hqc : qc < 65536)
    (h : addQuestionBody qn qt qc s = (.ok (), s')) (msg : Bytes)
    (hmsg : ∀ i, i < s'.cursor → msg[i]? = s'.octets[i]?) :
    ∃ w k, Spec.specDecodeName msg s.cursor = some (w, qn.len, k) ∧ s'.cursor = s.cursor + k + 4 ∧
      w.map lowerU8 = qn.wire.map lowerU8 ∧ (s.mode ≠ .standard → w = qn.wire) ∧
      be16 msg (s.cursor + k) = qt ∧ be16 msg (s.cursor + k + 2) = qc :=
  addQuestionBody_round_trip qn qt qc s s' hw hwf hqt hqc h msg hmsg


/-! ### every decoded question and record is the one given, in order (every mode)

  For every session from a fresh writer, in any initial mode, with any mode changes: the finished
  message (if at most 65535 octets) decodes, and the decoded questions / answer / authority /
  additional records are — one for one and in order — the questions and records of the calls that
  succeeded (`bodyRun`; `clear_rrs` removes the records, a failed call adds nothing), followed in
  the additional section by the OPT record (payload size as CLASS, extended RCODE/version as TTL)
  and the TSIG record (key name, ANY, TTL 0). "Is the one given" (`RMatch`, `QMatch`): the decoded
  name, decompressed by the independent decoder, equals the name given up to ASCII case — octet
  for octet if the call was made in `CasePreserving` or `Disabled` mode (the mode `it.m` of every
  item is the initial mode or one set by a `set_compression_mode` call of the session) —, TYPE, CLASS, TTL are
  the values given, and the RDATA is the RDATA given, octet for octet, for every type whose RDATA
  holds no compressible name (`Rdata::components` lists none: everything but NS, MD, MF, CNAME,
  SOA, MB, MG, MR, PTR, MINFO, MX). Underneath (`RdAt`, `QV.Proofs.WriterRdPos`): for every record
  the buffer holds the RDATA given part by part as `write_components` splits it — fixed-length
  parts, uncompressible names and the rest verbatim, each compressible name as a name the
  independent decoder reads there and that is the name given. -/
theorem C12_records_are_the_calls_all_modes (macFn : Tsig → List UInt8 → List UInt8) (hmac : MacLenOK macFn)
    (buf : Bytes) (limit : Nat) (s0 : State) (hnew : Writer.new buf limit = .ok s0) (mode : CMode)
    (ops : List Op) (hr : Respects { w := { s0 with mode := mode } } ops) :
    let out := run { w := { s0 with mode := mode } } ops
    let given := bodyRun {} ops out.2
    ∃ m mac, finish out.1.w macFn = .ok (m, mac) ∧ (m.size ≤ 65535 →
      ∃ (d : Spec.DMsg) (qs : List QItC) (ian ins iar : List RItC), Spec.specDecodeMsg m = some d ∧
        qs.map (·.q) = given.qs ∧ ian.map (·.r) = given.an ∧ ins.map (·.r) = given.ns ∧
        iar.map (·.r) = given.ar ++ optRecs' out.1.w.edns ++ tsigRecs out.1.w.tsig mac ∧
        All2 QMatch qs d.questions ∧ All2 RMatch ian d.an ∧ All2 RMatch ins d.ns ∧ All2 RMatch iar d.ar ∧
        (∀ it ∈ qs, it.m = mode ∨ Op.setMode it.m ∈ ops) ∧
        ∀ it ∈ ian ++ ins ++ iar, it.m = mode ∨ Op.setMode it.m ∈ ops) := by
  intro out given
  have hI0 : I { s0 with mode := mode } := (safe_setMode mode s0 (new_i buf limit s0 hnew)).2
  have hL0 : CLay (fun m => m = mode ∨ Op.setMode m ∈ ops) { s0 with mode := mode } {} {} :=
    clay_new buf limit s0 hnew mode (Or.inl rfl)
  have hI := (run_I { w := { s0 with mode := mode } } ops hI0 hr).2
  have hL := clay_run { w := { s0 with mode := mode } } ops {} {} hI0 hL0 hr (fun m hm => Or.inr hm)
  obtain ⟨m, mac, hf⟩ := finish_ok macFn hmac out.1.w hI
  exact ⟨m, mac, hf, fun hsz => finish_decodes_content macFn out.1.w given _ hI hL m mac hf hsz⟩

/-- the same with the expanded RDATA (`RMatchX` = `RMatch` and `RdMatch`): for every record of a
    16-bit type whose given RDATA is well formed for its type (`RdShape`: exactly the names and
    fixed octets of the RFC 1035 layout), the RDATA the independent message decoder reports — names
    of NS, MD, MF, CNAME, SOA, MB, MG, MR, PTR, MINFO, MX expanded — is the RDATA given with those
    names written out (`RdExpands`): equal up to ASCII case, octet for octet for records written
    outside `Standard` mode (`rdExpands_lower`), all other octets as given; `rdOk = true` -/
theorem C12_expanded_rdata_is_the_given_rdata (macFn : Tsig → List UInt8 → List UInt8) (hmac : MacLenOK macFn)
    (buf : Bytes) (limit : Nat) (s0 : State) (hnew : Writer.new buf limit = .ok s0) (mode : CMode)
    (ops : List Op) (hr : Respects { w := { s0 with mode := mode } } ops) :
    let out := run { w := { s0 with mode := mode } } ops
    let given := bodyRun {} ops out.2
    ∃ m mac, finish out.1.w macFn = .ok (m, mac) ∧ (m.size ≤ 65535 →
      ∃ (d : Spec.DMsg) (qs : List QItC) (ian ins iar : List RItC), Spec.specDecodeMsg m = some d ∧
        qs.map (·.q) = given.qs ∧ ian.map (·.r) = given.an ∧ ins.map (·.r) = given.ns ∧
        iar.map (·.r) = given.ar ++ optRecs' out.1.w.edns ++ tsigRecs out.1.w.tsig mac ∧
        All2 QMatch qs d.questions ∧ All2 RMatchX ian d.an ∧ All2 RMatchX ins d.ns ∧ All2 RMatchX iar d.ar ∧
        (∀ it ∈ qs, it.m = mode ∨ Op.setMode it.m ∈ ops) ∧
        ∀ it ∈ ian ++ ins ++ iar, it.m = mode ∨ Op.setMode it.m ∈ ops) := by
  intro out given
  have hI0 : I { s0 with mode := mode } := (safe_setMode mode s0 (new_i buf limit s0 hnew)).2
  have hL0 : CLay (fun m => m = mode ∨ Op.setMode m ∈ ops) { s0 with mode := mode } {} {} :=
    clay_new buf limit s0 hnew mode (Or.inl rfl)
  have hI := (run_I { w := { s0 with mode := mode } } ops hI0 hr).2
  have hL := clay_run { w := { s0 with mode := mode } } ops {} {} hI0 hL0 hr (fun m hm => Or.inr hm)
  obtain ⟨m, mac, hf⟩ := finish_ok macFn hmac out.1.w hI
  exact ⟨m, mac, hf, fun hsz => finish_decodes_rdata macFn out.1.w given _ hI hL m mac hf hsz⟩

/-- non-vacuity of `RdShape` / `RdExpands`: a CNAME RDATA `b.a.` is well formed, and the expansion
    relation holds between it and itself -/
example : RdShape 5 [1, 98, 1, 97, 0] ∧ RdExpands True 5 [1, 98, 1, 97, 0] [1, 98, 1, 97, 0] := by
  refine ⟨?_, ?_⟩
  · unfold RdShape; simp only [Nat.reduceEqDiff, or_true, true_or, if_true]
    exact ⟨⟨[[98], [97]]⟩, by decide⟩
  · unfold RdExpands; simp only [Nat.reduceEqDiff, or_true, true_or, if_true]
    exact ⟨⟨[[98], [97]]⟩, _, by decide, rfl, by decide, rfl, fun _ => by decide⟩

/-! ### the RDATA of a record reads back, names inside it decompressed (every mode)

  After a successful `add_rr` (message of at most 65535 octets so far): the record starts at the old
  cursor with an owner of `k` octets, RDLENGTH holds the number `len` of octets after it, and the
  specification's decoder (`QV.Spec.Message.decodeRdata`: expand the RDATA along the RFC layout of
  the type, decompressing the names RFC 3597 §4 allows to be compressed) reads exactly the fields
  of the RDATA given (`givenRdata`, the specification's own reading of the caller's octets):
  `FieldMatch` — octet fields equal, names equal up to ASCII case, octet for octet unless the mode
  is `Standard`. The whole-message statements carry this for every record (`RdAt` inside the
  layout invariant `CLay`). -/
theorem C12_rdata_round_trip_all_modes (hint : Hint) (owner : WName) (ty cls ttl : Nat) (rd : List UInt8)
    (s s' : State) (hw : WInv s) (hl : PtrLogOK s) (hwf : owner.WF) (hh : Writer.HintOK s hint owner)
    (h : addRr hint owner ty cls ttl rd s = (.ok (), s')) (hle : s'.cursor ≤ 65535) (item : Nat) :
    ∃ k len gf df ns, s.cursor + k + 10 + len = s'.cursor ∧
      (∃ w n, Spec.specDecodeName (s'.octets.extract 0 s'.cursor) s.cursor = some (w, n, k)) ∧
      be16 s'.octets (s.cursor + k + 8) = len ∧
      Spec.Message.givenRdata ty cls rd = some gf ∧
      Spec.Message.decodeRdata (s'.octets.extract 0 s'.cursor) item ty cls (s.cursor + k + 10) len = some (df, ns) ∧
      All2 (FieldMatch (s.mode ≠ .standard)) gf df :=
  addRr_rdata_round_trip hint owner ty cls ttl rd s s' hw hl hwf hh h hle item


/-! ### (d) in every compression mode: the single statement

  `C12_refinement_all_modes`: for every buffer, limit, initial mode and every sequence of public calls
  (arguments of the Rust types: 16-bit types and classes, …; hint contract respected), with any
  mode changes, templates, `clear_rrs`, EDNS and TSIG: `finish` succeeds and its message (if at most
  65535 octets), read by the specification's RFC 1035 decoder `QV.Spec.Message.specDecodeMsg`
  (pointers followed, names decompressed, RDATA expanded along the RFC layouts), is: the header
  octets of the writer (`C12_header_all_sequences` says what they are) and, section by section and
  in order, exactly the questions and records of the calls that succeeded (a failed call adds
  nothing; `clear_rrs` removes the records), followed in the additional section by the OPT and TSIG
  records — where `QuestionIs ex` / `RecordIs ex` say: names (QNAME, owner, and every name inside
  RDATA, decompressed) equal to the names given up to ASCII case, and octet for octet if `ex`; TYPE,
  CLASS, TTL and every other RDATA octet as given. `ex` may be taken `True` whenever neither the
  initial mode nor any mode set during the session is `Standard`, and `False` always.

  `C12_refinement_item_modes`: the same with every item compared in the mode in effect when it was
  written (sessions that switch modes).

  `C12_refinement_all_modes_dns_limits`: no premise on the size when all limits are at most 65535.

  `C12_refinement_without_standard_mode`: with `ex = True`, the decoded message *equals* the abstract
  message of the successful calls — the statement of `C12_disabled_refinement`, now for
  `CasePreserving` (and any mix of `CasePreserving` and `Disabled`). -/
theorem C12_refinement_all_modes (macFn : Tsig → List UInt8 → List UInt8) (hmac : MacLenOK macFn)
    (buf : Bytes) (limit : Nat) (s0 : State) (hnew : Writer.new buf limit = .ok s0) (mode : CMode)
    (ops : List Op) (ht : ∀ op ∈ ops, op.Typed) (hr : Respects { w := { s0 with mode := mode } } ops)
    (ex : Prop) (hex : ex → mode ≠ .standard ∧ ∀ m, Op.setMode m ∈ ops → m ≠ .standard) :
    ∃ m mac, finish (run { w := { s0 with mode := mode } } ops).1.w macFn = .ok (m, mac) ∧ (m.size ≤ 65535 →
      ∃ d : Spec.Message.Decoded, Spec.Message.specDecodeMsg m = some d ∧
        d.msg.header = specHeader (run { w := { s0 with mode := mode } } ops).1.w.octets ∧
        All2 (QuestionIs ex) (bodyRun {} ops (run { w := { s0 with mode := mode } } ops).2).qs d.msg.questions ∧
        All2 (RecordIs ex) (bodyRun {} ops (run { w := { s0 with mode := mode } } ops).2).an d.msg.answers ∧
        All2 (RecordIs ex) (bodyRun {} ops (run { w := { s0 with mode := mode } } ops).2).ns d.msg.authorities ∧
        All2 (RecordIs ex) ((bodyRun {} ops (run { w := { s0 with mode := mode } } ops).2).ar ++
          optRecs' (run { w := { s0 with mode := mode } } ops).1.w.edns ++
          tsigRecs (run { w := { s0 with mode := mode } } ops).1.w.tsig mac) d.msg.additionals) :=
  refines_all_modes macFn hmac buf limit s0 hnew mode ops ht hr ex hex

theorem C12_refinement_without_standard_mode (macFn : Tsig → List UInt8 → List UInt8) (hmac : MacLenOK macFn)
    (buf : Bytes) (limit : Nat) (s0 : State) (hnew : Writer.new buf limit = .ok s0) (mode : CMode)
    (ops : List Op) (ht : ∀ op ∈ ops, op.Typed) (hr : Respects { w := { s0 with mode := mode } } ops)
    (hm0 : mode ≠ .standard) (hms : ∀ m, Op.setMode m ∈ ops → m ≠ .standard) :
    ∃ m mac, finish (run { w := { s0 with mode := mode } } ops).1.w macFn = .ok (m, mac) ∧ (m.size ≤ 65535 →
      ∃ d : Spec.Message.Decoded, Spec.Message.specDecodeMsg m = some d ∧
        d.msg = ⟨specHeader (run { w := { s0 with mode := mode } } ops).1.w.octets,
          (bodyRun {} ops (run { w := { s0 with mode := mode } } ops).2).qs.map specQ,
          (bodyRun {} ops (run { w := { s0 with mode := mode } } ops).2).an.map specR,
          (bodyRun {} ops (run { w := { s0 with mode := mode } } ops).2).ns.map specR,
          ((bodyRun {} ops (run { w := { s0 with mode := mode } } ops).2).ar ++
            optRecs (run { w := { s0 with mode := mode } } ops).1.w.edns ++
            tsigRecs (run { w := { s0 with mode := mode } } ops).1.w.tsig mac).map specR⟩) :=
  refines_exact macFn hmac buf limit s0 hnew mode ops ht hr hm0 hms

/-- **item by item**: every question and record compared in the compression mode in effect when it
    was written — octet for octet unless that mode was `Standard`, up to ASCII case if it was; the
    OPT and TSIG records in the mode in effect at `finish`. This is the comparison the executable
    specification makes (`checkSegment`, `itemModes`), also for sessions that switch between
    `Standard` and the other modes. `mrun`: the mode of the writer when each successful call was
    made; by `C12_modes_follow_the_calls` it is a function of the initial mode, the calls and their
    results (`modesRun`: only `set_compression_mode` changes the mode). -/
theorem C12_refinement_item_modes (macFn : Tsig → List UInt8 → List UInt8) (hmac : MacLenOK macFn)
    (buf : Bytes) (limit : Nat) (s0 : State) (hnew : Writer.new buf limit = .ok s0) (mode : CMode)
    (ops : List Op) (ht : ∀ op ∈ ops, op.Typed) (hr : Respects { w := { s0 with mode := mode } } ops) :
    ∃ m mac, finish (run { w := { s0 with mode := mode } } ops).1.w macFn = .ok (m, mac) ∧ (m.size ≤ 65535 →
      ∃ d : Spec.Message.Decoded, Spec.Message.specDecodeMsg m = some d ∧
        d.msg.header = specHeader (run { w := { s0 with mode := mode } } ops).1.w.octets ∧
        All2 (fun (x : CMode × QRec) dq => QuestionIs (x.1 ≠ .standard) x.2 dq)
          ((mrun { w := { s0 with mode := mode } } {} ops).qs.zip
            (bodyRun {} ops (run { w := { s0 with mode := mode } } ops).2).qs) d.msg.questions ∧
        All2 (fun (x : CMode × RRec) dr => RecordIs (x.1 ≠ .standard) x.2 dr)
          ((mrun { w := { s0 with mode := mode } } {} ops).an.zip
            (bodyRun {} ops (run { w := { s0 with mode := mode } } ops).2).an) d.msg.answers ∧
        All2 (fun (x : CMode × RRec) dr => RecordIs (x.1 ≠ .standard) x.2 dr)
          ((mrun { w := { s0 with mode := mode } } {} ops).ns.zip
            (bodyRun {} ops (run { w := { s0 with mode := mode } } ops).2).ns) d.msg.authorities ∧
        All2 (fun (x : CMode × RRec) dr => RecordIs (x.1 ≠ .standard) x.2 dr)
          (((mrun { w := { s0 with mode := mode } } {} ops).ar ++
              (optRecs' (run { w := { s0 with mode := mode } } ops).1.w.edns).map
                (fun _ => (run { w := { s0 with mode := mode } } ops).1.w.mode) ++
              (tsigRecs (run { w := { s0 with mode := mode } } ops).1.w.tsig mac).map
                (fun _ => (run { w := { s0 with mode := mode } } ops).1.w.mode)).zip
            ((bodyRun {} ops (run { w := { s0 with mode := mode } } ops).2).ar ++
              optRecs' (run { w := { s0 with mode := mode } } ops).1.w.edns ++
              tsigRecs (run { w := { s0 with mode := mode } } ops).1.w.tsig mac)) d.msg.additionals) :=
  refines_item_modes macFn hmac buf limit s0 hnew mode ops ht hr

/-- the modes used in `C12_refinement_item_modes` do not depend on the model's state: only
    `set_compression_mode` changes the writer's mode (`step_mode`) -/
theorem C12_modes_follow_the_calls (buf : Bytes) (limit : Nat) (s0 : State)
    (hnew : Writer.new buf limit = .ok s0) (mode : CMode) (ops : List Op)
    (hr : Respects { w := { s0 with mode := mode } } ops) :
    mrun { w := { s0 with mode := mode } } {} ops =
        modesRun mode {} ops (run { w := { s0 with mode := mode } } ops).2 ∧
      (run { w := { s0 with mode := mode } } ops).1.w.mode = ops.foldl modeAfter mode := by
  have hI0 : I { s0 with mode := mode } := (safe_setMode mode s0 (new_i buf limit s0 hnew)).2
  exact ⟨mrun_eq_modesRun _ ops {} hI0 hr, run_mode _ ops hI0 hr⟩

/-- the same without a premise on the size of the message: when the limit given to `Writer::new`
    and every limit set later is at most 65535 (the largest DNS message), the finished message has
    at most 65535 octets (`session_size_le`), so the refinement holds outright -/
theorem C12_refinement_all_modes_dns_limits (macFn : Tsig → List UInt8 → List UInt8) (hmac : MacLenOK macFn)
    (buf : Bytes) (limit : Nat) (s0 : State) (hnew : Writer.new buf limit = .ok s0) (hlim : limit ≤ 65535)
    (mode : CMode) (ops : List Op) (ht : ∀ op ∈ ops, op.Typed)
    (hr : Respects { w := { s0 with mode := mode } } ops) (hv : ∀ v, Op.setLimit v ∈ ops → v ≤ 65535)
    (ex : Prop) (hex : ex → mode ≠ .standard ∧ ∀ m, Op.setMode m ∈ ops → m ≠ .standard) :
    ∃ m mac, finish (run { w := { s0 with mode := mode } } ops).1.w macFn = .ok (m, mac) ∧ m.size ≤ 65535 ∧
      ∃ d : Spec.Message.Decoded, Spec.Message.specDecodeMsg m = some d ∧
        d.msg.header = specHeader (run { w := { s0 with mode := mode } } ops).1.w.octets ∧
        All2 (QuestionIs ex) (bodyRun {} ops (run { w := { s0 with mode := mode } } ops).2).qs d.msg.questions ∧
        All2 (RecordIs ex) (bodyRun {} ops (run { w := { s0 with mode := mode } } ops).2).an d.msg.answers ∧
        All2 (RecordIs ex) (bodyRun {} ops (run { w := { s0 with mode := mode } } ops).2).ns d.msg.authorities ∧
        All2 (RecordIs ex) ((bodyRun {} ops (run { w := { s0 with mode := mode } } ops).2).ar ++
          optRecs' (run { w := { s0 with mode := mode } } ops).1.w.edns ++
          tsigRecs (run { w := { s0 with mode := mode } } ops).1.w.tsig mac) d.msg.additionals := by
  obtain ⟨m, mac, hf, hrest⟩ := refines_all_modes macFn hmac buf limit s0 hnew mode ops ht hr ex hex
  have hsz := session_size_le macFn buf limit s0 hnew hlim mode ops hr hv m mac hf
  exact ⟨m, mac, hf, hsz, hrest hsz⟩

/-! ### every failure is one the specification accepts

  `checkSession` accepts a failed call only if `justified s op "err:Kind"` holds in the abstract state
  `s` of the calls that succeeded so far. `C12_failures_justified`: whenever a public call fails with
  `Kind` in a valid writer state, `justified` holds in every abstract state that describes that
  writer state (`AbsNum`: same section, counts, EDNS / TSIG configuration, limit, buffer length,
  `cur` = cursor and `reserved` = `limit − available`). Kind by kind: `Truncation` only if the
  *uncompressed* encoding of what the call adds does not fit (for `set_edns` / `set_tsig`: the
  reservation; for the templates: the new buffer is shorter than message + reservations);
  `CountOverflow` only if the section count would exceed 65535; `OutOfOrder` only for a section
  already closed; `InvalidRdata` only for RDATA the specification itself cannot read along the RFC
  layout (`C12_spec_readable_rdata_is_accepted`); `AlreadyEdns`, `AlreadyTsig`, `NotEdns`,
  `ExtendedRcodeOverflow`, `NotTsig`, `NotSignedTsig` exactly under their conditions; every other
  call never fails. -/
theorem C12_failures_justified (ss : Session) (op : Op) (a : Spec.Message.AState) (hI : I ss.w)
    (hop : OpOK ss op) (hA : AbsNum ss.w a) (e : WriterErr) (he : (step ss op).1 = .err e) :
    Spec.Message.justified a (Driver.toSpecOp op) (Driver.statusStr (.err e)) = true :=
  step_justified ss op a hI hop hA e he

/-- RDATA the specification can read (`givenRdata`) is RDATA `add_*_rr` accepts: the writer reports
    `InvalidRdata` only for RDATA that is malformed for its type also by the specification's reading -/
theorem C12_spec_readable_rdata_is_accepted (cls ty : Nat) (rd : List UInt8)
    (h : (Spec.Message.givenRdata ty cls rd).isSome = true) : rdataOK cls ty rd = true :=
  rdataOK_of_given cls ty rd h

/-! ### the abstract state of the specification follows the writer

  The walk of `checkSession` keeps an abstract state, advanced by `absOk` at every successful call.
  `C12_fresh_writer_is_the_initial_abstract_state`, `C12_accepted_calls_are_accepted_by_the_specification`
  and `C12_abstract_state_follows`: from a fresh writer the abstract state describes the writer state
  (`AbsNum`) after every successful call — `absOk` never rejects a call the writer accepted, and
  section, counts, EDNS / TSIG configuration, limit (`set_limit`, templates), reservations, buffer
  length and mode evolve in the model exactly as the specification says. The one thing `absOk` reads
  off the decoded message is `cur` (the end of the last item written: hypothesis `hcur`, it is the
  cursor) and that the items exist (`AbsPre`). Together with `C12_failures_justified`: every failure
  along the walk is justified in the abstract state the walk has reached. -/
theorem C12_fresh_writer_is_the_initial_abstract_state (buf : Bytes) (limit : Nat) (s : State)
    (h : Writer.new buf limit = .ok s) (m : CMode) :
    AbsNum { s with mode := m }
      { mode := Driver.toSpecMode m, buflen := buf.size, limit := min limit buf.size } :=
  absNum_new buf limit s h m

theorem C12_accepted_calls_are_accepted_by_the_specification (ss : Session) (op : Op)
    (a : Spec.Message.AState) (d : Spec.Message.Decoded) (hI : I ss.w) (hA : AbsNum ss.w a)
    (hok : (step ss op).1 = .ok ()) (hpre : AbsPre a d op) :
    ∃ a', Spec.Message.absOk a d (Driver.toSpecOp op) = .ok a' :=
  absOk_succeeds ss op a d hI hA hok hpre

theorem C12_abstract_state_follows (ss : Session) (op : Op) (a a' : Spec.Message.AState)
    (d : Spec.Message.Decoded) (hI : I ss.w) (hop : OpOK ss op) (hA : AbsNum ss.w a)
    (hok : (step ss op).1 = .ok ()) (habs : Spec.Message.absOk a d (Driver.toSpecOp op) = .ok a')
    (hcur : movesCursor op = true → a'.cur = (step ss op).2.w.cursor) : AbsNum (step ss op).2.w a' :=
  absNum_step ss op a a' d hI hop hA hok habs hcur

/-! ### the walk of `checkSession`, for one segment

  `C12_walk_reaches_final_check_partial` (restriction: sessions without `clear_rrs`, non-empty
  RRsets, limits at most 65535): from a fresh writer, `Spec.Message.walk` — run with the
  specification's initial abstract state on the calls of the session (`toSpecOp`), the statuses the
  model reports (`obs`: `statusStr` of every call, for `getters` what they report — equal to what
  the specification expects, `gettersStr_eq` —, then `"ok"` for `finish`), the finished message and its decoding —
  never rejects: every successful call is accepted by `absOk` (whose `cur`, read off the decoded
  extents, is the cursor: `extents_prefix`), every failed call is `justified`; it equals the final
  `checkSegment` in an abstract state `aF` that describes the final writer state (`AbsNum`) and whose
  header is the decoded header, Z bits zero (the first clause of `checkSegment`), and whose question /
  record lists and item modes are exactly those of the successful calls (`AbsContent`: the lists
  `C12_refinement_item_modes` compares the decoded message with).
  What remains of `C12_full`: the rest of `checkSegment aF d …` (name equality by mode and
  records — `C12_refinement_item_modes` in the decoder's vocabulary —, TSIG record, size —
  `C12_limit_all_sequences` —, pointer audit — C13), and the segments ended by `clear_rrs`. -/
theorem C12_walk_reaches_final_check_partial (macFn : Tsig → List UInt8 → List UInt8) (hmac : MacLenOK macFn)
    (buf : Bytes) (limit : Nat) (s0 : State) (hnew : Writer.new buf limit = .ok s0) (hlim : limit ≤ 65535)
    (mode : CMode) (ops : List Op) (ht : ∀ op ∈ ops, op.Typed) (hb : ∀ op ∈ ops, ApiBounds op)
    (hr : Respects { w := { s0 with mode := mode } } ops) (hv : ∀ v, Op.setLimit v ∈ ops → v ≤ 65535)
    (hno : ∀ op ∈ ops, op ≠ .clearRrs ∧ NonEmptySet op) (mac' : Option (List UInt8)) :
    ∃ m mac d aF, finish (run { w := { s0 with mode := mode } } ops).1.w macFn = .ok (m, mac) ∧
      Spec.Message.specDecodeMsg m = some d ∧ AbsNum (run { w := { s0 with mode := mode } } ops).1.w aF ∧
      aF.hdr = d.msg.header ∧ aF.hdr.z = 0 ∧
      AbsContent aF (bodyRun {} ops (run { w := { s0 with mode := mode } } ops).2)
        (mrun { w := { s0 with mode := mode } } {} ops) ∧
      AbsCfg (run { w := { s0 with mode := mode } } ops).1.w aF ∧
      Spec.Message.walk false
          { mode := Driver.toSpecMode mode, buflen := buf.size, limit := min limit buf.size }
          (ops.map Driver.toSpecOp)
          (obs { w := { s0 with mode := mode } } ops ++ ["ok"]) [m] (some d) mac' =
        Spec.Message.checkSegment false aF d m.size mac' :=
  walk_from_new macFn hmac buf limit s0 hnew hlim mode ops ht hb hr hv hno mac'

/-! ### the clauses of the final check, in the specification's own vocabulary

  `C12_final_check_clauses_partial` (same restriction as the walk: no `clear_rrs`): the
  walk equals `checkSegment false aF d m.size mac'`, and for this `aF` and `d` the clauses of
  `checkSegment` hold as the executable specification writes them: the header equals the decoded
  header with Z = 0; the question count; `listEq` of `nameEq`/type/class over the questions zipped
  with their item modes; `recsEq` (that is `recordEq`: `nameEq` on the owner, type, class, TTL,
  `fieldsEq` on the expanded RDATA, each with the mode of the item) for the answer and authority
  sections and for the additional section up to the OPT record the specification expects
  (`expectedRecords`), the modes being `itemModes` followed by the mode at `finish`; the size is
  within the limit of the abstract state; and what follows in the additional section is exactly the
  TSIG record (if configured), read back as the record given. Not in this theorem: the Bool form of
  the TSIG check (`tsigRecordOk`, which needs the MAC to have exactly the algorithm's output size),
  and `auditPointers`. -/
theorem C12_final_check_clauses_partial (macFn : Tsig → List UInt8 → List UInt8) (hmac : MacLenOK macFn)
    (buf : Bytes) (limit : Nat) (s0 : State) (hnew : Writer.new buf limit = .ok s0) (hlim : limit ≤ 65535)
    (mode : CMode) (ops : List Op) (ht : ∀ op ∈ ops, op.Typed) (hb : ∀ op ∈ ops, ApiBounds op)
    (hr : Respects { w := { s0 with mode := mode } } ops) (hv : ∀ v, Op.setLimit v ∈ ops → v ≤ 65535)
    (hno : ∀ op ∈ ops, op ≠ .clearRrs ∧ NonEmptySet op) (mac' : Option (List UInt8)) :
    ∃ m mac d aF, finish (run { w := { s0 with mode := mode } } ops).1.w macFn = .ok (m, mac) ∧
      Spec.Message.specDecodeMsg m = some d ∧
      Spec.Message.walk false
          { mode := Driver.toSpecMode mode, buflen := buf.size, limit := min limit buf.size }
          (ops.map Driver.toSpecOp)
          (obs { w := { s0 with mode := mode } } ops ++ ["ok"]) [m] (some d) mac' =
        Spec.Message.checkSegment false aF d m.size mac' ∧
      aF.hdr = d.msg.header ∧ aF.hdr.z = 0 ∧ m.size ≤ aF.limit ∧
      AbsCfg (run { w := { s0 with mode := mode } } ops).1.w aF ∧
      aF.mode = Driver.toSpecMode (run { w := { s0 with mode := mode } } ops).1.w.mode ∧
      (let modes := aF.itemModes.reverse
       let qs := aF.questions.reverse
       let nq := qs.length
       let ex := Spec.Message.expectedRecords aF
       let rmodes := modes.drop nq
       d.msg.questions.length = nq ∧
       Spec.Message.listEq (fun (p : Spec.Message.Mode × Spec.Message.Question) (q : Spec.Message.Question) =>
           Spec.Message.nameEq p.1 p.2.qname q.qname && p.2.qtype == q.qtype && p.2.qclass == q.qclass)
         ((modes.take nq).zip qs) d.msg.questions = true ∧
       Spec.Message.recsEq rmodes ex.1 d.msg.answers = true ∧
       Spec.Message.recsEq (rmodes.drop ex.1.length) ex.2.1 d.msg.authorities = true ∧
       ∃ ds tl, d.msg.additionals = ds ++ tl ∧
         Spec.Message.recsEq (rmodes.drop (ex.1.length + ex.2.1.length) ++ [aF.mode, aF.mode]) ex.2.2 ds = true ∧
         All2 (RecordIs ((run { w := { s0 with mode := mode } } ops).1.w.mode ≠ .standard))
           (tsigRecs (run { w := { s0 with mode := mode } } ops).1.w.tsig mac) tl) := by
  obtain ⟨m, mac, d, aF, h1, h2, h3, h4, h5, h6, h7, h8, _, h9⟩ :=
    segment_from_new macFn hmac buf limit s0 hnew hlim mode ops ht hb hr hv hno mac'
  exact ⟨m, mac, d, aF, h1, h2, h3, h4, h5, h6, h7, h8, h9⟩

/-! ### the walk of a segment reduces to the pointer audit

  `C12_segment_reduces_to_pointer_audit_partial` (no `clear_rrs`; the MAC has exactly the
  size the specification expects — `hml` —, and the MAC handed to the specification is the one
  `finish` returned): everything `walk` and `checkSegment` check holds, including the Bool form of
  the TSIG check (`tsigRecordOk_of`), so the whole walk *equals* `auditPointers d modes mode`, the
  pointer audit of C13 on the decoded message. -/
theorem C12_segment_reduces_to_pointer_audit_partial (macFn : Tsig → List UInt8 → List UInt8)
    (hmac : MacLenOK macFn) (buf : Bytes) (limit : Nat) (s0 : State) (hnew : Writer.new buf limit = .ok s0)
    (hlim : limit ≤ 65535) (mode : CMode) (ops : List Op) (ht : ∀ op ∈ ops, op.Typed)
    (hb : ∀ op ∈ ops, ApiBounds op) (hr : Respects { w := { s0 with mode := mode } } ops)
    (hv : ∀ v, Op.setLimit v ∈ ops → v ≤ 65535)
    (hno : ∀ op ∈ ops, op ≠ .clearRrs ∧ NonEmptySet op)
    (hml : ∀ m mac ts, finish (run { w := { s0 with mode := mode } } ops).1.w macFn = .ok (m, mac) →
      (run { w := { s0 with mode := mode } } ops).1.w.tsig = some ts →
      (mac.getD []).length = (toATsig ts).macLen)
    (mac' : Option (List UInt8))
    (hmac' : ∀ m mac, finish (run { w := { s0 with mode := mode } } ops).1.w macFn = .ok (m, mac) →
      mac' = none ∨ mac' = some (mac.getD [])) :
    ∃ (m : Bytes) (mac : Option (List UInt8)) (d : Spec.Message.Decoded) (aF : Spec.Message.AState),
      finish (run { w := { s0 with mode := mode } } ops).1.w macFn = .ok (m, mac) ∧
      Spec.Message.specDecodeMsg m = some d ∧
      Spec.Message.walk false
          { mode := Driver.toSpecMode mode, buflen := buf.size, limit := min limit buf.size }
          (ops.map Driver.toSpecOp)
          (obs { w := { s0 with mode := mode } } ops ++ ["ok"]) [m] (some d) mac' =
        Spec.Message.auditPointers d aF.itemModes.reverse aF.mode := by
  obtain ⟨m, mac, d, aF, h1, h2, h3, _⟩ :=
    segment_reduces_to_audit macFn hmac buf limit s0 hnew hlim mode ops ht hb hr hv hno hml mac' hmac'
  exact ⟨m, mac, d, aF, h1, h2, h3⟩

/-! ### `C12_full`, for one segment, up to the pointer audit

  `C12_full_one_segment_modulo_audit_partial`: the statement of `C12_full` itself — `checkSession` on
  what `Driver.runModel` observes — for sessions without `clear_rrs`, with one
  premise left: the pointer audit of the decoded message (`auditPointers`, C13 in the decoder's
  vocabulary). Everything else `checkSession` checks is proved: no call panics, `finish` succeeds,
  the message decodes, the walk accepts every call (`absOk` for successes, `justified` for
  failures, the getters report what the specification expects), header, questions and records compared in the mode of each item, the OPT and the TSIG
  record, the size limit. (`hsz`: for a signing TSIG mode the MAC given has the algorithm's output
  size — `MacLenOK` alone only bounds it.) -/
theorem C12_full_one_segment_modulo_audit_partial (buf : Bytes) (limit : Nat) (mode : CMode) (s : State)
    (ops : List Op) (mac : Option (List UInt8)) (hnew : Writer.new buf limit = .ok s)
    (hr : Respects { w := { s with mode := mode } } ops) (ht : ∀ op ∈ ops, ApiTyped op) (hlim : limit ≤ 65535)
    (hv : ∀ v, Op.setLimit v ∈ ops → v ≤ 65535) (hmac : MacLenOK (fun _ _ => mac.getD []))
    (hno : ∀ op ∈ ops, op ≠ .clearRrs)
    (hsz : ∀ ts, (run { w := { s with mode := mode } } ops).1.w.tsig = some ts → isUnsigned ts.mode = false →
      (mac.getD []).length = (toATsig ts).macLen) :
    ∃ (m : Bytes) (d : Spec.Message.Decoded) (aF : Spec.Message.AState),
      (Driver.runModel { w := { s with mode := mode } } ops mac true).msg = some m ∧
      Spec.Message.specDecodeMsg m = some d ∧
      (Spec.Message.auditPointers d aF.itemModes.reverse aF.mode = .ok () →
        Spec.Message.checkSession buf.size limit (Driver.toSpecMode mode) (ops.map Driver.toSpecOp)
          (Driver.runModel { w := { s with mode := mode } } ops mac true).statuses
          ((Driver.runModel { w := { s with mode := mode } } ops mac true).pre ++ [m])
          (Driver.runModel { w := { s with mode := mode } } ops mac true).mac = "ok") :=
  checkSession_one_segment buf limit mode s ops mac hnew hr ht hlim hv hmac hno hsz

/-! ### `C12_full` for sessions without `clear_rrs`

  `C12_full_without_clear_rrs_partial`: the statement of `C12_full` (as corrected above), word for
  word, with one more hypothesis: no call is `clear_rrs`. No premise about the pointer audit is left:
  `auditPointers` of the decoded message returns `ok` (`QV.Proofs.WriterAudit`): every pointer the
  decoder finds ends a name of the chains, its target is a label start the writer recorded, below
  that name, hence the first octet of a label of an earlier name (every recorded label start is one,
  for all call sequences: `QLab`, `RLab` in the layout invariant); names inside RDATA that must not
  be compressed and names written in `Disabled` mode contain no pointer. The restriction (the name
  ends in `_partial`): sessions with `clear_rrs`, where `checkSession` also judges the message
  finished before each `clear_rrs`, are not covered. -/
theorem C12_full_without_clear_rrs_partial (buf : Bytes) (limit : Nat) (mode : CMode) (s : State)
    (ops : List Op) (mac : Option (List UInt8)) (hnew : Writer.new buf limit = .ok s)
    (hr : Respects { w := { s with mode := mode } } ops) (ht : ∀ op ∈ ops, ApiTyped op) (hlim : limit ≤ 65535)
    (hv : ∀ v, Op.setLimit v ∈ ops → v ≤ 65535) (hmac : MacLenOK (fun _ _ => mac.getD []))
    (hsz : ∀ ts, (run { w := { s with mode := mode } } ops).1.w.tsig = some ts → isUnsigned ts.mode = false →
      (mac.getD []).length = (toATsig ts).macLen)
    (hno : ∀ op ∈ ops, op ≠ .clearRrs) :
    let r := Driver.runModel { w := { s with mode := mode } } ops mac true
    ∃ m, r.msg = some m ∧
      Spec.Message.checkSession buf.size limit (Driver.toSpecMode mode) (ops.map Driver.toSpecOp)
        r.statuses (r.pre ++ [m]) r.mac = "ok" := by
  intro r
  obtain ⟨m, _, _, hm, _, _⟩ := checkSession_one_segment buf limit mode s ops mac hnew hr ht hlim hv hmac hno hsz
  refine ⟨m, hm, ?_⟩
  have h := checkSession_no_clear buf limit mode s ops mac hnew hr ht hlim hv hmac hno hsz
  rw [hm] at h
  exact h

/-! ### `C12_full` for all sessions, `clear_rrs` included

  `C12_full_all_sessions_partial`: the statement of `C12_full` (as corrected above) for every
  session — any number of `clear_rrs` calls; at each of them `checkSession` judges the message
  finished just before the call against the abstract state and continues from the questions on the
  next message (`QV.Proofs.WriterSessions`: `walk_sessions`, induction over the segments; the
  observer of the driver records exactly those messages: `go_all`). The one difference to `C12_full`
  (hence `_partial`): the MAC-size hypothesis is asked at every point of the session where a signing
  TSIG mode is configured (`hsz` for every prefix of the calls), not only for the final state — the
  two agree because a TSIG configuration, once set, keeps its algorithm (`set_tsig` fails with
  `AlreadyTsig`, `update_time_signed` changes the time only, the templates keep the algorithm);
  that persistence is not proved here. -/
theorem C12_full_all_sessions_partial (buf : Bytes) (limit : Nat) (mode : CMode) (s : State)
    (ops : List Op) (mac : Option (List UInt8)) (hnew : Writer.new buf limit = .ok s)
    (hr : Respects { w := { s with mode := mode } } ops) (ht : ∀ op ∈ ops, ApiTyped op) (hlim : limit ≤ 65535)
    (hv : ∀ v, Op.setLimit v ∈ ops → v ≤ 65535) (hmac : MacLenOK (fun _ _ => mac.getD []))
    (hsz : ∀ o1 o2, ops = o1 ++ o2 → ∀ ts, (run { w := { s with mode := mode } } o1).1.w.tsig = some ts →
      isUnsigned ts.mode = false → (mac.getD []).length = (toATsig ts).macLen) :
    let r := Driver.runModel { w := { s with mode := mode } } ops mac true
    ∃ m, r.msg = some m ∧
      Spec.Message.checkSession buf.size limit (Driver.toSpecMode mode) (ops.map Driver.toSpecOp)
        r.statuses (r.pre ++ [m]) r.mac = "ok" :=
  checkSession_all buf limit mode s ops mac hnew hr ht hlim hv hmac hsz

/-! ### `C12_full`

  `C12_full_holds`: the statement `C12_full` (as corrected at the top of this file) is a theorem —
  for every buffer, limit (at most 65535), initial compression mode and every sequence of typed
  public calls that respects the hint contract (mode changes, templates, any number of `clear_rrs`,
  EDNS, TSIG with a MAC of the algorithm's size), `Spec.Message.checkSession` returns `"ok"` on
  exactly what the driver's observer records from the model. From `C12_full_all_sessions_partial`
  and the persistence of the TSIG algorithm (`after_sig`, `QV.Proofs.WriterSessions`: `set_tsig`
  fails once a TSIG is configured, `update_time_signed` changes the time only, the templates keep the
  algorithm). -/
theorem C12_full_holds : C12_full := by
  intro buf limit mode s ops mac hnew hr ht hlim hv hmac hsz
  exact checkSession_full buf limit mode s ops mac hnew hr ht hlim hv hmac hsz

/-- the pointer audit of the specification, alone: it passes on the message of every session
    without `clear_rrs` (typed calls, limits of at most 65535) — in every compression mode, with
    EDNS and TSIG -/
theorem C12_pointer_audit_passes_partial (macFn : Tsig → List UInt8 → List UInt8) (hmac : MacLenOK macFn)
    (buf : Bytes) (limit : Nat) (s0 : State) (hnew : Writer.new buf limit = .ok s0) (hlim : limit ≤ 65535)
    (mode : CMode) (ops : List Op) (ht : ∀ op ∈ ops, op.Typed) (hb : ∀ op ∈ ops, ApiBounds op)
    (hr : Respects { w := { s0 with mode := mode } } ops) (hv : ∀ v, Op.setLimit v ∈ ops → v ≤ 65535)
    (hno : ∀ op ∈ ops, op ≠ .clearRrs ∧ NonEmptySet op) :
    ∃ (m : Bytes) (mac : Option (List UInt8)) (d : Spec.Message.Decoded) (aF : Spec.Message.AState),
      finish (run { w := { s0 with mode := mode } } ops).1.w macFn = .ok (m, mac) ∧
      Spec.Message.specDecodeMsg m = some d ∧
      aF.mode = Driver.toSpecMode (run { w := { s0 with mode := mode } } ops).1.w.mode ∧
      Spec.Message.auditPointers d aF.itemModes.reverse aF.mode = .ok () := by
  obtain ⟨m, mac, d, aF, hf, hd, _, _, _, _, _, hmode, haud, _⟩ :=
    segment_from_new macFn hmac buf limit s0 hnew hlim mode ops ht hb hr hv hno none
  exact ⟨m, mac, d, aF, hf, hd, hmode, haud⟩

/-! non-vacuity: a `CasePreserving` session that respects the contract, whose calls all succeed, and
    that emits two pointers (owner = QNAME; the CNAME target shares a suffix with it) — all
    hypotheses of `C12_refinement_without_standard_mode` hold for it, and the message has a question
    and an answer -/

def nvOps : List Op := [.addQuestion ⟨[[119, 119, 119], [97]]⟩ 1 1,
  .addRr .answer (.direct .none) ⟨[[119, 119, 119], [97]]⟩ 5 1 60 [1, 98, 1, 97, 0] none]

def nvS : State := match Writer.new (Array.replicate 64 0) 64 with | .ok s => s | _ => default

example : Writer.new (Array.replicate 64 0) 64 = .ok nvS ∧
    (∀ op ∈ nvOps, op.Typed) ∧ Respects { w := { nvS with mode := .casePreserving } } nvOps ∧
    CMode.casePreserving ≠ .standard ∧ (∀ m, Op.setMode m ∈ nvOps → m ≠ .standard) ∧
    (run { w := { nvS with mode := .casePreserving } } nvOps).2 = [.ok (), .ok ()] ∧
    ((run { w := { nvS with mode := .casePreserving } } nvOps).1.w.gPtrs.map fun e => (e.pos, e.target)) =
      [(37, 16), (23, 12)] := by
  have hwf : WName.WF ⟨[[119, 119, 119], [97]]⟩ := by decide
  refine ⟨rfl, ?_, ⟨hwf, ⟨hwf, trivial⟩, trivial⟩, by decide, ?_, by decide +kernel, by decide +kernel⟩
  · intro op hop
    simp only [nvOps, List.mem_cons, List.mem_nil_iff, or_false] at hop
    rcases hop with rfl | rfl
    · exact ⟨hwf, by decide, by decide⟩
    · exact ⟨hwf, by decide, by decide, by decide⟩
  · intro m hm
    simp [nvOps] at hm

/-! non-vacuity of `C12_full_without_clear_rrs_partial`: the same session (two pointers emitted)
    satisfies all its hypotheses -/
example : Writer.new (Array.replicate 64 0) 64 = .ok nvS ∧
    Respects { w := { nvS with mode := .casePreserving } } nvOps ∧ (∀ op ∈ nvOps, ApiTyped op) ∧
    (64 : Nat) ≤ 65535 ∧ (∀ v, Op.setLimit v ∈ nvOps → v ≤ 65535) ∧
    MacLenOK (fun _ _ => (none : Option (List UInt8)).getD []) ∧
    (∀ ts, (run { w := { nvS with mode := .casePreserving } } nvOps).1.w.tsig = some ts →
      isUnsigned ts.mode = false → ((none : Option (List UInt8)).getD []).length = (toATsig ts).macLen) ∧
    (∀ op ∈ nvOps, op ≠ .clearRrs) := by
  have hwf : WName.WF ⟨[[119, 119, 119], [97]]⟩ := by decide
  refine ⟨rfl, ⟨hwf, ⟨hwf, trivial⟩, trivial⟩, ?_, by decide, ?_, ?_, ?_, ?_⟩
  · intro op hop
    simp only [nvOps, List.mem_cons, List.mem_nil_iff, or_false] at hop
    rcases hop with rfl | rfl
    · exact ⟨⟨hwf, by decide, by decide⟩, trivial, trivial⟩
    · exact ⟨⟨hwf, by decide, by decide, by decide⟩, trivial, trivial⟩
  · intro v hv; simp [nvOps] at hv
  · intro ts msg
    simp only [Option.getD_none, List.length_nil]
    exact Nat.zero_le _
  · intro ts hts
    have : (run { w := { nvS with mode := .casePreserving } } nvOps).1.w.tsig = none := by decide +kernel
    rw [this] at hts; cases hts
  · intro op hop
    simp only [nvOps, List.mem_cons, List.mem_nil_iff, or_false] at hop
    rcases hop with rfl | rfl <;> exact fun h => by cases h

end QV.C12
