/-
  C32 — Concurrent catalog and key swaps never mix snapshots.

  "While catalogs and TSIG key sets are being replaced concurrently, every response is computed
   entirely from one catalog snapshot and one key set, never a mixture, and every request handled
   after a replacement returns uses the new catalog."

  Model: `QV.Snapshot` (mirrors the `RwLock<Arc<_>>` cells of src/server/mod.rs and the single
  read of each per message): any number of handlers and swappers, all interleavings of their
  atomic steps.  Spec: `QV.Spec.Snapshot.SnapshotOk` (linearizable reads in the handling window).

  Level: the theorems are about the model.  What ties the model to the code:
    * `C32_structural_premise` — the extractor's counts of `self.catalog()` / `self.tsig_keys()`
      in the message-handling code (1 and 1, none elsewhere, `Context` stores `&C`);
    * the generation-marker stress run of group `snapshot` (real OS threads).
  Assumed, not proved: `std::sync::RwLock` gives atomic reads/writes of the `Arc`, `Arc::clone`
  keeps the snapshot alive and immutable (no interior mutability in the catalog), the memory model.
-/
import QV.Proofs.Snapshot
import QV.Generated.Snapshot

namespace QV.C32
open QV QV.Snapshot QV.Spec.Snapshot

variable {C K Req Resp : Type}

/-- **Single snapshot, linearizable reads.**  In every reachable state of every interleaving of
    any number of handlers and swappers, a finished handler's response is `f c k? req` for ONE
    catalog `c` and at most ONE key set `k`, and each of them was the current value at some
    instant between the handler's start (`catLo`/`keyLo`) and its end (`ce`/`ke`). -/
theorem C32_single_snapshot (f : C → Option K → Req → Resp) (c0 : C) (k0 : K)
    (s : State C K Req Resp) (hr : Reachable f c0 k0 s)
    (h : Handler C K Req Resp) (hm : h ∈ s.hs)
    (r : Resp) (c : C) (ci : Nat) (ko : Option (K × Nat)) (ce ke : Nat)
    (hd : h.pc = .done r c ci ko ce ke) :
    SnapshotOk f s.catHist s.keyHist h.catLo ce h.keyLo ke h.req r := by
  have ho := (inv_reachable hr).hs h hm
  obtain ⟨_, _, d⟩ := ho
  rw [hd] at d
  obtain ⟨a, b, c1, _, _, g⟩ := d
  refine ⟨c, ⟨ci, b, c1, a⟩, ?_⟩
  cases ko with
  | none => exact Or.inl g
  | some p =>
    obtain ⟨k, ki⟩ := p
    exact Or.inr ⟨k, ⟨ki, g.2.2.1, g.2.2.2, g.2.1⟩, g.1⟩

/-- the response names exactly the catalog it recorded: no second catalog can be involved -/
theorem C32_response_is_function_of_one_catalog (f : C → Option K → Req → Resp) (c0 : C) (k0 : K)
    (s : State C K Req Resp) (hr : Reachable f c0 k0 s)
    (h : Handler C K Req Resp) (hm : h ∈ s.hs)
    (r : Resp) (c : C) (ci : Nat) (ko : Option (K × Nat)) (ce ke : Nat)
    (hd : h.pc = .done r c ci ko ce ke) :
    r = f c (ko.map (·.1)) h.req := by
  have ho := (inv_reachable hr).hs h hm
  obtain ⟨_, _, d⟩ := ho
  rw [hd] at d
  obtain ⟨_, _, _, _, _, g⟩ := d
  cases ko with
  | none => exact g
  | some p => obtain ⟨k, ki⟩ := p; exact g.1

/-- steps none of which replaces the catalog (the timeline is unchanged by each) -/
inductive StepsNoSetCat (f : C → Option K → Req → Resp) : State C K Req Resp → State C K Req Resp → Prop where
  | refl (s) : StepsNoSetCat f s s
  | tail {s t u} : StepsNoSetCat f s t → Step f t u → u.catHist = t.catHist → StepsNoSetCat f s u

theorem reachable_of_steps {f : C → Option K → Req → Resp} {c0 : C} {k0 : K} {s t : State C K Req Resp}
    (hr : Reachable f c0 k0 s) (st : StepsNoSetCat f s t) : Reachable f c0 k0 t := by
  induction st with
  | refl => exact hr
  | tail _ st' _ ih => exact Reachable.step ih st'

/-- handlers created after `s` (index ≥ `s.hs.length`) started at `s`'s catalog version, as long
    as no catalog replacement happened since -/
theorem late_handlers_start_at_current {f : C → Option K → Req → Resp} {s t : State C K Req Resp}
    (st : StepsNoSetCat f s t) :
    t.catHist = s.catHist ∧ s.hs.length ≤ t.hs.length ∧
    ∀ i h, s.hs.length ≤ i → t.hs[i]? = some h → h.catLo = s.catVer := by
  induction st with
  | refl => exact ⟨rfl, Nat.le_refl _, fun i h hi hg => by
      have := idx_lt hg; omega⟩
  | @tail t u _ st' heq ih =>
    obtain ⟨ih1, ih2, ih3⟩ := ih
    refine ⟨heq.trans ih1, ?_, ?_⟩
    · cases st' <;> simp <;> omega
    · intro i h hi hg
      have setcase : ∀ (j : Nat) (h0 hn : Handler C K Req Resp), t.hs[j]? = some h0 →
          (t.hs.set j hn)[i]? = some h → hn.catLo = h0.catLo → h.catLo = s.catVer := by
        intro j h0 hn hj hg' hc
        rw [List.getElem?_set] at hg'
        by_cases e : j = i
        · subst e
          have hl := idx_lt hj
          simp [hl] at hg'
          subst hg'
          rw [hc]; exact ih3 j h0 hi hj
        · simp [e] at hg'
          exact ih3 i h hi hg'
      cases st' with
      | spawn req =>
        simp only at hg
        by_cases hl : i < t.hs.length
        · rw [List.getElem?_append_left hl] at hg; exact ih3 i h hi hg
        · rw [List.getElem?_append_right (by omega)] at hg
          have : i - t.hs.length = 0 := by
            have := idx_lt hg; simp at this; omega
          rw [this] at hg; simp at hg; subst hg
          show t.catVer = s.catVer
          unfold State.catVer; rw [ih1]
      | readCat j h0 hj hp => exact setcase j h0 _ hj hg rfl
      | readKeys j h0 c ci hj hp => exact setcase j h0 _ hj hg rfl
      | respondNoKeys j h0 c ci hj hp => exact setcase j h0 _ hj hg rfl
      | respondKeys j h0 c ci k ki hj hp => exact setcase j h0 _ hj hg rfl
      | setCat g => simp at heq
      | setKeys k => exact ih3 i h hi hg

/-- **Requests handled after a replacement returned use the new catalog.**  Take any reachable
    state, let `set_catalog g` complete, then let the system run arbitrarily (any interleaving of
    old and new handlers, key swaps included) without a further catalog replacement: every
    handler that *started after* the replacement and has finished computed its response from `g`. -/
theorem C32_after_swap_uses_new (f : C → Option K → Req → Resp) (c0 : C) (k0 : K)
    (s t : State C K Req Resp) (g : C) (hr : Reachable f c0 k0 s)
    (st : StepsNoSetCat f { s with cat := g, catHist := s.catHist ++ [g] } t)
    (i : Nat) (h : Handler C K Req Resp) (hi : s.hs.length ≤ i) (hg : t.hs[i]? = some h)
    (r : Resp) (c : C) (ci : Nat) (ko : Option (K × Nat)) (ce ke : Nat)
    (hd : h.pc = .done r c ci ko ce ke) :
    c = g ∧ r = f g (ko.map (·.1)) h.req := by
  have hr1 : Reachable f c0 k0 { s with cat := g, catHist := s.catHist ++ [g] } :=
    Reachable.step hr (Step.setCat s g)
  have hrt := reachable_of_steps hr1 st
  obtain ⟨e1, _, e3⟩ := late_handlers_start_at_current st
  have hlo := e3 i h hi hg
  have ho := (inv_reachable hrt).hs h (List.mem_of_getElem? hg)
  obtain ⟨_, _, d⟩ := ho
  rw [hd] at d
  obtain ⟨a, b, c1, d1, _, _⟩ := d
  have hci : ci = s.catHist.length := by
    rw [e1] at d1; simp [State.catVer] at hlo d1; omega
  have hc : c = g := by
    rw [e1, hci] at a; simp at a; exact a.symm
  refine ⟨hc, ?_⟩
  have := C32_response_is_function_of_one_catalog f c0 k0 t hrt h (List.mem_of_getElem? hg) r c ci ko ce ke hd
  rw [hc] at this; exact this

/-- non-vacuity of `C32_after_swap_uses_new` and `C32_single_snapshot`: an interleaving in which an
    old handler (index 0) straddles a replacement and answers from the old catalog while a handler
    started after the replacement (index 1) answers from the new one. -/
example :
    ∃ t : State Nat Nat Unit (Nat × Option Nat),
      Reachable (fun c k _ => (c, k)) 7 0 t ∧
      (∃ h0, t.hs[0]? = some h0 ∧ h0.pc = .done (7, none) 7 0 none 1 0) ∧
      (∃ h1, t.hs[1]? = some h1 ∧ h1.pc = .done (8, some 0) 8 1 (some (0, 0)) 1 0) := by
  let f : Nat → Option Nat → Unit → Nat × Option Nat := fun c k _ => (c, k)
  have r0 : Reachable f 7 0 (init 7 0) := Reachable.init
  have r1 := Reachable.step r0 (Step.spawn _ ())
  have r2 := Reachable.step r1 (Step.readCat _ 0 _ rfl rfl)
  have r3 := Reachable.step r2 (Step.setCat _ 8)
  have r4 := Reachable.step r3 (Step.spawn _ ())
  have r5 := Reachable.step r4 (Step.readCat _ 1 _ rfl rfl)
  have r6 := Reachable.step r5 (Step.readKeys _ 1 _ 8 1 rfl rfl)
  have r7 := Reachable.step r6 (Step.respondKeys _ 1 _ 8 1 0 0 rfl rfl)
  have r8 := Reachable.step r7 (Step.respondNoKeys _ 0 _ 7 0 rfl rfl)
  exact ⟨_, r8, ⟨_, rfl, rfl⟩, ⟨_, rfl, rfl⟩⟩

/-- **Why "one read per message" is needed.**  A handler that consulted `self.catalog()` twice
    could answer from two different catalogs: the mixed response `(0, 1)` is reachable. -/
theorem C32_two_reads_can_mix :
    ∃ t : TwoReads.State2 Nat Unit (Nat × Nat),
      TwoReads.Reachable2 (fun c1 c2 _ => (c1, c2)) 0 t ∧ t.hs[0]? = some ((), .done (0, 1)) := by
  let f2 : Nat → Nat → Unit → Nat × Nat := fun c1 c2 _ => (c1, c2)
  have r0 : TwoReads.Reachable2 f2 0 _ := TwoReads.Reachable2.init
  have r1 := TwoReads.Reachable2.step r0 (TwoReads.Step2.spawn _ ())
  have r2 := TwoReads.Reachable2.step r1 (TwoReads.Step2.read1 _ 0 () rfl)
  have r3 := TwoReads.Reachable2.step r2 (TwoReads.Step2.setCat _ 1)
  have r4 := TwoReads.Reachable2.step r3 (TwoReads.Step2.read2 _ 0 () 0 rfl)
  have r5 := TwoReads.Reachable2.step r4 (TwoReads.Step2.respond _ 0 () 0 1 rfl)
  exact ⟨_, r5, rfl⟩

/-- **Structural premise, checked on the source on every run** (tools/extract_snapshot.py):
    the message-handling code calls `self.catalog()` exactly once and `self.tsig_keys()` exactly
    once (the latter only for the final additional record, so at most once per message), neither
    cell is read anywhere else in src/server, `Context` stores a reference to the snapshot, and
    the four accessors are single locked reads / writes.  A second read makes this fail to build. -/
theorem C32_structural_premise :
    Gen.snapshotCatalogReads = 1 ∧ Gen.snapshotKeyReads = 1 ∧
    Gen.snapshotCatalogReadsElsewhere = 0 ∧ Gen.snapshotKeyReadsElsewhere = 0 ∧
    Gen.snapshotKeyReadOnlyForLastRecord = true ∧ Gen.snapshotContextHoldsRef = true ∧
    Gen.snapshotAccessorsAtomic = true := by decide

/-- **The driver's admissibility test is sound.**  In the generation-marker instance (version
    `i` of either cell holds generation `i`), the response of every finished handler passes
    `admits` for every window that contains the handler's own window; so an observation that
    `admits` rejects cannot be produced by the model under any interleaving. -/
theorem C32_window_admits (c0 k0 : Nat) (s : State Nat Nat GenReq Obs) (hr : Reachable genResp c0 k0 s)
    (hcat : ∀ (i c : Nat), s.catHist[i]? = some c → c = i) (hkey : ∀ (i k : Nat), s.keyHist[i]? = some k → k = i)
    (h : Handler Nat Nat GenReq Obs) (hm : h ∈ s.hs)
    (r : Obs) (c : Nat) (ci : Nat) (ko : Option (Nat × Nat)) (ce ke : Nat)
    (hd : h.pc = .done r c ci ko ce ke)
    (lo hi klo khi : Nat) (h1 : lo ≤ h.catLo) (h2 : ce ≤ hi) (h3 : klo ≤ h.keyLo) (h4 : ke ≤ khi) :
    admits lo hi klo khi h.req r = true := by
  obtain ⟨c', ⟨i, hi1, hi2, hi3⟩, hresp⟩ := C32_single_snapshot genResp c0 k0 s hr h hm r c ci ko ce ke hd
  have hc' := hcat i c' hi3
  unfold admits
  rw [List.any_eq_true]
  refine ⟨i - lo, by simp; omega, ?_⟩
  have e : lo + (i - lo) = c' := by omega
  simp only [e]
  rcases hresp with hresp | ⟨k, ⟨j, hj1, hj2, hj3⟩, hresp⟩
  · simp [hresp]
  · have hk' := hkey j k hj3
    rw [Bool.or_eq_true]; right
    rw [List.any_eq_true]
    refine ⟨j - klo, by simp; omega, ?_⟩
    have e2 : klo + (j - klo) = k := by omega
    simp [e2, hresp]

/-- non-vacuity of `C32_window_admits`'s timeline hypotheses: swappers that install generation `i`
    as the `i`-th replacement produce such timelines; and the test does reject a mixed response. -/
example : admits 3 4 0 0 ⟨2, none⟩ ⟨[3, 4], none⟩ = false ∧ admits 3 4 0 0 ⟨2, none⟩ ⟨[4, 4], none⟩ = true ∧
    admits 3 4 1 2 ⟨1, some 2⟩ ⟨[3], some true⟩ = true ∧ admits 3 4 2 2 ⟨1, some 2⟩ ⟨[3], some false⟩ = false := by
  decide

/-- the sequential schedule (each handler runs to completion) is one of the interleavings, and in
    it every request is answered from the values installed by the latest replacements -/
theorem C32_runSeq_latest (f : C → Option K → Req → Resp) (w : Req → Bool) (c : C) (k : K) (g : C) (req : Req)
    (ops : List ((C ⊕ K) ⊕ Req)) :
    runSeq f w c k (.inl (.inl g) :: .inr req :: ops) = f g (if w req then some k else none) req :: runSeq f w g k ops := by
  simp [runSeq]

end QV.C32
