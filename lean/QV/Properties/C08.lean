/-
  C08 — Malformed requests are answered with FORMERR.

  "A request is answered with FORMERR and no answer or authority data when its question cannot be
   parsed, a counted record cannot be delimited, an OPT or TSIG record appears outside the additional
   section, there is more than one OPT, a TSIG record is not last or has the wrong class or TTL, a
   QUERY has no question, or octets remain after the last counted record. The server reports the
   first problem in message order, so only an EDNS version error or TSIG error detected earlier in
   the message may be reported instead, and FORMERR is never replaced by any other RCODE."

  Model: `QV.Server.handleMessage` (src/server/mod.rs `handle_message_with_context`, src/server/query.rs
  `handle_query`).  Spec: `specScanWith` — the scan in message order, stopping at the first problem.
  Interpretations (recorded in Spec/Server.lean): a record "can be delimited" = syntactically valid
  first chunk of the owner + ten fixed octets + RDLENGTH octets inside the message; the TSIG raw TTL
  must be 0.

  Proved, for every configuration, transport, buffer and request:
  * `C08_formerr_response` — whenever the spec's scan stops at a format problem (verdict `formErr`),
    the server responds with RCODE FORMERR (extended RCODE bits 0), ANCOUNT = NSCOUNT = 0 and no
    additional record but the OPT if one had been reached: the exact octets of `specErrorResponse`.
    Since the scan is "first problem in message order" by construction, this is also "FORMERR is never
    replaced by another RCODE" and "only an earlier BADVERS/TSIG stop may be reported instead".
  * `C08_cause_*` — each cause listed in the property makes the spec's scan stop with `formErr`
    (unless an earlier record already stopped it): unparseable question, undelimitable record,
    OPT/TSIG in the answer/authority sections, second OPT, TSIG not last, TSIG with wrong class or
    non-zero TTL, QUERY without question, trailing octets.
  After a TSIG record that *verifies* the server goes on to the end-of-message check and the dispatch
  (the spec's verdict is `tsigReached`, C10's domain):
  * `C08_after_verified_tsig` — if octets remain after the TSIG record, or a QUERY has no question,
    the response is `finish` of the writer the TSIG step left with RCODE FORMERR set and nothing
    else changed (`C08_tsig_trailing`, `C08_tsig_no_question`: the two causes);
  * `C08_signed_response` — and on the octets: the response exists, has RCODE FORMERR, ANCOUNT =
    NSCOUNT = 0, and after the question only the OPT record (iff reached) and the TSIG record, last
    (`Proofs/FinishTsig`, `Proofs/ServerSigned`).
  `theorem C08 : C08_full` — both halves.  As in C07, the TSIG record's owner is given as the key name
  literally or as a literal prefix plus pointer (`NameShape`); decoding a compressed owner is C12/C13.
-/
import QV.Proofs.ServerProps
import QV.Proofs.ScanTsigCont
import QV.Proofs.ServerSigned

namespace QV.C08
open QV QV.Spec.Server QV.ServerScan

/-- C08 at full strength: the first problem in message order is a format error ⇒ FORMERR, no data —
    for unsigned requests, and for TSIG-signed requests that the TSIG step authenticates (the problem
    then lies after the TSIG record: trailing octets, or a QUERY without question) -/
def C08_full : Prop :=
  ∀ (cfg : Server.Cfg) (tr : Server.Transport) (now bufLen : Nat) (req : Bytes),
    minBuf tr cfg.payload ≤ bufLen → 512 ≤ cfg.payload → req.size ≤ Rdata.USIZE_MAX →
    (specScanWith (catKind cfg) cfg.payload req).respond = true →
    ((specScanWith (catKind cfg) cfg.payload req).verdict = .formErr →
      ∃ b, Server.handleMessage cfg tr now bufLen req = .ok (some b) ∧ hdr b 2 % 16 = 1 ∧
        hdr b 6 = 0 ∧ hdr b 8 = 0) ∧
    -- signed requests (well-formed configuration, clock below 2^48 s: C01's hypotheses)
    (ServerSafety.CfgWF cfg → now < 2^48 →
      (specScanWith (catKind cfg) cfg.payload req).verdict = .tsigReached →
      ∃ (t : Tsig.ReadTsigRr) (mw : Bytes) (r' : Reader.Reader), r'.octets = req ∧ r'.cursor ≤ req.size ∧
        ∀ r'' S, Server.tsigAfter cfg now t mw r' (preTsigState cfg tr bufLen req) = (.ok (some r''), S) →
          endVerdict (catKind cfg) req.size (specScanWith (catKind cfg) cfg.payload req).question
            r'.cursor ((req.getD 2 0).toNat / 8 % 16) = .formErr →
          ∃ b, Server.handleMessage cfg tr now bufLen req = .ok (some b) ∧
            SignedNoData cfg.payload (specScanWith (catKind cfg) cfg.payload req) 1 b)

/-- **Theorem.** If the first problem in message order is a format error, the response is FORMERR:
    RCODE 1 with the extended bits clear, no answer, no authority, nothing after the question but
    the OPT record when one had been reached before the problem — exactly `specErrorResponse`. -/
theorem C08_formerr_response (cfg : Server.Cfg) (tr : Server.Transport) (now bufLen : Nat) (req : Bytes)
    (hbuf : minBuf tr cfg.payload ≤ bufLen) (hpay : 512 ≤ cfg.payload) (hreq : req.size ≤ Rdata.USIZE_MAX)
    (hr : (specScanWith (catKind cfg) cfg.payload req).respond = true)
    (hv : (specScanWith (catKind cfg) cfg.payload req).verdict = .formErr) :
    ∃ b, Server.handleMessage cfg tr now bufLen req = .ok (some b) ∧
      b.toList = specErrorResponse req cfg.payload (specScanWith (catKind cfg) cfg.payload req) ∧
      hdr b 2 % 16 = 1 ∧ hdr b 6 = 0 ∧ hdr b 8 = 0 ∧
      hdr b 10 = (if (specScanWith (catKind cfg) cfg.payload req).edns then 1 else 0) ∧
      b.toList.drop 12 = specQuestionOctets (specScanWith (catKind cfg) cfg.payload req).question ++
        specOptOctets cfg.payload (specScanWith (catKind cfg) cfg.payload req) := by
  obtain ⟨b, hb, hl⟩ := server_error_response cfg tr now bufLen req hbuf hpay hreq hr (by rw [hv]; rfl)
  obtain ⟨_, _, h2, h3, _, han, hns, har, hrest⟩ := errResp_facts _ _ _ _ hl
  obtain ⟨_, _, _, _, _, _, _, f8⟩ := flags_facts b req _ (verdictRcode_lt _) h2 h3
  exact ⟨b, hb, hl, by rw [f8, hv]; rfl, han, hns, har, hrest⟩

/-- the OPT record of a FORMERR response carries extended-RCODE bits 0 (so the RCODE stays 1) -/
theorem C08_formerr_opt (p : Nat) (sc : Scan) (hv : sc.verdict = .formErr) (he : sc.edns = true) :
    specOptOctets p sc = [0, 0, 41] ++ u16be p ++ [0, 0, 0, 0, 0, 0] := by
  simp [specOptOctets, hv, he, verdictRcode]

/-! ### each listed cause is a format error of the scan -/

/-- the question cannot be parsed -/
theorem C08_cause_question (lookup : List UInt8 → Nat → Option ZoneKind) (S : Nat) (msg : Bytes)
    (h12 : ¬ msg.size < 12) (hqr : ¬ (msg.getD 2 0).toNat ≥ 128) (hqd : hdr msg 4 = 1)
    (hq : Spec.specQuestionAt msg 12 = none) :
    (specScanWith lookup S msg).respond = true ∧ (specScanWith lookup S msg).verdict = .formErr ∧
    (specScanWith lookup S msg).question = none := by
  rw [specScanWith_eq]
  simp only [h12, hqr, if_false]
  unfold specBody
  simp [hqd, hq]

/-- a counted answer/authority record cannot be delimited, or is an OPT or TSIG -/
theorem C08_cause_plain (msg : Bytes) (n pos : Nat)
    (h : Spec.Server.specDelimit msg pos = none ∨
      ∃ d, Spec.Server.specDelimit msg pos = some d ∧ (d.ty = 41 ∨ d.ty = 250)) :
    scanPlain msg (n + 1) pos = none := by
  unfold scanPlain
  rcases h with h | ⟨d, h, ht⟩
  · rw [h]
  · rw [h]; simp [ht]

theorem C08_cause_plain_verdict (lookup : List UInt8 → Nat → Option ZoneKind) (S : Nat) (msg : Bytes)
    (q : Option Spec.DQuestion) (p1 an ns ar op : Nat) (h : scanPlain msg (an + ns) p1 = none) :
    (specTail lookup S msg q p1 an ns ar op).verdict = .formErr ∧
    (specTail lookup S msg q p1 an ns ar op).respond = true := by
  unfold specTail; rw [h]; exact ⟨rfl, rfl⟩

/-- a counted additional record cannot be delimited -/
theorem C08_cause_undelimitable (msg : Bytes) (S n total pos : Nat) (e : Bool) (lim : Nat)
    (h : Spec.Server.specDelimit msg pos = none) :
    scanAr msg S (n + 1) total pos e lim = (.formErr, e, lim) := by
  unfold scanAr; rw [h]

/-- a second OPT -/
theorem C08_cause_second_opt (msg : Bytes) (S n total pos : Nat) (lim : Nat) (d : Delim)
    (h : Spec.Server.specDelimit msg pos = some d) (ht : d.ty = 41) :
    scanAr msg S (n + 1) total pos true lim = (.formErr, true, lim) := by
  unfold scanAr; rw [h]; simp [ht]

/-- a TSIG record that is not the last record -/
theorem C08_cause_tsig_not_last (msg : Bytes) (S n total pos : Nat) (e : Bool) (lim : Nat) (d : Delim)
    (h : Spec.Server.specDelimit msg pos = some d) (ht : d.ty = 250) (hn : n ≠ 0) :
    scanAr msg S (n + 1) total pos e lim = (.formErr, e, lim) := by
  unfold scanAr; rw [h]; simp [ht, hn]

/-- a TSIG record (in last position) with a class other than ANY or a non-zero raw TTL -/
theorem C08_cause_tsig_class_ttl (msg : Bytes) (S total pos : Nat) (e : Bool) (lim : Nat) (d : Delim)
    (h : Spec.Server.specDelimit msg pos = some d) (ht : d.ty = 250) (hc : d.cls ≠ 255 ∨ d.rawTtl ≠ 0) :
    scanAr msg S 1 total pos e lim = (.formErr, e, lim) := by
  unfold scanAr; rw [h]
  simp only [ht, show ¬ (250 : Nat) = 41 by decide, if_false, if_true, ne_eq, not_true_eq_false]
  split
  · rfl
  · split
    · rfl
    · simp [hc]

/-- a QUERY without a question, and octets after the last counted record -/
theorem C08_cause_end (lookup : List UInt8 → Nat → Option ZoneKind) (S : Nat) (msg : Bytes)
    (q : Option Spec.DQuestion) (p1 an ns ar opcode p2 p3 : Nat) (e : Bool) (l : Nat)
    (h1 : scanPlain msg (an + ns) p1 = some p2) (h2 : scanAr msg S ar ar p2 false 512 = (.done p3, e, l))
    (h : p3 < msg.size ∨ (opcode = 0 ∧ q = none)) :
    (specTail lookup S msg q p1 an ns ar opcode).verdict = .formErr := by
  unfold specTail
  simp only [h1, h2]
  rcases h with h | ⟨ho, hq⟩
  · simp [h]
  · subst ho hq
    by_cases h3 : p3 < msg.size <;> simp [h3]

/-! ### after a TSIG record that verifies -/

/-- octets after the (last) TSIG record: a format error -/
theorem C08_tsig_trailing (lookup : List UInt8 → Nat → Option ZoneKind) (size : Nat) (q : Option Spec.DQuestion)
    (pos opcode : Nat) (h : pos < size) : endVerdict lookup size q pos opcode = .formErr := by
  unfold endVerdict; rw [if_pos h]

/-- a signed QUERY without question: a format error -/
theorem C08_tsig_no_question (lookup : List UInt8 → Nat → Option ZoneKind) (size pos : Nat) (h : ¬ pos < size) :
    endVerdict lookup size none pos 0 = .formErr := by
  unfold endVerdict; rw [if_neg h]; rfl

/-- **Theorem (signed requests).** For a request whose scan reaches a well-formed TSIG record: if
    the TSIG step authenticates (leaving the writer `S`) and the end-of-message check or the missing
    question makes the verdict FORMERR, the response is `finish` of `S` with RCODE FORMERR set and
    nothing else changed — in particular no answer or authority record is added. -/
theorem C08_after_verified_tsig (cfg : Server.Cfg) (tr : Server.Transport) (now bufLen : Nat) (req : Bytes)
    (hbuf : minBuf tr cfg.payload ≤ bufLen) (hpay : 512 ≤ cfg.payload) (hreq : req.size ≤ Rdata.USIZE_MAX)
    (hr : (specScanWith (catKind cfg) cfg.payload req).respond = true)
    (hv : (specScanWith (catKind cfg) cfg.payload req).verdict = .tsigReached) :
    ∃ (t : Tsig.ReadTsigRr) (mw : Bytes) (r' : Reader.Reader), r'.octets = req ∧ r'.cursor ≤ req.size ∧
      ∀ r'' S, Server.tsigAfter cfg now t mw r' (preTsigState cfg tr bufLen req) = (.ok (some r''), S) →
        endVerdict (catKind cfg) req.size (specScanWith (catKind cfg) cfg.payload req).question
          r'.cursor ((req.getD 2 0).toNat / 8 % 16) = .formErr →
        Server.handleMessage cfg tr now bufLen req =
          match Writer.finish (Writer.stRcode 1 S) Server.macFn with
          | .ok (bytes, _) => .ok (some bytes)
          | _ => .panic := by
  obtain ⟨t, mw, r', h1, h2, h3⟩ := handleMessage_after_tsig cfg tr now bufLen req hbuf hpay hreq hr hv
  refine ⟨t, mw, r', h1, h2, fun r'' S hT hev => ?_⟩
  have := h3 r'' S hT (by rw [hev]; simp)
  rw [this, hev]
  rfl

/-- **Theorem (signed requests, on the octets).** If the TSIG step authenticates the request and
    the end-of-message check or the missing question makes the verdict FORMERR, the server responds
    with RCODE FORMERR, no answer or authority records, and after the question only the OPT record
    (iff the scan reached one) and the TSIG record, which is last. -/
theorem C08_signed_response (cfg : Server.Cfg) (hcfg : ServerSafety.CfgWF cfg) (tr : Server.Transport)
    (now bufLen : Nat) (req : Bytes)
    (hbuf : minBuf tr cfg.payload ≤ bufLen) (hpay : 512 ≤ cfg.payload) (hreq : req.size ≤ Rdata.USIZE_MAX)
    (hnow : now < 2^48)
    (hr : (specScanWith (catKind cfg) cfg.payload req).respond = true)
    (hv : (specScanWith (catKind cfg) cfg.payload req).verdict = .tsigReached) :
    ∃ (t : Tsig.ReadTsigRr) (mw : Bytes) (r' : Reader.Reader), r'.octets = req ∧ r'.cursor ≤ req.size ∧
      ∀ r'' S, Server.tsigAfter cfg now t mw r' (preTsigState cfg tr bufLen req) = (.ok (some r''), S) →
        endVerdict (catKind cfg) req.size (specScanWith (catKind cfg) cfg.payload req).question
          r'.cursor ((req.getD 2 0).toNat / 8 % 16) = .formErr →
        ∃ b, Server.handleMessage cfg tr now bufLen req = .ok (some b) ∧
          SignedNoData cfg.payload (specScanWith (catKind cfg) cfg.payload req) 1 b := by
  obtain ⟨t, mw, r', h1, h2, h3⟩ := signed_noData_full cfg hcfg tr now bufLen req hbuf hpay hreq hnow hr hv
  exact ⟨t, mw, r', h1, h2, fun r'' S hT hev => h3 r'' S hT .formErr (Or.inl rfl) hev⟩

/-- **C08 holds at full strength.** -/
theorem C08 : C08_full := by
  intro cfg tr now bufLen req hbuf hpay hreq hr
  refine ⟨fun hv => ?_, fun hcfg hnow hv => C08_signed_response cfg hcfg tr now bufLen req hbuf hpay hreq hnow hr hv⟩
  obtain ⟨b, hb, _, h1, h2, h3, _⟩ := C08_formerr_response cfg tr now bufLen req hbuf hpay hreq hr hv
  exact ⟨b, hb, h1, h2, h3⟩

/-! ### non-vacuity: each cause on a concrete request -/

def exCfg : Server.Cfg := { payload := 1232, zones := [] }
/-- `. IN NS` followed by one junk octet -/
def exTrailing : Bytes := #[0x12, 0x34, 0x01, 0x00, 0, 1, 0, 0, 0, 0, 0, 0, 0, 0, 2, 0, 1, 0xff]
/-- QUERY with QDCOUNT = 0 -/
def exNoQuestion : Bytes := #[0, 1, 0, 0, 0, 0, 0, 0, 0, 0, 0, 0]
/-- QDCOUNT = 1 and a question cut short -/
def exCutQuestion : Bytes := #[0, 1, 0, 0, 0, 1, 0, 0, 0, 0, 0, 0, 3, 97]
/-- `. IN NS` with ANCOUNT = 1 and an OPT record in the answer section -/
def exOptInAnswer : Bytes :=
  #[0, 1, 0, 0, 0, 1, 0, 1, 0, 0, 0, 0, 0, 0, 2, 0, 1, 0, 0, 41, 4, 208, 0, 0, 0, 0, 0, 0]
/-- `. IN NS` with two OPT records in the additional section -/
def exTwoOpt : Bytes :=
  #[0, 1, 0, 0, 0, 1, 0, 0, 0, 0, 0, 2, 0, 0, 2, 0, 1, 0, 0, 41, 4, 208, 0, 0, 0, 0, 0, 0,
    0, 0, 41, 4, 208, 0, 0, 0, 0, 0, 0]
/-- `. IN NS` with ARCOUNT = 1 and nothing after the question -/
def exMissingRecord : Bytes := #[0, 1, 0, 0, 0, 1, 0, 0, 0, 0, 0, 1, 0, 0, 2, 0, 1]

example : (specScanWith (catKind exCfg) 1232 exTrailing).verdict = .formErr := by decide +kernel
example : (specScanWith (catKind exCfg) 1232 exNoQuestion).verdict = .formErr := by decide +kernel
example : (specScanWith (catKind exCfg) 1232 exCutQuestion).verdict = .formErr := by decide +kernel
example : (specScanWith (catKind exCfg) 1232 exOptInAnswer).verdict = .formErr := by decide +kernel
example : (specScanWith (catKind exCfg) 1232 exMissingRecord).verdict = .formErr := by decide +kernel
/-- the second OPT is a FORMERR *and* the response is an EDNS response (the first OPT was reached) -/
example : (specScanWith (catKind exCfg) 1232 exTwoOpt).verdict = .formErr ∧
    (specScanWith (catKind exCfg) 1232 exTwoOpt).edns = true := by decide +kernel

/-- the regression witness of the repaired defect D05: a valid query plus one junk octet is
    answered FORMERR — not NXDOMAIN/REFUSED — with no data -/
example : ∃ b, Server.handleMessage exCfg .udp 0 65535 exTrailing = .ok (some b) ∧
    b.toList = [0x12, 0x34, 0x81, 0x01, 0, 1, 0, 0, 0, 0, 0, 0, 0, 0, 2, 0, 1] := by
  obtain ⟨b, hb, hl, _⟩ := C08_formerr_response exCfg .udp 0 65535 exTrailing (by decide) (by decide) (by decide)
    (by decide +kernel) (by decide +kernel)
  exact ⟨b, hb, by rw [hl]; decide +kernel⟩

/-- `. IN NS` signed with a (syntactically well-formed) TSIG record, key `k.`, hmac-sha256, as the
    last record: the scan reaches TSIG processing — the hypothesis of `C08_after_verified_tsig` -/
def exSigned : Bytes :=
  #[0, 1, 0, 0, 0, 1, 0, 0, 0, 0, 0, 1, 0, 0, 2, 0, 1,
    1, 107, 0, 0, 250, 0, 255, 0, 0, 0, 0, 0, 61,
    11, 104, 109, 97, 99, 45, 115, 104, 97, 50, 53, 54, 0,
    0, 0, 0, 0, 0, 0, 1, 44, 0, 32,
    0, 0, 0, 0, 0, 0, 0, 0, 0, 0, 0, 0, 0, 0, 0, 0, 0, 0, 0, 0, 0, 0, 0, 0, 0, 0, 0, 0, 0, 0, 0, 0,
    0, 1, 0, 0, 0, 0]
example : (specScanWith (catKind exCfg) 1232 exSigned).verdict = .tsigReached ∧
    (specScanWith (catKind exCfg) 1232 exSigned).respond = true := by decide +kernel

end QV.C08
