/-
  C17 — Type, class, opcode and RCODE codes round-trip through text.

  "For every 16-bit value, rendering a TYPE, CLASS, QTYPE or QCLASS as text and parsing it back
   yields the same value, mnemonics parse case-insensitively, and the RFC 3597 TYPEnnn/CLASSnnn
   forms parse for every value. Opcode and RCODE conversions accept exactly the 4-bit values, and
   extended RCODEs convert to RCODEs exactly when below 16."

  Model: `QV.Model.Codes` (mirrors src/rr/rr_type.rs, src/class.rs, src/message/question.rs,
  src/message/opcode.rs, src/message/rcode.rs, src/util.rs) over the *generated* tables
  `QV.Gen.*` (re-extracted from the Rust source on every run).
  Spec: `QV.Spec.Codes` (`Presents`: RFC 3597 §5 + the IANA mnemonics written out literally).

  RESULT.  Everything in the property holds for all values EXCEPT "mnemonics parse
  case-insensitively": `match Caseless(text) { Caseless("IN") => … }` matches the literal
  octet-for-octet (a struct pattern never calls `PartialEq`), so `"in"`, `"a"`, `"any"` are
  rejected as unknown.  `C17_full` is therefore false (`C17_counterexample`); what is proved is
  `C17_partial` = `C17_full` outside the known-finding predicate `KF_caseVariant`, together with
  the exact behaviour on that predicate (`C17_mnemonic_variant_rejected`).
-/
import QV.Proofs.Codes

namespace QV.C17
open QV QV.Codes QV.Spec.Codes

/-! ### the four `FromStr` / `Display` impls, by kind -/

def parse : Kind → Text → Out ParseErr Nat
  | .type => typeFromStr
  | .class => classFromStr
  | .qtype => qtypeFromStr
  | .qclass => qclassFromStr

def display : Kind → Nat → Text
  | .type => typeDisplay
  | .class => classDisplay
  | .qtype => qtypeDisplay
  | .qclass => qclassDisplay

/-- all mnemonic arms a `FromStr` impl goes through, in order -/
def tableOf : Kind → List (Text × Nat)
  | .type => typeTable
  | .class => classTable
  | .qtype => qtypeTable ++ typeTable
  | .qclass => qclassTable ++ classTable

def wordOf : Kind → Text
  | .type | .qtype => typeWord
  | .class | .qclass => classWord

def endOf : Kind → Nat
  | .type | .qtype => Gen.typeParseGetEnd
  | .class | .qclass => Gen.classParseGetEnd

def dtableOf : Kind → List (Nat × String)
  | .type => Gen.typeDisplay
  | .class => Gen.classDisplay
  | .qtype => Gen.qtypeDisplay ++ Gen.typeDisplay
  | .qclass => Gen.qclassDisplay ++ Gen.classDisplay

def prefixOf : Kind → String
  | .type | .qtype => Gen.typeDisplayPrefix
  | .class | .qclass => Gen.classDisplayPrefix

/-! ### facts about the generated tables (finite; re-checked whenever the Rust source changes) -/

instance (tbl word) : Decidable (NoWord tbl word) := by unfold NoWord; infer_instance
instance (tbl) : Decidable (Distinct tbl) := by unfold Distinct; infer_instance
instance (d t) : Decidable (RowsParse d t) := by unfold RowsParse; infer_instance

/-- shape of the source the model relies on: the slice `text[n..]` starts where `text.get(0..n)`
    ended, `n` is the length of the word, `Display` and `FromStr` use the same word, and the
    Qtype/Qclass impls delegate to Type/Class. -/
theorem C17_shape :
    (∀ k, (wordOf k).length = endOf k) ∧
    Gen.typeParseSliceFrom = Gen.typeParseGetEnd ∧ Gen.classParseSliceFrom = Gen.classParseGetEnd ∧
    (∀ k, (bytesOf (prefixOf k)).map lowerU8 = (wordOf k).map lowerU8) ∧
    Gen.qtypeParseDelegate = "Type" ∧ Gen.qtypeDisplayDelegate = "Type" ∧
    Gen.qclassParseDelegate = "Class" ∧ Gen.qclassDisplayDelegate = "Class" := by
  refine ⟨?_, by decide +kernel, by decide +kernel, ?_, by decide +kernel, by decide +kernel,
    by decide +kernel, by decide +kernel⟩
  · intro k; cases k <;> decide +kernel
  · intro k; cases k <;> decide +kernel

/-- no mnemonic of any table begins with "TYPE"/"CLASS" (in any case) -/
theorem C17_tables_no_word (k : Kind) : NoWord (tableOf k) (wordOf k) := by cases k <;> decide +kernel

/-- no two arms of a table carry mnemonics that are equal up to case -/
theorem C17_tables_distinct (k : Kind) : Distinct (tableOf k) := by cases k <;> decide +kernel

/-- every text written by a `Display` arm is a mnemonic arm of `FromStr` with the same value -/
theorem C17_display_rows_parse (k : Kind) : RowsParse (dtableOf k) (tableOf k) := by cases k <;> decide +kernel

/-- **The generated tables are the IANA tables.**  Every arm of the Rust `FromStr` impls is a row
    of the literal registry tables of `QV.Spec.Codes` (same spelling, same value), and every
    registry row is an arm.  A misspelt, dropped, duplicated or renumbered mnemonic in the Rust
    source fails this theorem. -/
theorem C17_tables_are_iana (k : Kind) :
    (∀ r ∈ mnemonics k, (ascii r.1, r.2) ∈ tableOf k) ∧
    (∀ r ∈ tableOf k, r ∈ (mnemonics k).map (fun r => (ascii r.1, r.2))) := by
  cases k <;> decide +kernel

/-- … and so are the `Display` tables: every arm prints a registry mnemonic of its value. -/
theorem C17_display_tables_are_iana (k : Kind) :
    ∀ d ∈ dtableOf k, (bytesOf d.2, d.1) ∈ (mnemonics k).map (fun r => (ascii r.1, r.2)) := by
  cases k <;> decide +kernel

theorem C17_parse_eq (k : Kind) (t : Text) :
    parse k t = parseWith (tableOf k) (wordOf k) (endOf k) (endOf k) t := by
  cases k
  · rfl
  · rfl
  · exact qtypeFromStr_eq t
  · exact qclassFromStr_eq t

theorem C17_display_eq (k : Kind) (v : Nat) : display k v = displayWith (dtableOf k) (prefixOf k) v := by
  cases k
  · rfl
  · rfl
  · exact qtypeDisplay_eq v
  · exact qclassDisplay_eq v

/-! ### 1. display → parse round trip, for every 16-bit value -/

/-- **Round trip.** For every kind and every 16-bit value, parsing the rendered text yields the
    value. -/
theorem C17_roundtrip (k : Kind) (v : Nat) (hv : v < 65536) : parse k (display k v) = .ok v := by
  rw [C17_parse_eq, C17_display_eq]
  exact parseWith_display _ _ _ (C17_shape.1 k) (C17_tables_no_word k) _ _ (C17_shape.2.2.2.1 k) (C17_display_rows_parse k) v hv

theorem C17_type_roundtrip (v : Nat) (hv : v < 65536) : typeFromStr (typeDisplay v) = .ok v :=
  C17_roundtrip .type v hv
theorem C17_class_roundtrip (v : Nat) (hv : v < 65536) : classFromStr (classDisplay v) = .ok v :=
  C17_roundtrip .class v hv
theorem C17_qtype_roundtrip (v : Nat) (hv : v < 65536) : qtypeFromStr (qtypeDisplay v) = .ok v :=
  C17_roundtrip .qtype v hv
theorem C17_qclass_roundtrip (v : Nat) (hv : v < 65536) : qclassFromStr (qclassDisplay v) = .ok v :=
  C17_roundtrip .qclass v hv

/-! ### 2. RFC 3597 forms -/

/-- **RFC 3597 §5.** For every kind, every case variant `p` of the word "TYPE" / "CLASS" and every
    16-bit value `v` with canonical decimal numeral `ds`, `p ++ ds` parses to `v`. -/
theorem C17_rfc3597 (k : Kind) (p ds : Text) (v : Nat) (hp : lower p = lower (ascii (word k)))
    (hd : IsDecimal ds v) (hv : v < 65536) : parse k (p ++ ds) = .ok v := by
  rw [C17_parse_eq]
  refine parseWith_generic _ _ _ (C17_shape.1 k) (C17_tables_no_word k) p ds v ?_ hd hv
  rw [lower_eq_map, lower_eq_map] at hp
  rw [hp]
  cases k <;> decide +kernel

/-- every value has a canonical numeral (the one `Display for u16` prints), so the previous
    theorem is about all 65536 values -/
theorem C17_rfc3597_all_values (k : Kind) (p : Text) (v : Nat) (hp : lower p = lower (ascii (word k)))
    (hv : v < 65536) : parse k (p ++ dec v) = .ok v :=
  C17_rfc3597 k p (dec v) v hp (dec_isDecimal v) hv

/-! ### 3. mnemonics -/

/-- Every registry mnemonic, spelt as in the registry (upper case), parses to its value. -/
theorem C17_mnemonic_exact (k : Kind) (m : String) (v : Nat) (h : (m, v) ∈ mnemonics k) :
    parse k (ascii m) = .ok v := by
  rw [C17_parse_eq]
  exact parseWith_exact _ _ _ _ (C17_tables_distinct k) _ _ ((C17_tables_are_iana k).1 (m, v) h)

/-- **The defect, exactly.** Any *other* case variant of a registry mnemonic is rejected as
    unknown (for every kind, every mnemonic, every variant). -/
theorem C17_mnemonic_variant_rejected (k : Kind) (m : String) (v : Nat) (h : (m, v) ∈ mnemonics k)
    (s : Text) (hs : lower s = lower (ascii m)) (hne : s ≠ ascii m) :
    parse k s = .err .Unknown := by
  rw [C17_parse_eq]
  rw [lower_eq_map, lower_eq_map] at hs
  exact parseWith_variant _ _ _ _ (C17_shape.1 k) (C17_tables_no_word k) (C17_tables_distinct k) _ _
    ((C17_tables_are_iana k).1 (m, v) h) s hs hne

/-! ### 4. Opcode / RCODE conversions -/

/-- `Opcode::try_from(x: u8)` succeeds exactly on the 4-bit values, and keeps the value. -/
theorem C17_opcode_iff (x : Nat) : opcodeTryFrom x = some x ↔ fitsFourBits x := by
  unfold opcodeTryFrom fitsFourBits
  have : Gen.opcodeTryFromBound = 16 := by decide
  rw [this]; split <;> simp_all

theorem C17_opcode_none_iff (x : Nat) : opcodeTryFrom x = none ↔ ¬ fitsFourBits x := by
  unfold opcodeTryFrom fitsFourBits
  have : Gen.opcodeTryFromBound = 16 := by decide
  rw [this]; split <;> simp_all

/-- `Rcode::try_from(x: u8)` succeeds exactly on the 4-bit values, and keeps the value. -/
theorem C17_rcode_iff (x : Nat) : rcodeTryFrom x = some x ↔ fitsFourBits x := by
  unfold rcodeTryFrom fitsFourBits
  have : Gen.rcodeTryFromBound = 16 := by decide
  rw [this]; split <;> simp_all

theorem C17_rcode_none_iff (x : Nat) : rcodeTryFrom x = none ↔ ¬ fitsFourBits x := by
  unfold rcodeTryFrom fitsFourBits
  have : Gen.rcodeTryFromBound = 16 := by decide
  rw [this]; split <;> simp_all

/-- `Rcode::try_from(ExtendedRcode(e))` succeeds exactly when `e < 16`, and keeps the value
    (the `as u8` cast loses nothing). -/
theorem C17_rcode_from_ext_iff (e : Nat) : rcodeFromExt e = some e ↔ e < 16 := by
  unfold rcodeFromExt
  have : Gen.rcodeFromExtBound = 16 := by decide
  rw [this]; split
  · simp; omega
  · simp; omega

theorem C17_rcode_from_ext_none_iff (e : Nat) : rcodeFromExt e = none ↔ ¬ e < 16 := by
  unfold rcodeFromExt
  have : Gen.rcodeFromExtBound = 16 := by decide
  rw [this]; split <;> simp_all

/-! ### 5. the parsers never panic -/

/-- `text[n..]` after a successful `text.get(0..n)` is always on a char boundary. -/
theorem C17_no_panic (k : Kind) (t : Text) : parse k t ≠ .panic := by
  rw [C17_parse_eq]; exact parseWith_no_panic _ _ _ t

/-! ### 6. the property as a whole -/

/-- The property at full strength: every presentation (RFC 3597 §5 + registry mnemonics in any
    case) of a 16-bit code parses to that code; display/parse round trip; 4-bit conversions. -/
def C17_full : Prop :=
  (∀ k t v, Presents k t v → parse k t = .ok v) ∧
  (∀ k v, v < 65536 → parse k (display k v) = .ok v) ∧
  (∀ x, opcodeTryFrom x = some x ↔ fitsFourBits x) ∧
  (∀ x, rcodeTryFrom x = some x ↔ fitsFourBits x) ∧
  (∀ e, rcodeFromExt e = some e ↔ e < 16)

/-- known finding `D14-mnemonics-case-sensitive`: the text is a case variant of a registry
    mnemonic other than the registry's own (upper-case) spelling -/
def KF_caseVariant (k : Kind) (t : Text) : Prop :=
  ∃ m v, (m, v) ∈ mnemonics k ∧ lower t = lower (ascii m) ∧ t ≠ ascii m

/-- `"a"` presents TYPE 1 but is rejected. -/
theorem C17_witness : Presents .type [97] 1 ∧ parse .type [97] = .err .Unknown :=
  ⟨.mnemonic (m := "A") (by decide +kernel) (by decide +kernel),
   C17_mnemonic_variant_rejected .type "A" 1 (by decide +kernel) [97] (by decide +kernel) (by decide +kernel)⟩

/-- **The unchanged code violates the property** (mnemonics are matched case-sensitively). -/
theorem C17_counterexample : ¬ C17_full := by
  intro h
  have := h.1 .type [97] 1 C17_witness.1
  rw [C17_witness.2] at this
  cases this

/-- **What holds**: the full property outside the known finding. -/
theorem C17_partial :
    (∀ k t v, Presents k t v → ¬ KF_caseVariant k t → parse k t = .ok v) ∧
    (∀ k v, v < 65536 → parse k (display k v) = .ok v) ∧
    (∀ x, opcodeTryFrom x = some x ↔ fitsFourBits x) ∧
    (∀ x, rcodeTryFrom x = some x ↔ fitsFourBits x) ∧
    (∀ e, rcodeFromExt e = some e ↔ e < 16) := by
  refine ⟨?_, C17_roundtrip, C17_opcode_iff, C17_rcode_iff, C17_rcode_from_ext_iff⟩
  intro k t v hp hkf
  cases hp with
  | mnemonic hm ht =>
    rename_i m
    by_cases e : t = ascii m
    · subst e; exact C17_mnemonic_exact k m v hm
    · exact absurd ⟨m, v, hm, ht, e⟩ hkf
  | generic hp hd hv => exact C17_rfc3597 k _ _ v hp hd hv

/-- and on the known finding the parser always answers "unknown" -/
theorem C17_known_finding_exact (k : Kind) (t : Text) (h : KF_caseVariant k t) :
    parse k t = .err .Unknown := by
  obtain ⟨m, v, hm, ht, hne⟩ := h
  exact C17_mnemonic_variant_rejected k m v hm t ht hne

/-! ### 7. the spec is unambiguous: a text presents at most one value -/

theorem C17_presents_unique (k : Kind) (t : Text) (v v' : Nat) (h : Presents k t v)
    (h' : Presents k t v') : v = v' := by
  have tie := (C17_tables_are_iana k).1
  have wlen : (wordOf k).map lowerU8 = (ascii (word k)).map lowerU8 := by cases k <;> decide +kernel
  -- a mnemonic is never of the generic form
  have clash : ∀ {m : String} {x : Nat} {p ds : Text}, (m, x) ∈ mnemonics k →
      lower (p ++ ds) = lower (ascii m) → lower p = lower (ascii (word k)) → False := by
    intro m x p ds hm ht hp
    rw [lower_eq_map, lower_eq_map] at ht hp
    apply C17_tables_no_word k _ (tie (m, x) hm)
    have hl : p.length = (wordOf k).length := by
      rw [map_lower_length hp, ← map_lower_length wlen]
    simp only
    rw [List.map_take, ← ht, ← List.map_take, ← hl, wlen, ← hp]
    simp
  have inv : ∀ {x : Nat}, Presents k t x →
      (∃ m, (m, x) ∈ mnemonics k ∧ lower t = lower (ascii m)) ∨
      (∃ p ds, t = p ++ ds ∧ lower p = lower (ascii (word k)) ∧ IsDecimal ds x) := by
    intro x hx
    cases hx with
    | mnemonic hm ht => exact .inl ⟨_, hm, ht⟩
    | generic hp hd hv => exact .inr ⟨_, _, rfl, hp, hd⟩
  rcases inv h with ⟨m, hm, ht⟩ | ⟨p, ds, rfl, hp, hd⟩
  · rcases inv h' with ⟨m', hm', ht'⟩ | ⟨p', ds', e, hp', hd'⟩
    · have := C17_tables_distinct k _ (tie _ hm) _ (tie _ hm') (by
        rw [lower_eq_map, lower_eq_map] at ht ht'; simp only; rw [← ht, ← ht'])
      simp at this; exact this.2
    · subst e; exact (clash hm ht hp').elim
  · rcases inv h' with ⟨m', hm', ht'⟩ | ⟨p', ds', e, hp', hd'⟩
    · exact (clash hm' ht' hp).elim
    · rw [lower_eq_map, lower_eq_map] at hp hp'
      have hl := (map_lower_length hp).trans (map_lower_length hp').symm
      have := List.append_inj e hl
      rw [this.2] at hd
      exact isDecimal_unique hd hd'

/-! ### non-vacuity -/

example : typeDisplay 65280 = bytesOf "TYPE65280" := by decide +kernel
example : qtypeDisplay 255 = bytesOf "*" := by decide +kernel
example : typeFromStr (bytesOf "TYPE65280") = .ok 65280 := by decide +kernel
example : classFromStr (bytesOf "cLaSs+007") = .ok 7 := by decide +kernel
example : typeFromStr (bytesOf "TYPE65536") = .err .BadValue := by decide +kernel
example : typeFromStr (bytesOf "TYP€") = .err .Unknown := by decide +kernel
example : Presents .qtype (bytesOf "tYpE252") 252 :=
  .generic (p := bytesOf "tYpE") (by decide +kernel)
    (.snoc 2 (by omega) (by omega) (.snoc 5 (by omega) (by omega) (.digit 2 (by omega)))) (by omega)
example : Presents .qtype (bytesOf "axfr") 252 := .mnemonic (m := "AXFR") (by decide +kernel) (by decide +kernel)
example : ¬ KF_caseVariant .type (bytesOf "NS") := by
  intro ⟨m, v, hm, hl, hne⟩
  have := (C17_tables_are_iana .type).1 (m, v) hm
  have e := C17_tables_distinct .type (bytesOf "NS", 2) (by decide +kernel) _ this (by
    rw [lower_eq_map, lower_eq_map] at hl; exact hl)
  simp at e; exact hne e.1
example : KF_caseVariant .class [105, 110] := ⟨"IN", 1, by decide +kernel, by decide +kernel, by decide +kernel⟩

end QV.C17
