/-
  C17 — Type, class, opcode and RCODE codes round-trip through text.

  "For every 16-bit value, rendering a TYPE, CLASS, QTYPE or QCLASS as text and parsing it back
   yields the same value, mnemonics parse case-insensitively, and the RFC 3597 TYPEnnn/CLASSnnn
   forms parse for every value. Opcode and RCODE conversions accept exactly the 4-bit values, and
   extended RCODEs convert to RCODEs exactly when below 16."

  Model: `QV.Model.Codes` (mirrors src/rr/rr_type.rs, src/class.rs, src/message/question.rs,
  src/message/opcode.rs, src/message/rcode.rs, src/util.rs) over the *generated* tables
  `QV.Gen.*` (re-extracted from the Rust source on every run).
  Spec: `QV.Spec.Codes` (`Presents`: RFC 3597 §5 + the IANA mnemonics written out literally).

  RESULT.  The property holds for all values (`C17_full`).  History: before commit 41208a0 the
  mnemonic arms `match Caseless(text) { Caseless("IN") => … }` compared the text exactly (a struct
  pattern never calls `PartialEq`), so `"in"`, `"a"`, `"any"` were rejected (defect D13); the fix
  upper-cases the text before the arms.  Whether the normalisation is present is extracted
  (`Gen.*ParseNormalise`) and required by `C17_shape`; reverting the fix breaks `C17_shape` and
  everything below it.
-/
import QV.Proofs.Codes

namespace QV.C17
open QV QV.Codes QV.Spec.Codes

/-! ### the four `FromStr` / `Display` impls, by kind -/

def parse : Kind → Text → Out ParseErr Nat
  | .type => typeFromStr
  | .class => classFromStr
  | .qtype => qtypeFromStr
  | .qclass => qclassFromStr

def display : Kind → Nat → Text
  | .type => typeDisplay
  | .class => classDisplay
  | .qtype => qtypeDisplay
  | .qclass => qclassDisplay

/-- all mnemonic arms a `FromStr` impl goes through, in order -/
def tableOf : Kind → List (Text × Nat)
  | .type => typeTable
  | .class => classTable
  | .qtype => qtypeTable ++ typeTable
  | .qclass => qclassTable ++ classTable

def wordOf : Kind → Text
  | .type | .qtype => typeWord
  | .class | .qclass => classWord

def endOf : Kind → Nat
  | .type | .qtype => Gen.typeParseGetEnd
  | .class | .qclass => Gen.classParseGetEnd

def dtableOf : Kind → List (Nat × String)
  | .type => Gen.typeDisplay
  | .class => Gen.classDisplay
  | .qtype => Gen.qtypeDisplay ++ Gen.typeDisplay
  | .qclass => Gen.qclassDisplay ++ Gen.classDisplay

def prefixOf : Kind → String
  | .type | .qtype => Gen.typeDisplayPrefix
  | .class | .qclass => Gen.classDisplayPrefix

/-! ### facts about the generated tables (finite; re-checked whenever the Rust source changes) -/

instance (tbl word) : Decidable (NoWord tbl word) := by unfold NoWord; infer_instance
instance (tbl) : Decidable (Distinct tbl) := by unfold Distinct; infer_instance
instance (d t) : Decidable (RowsParse d t) := by unfold RowsParse; infer_instance
instance (tbl) : Decidable (AllUpper tbl) := by unfold AllUpper; infer_instance

/-- shape of the source the model relies on: the slice `text[n..]` starts where `text.get(0..n)`
    ended, `n` is the length of the word, `Display` and `FromStr` use the same word, the
    Qtype/Qclass impls delegate to Type/Class, and all four `FromStr` impls upper-case the text
    before the mnemonic arms. -/
theorem C17_shape :
    (∀ k, (wordOf k).length = endOf k) ∧
    Gen.typeParseSliceFrom = Gen.typeParseGetEnd ∧ Gen.classParseSliceFrom = Gen.classParseGetEnd ∧
    (∀ k, (bytesOf (prefixOf k)).map lowerU8 = (wordOf k).map lowerU8) ∧
    Gen.qtypeParseDelegate = "Type" ∧ Gen.qtypeDisplayDelegate = "Type" ∧
    Gen.qclassParseDelegate = "Class" ∧ Gen.qclassDisplayDelegate = "Class" ∧
    Gen.typeParseNormalise = "to_ascii_uppercase" ∧ Gen.classParseNormalise = "to_ascii_uppercase" ∧
    Gen.qtypeParseNormalise = "to_ascii_uppercase" ∧ Gen.qclassParseNormalise = "to_ascii_uppercase" := by
  refine ⟨?_, by decide +kernel, by decide +kernel, ?_, by decide +kernel, by decide +kernel,
    by decide +kernel, by decide +kernel, by decide +kernel, by decide +kernel, by decide +kernel,
    by decide +kernel⟩
  · intro k; cases k <;> decide +kernel
  · intro k; cases k <;> decide +kernel

/-- no mnemonic of any table begins with "TYPE"/"CLASS" (in any case) -/
theorem C17_tables_no_word (k : Kind) : NoWord (tableOf k) (wordOf k) := by cases k <;> decide +kernel

/-- no two arms of a table carry mnemonics that are equal up to case -/
theorem C17_tables_distinct (k : Kind) : Distinct (tableOf k) := by cases k <;> decide +kernel

/-- every mnemonic arm is written in upper case (else it could never match the upper-cased text) -/
theorem C17_tables_upper (k : Kind) : AllUpper (tableOf k) := by cases k <;> decide +kernel

/-- every text written by a `Display` arm is a mnemonic arm of `FromStr` with the same value -/
theorem C17_display_rows_parse (k : Kind) : RowsParse (dtableOf k) (tableOf k) := by cases k <;> decide +kernel

/-- **The generated tables are the IANA tables.**  Every arm of the Rust `FromStr` impls is a row
    of the literal registry tables of `QV.Spec.Codes` (same spelling, same value), and every
    registry row is an arm.  A misspelt, dropped, duplicated or renumbered mnemonic in the Rust
    source fails this theorem. -/
theorem C17_tables_are_iana (k : Kind) :
    (∀ r ∈ mnemonics k, (ascii r.1, r.2) ∈ tableOf k) ∧
    (∀ r ∈ tableOf k, r ∈ (mnemonics k).map (fun r => (ascii r.1, r.2))) := by
  cases k <;> decide +kernel

/-- … and so are the `Display` tables: every arm prints a registry mnemonic of its value. -/
theorem C17_display_tables_are_iana (k : Kind) :
    ∀ d ∈ dtableOf k, (bytesOf d.2, d.1) ∈ (mnemonics k).map (fun r => (ascii r.1, r.2)) := by
  cases k <;> decide +kernel

theorem C17_parse_eq (k : Kind) (t : Text) :
    parse k t = parseWith (tableOf k) UP (wordOf k) (endOf k) (endOf k) t := by
  cases k
  · rfl
  · rfl
  · exact qtypeFromStr_eq t
  · exact qclassFromStr_eq t

theorem C17_display_eq (k : Kind) (v : Nat) : display k v = displayWith (dtableOf k) (prefixOf k) v := by
  cases k
  · rfl
  · rfl
  · exact qtypeDisplay_eq v
  · exact qclassDisplay_eq v

/-! ### 1. display → parse round trip, for every 16-bit value -/

/-- **Round trip.** For every kind and every 16-bit value, parsing the rendered text yields the
    value. -/
theorem C17_roundtrip (k : Kind) (v : Nat) (hv : v < 65536) : parse k (display k v) = .ok v := by
  rw [C17_parse_eq, C17_display_eq]
  exact parseWith_display _ _ _ (C17_shape.1 k) (C17_tables_no_word k) _ _ (C17_shape.2.2.2.1 k) (C17_display_rows_parse k) v hv

theorem C17_type_roundtrip (v : Nat) (hv : v < 65536) : typeFromStr (typeDisplay v) = .ok v :=
  C17_roundtrip .type v hv
theorem C17_class_roundtrip (v : Nat) (hv : v < 65536) : classFromStr (classDisplay v) = .ok v :=
  C17_roundtrip .class v hv
theorem C17_qtype_roundtrip (v : Nat) (hv : v < 65536) : qtypeFromStr (qtypeDisplay v) = .ok v :=
  C17_roundtrip .qtype v hv
theorem C17_qclass_roundtrip (v : Nat) (hv : v < 65536) : qclassFromStr (qclassDisplay v) = .ok v :=
  C17_roundtrip .qclass v hv

/-! ### 2. RFC 3597 forms -/

/-- **RFC 3597 §5.** For every kind, every case variant `p` of the word "TYPE" / "CLASS" and every
    16-bit value `v` with canonical decimal numeral `ds`, `p ++ ds` parses to `v`. -/
theorem C17_rfc3597 (k : Kind) (p ds : Text) (v : Nat) (hp : lower p = lower (ascii (word k)))
    (hd : IsDecimal ds v) (hv : v < 65536) : parse k (p ++ ds) = .ok v := by
  rw [C17_parse_eq]
  refine parseWith_generic _ _ _ (C17_shape.1 k) (C17_tables_no_word k) p ds v ?_ hd hv
  rw [lower_eq_map, lower_eq_map] at hp
  rw [hp]
  cases k <;> decide +kernel

/-- every value has a canonical numeral (the one `Display for u16` prints), so the previous
    theorem is about all 65536 values -/
theorem C17_rfc3597_all_values (k : Kind) (p : Text) (v : Nat) (hp : lower p = lower (ascii (word k)))
    (hv : v < 65536) : parse k (p ++ dec v) = .ok v :=
  C17_rfc3597 k p (dec v) v hp (dec_isDecimal v) hv

/-! ### 3. mnemonics -/

/-- **Mnemonics parse case-insensitively.** For every kind, every registry mnemonic `m` of value
    `v` and every text `s` equal to `m` up to ASCII case (all 2^len variants), `s` parses to `v`. -/
theorem C17_mnemonic (k : Kind) (m : String) (v : Nat) (h : (m, v) ∈ mnemonics k)
    (s : Text) (hs : lower s = lower (ascii m)) : parse k s = .ok v := by
  rw [C17_parse_eq]
  rw [lower_eq_map, lower_eq_map] at hs
  exact parseWith_mnemonic _ _ _ _ (C17_tables_distinct k) (C17_tables_upper k) _ _
    ((C17_tables_are_iana k).1 (m, v) h) s hs

/-- the same over the generated tables: every arm of the Rust source, in any case -/
theorem C17_mnemonic_generated (k : Kind) (m : Text) (v : Nat) (h : (m, v) ∈ tableOf k)
    (s : Text) (hs : s.map lowerU8 = m.map lowerU8) : parse k s = .ok v := by
  rw [C17_parse_eq]
  exact parseWith_mnemonic _ _ _ _ (C17_tables_distinct k) (C17_tables_upper k) _ _ h s hs

/-! ### 3b. acceptance, exactly (what the model says Rust's `u16::from_str` and the parsers accept) -/

/-- `u16::from_str` as modelled: optional `+`, at least one ASCII digit, nothing else, value ≤ 65535
    (leading zeros fine) -/
theorem C17_parseU16_iff (s : Text) (v : Nat) :
    parseU16 s = some v ↔
      ∃ ds, (s = ds ∨ s = 43 :: ds) ∧ ds ≠ [] ∧ (∀ c ∈ ds, isDigit c = true) ∧ decValue ds = v ∧ v ≤ 65535 :=
  parseU16_iff s v

/-- every parser accepts exactly (a) the mnemonics of its table(s) in any ASCII case and (b) the
    word TYPE / CLASS in any case followed by what `u16::from_str` accepts — for arbitrary octet
    strings (non-ASCII input included) -/
theorem C17_parse_ok_iff (k : Kind) (t : Text) (v : Nat) :
    parse k t = .ok v ↔
      (∃ m, (m, v) ∈ tableOf k ∧ t.map lowerU8 = m.map lowerU8) ∨
      (∃ p s, t = p ++ s ∧ p.map lowerU8 = (wordOf k).map lowerU8 ∧ parseU16 s = some v) := by
  rw [C17_parse_eq]
  exact parseWith_ok_iff _ _ _ (C17_shape.1 k) (C17_tables_no_word k) (C17_tables_distinct k)
    (C17_tables_upper k) t v

/-! ### 4. Opcode / RCODE conversions -/

/-- `Opcode::try_from(x: u8)` succeeds exactly on the 4-bit values, and keeps the value. -/
theorem C17_opcode_iff (x : Nat) : opcodeTryFrom x = some x ↔ fitsFourBits x := by
  unfold opcodeTryFrom fitsFourBits
  have : Gen.opcodeTryFromBound = 16 := by decide
  rw [this]; split <;> simp_all

theorem C17_opcode_none_iff (x : Nat) : opcodeTryFrom x = none ↔ ¬ fitsFourBits x := by
  unfold opcodeTryFrom fitsFourBits
  have : Gen.opcodeTryFromBound = 16 := by decide
  rw [this]; split <;> simp_all

/-- `Rcode::try_from(x: u8)` succeeds exactly on the 4-bit values, and keeps the value. -/
theorem C17_rcode_iff (x : Nat) : rcodeTryFrom x = some x ↔ fitsFourBits x := by
  unfold rcodeTryFrom fitsFourBits
  have : Gen.rcodeTryFromBound = 16 := by decide
  rw [this]; split <;> simp_all

theorem C17_rcode_none_iff (x : Nat) : rcodeTryFrom x = none ↔ ¬ fitsFourBits x := by
  unfold rcodeTryFrom fitsFourBits
  have : Gen.rcodeTryFromBound = 16 := by decide
  rw [this]; split <;> simp_all

/-- `Rcode::try_from(ExtendedRcode(e))` succeeds exactly when `e < 16`, and keeps the value
    (the `as u8` cast loses nothing). -/
theorem C17_rcode_from_ext_iff (e : Nat) : rcodeFromExt e = some e ↔ e < 16 := by
  unfold rcodeFromExt
  have : Gen.rcodeFromExtBound = 16 := by decide
  rw [this]; split
  · simp; omega
  · simp; omega

theorem C17_rcode_from_ext_none_iff (e : Nat) : rcodeFromExt e = none ↔ ¬ e < 16 := by
  unfold rcodeFromExt
  have : Gen.rcodeFromExtBound = 16 := by decide
  rw [this]; split <;> simp_all

/-! ### 5. the parsers never panic -/

/-- `text[n..]` after a successful `text.get(0..n)` is always on a char boundary. -/
theorem C17_no_panic (k : Kind) (t : Text) : parse k t ≠ .panic := by
  rw [C17_parse_eq]; exact parseWith_no_panic _ _ _ _ t

/-! ### 6. the property as a whole -/

/-- **C17.** Every presentation (RFC 3597 §5 form, or a registry mnemonic, in any ASCII case) of a
    16-bit code parses to that code; rendering any 16-bit value and parsing it back yields the
    value; `Opcode` / `Rcode` conversions accept exactly the 4-bit values and keep them; an extended
    RCODE converts exactly when below 16. -/
theorem C17_full :
    (∀ k t v, Presents k t v → parse k t = .ok v) ∧
    (∀ k v, v < 65536 → parse k (display k v) = .ok v) ∧
    (∀ x, opcodeTryFrom x = some x ↔ fitsFourBits x) ∧
    (∀ x, rcodeTryFrom x = some x ↔ fitsFourBits x) ∧
    (∀ e, rcodeFromExt e = some e ↔ e < 16) := by
  refine ⟨?_, C17_roundtrip, C17_opcode_iff, C17_rcode_iff, C17_rcode_from_ext_iff⟩
  intro k t v hp
  cases hp with
  | mnemonic hm ht => exact C17_mnemonic k _ v hm t ht
  | generic hp hd hv => exact C17_rfc3597 k _ _ v hp hd hv

/-! ### 7. the spec is unambiguous: a text presents at most one value -/

theorem C17_presents_unique (k : Kind) (t : Text) (v v' : Nat) (h : Presents k t v)
    (h' : Presents k t v') : v = v' := by
  have tie := (C17_tables_are_iana k).1
  have wlen : (wordOf k).map lowerU8 = (ascii (word k)).map lowerU8 := by cases k <;> decide +kernel
  -- a mnemonic is never of the generic form
  have clash : ∀ {m : String} {x : Nat} {p ds : Text}, (m, x) ∈ mnemonics k →
      lower (p ++ ds) = lower (ascii m) → lower p = lower (ascii (word k)) → False := by
    intro m x p ds hm ht hp
    rw [lower_eq_map, lower_eq_map] at ht hp
    apply C17_tables_no_word k _ (tie (m, x) hm)
    have hl : p.length = (wordOf k).length := by
      rw [map_lower_length hp, ← map_lower_length wlen]
    simp only
    rw [List.map_take, ← ht, ← List.map_take, ← hl, wlen, ← hp]
    simp
  have inv : ∀ {x : Nat}, Presents k t x →
      (∃ m, (m, x) ∈ mnemonics k ∧ lower t = lower (ascii m)) ∨
      (∃ p ds, t = p ++ ds ∧ lower p = lower (ascii (word k)) ∧ IsDecimal ds x) := by
    intro x hx
    cases hx with
    | mnemonic hm ht => exact .inl ⟨_, hm, ht⟩
    | generic hp hd hv => exact .inr ⟨_, _, rfl, hp, hd⟩
  rcases inv h with ⟨m, hm, ht⟩ | ⟨p, ds, rfl, hp, hd⟩
  · rcases inv h' with ⟨m', hm', ht'⟩ | ⟨p', ds', e, hp', hd'⟩
    · have := C17_tables_distinct k _ (tie _ hm) _ (tie _ hm') (by
        rw [lower_eq_map, lower_eq_map] at ht ht'; simp only; rw [← ht, ← ht'])
      simp at this; exact this.2
    · subst e; exact (clash hm ht hp').elim
  · rcases inv h' with ⟨m', hm', ht'⟩ | ⟨p', ds', e, hp', hd'⟩
    · exact (clash hm' ht' hp).elim
    · rw [lower_eq_map, lower_eq_map] at hp hp'
      have hl := (map_lower_length hp).trans (map_lower_length hp').symm
      have := List.append_inj e hl
      rw [this.2] at hd
      exact isDecimal_unique hd hd'

/-! ### 8. the oracle of the correspondence check is the specification -/

/-- the executable `specParse` (spec column of `cparse` / `cpres`) returns `v` exactly for the
    texts that present `v` -/
theorem C17_oracle_is_spec (k : Kind) (t : Text) (v : Nat) : specParse k t = some v ↔ Presents k t v :=
  specParse_iff k t v

/-! ### non-vacuity -/

example : typeDisplay 65280 = bytesOf "TYPE65280" := by decide +kernel
example : qtypeDisplay 255 = bytesOf "*" := by decide +kernel
example : typeFromStr (bytesOf "TYPE65280") = .ok 65280 := by decide +kernel
example : classFromStr (bytesOf "cLaSs+007") = .ok 7 := by decide +kernel
example : typeFromStr (bytesOf "TYPE65536") = .err .BadValue := by decide +kernel
example : typeFromStr (bytesOf "TYP€") = .err .Unknown := by decide +kernel
example : parseU16 (bytesOf "+0065") = some 65 := by decide +kernel
example : parseU16 (bytesOf "65536") = none := by decide +kernel
example : parseU16 (bytesOf "-5") = none := by decide +kernel
example : Presents .qtype (bytesOf "tYpE252") 252 :=
  .generic (p := bytesOf "tYpE") (by decide +kernel)
    (.snoc 2 (by omega) (by omega) (.snoc 5 (by omega) (by omega) (.digit 2 (by omega)))) (by omega)
example : Presents .qtype (bytesOf "axfr") 252 := .mnemonic (m := "AXFR") (by decide +kernel) (by decide +kernel)
/-- regression witnesses for the repaired defect D13: lower-case mnemonics parse -/
example : parse .type (bytesOf "a") = .ok 1 := by decide +kernel
example : parse .class (bytesOf "in") = .ok 1 := by decide +kernel
example : parse .qtype (bytesOf "aNy") = .ok 255 := by decide +kernel
example : parse .qclass (bytesOf "none") = .ok 254 := by decide +kernel
example : Presents .type [97] 1 := .mnemonic (m := "A") (by decide +kernel) (by decide +kernel)

end QV.C17
