/-
  C01 — The server survives every possible request without panicking.

  "Handling any byte string as a request, over UDP or TCP, returns either a response or no response
   and never panics or aborts. This holds for any zone contents, TSIG key set and rate-limit
   configuration the library API allows."

  Model: `QV.Server.handleMessage` (lean/QV/Model/Server.lean; byte-exact, every Rust panic site an
  explicit `.panic`), composed of the reader (C15), name parser (C14), RDATA reader (C18), catalog
  (C22), zone (C06), TSIG (C11) and writer (C12/C13) models. RRL is modelled separately (C26–C28).

  Shape: composition, in four layers (helpers in lean/QV/Proofs/Server*.lean):
    L1 scan phase       `C01_scan_phase`, `C01_tsig_branch`, `C01_answer_authority_scan_calls_safe`
    L2 zone / catalog   `C01_catalog_selects_own_zone`, `C01_cname_fuel_never_runs_out`
    L3 writer contract  `C01_query_phase` (every writer call meets `Call.Pre`: names well formed,
                        hints valid — C13's hint contract)
    L4 assembly         `C01_handle_message_partial`

  What is assumed (explicit hypotheses, each with its owner):
    * `W : WriterSafe`  (lean/QV/Proofs/ServerWriter.lean) — the writer's own theorems: invariant,
      no public call panics from it when its contract is met, which anchors / HintPointerVec entries
      are valid after a call, `finish` does not panic. To be discharged by the writer's owner
      (C12/C13) as `theorem writerSafe : WriterSafe`; then `C01_handle_message_partial` is C01_full.
    * `CfgWF cfg` — what the library API guarantees of a configuration (entries filed under their
      zone's apex, apexes are names, stored RRsets non-empty, payload size ≥ 512);
      `C01_zone_api_rrsets_nonempty` proves the RRset part for every zone built with `add`.
    * `EnvOK` — the documented buffer-size requirement, a representable clock (`now < 2^48`), a
      request that is a slice.
  Not in this model: RRL. Its panic sites are the refill arithmetic (C26, repaired: D10) and the
  choice of the QNAME to hash — see `C01_truncated_tsig_gives_noerror_without_question` (defect D17,
  repaired): "NOERROR ⇒ a question is present" does NOT hold for the scan phase.
  In the model `macFn` maps a panicking `sign_response` to an empty MAC; `sign_response` panics iff
  the message has fewer than 12 octets or ARCOUNT = 0 (`C11_sign_panic_iff`), which `finish` excludes
  by writing ARCOUNT ≥ 1 first (writer invariant: ARCOUNT counts the reserved TSIG record) — part of
  the writer's obligations, checked on every generated TSIG case by the correspondence run.
-/
import QV.Proofs.ServerSafety
import QV.Proofs.ServerRrlSafe

namespace QV.C01
open QV QV.Writer QV.Server QV.Reader QV.ServerSafety

/-- **C01 at full strength** (for the RRL-less handler): for every configuration the API allows,
    either transport, every clock value the TSIG field can hold, every sufficiently large response
    buffer and every request, `handle_message` does not panic. -/
def C01_full : Prop :=
  ∀ (cfg : Cfg) (tr : Transport) (now bufLen : Nat) (req : Bytes), CfgWF cfg →
    EnvOK cfg tr now bufLen req → handleMessage cfg tr now bufLen req ≠ .panic

/-- **Main theorem (partial: one interface hypothesis remains).** Given the writer's theorems
    (`WriterSafe`), C01 holds in full. (The MAC fits its reservation because HMAC-SHA1/256 tags have
    20/32 octets: `QV.Tsig.realHmac_length`, C11.) -/
theorem C01_handle_message_partial (W : WriterSafe) : C01_full :=
  fun cfg tr now bufLen req hcfg henv =>
    handleMessage_no_panic W cfg hcfg tr now bufLen req henv (macLenOK_server hmacLenOK)

/-- **Main theorem: C01 holds** — with the writer's theorems (`QV.Writer.writerSafe`, proved from
    C12/C13 in lean/QV/Proofs/WriterSafe.lean) no interface hypothesis remains. -/
theorem C01_holds : C01_full := C01_handle_message_partial Writer.writerSafe

/-- … and a response, when there is one, is exactly what `finish` serialises from a writer state
    that satisfies the writer invariant (used by C02). -/
theorem C01_response_is_finished_writer (W : WriterSafe) (cfg : Cfg) (hcfg : CfgWF cfg)
    (tr : Transport) (now bufLen : Nat) (req : Bytes) (henv : EnvOK cfg tr now bufLen req) (b : Bytes)
    (h : handleMessage cfg tr now bufLen req = .ok (some b)) :
    ∃ w mac, W.I w ∧ Writer.finish w macFn = .ok (b, mac) := by
  rcases handleMessage_cases W cfg hcfg tr now bufLen req henv (macLenOK_server hmacLenOK) with h' | ⟨w, b', mac, hi, hf, h'⟩
  · rw [h'] at h; cases h
  · rw [h'] at h; cases h; exact ⟨w, mac, hi, hf⟩

/-! ### with response rate limiting enabled (`Server::set_rrl_params(Some(..))`) -/

/-- **C01 for the handler with RRL**: model `QV.Server.handleMessageRrl` (lean/QV/Model/ServerRrl.lean)
    = the handler, then `Rrl::process_response` on its `Context` (subject_to_rrl; category from the
    extended RCODE; the name hashed: source of synthesis, else QNAME, else the root; Send / Slip =
    `clear_rrs(); set_tc(true)` / Drop), then `finish`. For every configuration the API allows,
    every valid RRL parameter set and **every** table state, `RandomState`, source address, instant
    and `should_slip` outcome, it does not panic. -/
def C01_rrl_full : Prop :=
  ∀ (cfg : Cfg) (tr : Transport) (now bufLen : Nat) (req : Bytes) (rs : Rrl.RandomState) (rrl : Rrl.Rrl)
    (src : Rrl.IpAddr) (tnow : Nat) (rnd : Bool), CfgWF cfg → EnvOK cfg tr now bufLen req →
    rrl.params.Valid → handleMessageRrl cfg tr now bufLen req rs rrl src tnow rnd ≠ .panic

/-- **C01 holds with RRL enabled**: the handler's ingredients of `C01_holds` (it hands RRL a writer
    satisfying the writer invariant), C26 (`process_response` never panics, whatever the table
    holds), the writer contract for the two calls of the Slip path, and `finish`. -/
theorem C01_rrl : C01_rrl_full := by
  intro cfg tr now bufLen req rs rrl src tnow rnd hcfg henv hv
  obtain ⟨resp, rrl', h⟩ := handleMessageRrl_no_panic Writer.writerSafe cfg hcfg tr now bufLen req henv rs rrl hv
    src tnow rnd
  rw [h]; simp

/-- the RRL-less handler is the same computation cut before RRL, followed by `finish` -/
theorem C01_rrl_shares_the_handler (cfg : Cfg) (tr : Transport) (now bufLen : Nat) (req : Bytes) :
    handleMessage cfg tr now bufLen req =
      (match handleToContext cfg tr now bufLen req with
       | .ok h => finishResponse h
       | .err _ => .panic
       | .panic => .panic) := handleMessage_eq_toContext cfg tr now bufLen req

/-- **what RRL can do to a response**: nothing (not subject to RRL: the RRL-less response and an
    untouched table; or admitted: the RRL-less response), suppress it (Drop), or replace it by
    `finish` of the handler's writer after `clear_rrs(); set_tc(true)` (Slip): the question is kept,
    ANCOUNT = NSCOUNT = 0, ARCOUNT counts only the OPT / TSIG pseudo-records `finish` appends. -/
theorem C01_rrl_outcome (cfg : Cfg) (hcfg : CfgWF cfg) (tr : Transport) (now bufLen : Nat) (req : Bytes)
    (henv : EnvOK cfg tr now bufLen req) (rs : Rrl.RandomState) (rrl : Rrl.Rrl) (src : Rrl.IpAddr)
    (tnow : Nat) (rnd : Bool) (resp : Option Bytes) (rrl' : Rrl.Rrl)
    (h : handleMessageRrl cfg tr now bufLen req rs rrl src tnow rnd = .ok (resp, rrl')) :
    RrlOutcome cfg tr now bufLen req rrl resp rrl' :=
  handleMessageRrl_outcome Writer.writerSafe cfg hcfg tr now bufLen req henv rs rrl src tnow rnd resp rrl' h

/-- over TCP RRL changes nothing: the response of the RRL-less handler, the table untouched -/
theorem C01_rrl_tcp_exempt (cfg : Cfg) (hcfg : CfgWF cfg) (now bufLen : Nat) (req : Bytes)
    (henv : EnvOK cfg .tcp now bufLen req) (rs : Rrl.RandomState) (rrl : Rrl.Rrl) (hv : rrl.params.Valid)
    (src : Rrl.IpAddr) (tnow : Nat) (rnd : Bool) :
    ∃ resp, handleMessage cfg .tcp now bufLen req = .ok resp ∧
      handleMessageRrl cfg .tcp now bufLen req rs rrl src tnow rnd = .ok (resp, rrl) :=
  handleMessageRrl_tcp Writer.writerSafe cfg hcfg now bufLen req henv rs rrl hv src tnow rnd

/-- **every sequence of requests**: one server with RRL enabled, started with any valid parameter
    set (`Rrl::new`: every bucket holds the dummy key), handles any sequence of messages — any
    sources, transports, instants, `RandomState` — without panicking, and produces one result
    (response or none) per message. `serveAll` threads the table, the only state that survives a
    call, through `handleMessageRrl`. -/
theorem C01_rrl_every_sequence (cfg : Cfg) (hcfg : CfgWF cfg) (rs : Rrl.RandomState) (params : Rrl.RrlParams)
    (hv : params.Valid) (t0 : Nat) (arrivals : List Arrival)
    (henv : ∀ a ∈ arrivals, EnvOK cfg a.tr a.now a.bufLen a.req) :
    ∃ resps rrl', serveAll cfg rs (Rrl.Rrl.new params t0) arrivals = .ok (resps, rrl') ∧
      resps.length = arrivals.length := by
  obtain ⟨resps, rrl', h, hl, _⟩ := serveAll_no_panic Writer.writerSafe cfg hcfg rs arrivals henv
    (Rrl.Rrl.new params t0) hv
  exact ⟨resps, rrl', h, hl⟩

/-! ### L1 — the scan phase -/

/-- `handle_message_with_context` never panics from a fresh writer, given only that the QUERY
    handler is safe: every reader call is made on a reader satisfying C15's invariant, the `PeekRr`
    accessors are in range, a parsed QNAME converts to a `Name`, `set_extended_rcode(..).expect(..)`
    follows a successful `set_edns`, `arcount - 1` does not underflow, the TSIG branch is safe. -/
theorem C01_scan_phase (W : WriterSafe) (cfg : Cfg) (tr : Transport) (now : Nat) (hnow : now < 2^48)
    (hq : QuerySafe W cfg tr) (r0 : Reader) (hr : RInv r0) (s : State) (hI : W.I s)
    (hsect : s.sect = .question) (hqd : s.qdcount = 0) :
    (handleWithContext cfg tr now r0 s).1 ≠ .panic ∧ W.I (handleWithContext cfg tr now r0 s).2 :=
  handleWithContext_safe W cfg tr now hnow hq r0 hr s hI hsect hqd

/-- the TSIG branch: `ReadTsigRr::try_from` never answers `NotTsig` nor trips an `expect`
    (the RDATA was validated by `Rdata::read`), the clock is representable, the key and algorithm
    names convert, `verify_request` sees a message whose ARCOUNT ≥ 1, and the response TSIG meets
    the contract of `set_tsig`. -/
theorem C01_tsig_branch (W : WriterSafe) (cfg : Cfg) (now : Nat) (hnow : now < 2^48) (r : Reader)
    (hi : RInv r) (p : PeekRr) (hpk : peekRr r = .ok p) (ht : p.rrType = .ok (T "TSIG")) (raw : Nat)
    (har : 1 ≤ be16 r.octets Gen.ARCOUNT_START) (s : State) (hI : W.I s) :
    (handleTsig cfg now p raw s).1 ≠ .panic ∧ W.I (handleTsig cfg now p raw s).2 :=
  let h := handleTsig_safe W cfg now hnow r hi p hpk ht raw har s hI
  ⟨h.1, h.2.1⟩

/-- the model folds a panicking `peek_rr` of the answer/authority scan into "FORMERR"; on a reader
    satisfying the invariant that never happens: the scan with explicit panics computes the same -/
theorem C01_answer_authority_scan_calls_safe (n : Nat) (r : Reader) (hi : Reader.Inv r) :
    scanAnNsP n r = .ok (scanAnNs n r) := scanAnNs_no_panic n r hi

/-- the "unreachable" branch after `read_question`: a name the parser returned is a `Name` -/
theorem C01_parsed_qname_is_a_name (msg : Bytes) (s : Nat) (p : Wire.Parsed)
    (h : Wire.parseCompressed msg s = .ok p) :
    ∃ n : WName, n.WF ∧ n.wire = p.wire ∧ WName.parse p.wire = some (n, []) := parsed_wname msg s p h

/-- `set_extended_rcode(FORMERR / BADVERS).expect(..)` cannot fail once EDNS is set -/
theorem C01_ext_rcode_expect (v : Nat) (hv : v ≤ 4095) (s : State) (he : s.edns.isSome) :
    ∀ e, (setExtendedRcode v s).1 ≠ .err e := setExtendedRcode_not_err v hv s he

/-- the program never *returns* a `writer::Error` (the model treats that like a panic) -/
theorem C01_no_unhandled_writer_error (cfg : Cfg) (tr : Transport) (now : Nat) (r0 : Reader) :
    NoErr (handleWithContext cfg tr now r0) := noErr_handleWithContext cfg tr now r0

/-! ### L2 — zone and catalog -/

/-- the entry the catalog returns carries the index of its own zone, which exists, and its apex is
    a suffix of the QNAME: `cfg.zones[e.zone]` cannot fail, and the unchecked lookup of
    `answer`/`answer_any` is made on a name at or below the apex (so neither the subtraction
    overflow nor `WrongZone ⇒ panic!` is reachable) -/
theorem C01_catalog_selects_own_zone (zs : List ZoneEntry) (n : Catalog.DName) (cls : Nat)
    (e : Catalog.Entry Unit) (h : Catalog.lookup (mkCatalog zs) n cls = some e) :
    ∃ ze, zs[e.zone]? = some ze ∧ e.name = ze.apex.labels ∧ e.kind = ze.kind ∧
      Spec.Catalog.foldName ze.apex.labels <:+ Spec.Catalog.foldName n := mkCatalog_lookup zs n cls e h

/-- zone lookups: never a panic for a checked lookup or for a name at or below the apex;
    `WrongZone` only from a checked lookup -/
theorem C01_zone_lookup_safe (z : Zone.Zone) (hz : ZoneOK z) (name : NameL.Name) (o : Zone.Opts)
    (hname : (unfold name).WF) (hsub : o.unchecked = true → z.apex <:+ name) :
    Zone.lookupBase z name o ≠ .panic ∧ (o.unchecked = true → Zone.lookupBase z name o ≠ .ok .wrongZone) := by
  rcases lookupBase_cases z hz name o hname hsub with ⟨h, hu⟩ | ⟨b, hb, hnw, _, _⟩
  · rw [h]; exact ⟨by simp, fun hc => by rw [hu] at hc; cases hc⟩
  · rw [hb]; exact ⟨by simp, fun _ hc => hnw (Out.ok.inj hc)⟩

/-- the CNAME recursion is stopped by `owners_seen` (capacity `MAX_CNAME_CHAIN_LEN − 1`), never by
    the model's fuel: from the fuel `do_cname` starts with, more fuel changes nothing -/
theorem C01_cname_fuel_never_runs_out (z : Zone.Zone) (qname : WName) (rrType : Nat) (cn : Zone.Rrset) :
    followCname z qname rrType (Gen.MAX_CNAME_CHAIN_LEN + 1) cn [] =
      followCname z qname rrType (Gen.MAX_CNAME_CHAIN_LEN + 2) cn [] :=
  followCname_fuel z qname rrType Gen.MAX_CNAME_CHAIN_LEN cn [] (by simp)

/-! ### L3 — the QUERY handler meets the writer's contract -/

/-- `handle_query` never panics: every `add_*_rr(set)` call is made with a well-formed owner and
    a hint that is valid at that moment (`Hint::Qname` after the question was added with that name;
    `MostRecentOwner` / `MostRecentNameInRdata` right after such a name was written; explicit
    pointers from the `HintPointerVec` of the RRset just written, at the index of the RDATA whose
    name they accompany); writer errors (`OutOfOrder`, `Truncation`, `InvalidRdata`, …) become
    `ProcessingError`s, never `unwrap`s. -/
theorem C01_query_phase (W : WriterSafe) (cfg : Cfg) (hcfg : CfgWF cfg) (tr : Transport) :
    QuerySafe W cfg tr := querySafe W cfg hcfg tr

/-! ### RRL: the statement the old code relied on is false -/

/-- `process_response` used to assume "a NOERROR response to a QUERY has a question"
    (`context.question.as_ref().unwrap()`, defect D17). The scan phase does not guarantee it: when
    the response TSIG does not fit, `set_tsig_or_truncate` forces RCODE NOERROR (+ TC) whether or not
    there is a question — e.g. QDCOUNT = 0 and a TSIG record with a 255-octet key name and a
    220-octet algorithm name (corpus/C01/d17-rrl-noerror-without-question.cases). The repaired code
    hashes the root name in that case; the obligation on the RRL side is that its choice of QNAME is
    total. -/
theorem C01_truncated_tsig_gives_noerror_without_question (m : TsigMode) (rr : TsigRr) (s s' : State)
    (e : WriterErr) (h : setTsig m rr s = (.err e, s')) :
    setTsigOrTruncate m rr s = (do setRcode (RC "NOERROR"); setTc true; pure false : M Bool) s' := by
  unfold setTsigOrTruncate
  rw [h]

/-! ### the API side: zones built with `add` only hold non-empty RRsets -/

theorem C01_zone_api_rrsets_nonempty (eqv : Zone.Eqv) (apex : NameL.Name) (cls : Nat) (glue : Zone.GluePolicy)
    (rs : List Zone.Rec) :
    NodeOK (fun r => r.rdatas ≠ []) (Zone.build eqv (Zone.Zone.new apex cls glue) rs).root :=
  build_nodeOK eqv apex cls glue rs

/-! ### non-vacuity: a concrete configuration and environment satisfy the hypotheses -/

/-- zone `a.` (IN) with an SOA-less apex holding one A RRset and a child `b.a.` -/
def exZone : Zone.Zone :=
  ⟨[[97]], 1, .narrow, .mk [⟨1, 60, [[192, 0, 2, 1]]⟩] [([98], .mk [⟨16, 30, [[1, 120]]⟩] [])]⟩

def exCfg : Cfg := { payload := 1232, zones := [⟨⟨[[97]]⟩, 1, .Loaded, exZone⟩] }

example : CfgWF exCfg := by
  refine ⟨by decide, fun ze hze => ?_⟩
  simp only [exCfg, List.mem_singleton] at hze
  subst hze
  refine ⟨by decide, by decide, ?_⟩
  refine NodeOK.mk _ _ (fun r hr => ?_) (fun l c hc => ?_)
  · simp at hr; subst hr; simp
  · simp at hc
    obtain ⟨_, rfl⟩ := hc
    exact NodeOK.mk _ _ (fun r hr => by simp at hr; subst hr; simp) (fun _ _ h => by simp at h)

example : EnvOK exCfg .udp 1700000000 1232 #[0, 0, 1, 0, 0, 1, 0, 0, 0, 0, 0, 0, 1, 97, 0, 0, 1, 0, 1] :=
  ⟨by decide, by decide, by decide⟩

example : EnvOK exCfg .tcp 1700000000 65535 #[] := ⟨by decide, by decide, by decide⟩

end QV.C01
