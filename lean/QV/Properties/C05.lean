/-
  C05 — Query answers follow the DNS resolution algorithm.

  "For any catalog and well-formed QUERY, the response's RCODE, AA flag and the answer, authority
   and additional sections equal those of an independent implementation of RFC 1034 §4.3.2 with
   RFC 4592 wildcards, RFC 6604 CNAME-chain RCODEs, in-zone CNAME chasing (at most 8 links, loops
   give SERVFAIL), referrals with mandatory in-bailiwick glue, and address records for NS/MX/SRV
   targets. Negative answers carry the zone's SOA in the authority section with TTL equal to the
   smaller of the SOA record's TTL and its MINIMUM field (RFC 2308 §3)."

  Model: the query.rs part of `QV.Model.Server` (`answer`, `answerAny`, `doCname`/`followCname`,
  `doReferral`, `doAdditionalSectionProcessing`, `addNegativeCachingSoa`, `handleNonAxfrQueryL`),
  byte-exact (`srv` correspondence), running in `PM` = writer state + ghost operation log.
  Spec: `QV.Spec.Resolve.specResolve` over the flat-record zone of `QV.Spec.Zone`.
  Abstraction: `QV.ServerAnswer.view : List Ev → View` — RCODE, AA, TC and the three sections the
  logged writer operations amount to (records of accepted calls; `clear_rrs` empties them).

  Shape: refinement. For *every* zone built through the public API (any add sequence `rs`), every
  QNAME at or below the apex, every QTYPE, both transports and every writer state: if no logged
  writer call hits a capacity limit, the view of the log equals `specResolve`, list for list (hence
  as multisets). The zone side is C06's theorem (`Rel.reachable`, `lookup_eq_spec`), no longer a
  hypothesis.

  Recorded correction: the first version of `C05_full` quantified over *arbitrary* writer states;
  that statement was too strong (a writer already in the additional section answers `OutOfOrder`
  to the first `add_answer_rrset` without any `Truncation`, and the response is then SERVFAIL
  whatever the zone says). `C05_full` now quantifies over the states in which `handle_query` is
  entered (`QueryReady`), and `C05_entry_state_handle_message` shows that the state
  `handle_message_with_context` hands over is one.

  The tie between the ghost log and the octets: `C05_log_is_content` — the induction over
  `handle_non_axfr_query` (Proofs/ServerAnswerContent.lean, `clay_handleNonAxfrQueryL`) that threads
  the writer's content layout `CLay` (C12) through every operation of the answering phase: from a
  `Good` writer (invariant + layout `b0`) in which `Hint::Qname` is valid, the writer that
  `handle_non_axfr_query` leaves is `Good` and laid out as `b0` plus the records of the logged
  `add_*` calls that succeeded, in call order, by section (`bodyOf`), which is — record for record —
  the `view` of the log (`BodyView`: owner case-folded, TTL as `Ttl::from` stores it).

  The selection of the zone (longest suffix match in the catalog, `handle_query`) is C22 + C07; the
  lifting from the operation log to the decoded octets is C12 (the writer serialises what it was
  given); both are checked end to end on every run by the `audans` oracle, which decodes the real
  response with `specDecodeMsg` and compares it with `specResolve` as multisets.
-/
import QV.Proofs.ServerAnswer
import QV.Proofs.ServerAnswerCap
import QV.Proofs.ServerAnswerEntry
import QV.Proofs.ServerAnswerTypes
import QV.Proofs.ServerAnswerDecode
import QV.Proofs.WriterFaithful

namespace QV.C05
open QV QV.Writer QV.Server QV.Zone QV.Spec.Zone QV.Spec.Resolve QV.ServerAnswer

/-- no logged record-adding call reported `Truncation` -/
def NoTruncation (evs : List Ev) : Prop := ∀ a, Ev.add a ∈ evs → a.res ≠ .err .Truncation

/-- **The property at full strength** (for one zone of the catalog, built through the API by any
    add sequence; `qname` at or below its apex, which is what the catalog lookup guarantees; the
    writer in the state in which `handle_query` is entered — `QueryReady`: reached from
    `Writer::new` with a limit ≤ 65 535 by the header setters, `add_question qname`, `set_edns`,
    `set_limit`, `set_tsig`): whenever no writer operation reports `Truncation`,
    `handle_non_axfr_query` succeeds and the records it added, its RCODE, AA (and TC = clear) are
    exactly the resolution the specification prescribes. -/
def C05_full : Prop :=
  ∀ (eqv : Eqv) (apex : NameL.Name) (cls : Nat) (glue : GluePolicy) (rs : List Rec)
    (qname : WName) (qtype : Nat) (tr : Transport) (w : Writer.State),
    Folded apex → (unfold apex).WF → qname.WF → apex <:+ fold qname → QueryReady w qname →
    NoTruncation (handleNonAxfrQueryL (build eqv (Zone.new apex cls glue) rs) qname qtype tr ⟨w, []⟩).2.log →
      (handleNonAxfrQueryL (build eqv (Zone.new apex cls glue) rs) qname qtype tr ⟨w, []⟩).1 = .ok () ∧
      view (handleNonAxfrQueryL (build eqv (Zone.new apex cls glue) rs) qname qtype tr ⟨w, []⟩).2.log
        = View.ofResolution (specResolve (specBuild eqv ⟨apex, cls, glue, []⟩ rs) (fold qname) qtype)

/-! ### the refinement theorem (`C05` at the end of the file derives `C05_full` from it)

  Proved first: the conclusion of `C05_full` under `NoCapErr` — every logged call ended `Ok` or
  `InvalidRdata` — for *every* writer state, and under `WriterRdataFaithful` (the writer accepts a
  call only if the embedded names of its RDATA can be located and says `InvalidRdata` only if some
  cannot; discharged below by `writerRdataFaithful`, lean/QV/Proofs/WriterFaithful.lean).
  `C05_only_truncation_matters` then shows that from the state in which `handle_query` is entered
  `NoTruncation` implies `NoCapErr` (no `OutOfOrder`, no `CountOverflow`, no panic). -/

theorem C05_answer_partial (hW : WriterRdataFaithful)
    (eqv : Eqv) (apex : NameL.Name) (cls : Nat) (glue : GluePolicy) (rs : List Rec)
    (qname : WName) (qtype : Nat) (tr : Transport) (w : Writer.State)
    (ha : Folded apex) (hq : apex <:+ fold qname)
    (hn : NoCapErr (handleNonAxfrQueryL (build eqv (Zone.new apex cls glue) rs) qname qtype tr ⟨w, []⟩).2.log) :
    (handleNonAxfrQueryL (build eqv (Zone.new apex cls glue) rs) qname qtype tr ⟨w, []⟩).1 = .ok () ∧
    view (handleNonAxfrQueryL (build eqv (Zone.new apex cls glue) rs) qname qtype tr ⟨w, []⟩).2.log
      = View.ofResolution (specResolve (specBuild eqv ⟨apex, cls, glue, []⟩ rs) (fold qname) qtype) := by
  have hR := Rel.reachable eqv apex cls glue rs
  have hap : (specBuild eqv ⟨apex, cls, glue, []⟩ rs).apex = apex := (specBuild_fields eqv _ rs).1
  exact handle_view_nocap hW hR (by rw [hap]; exact ha) qname qtype (by rw [hap]; exact hq) tr ⟨w, []⟩ rfl hn

/-- The same for any tree/flat-zone pair in the refinement relation of C06/C20 (not only built
    ones), and stated with the per-call condition `GoodLog` (each logged call ended `Ok` with
    renderable RDATA or `InvalidRdata` with an unrenderable one) — no assumption on the writer. -/
theorem C05_answer_goodlog_partial {z : Zone.Zone} {sz : SZone} (hR : Rel z sz) (ha : Folded sz.apex)
    (qname : WName) (qtype : Nat) (hq : sz.apex <:+ fold qname) (tr : Transport) (w : Writer.State)
    (hg : GoodLog (handleNonAxfrQueryL z qname qtype tr ⟨w, []⟩).2.log) :
    (handleNonAxfrQueryL z qname qtype tr ⟨w, []⟩).1 = .ok () ∧
    view (handleNonAxfrQueryL z qname qtype tr ⟨w, []⟩).2.log
      = View.ofResolution (specResolve sz (fold qname) qtype) :=
  handle_view hR ha qname qtype hq tr ⟨w, []⟩ rfl hg

/-! ### stages (each is a corollary of the lemmas behind the main theorem, stated on its own) -/

/-- **Negative answers (repaired defect D04)**: the SOA put into the authority section has TTL
    min(SOA record TTL, MINIMUM), a MINIMUM ≥ 2^31 counting as 0 — so never more than either. -/
theorem C05_negative_soa_ttl (sz : SZone) (soa : RR) (h : negativeSoa sz = some soa) :
    ∃ (s : Rrset) (rd : List UInt8) (rest : List (List UInt8)) (m : Nat),
      specSoa sz = some s ∧ s.rdatas = rd :: rest ∧ soaMinimum rd = some m ∧
      soa = ⟨sz.apex, SOA, sz.cls, min (if 2147483648 ≤ m then 0 else m) s.ttl, rd⟩ ∧
      soa.ttl ≤ s.ttl ∧ soa.ttl ≤ m := by
  unfold negativeSoa at h
  cases hs : specSoa sz with
  | none => rw [hs] at h; cases h
  | some s =>
    rw [hs] at h
    simp only [] at h
    cases hr : s.rdatas with
    | nil => rw [hr] at h; cases h
    | cons rd rest =>
      rw [hr] at h
      simp only [] at h
      cases hm : soaMinimum rd with
      | none => rw [hm] at h; cases h
      | some m =>
        rw [hm] at h
        simp only [Option.some.injEq] at h
        refine ⟨s, rd, rest, m, rfl, hr, hm, h.symm, ?_, ?_⟩
        · rw [← h]; exact Nat.min_le_right _ _
        · rw [← h]
          simp only []
          split
          · omega
          · exact Nat.min_le_left _ _

/-- the model's negative answer: NXDOMAIN / NOERROR with exactly that SOA (model side of D04) -/
theorem C05_model_negative_soa (hW : WriterRdataFaithful) {z : Zone.Zone} {sz : SZone} (hR : Rel z sz)
    (ha : Folded sz.apex) (ps : PS) :
    ∃ evs, (addNegativeCachingSoa z ps).2.log = ps.log ++ evs ∧
      (NoCapErr evs →
        match negativeS sz with
        | some d => (addNegativeCachingSoa z ps).1 = .ok () ∧ ∀ v, evs.foldl View.step v = d.apply v
        | none => (addNegativeCachingSoa z ps).1 = .err .servFail) := by
  obtain ⟨evs, h1, hi, _, hc⟩ := Does.negativeSoa hR ha ps
  refine ⟨evs, h1, fun hn => ?_⟩
  have c := hc (goodLog_of_inv hW hi hn)
  cases hS : negativeS sz with
  | none => rw [hS] at c; exact c
  | some d =>
    rw [hS] at c
    obtain ⟨⟨a, hok⟩, hv⟩ := c
    exact ⟨hok, hv⟩

/-- the chain bound comes from the source: `MAX_CNAME_CHAIN_LEN` (extracted) is the 8 of the spec -/
theorem C05_chain_len_const : Gen.MAX_CNAME_CHAIN_LEN = 8 := rfl

/-- **CNAME chains**: a chain collects at most as many CNAME records as links are allowed (8) -/
theorem C05_chain_bound (sz : SZone) (qt : Nat) (k : Nat) (visited : List NameL.Name) (owner : NameL.Name)
    (cn : Rrset) : (chase sz qt k visited owner cn).1.length ≤ k := by
  induction k generalizing visited owner cn with
  | zero => simp [chase]
  | succ k ih =>
    rw [chase]
    cases cn.rdatas with
    | nil => simp
    | cons rd rest =>
      simp only []
      cases exactName rd with
      | none => simp
      | some target =>
        simp only []
        by_cases hv : visited.contains target = true
        · rw [if_pos hv]; simp
        · rw [if_neg hv]
          cases hl : specLookup sz target qt ⟨false, false⟩ with
          | cname next sos =>
            simp only []
            have := ih (target :: visited) target next
            rcases hc : chase sz qt k (target :: visited) target next with ⟨ls, e⟩
            rw [hc] at this
            cases e <;> simp only [List.length_cons, List.length_nil] at this ⊢ <;> omega
          | found s sos => simp
          | referral c ns => simp
          | noRecords sos => simp
          | nxDomain => simp
          | wrongZone => simp

/-- **loop detection**: a CNAME whose target was an owner earlier in the chain (the QNAME
    included) ends the chain in failure — SERVFAIL with empty sections and AA clear -/
theorem C05_loop_servfail (sz : SZone) (qt k : Nat) (visited : List NameL.Name) (owner : NameL.Name) (cn : Rrset)
    (rd : List UInt8) (rest : List (List UInt8)) (target : NameL.Name)
    (hrd : cn.rdatas = rd :: rest) (ht : exactName rd = some target) (hv : visited.contains target = true) :
    chase sz qt (k + 1) visited owner cn = ([], .fail) ∧ Spec.Resolve.finish sz qt [] .fail = servfail := by
  refine ⟨?_, rfl⟩
  rw [chase, hrd]
  simp only [ht, hv, if_true]

/-- **the declarative reading of the chain**: what `chase` returns (when it does not fail) is a
    chain in the sense of the inductive relation `Chain` (each link's target is exactly one name,
    was not visited before, and is looked up in the same zone; at most `k` links) -/
theorem C05_chase_sound (sz : SZone) (qt : Nat) (k : Nat) (visited : List NameL.Name) (owner : NameL.Name)
    (cn : Rrset) (ls : List RR) (e : End) (h : chase sz qt k visited owner cn = (ls, e)) (he : e ≠ .fail) :
    Chain sz qt visited owner cn k ls e := by
  induction k generalizing visited owner cn ls e with
  | zero => simp [chase] at h; exact absurd h.2.symm he
  | succ k ih =>
    rw [chase] at h
    cases hrd : cn.rdatas with
    | nil => rw [hrd] at h; cases h; exact absurd rfl he
    | cons rd rest =>
      rw [hrd] at h
      simp only [] at h
      cases ht : exactName rd with
      | none => rw [ht] at h; cases h; exact absurd rfl he
      | some target =>
        rw [ht] at h
        simp only [] at h
        by_cases hv : visited.contains target = true
        · rw [if_pos hv] at h; cases h; exact absurd rfl he
        · rw [if_neg hv] at h
          have hv' : visited.contains target = false := by simpa using hv
          cases hl : specLookup sz target qt ⟨false, false⟩ with
          | cname next sos =>
            rw [hl] at h
            simp only [] at h
            rcases hc : chase sz qt k (target :: visited) target next with ⟨ls', e'⟩
            rw [hc] at h
            by_cases hf : e' = .fail
            · subst hf; cases h; exact absurd rfl he
            · have h' : ((⟨owner, CNAME, sz.cls, cn.ttl, rd⟩ : RR) :: ls', e') = (ls, e) := by
                cases e' <;> first | exact absurd rfl hf | exact h
              cases h'
              exact Chain.link hrd ht hv' hl (ih _ _ _ _ _ hc hf)
          | found s sos =>
            rw [hl] at h; cases h
            exact Chain.last hrd ht hv' hl rfl
          | referral c ns =>
            rw [hl] at h; cases h
            exact Chain.last hrd ht hv' hl rfl
          | noRecords sos =>
            rw [hl] at h; cases h
            exact Chain.last hrd ht hv' hl rfl
          | nxDomain =>
            rw [hl] at h; cases h
            exact Chain.last hrd ht hv' hl rfl
          | wrongZone =>
            rw [hl] at h; cases h
            exact Chain.last hrd ht hv' hl rfl

/-! ### non-vacuity: a concrete zone, evaluated through the byte-exact model and the spec

  zone `z.`: SOA with TTL 60 and MINIMUM 3600 (the witness of D04), `a.z CNAME b.z`, `b.z A`. -/

def oct : Eqv := fun _ _ a b => a == b
def lz : NameL.Label := [122]
def la : NameL.Label := [97]
def lb : NameL.Label := [98]
def soaRd : List UInt8 := [1,97,1,122,0, 1,98,1,122,0, 0,0,0,1, 0,0,0,2, 0,0,0,3, 0,0,0,4, 0,0,14,16]
def exRecs : List Rec :=
  [⟨[lz], 6, 1, 60, soaRd⟩, ⟨[la, lz], 5, 1, 300, [1,98,1,122,0]⟩, ⟨[lb, lz], 1, 1, 30, [192,0,2,1]⟩]
def exZone : Zone.Zone := Zone.build oct (Zone.new [lz] 1 .narrow) exRecs
def exSpec : SZone := specBuild oct ⟨[lz], 1, .narrow, []⟩ exRecs
/-- a 512-octet UDP writer holding the question `x.z A` -/
def w0 : Writer.State :=
  match Writer.new (Array.replicate 512 0) 512 with
  | .ok w => (Writer.addQuestion ⟨[[120], lz]⟩ 1 1 w).2
  | _ => default

/-- the hypotheses of the main theorem hold for a concrete run … -/
example : Folded [lz] ∧ [lz] <:+ fold ⟨[[120], lz]⟩ := ⟨by unfold Folded; decide, ⟨[[120]], by decide⟩⟩
example : NoCapErr (handleNonAxfrQueryL exZone ⟨[[120], lz]⟩ 1 .udp ⟨w0, []⟩).2.log := by
  intro e he
  have : (handleNonAxfrQueryL exZone ⟨[[120], lz]⟩ 1 .udp ⟨w0, []⟩).2.log
      = [.rcode 3, .aa true, .add ⟨.authority, ⟨[lz]⟩, 6, 1, 60, [soaRd], false, .ok ()⟩] := by decide +kernel
  rw [this] at he
  simp only [List.mem_cons, List.not_mem_nil, or_false] at he
  rcases he with h | h | h <;> subst h <;> simp
/-- … and its conclusion is the D04 witness answered correctly: NXDOMAIN, AA, the SOA with TTL
    60 = min(60, 3600) in the authority section — by the model and by the specification -/
example : view (handleNonAxfrQueryL exZone ⟨[[120], lz]⟩ 1 .udp ⟨w0, []⟩).2.log
    = { rcode := 3, aa := true, tc := false, answer := [], authority := [⟨[lz], 6, 1, 60, soaRd⟩], additional := [] } := by
  decide +kernel
example : specResolve exSpec [[120], lz] 1 = ⟨3, true, [], [⟨[lz], 6, 1, 60, soaRd⟩], [], []⟩ := by decide +kernel
/-- a CNAME chain of one link ending in data -/
example : specResolve exSpec [la, lz] 1
    = ⟨0, true, [⟨[la, lz], 5, 1, 300, [1,98,1,122,0]⟩, ⟨[lb, lz], 1, 1, 30, [192,0,2,1]⟩], [], [], []⟩ := by
  decide +kernel
example : view (handleNonAxfrQueryL exZone ⟨[la, lz]⟩ 1 .tcp ⟨w0, []⟩).2.log
    = View.ofResolution (specResolve exSpec [la, lz] 1) := by decide +kernel
/-- a loop: `a.z CNAME a.z` is SERVFAIL with empty sections and AA clear -/
example : specResolve (specBuild oct ⟨[lz], 1, .narrow, []⟩ [⟨[la, lz], 5, 1, 300, [1,97,1,122,0]⟩]) [la, lz] 1
    = servfail := by decide +kernel

/-! ### the writer hypothesis discharged

  `WriterRdataFaithful` is a theorem about the writer model (`QV.ServerAnswer.writerRdataFaithful`,
  lean/QV/Proofs/WriterFaithful.lean): acceptance by `add_*_rr(set)` ⟺ the RDATA splits into the
  components of its type (`QV.Writer.addRrOp_rdata`, `addRrsetOp_rdata`), and the implementation's
  component table is the specification's layout table up to the last name (`shape_table`). -/

/-- **C05, no assumption on the writer** -/
theorem C05_answer
    (eqv : Eqv) (apex : NameL.Name) (cls : Nat) (glue : GluePolicy) (rs : List Rec)
    (qname : WName) (qtype : Nat) (tr : Transport) (w : Writer.State)
    (ha : Folded apex) (hq : apex <:+ fold qname)
    (hn : NoCapErr (handleNonAxfrQueryL (build eqv (Zone.new apex cls glue) rs) qname qtype tr ⟨w, []⟩).2.log) :
    (handleNonAxfrQueryL (build eqv (Zone.new apex cls glue) rs) qname qtype tr ⟨w, []⟩).1 = .ok () ∧
    view (handleNonAxfrQueryL (build eqv (Zone.new apex cls glue) rs) qname qtype tr ⟨w, []⟩).2.log
      = View.ofResolution (specResolve (specBuild eqv ⟨apex, cls, glue, []⟩ rs) (fold qname) qtype) :=
  C05_answer_partial writerRdataFaithful eqv apex cls glue rs qname qtype tr w ha hq hn

/-- the model's negative answer, no assumption on the writer -/
theorem C05_negative_soa {z : Zone.Zone} {sz : SZone} (hR : Rel z sz) (ha : Folded sz.apex) (ps : PS) :
    ∃ evs, (addNegativeCachingSoa z ps).2.log = ps.log ++ evs ∧
      (NoCapErr evs →
        match negativeS sz with
        | some d => (addNegativeCachingSoa z ps).1 = .ok () ∧ ∀ v, evs.foldl View.step v = d.apply v
        | none => (addNegativeCachingSoa z ps).1 = .err .servFail) :=
  C05_model_negative_soa writerRdataFaithful hR ha ps

/-- the specification's `renderable` is exactly the writer's acceptance condition -/
theorem C05_renderable_is_writer_acceptance (c t : Nat) (rd : List UInt8) :
    renderable c t rd = rdataOK c t rd := renderable_eq_rdataOK c t rd

/-! ### C05 at full strength: only `Truncation` is excluded

  The other ways a writer call can go wrong are unreachable from the state in which `handle_query`
  is entered (lean/QV/Proofs/ServerAnswerCap.lean):
  * `OutOfOrder` — the answer phase adds answer, then authority, then additional records: the
    writer's section never lies beyond that of the next call (`CapJ`, section ranks);
  * `CountOverflow` — every accepted record occupies at least 10 octets (`nice_addRr`) below a
    limit of at most 65 535 octets, so no section count exceeds 6 555 (`count_small`);
  * panics — C01 (`handleNonAxfrQueryL_safe`, the hint contract of every call) shows the handler
    does not panic, and a panic recorded in the log is a panic of the handler (`CapJ`);
  * every other `writer::Error` — `add_*_rr(set)` fails only with `Truncation` or `InvalidRdata`
    once the two above are excluded (`Nice`). -/

/-- a log without `Truncation` is a log without any capacity error -/
theorem C05_only_truncation_matters
    (eqv : Eqv) (apex : NameL.Name) (cls : Nat) (glue : GluePolicy) (rs : List Rec)
    (qname : WName) (qtype : Nat) (tr : Transport) (w : Writer.State)
    (hawf : (unfold apex).WF) (hqwf : qname.WF) (hq : apex <:+ fold qname) (hw : QueryReady w qname)
    (hnt : NoTruncation (handleNonAxfrQueryL (build eqv (Zone.new apex cls glue) rs) qname qtype tr ⟨w, []⟩).2.log) :
    NoCapErr (handleNonAxfrQueryL (build eqv (Zone.new apex cls glue) rs) qname qtype tr ⟨w, []⟩).2.log := by
  have hR := Rel.reachable eqv apex cls glue rs
  have hap : (build eqv (Zone.new apex cls glue) rs).apex = apex := by
    rw [hR.apex]; exact (specBuild_fields eqv _ rs).1
  have hz : ServerSafety.ZoneOK (build eqv (Zone.new apex cls glue) rs) :=
    ⟨by rw [hap]; exact hawf, ServerSafety.build_nodeOK eqv apex cls glue rs⟩
  exact noCapErr_of_noTruncation _ hz qname hqwf qtype tr (by rw [hap]; exact hq) w hw hnt

/-- **C05 holds at full strength.** -/
theorem C05 : C05_full := by
  intro eqv apex cls glue rs qname qtype tr w ha hawf hqwf hq hw hnt
  exact C05_answer eqv apex cls glue rs qname qtype tr w ha hq
    (C05_only_truncation_matters eqv apex cls glue rs qname qtype tr w hawf hqwf hq hw hnt)

/-! ### non-vacuity of the entry state: `Writer::new` + `add_question` give `QueryReady` -/

/-- `QueryReady` is what `handle_message` establishes: a fresh writer with a limit ≤ 65 535 … -/
theorem C05_entry_state_new (buf : Bytes) (limit : Nat) (hl : limit ≤ 65535) (s : Writer.State)
    (h : Writer.new buf limit = .ok s) : PreQuestion s := preQuestion_new buf limit hl s h

/-- … kept by the header setters and (after the question) by every call of the scan phase … -/
theorem C05_entry_state_scan (c : ServerSafety.Call) (s : Writer.State) (qn : WName) (h : QueryReady s qn)
    (hp : c.Pre Writer.Den s) (hc : ScanCall c) : QueryReady (c.run s).2 qn := queryReady_call c s qn h hp hc

/-- … and reached by `add_question` -/
theorem C05_entry_state_question (qn : WName) (qt qc : Nat) (hwf : qn.WF) (s s' : Writer.State)
    (h : PreQuestion s) (hok : Writer.addQuestion qn qt qc s = (.ok (), s')) : QueryReady s' qn :=
  queryReady_addQuestion qn qt qc hwf s s' h hok

/-- the writer state of the examples above is such a state -/
example : QueryReady w0 ⟨[[120], lz]⟩ := by
  have hq : (match Writer.new (Array.replicate 512 0) 512 with
      | .ok w => (Writer.addQuestion ⟨[[120], lz]⟩ 1 1 w).1
      | _ => .panic) = .ok () := by decide +kernel
  rcases hn : Writer.new (Array.replicate 512 0) 512 with wn | e | _
  · rw [hn] at hq
    simp only [] at hq
    have hw : w0 = (Writer.addQuestion ⟨[[120], lz]⟩ 1 1 wn).2 := by unfold w0; rw [hn]
    refine queryReady_addQuestion ⟨[[120], lz]⟩ 1 1 (by decide) wn w0
      (preQuestion_new _ 512 (by decide) wn hn) ?_
    rw [hw, ← hq]
  · rw [hn] at hq; cases hq
  · rw [hn] at hq; cases hq

/-! ### the composition: what `handle_message` hands to `handle_query` is `QueryReady`

  `QV.ServerScan.scanAndDispatch_answer` (the scan's refinement theorem, C08/C09) shows that a
  request that reaches a loaded zone (no TSIG record) runs `handle_query` on the explicit writer
  state `arSt (qSt (hdrSt (ServerScan.w0 bufLen (lim0 tr)) id opcode rd) (some q)) tr payload e l`:
  `Writer::new(buf, 512 | 65 535)`, `set_id`, `set_qr`, `set_opcode`, `set_rd`, `add_question`, and —
  when the scan met an OPT record — `set_edns(payload)` and over UDP `set_limit(l)` with
  `512 ≤ l ≤ max 512 payload` (`specTail_props`). -/

open QV.ServerScan in
/-- that state satisfies `QueryReady` (server payload size a 16-bit value ≥ 512, as the API enforces) -/
theorem C05_entry_state_handle_message (bufLen : Nat) (tr : Transport) (payload id opcode : Nat) (rd : Bool)
    (hbuf : minBuf tr payload ≤ bufLen) (hpay : 512 ≤ payload) (hpay16 : payload ≤ 65535)
    (q : Spec.DQuestion) (qn : WName) (hp : WName.parse q.qname = some (qn, [])) (hw : qn.wire = q.qname)
    (hl : q.qname.length ≤ 255) (hqwf : qn.WF) (e : Bool) (l : Nat) (hl1 : 512 ≤ l) (hl2 : l ≤ max 512 payload) :
    QueryReady (arSt (qSt (hdrSt (ServerScan.w0 bufLen (lim0 tr)) id opcode rd) (some q)) tr payload e l) qn :=
  queryReady_scan_state bufLen tr payload id opcode rd hbuf hpay hpay16 q qn hp hw hl hqwf e l hl1 hl2

open QV.ServerScan in
/-- **C05 on the state the scan hands over**: no hypothesis on the writer is left -/
theorem C05_after_scan
    (eqv : Eqv) (apex : NameL.Name) (cls : Nat) (glue : GluePolicy) (rs : List Rec) (qtype : Nat) (tr : Transport)
    (bufLen payload id opcode : Nat) (rd : Bool)
    (hbuf : minBuf tr payload ≤ bufLen) (hpay : 512 ≤ payload) (hpay16 : payload ≤ 65535)
    (q : Spec.DQuestion) (qn : WName) (hp : WName.parse q.qname = some (qn, [])) (hw : qn.wire = q.qname)
    (hl : q.qname.length ≤ 255) (hqwf : qn.WF) (e : Bool) (l : Nat) (hl1 : 512 ≤ l) (hl2 : l ≤ max 512 payload)
    (ha : Folded apex) (hawf : (unfold apex).WF) (hq : apex <:+ fold qn)
    (hnt : NoTruncation (handleNonAxfrQueryL (build eqv (Zone.new apex cls glue) rs) qn qtype tr
      ⟨arSt (qSt (hdrSt (ServerScan.w0 bufLen (lim0 tr)) id opcode rd) (some q)) tr payload e l, []⟩).2.log) :
    (handleNonAxfrQueryL (build eqv (Zone.new apex cls glue) rs) qn qtype tr
      ⟨arSt (qSt (hdrSt (ServerScan.w0 bufLen (lim0 tr)) id opcode rd) (some q)) tr payload e l, []⟩).1 = .ok () ∧
    view (handleNonAxfrQueryL (build eqv (Zone.new apex cls glue) rs) qn qtype tr
      ⟨arSt (qSt (hdrSt (ServerScan.w0 bufLen (lim0 tr)) id opcode rd) (some q)) tr payload e l, []⟩).2.log
      = View.ofResolution (specResolve (specBuild eqv ⟨apex, cls, glue, []⟩ rs) (fold qn) qtype) :=
  C05 eqv apex cls glue rs qn qtype tr _ ha hawf hqwf hq
    (C05_entry_state_handle_message bufLen tr payload id opcode rd hbuf hpay hpay16 q qn hp hw hl hqwf e l hl1 hl2) hnt

open QV.ServerScan QV.ServerTsig in
/-- **C05 on the state the TSIG continuation hands over** (authenticated signed requests):
    `QV.ServerScan.tsigProcess_some_state` shows that after a successful `verify_request` the writer
    is `withTsig (stRcode 0 S0) (.response alg requestMac key) (prepOf keyName tsig now 0)` with
    `TsigFits`, `S0` being the scan state of `C05_after_scan`; that state is `QueryReady`
    (`queryReady_signed_state`), so `C05` applies with no hypothesis on the writer left -/
theorem C05_after_scan_signed
    (eqv : Eqv) (apex : NameL.Name) (cls : Nat) (glue : GluePolicy) (rs : List Rec) (qtype : Nat) (tr : Transport)
    (bufLen payload id opcode : Nat) (rd : Bool)
    (hbuf : minBuf tr payload ≤ bufLen) (hpay : 512 ≤ payload) (hpay16 : payload ≤ 65535)
    (q : Spec.DQuestion) (qn : WName) (hp : WName.parse q.qname = some (qn, [])) (hw : qn.wire = q.qname)
    (hl : q.qname.length ≤ 255) (hqwf : qn.WF) (e : Bool) (l : Nat) (hl1 : 512 ≤ l) (hl2 : l ≤ max 512 payload)
    (alg : Hmac.Alg) (mac secret : List UInt8) (t : Tsig.ReadTsigRr) (kn : WName) (nowT : Tsig.TimeSigned)
    (hkn : WName.parse t.keyName = some (kn, []))
    (hfit : TsigFits (stRcode 0 (arSt (qSt (hdrSt (ServerScan.w0 bufLen (lim0 tr)) id opcode rd) (some q)) tr payload e l))
      (.response (toWriterAlg alg) mac secret) (prepOf kn t nowT 0))
    (ha : Folded apex) (hawf : (unfold apex).WF) (hq : apex <:+ fold qn)
    (hnt : NoTruncation (handleNonAxfrQueryL (build eqv (Zone.new apex cls glue) rs) qn qtype tr
      ⟨withTsig (stRcode 0 (arSt (qSt (hdrSt (ServerScan.w0 bufLen (lim0 tr)) id opcode rd) (some q)) tr payload e l))
        (.response (toWriterAlg alg) mac secret) (prepOf kn t nowT 0), []⟩).2.log) :
    (handleNonAxfrQueryL (build eqv (Zone.new apex cls glue) rs) qn qtype tr
      ⟨withTsig (stRcode 0 (arSt (qSt (hdrSt (ServerScan.w0 bufLen (lim0 tr)) id opcode rd) (some q)) tr payload e l))
        (.response (toWriterAlg alg) mac secret) (prepOf kn t nowT 0), []⟩).1 = .ok () ∧
    view (handleNonAxfrQueryL (build eqv (Zone.new apex cls glue) rs) qn qtype tr
      ⟨withTsig (stRcode 0 (arSt (qSt (hdrSt (ServerScan.w0 bufLen (lim0 tr)) id opcode rd) (some q)) tr payload e l))
        (.response (toWriterAlg alg) mac secret) (prepOf kn t nowT 0), []⟩).2.log
      = View.ofResolution (specResolve (specBuild eqv ⟨apex, cls, glue, []⟩ rs) (fold qn) qtype) :=
  C05 eqv apex cls glue rs qn qtype tr _ ha hawf hqwf hq
    (queryReady_signed_state bufLen tr payload id opcode rd hbuf hpay hpay16 q qn hp hw hl hqwf e l hl1 hl2
      alg mac secret t kn nowT hkn hfit) hnt

/-! ### what can enter the additional section (used by C09)

  Every record the answering phase adds to the *additional* section is an address record: the only
  `add_additional_rrset` calls of query.rs are those of `add_additional_addresses`, with type A, or
  AAAA in class IN. This holds for every zone tree (API-built or not), every query and every writer
  behaviour — so no OPT- or TSIG-typed record stored in a zone can reach the additional section
  (such a record can only be *answered*: it then sits in the answer section). -/

/-- on the calls: every logged `add_additional_*` call of the answering logic has type A or AAAA -/
theorem C09_answer_phase_additional_calls (z : Zone.Zone) (qname : WName) (qtype : Nat) (ps : PS) :
    ∃ evs, (inner z qname qtype ps).2.log = ps.log ++ evs ∧
      ∀ a, Ev.add a ∈ evs → a.sec = .additional → a.ty = 1 ∨ a.ty = 28 := by
  obtain ⟨evs, hl, hP, _⟩ := LogsT.inner z qname qtype ps
  exact ⟨evs, hl, fun a ha hs => hP _ ha a rfl hs⟩

/-- **on the view**: the additional section that `handle_non_axfr_query` builds holds only records
    of type 1 (A) or 28 (AAAA) -/
theorem C09_answer_phase_additional_is_address_only (z : Zone.Zone) (qname : WName) (qtype : Nat) (tr : Transport)
    (w : Writer.State) (hnb : NoBad (handleNonAxfrQueryL z qname qtype tr ⟨w, []⟩).2.log) :
    ∀ r ∈ (view (handleNonAxfrQueryL z qname qtype tr ⟨w, []⟩).2.log).additional, r.rtype = 1 ∨ r.rtype = 28 := by
  obtain ⟨hlog, _⟩ := handle_log z qname qtype tr ⟨w, []⟩ hnb
  obtain ⟨evs, hl, hP, _⟩ := LogsT.inner z qname qtype ⟨w, []⟩
  simp only [List.nil_append] at hl
  apply view_additional_types
  rw [hlog, hl]
  intro e he
  rcases List.mem_append.mp he with h | h
  · exact hP e h
  · -- the epilogue logs header operations only
    intro a ha
    subst ha
    rcases hr : (inner z qname qtype ⟨w, []⟩).1 with u | x | _
    · rw [hr] at h; simp [tailEvs] at h
    · rw [hr] at h
      cases x with
      | servFail => simp [tailEvs] at h
      | truncation => simp only [tailEvs] at h; split at h <;> simp at h
    · rw [hr] at h; simp [tailEvs] at h

/-! ### the ghost log is what the writer holds (the tie to C12's content layout) -/

open QV.ServerScan QV.ServerContent in
/-- **the log is the content**: run on a `Good` writer (the writer's invariant, a limit a DNS message
    can have, content layout `b0`) in which `Hint::Qname` is valid for the queried name,
    `handle_non_axfr_query` leaves a `Good` writer whose layout is `b0` plus the records of the logged
    `add_*` calls that succeeded (`bodyOf`, in call order, by section; reset where `clear_rrs` ran);
    the questions are untouched; and if `b0` held no records, the three record sections of that
    layout are — record for record — those of the `view` of the log, the abstraction `C05` speaks
    about. Every `add_*` call is made with a well-formed owner and a valid hint (C01's induction),
    which is what the writer's per-call content lemmas need. -/
theorem C05_log_is_content (z : Zone.Zone) (hz : ServerSafety.ZoneOK z) (qname : WName) (hq : qname.WF)
    (qtype : Nat) (tr : Transport) (hsub : z.apex <:+ fold qname) (w : Writer.State) (b0 : Writer.Body)
    (hG : Good w b0) (hh : ServerSafety.HintOK Writer.Den w .qname qname) :
    Good (handleNonAxfrQueryL z qname qtype tr ⟨w, []⟩).2.w
      (bodyOf b0 (handleNonAxfrQueryL z qname qtype tr ⟨w, []⟩).2.log) ∧
    (bodyOf b0 (handleNonAxfrQueryL z qname qtype tr ⟨w, []⟩).2.log).qs = b0.qs ∧
    (b0.an = [] ∧ b0.ns = [] ∧ b0.ar = [] →
      BodyView (bodyOf b0 (handleNonAxfrQueryL z qname qtype tr ⟨w, []⟩).2.log)
        (view (handleNonAxfrQueryL z qname qtype tr ⟨w, []⟩).2.log)) :=
  ⟨good_handleNonAxfrQueryL z hz qname hq qtype tr hsub w b0 hG hh, bodyOf_qs _ _, fun hb => bodyOf_view b0 hb _⟩

end QV.C05
