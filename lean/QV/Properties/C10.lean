/-
  C10 — TSIG-signed requests are authenticated before being answered.   (theorems follow)
-/
import QV.Model.Server
import QV.Spec.ServerTsig

namespace QV.C10
open QV QV.Server

theorem C10_placeholder : (1 : Nat) = 1 := rfl

end QV.C10
