/-
  C10 — TSIG-signed requests are authenticated before being answered.

  "A request signed with a configured key and algorithm and a time within the fudge window is
   answered normally, and the response carries a TSIG record whose MAC an independent RFC 8945
   implementation verifies against the request MAC.  Otherwise no answer data is returned: a wrong
   MAC gives NOTAUTH with error BADSIG and an empty MAC, an unknown key or algorithm gives NOTAUTH
   with BADKEY and an empty MAC, a MAC outside the allowed length gives FORMERR, and a stale or
   future time gives NOTAUTH with BADTIME in a response that is itself verifiably signed."

  Code: src/server/mod.rs (`handle_message_with_context`, TSIG arm; `find_tsig_algorithm_or_write_error`,
  `find_tsig_key_or_write_error`, `verify_tsig_and_write_tsig_rr`, `set_tsig_or_truncate`),
  src/message/tsig.rs (`verify_request`, `PreparedTsigRr::new_from_read`, `sign_response`),
  src/message/writer.rs (`set_tsig`, `finish_with_mac`).
  Model: `QV.Server.{tsigProcess, tsigBadKey, tsigVerifyAndWrite, handleTsig, setTsigOrTruncate,
  scanAr, handleWithContext, macFnWith}` (Model/Server.lean), byte-exact and tied to the code by the
  correspondence check of group `srvtsig` (requests signed by an independent signer).
  Spec: `QV.Spec.ServerTsig` (decision table `specTsigOutcome`, response audit) over `QV.Spec.Tsig`.

  What is proved here, for ALL key sets, requests, clocks and writer states (no bounds):

   (a) `C10_decision_table`      the effect of the TSIG step on the writer — RCODE, TSIG mode
        (unsigned / signed response), the prepared RR (error field, time signed, other data source,
        fudge 300, original ID, key name) — as a function of (algorithm known, key configured with that
        algorithm, outcome of `verify_request`), in exactly the precedence
        BADKEY(alg) > BADKEY(key) > FORMERR(MAC size) > BADSIG > BADTIME > authenticated;
   (b) `C10_authenticated_iff`   using C11's characterisation of `verify_request`: the step lets the
        scan go on  ↔  key configured ∧ its algorithm is the one named ∧ MAC size allowed ∧
        MAC = truncated HMAC of the RFC 8945 §4.3 digest input ∧ |now − signed| ≤ fudge (∧ the RR fits);
   (c) `C10_scan_then_dispatch`, `C10_no_records_unless_scan_completes`, `C10_scan_writes_no_record`,
        `C10_completed_scan_tsig_is_authenticated`: `handle_message_with_context` is the scan phase
        followed by the opcode dispatch; the scan phase never writes a record; the dispatch (the only
        place where answer / authority data is produced) runs only if the scan completes, and then
        any TSIG recorded is that of a request for which `verify_request` succeeded under a
        configured key of the named algorithm;
   (d) `C10_response_mac_eq_rfc` the MAC the writer puts into a signed response is the HMAC, under
        the request's key, of the RFC 8945 §4.3 digest input in *response* mode (request MAC with its
        length, message with original ID and ARCOUNT − 1, TSIG variables) over the octets that
        precede the TSIG RR;
   (e) `C10_set_tsig_or_truncate_total`, `C10_truncates_when_tsig_does_not_fit` (the repair of D03):
        never a panic; when the RR does not fit: TC ∧ NOERROR ∧ no TSIG, nothing else touched;
        `C10_tcp_tsig_always_fits`: over TCP, from the writer `handle_message` sets up, the
        truncation branch is never taken (question ≤ 12+255+6, OPT 11, TSIG RR ≤ 255+255+64).

   (f) **lifted to the response octets** (`Proofs/FinishTsig`: `Writer::finish` read backwards in every
        compression mode; `Proofs/ServerSigned`):
        `C10_authenticated_nodata_octets` — an authenticated request that gets a no-data verdict is
        answered with header ++ question ++ OPT (iff reached) ++ TSIG record, the TSIG record last
        (TYPE 250, CLASS ANY, TTL 0, RDATA = algorithm ‖ time ‖ fudge 300 ‖ MAC ‖ original ID ‖ error 0 ‖
        no other data), its MAC being — for a lower-case key name — the HMAC under the request's key of
        the RFC 8945 §4.3 response digest input over exactly the octets before it;
        `C10_authenticated_answer_octets` — the same for answers from a loaded zone (whatever the
        zone answers): the response ends with that TSIG record, MAC over everything before it;
        `C10_error_response_octets` — a request that is not authenticated gets header(NOTAUTH, or
        FORMERR for a MAC of a size not allowed) ++ question ++ OPT ++ TSIG record and nothing else: for
        BADKEY and BADSIG the record is unsigned (MAC size 0), for BADTIME it is signed in response
        mode and carries the server time as other data.

   (g) **on the independent decoding of the response** (`Proofs/ServerSignedDecode`: the final writer of
        these responses is reached from `Writer::new` by public calls, so C12's `finish_decodes_content`
        applies): `C10_decoded_authenticated_nodata`, `C10_decoded_error` — every decoding has empty
        answer / authority sections, and the additional section is OPT (iff reached) then, last, a
        record of TYPE 250, CLASS ANY, TTL 0, owner = key name up to case, RDATA = `tsigRdata` of the
        decision table's prepared RR octet for octet (algorithm, time signed, fudge 300, MAC, original
        ID, error, other data — the server time iff BADTIME), with the MAC of (f).

  (h) **`C10_decoded_table`** — (g), `C10_decoded_authenticated_answer` and `C10_decoded_tsig_does_not_fit`
      in one theorem, for one and the same TSIG record `t`, message-without-TSIG `mw` and reader `r'`
      (`ServerContent.TsigRun`, Proofs/ServerSignedTable.lean): per row of the decision table — rejected
      and the reply fits; authenticated, no-data verdict; authenticated, answered by a loaded zone; reply
      does not fit — the decoded TSIG record of the response (or its absence).

      `C10_rows_exhaustive`: the four rows are exhaustive and mutually exclusive — a run of
      `handle_message` on a request whose scan reaches a TSIG record, if it yields a response, falls
      into exactly one of `RowRejected` / `RowAuthNoData` / `RowAuthAnswer` / `RowNoFit`
      (`ServerContent.tsigProcess_rows`: every non-panicking run of the TSIG step has a key name that
      parses and is either rejected by `tsigStopReply` or authenticated; `fromName_parses`: a name the
      algorithm table knows is a well-formed wire name); `C10_decoded_table_of_run` gives the decoded
      response of that row for the same `t`, `mw`, `r'`.
  (i) towards `C10_full`, per clause of the executable audit `Spec.ServerTsig.audit`:
      `C10_audit_scan_agrees` (the audit's scan and the model's agree on "a response is due" and on
      "a TSIG record is reached", whatever the catalogs), `C10_audit_pre_tsig` (classes "no-response"
      and "pre-tsig": the audit returns no tag — a response to a request without an acceptable TSIG
      carries no record of type 250), `C10_audit_reaches_decoding` (tags `panic`, `no-response`,
      `undecodable` of `auditResponse` never arise: C01, C03, and the final writer is `Good`).

      `C10_decoded_fields_of_run` (rows 1 and 2, decoded field by field with the specification's own
      RFC 8945 §4.2 reader `Spec.Tsig.parseRdata` — round trip `ServerContent.parseRdata_tsigRdata` —
      and with the header: RCODE of the table / verdict, AA and TC clear, fudge 300, original ID, error,
      time signed, other data = server time iff BADTIME, MAC): the decoded facts behind the audit tags
      `rcode-*`, `tc-in-error`, `aa-in-error`, `fudge-*`, `original-id`, `tsig-error-*`, `other-data`,
      `badtime-other`, `tsig-class-ttl`, `mac-not-empty`; what separates them from the audit's clauses
      is (1a)–(1c) below (the audit's own view of the request).

  `C10_full` (below) is the end-to-end statement "the executable C10 audit finds nothing wrong with
  the response the model produces, for every configuration, request and clock".
  Recorded amendment of the statement: `C10_full` now carries what the library API guarantees —
  `CfgWF cfg` (catalog entries filed under their apex, non-empty RRsets), `512 ≤ cfg.payload ≤ 65535`
  (the payload size is a `u16` ≥ 512 in the API), `req.size ≤ usize::MAX` — as `C09_full` does.
  Recorded correction of the statement: `C10_full` also carries `KeysOK cfg.keys` — every configured
  key name is a well-formed wire name in lower case, the API's `LowercaseName` (the comment on
  `Server.Key.name`).  Without it the statement is false: the model looks a key up by comparing
  `k.name` octet for octet with the lower-cased key name of the request, the audit's `findKey` compares
  labels ignoring case; a key configured as "Key." is never found by the model (BADKEY) but is found by
  the audit (`authenticated`), and the audit tags the response.  No hypothesis on the *request's* key
  name is needed: the model lower-cases it (`ReadTsigRr::try_from`), so the prepared RR's key name is
  in lower case and C11's digest equation applies (`C10_response_mac_eq_rfc`).
  (m) the audit, row by row.  `AuditRun` packages what the walk through `auditResponse` starts from
      (`auditRun_exists`: every request whose scan reaches a TSIG record has one; `audit_eq_of_run`:
      its audit is `auditResponse` on the model's view).  `C10_audit_nofit`: row 4 (the reply TSIG does
      not fit), whatever the outcome — the audit returns no tag.  `C10_audit_rejected`: row 1 (rejected, the reply
      fits: BADKEY / FORMERR / BADSIG unsigned, BADTIME signed) — the audit returns no tag
      (`Proofs/AuditDecoded.decoded_nodata_tsig`: the no-data response with its TSIG record decoded;
      `labelsOf_of_lower`: the decoded owner has the key name's labels up to case; `stopReply_cases`: the
      reply mode per outcome; `Proofs/FinishTsigPos.finish_tsig_pos` / `tsig_prefix_of_good`: the decoded
      TSIG record starts exactly where the MAC input ends, for every valid writer — answers included;
      `Proofs/AuditMac.response_mac_audit`: (1e), the MAC is the audit's `specMac`).
      `C10_audit_authenticated_nodata`: row 2 (authenticated, no-data verdict) — every clause but
      "answered normally" holds (`AuditWalk.auditResponse_authenticated`, `AnsweredNormally`), that
      clause being a hypothesis; `C10_audit_row2`: and with `plain` the response to the stripped
      request that clause holds too, so row 2 returns no tag — (1f) for the no-data verdicts
      (`Proofs/AuditPlain`: `specScanWith_lookup_indep` — question, EDNS state, UDP limit do not depend
      on the catalog, the verdict is a pre-table verdict or the table's at the same position;
      `endVerdict_transfer` — the guard's verdict equation, stated for the audit's catalog, holds for
      the server's; `plain_nodata_decoded` — the unsigned no-data response decoded: RCODE, AA, TC, no
      answer / authority records; `plain_nodata_of_comparable`).

  Recorded correction of the *oracle* (`Spec.ServerTsig.audit`): the clause "answered normally"
  compares with the response to `stripTsigRr req`, which decrements ARCOUNT (octets 10–11).  The name
  decoder follows compression pointers to any earlier offset, the header included, so ARCOUNT can be
  part of a name the server decodes, and stripping the TSIG RR then changes what is asked:
    · QNAME = `C0 0B` (pointer to octet 11), ARCOUNT 1 (the TSIG RR): signed, octet 11 = 1 and the
      QNAME is the label `C0`, then an 11-octet label (QTYPE, QCLASS and the first 7 octets of the TSIG
      owner, key name "abcdef."), then the root; stripped, octet 11 = 0 and the QNAME is the root.
      With a root zone loaded: NXDOMAIN signed, NOERROR plain — the old audit said
      `answer-header-differs`;
    · OPT owner = `C0 0B` with ARCOUNT 256 (octet 11 = 0: the root); stripped, ARCOUNT 255, octet 11 =
      `FF` is a pointer to nowhere: REFUSED signed, FORMERR plain.
  Neither is a server defect ("the same request without its TSIG RR" does not exist).  The audit now
  makes the comparison only under `plainComparable`: the scan of the stripped request has the same
  question, EDNS state and UDP limit and ends with the verdict the decision table gives after the TSIG
  RR (`postVerdict`); otherwise the clause is skipped, all others apply.  Both requests are in
  corpus/C10 (they pass; the implementation answers them as the model does).

  (n) the walk assembled: `C10_of_row3 : C10_row3 → C10_full` — requests that do not reach a TSIG
      record (`C10_audit_pre_tsig`), rows 1, 2 and 4 (`C10_audit_rejected`, `C10_audit_row2`,
      `C10_audit_nofit`) pass the audit and the rows are exhaustive (`C10_rows_exhaustive`), so
      `C10_full` holds as soon as row 3 does.

  (o) row 3 except the comparison: `C10_audit_authenticated_answer` — for an authenticated request that a
      loaded zone answers every clause of the audit holds except the second half of "answered normally"
      (hypothesis `hB`), i.e. (3a) is closed: the header view of the answering writer gives RCODE 0, 2
      or 3, never 9 (`ServerAnswer.view_handle_flags`, Proofs/ServerAnswerHdrLog: the answering logic logs
      only `set_aa` and `set_rcode(NXDOMAIN)`, never `set_tc` / `clear_rrs`; zone-generic), the
      extended-RCODE octet of the OPT is 0 (`ServerContent.ednsUp0_handleNonAxfrQueryL`), the reply fits
      (`tsigProcess_rows`), and the first half of "answered normally" holds — TC only over UDP and then
      without data (`signed_answer_facts_of_run`, `decoded_answer_tsig`).  `C10_row3_of_compare`:
      `C10_row3` follows from `C10_row3_compare`, the comparison with the plain response alone.
      Third recorded correction of the *oracle* (`Spec.ServerTsig.audit`): as first written, the clause
      "answered normally" compared the signed answer with the plain one whenever neither is truncated.
      That is stronger than what any writer with a reserved TSIG can do; under `plainComparable` the two
      runs start from the same scan state and differ only in room (`available` smaller by the reserved
      TSIG length R in the signed run).  Counter-examples (none a server defect):
        · F1, TCP, `answer-header-differs`: a *mandatory* record (answer RRset, NS, glue, negative SOA) that
          fits 65535 octets only without the reserved TSIG gets `Truncation` in the signed run — over
          TCP the epilogue is `clear_rrs`, AA clear, SERVFAIL, TC not set — and is sent in the plain
          run: d.tc = pd.tc = false, d.rcode = 2 ≠ 0 = pd.rcode.  (Over UDP the same sets TC, which the
          clause allows.)  Needs an answer of size in (65535 − R, 65535], e.g. ~250 TXT records.
        · F2, `additional-differs`: optional additional-section calls (`execute_allowing_truncation`) are
          dropped one by one and the loop goes on.  MX / NS / SRV RRset with two in-zone targets, address
          RRsets of sizes B and b, room left x (signed) and x + R (plain) with x < B ≤ x + R and
          x + R − B < b ≤ x (x = 150, R = 80, B = 160, b = 96): signed drops the first and keeps the
          second, plain keeps the first and drops the second — neither truncated, same RCODE / AA /
          answer / authority, but the signed additional section is not a sub-multiset of the plain one.
        · F3, `answer-header-differs`: an optional address RRset whose later record has unrenderable
          RDATA: the signed run runs out of room before reaching it (`Truncation`, optional ⇒ dropped,
          NOERROR), the plain run reaches it (`InvalidRdata` ⇒ SERVFAIL).
      The audit now makes the comparison only when, besides `plainComparable`, the plain response
      leaves room for the TSIG RR — `pb.size + (uncompressed TSIG RR) ≤ limit` (excludes F1 and F2: in F1
      the plain answer is within R of 65535, in F2 the plain run ends within R of the limit) — and not
      when the plain response alone is SERVFAIL (F3).  Otherwise the clause is skipped; the TC clause and
      all TSIG / MAC clauses still apply, and answers within R octets of the limit are audited by C04 /
      C05's own oracles.  On the quick corpus (24 752 cases, 5 118 authenticated) the room guard skips
      no comparison (measured with a probe tag), and the SERVFAIL guard fires only where the former audit
      would have tagged `answer-header-differs`, which that corpus never did.
      Towards it, (c) is done: `ServerContent.plain_answer_run` (Proofs/ServerSignedPlain.lean) — under
      `plainComparable`, when the table after the TSIG record says "a loaded zone answers", the request
      without its TSIG record is answered by `handle_query` on *the same scan state* as the signed
      request's pre-TSIG state (same ID, opcode, RD, question, EDNS state, UDP limit; `strip_header`),
      so the two runs differ exactly by `set_rcode(0)` + `set_tsig` (`signed_answer_state_of_run`).
      (a) is done at the model level: `ServerContent.signed_handler_eq_plain_allok` — if the plain run
      accepted every call and its result leaves room for the TSIG record (the audit's room guard) and
      ARCOUNT below its maximum, `handle_non_axfr_query` logs exactly the same operations in the signed
      run: same log, hence same view (RCODE, AA, TC, all three sections).  It rests on
      Proofs/ServerAnswerFields.lean (new: every writer operation of the answering phase commutes with
      changing `limit`, the TSIG slot and ARCOUNT + 1 — for every outcome, errors included; the one
      place ARCOUNT is read, the overflow check, under "the final count leaves room for one more":
      `Com`, `addRrsetOp_modS`, `comPF_inner`) and on C04's `inner_limit_independent`
      (`signed_run_eq_plain_run_allok`, `stRcode0_scanState`: `set_rcode(NOERROR)` is the identity on
      the scan state).
      (b) is done at the model level, modulo ONE named writer-level hypothesis:
      `ServerContent.signed_handler_eq_plain` (Proofs/ServerSignedPlain.lean) — under the guards of the
      comparison clause (neither view truncated; a plain SERVFAIL is a signed SERVFAIL; the plain
      result, when the answering logic succeeds, leaves room for the TSIG record and ARCOUNT below its
      maximum) the signed run of `handle_non_axfr_query` shows the same view as the plain run: RCODE, AA,
      TC and all three sections.  No all-calls-accepted hypothesis any more: the plain run may drop
      optional calls (then the signed run drops the same ones: same log), or fail (then both epilogues
      leave SERVFAIL, AA clear, no records: `view_handle_err`; a successful answering run never shows
      RCODE 2: `view_inner_ok`).  When the plain answering logic succeeds, the two final writers agree
      up to the room, the TSIG slot, ARCOUNT + 1 and the octets at and above the cursor.  It rests on
        · Proofs/ServerAnswerMono.lean (new): `MonoR` — every writer operation of the answering phase that
          is accepted, or rejected for a reason other than `Truncation`, has the same outcome and effect
          with more room (`monoR_addRrsetOp`, `monoR_addRrOp`); hence `addRrsetOp_trunc_down`: rejected
          with `Truncation` in the big room ⇒ `Truncation` (or a panic) in the small room.  No `CapPre`
          is needed: monotonicity covers every non-`Truncation` error;
        · Proofs/ServerAnswerTwoRunI.lean (new): the two-run induction over query.rs, localized at the
          real plain run: the judgement `SafeX` = C01's `SafeP` (so the writer's invariant `Writer.I` and
          the validity of every hint are at hand at each call — the same induction as
          Proofs/ServerQuery.lean, run once more) plus `MonoAt` (cursor / ARCOUNT grow, `available` fixed)
          plus `TwoAt`: if the run from a plain-run state succeeds, fits the signed room and leaves
          ARCOUNT below its maximum, then the run from any signed-side state `A` related to it
          (`Same A a0`, `lift R a0 = modS L T (plain state)`) that does not panic succeeds with the same
          result and log — dropped optional calls included — and the final states are related again
          (`inner_safeX`);
        · the named hypothesis `ServerContent.ScratchIndepI` (Proofs/ServerAnswerTwoRunI.lean), NOT proved:
            ∀ c u s t, Writer.I u → AnsPre c u → FieldsOnly u s → Same s t → s.hv = t.hv →
              (c.run t).1 = (c.run s).1 ∧ Same (c.run s).2 (c.run t).2 ∧ (c.run s).2.hv = (c.run t).2.hv
          — next to a state `u` that satisfies the writer's structural invariant and the call's
          precondition (well-formed owner, valid hint: `AnsPre`), a writer call of the answering phase
          (`set_aa`, `set_rcode`, `add_rr`, `add_rrset`) run on `s` (= `u` up to `limit`, `available`,
          the TSIG slot and ARCOUNT: `FieldsOnly`) and on any `t` that agrees with `s` on everything but
          the octets at and above the cursor has the same outcome and leaves two such states with equal
          hint vectors.  It is needed because `with_rollback` restores the cursor and the counts but not
          the octets: after a dropped optional call the two runs differ in the scratch area above the
          cursor; `compress_decision s.octets …` is the only reader of the octets and has to be shown to
          look only below the cursor (where `Writer.I` places every prior name and `HintOK` every hint).
          (An earlier form without the invariant, `ServerAnswer.ScratchIndep` in
          Proofs/ServerAnswerTwoRun.lean, is FALSE for states whose prior names or hints point at or
          above the cursor; it is kept only as the source of the pass and is used by nothing in C10.)
      The assembly is done too: `C10_row3_compare_of : ScratchIndepI → C10_row3_compare`, hence
      **`C10_full_of : ScratchIndepI → C10_full`** — `C10_full` is proved modulo exactly ONE named
      hypothesis, a fact about the writer alone (no server logic, no decoder left):
      (R1) `ServerContent.ScratchIndepI` (Proofs/ServerAnswerTwoRunI.lean, above) — next to an invariant
           state with a valid hint, a writer call of the answering phase does not read octets at or
           above the cursor.  `FieldsOnly u s` also says `s.cursor ≤ s.available ≤ s.octets.size` (the
           writer's size invariant for `s`; supplied at every use).  The writer side has the scan
           congruences (`compressDecision_congr`, `compressDecision_congr_gap`, `scratch_setAa`,
           `scratch_setRcode`: Proofs/WriterScratch.lean); what remains is threading `Same` through the
           writes of `add_rr` / `add_rrset`.
      (R2) CLOSED by the writer side: `ServerContent.decodeCongrT : DecodeCongrT`
           (Proofs/ServerDecodeCongr.lean) — the decoder congruence for two `Good` writers that agree
           below the cursor, with the extra hypothesis that the answer / authority records have 16-bit
           TYPEs (`DecodeCongr` without it is false of the model: a record of type 65536 + 2 is written
           opaque but decoded as type 2).  The typedness is discharged here from the log
           (`ServerAnswer.LogsY.inner`, Proofs/ServerAnswerTyped.lean: every `add_*` call of the
           answering logic has a 16-bit TYPE — constants, the QTYPE read from two octets, or, for ANY,
           the TYPE of a stored RRset) under a **fourth recorded amendment of `C10_full`**: the API
           hypothesis `ZonesTyped cfg` (every RRset of every configured zone has a `u16` TYPE — the
           library's `Type` is a `u16`, the model's types are naturals), next to `CfgWF cfg`.
      What the assembly (`ServerContent.compare_core`, Proofs/ServerSignedCompare.lean) proves: from
      `AuditRun` + `RowAuthAnswer` the signed final writer and from `plain_answer_run` the plain one,
      both exposed as the writers of `handle_non_axfr_query`'s logged runs from `S` and from the scan
      state `SS`, `S = withTsig (stRcode 0 SS) …` (`answer_exposed`); the guards on the decodings are
      the guards on the views (`decoded_answer_tsig`, `decoded_of_good_view'`, `view_handle_flags`);
      the audit's room guard is the writer's (`scanState_room`: `SS.available` = the transport's limit
      minus the reserved OPT; `finish_inv_tail`: `pb.size` = final cursor + OPT; `reserved_of_auth`:
      the audit's TSIG size = `reservedLen`); ARCOUNT + 1 ≤ 65535 from `CapJ.inner` (`CountInv`: ten
      octets per counted record); then `signed_handler_eq_plain` gives equal views — RCODE and AA
      follow — and, when the plain answering logic succeeded, final writers related as `DecodeCongr`
      wants; when it failed, both views are SERVFAIL with empty sections and the signed additional
      section holds only the OPT and the TSIG record.

  Proved: (a)–(o), and `C10_full_of : ScratchIndepI → C10_full`.  Not proved, precisely: the one named
  hypothesis (R1) above.  History of the reduction (all closed modulo (R1)):
  (1) `C10_row3` — the one obligation `C10_full` is reduced to (`C10_of_row3`): an authenticated request
      that a loaded zone *answers* passes the audit.  Everything that does not depend on the row is in
      place and applies verbatim (`auditResponse_authenticated`; `response_mac_audit` and
      `tsig_prefix_of_good` hold for every `Good` writer, answers included; `auditNeed_eq`,
      `reserved_of_auth`, `C10_audit_fits` for "fits"; `C10_decoded_authenticated_answer` for "the TSIG
      record is last").  What row 3 still needs:
      (3a) from the answering writer, beyond what `signed_answer_final_of_run` exports: its header view
           (the RCODE is `specResolve`'s, 0 or 3, never 9: `notauth-on-authenticated`), the extended-RCODE
           octet 0 of its OPT (`F.edns` with `upper = 0`; only the payload is exported), and that the
           reply TSIG fits (as in `C10_audit_authenticated_nodata`, from `tsigProcess_rows`);
      (3b) `AnsweredNormally` for answers: under `plainComparable` the scan of the stripped request has
           verdict `answer` with the same question, EDNS state and limit (`specScanWith_lookup_indep` +
           `endVerdict_transfer`, exactly as in `plain_nodata_of_comparable`); then
           `C05_end_to_end_signed` on the request and `C05_end_to_end` on the stripped request give the
           same `specResolve` — RCODE, AA, answer and authority sections agree as multisets of `rrKey`
           when neither response is truncated; `d.tc` (TC over UDP only, with no data: C04 T3 with the
           TSIG reserved) and the additional section (`subMultiset`: less room with the TSIG reserved —
           C04's limit monotonicity) are the parts C05 / C04 state only under `NoTruncation`.
      History of the clauses (all closed except as said above):
      (1a) (closed: `C10_request_view`, (j)) the request-side link: `viewRequest` (the audit's own walk
           to the TSIG RR: `findTsig`, `specDecodeName`, `labelsOf`, `parseRdata`, the request prefix)
           yields the key name, RDATA fields and prefix of the model's `t` / `mw` of the same `TsigRun`;
      and then, per clause:
      (1b) (closed: `C10_audit_fits`, (l), with `reservedLen_unsigned` / `reservedLen_response` /
           `canonName_length` in Proofs/RequestFits) `fits` (uncompressed size ≤ limit) ⇔ the model's
           `TsigFits` on the scan state — selects between the "nofit-*" tags (decoded facts:
           `C10_decoded_tsig_does_not_fit`) and the rest;
      (1c) (closed: `C10_audit_outcome`, (k) — under `KeysOK cfg.keys`: configured key names are
           well-formed wire names in lower case, the API's `LowercaseName`; **`C10_full` needs this
           hypothesis added**: the model compares `k.name` with the lower-cased request key name octet by
           octet, the audit ignoring case) `specTsigOutcome` = the model's decision (`modelOutcome`;
           `modelOutcome_stopReply` / `modelOutcome_authenticated` relate it to `tsigStopReply` and to
           the authenticated rows) — gives `tsig-error-*`, `rcode-*`, `notauth-on-authenticated` once
           combined with the rows of (h);
      (1d) (closed for row 1: `C10_audit_rejected`) `parseRdata (tsigRdata rr alg mac)` = the fields of `rr` (round trip) — gives `fudge`,
           `original-id`, `time-signed`, `other-data`, `badtime-*`, `mac-length`, `mac-not-empty`,
           `alg-name`, `key-name`; `tsig-missing` / `two-tsig` / `tsig-not-last` / `tsig-class-ttl`
           follow from the rows of (h) once (1b) holds;
      (1e) (closed: `ServerContent.response_mac_audit`, for every writer with a pending `Response`-mode
           TSIG — no hypothesis on the request's key name is needed, the model lower-cases it)
           `response-mac`: `macFn` = HMAC of the RFC digest input (`C10_response_mac_eq_rfc`, (d)) over the
           octets before the decoded record;
      (1f) (closed for rows 1 and 2: `C10_audit_rejected`, `C10_audit_row2`; open for row 3, see (3b))
           `data-in-unauthenticated`, `tc-in-error`, `aa-in-error` and "answered normally": comparison
           with the response to the stripped request (`stripTsigRr`), under `plainComparable`;
  (2) (closed) for authenticated requests that a loaded zone *answers*:
      `C10_decoded_authenticated_answer` — in every decoding the TSIG record is the last element of
      the additional section, with the key name as owner (up to case), `tsigRdata` of the prepared RR
      as RDATA and the MAC of (f); it rests on `ServerContent.signed_answer_final` (the final writer of
      the answering phase is `Good`: the induction over `handle_non_axfr_query` that ties the ghost
      log to the writer's content layout);
  (3) (closed) when the reply's TSIG does not fit (UDP): `C10_decoded_tsig_does_not_fit` — every decoding
      of the response has TC set, RCODE 0, no answer / authority data, the OPT record iff reached and no
      record of type 250 (`ServerContent.signed_nofit_final`: the final writer is the scan state with
      RCODE 0 and TC set, no TSIG pending, `Good`).
-/
import QV.Properties.C11
import QV.Proofs.ServerTsig
import QV.Spec.ServerTsig
import QV.Proofs.ServerSigned
import QV.Proofs.ServerSignedDecode
import QV.Proofs.ServerSignedOwner
import QV.Proofs.ServerAnswerDecode
import QV.Proofs.ServerSignedNoFit
import QV.Proofs.RequestFields
import QV.Proofs.RequestOutcome
import QV.Proofs.RequestFits
import QV.Proofs.AuditWalk
import QV.Proofs.AuditDecoded
import QV.Proofs.AuditMac
import QV.Proofs.AuditPlain
import QV.Proofs.ServerSignedTable
import QV.Proofs.ServerSignedPlain
import QV.Proofs.ServerSignedCompare
import QV.Proofs.ServerDecodeCongr
import QV.Proofs.ServerScratchIndep

namespace QV.C10
open QV QV.Server QV.Writer QV.Tsig QV.ServerTsig

/-! ## the full statement -/

/-- HMAC as the spec uses it (`true` = SHA-256) -/
def hmSpec : Spec.ServerTsig.Hm := fun sha256 key data =>
  (Hmac.hmac (if sha256 then .HmacSha256 else .HmacSha1) key.toArray data.toArray).toList

/-- the key set as the spec sees it -/
def specKeys (keys : List Key) : List Spec.ServerTsig.KeyCfg :=
  keys.map (fun k => ⟨k.name, k.alg = .HmacSha256, k.secret⟩)

def toResp : Out Unit (Option Bytes) → Spec.ServerTsig.Resp
  | .ok (some b) => .bytes b
  | .ok none => .none
  | _ => .panic

/-- what the library API guarantees about zone data: the TYPE of an RRset is a `u16` (the model's types are
    naturals; a record of type 65536 + 2 would be written opaque and decoded as type 2) -/
def ZonesTyped (cfg : Cfg) : Prop :=
  ∀ ze ∈ cfg.zones, ServerSafety.NodeOK (fun r => r.rtype < 65536) ze.zone.root

/-- **C10, full strength**: whatever the configuration, transport, clock and request, the response of
    `handle_message` passes the C10 audit of `QV.Spec.ServerTsig` (decision table, response MAC,
    no answer data unless authenticated, truncation rule), `plain` being the response to the same
    request without its TSIG RR. -/
def C10_full : Prop :=
  ∀ (cfg : Cfg) (cat : List Spec.Server.ZoneCfg) (tr : Transport) (now : Nat) (req : Bytes),
    now < 2 ^ 48 →
    -- what the library API guarantees (recorded amendment, see the header)
    ServerSafety.CfgWF cfg → ZonesTyped cfg → 512 ≤ cfg.payload → cfg.payload ≤ 65535 → req.size ≤ Rdata.USIZE_MAX →
    -- correction (see the header): configured key names are `LowercaseName`s
    ServerScan.KeysOK cfg.keys →
    let resp := handleMessage cfg tr now 65535 req
    let plain := match Spec.ServerTsig.stripTsigRr req with
      | some p => toResp (handleMessage cfg tr now 65535 p)
      | none => .none
    (Spec.ServerTsig.audit hmSpec cat cfg.payload (specKeys cfg.keys) req now (tr = .udp) (toResp resp) plain).1 = []

variable (hm : Algorithm → Octets → Octets → Octets)

/-! ## (a) the decision table -/

/-- **Decision table of the TSIG step.**  `Responds s rc mode rr res out` says: RCODE `rc` is set, then
    either (the RR fits) `(mode, rr)` is recorded as the response TSIG and the step returns `res`
    (`some r'` = go on scanning at `r'`, `none` = stop), or (it does not fit) the response degrades
    to TC / NOERROR without TSIG and the step returns `none`.  `prepOf kn r now e` is the prepared
    RR: key name `kn`, error `e`, fudge 300, the request's original ID, time signed = `now` (the
    request's own time iff `e` = BADTIME), server time = `now` (serialised only for BADTIME).
    Codes: 9 NOTAUTH, 1 FORMERR, 0 NOERROR; 17 BADKEY, 16 BADSIG, 18 BADTIME. -/
theorem C10_decision_table (keys : List Key) (s : State) (hs : 12 ≤ s.octets.size) (r : ReadTsigRr)
    (msg : List UInt8) (nowT : TimeSigned) (r' : Reader.Reader) (kn an : WName)
    (hkn : WName.parse r.keyName = some (kn, [])) (han : WName.parse r.algorithm = some (an, [])) :
    let out := tsigProcess hm keys nowT r msg r' s
    match Algorithm.fromName r.algorithm with
    | none => Responds s 9 (.unsigned an) (prepOf kn r nowT 17) none out
    | some alg =>
      match findKey keys r.keyName alg with
      | none => Responds s 9 (.unsigned an) (prepOf kn r nowT 17) none out
      | some key =>
        match verifyRequest hm r msg alg key.secret nowT with
        | .ok () => Responds s 0 (.response (toWriterAlg alg) r.mac key.secret) (prepOf kn r nowT 0) (some r') out
        | .err .FormErr => Responds s 1 (.unsigned (algName (toWriterAlg alg))) (prepOf kn r nowT 16) none out
        | .err .BadSig => Responds s 9 (.unsigned (algName (toWriterAlg alg))) (prepOf kn r nowT 16) none out
        | .err .BadTime => Responds s 9 (.response (toWriterAlg alg) r.mac key.secret) (prepOf kn r nowT 18) none out
        | .panic => out.1 = .panic :=
  tsigProcess_table hm keys s hs r msg nowT r' kn an hkn han

/-- the key lookup: an entry under that name, configured for the named algorithm -/
theorem C10_key_lookup (keys : List Key) (kn : List UInt8) (alg : Hmac.Alg) (key : Key) :
    findKey keys kn alg = some key ↔ keys.find? (fun k => k.name == kn) = some key ∧ key.alg = alg :=
  findKey_some_iff keys kn alg key

/-! ## (b) authenticated ↔ the RFC's conditions -/

/-- **The TSIG step lets the request through exactly when** the algorithm is implemented, a key of
    that name is configured for that algorithm, the MAC has an allowed size and equals the HMAC of the
    RFC 8945 §4.3 request digest input truncated to that size, and the server's clock is within
    `fudge` of the time signed — and the response TSIG RR fits.
    Hypotheses: the names in the RR are well-formed lower-case names (`ReadTsigRr::try_from` of a
    parsed record), the RDATA is consistent (`hv`), the model's variables are what the RFC's describe
    (`habs`, see `C11_lowercase_name_is_canonical`), the buffer holds a message whose ARCOUNT counts
    the TSIG RR (`hmsg`: true at the call site, the record was just counted and parsed). -/
theorem C10_authenticated_iff (keys : List Key) (s : State) (hs : 12 ≤ s.octets.size)
    (r : ReadTsigRr) (msg : List UInt8) (nowT : TimeSigned) (r' : Reader.Reader) (kn an : WName)
    (hkn : WName.parse r.keyName = some (kn, [])) (han : WName.parse r.algorithm = some (an, []))
    (hlow : lowerName r.algorithm = r.algorithm) (hv : r.mac.length = r.macSize)
    (sv : Spec.Tsig.Vars) (habs : Abstracts r.vars sv) (hmsg : MsgOk msg) :
    (∃ s', tsigProcess hm keys nowT r msg r' s = (.ok (some r'), s')) ↔
      ∃ alg key, Algorithm.fromName r.algorithm = some alg ∧
        keys.find? (fun k => k.name == r.keyName) = some key ∧ key.alg = alg ∧
        Spec.Tsig.MacSizeAllowed alg.outputSize r.macSize ∧
        (hm alg key.secret (Spec.Tsig.digestInput .request msg r.originalId.toNat sv [])).take r.macSize = r.mac ∧
        Spec.Tsig.TimeOk nowT.toUnix sv.timeSigned sv.fudge ∧
        TsigFits s (.response (toWriterAlg alg) r.mac key.secret) (prepOf kn r nowT 0) := by
  have tbl := tsigProcess_table hm keys s hs r msg nowT r' kn an hkn han
  dsimp only at tbl
  constructor
  · rintro ⟨s', ho⟩
    cases ha : Algorithm.fromName r.algorithm with
    | none =>
      rw [ha] at tbl; dsimp only at tbl
      obtain ⟨s2, h2⟩ := tbl.none_out
      rw [ho] at h2; cases h2
    | some alg =>
      rw [ha] at tbl; dsimp only at tbl
      cases hk : findKey keys r.keyName alg with
      | none =>
        rw [hk] at tbl; dsimp only at tbl
        obtain ⟨s2, h2⟩ := tbl.none_out
        rw [ho] at h2; cases h2
      | some key =>
        rw [hk] at tbl; dsimp only at tbl
        have hname : r.algorithm = alg.name := by rw [← hlow]; exact fromName_some _ _ ha
        have hiff := QV.C11.C11_verify_ok_iff hm .request r msg [] alg key.secret nowT sv hv habs
          ⟨by simp [verifyAsserts], hname, hmsg⟩
        have hvm : verifyMode hm .request r msg [] alg key.secret nowT = verifyRequest hm r msg alg key.secret nowT := rfl
        rw [hvm] at hiff
        obtain ⟨hk1, hk2⟩ := (findKey_some_iff _ _ _ _).mp hk
        rcases hvr : verifyRequest hm r msg alg key.secret nowT with u | e | _
        · cases u
          rw [hvr] at tbl; dsimp only at tbl
          obtain ⟨_, hf, _⟩ := tbl.some_inv ho
          obtain ⟨c1, c2, c3⟩ := hiff.mp hvr
          exact ⟨alg, key, rfl, hk1, hk2, c1, c2, c3, hf⟩
        · rw [hvr] at tbl
          cases e <;> dsimp only at tbl <;> (obtain ⟨s2, h2⟩ := tbl.none_out; rw [ho] at h2; cases h2)
        · rw [hvr] at tbl; dsimp only at tbl
          rw [ho] at tbl; cases tbl
  · rintro ⟨alg, key, ha, hk1, hk2, c1, c2, c3, hf⟩
    have hk : findKey keys r.keyName alg = some key := (findKey_some_iff _ _ _ _).mpr ⟨hk1, hk2⟩
    have hname : r.algorithm = alg.name := by rw [← hlow]; exact fromName_some _ _ ha
    have hiff := QV.C11.C11_verify_ok_iff hm .request r msg [] alg key.secret nowT sv hv habs
      ⟨by simp [verifyAsserts], hname, hmsg⟩
    have hvm : verifyMode hm .request r msg [] alg key.secret nowT = verifyRequest hm r msg alg key.secret nowT := rfl
    rw [hvm] at hiff
    have hvr := hiff.mpr ⟨c1, c2, c3⟩
    rw [ha] at tbl; dsimp only at tbl
    rw [hk] at tbl; dsimp only at tbl
    rw [hvr] at tbl; dsimp only at tbl
    obtain ⟨s1, _, _, _, h⟩ := tbl
    rcases h with ⟨_, h⟩ | ⟨hnf, _⟩
    · exact ⟨_, h⟩
    · exact absurd hf hnf

/-! ## (c) no answer data unless authenticated -/

/-- **`handle_message_with_context` = scan phase, then opcode dispatch.**  `scanPhase` (question,
    pre-scan, additional-section scan with OPT and TSIG handling, end-of-message test) ends with
    `stop` (a response is ready), `noResponse`, or `proceed question`; only `proceed` reaches
    `handle_query` / NOTIMP, the only producers of answer and authority data. -/
theorem C10_scan_then_dispatch (cfg : Cfg) (tr : Transport) (now : Nat) (r0 : Reader.Reader) (s : State) :
    handleWithContext cfg tr now r0 s =
      andThen (scanPhase cfg tr now r0 s) (dispatch cfg tr ((Reader.opcode r0).toOption.getD 0)) :=
  handleWithContext_eq cfg tr now r0 s

/-- **The scan of the additional section writes no record**, whatever it meets (OPT, TSIG of any
    kind) and however it ends: cursor, start of the record area, section and the three counts are
    those it started with. -/
theorem C10_scan_writes_no_record (cfg : Cfg) (tr : Transport) (now arcount n index : Nat) (st : ScanSt) (s : State) :
    ScanFrame s (scanAr cfg tr now arcount n index st s).2 :=
  Fr.scanAr cfg tr now arcount n index st s

/-- **If the scan of the additional section completes, any TSIG it recorded is that of an
    authenticated request**: there are a TSIG RR `r`, a message, an implemented algorithm and a key
    configured under `r`'s key name for that algorithm such that `verify_request` succeeded; the
    recorded mode is *signed response* with that key and the request MAC, the error field is
    NOERROR, and the RCODE is NOERROR. -/
theorem C10_completed_scan_tsig_is_authenticated (cfg : Cfg) (tr : Transport) (now arcount n index : Nat)
    (st : ScanSt) (s : State) (st' : ScanSt) (s' : State) (hs : 12 ≤ s.octets.size) (h0 : s.tsig = none)
    (h : scanAr cfg tr now arcount n index st s = (.ok (some st'), s')) :
    s'.tsig = none ∨ ∃ nowT, TimeSigned.tryFromUnix now = some nowT ∧ Authenticated realHmac cfg.keys nowT s' :=
  (scanAr_tsigClean cfg tr now arcount n index st s st' s' ⟨hs, Or.inl h0⟩ h).2

/-- **No answer data unless the scan completes.**  From a writer holding a header only, after
    `handle_message_with_context` (if it does not panic) either the response consists of header and
    question only (no record written or counted: the scan stopped — every non-authenticated TSIG
    outcome of the decision table returns `none` = stop — or no response is sent), or the scan phase
    handed over to the dispatch in a state with no record and a clean TSIG state (none, or
    authenticated), and the final state is what the dispatch made of it. -/
theorem C10_no_records_unless_scan_completes (cfg : Cfg) (tr : Transport) (now : Nat) (r0 : Reader.Reader)
    (s : State) (hn : NoRecords s) (ht : s.tsig = none) (hs : 12 ≤ s.octets.size)
    (out : Out WriterErr Bool) (s' : State) (h : handleWithContext cfg tr now r0 s = (out, s'))
    (hnp : out ≠ .panic) :
    NoRecords s' ∨
      ∃ q s1, scanPhase cfg tr now r0 s = (.ok (ScanEnd.proceed q), s1) ∧ NoRecords s1 ∧ TsigClean cfg now s1 ∧
        dispatch cfg tr ((Reader.opcode r0).toOption.getD 0) (ScanEnd.proceed q) s1 = (out, s') := by
  rw [handleWithContext_eq] at h
  rcases hsp : scanPhase cfg tr now r0 s with ⟨o, s1⟩
  rw [hsp] at h
  rcases o with e | e | _
  · have post := scanPhase_post cfg tr now r0 s hn ht hs _ s1 hsp (by simp)
    cases e with
    | stop => simp [andThen, dispatch, pure] at h; obtain ⟨_, rfl⟩ := h; exact Or.inl post.1
    | noResponse => simp [andThen, dispatch, pure] at h; obtain ⟨_, rfl⟩ := h; exact Or.inl post.1
    | proceed q => exact Or.inr ⟨q, s1, rfl, post.1, post.2 q rfl, h⟩
  · have post := scanPhase_post cfg tr now r0 s hn ht hs _ s1 hsp (by simp)
    simp [andThen] at h; obtain ⟨_, rfl⟩ := h; exact Or.inl post.1
  · simp [andThen] at h; exact absurd h.1.symm hnp

/-! ## (d) the response MAC -/

/-- **The MAC of a signed response = HMAC(key, RFC 8945 §4.3 response digest input).**  `message` is
    what `finish_with_mac` hands over: the response octets up to the TSIG RR, ARCOUNT already
    counting it (`set_tsig` incremented it — `MsgOk`).  The digest input is
    `len(request MAC) ‖ request MAC ‖ message[ID := original ID, ARCOUNT − 1] ‖ key name ‖ ANY ‖ 0 ‖
    algorithm name ‖ time signed ‖ fudge ‖ error ‖ other len ‖ other` with the fields of the prepared
    RR (`respVars`; other = server time iff the error is BADTIME).  Holds for every MAC primitive
    whose tags are not absurdly long (`hlen`; HMAC-SHA1/256: 20 / 32 octets). -/
theorem C10_response_mac_eq_rfc (ts : Writer.Tsig) (message : List UInt8) (alg : Writer.Alg)
    (requestMac key : List UInt8) (hmode : ts.mode = .response alg requestMac key) (wf : RrWF ts.rr)
    (hreq : requestMac.length ≤ 65535) (hmsg : MsgOk message)
    (hlen : ∀ d, (hm (ofWriterAlg alg) key d).length ≤ 65000) :
    macFnWith hm ts message =
      hm (ofWriterAlg alg) key
        (Spec.Tsig.digestInput .response message ts.rr.originalId (respVars ts.rr (ofWriterAlg alg)) requestMac) :=
  macFnWith_eq_rfc hm ts message alg requestMac key hmode wf hreq hmsg hlen

/-- (d) applies to every TSIG the decision table records: its prepared RR is well formed -/
theorem C10_prepared_rr_wf (kn : WName) (r : ReadTsigRr) (nowT : TimeSigned) (e : Nat)
    (hl : ∀ l ∈ kn.labels, l.map Spec.Tsig.lower = l) (he : e < 65536) : RrWF (prepOf kn r nowT e) :=
  prepOf_wf kn r nowT e hl he

/-- the model's `macFn` is `macFnWith` with the real HMAC -/
theorem C10_macFn_is_real_hmac (ts : Writer.Tsig) (message : List UInt8) :
    macFn ts message = macFnWith realHmac ts message := rfl

/-! ## (e) `set_tsig_or_truncate` -/

/-- **`set_tsig_or_truncate` is total** (the repair of D03: `set_tsig(..).unwrap()` panicked) -/
theorem C10_set_tsig_or_truncate_total (mode : TsigMode) (rr : TsigRr) (s : State) (hs : 12 ≤ s.octets.size) :
    (setTsigOrTruncate mode rr s).1 ≠ .panic :=
  setTsigOrTruncate_no_panic mode rr s hs

/-- it records the TSIG RR exactly when `set_tsig` can: no TSIG yet, room for the reserved length
    (`unsigned_len` / `signed_len`) within what is available, ARCOUNT not at its maximum -/
theorem C10_records_tsig_when_it_fits (mode : TsigMode) (rr : TsigRr) (s : State) (h : TsigFits s mode rr) :
    setTsigOrTruncate mode rr s = (.ok true, withTsig s mode rr) :=
  setTsigOrTruncate_fits mode rr s h

/-- **when the TSIG RR does not fit: TC ∧ NOERROR ∧ no TSIG**, and nothing but the header changed
    (`HeaderOnly`: cursor, counts, reservations, TSIG/EDNS state as before) -/
theorem C10_truncates_when_tsig_does_not_fit (mode : TsigMode) (rr : TsigRr) (s : State)
    (hs : 12 ≤ s.octets.size) (h : ¬ TsigFits s mode rr) :
    ∃ s', setTsigOrTruncate mode rr s = (.ok false, s') ∧ HeaderOnly s s' ∧ getRcode s' = 0 ∧
      getBit s' Gen.TC_BYTE Gen.TC_MASK = true :=
  setTsigOrTruncate_nofit mode rr s hs h

/-- **Over TCP the TSIG RR always fits**: starting from the writer `handle_message` sets up over TCP
    (`FreshTcp`: 65535 octets, header only, nothing reserved, TC clear), the scan phase — for every
    request, key set and clock — ends with TC clear unless it panics: the truncation branch of
    `set_tsig_or_truncate` is never taken. -/
theorem C10_tcp_tsig_always_fits (cfg : Cfg) (now : Nat) (r0 : Reader.Reader) (s : State) (hf : FreshTcp s)
    (out : Out WriterErr ScanEnd) (s' : State) (h : scanPhase cfg .tcp now r0 s = (out, s')) (hnp : out ≠ .panic) :
    getBit s' Gen.TC_BYTE Gen.TC_MASK = false :=
  scanPhase_tcp cfg now r0 s hf out s' h hnp

/-- the arithmetic behind it: with room for 574 octets every reply of the decision table fits -/
theorem C10_room_suffices (s : State) (h : TsigRoom s) (kn : WName) (hk : kn.wire.length ≤ 255)
    (a : Writer.Alg) (mac key : List UInt8) (r : ReadTsigRr) (nowT : TimeSigned) (e : Nat) :
    TsigFits s (.response a mac key) (prepOf kn r nowT e) :=
  tsigFits_response s h kn hk a mac key r nowT e

/-- **What is proved of `C10_full`**: see the file header — (a)–(e) above are the parts of `C10_full`
    that concern the writer state; the lifting to octets is C12's refinement. This theorem packages
    the two facts a caller relies on most: the TSIG step is total on a writer with a header, and a
    rejected request never reaches the answer phase. -/
theorem C10_partial (keys : List Key) (s : State) (hs : 12 ≤ s.octets.size) (r : ReadTsigRr)
    (msg : List UInt8) (nowT : TimeSigned) (r' : Reader.Reader) (kn an : WName)
    (hkn : WName.parse r.keyName = some (kn, [])) (han : WName.parse r.algorithm = some (an, []))
    (hv : verifyRequest hm r msg ((Algorithm.fromName r.algorithm).getD .HmacSha1)
            (((Algorithm.fromName r.algorithm).bind (findKey keys r.keyName)).map (·.secret) |>.getD []) nowT ≠ .panic) :
    (tsigProcess hm keys nowT r msg r' s).1 ≠ .panic ∧
    (∀ x s', tsigProcess hm keys nowT r msg r' s = (.ok (some x), s') →
       ∃ alg key, Algorithm.fromName r.algorithm = some alg ∧ findKey keys r.keyName alg = some key ∧
         verifyRequest hm r msg alg key.secret nowT = .ok ()) := by
  have tbl := tsigProcess_table hm keys s hs r msg nowT r' kn an hkn han
  dsimp only at tbl
  cases ha : Algorithm.fromName r.algorithm with
  | none =>
    rw [ha] at tbl; dsimp only at tbl
    obtain ⟨s2, h2⟩ := tbl.none_out
    exact ⟨by rw [h2]; simp, fun x s' h => by rw [h2] at h; cases h⟩
  | some alg =>
    rw [ha] at tbl hv; dsimp only at tbl
    cases hk : findKey keys r.keyName alg with
    | none =>
      rw [hk] at tbl; dsimp only at tbl
      obtain ⟨s2, h2⟩ := tbl.none_out
      exact ⟨by rw [h2]; simp, fun x s' h => by rw [h2] at h; cases h⟩
    | some key =>
      rw [hk] at tbl; dsimp only at tbl
      simp only [Option.getD_some, Option.bind_some, hk, Option.map_some] at hv
      rcases hvr : verifyRequest hm r msg alg key.secret nowT with u | e | _
      · cases u
        rw [hvr] at tbl; dsimp only at tbl
        obtain ⟨s1, _, _, _, h⟩ := tbl
        refine ⟨?_, fun x s' _ => ⟨alg, key, rfl, hk, hvr⟩⟩
        rcases h with ⟨_, h⟩ | ⟨_, s2, h, _⟩ <;> (rw [h]; simp)
      · rw [hvr] at tbl
        cases e <;> dsimp only at tbl <;>
          (obtain ⟨s2, h2⟩ := tbl.none_out
           exact ⟨by rw [h2]; simp, fun x s' h => by rw [h2] at h; cases h⟩)
      · exact absurd hvr hv

/-! ## (f) lifted to the response octets -/

open QV.ServerScan in
/-- **an authenticated request with a no-data verdict, on the octets.**  The response is
    `signedPrefix` (header with the RCODE, question, OPT iff reached) followed by the TSIG record and
    nothing else; the MAC in it is `macFn` of exactly `signedPrefix`, and for a lower-case key name
    that is the HMAC, under the request's key, of the RFC 8945 §4.3 response digest input. -/
theorem C10_authenticated_nodata_octets (cfg : Cfg) (tr : Transport) (now bufLen : Nat) (req : Bytes)
    (hbuf : minBuf tr cfg.payload ≤ bufLen) (hpay : 512 ≤ cfg.payload) (hreq : req.size ≤ Rdata.USIZE_MAX)
    (hr : (Spec.Server.specScanWith (catKind cfg) cfg.payload req).respond = true)
    (hv : (Spec.Server.specScanWith (catKind cfg) cfg.payload req).verdict = .tsigReached) :
    ∃ (t : ReadTsigRr) (mw : Bytes) (r' : Reader.Reader), r'.octets = req ∧ r'.cursor ≤ req.size ∧
      ∀ r'' S, tsigAfter cfg now t mw r' (preTsigState cfg tr bufLen req) = (.ok (some r''), S) →
      ∀ v, (v = Spec.Server.Verdict.formErr ∨ v = .notImp ∨ v = .refused ∨ v = .servFailZone) →
        endVerdict (catKind cfg) req.size (Spec.Server.specScanWith (catKind cfg) cfg.payload req).question
          r'.cursor ((req.getD 2 0).toNat / 8 % 16) = v →
      ∀ b, handleMessage cfg tr now bufLen req = .ok (some b) →
        ∃ nowT alg key kn, TimeSigned.tryFromUnix now = some nowT ∧
          Algorithm.fromName t.algorithm = some alg ∧ findKey cfg.keys t.keyName alg = some key ∧
          WName.parse t.keyName = some (kn, []) ∧ verifyRequest realHmac t mw.toList alg key.secret nowT = .ok () ∧
          ∃ oe, NameShape kn oe ∧
            b.toList =
              signedPrefix req cfg.payload (Spec.Server.specScanWith (catKind cfg) cfg.payload req)
                (Spec.Server.verdictRcode v).1 ++
              tsigRecordOctets oe (respTsig alg key kn t nowT)
                (some (macFn (respTsig alg key kn t nowT)
                  (signedPrefix req cfg.payload (Spec.Server.specScanWith (catKind cfg) cfg.payload req)
                    (Spec.Server.verdictRcode v).1))) ∧
            ((∀ l ∈ kn.labels, l.map Spec.Tsig.lower = l) → t.mac.length ≤ 65535 →
              macFn (respTsig alg key kn t nowT)
                  (signedPrefix req cfg.payload (Spec.Server.specScanWith (catKind cfg) cfg.payload req)
                    (Spec.Server.verdictRcode v).1) =
                realHmac (ofWriterAlg (toWriterAlg alg)) key.secret
                  (Spec.Tsig.digestInput .response
                    (signedPrefix req cfg.payload (Spec.Server.specScanWith (catKind cfg) cfg.payload req)
                      (Spec.Server.verdictRcode v).1)
                    (prepOf kn t nowT 0).originalId (respVars (prepOf kn t nowT 0) (ofWriterAlg (toWriterAlg alg)))
                    t.mac)) := by
  obtain ⟨t, mw, r', h1, h2, h3⟩ := signed_noData_response cfg tr now bufLen req hbuf hpay hreq hr hv
  refine ⟨t, mw, r', h1, h2, fun r'' S hT v hvv hev b hb => ?_⟩
  obtain ⟨nowT, alg, key, kn, e1, e2, e3, e4, e5, oe, sT, _, hsh, _, hbl⟩ := h3 r'' S hT v hvv hev b hb
  refine ⟨nowT, alg, key, kn, e1, e2, e3, e4, e5, oe, hsh, hbl, fun hl hmac => ?_⟩
  exact macFnWith_eq_rfc realHmac (respTsig alg key kn t nowT) _ (toWriterAlg alg) t.mac key.secret rfl
    (prepOf_wf kn t nowT 0 hl (by omega)) hmac (signedPrefix_msgOk _ _ _ _)
    (fun d => by rw [realHmac_length]; cases (ofWriterAlg (toWriterAlg alg)) <;> decide)

open QV.ServerScan in
/-- **an authenticated request that a loaded zone answers, on the octets**: whatever the zone
    answers, the response is `pre ++ TSIG record` with the MAC `macFn` of exactly `pre`, the record
    being the last thing in the message; when the scan reached an OPT, `pre` ends with the one OPT
    record. -/
theorem C10_authenticated_answer_octets (cfg : Cfg) (tr : Transport) (now bufLen : Nat) (req : Bytes)
    (hbuf : minBuf tr cfg.payload ≤ bufLen) (hpay : 512 ≤ cfg.payload) (hreq : req.size ≤ Rdata.USIZE_MAX)
    (hr : (Spec.Server.specScanWith (catKind cfg) cfg.payload req).respond = true)
    (hv : (Spec.Server.specScanWith (catKind cfg) cfg.payload req).verdict = .tsigReached) :
    ∃ (t : ReadTsigRr) (mw : Bytes) (r' : Reader.Reader), r'.octets = req ∧ r'.cursor ≤ req.size ∧
      ∀ r'' S, tsigAfter cfg now t mw r' (preTsigState cfg tr bufLen req) = (.ok (some r''), S) →
        endVerdict (catKind cfg) req.size (Spec.Server.specScanWith (catKind cfg) cfg.payload req).question
          r'.cursor ((req.getD 2 0).toNat / 8 % 16) = .answer →
      ∀ b, handleMessage cfg tr now bufLen req = .ok (some b) →
        ∃ nowT alg key kn, TimeSigned.tryFromUnix now = some nowT ∧
          Algorithm.fromName t.algorithm = some alg ∧ findKey cfg.keys t.keyName alg = some key ∧
          WName.parse t.keyName = some (kn, []) ∧ verifyRequest realHmac t mw.toList alg key.secret nowT = .ok () ∧
          ∃ pre oe, NameShape kn oe ∧
            b.toList = pre ++ tsigRecordOctets oe (respTsig alg key kn t nowT)
              (some (macFn (respTsig alg key kn t nowT) pre)) ∧
            ((Spec.Server.specScanWith (catKind cfg) cfg.payload req).edns = true →
              ∃ x upper, pre = x ++ Writer.optRecord ⟨cfg.payload, upper⟩) := by
  obtain ⟨t, mw, r', h1, h2, h3⟩ := signed_answer_response cfg tr now bufLen req hbuf hpay hreq hr hv
  refine ⟨t, mw, r', h1, h2, fun r'' S hT hev b hb => ?_⟩
  obtain ⟨nowT, alg, key, kn, e1, e2, e3, e4, e5, pre, oe, hsh, hbl, hopt, _⟩ := h3 r'' S hT hev b hb
  exact ⟨nowT, alg, key, kn, e1, e2, e3, e4, e5, pre, oe, hsh, hbl, hopt⟩

open QV.ServerScan in
/-- **a request that is not authenticated, on the octets** (reply TSIG fits).  `tsigStopReply` is the
    decision table (a): RCODE NOTAUTH with BADKEY (unknown algorithm / key) or BADSIG (wrong MAC), or
    FORMERR with BADSIG (MAC size not allowed) — all *unsigned*, i.e. an empty MAC — or NOTAUTH with
    BADTIME, *signed* in response mode.  The response is header ++ question ++ OPT ++ that TSIG record,
    the TSIG record last, no answer or authority data. -/
theorem C10_error_response_octets (cfg : Cfg) (tr : Transport) (now bufLen : Nat) (req : Bytes)
    (hbuf : minBuf tr cfg.payload ≤ bufLen) (hpay : 512 ≤ cfg.payload) (hreq : req.size ≤ Rdata.USIZE_MAX)
    (hr : (Spec.Server.specScanWith (catKind cfg) cfg.payload req).respond = true)
    (hv : (Spec.Server.specScanWith (catKind cfg) cfg.payload req).verdict = .tsigReached) :
    ∃ (t : ReadTsigRr) (mw : Bytes) (r' : Reader.Reader), r'.octets = req ∧ r'.cursor ≤ req.size ∧
      ∀ nowT kn an rc mode rr, TimeSigned.tryFromUnix now = some nowT →
        WName.parse t.keyName = some (kn, []) → WName.parse t.algorithm = some (an, []) →
        tsigStopReply realHmac cfg.keys nowT t mw.toList kn an = some (rc, mode, rr) →
        TsigFits (preTsigState cfg tr bufLen req) mode rr →
        ∀ b, handleMessage cfg tr now bufLen req = .ok (some b) →
          SignedNoData cfg.payload (Spec.Server.specScanWith (catKind cfg) cfg.payload req) rc b ∧
          ∃ oe, NameShape rr.keyName oe ∧
            b.toList =
              signedPrefix req cfg.payload (Spec.Server.specScanWith (catKind cfg) cfg.payload req) rc ++
              tsigRecordOctets oe ⟨mode, reservedLen mode rr, rr⟩
                (finishMac macFn ⟨mode, reservedLen mode rr, rr⟩
                  (signedPrefix req cfg.payload (Spec.Server.specScanWith (catKind cfg) cfg.payload req) rc)) := by
  obtain ⟨t, mw, r', h1, h2, h3⟩ := tsig_error_response cfg tr now bufLen req hbuf hpay hreq hr hv
  refine ⟨t, mw, r', h1, h2, fun nowT kn an rc mode rr hnow hkn han hrep hfit b hb => ?_⟩
  obtain ⟨oe, sT, _, hsh, _, hbl⟩ := h3 nowT kn an rc mode rr hnow hkn han hrep hfit b hb
  have hrc : rc < 16 := by rcases tsigStopReply_rc hrep with rfl | rfl <;> omega
  exact ⟨signedNoData_of_list req cfg.payload _ rc hrc oe _ _ hsh b hbl, oe, hsh, hbl⟩

/-- the unsigned replies carry an empty MAC; the BADTIME reply is signed -/
theorem C10_unsigned_mac_empty (an : WName) (rl : Nat) (rr : TsigRr) (pre : List UInt8) :
    finishMac macFn ⟨.unsigned an, rl, rr⟩ pre = none := rfl

theorem C10_badtime_mac_signed (a : Writer.Alg) (m k : List UInt8) (rl : Nat) (rr : TsigRr) (pre : List UInt8) :
    finishMac macFn ⟨.response a m k, rl, rr⟩ pre = some (macFn ⟨.response a m k, rl, rr⟩ pre) := rfl

/-! ## (g) on the independent decoding of the response -/

open QV.ServerScan in
/-- **an authenticated request with a no-data verdict, decoded.**  Every decoding of the response
    under the independent decoder has empty answer and authority sections, and its additional
    section is the OPT record (iff the scan reached one) followed by — last — a record of TYPE 250,
    CLASS ANY, TTL 0 whose owner is the key name up to ASCII case and whose RDATA is, octet for octet,
    `algorithm ‖ time signed (= now) ‖ fudge 300 ‖ MAC length ‖ MAC ‖ original ID ‖ error 0 ‖ other length 0`
    (`tsigRdata` of the prepared RR `prepOf kn t now 0`), the MAC being `macFn` of exactly the octets
    before the record — for a lower-case key name the HMAC of the RFC 8945 §4.3 response digest
    input (`C10_authenticated_nodata_octets`). -/
theorem C10_decoded_authenticated_nodata (cfg : Cfg) (tr : Transport) (now bufLen : Nat) (req : Bytes)
    (hbuf : minBuf tr cfg.payload ≤ bufLen) (hpay : 512 ≤ cfg.payload) (hp16 : cfg.payload ≤ 65535)
    (hreq : req.size ≤ Rdata.USIZE_MAX)
    (hr : (Spec.Server.specScanWith (catKind cfg) cfg.payload req).respond = true)
    (hv : (Spec.Server.specScanWith (catKind cfg) cfg.payload req).verdict = .tsigReached) :
    ∃ (t : ReadTsigRr) (mw : Bytes) (r' : Reader.Reader), r'.octets = req ∧ r'.cursor ≤ req.size ∧
      ∀ r'' S, tsigAfter cfg now t mw r' (preTsigState cfg tr bufLen req) = (.ok (some r''), S) →
      ∀ v, (v = Spec.Server.Verdict.formErr ∨ v = .notImp ∨ v = .refused ∨ v = .servFailZone) →
        endVerdict (catKind cfg) req.size (Spec.Server.specScanWith (catKind cfg) cfg.payload req).question
          r'.cursor ((req.getD 2 0).toNat / 8 % 16) = v →
      ∀ b, handleMessage cfg tr now bufLen req = .ok (some b) →
        ∃ nowT alg key kn, TimeSigned.tryFromUnix now = some nowT ∧
          Algorithm.fromName t.algorithm = some alg ∧ findKey cfg.keys t.keyName alg = some key ∧
          WName.parse t.keyName = some (kn, []) ∧ verifyRequest realHmac t mw.toList alg key.secret nowT = .ok () ∧
          ∀ d, Spec.specDecodeMsg b = some d →
            d.an = [] ∧ d.ns = [] ∧
            ∃ rest o, d.ar = rest ++ [o] ∧
              rest.length = (if (Spec.Server.specScanWith (catKind cfg) cfg.payload req).edns then 1 else 0) ∧
              o.ty = 250 ∧ o.cls = 255 ∧ o.rawTtl = 0 ∧
              o.owner.map lowerU8 = kn.wire.map lowerU8 ∧
              o.rdata = tsigRdata (prepOf kn t nowT 0) (algName (toWriterAlg alg))
                (macFn (respTsig alg key kn t nowT)
                  (signedPrefix req cfg.payload (Spec.Server.specScanWith (catKind cfg) cfg.payload req)
                    (Spec.Server.verdictRcode v).1)) := by
  obtain ⟨t, mw, r', h1, h2, h3⟩ := signed_nodata_final cfg tr now bufLen req hbuf hpay hp16 hreq hr hv
  refine ⟨t, mw, r', h1, h2, fun r'' S hT v hvv hev b hb => ?_⟩
  obtain ⟨nowT, alg, key, kn, F, mac, e1, e2, e3, e4, e5, hf, hG, hts, he, hmac⟩ := h3 r'' S hT v hvv hev b hb
  refine ⟨nowT, alg, key, kn, e1, e2, e3, e4, e5, fun d hd => ?_⟩
  obtain ⟨hq1, hq2, hq3⟩ := qBody_norecs (Spec.Server.specScanWith (catKind cfg) cfg.payload req).question
  obtain ⟨_, _, c3, c4⟩ := opt_of_good macFn F _ hG (by rw [hq3]; simp) b mac hf d hd
  rw [hq1] at c3
  rw [hq2] at c4
  obtain ⟨rest, o, g1, g2, g3, g4, g5, g6, _, g8⟩ := tsig_of_good macFn F _ hG _ hts b mac hf d hd
  refine ⟨List.length_eq_zero_iff.mp c3, List.length_eq_zero_iff.mp c4, rest, o, g1, ?_, g2, g3, g4, g5, ?_⟩
  · rw [g8, hq3, he]; cases (Spec.Server.specScanWith (catKind cfg) cfg.payload req).edns <;> rfl
  · rw [g6, hmac]; rfl

open QV.ServerScan in
/-- **a request that is not authenticated, decoded** (reply TSIG fits): empty answer and authority
    sections; the additional section is the OPT (iff reached) and then, last, the TSIG record with the
    key name as owner (up to case) and the RDATA of the decision table's prepared RR — error BADKEY /
    BADSIG / BADTIME, MAC empty for the unsigned replies, `macFn` of the octets before the record for
    BADTIME, the server time as other data iff BADTIME (`tsigRdata`). -/
theorem C10_decoded_error (cfg : Cfg) (tr : Transport) (now bufLen : Nat) (req : Bytes)
    (hbuf : minBuf tr cfg.payload ≤ bufLen) (hpay : 512 ≤ cfg.payload) (hp16 : cfg.payload ≤ 65535)
    (hreq : req.size ≤ Rdata.USIZE_MAX)
    (hr : (Spec.Server.specScanWith (catKind cfg) cfg.payload req).respond = true)
    (hv : (Spec.Server.specScanWith (catKind cfg) cfg.payload req).verdict = .tsigReached) :
    ∃ (t : ReadTsigRr) (mw : Bytes) (r' : Reader.Reader), r'.octets = req ∧ r'.cursor ≤ req.size ∧
      ∀ nowT kn an rc mode rr, TimeSigned.tryFromUnix now = some nowT →
        WName.parse t.keyName = some (kn, []) → WName.parse t.algorithm = some (an, []) →
        tsigStopReply realHmac cfg.keys nowT t mw.toList kn an = some (rc, mode, rr) →
        TsigFits (preTsigState cfg tr bufLen req) mode rr →
        ∀ b, handleMessage cfg tr now bufLen req = .ok (some b) →
          ∀ d, Spec.specDecodeMsg b = some d →
            d.an = [] ∧ d.ns = [] ∧
            ∃ rest o, d.ar = rest ++ [o] ∧
              rest.length = (if (Spec.Server.specScanWith (catKind cfg) cfg.payload req).edns then 1 else 0) ∧
              o.ty = 250 ∧ o.cls = 255 ∧ o.rawTtl = 0 ∧
              o.owner.map lowerU8 = rr.keyName.wire.map lowerU8 ∧
              o.rdata = tsigRdata rr (tsigAlgName mode)
                ((finishMac macFn ⟨mode, reservedLen mode rr, rr⟩
                  (signedPrefix req cfg.payload (Spec.Server.specScanWith (catKind cfg) cfg.payload req) rc)).getD []) := by
  obtain ⟨t, mw, r', h1, h2, h3⟩ := signed_error_final cfg tr now bufLen req hbuf hpay hp16 hreq hr hv
  refine ⟨t, mw, r', h1, h2, fun nowT kn an rc mode rr hnow hkn han hrep hfit b hb d hd => ?_⟩
  obtain ⟨F, mac, hf, hG, hts, he, hmac⟩ := h3 nowT kn an rc mode rr hnow hkn han hrep hfit b hb
  obtain ⟨hq1, hq2, hq3⟩ := qBody_norecs (Spec.Server.specScanWith (catKind cfg) cfg.payload req).question
  obtain ⟨_, _, c3, c4⟩ := opt_of_good macFn F _ hG (by rw [hq3]; simp) b mac hf d hd
  rw [hq1] at c3
  rw [hq2] at c4
  obtain ⟨rest, o, g1, g2, g3, g4, g5, g6, _, g8⟩ := tsig_of_good macFn F _ hG _ hts b mac hf d hd
  refine ⟨List.length_eq_zero_iff.mp c3, List.length_eq_zero_iff.mp c4, rest, o, g1, ?_, g2, g3, g4, g5, ?_⟩
  · rw [g8, hq3, he]; cases (Spec.Server.specScanWith (catKind cfg) cfg.payload req).edns <;> rfl
  · rw [g6, hmac]

open QV.ServerScan in
/-- **an authenticated request that a loaded zone answers, decoded**: in every independent decoding
    of the response the TSIG record is the *last element of the additional section* — TYPE 250, CLASS
    ANY, TTL 0, owner = the key name up to ASCII case, RDATA octet for octet `tsigRdata` of the
    prepared RR `prepOf kn t now 0` (algorithm, time signed = now, fudge 300, MAC, original ID, error
    0, no other data) — and the MAC is `macFn` of exactly the octets `pre` before the record
    (`b = pre ++ TSIG record`); before it come the address records of the answering phase and the OPT
    (iff the scan reached one).  The final writer is `Good` with the question and the records of the
    successful calls of the answering phase as its body (`ServerContent.signed_answer_final`: the
    induction over `handle_non_axfr_query` that ties the ghost log to the writer's content layout). -/
theorem C10_decoded_authenticated_answer (cfg : Cfg) (hcfg : ServerSafety.CfgWF cfg) (tr : Transport)
    (now bufLen : Nat) (req : Bytes)
    (hbuf : minBuf tr cfg.payload ≤ bufLen) (hpay : 512 ≤ cfg.payload) (hp16 : cfg.payload ≤ 65535)
    (hreq : req.size ≤ Rdata.USIZE_MAX)
    (hr : (Spec.Server.specScanWith (catKind cfg) cfg.payload req).respond = true)
    (hv : (Spec.Server.specScanWith (catKind cfg) cfg.payload req).verdict = .tsigReached) :
    ∃ (t : ReadTsigRr) (mw : Bytes) (r' : Reader.Reader), r'.octets = req ∧ r'.cursor ≤ req.size ∧
      ∀ r'' S, tsigAfter cfg now t mw r' (preTsigState cfg tr bufLen req) = (.ok (some r''), S) →
        endVerdict (catKind cfg) req.size (Spec.Server.specScanWith (catKind cfg) cfg.payload req).question
          r'.cursor ((req.getD 2 0).toNat / 8 % 16) = .answer →
      ∀ b, handleMessage cfg tr now bufLen req = .ok (some b) →
        ∃ nowT alg key kn, TimeSigned.tryFromUnix now = some nowT ∧
          Algorithm.fromName t.algorithm = some alg ∧ findKey cfg.keys t.keyName alg = some key ∧
          WName.parse t.keyName = some (kn, []) ∧ verifyRequest realHmac t mw.toList alg key.secret nowT = .ok () ∧
          ∃ pre oe, b.toList = pre ++ tsigRecordOctets oe (respTsig alg key kn t nowT)
              (some (macFn (respTsig alg key kn t nowT) pre)) ∧
            ∀ d, Spec.specDecodeMsg b = some d →
              ∃ rest o, d.ar = rest ++ [o] ∧ o.ty = 250 ∧ o.cls = 255 ∧ o.rawTtl = 0 ∧
                o.owner.map lowerU8 = kn.wire.map lowerU8 ∧
                o.rdata = tsigRdata (prepOf kn t nowT 0) (algName (toWriterAlg alg))
                  (macFn (respTsig alg key kn t nowT) pre) := by
  obtain ⟨t, mw, r', h1, h2, h3⟩ := ServerContent.signed_answer_final cfg hcfg tr now bufLen req hbuf hpay hp16 hreq hr hv
  refine ⟨t, mw, r', h1, h2, fun r'' S hT hev b hb => ?_⟩
  obtain ⟨nowT, alg, key, kn, F, mac, bd, e1, e2, e3, e4, e5, hf, hG, _, _, hts, _⟩ := h3 r'' S hT hev b hb
  refine ⟨nowT, alg, key, kn, e1, e2, e3, e4, e5, ?_⟩
  obtain ⟨_, hmac, oe, sT, _, _, _, _, hbl⟩ := finish_octets_tsig macFn F hG.1.inv.hdr _ hts b mac hf
  have hmac' : mac = some (macFn (respTsig alg key kn t nowT) (finishPrefix F ++ optEnc F.edns)) := by
    rw [hmac]; rfl
  rw [hmac'] at hbl
  refine ⟨finishPrefix F ++ optEnc F.edns, oe, hbl, fun d hd => ?_⟩
  obtain ⟨rest, o, g1, g2, g3, g4, g5, g6, _, _⟩ := tsig_of_good macFn F _ hG _ hts b mac hf d hd
  refine ⟨rest, o, g1, g2, g3, g4, g5, ?_⟩
  rw [g6, hmac']; rfl

open QV.ServerScan in
/-- **(e) decoded: the reply TSIG does not fit** (RFC 8945 §5.3; `set_tsig_or_truncate`, the repair of
    D03).  Whether the request was rejected by the decision table and the prescribed reply TSIG does
    not fit, or it was authenticated and the response TSIG does not fit (`ServerContent.NoFit`): every
    decoding of the response has TC set, RCODE 0 (NOERROR), AA clear, empty answer and authority
    sections, and an additional section that is exactly the OPT record iff the scan reached one — in
    particular no record of type 250: the response carries no TSIG. -/
theorem C10_decoded_tsig_does_not_fit (cfg : Cfg) (tr : Transport) (now bufLen : Nat) (req : Bytes)
    (hbuf : minBuf tr cfg.payload ≤ bufLen) (hpay : 512 ≤ cfg.payload) (hp16 : cfg.payload ≤ 65535)
    (hreq : req.size ≤ Rdata.USIZE_MAX)
    (hr : (Spec.Server.specScanWith (catKind cfg) cfg.payload req).respond = true)
    (hv : (Spec.Server.specScanWith (catKind cfg) cfg.payload req).verdict = .tsigReached) :
    ∃ (t : ReadTsigRr) (mw : Bytes) (r' : Reader.Reader), r'.octets = req ∧ r'.cursor ≤ req.size ∧
      ∀ nowT kn, TimeSigned.tryFromUnix now = some nowT → WName.parse t.keyName = some (kn, []) →
        ServerContent.NoFit cfg nowT t mw kn (preTsigState cfg tr bufLen req) →
        ∀ b, handleMessage cfg tr now bufLen req = .ok (some b) →
          ∀ d, Spec.specDecodeMsg b = some d →
            d.tc = true ∧ d.rcode = 0 ∧ d.aa = false ∧ d.an = [] ∧ d.ns = [] ∧
            d.ar.length = (if (Spec.Server.specScanWith (catKind cfg) cfg.payload req).edns then 1 else 0) ∧
            (∀ o ∈ d.ar, o.ty = 41) ∧ ∀ o ∈ d.ar, o.ty ≠ 250 := by
  obtain ⟨t, mw, r', h1, h2, h3⟩ := ServerContent.signed_nofit_final cfg tr now bufLen req hbuf hpay hp16 hreq hr hv
  refine ⟨t, mw, r', h1, h2, fun nowT kn hnow hkn hnf b hb d hd => ?_⟩
  obtain ⟨F, mac, hf, hG, hts, he, hh⟩ := h3 nowT kn hnow hkn hnf b hb
  obtain ⟨r1, r2, r3, r4, r5, r6, r7⟩ :=
    ServerContent.decoded_nofit F _ (qBody_norecs _) hG hts hh b mac hf d hd
  refine ⟨r1, r2, r3, r4, r5, ?_, r7, fun o ho h => by rw [r7 o ho] at h; cases h⟩
  rw [r6]
  cases hed : (Spec.Server.specScanWith (catKind cfg) cfg.payload req).edns <;> rw [hed] at he <;>
    cases hw : F.edns <;> rw [hw] at he <;> simp at he ⊢

open QV.ServerScan in
/-- the rows of `C10_decoded_table`, for a given run (`ServerContent.TsigRun`: the TSIG record `t`, the
    message without it `mw`, the reader `r'` after it) -/
theorem C10_decoded_table_of_run (cfg : Cfg) (hcfg : ServerSafety.CfgWF cfg) (tr : Transport) (now bufLen : Nat) (req : Bytes)
    (hbuf : minBuf tr cfg.payload ≤ bufLen) (hpay : 512 ≤ cfg.payload) (hp16 : cfg.payload ≤ 65535)
    (hr : (Spec.Server.specScanWith (catKind cfg) cfg.payload req).respond = true)
    (t : ReadTsigRr) (mw : Bytes) (r' : Reader.Reader) (question : Option (WName × Nat × Nat))
    (hrun : ServerContent.TsigRun cfg tr now bufLen req t mw r' question) :
      (∀ nowT kn an rc mode rr, TimeSigned.tryFromUnix now = some nowT →
        WName.parse t.keyName = some (kn, []) → WName.parse t.algorithm = some (an, []) →
        tsigStopReply realHmac cfg.keys nowT t mw.toList kn an = some (rc, mode, rr) →
        TsigFits (preTsigState cfg tr bufLen req) mode rr →
        ∀ b, handleMessage cfg tr now bufLen req = .ok (some b) →
          ∀ d, Spec.specDecodeMsg b = some d →
            d.an = [] ∧ d.ns = [] ∧
            ∃ rest o, d.ar = rest ++ [o] ∧
              rest.length = (if (Spec.Server.specScanWith (catKind cfg) cfg.payload req).edns then 1 else 0) ∧
              o.ty = 250 ∧ o.cls = 255 ∧ o.rawTtl = 0 ∧
              o.owner.map lowerU8 = rr.keyName.wire.map lowerU8 ∧
              o.rdata = tsigRdata rr (tsigAlgName mode)
                ((finishMac macFn ⟨mode, reservedLen mode rr, rr⟩
                  (signedPrefix req cfg.payload (Spec.Server.specScanWith (catKind cfg) cfg.payload req) rc)).getD [])) ∧
      (∀ r'' S, tsigAfter cfg now t mw r' (preTsigState cfg tr bufLen req) = (.ok (some r''), S) →
      ∀ v, (v = Spec.Server.Verdict.formErr ∨ v = .notImp ∨ v = .refused ∨ v = .servFailZone) →
        endVerdict (catKind cfg) req.size (Spec.Server.specScanWith (catKind cfg) cfg.payload req).question
          r'.cursor ((req.getD 2 0).toNat / 8 % 16) = v →
      ∀ b, handleMessage cfg tr now bufLen req = .ok (some b) →
        ∃ nowT alg key kn, TimeSigned.tryFromUnix now = some nowT ∧
          Algorithm.fromName t.algorithm = some alg ∧ findKey cfg.keys t.keyName alg = some key ∧
          WName.parse t.keyName = some (kn, []) ∧ verifyRequest realHmac t mw.toList alg key.secret nowT = .ok () ∧
          ∀ d, Spec.specDecodeMsg b = some d →
            d.an = [] ∧ d.ns = [] ∧
            ∃ rest o, d.ar = rest ++ [o] ∧
              rest.length = (if (Spec.Server.specScanWith (catKind cfg) cfg.payload req).edns then 1 else 0) ∧
              o.ty = 250 ∧ o.cls = 255 ∧ o.rawTtl = 0 ∧
              o.owner.map lowerU8 = kn.wire.map lowerU8 ∧
              o.rdata = tsigRdata (prepOf kn t nowT 0) (algName (toWriterAlg alg))
                (macFn (respTsig alg key kn t nowT)
                  (signedPrefix req cfg.payload (Spec.Server.specScanWith (catKind cfg) cfg.payload req)
                    (Spec.Server.verdictRcode v).1))) ∧
      (∀ r'' S, tsigAfter cfg now t mw r' (preTsigState cfg tr bufLen req) = (.ok (some r''), S) →
        endVerdict (catKind cfg) req.size (Spec.Server.specScanWith (catKind cfg) cfg.payload req).question
          r'.cursor ((req.getD 2 0).toNat / 8 % 16) = .answer →
      ∀ b, handleMessage cfg tr now bufLen req = .ok (some b) →
        ∃ nowT alg key kn, TimeSigned.tryFromUnix now = some nowT ∧
          Algorithm.fromName t.algorithm = some alg ∧ findKey cfg.keys t.keyName alg = some key ∧
          WName.parse t.keyName = some (kn, []) ∧ verifyRequest realHmac t mw.toList alg key.secret nowT = .ok () ∧
          ∃ pre oe, b.toList = pre ++ tsigRecordOctets oe (respTsig alg key kn t nowT)
              (some (macFn (respTsig alg key kn t nowT) pre)) ∧
            ∀ d, Spec.specDecodeMsg b = some d →
              ∃ rest o, d.ar = rest ++ [o] ∧ o.ty = 250 ∧ o.cls = 255 ∧ o.rawTtl = 0 ∧
                o.owner.map lowerU8 = kn.wire.map lowerU8 ∧
                o.rdata = tsigRdata (prepOf kn t nowT 0) (algName (toWriterAlg alg))
                  (macFn (respTsig alg key kn t nowT) pre)) ∧
      (∀ nowT kn, TimeSigned.tryFromUnix now = some nowT → WName.parse t.keyName = some (kn, []) →
        ServerContent.NoFit cfg nowT t mw kn (preTsigState cfg tr bufLen req) →
        ∀ b, handleMessage cfg tr now bufLen req = .ok (some b) →
          ∀ d, Spec.specDecodeMsg b = some d →
            d.tc = true ∧ d.rcode = 0 ∧ d.aa = false ∧ d.an = [] ∧ d.ns = [] ∧
            d.ar.length = (if (Spec.Server.specScanWith (catKind cfg) cfg.payload req).edns then 1 else 0) ∧
            (∀ o ∈ d.ar, o.ty = 41) ∧ ∀ o ∈ d.ar, o.ty ≠ 250) := by
  refine ⟨?_, ?_, ?_, ?_⟩
  · have h3 := ServerContent.signed_error_final_of_run cfg tr now bufLen req hbuf hpay hp16 hr t mw r' question hrun
    intro nowT kn an rc mode rr hnow hkn han hrep hfit b hb d hd
    obtain ⟨F, mac, hf, hG, hts, he, hmac, _⟩ := h3 nowT kn an rc mode rr hnow hkn han hrep hfit b hb
    obtain ⟨hq1, hq2, hq3⟩ := qBody_norecs (Spec.Server.specScanWith (catKind cfg) cfg.payload req).question
    obtain ⟨_, _, c3, c4⟩ := opt_of_good macFn F _ hG (by rw [hq3]; simp) b mac hf d hd
    rw [hq1] at c3
    rw [hq2] at c4
    obtain ⟨rest, o, g1, g2, g3, g4, g5, g6, _, g8⟩ := tsig_of_good macFn F _ hG _ hts b mac hf d hd
    refine ⟨List.length_eq_zero_iff.mp c3, List.length_eq_zero_iff.mp c4, rest, o, g1, ?_, g2, g3, g4, g5, ?_⟩
    · rw [g8, hq3, he]; cases (Spec.Server.specScanWith (catKind cfg) cfg.payload req).edns <;> rfl
    · rw [g6, hmac]
  · have h3 := ServerContent.signed_nodata_final_of_run cfg tr now bufLen req hbuf hpay hp16 hr t mw r' question hrun
    intro r'' S hT v hvv hev b hb
    obtain ⟨nowT, alg, key, kn, F, mac, e1, e2, e3, e4, e5, hf, hG, hts, he, hmac, _⟩ := h3 r'' S hT v hvv hev b hb
    refine ⟨nowT, alg, key, kn, e1, e2, e3, e4, e5, fun d hd => ?_⟩
    obtain ⟨hq1, hq2, hq3⟩ := qBody_norecs (Spec.Server.specScanWith (catKind cfg) cfg.payload req).question
    obtain ⟨_, _, c3, c4⟩ := opt_of_good macFn F _ hG (by rw [hq3]; simp) b mac hf d hd
    rw [hq1] at c3
    rw [hq2] at c4
    obtain ⟨rest, o, g1, g2, g3, g4, g5, g6, _, g8⟩ := tsig_of_good macFn F _ hG _ hts b mac hf d hd
    refine ⟨List.length_eq_zero_iff.mp c3, List.length_eq_zero_iff.mp c4, rest, o, g1, ?_, g2, g3, g4, g5, ?_⟩
    · rw [g8, hq3, he]; cases (Spec.Server.specScanWith (catKind cfg) cfg.payload req).edns <;> rfl
    · rw [g6, hmac]; rfl
  · have h3 := ServerContent.signed_answer_final_of_run cfg hcfg tr now bufLen req hbuf hpay hp16 hr t mw r' question hrun
    intro r'' S hT hev b hb
    obtain ⟨nowT, alg, key, kn, F, mac, bd, e1, e2, e3, e4, e5, hf, hG, _, _, hts, _⟩ := h3 r'' S hT hev b hb
    refine ⟨nowT, alg, key, kn, e1, e2, e3, e4, e5, ?_⟩
    obtain ⟨_, hmac, oe, sT, _, _, _, _, hbl⟩ := finish_octets_tsig macFn F hG.1.inv.hdr _ hts b mac hf
    have hmac' : mac = some (macFn (respTsig alg key kn t nowT) (finishPrefix F ++ optEnc F.edns)) := by
      rw [hmac]; rfl
    rw [hmac'] at hbl
    refine ⟨finishPrefix F ++ optEnc F.edns, oe, hbl, fun d hd => ?_⟩
    obtain ⟨rest, o, g1, g2, g3, g4, g5, g6, _, _⟩ := tsig_of_good macFn F _ hG _ hts b mac hf d hd
    refine ⟨rest, o, g1, g2, g3, g4, g5, ?_⟩
    rw [g6, hmac']; rfl
  · have h3 := ServerContent.signed_nofit_final_of_run cfg tr now bufLen req hbuf hpay hp16 hr t mw r' question hrun
    intro nowT kn hnow hkn hnf b hb d hd
    obtain ⟨F, mac, hf, hG, hts, he, hh⟩ := h3 nowT kn hnow hkn hnf b hb
    obtain ⟨r1, r2, r3, r4, r5, r6, r7⟩ :=
      ServerContent.decoded_nofit F _ (qBody_norecs _) hG hts hh b mac hf d hd
    refine ⟨r1, r2, r3, r4, r5, ?_, r7, fun o ho h => by rw [r7 o ho] at h; cases h⟩
    rw [r6]
    cases hed : (Spec.Server.specScanWith (catKind cfg) cfg.payload req).edns <;> rw [hed] at he <;>
      cases hw : F.edns <;> rw [hw] at he <;> simp at he ⊢

open QV.ServerScan in
/-- **the decoded TSIG record, field by field, and the header** — rows 1 and 2 of the table for a given
    run.  Row 1 (rejected, the reply fits): RCODE = the table's (NOTAUTH 9 / FORMERR 1), AA and TC
    clear; the last additional record is the TSIG record and the specification's RFC 8945 §4.2 reader
    finds in its RDATA: the algorithm name of the reply mode, fudge 300, the request's original ID, the
    table's error (16 / 17 / 18), time signed = the prepared RR's (the client's iff BADTIME), other data
    = the server time iff BADTIME, and the MAC `finish` computed (empty for unsigned replies).  Row 2
    (authenticated, no-data verdict `v`): RCODE of `v`, AA and TC clear; error 0, fudge 300, original
    ID, time signed = now, no other data, MAC = `macFn` over the octets before the record. -/
theorem C10_decoded_fields_of_run (cfg : Cfg) (tr : Transport) (now bufLen : Nat) (req : Bytes)
    (hbuf : minBuf tr cfg.payload ≤ bufLen) (hpay : 512 ≤ cfg.payload) (hp16 : cfg.payload ≤ 65535)
    (hr : (Spec.Server.specScanWith (catKind cfg) cfg.payload req).respond = true)
    (t : ReadTsigRr) (mw : Bytes) (r' : Reader.Reader) (question : Option (WName × Nat × Nat))
    (hrun : ServerContent.TsigRun cfg tr now bufLen req t mw r' question) :
    (∀ nowT kn an rc mode rr, TimeSigned.tryFromUnix now = some nowT →
      WName.parse t.keyName = some (kn, []) → WName.parse t.algorithm = some (an, []) →
      tsigStopReply realHmac cfg.keys nowT t mw.toList kn an = some (rc, mode, rr) →
      TsigFits (preTsigState cfg tr bufLen req) mode rr →
      ∀ b, handleMessage cfg tr now bufLen req = .ok (some b) →
        ∀ d, Spec.specDecodeMsg b = some d →
          d.rcode = rc ∧ (rc = 9 ∨ rc = 1) ∧ d.aa = false ∧ d.tc = false ∧
          ∃ e, (e = 16 ∨ e = 17 ∨ e = 18) ∧ rr = prepOf kn t nowT e ∧
          ∃ rest o mac, d.ar = rest ++ [o] ∧ o.ty = 250 ∧ o.cls = 255 ∧ o.rawTtl = 0 ∧
            Spec.Tsig.parseRdata o.rdata = some ⟨(tsigAlgName mode).labels, Spec.Tsig.nat48 rr.timeSigned,
              300, mac, (ReadTsigRr.originalId t).toNat % 65536, e,
              if e = 18 then nowT.asSlice else []⟩) ∧
    (∀ r'' S, tsigAfter cfg now t mw r' (preTsigState cfg tr bufLen req) = (.ok (some r''), S) →
      ∀ v, (v = Spec.Server.Verdict.formErr ∨ v = .notImp ∨ v = .refused ∨ v = .servFailZone) →
        endVerdict (catKind cfg) req.size (Spec.Server.specScanWith (catKind cfg) cfg.payload req).question
          r'.cursor ((req.getD 2 0).toNat / 8 % 16) = v →
      ∀ b, handleMessage cfg tr now bufLen req = .ok (some b) →
        ∃ nowT alg key kn, TimeSigned.tryFromUnix now = some nowT ∧
          Algorithm.fromName t.algorithm = some alg ∧ findKey cfg.keys t.keyName alg = some key ∧
          WName.parse t.keyName = some (kn, []) ∧ verifyRequest realHmac t mw.toList alg key.secret nowT = .ok () ∧
          ∀ d, Spec.specDecodeMsg b = some d →
            d.rcode = (Spec.Server.verdictRcode v).1 ∧ d.aa = false ∧ d.tc = false ∧
            ∃ rest o, d.ar = rest ++ [o] ∧ o.ty = 250 ∧ o.cls = 255 ∧ o.rawTtl = 0 ∧
              Spec.Tsig.parseRdata o.rdata = some ⟨(algName (toWriterAlg alg)).labels, Spec.Tsig.nat48 nowT.asSlice,
                300, macFn (respTsig alg key kn t nowT)
                  (signedPrefix req cfg.payload (Spec.Server.specScanWith (catKind cfg) cfg.payload req)
                    (Spec.Server.verdictRcode v).1),
                (ReadTsigRr.originalId t).toNat % 65536, 0, []⟩) := by
  refine ⟨?_, ?_⟩
  · have h3 := ServerContent.signed_error_final_of_run cfg tr now bufLen req hbuf hpay hp16 hr t mw r' question hrun
    intro nowT kn an rc mode rr hnow hkn han hrep hfit b hb d hd
    obtain ⟨F, mac, hf, hG, hts, _, _, hh⟩ := h3 nowT kn an rc mode rr hnow hkn han hrep hfit b hb
    obtain ⟨w1, _, w3, w4⟩ := tsigStopReply_facts hrep (parse_wf han)
    obtain ⟨hrc, e, he, hrr⟩ := ServerContent.tsigStopReply_prep hrep
    obtain ⟨g1, g2, g3, rest, o, q1, q2, q3, q4, q5⟩ :=
      ServerContent.tsig_fields_of_good F _ hG _ hts w1 w3 w4 _ hh b mac hf d hd
    refine ⟨by rw [g1]; show rc % 16 = rc; omega, hrc, g2, g3, e, he, hrr, rest, o, mac.getD [], q1, q2, q3, q4, ?_⟩
    rw [q5]
    subst hrr
    have e18 : Writer.XR_BADTIME = 18 := by decide
    simp only [prepOf, e18]
    congr 2
    · rcases he with rfl | rfl | rfl <;> rfl
  · have h3 := ServerContent.signed_nodata_final_of_run cfg tr now bufLen req hbuf hpay hp16 hr t mw r' question hrun
    intro r'' S hT v hvv hev b hb
    obtain ⟨nowT, alg, key, kn, F, mac, e1, e2, e3, e4, e5, hf, hG, hts, _, hmac, hh⟩ := h3 r'' S hT v hvv hev b hb
    refine ⟨nowT, alg, key, kn, e1, e2, e3, e4, e5, fun d hd => ?_⟩
    obtain ⟨l1, l2⟩ := prepOf_lengths kn t nowT 0
    obtain ⟨g1, g2, g3, rest, o, q1, q2, q3, q4, q5⟩ :=
      ServerContent.tsig_fields_of_good F _ hG _ hts (algName_wf _) l1 l2 _ hh b mac hf d hd
    refine ⟨by rw [g1]; show (Spec.Server.verdictRcode v).1 % 16 = _; rcases hvv with rfl | rfl | rfl | rfl <;> rfl,
      g2, g3, rest, o, q1, q2, q3, q4, ?_⟩
    rw [q5, hmac]
    rfl

open QV.ServerScan in
/-- **the decision table, decoded — one theorem.**  For a request whose scan reaches a well-formed TSIG
    record there are that record `t`, the message without it `mw` and the reader `r'` after it such
    that all rows hold *for these*:
    1. the request is rejected by the table (`tsigStopReply`: unknown algorithm / key ⇒ NOTAUTH + BADKEY
       unsigned; bad MAC size ⇒ FORMERR + BADSIG unsigned; wrong MAC ⇒ NOTAUTH + BADSIG unsigned; time
       outside the window ⇒ NOTAUTH + BADTIME signed) and the reply TSIG fits: no answer / authority
       data; the additional section is the OPT (iff reached) then, last, the TSIG record of the table's
       prepared RR (`C10_decoded_error`);
    2. the request is authenticated and the verdict is a no-data verdict: the same shape with the
       response TSIG (error 0, time = now), MAC over exactly the octets before it
       (`C10_decoded_authenticated_nodata`);
    3. the request is authenticated and a loaded zone answers: the TSIG record is the last element of
       the additional section, MAC over exactly the octets before it (`C10_decoded_authenticated_answer`);
    4. the reply TSIG does not fit: TC, NOERROR, no data, OPT iff reached, no TSIG record
       (`C10_decoded_tsig_does_not_fit`). -/
theorem C10_decoded_table (cfg : Cfg) (hcfg : ServerSafety.CfgWF cfg) (tr : Transport) (now bufLen : Nat) (req : Bytes)
    (hbuf : minBuf tr cfg.payload ≤ bufLen) (hpay : 512 ≤ cfg.payload) (hp16 : cfg.payload ≤ 65535)
    (hreq : req.size ≤ Rdata.USIZE_MAX)
    (hr : (Spec.Server.specScanWith (catKind cfg) cfg.payload req).respond = true)
    (hv : (Spec.Server.specScanWith (catKind cfg) cfg.payload req).verdict = .tsigReached) :
    ∃ (t : ReadTsigRr) (mw : Bytes) (r' : Reader.Reader), r'.octets = req ∧ r'.cursor ≤ req.size ∧
      (∀ nowT kn an rc mode rr, TimeSigned.tryFromUnix now = some nowT →
        WName.parse t.keyName = some (kn, []) → WName.parse t.algorithm = some (an, []) →
        tsigStopReply realHmac cfg.keys nowT t mw.toList kn an = some (rc, mode, rr) →
        TsigFits (preTsigState cfg tr bufLen req) mode rr →
        ∀ b, handleMessage cfg tr now bufLen req = .ok (some b) →
          ∀ d, Spec.specDecodeMsg b = some d →
            d.an = [] ∧ d.ns = [] ∧
            ∃ rest o, d.ar = rest ++ [o] ∧
              rest.length = (if (Spec.Server.specScanWith (catKind cfg) cfg.payload req).edns then 1 else 0) ∧
              o.ty = 250 ∧ o.cls = 255 ∧ o.rawTtl = 0 ∧
              o.owner.map lowerU8 = rr.keyName.wire.map lowerU8 ∧
              o.rdata = tsigRdata rr (tsigAlgName mode)
                ((finishMac macFn ⟨mode, reservedLen mode rr, rr⟩
                  (signedPrefix req cfg.payload (Spec.Server.specScanWith (catKind cfg) cfg.payload req) rc)).getD [])) ∧
      (∀ r'' S, tsigAfter cfg now t mw r' (preTsigState cfg tr bufLen req) = (.ok (some r''), S) →
      ∀ v, (v = Spec.Server.Verdict.formErr ∨ v = .notImp ∨ v = .refused ∨ v = .servFailZone) →
        endVerdict (catKind cfg) req.size (Spec.Server.specScanWith (catKind cfg) cfg.payload req).question
          r'.cursor ((req.getD 2 0).toNat / 8 % 16) = v →
      ∀ b, handleMessage cfg tr now bufLen req = .ok (some b) →
        ∃ nowT alg key kn, TimeSigned.tryFromUnix now = some nowT ∧
          Algorithm.fromName t.algorithm = some alg ∧ findKey cfg.keys t.keyName alg = some key ∧
          WName.parse t.keyName = some (kn, []) ∧ verifyRequest realHmac t mw.toList alg key.secret nowT = .ok () ∧
          ∀ d, Spec.specDecodeMsg b = some d →
            d.an = [] ∧ d.ns = [] ∧
            ∃ rest o, d.ar = rest ++ [o] ∧
              rest.length = (if (Spec.Server.specScanWith (catKind cfg) cfg.payload req).edns then 1 else 0) ∧
              o.ty = 250 ∧ o.cls = 255 ∧ o.rawTtl = 0 ∧
              o.owner.map lowerU8 = kn.wire.map lowerU8 ∧
              o.rdata = tsigRdata (prepOf kn t nowT 0) (algName (toWriterAlg alg))
                (macFn (respTsig alg key kn t nowT)
                  (signedPrefix req cfg.payload (Spec.Server.specScanWith (catKind cfg) cfg.payload req)
                    (Spec.Server.verdictRcode v).1))) ∧
      (∀ r'' S, tsigAfter cfg now t mw r' (preTsigState cfg tr bufLen req) = (.ok (some r''), S) →
        endVerdict (catKind cfg) req.size (Spec.Server.specScanWith (catKind cfg) cfg.payload req).question
          r'.cursor ((req.getD 2 0).toNat / 8 % 16) = .answer →
      ∀ b, handleMessage cfg tr now bufLen req = .ok (some b) →
        ∃ nowT alg key kn, TimeSigned.tryFromUnix now = some nowT ∧
          Algorithm.fromName t.algorithm = some alg ∧ findKey cfg.keys t.keyName alg = some key ∧
          WName.parse t.keyName = some (kn, []) ∧ verifyRequest realHmac t mw.toList alg key.secret nowT = .ok () ∧
          ∃ pre oe, b.toList = pre ++ tsigRecordOctets oe (respTsig alg key kn t nowT)
              (some (macFn (respTsig alg key kn t nowT) pre)) ∧
            ∀ d, Spec.specDecodeMsg b = some d →
              ∃ rest o, d.ar = rest ++ [o] ∧ o.ty = 250 ∧ o.cls = 255 ∧ o.rawTtl = 0 ∧
                o.owner.map lowerU8 = kn.wire.map lowerU8 ∧
                o.rdata = tsigRdata (prepOf kn t nowT 0) (algName (toWriterAlg alg))
                  (macFn (respTsig alg key kn t nowT) pre)) ∧
      (∀ nowT kn, TimeSigned.tryFromUnix now = some nowT → WName.parse t.keyName = some (kn, []) →
        ServerContent.NoFit cfg nowT t mw kn (preTsigState cfg tr bufLen req) →
        ∀ b, handleMessage cfg tr now bufLen req = .ok (some b) →
          ∀ d, Spec.specDecodeMsg b = some d →
            d.tc = true ∧ d.rcode = 0 ∧ d.aa = false ∧ d.an = [] ∧ d.ns = [] ∧
            d.ar.length = (if (Spec.Server.specScanWith (catKind cfg) cfg.payload req).edns then 1 else 0) ∧
            (∀ o ∈ d.ar, o.ty = 41) ∧ ∀ o ∈ d.ar, o.ty ≠ 250) := by
  obtain ⟨t, mw, r', question, hrun⟩ := ServerContent.tsigRun_exists cfg tr now bufLen req hbuf hpay hreq hr hv
  obtain ⟨h1, h2, h3, h4⟩ := C10_decoded_table_of_run cfg hcfg tr now bufLen req hbuf hpay hp16 hr t mw r' question hrun
  exact ⟨t, mw, r', hrun.1, hrun.2.1, h1, h2, h3, h4⟩

open QV.ServerScan in
/-- **(a) the four rows are exhaustive and mutually exclusive.**  For a request whose scan reaches a
    well-formed TSIG record (`TsigRun`; `ServerContent.tsigRun_exists`): if `handle_message` yields a
    response, the run falls into exactly one row of `C10_decoded_table` — rejected by the decision
    table and the reply TSIG fits (`RowRejected`), authenticated with a no-data verdict
    (`RowAuthNoData`), authenticated and answered by a loaded zone (`RowAuthAnswer`), or the reply TSIG
    does not fit (`RowNoFit`) — and `C10_decoded_table_of_run` gives the decoded response of that row
    for the same `t`, `mw`, `r'`. -/
theorem C10_rows_exhaustive (cfg : Cfg) (tr : Transport) (now bufLen : Nat) (req : Bytes)
    (hbuf : minBuf tr cfg.payload ≤ bufLen) (hpay : 512 ≤ cfg.payload)
    (hr : (Spec.Server.specScanWith (catKind cfg) cfg.payload req).respond = true)
    (t : ReadTsigRr) (mw : Bytes) (r' : Reader.Reader) (question : Option (WName × Nat × Nat))
    (hrun : ServerContent.TsigRun cfg tr now bufLen req t mw r' question)
    (b : Bytes) (hb : handleMessage cfg tr now bufLen req = .ok (some b)) :
    (ServerContent.RowRejected cfg tr now bufLen req t mw ∨ ServerContent.RowAuthNoData cfg tr now bufLen req t mw r' ∨
      ServerContent.RowAuthAnswer cfg tr now bufLen req t mw r' ∨ ServerContent.RowNoFit cfg tr now bufLen req t mw) ∧
    ¬ (ServerContent.RowRejected cfg tr now bufLen req t mw ∧ ServerContent.RowAuthNoData cfg tr now bufLen req t mw r') ∧
    ¬ (ServerContent.RowRejected cfg tr now bufLen req t mw ∧ ServerContent.RowAuthAnswer cfg tr now bufLen req t mw r') ∧
    ¬ (ServerContent.RowRejected cfg tr now bufLen req t mw ∧ ServerContent.RowNoFit cfg tr now bufLen req t mw) ∧
    ¬ (ServerContent.RowAuthNoData cfg tr now bufLen req t mw r' ∧ ServerContent.RowAuthAnswer cfg tr now bufLen req t mw r') ∧
    ¬ (ServerContent.RowAuthNoData cfg tr now bufLen req t mw r' ∧ ServerContent.RowNoFit cfg tr now bufLen req t mw) ∧
    ¬ (ServerContent.RowAuthAnswer cfg tr now bufLen req t mw r' ∧ ServerContent.RowNoFit cfg tr now bufLen req t mw) :=
  ServerContent.rows_exhaustive cfg tr now bufLen req hbuf hpay hr t mw r' question hrun b hb

open QV.ServerScan in
/-- **every signed response — answers from loaded zones included.**  With `w1` the writer that
    `handle_message` hands to `finish` (`answerState`; srvsafe's `prog_safe` shows it satisfies the
    writer's invariant) and `ts` the TSIG it holds: the response is `pre ++ TSIG record`, the record
    last, its MAC `macFn ts pre` (none when unsigned), and at position `|pre|` the independent name
    decoder reads on the response the key name, up to ASCII case (C13's `finish_tsig_owner_decodes`),
    whether it was written literally or compressed. -/
theorem C10_tsig_record_last_owner_decodes (cfg : Cfg) (hcfg : ServerSafety.CfgWF cfg) (tr : Transport)
    (now bufLen : Nat) (req : Bytes) (hbuf : minBuf tr cfg.payload ≤ bufLen) (hpay : 512 ≤ cfg.payload)
    (hnow : now < 2^48) (hreq : req.size ≤ Rdata.USIZE_MAX) (b : Bytes)
    (hb : handleMessage cfg tr now bufLen req = .ok (some b))
    (ts : Writer.Tsig) (hts : (answerState cfg tr now bufLen req).tsig = some ts) :
    ∃ pre oe mac w k, mac = finishMac macFn ts pre ∧ b.toList = pre ++ tsigRecordOctets oe ts mac ∧
      NameShape ts.rr.keyName oe ∧
      Spec.specDecodeName b pre.length = some (w, ts.rr.keyName.len, k) ∧
      w.map lowerU8 = ts.rr.keyName.wire.map lowerU8 := by
  obtain ⟨oe, mac, w, k, h1, h2, h3, h4, h5⟩ :=
    response_tsig_owner_decodes cfg hcfg tr now bufLen req hbuf hpay hnow hreq b hb ts hts
  exact ⟨_, oe, mac, w, k, h1, h2, h3, h4, h5⟩

/-! ## (i) towards `C10_full`: the executable audit, clause by clause -/

theorem minBuf_le (tr : Transport) (p : Nat) (hp16 : p ≤ 65535) : ServerScan.minBuf tr p ≤ 65535 := by
  cases tr <;> simp only [ServerScan.minBuf] <;> omega

open QV.ServerScan in
/-- the audit's scan (`specScan cat`, any catalog) and the model's (`specScanWith (catKind cfg)`) agree
    on whether a response is due and on whether a TSIG record is reached -/
theorem C10_audit_scan_agrees (cfg : Cfg) (cat : List Spec.Server.ZoneCfg) (req : Bytes) :
    (Spec.Server.specScan cat cfg.payload req).respond = (Spec.Server.specScanWith (catKind cfg) cfg.payload req).respond ∧
    ((Spec.Server.specScan cat cfg.payload req).verdict = .tsigReached ↔
      (Spec.Server.specScanWith (catKind cfg) cfg.payload req).verdict = .tsigReached) := by
  obtain ⟨h1, h2, _⟩ := ServerContent.specScanWith_tsig_indep
    (fun qn qc => (Spec.Server.specCatalogLookup cat qn qc).map (·.kind)) (catKind cfg) cfg.payload req
  exact ⟨h1, h2⟩

open QV.ServerScan in
/-- **audit clause "pre-tsig" (and "no-response")**: for a request to which no response is due, or
    whose scan does not reach an acceptable TSIG record, the audit returns no tag: the response — if
    there is one and it decodes — carries no record of type 250
    (`C10:tsig-in-response-without-acceptable-request-tsig`) -/
theorem C10_audit_pre_tsig (cfg : Cfg) (hcfg : ServerSafety.CfgWF cfg) (cat : List Spec.Server.ZoneCfg)
    (tr : Transport) (now : Nat) (req : Bytes) (hpay : 512 ≤ cfg.payload) (hp16 : cfg.payload ≤ 65535)
    (hreq : req.size ≤ Rdata.USIZE_MAX) (plain : Spec.ServerTsig.Resp)
    (h : (Spec.Server.specScan cat cfg.payload req).respond = false ∨
      (Spec.Server.specScan cat cfg.payload req).verdict ≠ .tsigReached) :
    (Spec.ServerTsig.audit hmSpec cat cfg.payload (specKeys cfg.keys) req now (tr = .udp)
      (toResp (handleMessage cfg tr now 65535 req)) plain).1 = [] := by
  obtain ⟨a1, a2⟩ := C10_audit_scan_agrees cfg cat req
  unfold Spec.ServerTsig.audit
  simp only
  cases hres : (Spec.Server.specScan cat cfg.payload req).respond with
  | false => simp
  | true =>
    have hv : (Spec.Server.specScan cat cfg.payload req).verdict ≠ .tsigReached := by
      rcases h with h | h
      · rw [hres] at h; cases h
      · exact h
    simp only [Bool.not_true, Bool.false_eq_true, if_false, hv, ne_eq, not_false_eq_true, if_true]
    rcases hm : handleMessage cfg tr now 65535 req with (_ | b) | e | _
    · rfl
    · simp only [toResp]
      cases hd : Spec.specDecodeMsg b with
      | none => rfl
      | some d =>
        simp only
        have hno := ServerContent.unsigned_no_tsig cfg hcfg tr now 65535 req (minBuf_le tr _ hp16) hpay hp16 hreq
          (by rw [← a1]; exact hres) (fun hx => hv (a2.mpr hx)) b hm d hd
        have : d.ar.any (fun r => decide (r.ty = 250)) = false := by
          rw [List.any_eq_false]
          intro o ho; simpa using hno o ho
        rw [this]; rfl
    · rfl
    · rfl

open QV.ServerScan in
/-- **audit clauses "panic", "no-response", "undecodable"**: a request whose scan reaches an acceptable
    TSIG record gets a response (no panic — C01; a response is due), and the response decodes under
    the independent decoder — so the audit goes on to the clauses about the decoded response -/
theorem C10_audit_reaches_decoding (cfg : Cfg) (hcfg : ServerSafety.CfgWF cfg) (cat : List Spec.Server.ZoneCfg)
    (tr : Transport) (now : Nat) (req : Bytes) (hnow : now < 2 ^ 48) (hpay : 512 ≤ cfg.payload)
    (hp16 : cfg.payload ≤ 65535) (hreq : req.size ≤ Rdata.USIZE_MAX)
    (hr : (Spec.Server.specScan cat cfg.payload req).respond = true)
    (hv : (Spec.Server.specScan cat cfg.payload req).verdict = .tsigReached) :
    ∃ b d, toResp (handleMessage cfg tr now 65535 req) = .bytes b ∧ Spec.specDecodeMsg b = some d := by
  obtain ⟨a1, a2⟩ := C10_audit_scan_agrees cfg cat req
  have hnp : handleMessage cfg tr now 65535 req ≠ .panic :=
    C01.C01_holds cfg tr now 65535 req hcfg
      ⟨by cases tr <;> simp only <;> omega, hnow, by unfold Rdata.USIZE_MAX at hreq; omega⟩
  obtain ⟨b, d, hb, hd⟩ := ServerContent.signed_response_decodes cfg hcfg tr now 65535 req (minBuf_le tr _ hp16)
    hpay hp16 hreq (by rw [← a1]; exact hr) (a2.mp hv) hnp
  exact ⟨b, d, by rw [hb]; rfl, hd⟩

/-! ## (j) the request-side link (1a) -/

open QV.ServerScan in
/-- **C10 (1a): the audit's view of the request is the model's.**  On a request whose scan reaches a
    TSIG record: the record `d` that the audit's `findTsig` walks to is the one the model's scan hands
    to `ReadTsigRr::try_from` (`t`); the model's message-without-TSIG `mw` is the request up to `d`,
    i.e. the audit's `prefixOctets`; the decoded owner is the key name (`kn`: `t.keyName` is its wire
    form in lower case, the audit's `keyName` its labels); the RDATA is `alg.wire ++ rest` with `alg`
    the algorithm name (`t.algorithm` its wire form in lower case, the audit's `fields.algName` its
    labels) and `Spec.Tsig.parseRdata` reads from `rest` exactly what `t`'s accessors return
    (`FieldsAgree`: time signed, fudge, MAC, original ID, error, other data); and `viewRequest` returns
    this view with `specTsigOutcome` evaluated on it (proof: `Proofs/RequestView`, `Proofs/RequestFields`;
    the scan's post-condition `ArPost` now carries the record, `TsigView`). -/
theorem C10_request_view (cfg : Server.Cfg) (tr : Server.Transport) (now bufLen : Nat) (req : Bytes)
    (hbuf : minBuf tr cfg.payload ≤ bufLen) (hpay : 512 ≤ cfg.payload) (hreq : req.size ≤ Rdata.USIZE_MAX)
    (hr : (Spec.Server.specScanWith (catKind cfg) cfg.payload req).respond = true)
    (hv : (Spec.Server.specScanWith (catKind cfg) cfg.payload req).verdict = .tsigReached)
    (hm : Spec.ServerTsig.Hm) (keys : List Spec.ServerTsig.KeyCfg) :
    ∃ (t : Tsig.ReadTsigRr) (mw : Bytes) (r' : Reader.Reader) (question : Option (WName × Nat × Nat))
      (d : Spec.Server.Delim) (owner : List UInt8) (nl fl : Nat) (kn alg : WName) (rest : List UInt8),
      ServerContent.TsigRun cfg tr now bufLen req t mw r' question ∧
      Spec.ServerTsig.findTsig req = some d ∧ d.ty = 250 ∧ d.cls = 255 ∧ d.rawTtl = 0 ∧
      Spec.specDecodeName req d.pos = some (owner, nl, fl) ∧ kn.WF ∧ kn.wire = owner ∧
      alg.WF ∧ tsigRd req d = alg.wire ++ rest ∧ 10 ≤ rest.length ∧
      Spec.Tsig.field16 rest 8 + 16 ≤ rest.length ∧ 12 ≤ d.pos ∧ 1 ≤ Spec.Server.hdr req 10 ∧
      mw = req.extract 0 d.pos ∧ r'.cursor = d.next ∧
      t = ⟨Tsig.lowerName owner, Tsig.lowerName alg.wire,
        (Tsig.rd16 (alg.wire ++ rest) (alg.wire.length + 8)).toNat, alg.wire ++ rest⟩ ∧
      FieldsAgree t (fieldsOf alg.labels rest) ∧
      Spec.ServerTsig.viewRequest hm keys req now =
        some ⟨kn.labels, fieldsOf alg.labels rest, mw.toList,
          Spec.ServerTsig.specTsigOutcome keys kn.labels (fieldsOf alg.labels rest)
            (fun k => hm k.sha256 k.secret (Spec.Tsig.digestInput .request mw.toList
              (fieldsOf alg.labels rest).originalId
              { keyName := kn.labels, algName := alg.labels, timeSigned := (fieldsOf alg.labels rest).timeSigned,
                fudge := (fieldsOf alg.labels rest).fudge, error := (fieldsOf alg.labels rest).error,
                other := (fieldsOf alg.labels rest).other } [])) now,
          Spec.ServerTsig.findKey keys kn.labels⟩ :=
  request_view cfg tr now bufLen req hbuf hpay hreq hr hv hm keys

/-! ## (k) the decision (1c) -/

open QV.ServerScan in
/-- **C10 (1c): the audit's `specTsigOutcome` is the model's decision.**  For configured keys whose
    names are `LowercaseName`s (`KeysOK`: well-formed wire names in lower case — what the library API
    guarantees; see the header), the audit's view of the request is
    `⟨key name labels, RDATA fields, request prefix, outcome, key⟩` with
    `outcome = modelOutcome cfg.keys now kn alg rest mw` — the decision `tsigProcess` takes on the very
    record `t = viewRr kn alg rest` and prefix `mw` of the run: the algorithm table
    (`outputSizeOf_view`), the key map (`findKey_view`: lookup by labels ignoring case = lookup by
    lower-case octets), `verify_request` = RFC 8945 §5.2 on the audit's fields (`verifyRequest_view`, from
    C11's `C11_verify_decision`), the HMAC (`hmSpec` = `realHmac`), the clock.  `modelOutcome_stopReply`
    / `modelOutcome_authenticated` tie `modelOutcome` to the rows of the decision table (`tsigStopReply`,
    `C10_rows_exhaustive`). -/
theorem C10_audit_outcome (cfg : Server.Cfg) (tr : Server.Transport) (now bufLen : Nat) (req : Bytes)
    (hbuf : minBuf tr cfg.payload ≤ bufLen) (hpay : 512 ≤ cfg.payload) (hreq : req.size ≤ Rdata.USIZE_MAX)
    (hr : (Spec.Server.specScanWith (catKind cfg) cfg.payload req).respond = true)
    (hv : (Spec.Server.specScanWith (catKind cfg) cfg.payload req).verdict = .tsigReached)
    (hk : KeysOK cfg.keys) (nowT : Tsig.TimeSigned) (hnow : Tsig.TimeSigned.tryFromUnix now = some nowT) :
    ∃ (t : Tsig.ReadTsigRr) (mw : Bytes) (r' : Reader.Reader) (question : Option (WName × Nat × Nat))
      (d : Spec.Server.Delim) (kn alg : WName) (rest : List UInt8),
      ServerContent.TsigRun cfg tr now bufLen req t mw r' question ∧
      Spec.ServerTsig.findTsig req = some d ∧ kn.WF ∧ alg.WF ∧
      mw = req.extract 0 d.pos ∧ r'.cursor = d.next ∧ t = viewRr kn alg rest ∧
      Spec.ServerTsig.viewRequest hmSpec (specKeys cfg.keys) req now =
        some ⟨kn.labels, fieldsOf alg.labels rest, mw.toList, modelOutcome cfg.keys nowT kn alg rest mw.toList,
          Spec.ServerTsig.findKey (specKeys cfg.keys) kn.labels⟩ :=
  request_outcome cfg tr now bufLen req hbuf hpay hreq hr hv hk nowT hnow

/-! ## (l) "the reply fits" (1b) -/

open QV.ServerScan in
/-- **C10 (1b): the audit's `fits` is the model's `TsigFits`.**  On the state the scan left
    (`preTsigState`), the reply TSIG `(mode, rr)` fits iff
    `12 + |question| + (OPT ? 11 : 0) + reservedLen mode rr ≤ limit`, the limit being 65535 over TCP and
    the scan's UDP limit over UDP (512 without an OPT: `specTail_noedns`) — which is the audit's
    `need ≤ limit`, since `reservedLen` is `|key name| + 10 + |algorithm name| + 16 + MAC + other`
    (`reservedLen_unsigned`: no MAC, no other data for BADKEY / BADSIG / FORMERR; `reservedLen_response`:
    the hash's output size, plus six octets of other data for BADTIME) and the canonical forms the audit
    measures have the lengths of the wire forms (`canonName_length`). -/
theorem C10_audit_fits (cfg : Cfg) (tr : Transport) (bufLen : Nat) (req : Bytes)
    (hbuf : minBuf tr cfg.payload ≤ bufLen) (hpay : 512 ≤ cfg.payload)
    (hr : (Spec.Server.specScanWith (catKind cfg) cfg.payload req).respond = true)
    (mode : TsigMode) (rr : TsigRr) :
    TsigFits (preTsigState cfg tr bufLen req) mode rr ↔
      12 + (qOctets (Spec.Server.specScanWith (catKind cfg) cfg.payload req).question).length +
        (if (Spec.Server.specScanWith (catKind cfg) cfg.payload req).edns then 11 else 0) +
        reservedLen mode rr ≤
      (match tr with
       | .udp => (Spec.Server.specScanWith (catKind cfg) cfg.payload req).limitUdp
       | .tcp => 65535) :=
  tsigFits_iff cfg tr bufLen req hbuf hpay hr mode rr

/-! ## (m) the audit, row by row -/

open QV.ServerScan in
/-- what the walk through `auditResponse` starts from, for one run: the scan of the audit reaches a
    TSIG record, the run of `handle_message` (`TsigRun`), and the audit's view of the request in the
    model's terms (`C10_audit_outcome`) -/
structure AuditRun (cfg : Cfg) (cat : List Spec.Server.ZoneCfg) (tr : Transport) (now : Nat) (req : Bytes)
    (nowT : TimeSigned) (t : ReadTsigRr) (mw : Bytes) (r' : Reader.Reader) (question : Option (WName × Nat × Nat))
    (d : Spec.Server.Delim) (kn alg : WName) (rest : List UInt8) : Prop where
  respond : (Spec.Server.specScan cat cfg.payload req).respond = true
  verdict : (Spec.Server.specScan cat cfg.payload req).verdict = .tsigReached
  hnow : TimeSigned.tryFromUnix now = some nowT
  hrun : ServerContent.TsigRun cfg tr now 65535 req t mw r' question
  hkn : kn.WF
  halg : alg.WF
  hmw : mw = req.extract 0 d.pos
  hfind : Spec.ServerTsig.findTsig req = some d
  hcur : r'.cursor = d.next
  ht : t = viewRr kn alg rest
  h10 : 10 ≤ rest.length
  hpos : 12 ≤ d.pos
  hdsz : d.pos ≤ req.size
  hmsg : MsgOk mw.toList
  hnext : d.pos ≤ d.next
  hnsz : d.next ≤ req.size
  hview : Spec.ServerTsig.viewRequest hmSpec (specKeys cfg.keys) req now =
    some ⟨kn.labels, fieldsOf alg.labels rest, mw.toList, modelOutcome cfg.keys nowT kn alg rest mw.toList,
      Spec.ServerTsig.findKey (specKeys cfg.keys) kn.labels⟩

open QV.ServerScan in
/-- every request whose scan (the audit's) reaches a TSIG record has an `AuditRun` -/
theorem auditRun_exists (cfg : Cfg) (cat : List Spec.Server.ZoneCfg) (tr : Transport) (now : Nat) (req : Bytes)
    (hnow : now < 2 ^ 48) (hpay : 512 ≤ cfg.payload) (hp16 : cfg.payload ≤ 65535) (hreq : req.size ≤ Rdata.USIZE_MAX)
    (hk : KeysOK cfg.keys)
    (hr : (Spec.Server.specScan cat cfg.payload req).respond = true)
    (hv : (Spec.Server.specScan cat cfg.payload req).verdict = .tsigReached) :
    ∃ nowT t mw r' question d kn alg rest, AuditRun cfg cat tr now req nowT t mw r' question d kn alg rest := by
  obtain ⟨a1, a2⟩ := C10_audit_scan_agrees cfg cat req
  have hnT : ∃ nowT, TimeSigned.tryFromUnix now = some nowT := by
    unfold TimeSigned.tryFromUnix; rw [if_pos hnow]; exact ⟨_, rfl⟩
  obtain ⟨nowT, hnT⟩ := hnT
  obtain ⟨t, mw, r', question, d, kn, alg, rest, h1, h2, h3, h4, h5, h6, h7, h8, h9, h10, h11, h12, h13, h14⟩ :=
    request_outcome_ext cfg tr now 65535 req (minBuf_le tr _ hp16) hpay hreq (by rw [← a1]; exact hr) (a2.mp hv) hk nowT hnT
  exact ⟨nowT, t, mw, r', question, d, kn, alg, rest, hr, hv, hnT, h1, h3, h4, h5, h2, h6, h7, h9, h10, h11, h12, h13, h14, h8⟩

open QV.ServerScan in
/-- the audit of such a request is `auditResponse` on the view -/
theorem audit_eq_of_run {cfg : Cfg} {cat : List Spec.Server.ZoneCfg} {tr : Transport} {now : Nat} {req : Bytes}
    {nowT : TimeSigned} {t : ReadTsigRr} {mw : Bytes} {r' : Reader.Reader} {question : Option (WName × Nat × Nat)}
    {d : Spec.Server.Delim} {kn alg : WName} {rest : List UInt8}
    (h : AuditRun cfg cat tr now req nowT t mw r' question d kn alg rest) (r plain : Spec.ServerTsig.Resp) :
    Spec.ServerTsig.audit hmSpec cat cfg.payload (specKeys cfg.keys) req now (tr = .udp) r plain =
      Spec.ServerTsig.auditResponse hmSpec (Spec.Server.specScan cat cfg.payload req)
        ⟨kn.labels, fieldsOf alg.labels rest, mw.toList, modelOutcome cfg.keys nowT kn alg rest mw.toList,
          Spec.ServerTsig.findKey (specKeys cfg.keys) kn.labels⟩ now (tr = .udp) (Spec.Server.hdr req 0)
        (Spec.ServerTsig.plainComparable cat cfg.payload req) r plain := by
  unfold Spec.ServerTsig.audit
  simp only [h.respond, h.verdict, h.hview, Bool.not_true, Bool.false_eq_true, if_false, ne_eq, not_true_eq_false]

open QV.ServerScan in
/-- **audit clause "nofit-\*"** (row 4): when the reply TSIG does not fit, the audit's `fits` is false
    too (`C10_audit_fits`, `reserved_of_stop` / `reserved_of_auth`), and the response — TC set, extended
    RCODE 0, no data, no TSIG record (`C10_decoded_tsig_does_not_fit`, with the OPT's extended-RCODE
    octet 0: `signed_nofit_final_upper`) — gets no tag -/
theorem C10_audit_nofit (cfg : Cfg) (cat : List Spec.Server.ZoneCfg) (tr : Transport) (now : Nat) (req : Bytes)
    (hpay : 512 ≤ cfg.payload) (hp16 : cfg.payload ≤ 65535)
    {nowT : TimeSigned} {t : ReadTsigRr} {mw : Bytes} {r' : Reader.Reader} {question : Option (WName × Nat × Nat)}
    {d : Spec.Server.Delim} {kn alg : WName} {rest : List UInt8}
    (h : AuditRun cfg cat tr now req nowT t mw r' question d kn alg rest)
    (hrow : ServerContent.RowNoFit cfg tr now 65535 req t mw)
    (b : Bytes) (hb : handleMessage cfg tr now 65535 req = .ok (some b)) (plain : Spec.ServerTsig.Resp) :
    (Spec.ServerTsig.audit hmSpec cat cfg.payload (specKeys cfg.keys) req now (tr = .udp)
      (toResp (handleMessage cfg tr now 65535 req)) plain).1 = [] := by
  obtain ⟨a1, a2⟩ := C10_audit_scan_agrees cfg cat req
  have hrM : (Spec.Server.specScanWith (catKind cfg) cfg.payload req).respond = true := by rw [← a1]; exact h.respond
  obtain ⟨_, _, hind⟩ := ServerContent.specScanWith_tsig_indep
    (fun qn qc => (Spec.Server.specCatalogLookup cat qn qc).map (·.kind)) (catKind cfg) cfg.payload req
  have hind' : (Spec.Server.specScan cat cfg.payload req).question =
        (Spec.Server.specScanWith (catKind cfg) cfg.payload req).question ∧
      (Spec.Server.specScan cat cfg.payload req).edns = (Spec.Server.specScanWith (catKind cfg) cfg.payload req).edns ∧
      (Spec.Server.specScan cat cfg.payload req).limitUdp =
        (Spec.Server.specScanWith (catKind cfg) cfg.payload req).limitUdp := hind h.verdict
  clear hind
  obtain ⟨iq, ie, il⟩ := hind'
  rw [audit_eq_of_run h, hb]
  simp only [toResp]
  obtain ⟨nowT', kn', hn', hkn', hnf⟩ := hrow
  rw [h.hnow] at hn'; cases hn'
  have hkw : kn'.wire.length = kn.wire.length := by
    rw [ServerAnswer.parse_wire _ _ hkn', h.ht]; show (Tsig.lowerName kn.wire).length = _; simp [Tsig.lowerName]
  obtain ⟨F, mac, hf, hG, hts, he, hh⟩ := ServerContent.signed_nofit_final_upper cfg tr now 65535 req (minBuf_le tr _ hp16)
    hpay hp16 hrM t mw r' question h.hrun nowT kn' h.hnow hkn' hnf b hb
  obtain ⟨dm, hdm⟩ := ServerContent.decodes_of_good F _ hG b mac hf
  obtain ⟨r1, r2, _, r4, r5, _, r7⟩ := ServerContent.decoded_nofit F _ (qBody_norecs _) hG hts hh b mac hf dm hdm
  obtain ⟨hq1, hq2, hq3⟩ := qBody_norecs (Spec.Server.specScanWith (catKind cfg) cfg.payload req).question
  obtain ⟨_, c2, _, _⟩ := opt_of_good macFn F _ hG (by rw [hq3]; simp) b mac hf dm hdm
  refine auditResponse_nofit hmSpec _ _ now _ _ _ b plain dm hdm ?_ r1 r2 ?_ ?_ ?_
  · -- does not fit
    rw [auditNeed_eq _ _ iq ie kn alg h.hkn h.halg, auditLimit_eq _ _ il tr]
    rcases hnf with ⟨an, rc, mode, rr, han, hrep, hnfit⟩ | ⟨a, key, ha, hk, hver, hnfit⟩
    · have haw : an.wire.length = alg.wire.length := by
        rw [ServerAnswer.parse_wire _ _ han, h.ht]; show (Tsig.lowerName alg.wire).length = _; simp [Tsig.lowerName]
      rw [h.ht] at hrep
      rw [← reserved_of_stop cfg.keys nowT kn alg h.halg rest mw.toList kn' an hkw haw rc mode rr hrep]
      exact fun hle => hnfit ((C10_audit_fits cfg tr 65535 req (minBuf_le tr _ hp16) hpay hrM mode rr).mpr
        (by cases tr <;> exact hle))
    · rw [h.ht] at ha hk hver hnfit
      have hmo := modelOutcome_authenticated cfg.keys nowT kn alg rest mw.toList a key ha hk hver
      rw [hmo, ← reserved_of_auth kn alg h.halg kn' hkw a ha (viewRr kn alg rest).mac key.secret (viewRr kn alg rest) nowT]
      exact fun hle => hnfit ((C10_audit_fits cfg tr 65535 req (minBuf_le tr _ hp16) hpay hrM _ _).mpr
        (by cases tr <;> exact hle))
  · -- no data
    unfold Spec.Server.noData
    rw [r4, r5]
    simp only [List.isEmpty_nil, Bool.true_and, List.all_eq_true]
    intro o ho; simp [r7 o ho]
  · -- the OPT's extended-RCODE octet
    intro o ho hty
    obtain ⟨e, hee, _, _, q3⟩ := c2 o ho hty
    rw [he] at hee
    split at hee
    · simp only [Option.some.injEq] at hee; subst hee; rw [q3]; simp
    · cases hee
  · -- no TSIG record
    rw [List.filter_eq_nil_iff]
    intro o ho; simp [r7 o ho]

open QV.ServerScan in
/-- the model's scan of an `AuditRun`: a response is due, and it agrees with the audit's scan on the
    question, the EDNS state and the UDP limit -/
theorem AuditRun.scanM {cfg : Cfg} {cat : List Spec.Server.ZoneCfg} {tr : Transport} {now : Nat} {req : Bytes}
    {nowT : TimeSigned} {t : ReadTsigRr} {mw : Bytes} {r' : Reader.Reader} {question : Option (WName × Nat × Nat)}
    {d : Spec.Server.Delim} {kn alg : WName} {rest : List UInt8}
    (h : AuditRun cfg cat tr now req nowT t mw r' question d kn alg rest) :
    (Spec.Server.specScanWith (catKind cfg) cfg.payload req).respond = true ∧
    (Spec.Server.specScan cat cfg.payload req).question =
      (Spec.Server.specScanWith (catKind cfg) cfg.payload req).question ∧
    (Spec.Server.specScan cat cfg.payload req).edns = (Spec.Server.specScanWith (catKind cfg) cfg.payload req).edns ∧
    (Spec.Server.specScan cat cfg.payload req).limitUdp =
      (Spec.Server.specScanWith (catKind cfg) cfg.payload req).limitUdp := by
  obtain ⟨a1, _⟩ := C10_audit_scan_agrees cfg cat req
  obtain ⟨_, _, hind⟩ := ServerContent.specScanWith_tsig_indep
    (fun qn qc => (Spec.Server.specCatalogLookup cat qn qc).map (·.kind)) (catKind cfg) cfg.payload req
  exact ⟨by rw [← a1]; exact h.respond, hind h.verdict⟩

open QV.ServerScan in
/-- **audit of a rejected request whose reply fits** (row 1: BADKEY, FORMERR, BADSIG unsigned; BADTIME
    signed): the audit returns no tag — `tsig-missing`, `two-tsig`, `tsig-rdata`, `tsig-not-last`,
    `tsig-class-ttl`, `key-name`, `alg-name`, `fudge`, `original-id`, `id`, `tsig-error-*`, `rcode-*`,
    `mac-not-empty`, `mac-length`, `response-mac` (`ServerContent.response_mac_audit`: the MAC is the
    HMAC, under the audit's own key, of the RFC 8945 §4.3 digest input over the octets before the
    decoded TSIG record), `badtime-other`, `badtime-time-signed`, `other-data`, `time-signed`,
    `data-in-unauthenticated`, `tc-in-error`, `aa-in-error` never arise -/
theorem C10_audit_rejected (cfg : Cfg) (cat : List Spec.Server.ZoneCfg) (tr : Transport) (now : Nat) (req : Bytes)
    (hpay : 512 ≤ cfg.payload) (hp16 : cfg.payload ≤ 65535) (hk : KeysOK cfg.keys)
    {nowT : TimeSigned} {t : ReadTsigRr} {mw : Bytes} {r' : Reader.Reader} {question : Option (WName × Nat × Nat)}
    {d : Spec.Server.Delim} {kn alg : WName} {rest : List UInt8}
    (h : AuditRun cfg cat tr now req nowT t mw r' question d kn alg rest)
    (hrow : ServerContent.RowRejected cfg tr now 65535 req t mw)
    (b : Bytes) (hb : handleMessage cfg tr now 65535 req = .ok (some b)) (plain : Spec.ServerTsig.Resp) :
    (Spec.ServerTsig.audit hmSpec cat cfg.payload (specKeys cfg.keys) req now (tr = .udp)
      (toResp (handleMessage cfg tr now 65535 req)) plain).1 = [] := by
  obtain ⟨hrM, iq, ie, il⟩ := h.scanM
  rw [audit_eq_of_run h, hb]
  simp only [toResp]
  obtain ⟨nowT', kn', an, rc, mode, rr, hn', hkn', han, hrep, hfit⟩ := hrow
  rw [h.hnow] at hn'; cases hn'
  have hkw : kn'.wire = Tsig.lowerName kn.wire := by rw [ServerAnswer.parse_wire _ _ hkn', h.ht]; rfl
  have haw : an.wire = Tsig.lowerName alg.wire := by rw [ServerAnswer.parse_wire _ _ han, h.ht]; rfl
  have hkwf := parse_wf hkn'
  obtain ⟨F, mac, hf, hG, hts, he, hmac, hh⟩ := ServerContent.signed_error_final_of_run cfg tr now 65535 req
    (minBuf_le tr _ hp16) hpay hp16 hrM t mw r' question h.hrun nowT kn' an rc mode rr h.hnow hkn' han hrep hfit b hb
  obtain ⟨w1, w2, w3, w4⟩ := tsigStopReply_facts hrep (parse_wf han)
  obtain ⟨dm, hdm⟩ := ServerContent.decodes_of_good F _ hG b mac hf
  obtain ⟨g1, g2, g3, g4, g5, g6, restR, o, q1, q2, q3, q4, q5, q6, q7⟩ :=
    ServerContent.decoded_nodata_tsig F _ hG ⟨mode, reservedLen mode rr, rr⟩ hts w1 w3 w4 _ cfg.payload he _ hh
      b mac hf dm hdm
  simp only at q6 q7 g1 g2 g3
  rw [w2] at q6
  obtain ⟨rkn, hl1, hl2⟩ := labelsOf_of_lower o.owner kn' hkwf q6
  have hl3 : rkn.map (·.map Spec.Tsig.lower) = kn.labels.map (·.map Spec.Tsig.lower) := by
    rw [hl2]
    exact (labels_lower_iff kn' kn hkwf h.hkn).mpr (by rw [hkw, lowerName_idem])
  have hfa := fieldsAgree_of (Tsig.lowerName kn.wire) alg rest h.h10
  rw [h.ht] at hrep
  have hfit' : auditNeed (Spec.Server.specScan cat cfg.payload req)
      ⟨kn.labels, fieldsOf alg.labels rest, mw.toList, modelOutcome cfg.keys nowT kn alg rest mw.toList,
        Spec.ServerTsig.findKey (specKeys cfg.keys) kn.labels⟩ ≤
      auditLimit (Spec.Server.specScan cat cfg.payload req) (decide (tr = .udp)) := by
    rw [auditNeed_eq _ _ iq ie kn alg h.hkn h.halg, auditLimit_eq _ _ il tr]
    have hkl : kn'.wire.length = kn.wire.length := by rw [hkw]; simp [Tsig.lowerName]
    have hal : an.wire.length = alg.wire.length := by rw [haw]; simp [Tsig.lowerName]
    rw [← reserved_of_stop cfg.keys nowT kn alg h.halg rest mw.toList kn' an hkl hal rc mode rr hrep]
    have := (C10_audit_fits cfg tr 65535 req (minBuf_le tr _ hp16) hpay hrM mode rr).mp hfit
    cases tr <;> exact this
  have hlastT : dm.ar.getLast?.map (·.ty) = some 250 := by rw [q1]; simp [q3]
  have htsF : dm.ar.filter (fun r => r.ty = 250) = [o] := by
    rw [q1]
    exact filter_snoc_unique (fun r : Spec.DRr => decide (r.ty = 250)) (fun r => decide (r.ty = 41)) restR o
      (fun x hx => decide_eq_true (q2 x hx)) (fun x hx => by
        have := of_decide_eq_true hx; simp [this]) (decide_eq_true q3)
  have hnd : Spec.Server.noData dm = true := by
    unfold Spec.Server.noData
    rw [g4, g5, q1]
    simp only [List.isEmpty_nil, Bool.true_and, List.all_eq_true]
    intro x hx
    rcases List.mem_append.mp hx with hx | hx
    · simp [q2 x hx]
    · simp only [List.mem_singleton] at hx; subst hx; simp [q3]
  have hidd : dm.id = Spec.Server.hdr req 0 := by
    rw [decode_id b dm hdm]
    exact (ServerScan.response_echo cfg tr now 65535 req (minBuf_le tr _ hp16) hpay b hb).1
  have hnow' : Spec.Tsig.nat48 nowT.asSlice = now := by
    have := toUnix_tryFromUnix now nowT h.hnow
    rw [← this]; simp [Spec.Tsig.nat48, TimeSigned.asSlice, TimeSigned.toUnix]; omega
  have hoidm : (ReadTsigRr.originalId (viewRr kn alg rest)).toNat % 65536 = (fieldsOf alg.labels rest).originalId := by
    rw [hfa.origId]; exact Nat.mod_eq_of_lt (UInt16.toNat_lt _)
  have halgL : ∀ m : WName, m.WF → m.wire = Tsig.lowerName alg.wire →
      m.labels.map (·.map Spec.Tsig.lower) = alg.labels.map (·.map Spec.Tsig.lower) := fun m hm hw =>
    (labels_lower_iff m alg hm h.halg).mpr (by rw [hw, lowerName_idem])
  have e18 : Writer.XR_BADTIME = 18 := by decide
  have hnat : ∀ x : TimeSigned, Spec.Tsig.nat48 x.asSlice = x.toUnix := fun x => by
    simp [Spec.Tsig.nat48, TimeSigned.asSlice, TimeSigned.toUnix]; omega
  rcases stopReply_cases cfg.keys nowT kn alg rest mw.toList kn' an rc mode rr hrep with
    ⟨ho, rfl, rfl, rfl⟩ | ⟨ho, rfl, ⟨a, ha, rfl⟩, rfl⟩ | ⟨ho, rfl, ⟨a, ha, rfl⟩, rfl⟩ | ⟨ho, rfl, ⟨a, key, ha, hkey, rfl⟩, rfl⟩
  · refine auditResponse_rejected hmSpec _ _ _ _ _ _ now _ _ _ b plain dm o _ rkn hdm hfit' (by rw [ho]; decide)
      htsF q7 hl1 hlastT q4 q5 hl3 (halgL an (parse_wf han) haw) rfl hoidm hidd (by rw [ho]; rfl) g6
      (by rw [g1, ho]; rfl) (fun _ => by rw [hmac]; rfl) (fun hbt => by rw [ho] at hbt; cases hbt)
      (fun _ => ⟨rfl, hnow'⟩) (fun hbt => by rw [ho] at hbt; cases hbt) hnd g3 g2
  · refine auditResponse_rejected hmSpec _ _ _ _ _ _ now _ _ _ b plain dm o _ rkn hdm hfit' (by rw [ho]; decide)
      htsF q7 hl1 hlastT q4 q5 hl3 (halgL _ (algName_wf _) (stop_algName alg a ha)) rfl hoidm hidd (by rw [ho]; rfl) g6
      (by rw [g1, ho]; rfl) (fun _ => by rw [hmac]; rfl) (fun hbt => by rw [ho] at hbt; cases hbt)
      (fun _ => ⟨rfl, hnow'⟩) (fun hbt => by rw [ho] at hbt; cases hbt) hnd g3 g2
  · refine auditResponse_rejected hmSpec _ _ _ _ _ _ now _ _ _ b plain dm o _ rkn hdm hfit' (by rw [ho]; decide)
      htsF q7 hl1 hlastT q4 q5 hl3 (halgL _ (algName_wf _) (stop_algName alg a ha)) rfl hoidm hidd (by rw [ho]; rfl) g6
      (by rw [g1, ho]; rfl) (fun _ => by rw [hmac]; rfl) (fun hbt => by rw [ho] at hbt; cases hbt)
      (fun _ => ⟨rfl, hnow'⟩) (fun hbt => by rw [ho] at hbt; cases hbt) hnd g3 g2
  · refine auditResponse_rejected hmSpec _ _ _ _ _ _ now _ _ _ b plain dm o _ rkn hdm hfit' (by rw [ho]; decide)
      htsF q7 hl1 hlastT q4 q5 hl3 (halgL _ (algName_wf _) (stop_algName alg a ha)) rfl hoidm hidd (by rw [ho]; rfl) g6
      (by rw [g1, ho]; rfl) (fun hn => absurd ho hn) (fun _ => ?_)
      (fun hn => absurd ho hn) (fun _ => ⟨?_, ?_⟩) hnd g3 g2
    · -- the MAC of the signed reply
      have hlowk : Tsig.lowerName kn'.wire = kn'.wire := by rw [hkw, lowerName_idem]
      have wf := prepOf_wf kn' (viewRr kn alg rest) nowT 18 (ServerContent.labels_lower_of_wire kn' hkwf hlowk) (by omega)
      have hreq : (viewRr kn alg rest).mac.length ≤ 65535 := by
        have hm' : (viewRr kn alg rest).mac = (fieldsOf alg.labels rest).mac := hfa.mac.symm
        rw [hm']
        show ((rest.drop 10).take (Spec.Tsig.field16 rest 8)).length ≤ 65535
        rw [List.length_take]
        have : Spec.Tsig.field16 rest 8 ≤ 65535 := by
          unfold Spec.Tsig.field16
          have := (rest.getD 8 0).toNat_lt; have := (rest.getD (8 + 1) 0).toNat_lt; omega
        omega
      obtain ⟨rest', o', hdar', hlen, k, hfk, hall⟩ := ServerContent.response_mac_audit cfg.keys hk kn h.hkn a key hkey
        F _ hG _ wf _ hreq _ hts b mac hf dm hdm
      rw [q1] at hdar'
      obtain ⟨_, eo⟩ := List.append_inj' hdar' rfl
      simp only [List.cons.injEq, and_true] at eo
      subst eo
      refine ⟨?_, k, hfk, ?_⟩
      · show (mac.getD []).length = _
        rw [hlen]
        show _ = (Spec.Tsig.outputSizeOf alg.labels).getD 0
        rw [outputSizeOf_view alg h.halg, ha]; rfl
      · have := hall rkn hl2
        have hm' : (fieldsOf alg.labels rest).mac = (viewRr kn alg rest).mac := hfa.mac
        rw [hm']
        exact this
    · show (if (18 : Nat) = XR_BADTIME then nowT.asSlice else []) = Spec.Tsig.u48 now
      rw [e18, if_pos rfl, Tsig.asSlice_eq_spec, toUnix_tryFromUnix now nowT h.hnow]
    · show Spec.Tsig.nat48 (ReadTsigRr.timeSigned (viewRr kn alg rest)).asSlice = _
      rw [hnat, hfa.time]; rfl

open QV.ServerScan in
open QV.ServerScan in
/-- **audit of an authenticated request with a no-data verdict** (row 2: FORMERR after the TSIG record,
    NOTIMP, REFUSED, SERVFAIL for a zone not loaded), the clause "answered normally" being the
    hypothesis `hdata`: all the other clauses hold — `tsig-missing`, `two-tsig`, `tsig-rdata`,
    `tsig-not-last`, `tsig-class-ttl`, `key-name`, `alg-name`, `fudge`, `original-id`, `id`,
    `tsig-error-*`, `notauth-on-authenticated`, `mac-length`, `response-mac`, `other-data`,
    `time-signed` never arise -/
theorem C10_audit_authenticated_nodata (cfg : Cfg) (cat : List Spec.Server.ZoneCfg) (tr : Transport) (now : Nat)
    (req : Bytes) (hpay : 512 ≤ cfg.payload) (hp16 : cfg.payload ≤ 65535) (hk : KeysOK cfg.keys)
    {nowT : TimeSigned} {t : ReadTsigRr} {mw : Bytes} {r' : Reader.Reader} {question : Option (WName × Nat × Nat)}
    {d : Spec.Server.Delim} {kn alg : WName} {rest : List UInt8}
    (h : AuditRun cfg cat tr now req nowT t mw r' question d kn alg rest)
    (hrow : ServerContent.RowAuthNoData cfg tr now 65535 req t mw r')
    (b : Bytes) (hb : handleMessage cfg tr now 65535 req = .ok (some b)) (plain : Spec.ServerTsig.Resp)
    (hdata : ∀ dm v, Spec.specDecodeMsg b = some dm →
      (v = Spec.Server.Verdict.formErr ∨ v = .notImp ∨ v = .refused ∨ v = .servFailZone) →
      endVerdict (catKind cfg) req.size (Spec.Server.specScanWith (catKind cfg) cfg.payload req).question
        r'.cursor ((req.getD 2 0).toNat / 8 % 16) = v →
      dm.rcode = (Spec.Server.verdictRcode v).1 % 16 → dm.aa = false → dm.tc = false → dm.an = [] → dm.ns = [] →
      (∀ x ∈ dm.ar, x.ty = 41 ∨ x.ty = 250) →
      AnsweredNormally dm (decide (tr = .udp)) (Spec.ServerTsig.plainComparable cat cfg.payload req)
        ((Spec.Tsig.canonName kn.labels).length + 10 + (Spec.Tsig.canonName (fieldsOf alg.labels rest).algName).length + 16 +
        (Spec.Tsig.outputSizeOf (fieldsOf alg.labels rest).algName).getD 0 + 0)
        (if decide (tr = .udp) then (Spec.Server.specScan cat cfg.payload req).limitUdp else 65535) plain) :
    (Spec.ServerTsig.audit hmSpec cat cfg.payload (specKeys cfg.keys) req now (tr = .udp)
      (toResp (handleMessage cfg tr now 65535 req)) plain).1 = [] := by
  obtain ⟨hrM, iq, ie, il⟩ := h.scanM
  rw [audit_eq_of_run h, hb]
  simp only [toResp]
  obtain ⟨r'', S, v, hT, hvv, hev⟩ := hrow
  obtain ⟨nowT', a, key, kn', F, mac, e1, e2, e3, e4, e5, hf, hG, hts, he, _, hh⟩ :=
    ServerContent.signed_nodata_final_of_run cfg tr now 65535 req (minBuf_le tr _ hp16) hpay hp16 hrM t mw r' question
      h.hrun r'' S hT v hvv hev b hb
  rw [h.hnow] at e1; cases e1
  have hkw : kn'.wire = Tsig.lowerName kn.wire := by rw [ServerAnswer.parse_wire _ _ e4, h.ht]; rfl
  have hkwf := parse_wf e4
  -- the reply fits
  have h3 := ServerContent.preTsig_size3 cfg tr 65535 req (minBuf_le tr _ hp16) hpay hrM
  have hfit : TsigFits (preTsigState cfg tr 65535 req) (.response (toWriterAlg a) t.mac key.secret)
      (prepOf kn' t nowT 0) := by
    unfold tsigAfter at hT
    rw [h.hnow] at hT
    obtain ⟨kn2, hk2, hc⟩ := ServerContent.tsigProcess_rows realHmac cfg.keys _ h3 t mw.toList nowT r' _ S hT
    rw [e4] at hk2; cases hk2
    rcases hc with ⟨_, _, _, _, _, _, hn⟩ | ⟨a2, key2, ha2, hk2, _, hc⟩
    · cases hn
    · rw [e2] at ha2; cases ha2
      rw [e3] at hk2; cases hk2
      rcases hc with ⟨hf', _⟩ | ⟨_, hn⟩
      · exact hf'
      · cases hn
  rw [h.ht] at e2 e3 e5 hfit hts
  have hmo := modelOutcome_authenticated cfg.keys nowT kn alg rest mw.toList a key e2 e3 e5
  rw [hmo]
  have hfa := fieldsAgree_of (Tsig.lowerName kn.wire) alg rest h.h10
  have hfit' : auditNeed (Spec.Server.specScan cat cfg.payload req)
      ⟨kn.labels, fieldsOf alg.labels rest, mw.toList, .authenticated,
        Spec.ServerTsig.findKey (specKeys cfg.keys) kn.labels⟩ ≤
      auditLimit (Spec.Server.specScan cat cfg.payload req) (decide (tr = .udp)) := by
    rw [auditNeed_eq _ _ iq ie kn alg h.hkn h.halg, auditLimit_eq _ _ il tr]
    have hkl : kn'.wire.length = kn.wire.length := by rw [hkw]; simp [Tsig.lowerName]
    rw [← reserved_of_auth kn alg h.halg kn' hkl a e2 (viewRr kn alg rest).mac key.secret (viewRr kn alg rest) nowT]
    have := (C10_audit_fits cfg tr 65535 req (minBuf_le tr _ hp16) hpay hrM _ _).mp hfit
    cases tr <;> exact this
  obtain ⟨l1, l2⟩ := prepOf_lengths kn' (viewRr kn alg rest) nowT 0
  obtain ⟨dm, hdm⟩ := ServerContent.decodes_of_good F _ hG b mac hf
  obtain ⟨g1, g2, g3, g4, g5, g6, restR, o, q1, q2, q3, q4, q5, q6, q7⟩ :=
    ServerContent.decoded_nodata_tsig F _ hG _ hts (algName_wf _) l1 l2 _ cfg.payload he _ hh b mac hf dm hdm
  simp only [respTsig] at q6 q7
  simp only at g1 g2 g3
  obtain ⟨rkn, hl1, hl2⟩ := labelsOf_of_lower o.owner kn' hkwf q6
  have hl3 : rkn.map (·.map Spec.Tsig.lower) = kn.labels.map (·.map Spec.Tsig.lower) := by
    rw [hl2]
    exact (labels_lower_iff kn' kn hkwf h.hkn).mpr (by rw [hkw, lowerName_idem])
  have hlastT : dm.ar.getLast?.map (·.ty) = some 250 := by rw [q1]; simp [q3]
  have htsF : dm.ar.filter (fun r => r.ty = 250) = [o] := by
    rw [q1]
    exact filter_snoc_unique (fun r : Spec.DRr => decide (r.ty = 250)) (fun r => decide (r.ty = 41)) restR o
      (fun x hx => decide_eq_true (q2 x hx)) (fun x hx => by
        have := of_decide_eq_true hx; simp [this]) (decide_eq_true q3)
  have hidd : dm.id = Spec.Server.hdr req 0 := by
    rw [decode_id b dm hdm]
    exact (ServerScan.response_echo cfg tr now 65535 req (minBuf_le tr _ hp16) hpay b hb).1
  have hnat : ∀ x : TimeSigned, Spec.Tsig.nat48 x.asSlice = x.toUnix := fun x => by
    simp [Spec.Tsig.nat48, TimeSigned.asSlice, TimeSigned.toUnix]; omega
  have hnow' : Spec.Tsig.nat48 nowT.asSlice = now := by rw [hnat, toUnix_tryFromUnix now nowT h.hnow]
  have hoidm : (ReadTsigRr.originalId (viewRr kn alg rest)).toNat % 65536 = (fieldsOf alg.labels rest).originalId := by
    rw [hfa.origId]; exact Nat.mod_eq_of_lt (UInt16.toNat_lt _)
  have halgL : (algName (toWriterAlg a)).labels.map (·.map Spec.Tsig.lower) =
      alg.labels.map (·.map Spec.Tsig.lower) :=
    (labels_lower_iff _ alg (algName_wf _) h.halg).mpr (by rw [stop_algName alg a e2, lowerName_idem])
  -- the MAC
  have hlowk : Tsig.lowerName kn'.wire = kn'.wire := by rw [hkw, lowerName_idem]
  have wf := prepOf_wf kn' (viewRr kn alg rest) nowT 0 (ServerContent.labels_lower_of_wire kn' hkwf hlowk) (by omega)
  have hreq : (viewRr kn alg rest).mac.length ≤ 65535 := by
    have hm' : (viewRr kn alg rest).mac = (fieldsOf alg.labels rest).mac := hfa.mac.symm
    rw [hm']
    show ((rest.drop 10).take (Spec.Tsig.field16 rest 8)).length ≤ 65535
    rw [List.length_take]
    have : Spec.Tsig.field16 rest 8 ≤ 65535 := by
      unfold Spec.Tsig.field16
      have := (rest.getD 8 0).toNat_lt; have := (rest.getD (8 + 1) 0).toNat_lt; omega
    omega
  obtain ⟨rest', o', hdar', hlen, k, hfk, hall⟩ := ServerContent.response_mac_audit cfg.keys hk kn h.hkn a key e3
    F _ hG _ wf _ hreq _ hts b mac hf dm hdm
  rw [q1] at hdar'
  obtain ⟨_, eo⟩ := List.append_inj' hdar' rfl
  simp only [List.cons.injEq, and_true] at eo
  subst eo
  have e18 : Writer.XR_BADTIME = 18 := by decide
  refine auditResponse_authenticated hmSpec _ _ _ _ _ now _ _ _ b plain dm o _ rkn hdm hfit' htsF q7 hl1 hlastT q4 q5
    hl3 halgL rfl hoidm hidd rfl g6 ?_ ?_ ⟨k, hfk, ?_⟩ rfl hnow'
    (hdata dm v hdm hvv hev g1 g2 g3 g4 g5 (fun x hx => by
      rw [q1] at hx
      rcases List.mem_append.mp hx with hx | hx
      · exact Or.inl (q2 x hx)
      · simp only [List.mem_singleton] at hx; subst hx; exact Or.inr q3))
  · rw [g1]; rcases hvv with rfl | rfl | rfl | rfl <;> decide
  · show (mac.getD []).length = (Spec.Tsig.outputSizeOf alg.labels).getD 0
    have e2' : Algorithm.fromName (Tsig.lowerName alg.wire) = some a := e2
    rw [hlen, outputSizeOf_view alg h.halg, e2']; rfl
  · have := hall rkn hl2
    have hm' : (fieldsOf alg.labels rest).mac = (viewRr kn alg rest).mac := hfa.mac
    rw [hm']
    exact this

open QV.ServerScan in
/-- **audit of an authenticated request that a loaded zone answers** (row 3), the second half of the
    clause "answered normally" — the comparison with the response to the stripped request when neither
    response is truncated — being the hypothesis `hB`: all the other clauses hold.  `tsig-missing`,
    `two-tsig`, `tsig-rdata`, `tsig-not-last`, `tsig-class-ttl`, `key-name`, `alg-name`, `fudge`,
    `original-id`, `id`, `tsig-error-*`, `notauth-on-authenticated` (the RCODE is 0, 2 or 3:
    `view_handle_flags`), `mac-length`, `response-mac`, `other-data`, `time-signed` never arise, the
    extended-RCODE octet of the OPT is 0 (`ednsUp0_handleNonAxfrQueryL`), and the first half of "answered
    normally" holds: TC is set only over UDP and then the response carries no data (`tc-over-tcp`,
    `tc-with-data` never arise).  (`ServerContent.signed_answer_facts_of_run`, `decoded_answer_tsig`.) -/
theorem C10_audit_authenticated_answer (cfg : Cfg) (hcfg : ServerSafety.CfgWF cfg) (cat : List Spec.Server.ZoneCfg)
    (tr : Transport) (now : Nat)
    (req : Bytes) (hpay : 512 ≤ cfg.payload) (hp16 : cfg.payload ≤ 65535) (hk : KeysOK cfg.keys)
    {nowT : TimeSigned} {t : ReadTsigRr} {mw : Bytes} {r' : Reader.Reader} {question : Option (WName × Nat × Nat)}
    {d : Spec.Server.Delim} {kn alg : WName} {rest : List UInt8}
    (h : AuditRun cfg cat tr now req nowT t mw r' question d kn alg rest)
    (hrow : ServerContent.RowAuthAnswer cfg tr now 65535 req t mw r')
    (b : Bytes) (hb : handleMessage cfg tr now 65535 req = .ok (some b)) (plain : Spec.ServerTsig.Resp)
    (hB : ∀ dm pb pd, Spec.specDecodeMsg b = some dm → plain = .bytes pb → Spec.specDecodeMsg pb = some pd →
      dm.tc = false → pd.tc = false → Spec.ServerTsig.plainComparable cat cfg.payload req = true →
      pb.size + ((Spec.Tsig.canonName kn.labels).length + 10 + (Spec.Tsig.canonName (fieldsOf alg.labels rest).algName).length + 16 +
        (Spec.Tsig.outputSizeOf (fieldsOf alg.labels rest).algName).getD 0 + 0) ≤
        (if decide (tr = .udp) then (Spec.Server.specScan cat cfg.payload req).limitUdp else 65535) → (pd.rcode = 2 → dm.rcode = 2) →
      dm.rcode = pd.rcode ∧ dm.aa = pd.aa ∧
      Spec.ServerTsig.sameMultiset (dm.an.map Spec.ServerTsig.rrKey) (pd.an.map Spec.ServerTsig.rrKey) = true ∧
      Spec.ServerTsig.sameMultiset (dm.ns.map Spec.ServerTsig.rrKey) (pd.ns.map Spec.ServerTsig.rrKey) = true ∧
      Spec.ServerTsig.subMultiset (Spec.ServerTsig.plainRrs dm.ar) (Spec.ServerTsig.plainRrs pd.ar) = true) :
    (Spec.ServerTsig.audit hmSpec cat cfg.payload (specKeys cfg.keys) req now (tr = .udp)
      (toResp (handleMessage cfg tr now 65535 req)) plain).1 = [] := by
  obtain ⟨hrM, iq, ie, il⟩ := h.scanM
  rw [audit_eq_of_run h, hb]
  simp only [toResp]
  obtain ⟨r'', S, hT, hev⟩ := hrow
  obtain ⟨nowT', a, key, kn', F, mac, bd, vw, e1, e2, e3, e4, e5, hf, hG, hty, hbv, hh, hrc3, htcv, hts, he, hup⟩ :=
    ServerContent.signed_answer_facts_of_run cfg hcfg tr now 65535 req (minBuf_le tr _ hp16) hpay hp16 hrM t mw r' question
      h.hrun r'' S hT hev b hb
  rw [h.hnow] at e1; cases e1
  have hkw : kn'.wire = Tsig.lowerName kn.wire := by rw [ServerAnswer.parse_wire _ _ e4, h.ht]; rfl
  have hkwf := parse_wf e4
  -- the reply fits
  have h3 := ServerContent.preTsig_size3 cfg tr 65535 req (minBuf_le tr _ hp16) hpay hrM
  have hfit : TsigFits (preTsigState cfg tr 65535 req) (.response (toWriterAlg a) t.mac key.secret)
      (prepOf kn' t nowT 0) := by
    unfold tsigAfter at hT
    rw [h.hnow] at hT
    obtain ⟨kn2, hk2, hc⟩ := ServerContent.tsigProcess_rows realHmac cfg.keys _ h3 t mw.toList nowT r' _ S hT
    rw [e4] at hk2; cases hk2
    rcases hc with ⟨_, _, _, _, _, _, hn⟩ | ⟨a2, key2, ha2, hk2, _, hc⟩
    · cases hn
    · rw [e2] at ha2; cases ha2
      rw [e3] at hk2; cases hk2
      rcases hc with ⟨hf', _⟩ | ⟨_, hn⟩
      · exact hf'
      · cases hn
  rw [h.ht] at e2 e3 e5 hfit hts
  have hmo := modelOutcome_authenticated cfg.keys nowT kn alg rest mw.toList a key e2 e3 e5
  rw [hmo]
  have hfa := fieldsAgree_of (Tsig.lowerName kn.wire) alg rest h.h10
  have hfit' : auditNeed (Spec.Server.specScan cat cfg.payload req)
      ⟨kn.labels, fieldsOf alg.labels rest, mw.toList, .authenticated,
        Spec.ServerTsig.findKey (specKeys cfg.keys) kn.labels⟩ ≤
      auditLimit (Spec.Server.specScan cat cfg.payload req) (decide (tr = .udp)) := by
    rw [auditNeed_eq _ _ iq ie kn alg h.hkn h.halg, auditLimit_eq _ _ il tr]
    have hkl : kn'.wire.length = kn.wire.length := by rw [hkw]; simp [Tsig.lowerName]
    rw [← reserved_of_auth kn alg h.halg kn' hkl a e2 (viewRr kn alg rest).mac key.secret (viewRr kn alg rest) nowT]
    have := (C10_audit_fits cfg tr 65535 req (minBuf_le tr _ hp16) hpay hrM _ _).mp hfit
    cases tr <;> exact this
  obtain ⟨l1, l2⟩ := prepOf_lengths kn' (viewRr kn alg rest) nowT 0
  obtain ⟨dm, hdm⟩ := ServerContent.decodes_of_good F _ hG b mac hf
  obtain ⟨g1, g2, g3, g4, g5, g6, ar', opt, o, q1, qA, qT, qO, q3, q4, q5, q6, q7⟩ :=
    ServerContent.decoded_answer_tsig F bd vw hG hty hbv hh _ hts (algName_wf _) l1 l2 hup b mac hf dm hdm
  simp only [respTsig] at q6 q7
  obtain ⟨rkn, hl1, hl2⟩ := labelsOf_of_lower o.owner kn' hkwf q6
  have hl3 : rkn.map (·.map Spec.Tsig.lower) = kn.labels.map (·.map Spec.Tsig.lower) := by
    rw [hl2]
    exact (labels_lower_iff kn' kn hkwf h.hkn).mpr (by rw [hkw, lowerName_idem])
  have hlastT : dm.ar.getLast?.map (·.ty) = some 250 := by rw [q1]; simp [q3]
  have htsF : dm.ar.filter (fun r => r.ty = 250) = [o] := by
    rw [q1]
    exact filter_snoc_unique (fun r : Spec.DRr => decide (r.ty = 250))
      (fun r => decide (r.ty = 1 ∨ r.ty = 28 ∨ r.ty = 41)) (ar' ++ opt) o
      (fun x hx => decide_eq_true (by
        rcases List.mem_append.mp hx with hx | hx
        · rcases qT x hx with h1 | h1
          · exact Or.inl h1
          · exact Or.inr (Or.inl h1)
        · exact Or.inr (Or.inr (qO x hx)))) (fun x hx => by
        have := of_decide_eq_true hx
        rcases this with h1 | h1 | h1 <;> simp [h1]) (decide_eq_true q3)
  have hidd : dm.id = Spec.Server.hdr req 0 := by
    rw [decode_id b dm hdm]
    exact (ServerScan.response_echo cfg tr now 65535 req (minBuf_le tr _ hp16) hpay b hb).1
  have hnat : ∀ x : TimeSigned, Spec.Tsig.nat48 x.asSlice = x.toUnix := fun x => by
    simp [Spec.Tsig.nat48, TimeSigned.asSlice, TimeSigned.toUnix]; omega
  have hnow' : Spec.Tsig.nat48 nowT.asSlice = now := by rw [hnat, toUnix_tryFromUnix now nowT h.hnow]
  have hoidm : (ReadTsigRr.originalId (viewRr kn alg rest)).toNat % 65536 = (fieldsOf alg.labels rest).originalId := by
    rw [hfa.origId]; exact Nat.mod_eq_of_lt (UInt16.toNat_lt _)
  have halgL : (algName (toWriterAlg a)).labels.map (·.map Spec.Tsig.lower) =
      alg.labels.map (·.map Spec.Tsig.lower) :=
    (labels_lower_iff _ alg (algName_wf _) h.halg).mpr (by rw [stop_algName alg a e2, lowerName_idem])
  -- the MAC
  have hlowk : Tsig.lowerName kn'.wire = kn'.wire := by rw [hkw, lowerName_idem]
  have wf := prepOf_wf kn' (viewRr kn alg rest) nowT 0 (ServerContent.labels_lower_of_wire kn' hkwf hlowk) (by omega)
  have hreq : (viewRr kn alg rest).mac.length ≤ 65535 := by
    have hm' : (viewRr kn alg rest).mac = (fieldsOf alg.labels rest).mac := hfa.mac.symm
    rw [hm']
    show ((rest.drop 10).take (Spec.Tsig.field16 rest 8)).length ≤ 65535
    rw [List.length_take]
    have : Spec.Tsig.field16 rest 8 ≤ 65535 := by
      unfold Spec.Tsig.field16
      have := (rest.getD 8 0).toNat_lt; have := (rest.getD (8 + 1) 0).toNat_lt; omega
    omega
  obtain ⟨rest', o', hdar', hlen, k, hfk, hall⟩ := ServerContent.response_mac_audit cfg.keys hk kn h.hkn a key e3
    F _ hG _ wf _ hreq _ hts b mac hf dm hdm
  rw [q1] at hdar'
  obtain ⟨_, eo⟩ := List.append_inj' hdar' rfl
  simp only [List.cons.injEq, and_true] at eo
  subst eo
  have e18 : Writer.XR_BADTIME = 18 := by decide
  have hAN : AnsweredNormally dm (decide (tr = .udp)) (Spec.ServerTsig.plainComparable cat cfg.payload req)
      ((Spec.Tsig.canonName kn.labels).length + 10 + (Spec.Tsig.canonName (fieldsOf alg.labels rest).algName).length + 16 +
        (Spec.Tsig.outputSizeOf (fieldsOf alg.labels rest).algName).getD 0 + 0)
      (if decide (tr = .udp) then (Spec.Server.specScan cat cfg.payload req).limitUdp else 65535) plain := by
    intro pb pd hpl hpd
    refine ⟨fun htc => ?_, fun htc hptc hcmp hroom hrc2 => hB dm pb pd hdm hpl hpd htc hptc hcmp hroom hrc2⟩
    rw [g3] at htc
    obtain ⟨t1, t2, t3, t4⟩ := htcv htc
    rw [t2] at g4; rw [t3] at g5; rw [t4] at qA
    have ean : dm.an = [] := List.length_eq_zero_iff.mp g4.length.symm
    have ens : dm.ns = [] := List.length_eq_zero_iff.mp g5.length.symm
    have ear : ar' = [] := List.length_eq_zero_iff.mp qA.length.symm
    refine ⟨by rw [t1]; rfl, ?_⟩
    unfold Spec.Server.noData
    rw [ean, ens, q1, ear]
    simp only [List.isEmpty_nil, Bool.true_and, List.nil_append, List.all_append, List.all_cons, List.all_nil, Bool.and_true,
      Bool.and_eq_true, List.all_eq_true, Bool.or_eq_true, decide_eq_true_eq]
    exact ⟨fun x hx => Or.inl (qO x hx), Or.inr q3⟩
  refine auditResponse_authenticated hmSpec _ _ _ _ _ now _ _ _ b plain dm o _ rkn hdm hfit' htsF q7 hl1 hlastT q4 q5
    hl3 halgL rfl hoidm hidd rfl g6 ?_ ?_ ⟨k, hfk, ?_⟩ rfl hnow' hAN
  · rw [g1]; rcases hrc3 with h0 | h0 | h0 <;> rw [h0] <;> decide
  · show (mac.getD []).length = (Spec.Tsig.outputSizeOf alg.labels).getD 0
    have e2' : Algorithm.fromName (Tsig.lowerName alg.wire) = some a := e2
    rw [hlen, outputSizeOf_view alg h.halg, e2']; rfl
  · have := hall rkn hl2
    have hm' : (fieldsOf alg.labels rest).mac = (viewRr kn alg rest).mac := hfa.mac
    rw [hm']
    exact this

open QV.ServerScan in
/-- **row 2 passes the audit**: an authenticated request with a no-data verdict, `plain` being the
    response to the request without its TSIG record — "answered normally" included
    (`plain_nodata_of_comparable`: under the audit's guard the stripped request gets the unsigned
    no-data response of the same verdict) -/
theorem C10_audit_row2 (cfg : Cfg) (cat : List Spec.Server.ZoneCfg) (tr : Transport) (now : Nat)
    (req : Bytes) (hpay : 512 ≤ cfg.payload) (hp16 : cfg.payload ≤ 65535) (hreq : req.size ≤ Rdata.USIZE_MAX)
    (hk : KeysOK cfg.keys)
    {nowT : TimeSigned} {t : ReadTsigRr} {mw : Bytes} {r' : Reader.Reader} {question : Option (WName × Nat × Nat)}
    {d : Spec.Server.Delim} {kn alg : WName} {rest : List UInt8}
    (h : AuditRun cfg cat tr now req nowT t mw r' question d kn alg rest)
    (hrow : ServerContent.RowAuthNoData cfg tr now 65535 req t mw r')
    (b : Bytes) (hb : handleMessage cfg tr now 65535 req = .ok (some b)) :
    (Spec.ServerTsig.audit hmSpec cat cfg.payload (specKeys cfg.keys) req now (tr = .udp)
      (toResp (handleMessage cfg tr now 65535 req))
      (match Spec.ServerTsig.stripTsigRr req with
        | some p => toResp (handleMessage cfg tr now 65535 p)
        | none => .none)).1 = [] := by
  refine C10_audit_authenticated_nodata cfg cat tr now req hpay hp16 hk h hrow b hb _ ?_
  intro dm v hdm hvv hev hrc haa htc han hns har pb pd hplain hpd
  refine ⟨fun hc => (by rw [htc] at hc; cases hc), fun _ hptc hcmp _ _ => ?_⟩
  obtain ⟨_, iq, _, _⟩ := h.scanM
  rw [h.hcur] at hev
  obtain ⟨p, hstrip, pb', hpb', hall⟩ := plain_nodata_of_comparable cfg cat tr now req hpay hp16 hreq d h.hfind h.hpos
    h.hdsz h.hnext h.hnsz iq v hvv hev hcmp
  rw [hstrip] at hplain
  simp only [hpb', toResp, Spec.ServerTsig.Resp.bytes.injEq] at hplain
  subst hplain
  obtain ⟨p1, p2, p3, p4, _⟩ := hall pd hpd
  refine ⟨by rw [hrc, p3], by rw [haa, p4], by rw [han, p1]; rfl, by rw [hns, p2]; rfl, ?_⟩
  have : Spec.ServerTsig.plainRrs dm.ar = [] := by
    unfold Spec.ServerTsig.plainRrs
    rw [List.map_eq_nil_iff, List.filter_eq_nil_iff]
    intro x hx
    rcases har x hx with h1 | h1 <;> simp [h1]
  rw [this]; rfl

/-! ## (n) the walk assembled -/

open QV.ServerScan in
/-- what remains of `C10_full`: **row 3** — an authenticated request that a loaded zone answers passes
    the audit (`plain` being the response to the request without its TSIG record) -/
def C10_row3 : Prop :=
  ∀ (cfg : Cfg) (cat : List Spec.Server.ZoneCfg) (tr : Transport) (now : Nat) (req : Bytes),
    now < 2 ^ 48 → ServerSafety.CfgWF cfg → ZonesTyped cfg → 512 ≤ cfg.payload → cfg.payload ≤ 65535 →
    req.size ≤ Rdata.USIZE_MAX → KeysOK cfg.keys →
    ∀ (nowT : TimeSigned) (t : ReadTsigRr) (mw : Bytes) (r' : Reader.Reader) (question : Option (WName × Nat × Nat))
      (d : Spec.Server.Delim) (kn alg : WName) (rest : List UInt8),
      AuditRun cfg cat tr now req nowT t mw r' question d kn alg rest →
      ServerContent.RowAuthAnswer cfg tr now 65535 req t mw r' →
      ∀ b, handleMessage cfg tr now 65535 req = .ok (some b) →
        (Spec.ServerTsig.audit hmSpec cat cfg.payload (specKeys cfg.keys) req now (tr = .udp)
          (toResp (handleMessage cfg tr now 65535 req))
          (match Spec.ServerTsig.stripTsigRr req with
            | some p => toResp (handleMessage cfg tr now 65535 p)
            | none => .none)).1 = []

open QV.ServerScan in
/-- what remains of row 3 once `C10_audit_authenticated_answer` is applied: the comparison of the decoded
    response with the decoded response to the request without its TSIG record, when neither is
    truncated and the audit's guard `plainComparable` holds — same RCODE and AA, answer and authority
    sections equal as multisets, own additional records a sub-multiset.
    (With the audit's two further guards as premises — the plain response leaves room for the TSIG RR;
    not "plain SERVFAIL, signed not" — without which the statement is false: see the header, third
    correction of the oracle, F1–F3.) -/
def C10_row3_compare : Prop :=
  ∀ (cfg : Cfg) (cat : List Spec.Server.ZoneCfg) (tr : Transport) (now : Nat) (req : Bytes),
    now < 2 ^ 48 → ServerSafety.CfgWF cfg → ZonesTyped cfg → 512 ≤ cfg.payload → cfg.payload ≤ 65535 →
    req.size ≤ Rdata.USIZE_MAX → KeysOK cfg.keys →
    ∀ (nowT : TimeSigned) (t : ReadTsigRr) (mw : Bytes) (r' : Reader.Reader) (question : Option (WName × Nat × Nat))
      (d : Spec.Server.Delim) (kn alg : WName) (rest : List UInt8),
      AuditRun cfg cat tr now req nowT t mw r' question d kn alg rest →
      ServerContent.RowAuthAnswer cfg tr now 65535 req t mw r' →
      ∀ b, handleMessage cfg tr now 65535 req = .ok (some b) →
        ∀ dm pb pd, Spec.specDecodeMsg b = some dm →
          (match Spec.ServerTsig.stripTsigRr req with
            | some p => toResp (handleMessage cfg tr now 65535 p)
            | none => .none) = .bytes pb →
          Spec.specDecodeMsg pb = some pd →
          dm.tc = false → pd.tc = false → Spec.ServerTsig.plainComparable cat cfg.payload req = true →
      pb.size + ((Spec.Tsig.canonName kn.labels).length + 10 + (Spec.Tsig.canonName (fieldsOf alg.labels rest).algName).length + 16 +
        (Spec.Tsig.outputSizeOf (fieldsOf alg.labels rest).algName).getD 0 + 0) ≤
        (if decide (tr = .udp) then (Spec.Server.specScan cat cfg.payload req).limitUdp else 65535) → (pd.rcode = 2 → dm.rcode = 2) →
          dm.rcode = pd.rcode ∧ dm.aa = pd.aa ∧
          Spec.ServerTsig.sameMultiset (dm.an.map Spec.ServerTsig.rrKey) (pd.an.map Spec.ServerTsig.rrKey) = true ∧
          Spec.ServerTsig.sameMultiset (dm.ns.map Spec.ServerTsig.rrKey) (pd.ns.map Spec.ServerTsig.rrKey) = true ∧
          Spec.ServerTsig.subMultiset (Spec.ServerTsig.plainRrs dm.ar) (Spec.ServerTsig.plainRrs pd.ar) = true

open QV.ServerScan in
/-- **row 3 reduced to the comparison with the plain response**: every other clause of the audit holds
    for an authenticated request that a loaded zone answers (`C10_audit_authenticated_answer`) -/
theorem C10_row3_of_compare (hc : C10_row3_compare) : C10_row3 := by
  intro cfg cat tr now req hnow hcfg hzt hpay hp16 hreq hk nowT t mw r' question d kn alg rest h hrow b hb
  exact C10_audit_authenticated_answer cfg hcfg cat tr now req hpay hp16 hk h hrow b hb _
    (fun dm pb pd hdm hpl hpd htc hptc hcmp hroom hrc2 =>
      hc cfg cat tr now req hnow hcfg hzt hpay hp16 hreq hk nowT t mw r' question d kn alg rest h hrow b hb dm pb pd
        hdm hpl hpd htc hptc hcmp hroom hrc2)

open QV.ServerScan in
/-- **the comparison clause, modulo one named writer hypothesis**: `C10_row3_compare` holds as
    soon as `ServerContent.ScratchIndepI` (next to a state satisfying the writer's invariant, with a valid
    hint, a writer call of the answering phase does not read octets at or above the cursor;
    Proofs/ServerAnswerTwoRunI.lean) does; the decoder congruence is the writer side's
    `decodeCongrT` (Proofs/ServerDecodeCongr.lean).  Everything else — the two runs start from the same scan state (`plain_answer_run`), the
    signed run shows the same view as the plain one under the clause's guards
    (`signed_handler_eq_plain`), the guards on the decodings are the guards on the views, the room the
    audit computes is the writer's — is proved (`ServerContent.compare_core`). -/
theorem C10_row3_compare_of (hSI : ServerContent.ScratchIndepI) : C10_row3_compare := by
  intro cfg cat tr now req hnow hcfg hzt hpay hp16 hreq hk nowT t mw r' question d kn alg rest h hrow b hb dm pb pd
    hdm hpl hpd htc hptc hcmp hroom hrc2
  obtain ⟨hrM, iq, ie, il⟩ := h.scanM
  obtain ⟨r'', S, hT, hev⟩ := hrow
  refine ServerContent.compare_core hSI ServerContent.decodeCongrT cfg hcfg hzt cat tr now req (minBuf_le tr _ hp16) hpay hp16 hreq hrM iq ie il
    t mw r' question h.hrun r'' S hT hev b hb d h.hfind h.hpos h.hdsz h.hnext h.hnsz h.hcur hcmp pb ?_ dm pd hdm hpd
    htc hptc ?_ hrc2
  · intro p hp
    rw [hp] at hpl
    simp only at hpl
    rcases hm : handleMessage cfg tr now 65535 p with (_ | bb) | x | _
    · rw [hm] at hpl; simp [toResp] at hpl
    · rw [hm] at hpl; simp only [toResp, Spec.ServerTsig.Resp.bytes.injEq] at hpl; rw [hpl]
    · rw [hm] at hpl; simp [toResp] at hpl
    · rw [hm] at hpl; simp [toResp] at hpl
  · intro a key kn' nowT' e1 e2 e3 e4
    have hkw : kn'.wire = Tsig.lowerName kn.wire := by rw [ServerAnswer.parse_wire _ _ e4, h.ht]; rfl
    have hkl : kn'.wire.length = kn.wire.length := by rw [hkw]; simp [Tsig.lowerName]
    have e2' := e2
    rw [h.ht] at e2'
    rw [reserved_of_auth kn alg h.halg kn' hkl a e2' t.mac key.secret t nowT']
    have e0 : (fieldsOf alg.labels rest).algName = alg.labels := rfl
    rw [e0, canonName_length kn h.hkn, canonName_length alg h.halg] at hroom
    simp only [macOther]
    rw [← il]
    cases tr with
    | udp => simp only [decide_true, if_true] at hroom; unfold ServerContent.limOf; omega
    | tcp =>
      have : decide (Transport.tcp = Transport.udp) = false := by decide
      simp only [this, Bool.false_eq_true, if_false] at hroom
      unfold ServerContent.limOf; omega

open QV.ServerScan in
/-- **`C10_full` from row 3**: requests that do not reach a TSIG record (`C10_audit_pre_tsig`), rejected
    requests (`C10_audit_rejected`), authenticated requests with a no-data verdict (`C10_audit_row2`)
    and replies whose TSIG does not fit (`C10_audit_nofit`) pass the audit; the rows are exhaustive
    (`C10_rows_exhaustive`) — so `C10_full` holds as soon as row 3 does -/
theorem C10_of_row3 (h3 : C10_row3) : C10_full := by
  intro cfg cat tr now req hnow hcfg hzt hpay hp16 hreq hk
  simp only
  by_cases hr : (Spec.Server.specScan cat cfg.payload req).respond = true
  · by_cases hv : (Spec.Server.specScan cat cfg.payload req).verdict = .tsigReached
    · obtain ⟨nowT, t, mw, r', question, d, kn, alg, rest, h⟩ :=
        auditRun_exists cfg cat tr now req hnow hpay hp16 hreq hk hr hv
      obtain ⟨hrM, _, _, _⟩ := h.scanM
      obtain ⟨a1, a2⟩ := C10_audit_scan_agrees cfg cat req
      obtain ⟨b, hb⟩ := ServerScan.signed_response_exists cfg hcfg tr now 65535 req (minBuf_le tr _ hp16) hpay hreq
        hnow hrM (a2.mp hv)
      obtain ⟨hrows, _⟩ := C10_rows_exhaustive cfg tr now 65535 req (minBuf_le tr _ hp16) hpay hrM t mw r' question
        h.hrun b hb
      rcases hrows with h1 | h2 | h3' | h4
      · exact C10_audit_rejected cfg cat tr now req hpay hp16 hk h h1 b hb _
      · exact C10_audit_row2 cfg cat tr now req hpay hp16 hreq hk h h2 b hb
      · exact h3 cfg cat tr now req hnow hcfg hzt hpay hp16 hreq hk nowT t mw r' question d kn alg rest h h3' b hb
      · exact C10_audit_nofit cfg cat tr now req hpay hp16 h h4 b hb _
    · exact C10_audit_pre_tsig cfg hcfg cat tr now req hpay hp16 hreq _ (Or.inr hv)
  · exact C10_audit_pre_tsig cfg hcfg cat tr now req hpay hp16 hreq _
      (Or.inl (by cases hh : (Spec.Server.specScan cat cfg.payload req).respond <;> simp_all))

/-- **`C10_full`, modulo the one named hypothesis**: every clause of the audit, for every configuration,
    transport, clock and request, holds as soon as `ScratchIndepI` (writer) does — the whole
    server-side walk and the decoder side are proved. -/
theorem C10_full_of (hSI : ServerContent.ScratchIndepI) : C10_full :=
  C10_of_row3 (C10_row3_of_compare (C10_row3_compare_of hSI))

/-! ## non-vacuity: concrete instances of the hypotheses used above -/

/-- a writer as `handle_message` sets it up over TCP (65535 zeroed octets, header only) -/
def exState : State :=
  { octets := Array.replicate 65535 0, cursor := 12, limit := 65535, available := 65535, rrStart := 12,
    sect := .question, qdcount := 0, ancount := 0, nscount := 0, arcount := 0, qname := none,
    mostRecentOwner := none, mostRecentNameInRdata := none, mode := .standard, edns := none, tsig := none }

example : 12 ≤ exState.octets.size ∧ NoRecords exState ∧ exState.tsig = none := by
  refine ⟨by simp [exState], ⟨rfl, rfl, rfl⟩, rfl⟩

example : FreshTcp exState := by
  refine ⟨by simp [exState], ?_, rfl, rfl, Or.inl ⟨rfl, rfl, rfl⟩⟩
  simp [TcClear, getBit, Writer.hdr, exState, Gen.TC_BYTE]

/-- the same writer over UDP with a long question: 512 octets, cursor at 280 — a TSIG RR with a
    255-octet key name does not fit (the D03 shape), one with a short key name does -/
def exUdp : State := { exState with limit := 512, available := 512, cursor := 280, rrStart := 280 }

/-- key name `key.` and the TSIG RR of a request signed with HMAC-SHA256 -/
def exKn : WName := ⟨[[107, 101, 121]]⟩
def exRr : ReadTsigRr :=
  readOf [3, 107, 101, 121, 0] (Algorithm.name .HmacSha256) ⟨0, 0, 0x5f, 0x5e, 0x10, 0⟩ 300
    (List.replicate 32 7) 1 0 []
def exNow : TimeSigned := ⟨0, 0, 0x5f, 0x5e, 0x10, 100⟩

example : WName.parse exRr.keyName = some (exKn, []) := by decide
example : WName.parse exRr.algorithm = some (algName .hmacSha256, []) := by decide +kernel
example : lowerName exRr.algorithm = exRr.algorithm := by decide
example : exRr.mac.length = exRr.macSize := by
  show (readOf _ _ _ _ _ _ _ _).mac.length = _
  rw [readOf_mac]; rfl
example : Abstracts exRr.vars
    { keyName := [[107, 101, 121]], algName := [[104, 109, 97, 99, 45, 115, 104, 97, 50, 53, 54]],
      timeSigned := 1600000000, fudge := 300, error := 0, other := [] } := by
  show Abstracts (readOf _ _ _ _ _ _ _ _).vars _
  rw [readOf_vars]
  exact ⟨by decide, by decide, rfl, rfl, by decide, by decide, by decide, by decide⟩
example : MsgOk [0, 1, 0, 0, 0, 1, 0, 0, 0, 0, 0, 1, 0, 0, 1, 0, 1] := by decide

/-- all three rows of the lookup part of the table are inhabited -/
example : Algorithm.fromName [3, 109, 100, 53, 0] = none := by decide
example : Algorithm.fromName exRr.algorithm = some .HmacSha256 := by decide
example : findKey [] exRr.keyName .HmacSha256 = none := rfl
example : findKey [⟨[3, 107, 101, 121, 0], .HmacSha1, [1, 2, 3]⟩] exRr.keyName .HmacSha256 = none := by decide
example : findKey [⟨[3, 107, 101, 121, 0], .HmacSha256, [1, 2, 3]⟩] exRr.keyName .HmacSha256 =
    some ⟨[3, 107, 101, 121, 0], .HmacSha256, [1, 2, 3]⟩ := rfl

/-- fits / does not fit -/
example : TsigFits exState (.response .hmacSha256 exRr.mac [1, 2, 3]) (prepOf exKn exRr exNow 0) := by
  refine ⟨rfl, ?_, by decide⟩
  show 12 + (exKn.wire.length + (algName .hmacSha256).wire.length + 26 + 0 + 32) ≤ 65535
  have : (algName .hmacSha256).wire.length ≤ 255 := algName_wire_le _
  have : exKn.wire.length = 5 := by decide
  omega

example (long : WName) (h : long.wire.length = 255) :
    ¬ TsigFits exUdp (.unsigned (algName .hmacSha256)) (prepOf long exRr exNow 17) := by
  rintro ⟨_, hfit, _⟩
  have : reservedLen (.unsigned (algName .hmacSha256)) (prepOf long exRr exNow 17) ≥ 255 + 26 := by
    simp only [reservedLen, unsignedLen, prepOf]; omega
  have hc : exUdp.cursor = 280 := rfl
  have ha : exUdp.available = 512 := rfl
  omega

/-- a prepared RR as the table produces it is well formed in the sense of (d) -/
example : RrWF (prepOf exKn exRr exNow 18) :=
  ⟨by decide, rfl, rfl, by decide, UInt16.toNat_lt _, by decide⟩

/-- a MAC primitive with tags of the right size exists, so `hlen` of (d) is satisfiable -/
example : ∀ d, ((fun (a : Algorithm) (_ _ : Octets) => List.replicate a.outputSize (0 : UInt8))
    (ofWriterAlg .hmacSha256) [1, 2, 3] d).length ≤ 65000 := by
  intro d; simp [ofWriterAlg, Hmac.Alg.outputSize]

/-- **C10.** The property at full strength (as amended in the header: `CfgWF`, 16-bit payload,
    `KeysOK`, `ZonesTyped`; oracle guards `plainComparable`, room, SERVFAIL): for every request,
    the executable audit of `Spec.ServerTsig` finds nothing to object to in the response of
    `handle_message`. Both writer-level obligations are discharged: `scratchIndepI`
    (Proofs/ServerScratchIndep.lean) and `decodeCongrT` (Proofs/ServerDecodeCongr.lean, inside
    `C10_full_of`). -/
theorem C10 : C10_full := C10_full_of ServerContent.scratchIndepI

end QV.C10
