/-
  C28 — Rate limiting counts correctly under concurrent requests.

  "When many threads handle requests of the same stream concurrently within one second, exactly
   min(requests, rate×window) responses are sent and the rest are limited; no update to the shared
   bucket is lost or double-counted."

  Model: `QV.Model.RrlConc` — `n` threads, each running the four instructions of
  `process_response`'s critical section (`lock`, `read`, `write`, `unlock`) on the shared bucket
  entry; the body is `QV.Rrl.processBucket`, the function C26 is about. A schedule is any list
  of thread ids; an instruction that is not enabled (taking a held mutex) cannot be scheduled.
  Spec:  `QV.Spec.Rrl.burstSent n tokens = min n tokens`.

  **Partial with respect to the real runtime — stated, not hidden.** The theorems quantify over
  *all interleavings of the modelled instructions*. That `std::sync::Mutex` really provides
  mutual exclusion and publishes the previous holder's writes (memory ordering), that the OS
  scheduler preempts only between such steps' observable effects, and that no thread dies inside
  the critical section, are assumptions; they are exercised, not proved, by the stress op `burst`
  (1–16 OS threads on one stream within one second, counts compared with this model).
  `C28_split_lock_loses_updates` shows the model is not blind: the same system running a variant
  that drops the guard between read and write violates the property.
-/
import QV.Proofs.RrlConc

namespace QV.C28
open QV QV.Rrl QV.Rrl.Conc

/-- **Main theorem: any interleaving.** `n` threads handle one response each of one stream (key
    `env.key`), reading the clock within one second of each other and of the bucket's last
    refill; the bucket starts with `used` tokens taken (`0` if it holds another key or is fresh).
    For **every** schedule that runs all threads to completion:
    exactly `min n (cap − used)` responses are sent, all `n` are accounted for (sent + slipped +
    dropped = n), the bucket's counter ends at `min (used + n) cap` — no update lost, none counted
    twice — and the limited ones are all dropped when slip = 0, all slipped when slip = 1. -/
theorem C28_any_interleaving (env : Env) (hprog : env.prog = progLocked) (hv : env.p.Valid) (n : Nat)
    (hw : WithinOneSecond env n) (e₀ : Entry) (hg : Good env n e₀) (sched : List Nat) (s : State)
    (hex : exec env (init e₀ n) sched = some s) (hfin : finished env s) :
    s.sent = Spec.Rrl.burstSent n (capOf env.p env.key.category - used env.key e₀) ∧
    s.sent + s.slipped + s.dropped = n ∧
    used env.key s.entry = min (used env.key e₀ + n) (capOf env.p env.key.category) ∧
    (env.p.slip = 0 → s.slipped = 0) ∧ (env.p.slip = 1 → s.dropped = 0) := by
  have hinv := inv_exec hprog hv hw sched _ _ (inv_init e₀ hg) hex
  have hall : s.threads.countP (fun t => decide (3 ≤ t.pc)) = s.threads.length := by
    rw [List.countP_eq_length]
    intro t ht
    have := hfin t ht
    rw [hprog] at this
    simp [this, progLocked]
  have hm : s.sent + s.slipped + s.dropped = n := by rw [hinv.done_eq, hall, hinv.len]
  have h1 := hinv.sent_eq
  have h2 := hinv.used_eq
  rw [hm] at h1 h2
  exact ⟨h1, hm, h2, hinv.slip0, hinv.slip1⟩

/-- The same at **every** moment of **every** (also incomplete) execution: the responses decided
    so far (`m` of them) are split exactly as a sequential run of `m` requests would split them. -/
theorem C28_every_reachable_state (env : Env) (hprog : env.prog = progLocked) (hv : env.p.Valid) (n : Nat)
    (hw : WithinOneSecond env n) (e₀ : Entry) (hg : Good env n e₀) (sched : List Nat) (s : State)
    (hex : exec env (init e₀ n) sched = some s) :
    s.sent = min (s.sent + s.slipped + s.dropped) (capOf env.p env.key.category - used env.key e₀) ∧
    used env.key s.entry =
      min (used env.key e₀ + (s.sent + s.slipped + s.dropped)) (capOf env.p env.key.category) ∧
    s.sent + s.slipped + s.dropped ≤ n := by
  have hinv := inv_exec hprog hv hw sched _ _ (inv_init e₀ hg) hex
  refine ⟨hinv.sent_eq, hinv.used_eq, ?_⟩
  rw [hinv.done_eq, ← hinv.len]
  exact List.countP_le_length

/-- **Schedule independence**: two complete executions of the same burst — in particular any
    interleaving and the sequential one-thread-after-the-other run — send, slip and… account for
    the same numbers of responses and leave the same counter. -/
theorem C28_schedule_independent (env : Env) (hprog : env.prog = progLocked) (hv : env.p.Valid) (n : Nat)
    (hw : WithinOneSecond env n) (e₀ : Entry) (hg : Good env n e₀) (sched₁ sched₂ : List Nat) (s₁ s₂ : State)
    (h₁ : exec env (init e₀ n) sched₁ = some s₁) (f₁ : finished env s₁)
    (h₂ : exec env (init e₀ n) sched₂ = some s₂) (f₂ : finished env s₂) :
    s₁.sent = s₂.sent ∧ s₁.slipped + s₁.dropped = s₂.slipped + s₂.dropped ∧
    used env.key s₁.entry = used env.key s₂.entry := by
  obtain ⟨a1, b1, c1, _, _⟩ := C28_any_interleaving env hprog hv n hw e₀ hg sched₁ s₁ h₁ f₁
  obtain ⟨a2, b2, c2, _, _⟩ := C28_any_interleaving env hprog hv n hw e₀ hg sched₂ s₂ h₂ f₂
  refine ⟨by rw [a1, a2], ?_, by rw [c1, c2]⟩
  omega

/-- **No deadlock**: in every reachable state in which some thread has not finished, some thread
    can take a step — so every partial schedule extends to a complete one and the theorems above
    are not vacuous. (Also: inside the critical section nothing panics or blocks.) -/
theorem C28_no_deadlock (env : Env) (hprog : env.prog = progLocked) (hv : env.p.Valid) (n : Nat)
    (hw : WithinOneSecond env n) (e₀ : Entry) (hg : Good env n e₀) (sched : List Nat) (s : State)
    (hex : exec env (init e₀ n) sched = some s) (hnf : ¬ finished env s) :
    ∃ i s', step env s i = some s' :=
  progress hprog hv hw s (inv_exec hprog hv hw sched _ _ (inv_init e₀ hg) hex) hnf

/-- **Mutual exclusion** is an invariant of the modelled protocol: at most the mutex owner is
    between `lock` and `unlock`. -/
theorem C28_mutual_exclusion (env : Env) (hprog : env.prog = progLocked) (hv : env.p.Valid) (n : Nat)
    (hw : WithinOneSecond env n) (e₀ : Entry) (hg : Good env n e₀) (sched : List Nat) (s : State)
    (hex : exec env (init e₀ n) sched = some s) (i j : Nat) (ti tj : Thread)
    (hi : s.threads[i]? = some ti) (hj : s.threads[j]? = some tj)
    (ci : 1 ≤ ti.pc ∧ ti.pc ≤ 3) (cj : 1 ≤ tj.pc ∧ tj.pc ≤ 3) : i = j := by
  have hinv := inv_exec hprog hv hw sched _ _ (inv_init e₀ hg) hex
  have a := (hinv.pcs i ti hi).2.1.mp ci
  have b := (hinv.pcs j tj hj).2.1.mp cj
  rw [a] at b
  cases b; rfl

/-! ### non-vacuity and contrast -/

/-- limit of one response per second -/
def exP : RrlParams :=
  { noerror_rate := 1, nxdomain_rate := 1, error_rate := 1, window := 1, slip := 0,
    ipv4_netmask := 0, ipv6_netmask := 0, size := 1 }

def exKey : Key := { dest := 1, ipv6 := false, qname_hash := 1, category := .NoError }

def exEntry : Entry := { key := initialKey, count := 0, last_refill := 0 }

def exEnv (prog : List Instr) : Env :=
  { p := exP, key := exKey, prog, inputs := fun _ => { now := 5, rnd := false } }

theorem exP_valid : exP.Valid := by
  refine ⟨?_, by decide, ?_, by decide⟩ <;> intro c <;> cases c <;> simp [capOf, rateOf, exP, U32_MAX]

example : WithinOneSecond (exEnv progLocked) 2 ∧ Good (exEnv progLocked) 2 exEntry := by
  refine ⟨fun i j _ _ => by simp only [exEnv, NANOS_PER_SEC]; omega, fun h => ?_⟩
  simp [exEnv, exEntry, exKey, initialKey] at h

/-- two threads fully interleaved on the locked program: one sent, one dropped, counter 1 -/
example :
    (exec (exEnv progLocked) (init exEntry 2) [0, 0, 0, 0, 1, 1, 1, 1]).map
      (fun s => (s.sent, s.dropped, s.entry.count)) = some (1, 1, 1) := by decide

/-- a schedule that tries to take the held mutex is not an execution -/
example : exec (exEnv progLocked) (init exEntry 2) [0, 1] = none := by decide

/-- **Contrast.** The variant that releases the mutex between reading and writing the entry
    (`progSplit`) loses an update: both threads see an empty bucket, both responses are sent
    although the limit is one, and the counter ends at 1. The property fails for it. -/
theorem C28_split_lock_loses_updates :
    (exec (exEnv progSplit) (init exEntry 2) [0, 0, 0, 1, 1, 1, 0, 0, 0, 1, 1, 1]).map
      (fun s => (s.sent, s.dropped, s.entry.count)) = some (2, 0, 1) ∧
    Spec.Rrl.burstSent 2 (capOf exP .NoError - used exKey exEntry) = 1 := by decide

end QV.C28
