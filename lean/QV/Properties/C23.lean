/-
  C23 — Zone files parse to exactly the records they describe.   (work in progress)
-/
import QV.Proofs.ZoneFile.Parser

namespace QV.C23
open QV QV.ZF

/-- concrete witness (not the general claim): `$ORIGIN t.` / `@ 5 IN NS ( a ) ; c` / ` TXT "x y" z`
    parses to the two records it denotes, with their line numbers -/
theorem C23_witness :
    parseAll ("$ORIGIN t.\n@ 5 IN NS ( a\n ) ; c\n TXT \"x y\" z\n".toUTF8.toList) {} =
      [.item (.record 2 ⟨[1, 116, 0], 5, 1, 2, [1, 97, 1, 116, 0]⟩),
       .item (.record 4 ⟨[1, 116, 0], 5, 1, 16, [3, 120, 32, 121, 1, 122]⟩)] := by
  decide +kernel

end QV.C23
