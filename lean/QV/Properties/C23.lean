/-
  C23 — Zone files parse to exactly the records they describe.

  "Any zone file written in RFC 1035 §5 master-file syntax parses to exactly the records it
   denotes, in order, with their line numbers. This covers any mix of omitted or reordered TTL
   and class fields, omitted owners, relative names, '@', $ORIGIN and $TTL directives,
   parentheses across lines, comments, quoted and unquoted strings, escape sequences, RFC 3597
   generic RDATA and CRLF line endings."

  Model: `QV.Model.ZoneFile.*`.  Spec: `QV.Spec.ZoneFile` — a presentation AST with the
  writer's choices, `render…` to octets and `denote…` to records; nothing there mentions the
  parser.  The theorems have the shape  `WF p → parse (render p) = denote p`  and are staged
  bottom-up; every stage is a theorem for ALL presentations of its kind (no bounds).

  PROVED (full strength for the stated forms)
   * integer fields; `\X` and `\DDD` escapes; domain names in any mix of raw / `\X` / `\DDD`
     octet forms (incl. escaped dots, blanks, newlines, with the line count): absolute names,
     relative names completed with the origin, `@`; the lexical layer on blanks, comments and
     line ends;
   * TYPE and CLASS fields: the mnemonics (A NS MD MF CNAME SOA MB MG MR WKS PTR HINFO MINFO MX
     TXT AAAA SRV; IN CH HS) in any mix of upper and lower case, and `TYPEnnn` / `CLASSnnn`;
   * RDATA (`C23_rdata_partial`): `\# len hex` for any class and type, checked against
     `Rdata::validate`; and the typed syntaxes of A (IN), NS MD MF CNAME MB MG MR PTR (one name),
     MX, SOA, MINFO, SRV (IN), TXT, HINFO, AAAA (IN; eight hexadecimal groups written in full) —
     names absolute, relative or `@`, in any octet forms;
     character-strings quoted or unquoted, each octet raw, `\X` or `\DDD`, with raw newlines inside
     quotes; all with the lines they span;
   * gaps and line ends (`C23_gaps`): between fields any mix of blanks, `(`, `)` and — inside
     parentheses — line ends (LF or CRLF) with optional comments; at the end of a record or line
     such a gap that closes the parentheses, an optional comment, LF or CRLF; the line count and
     the parenthesis state follow;
   * records assembled from these, with TTL and class each written or omitted, in either order (context
     defaults: `$TTL` default before previous TTL; previous class), owner absolute / relative /
     `@` / omitted (a leading blank ⇒ previous owner); all gaps of a record general (so records
     may span lines in parentheses opened anywhere, the usual `SOA ( … )` style included);
     `$ORIGIN`, `$TTL` and `$INCLUDE` directive lines (the latter yield the include request with
     the path — a quoted or unquoted string — and the origin given or current); blank and
     comment-only lines; every line ending LF or CRLF;
   * whole files of such entries: exactly the denoted records, in order, with line numbers
     (`C23_records_partial`).
  NOT PROVED (the gap; the name says `_partial`)
     AAAA addresses written with `::` or an IPv4 suffix, the typed RDATA syntaxes of WKS and
     Chaosnet A (not in the presentation AST: in the subset they can be written in `\#` form); parentheses (and therefore line ends) inside
     directive lines — there the fields are separated by blanks only; a last line without
     newline.  These are covered on every run by the correspondence
     oracle, which is independent of these proofs: the harness's pretty-printer renders random
     record lists with random choices for *all* of the above and the expected parse is the
     generating record list (op `zfp`, spec column = expected records).
-/
import QV.Proofs.ZoneFile.Files

namespace QV.C23
open QV QV.ZF QV.Spec.ZF

/-! ### fields -/

/-- decimal integer fields read back (`u8`/`u16`/`u32::from_str` through `read_field`) -/
theorem C23_integer_field (max n : Nat) (hn : n ≤ max) (hmax : max < 10 ^ 10) (k : Kind)
    (rest : List UInt8) (hrest : atFieldEnd rest = true) (line : Nat) (paren : Bool) :
    readField (parseUInt max) k ⟨decimal n ++ rest, line, paren⟩ = .ok (n, ⟨rest, line, paren⟩) :=
  readField_decimal max n hn hmax k rest hrest line paren

/-- `\X` (X not a digit) and `\DDD` read back as the octet they stand for -/
theorem C23_escapes (b : UInt8) (rest : List UInt8) (line : Nat) :
    (isDigit b = false → parseEscapeL (b :: rest) line = .ok (b, rest, if b == 10 then line + 1 else line)) ∧
    parseEscapeL (digitOctet (b.toNat / 100) :: digitOctet (b.toNat / 10 % 10) :: digitOctet (b.toNat % 10) :: rest) line
      = .ok (b, rest, line) :=
  ⟨parseEscapeL_esc b rest line, parseEscapeL_dec b rest line⟩

/-- absolute domain names, every octet written raw (if harmless), as `\X` or as `\DDD` -/
theorem C23_absolute_name (origin : Option (List UInt8)) (ls : List PLabel) (hne : ls ≠ [])
    (hforms : ∀ l ∈ ls, ∀ x ∈ l, nameFormOK x.1 x.2 = true)
    (hLs : LabelsOK (ls.map labelOctets))
    (htotal : (flatLabels (ls.map labelOctets)).length + 1 ≤ 255)
    (rest : List UInt8) (hrest : atFieldEnd rest = true) (line : Nat) (paren : Bool) :
    parseName origin ⟨renderAbsName ls ++ rest, line, paren⟩ =
      .ok (wireName (ls.map labelOctets), ⟨rest, line + nameLines (.abs ls), paren⟩) :=
  parseName_abs origin ls hne hforms hLs htotal rest hrest line paren

/-- relative names are completed with the origin; `@` is the origin -/
theorem C23_relative_name (o : List UInt8) (ho : NameWF o) (ls : List PLabel) (l : PLabel)
    (hforms : ∀ l' ∈ ls ++ [l], ∀ x ∈ l', nameFormOK x.1 x.2 = true)
    (hLs : LabelsOK ((ls ++ [l]).map labelOctets))
    (htotal : (wireLabels ((ls ++ [l]).map labelOctets)).length + o.length ≤ 255)
    (hnotat : renderLabels (ls ++ [l]) ≠ [64])
    (rest : List UInt8) (hrest : atFieldEnd rest = true) (line : Nat) (paren : Bool) :
    parseName (some o) ⟨renderLabels (ls ++ [l]) ++ rest, line, paren⟩ =
      .ok (wireLabels ((ls ++ [l]).map labelOctets) ++ o, ⟨rest, line + nameLines (.rel ls l), paren⟩) ∧
    parseName (some o) ⟨64 :: rest, line, paren⟩ = .ok (o, ⟨rest, line, paren⟩) :=
  ⟨parseName_rel o ho ls l hforms hLs htotal hnotat rest hrest line paren, parseName_at o rest hrest line paren⟩

/-- a name field — absolute, relative or `@` — is read as the name it denotes, wherever a name
    is expected (owner, RDATA, `$ORIGIN`) -/
theorem C23_name_field (origin : Option (List UInt8)) (hO : ∀ o, origin = some o → NameWF o) (n : PName)
    (hwf : WFName n) (w : List UInt8) (hw : nameWire origin n = some w) (rest : List UInt8)
    (hrest : atFieldEnd rest = true) (line : Nat) (paren : Bool) :
    parseName origin ⟨nameText n ++ rest, line, paren⟩ = .ok (w, ⟨rest, line + nameLines n, paren⟩) :=
  (nameText_ok origin hO n hwf w hw).parse rest line paren hrest

/-- `CLASSnnn` and `TYPEnnn` (RFC 3597 §5) -/
theorem C23_class_type_forms (n : Nat) (hn : n ≤ 65535) :
    parseClass (renderClass n) = some n ∧ parseType (renderType n) = some n :=
  ⟨parseClass_render n hn, parseType_render n hn⟩

/-- TYPE and CLASS fields, mnemonic (any case) or numeric form: read as their value, and never
    mistaken for a TTL (or, a type, for a class) -/
theorem C23_mnemonics (c : PCode) :
    (WFType c → parseType (typeText c) = some c.value ∧ parseU32 (typeText c) = none ∧
      parseClass (typeText c) = none) ∧
    (WFClass c → parseClass (classText c) = some c.value ∧ parseU32 (classText c) = none) :=
  ⟨fun h => ⟨(typeText_ok c h).parse, (typeText_ok c h).notU32, (typeText_ok c h).notClass⟩,
   fun h => ⟨(classText_ok c h).parse, (classText_ok c h).notU32⟩⟩

/-- RFC 3597 generic RDATA, for any class and type -/
theorem C23_generic_rdata (ctx : Ctx) (cls ty : Nat) (h41 : ty ≠ 41) (h250 : ty ≠ 250)
    (sep rd ws cmt r : List UInt8) (hne : sep ≠ []) (hsep : ∀ x ∈ sep, isWs x = true)
    (hlen : rd.length ≤ 65535) (hvalid : Rdata.validate cls ty rd.toArray = .ok ())
    (hws : ∀ x ∈ ws, isWs x = true) (hc : commentOK cmt) (line : Nat) :
    parseRdata ctx cls ty ⟨sep ++ 92 :: 35 :: (genericTail sep rd ++ (ws ++ (cmt ++ 10 :: r))), line, false⟩ =
      .ok (rd, ⟨r, line + 1, false⟩) :=
  parseRdata_generic ctx cls ty h41 h250 sep rd ws cmt r hne hsep hlen hvalid hws hc line

/-- **RDATA**, generic or typed (the kinds of `PRdata`: `\#`, A, one-name types, MX, SOA, MINFO,
    SRV, TXT, HINFO, AAAA), with any well-formed gaps — blanks, parentheses, line ends and comments
    inside parentheses — before (`G 0`), inside (`G (i+1)`) and after it (`tg`), up to the end of
    the line (LF or CRLF): the text is read as the RDATA it denotes; the line count advances by
    the line ends inside gaps, names and strings plus one, and the parentheses are closed.
    `S i` is "inside parentheses" before gap `i`. -/
theorem C23_rdata_partial (ctx : Ctx) (hctx : CtxWF ctx) (cls ty : Nat) (h41 : ty ≠ 41) (h250 : ty ≠ 250)
    (G : Nat → PGap) (S : Nat → Bool) (tg : PGap) (cmt : List UInt8) (crlf : Bool) (r : List UInt8)
    (rd : PRdata) (hG : ∀ i, i ≤ rdataGaps rd → GapOK (G i) (S i) (S (i + 1)))
    (hT : TailOK tg cmt (S (rdataGaps rd + 1))) (hwf : WFRdata rd)
    (hk : kindOK cls ty rd = true) (w : List UInt8) (hw : rdataWire ctx.origin rd = some w)
    (hv : ∀ g, rd = .generic g → Rdata.validate cls ty g.toArray = .ok ()) (line : Nat) :
    parseRdata ctx cls ty
      ⟨gapText (G 0) ++ (rdataText (fun i => G (i + 1)) rd ++ (tailText tg cmt crlf ++ r)), line, S 0⟩ =
      .ok (w, ⟨r, line + gapLines (G 0) + rdataLines (fun i => G (i + 1)) rd + gapLines tg + 1, false⟩) :=
  parseRdata_render ctx hctx cls ty h41 h250 G S tg cmt crlf r rd hG hT hwf hk w hw hv line

/-- **Gaps and line ends** (the lexical layer): a well-formed gap is skipped up to the next
    field, with the line count and parenthesis state it implies; the end of a record or line —
    a gap that leaves the parentheses, an optional comment, LF or CRLF — is recognised as such -/
theorem C23_gaps (thr : Bool) (g : PGap) (p p' : Bool) (hg : GapOK g p p') (X : List UInt8) (hX : Starts X)
    (tg : PGap) (cmt : List UInt8) (q : Bool) (hT : TailOK tg cmt q) (crlf : Bool) (r : List UInt8) (line : Nat) :
    fieldOrEol thr (gapText g ++ X) line p = .ok (.Field, ⟨X, line + gapLines g, p'⟩) ∧
    fieldOrEol true (tailText tg cmt crlf ++ r) line q = .ok (.Eol, ⟨r, line + gapLines tg + 1, false⟩) :=
  ⟨fieldOrEol_gapG thr g p p' hg.wf hg.run X hX line, fieldOrEol_tail tg cmt q hT crlf r line⟩

example : fieldOrEol false (gapText [.blank false, .openParen, .newline [59, 120] true, .blank true] ++ [97]) 1 false =
      .ok (.Field, ⟨[97], 2, true⟩) ∧
    fieldOrEol true (tailText [.newline [] false, .closeParen, .blank false] [59, 120] true ++ [97]) 1 true =
      .ok (.Eol, ⟨[97], 3, false⟩) :=
  C23_gaps false [.blank false, .openParen, .newline [59, 120] true, .blank true] false true
    (GapOK_of_B (by decide)) [97] ⟨97, [], rfl, .inr (by decide)⟩
    [.newline [] false, .closeParen, .blank false] [59, 120] true (TailOK_of_B (by decide)) true [97] 1

/-! ### records and files -/

/-- one record line ↦ the record it denotes, and the context it leaves -/
theorem C23_record_partial (ctx : Ctx) (hctx : CtxWF ctx) (p : PRecord) (hwf : WFRecord p) (line : Nat)
    (r : List UInt8) (sr : SRecord) (sc' : SCtx)
    (hden : denoteRecord validB (toSCtx ctx) line p = some (sr, sc')) :
    ∃ ctx', parseLine ctx ⟨renderRecord p ++ r, line, false⟩ =
        .ok ((some (.record sr.line ⟨sr.owner, sr.ttl, sr.cls, sr.ty, sr.rdata⟩), ctx'),
             ⟨r, line + recordLines p + 1, false⟩) ∧
      toSCtx ctx' = sc' :=
  parseLine_record ctx hctx p hwf line r sr sc' hden

/-- **Whole files (the subset above).**  For every list of well-formed entries and every
    well-formed initial context in which the file denotes the records `srs` (`validB`: RDATA
    written in RFC 3597 form must be valid for its class and type, as RFC 3597 §5 asks): the
    parser yields exactly `srs`, in order, with their line numbers, and nothing else. -/
theorem C23_records_partial (es : List PEntry) (hwf : ∀ e ∈ es, WFEntry e) (ctx : Ctx) (hctx : CtxWF ctx)
    (srs : List SItem) (hden : denoteFile validB es (toSCtx ctx) 1 = some srs) :
    parseAll (renderFile es) ctx = srs.map itemOf :=
  collect_file es hwf ctx hctx 1 srs hden

/-! ### non-vacuity -/

example : WFType (.mnemonic [110, 83] 2) ∧ WFClass (.mnemonic [105, 110] 1) :=
  ⟨⟨"NS", by decide, by decide +kernel⟩, ⟨"IN", by decide, by decide +kernel⟩⟩

private theorem mIN : WFClass (.mnemonic [105, 78] 1) := ⟨"IN", by decide, by decide +kernel⟩
private theorem mNs : WFType (.mnemonic [78, 115] 2) := ⟨"NS", by decide, by decide +kernel⟩
private theorem mMx : WFType (.mnemonic [109, 120] 15) := ⟨"MX", by decide, by decide +kernel⟩
private theorem mSoa : WFType (.mnemonic [83, 79, 65] 6) := ⟨"SOA", by decide, by decide +kernel⟩
private theorem mSrv : WFType (.mnemonic [83, 114, 118] 33) := ⟨"SRV", by decide, by decide +kernel⟩
private theorem mA : WFType (.mnemonic [97] 1) := ⟨"A", by decide, by decide +kernel⟩
private theorem mTxt : WFType (.mnemonic [116, 120, 116] 16) := ⟨"TXT", by decide, by decide +kernel⟩
private theorem mHinfo : WFType (.mnemonic [72, 105, 110, 102, 111] 13) := ⟨"HINFO", by decide, by decide +kernel⟩
private theorem mAaaa : WFType (.mnemonic [97, 65, 97, 65] 28) := ⟨"AAAA", by decide, by decide +kernel⟩
private theorem mMinfo : WFType (.mnemonic [77, 73, 78, 70, 79] 14) := ⟨"MINFO", by decide, by decide +kernel⟩

private def nA : PName := .rel [] [(97, .raw)]
private def nMail : PName := .abs [[(109, .raw), (92, .esc), (10, .esc)], [(120, .dec)]]
/-- `"a<newline>b\""`, `c\;d`, `\100` -/
private def sQ : PString := ⟨true, [(97, .raw), (10, .raw), (98, .raw), (34, .esc)]⟩
private def sU : PString := ⟨false, [(99, .raw), (59, .esc), (100, .raw)]⟩
private def sD : PString := ⟨false, [(100, .dec)]⟩

/-- the text (`¶` = LF, `¬` = CRLF, `→` = tab):
    `$ORIGIN t.¶` `a\.b.\010c. iN 5 TYPE1 \# 4 01020304 ;x¬` `→¬` ` →TYPE16→\#(2;h¶ 0161)¶` `$TTL 9¬`
    `w CLASS3 TYPE99 \# 0¶` `@ Ns a¶` ` mx 10 m\\\¶.\120.¶` ` SOA @ a ( 1 ;s¬ 2¶→3 4 4294967295 ) ;d¶`
    `a→( 7;¶→iN ) Srv 1 2 3 @¶` ` MINFO a m\\\¶.\120. ;¶` ` a (192.0.2.1)¬` ` (txt "a¶b\"" c\;d¬ \100)¶`
    ` Hinfo "" \100¶` ` aAaA 2001:db8:0:0:0:0:ff:ffff¶` `$INCLUDE "x y" a¶` `$INCLUDE→z ;¬` -/
def exFile : List PEntry :=
  [.origin [[(116, .raw)]] [32] [] [] false,
   .record ⟨.named (.abs [[(97, .raw), (46, .esc), (98, .raw)], [(10, .dec), (99, .raw)]]), some 5,
      some (.mnemonic [105, 78] 1), true, .generic 1, .generic [1, 2, 3, 4], [], [], [.blank false], [59, 120], true⟩,
   .blank [9] [] true,
   .record ⟨.same, none, none, false, .generic 16, .generic [1, 97], [[.blank false, .blank true]],
      [[.blank true], [.openParen], [.newline [59, 104] false, .blank false]], [.closeParen], [], false⟩,
   .ttl 9 [32] [] [] true,
   .record ⟨.named (.rel [] [(119, .raw)]), none, some (.generic 3), false, .generic 99, .generic [], [], [], [], [], false⟩,
   .record ⟨.named .atSign, none, none, true, .mnemonic [78, 115] 2, .name nA, [], [], [], [], false⟩,
   .record ⟨.same, none, none, true, .mnemonic [109, 120] 15, .mx 10 nMail, [], [], [], [], false⟩,
   .record ⟨.same, none, none, true, .mnemonic [83, 79, 65] 6, .soa .atSign nA 1 2 3 4 4294967295, [],
      [[.blank false], [.blank false], [.blank false, .openParen, .blank false],
       [.blank false, .newline [59, 115] true, .blank false], [.newline [] false, .blank true]],
      [.blank false, .closeParen, .blank false], [59, 100], false⟩,
   .record ⟨.named nA, some 7, some (.mnemonic [105, 78] 1), false, .mnemonic [83, 114, 118] 33,
      .srv 1 2 3 .atSign,
      [[.blank true, .openParen, .blank false], [.newline [59] false, .blank true], [.blank false, .closeParen, .blank false]],
      [], [], [], false⟩,
   .record ⟨.same, none, none, true, .mnemonic [77, 73, 78, 70, 79] 14, .minfo nA nMail, [], [], [.blank false], [59], false⟩,
   .record ⟨.same, none, none, true, .mnemonic [97] 1, .a 192 0 2 1, [], [[.blank false, .openParen]], [.closeParen], [], true⟩,
   .record ⟨.same, none, none, true, .mnemonic [116, 120, 116] 16, .txt sQ [sU, sD], [[.blank false, .openParen]],
      [[.blank false], [.blank false], [.newline [] true, .blank false]], [.closeParen], [], false⟩,
   .record ⟨.same, none, none, true, .mnemonic [72, 105, 110, 102, 111] 13, .hinfo ⟨true, []⟩ sD, [], [], [], [], false⟩,
   .record ⟨.same, none, none, true, .mnemonic [97, 65, 97, 65] 28, .aaaa [8193, 3512, 0, 0, 0, 0, 255, 65535], [], [], [], [], false⟩,
   .incl ⟨true, [(120, .raw), (32, .raw), (121, .raw)]⟩ (some nA) [32] [32] [] [] false,
   .incl ⟨false, [(122, .raw)]⟩ none [9] [] [32] [59] true]

/-- the example file is well-formed and denotes twelve records and two include requests -/
theorem exFile_ok :
    (∀ e ∈ exFile, WFEntry e) ∧
    denoteFile validB exFile (toSCtx {}) 1 =
      some [.record ⟨2, [3, 97, 46, 98, 2, 10, 99, 0], 5, 1, 1, [1, 2, 3, 4]⟩,
            .record ⟨4, [3, 97, 46, 98, 2, 10, 99, 0], 5, 1, 16, [1, 97]⟩,
            .record ⟨7, [1, 119, 1, 116, 0], 9, 3, 99, []⟩,
            .record ⟨8, [1, 116, 0], 9, 3, 2, [1, 97, 1, 116, 0]⟩,
            .record ⟨9, [1, 116, 0], 9, 3, 15, [0, 10, 3, 109, 92, 10, 1, 120, 0]⟩,
            .record ⟨11, [1, 116, 0], 9, 3, 6, [1, 116, 0, 1, 97, 1, 116, 0, 0, 0, 0, 1, 0, 0, 0, 2, 0, 0, 0, 3,
              0, 0, 0, 4, 255, 255, 255, 255]⟩,
            .record ⟨14, [1, 97, 1, 116, 0], 7, 1, 33, [0, 1, 0, 2, 0, 3, 1, 116, 0]⟩,
            .record ⟨16, [1, 97, 1, 116, 0], 9, 1, 14, [1, 97, 1, 116, 0, 3, 109, 92, 10, 1, 120, 0]⟩,
            .record ⟨18, [1, 97, 1, 116, 0], 9, 1, 1, [192, 0, 2, 1]⟩,
            .record ⟨19, [1, 97, 1, 116, 0], 9, 1, 16, [4, 97, 10, 98, 34, 3, 99, 59, 100, 1, 100]⟩,
            .record ⟨22, [1, 97, 1, 116, 0], 9, 1, 13, [0, 1, 100]⟩,
            .record ⟨23, [1, 97, 1, 116, 0], 9, 1, 28, [32, 1, 13, 184, 0, 0, 0, 0, 0, 0, 0, 0, 0, 255, 255, 255]⟩,
            .incl 24 [120, 32, 121] (some [1, 97, 1, 116, 0]),
            .incl 25 [122] (some [1, 116, 0])] := by
  refine ⟨?_, by decide +kernel⟩
  have wfA : WFName nA := by unfold nA WFName; exact ⟨by decide, by simp [LabelsOK, labelOctets], by decide⟩
  have wfMail : WFName nMail := by
    unfold nMail WFName; exact ⟨by simp, by decide, by simp [LabelsOK, labelOctets], by decide⟩
  have noOwner : ∀ n : PName, POwner.same = .named n → WFName n ∧ (nameText n).head? ≠ some 36 := by
    intro n h; cases h
  intro e he
  simp only [exFile, List.mem_cons, List.mem_nil_iff, or_false] at he
  rcases he with rfl | rfl | rfl | rfl | rfl | rfl | rfl | rfl | rfl | rfl | rfl | rfl | rfl | rfl | rfl | rfl | rfl
  · exact ⟨⟨by simp, by decide, by simp [LabelsOK, labelOctets], by decide⟩, by simp, by decide, by decide, .inl rfl⟩
  · refine ⟨?_, by decide, ?_,
      ⟨by simp [WFType], by decide, by decide, by decide⟩, by simp [WFRdata], gaps_ok_of_B _ (by decide)⟩
    · intro n hn; cases hn
      exact ⟨⟨by simp, by decide, by simp [LabelsOK, labelOctets], by decide⟩, by decide⟩
    · intro c hc; cases hc; exact mIN
  · exact ⟨by decide, .inl rfl⟩
  · exact ⟨noOwner, by decide, (by intro c hc; cases hc),
      ⟨by simp [WFType], by decide, by decide, by decide⟩, by simp [WFRdata], gaps_ok_of_B _ (by decide)⟩
  · exact ⟨by decide, by simp, by decide, by decide, .inl rfl⟩
  · refine ⟨?_, by decide, ?_,
      ⟨by simp [WFType], by decide, by decide, by decide⟩, by simp [WFRdata], gaps_ok_of_B _ (by decide)⟩
    · intro n hn; cases hn
      exact ⟨⟨by decide, by simp [LabelsOK, labelOctets], by decide⟩, by decide⟩
    · intro c hc; cases hc; exact (by decide : (3 : Nat) ≤ 65535)
  · refine ⟨?_, by decide, (by intro c hc; cases hc),
      ⟨mNs, by decide, by decide, by decide⟩, ⟨wfA, by decide⟩, gaps_ok_of_B _ (by decide)⟩
    intro n hn; cases hn; exact ⟨trivial, by decide⟩
  · exact ⟨noOwner, by decide, (by intro c hc; cases hc),
      ⟨mMx, by decide, by decide, by decide⟩, ⟨by decide, wfMail⟩, gaps_ok_of_B _ (by decide)⟩
  · exact ⟨noOwner, by decide, (by intro c hc; cases hc),
      ⟨mSoa, by decide, by decide, by decide⟩,
      ⟨trivial, wfA, by decide, by decide, by decide, by decide, by decide, by decide⟩, gaps_ok_of_B _ (by decide)⟩
  · refine ⟨?_, by decide, ?_,
      ⟨mSrv, by decide, by decide, by decide⟩, ⟨by decide, by decide, by decide, trivial⟩, gaps_ok_of_B _ (by decide)⟩
    · intro n hn; cases hn; exact ⟨wfA, by decide⟩
    · intro c hc; cases hc; exact mIN
  · exact ⟨noOwner, by decide, (by intro c hc; cases hc),
      ⟨mMinfo, by decide, by decide, by decide⟩, ⟨wfA, wfMail, by decide⟩, gaps_ok_of_B _ (by decide)⟩
  · exact ⟨noOwner, by decide, (by intro c hc; cases hc),
      ⟨mA, by decide, by decide, by decide⟩, ⟨by decide, by decide, by decide, by decide⟩, gaps_ok_of_B _ (by decide)⟩
  · refine ⟨noOwner, by decide, (by intro c hc; cases hc),
      ⟨mTxt, by decide, by decide, by decide⟩, ⟨?_, by decide, by decide⟩, gaps_ok_of_B _ (by decide)⟩
    intro x hx
    simp only [List.mem_cons, List.mem_nil_iff, or_false] at hx
    rcases hx with rfl | rfl | rfl <;> exact ⟨by decide, by decide, by decide⟩
  · exact ⟨noOwner, by decide, (by intro c hc; cases hc),
      ⟨mHinfo, by decide, by decide, by decide⟩,
      ⟨⟨by decide, by decide, by decide⟩, ⟨by decide, by decide, by decide⟩, by decide⟩, gaps_ok_of_B _ (by decide)⟩
  · exact ⟨noOwner, by decide, (by intro c hc; cases hc),
      ⟨mAaaa, by decide, by decide, by decide⟩, ⟨by decide, by decide⟩, gaps_ok_of_B _ (by decide)⟩
  · refine ⟨⟨by decide, by decide, by decide⟩, ?_, by simp, by decide, by decide, .inl rfl⟩
    intro n hn; cases hn; exact ⟨wfA, by simp, by decide⟩
  · exact ⟨⟨by decide, by decide, by decide⟩, (by intro n hn; cases hn), by simp, by decide, by decide,
      .inr ⟨[], rfl, by simp⟩⟩

/-- … so the theorem applies to it -/
example : parseAll (renderFile exFile) {} =
    [.item (.record 2 ⟨[3, 97, 46, 98, 2, 10, 99, 0], 5, 1, 1, [1, 2, 3, 4]⟩),
     .item (.record 4 ⟨[3, 97, 46, 98, 2, 10, 99, 0], 5, 1, 16, [1, 97]⟩),
     .item (.record 7 ⟨[1, 119, 1, 116, 0], 9, 3, 99, []⟩),
     .item (.record 8 ⟨[1, 116, 0], 9, 3, 2, [1, 97, 1, 116, 0]⟩),
     .item (.record 9 ⟨[1, 116, 0], 9, 3, 15, [0, 10, 3, 109, 92, 10, 1, 120, 0]⟩),
     .item (.record 11 ⟨[1, 116, 0], 9, 3, 6, [1, 116, 0, 1, 97, 1, 116, 0, 0, 0, 0, 1, 0, 0, 0, 2, 0, 0, 0, 3,
              0, 0, 0, 4, 255, 255, 255, 255]⟩),
     .item (.record 14 ⟨[1, 97, 1, 116, 0], 7, 1, 33, [0, 1, 0, 2, 0, 3, 1, 116, 0]⟩),
     .item (.record 16 ⟨[1, 97, 1, 116, 0], 9, 1, 14, [1, 97, 1, 116, 0, 3, 109, 92, 10, 1, 120, 0]⟩),
     .item (.record 18 ⟨[1, 97, 1, 116, 0], 9, 1, 1, [192, 0, 2, 1]⟩),
     .item (.record 19 ⟨[1, 97, 1, 116, 0], 9, 1, 16, [4, 97, 10, 98, 34, 3, 99, 59, 100, 1, 100]⟩),
     .item (.record 22 ⟨[1, 97, 1, 116, 0], 9, 1, 13, [0, 1, 100]⟩),
     .item (.record 23 ⟨[1, 97, 1, 116, 0], 9, 1, 28, [32, 1, 13, 184, 0, 0, 0, 0, 0, 0, 0, 0, 0, 255, 255, 255]⟩),
     .item (.incl 24 [120, 32, 121] (some [1, 97, 1, 116, 0])),
     .item (.incl 25 [122] (some [1, 116, 0]))] := by
  rw [C23_records_partial exFile exFile_ok.1 {} CtxWF_default _ exFile_ok.2]
  rfl

/-- the same file, evaluated directly: the text is what it is meant to be and the parser yields
    twelve records and two include requests -/
example : (parseAll (renderFile exFile) {}).length = 14 := by decide +kernel

/-- RDATA alone: ` ( 10 ;x<CRLF> a )` after the type field of an MX record, origin `t.` -/
example : parseRdata { origin := some [1, 116, 0] } 1 15
    ⟨gapText [.blank false, .openParen, .blank false] ++
      (rdataText (fun _ => [.blank false, .newline [59, 120] true, .blank false]) (.mx 10 nA) ++
        (tailText [.blank false, .closeParen] [] false ++ [])), 1, false⟩ =
    .ok ([0, 10, 1, 97, 1, 116, 0], ⟨[], 3, false⟩) := by
  have h := C23_rdata_partial { origin := some [1, 116, 0] }
    ⟨by intro o ho; cases ho; exact ⟨[[116]], by simp [LabelsOK], by decide, by decide⟩, by simp⟩
    1 15 (by decide) (by decide)
    (fun i => if i = 0 then [.blank false, .openParen, .blank false] else [.blank false, .newline [59, 120] true, .blank false])
    (fun i => decide (1 ≤ i)) [.blank false, .closeParen] [] false [] (.mx 10 nA)
    (by
      intro i hi
      have : i = 0 ∨ i = 1 := by simp [rdataGaps] at hi; omega
      rcases this with rfl | rfl <;> exact GapOK_of_B (by decide))
    (TailOK_of_B (by decide))
    ⟨by decide, by unfold nA WFName; exact ⟨by decide, by simp [LabelsOK, labelOctets], by decide⟩⟩
    (by decide) [0, 10, 1, 97, 1, 116, 0] (by decide) (by intro g hg; cases hg) 1
  simpa [rdataLines, gapLines, nameLines, nA, labelLines] using h

private def exRec : PRecord :=
  ⟨.same, none, none, true, .mnemonic [109, 120] 15, .mx 10 nA, [], [[.blank false, .openParen]],
    [.newline [] true, .closeParen], [], false⟩

/-- one record: ` mx (10 a<CRLF>)<LF>` with previous owner `t.`, TTL 9, class 1 — two lines -/
example : ∃ ctx', parseLine { origin := some [1, 116, 0], prevOwner := some [1, 116, 0], prevTtl := some 9, prevClass := some 1 }
      ⟨renderRecord exRec ++ [], 1, false⟩ =
      .ok ((some (.record 1 ⟨[1, 116, 0], 9, 1, 15, [0, 10, 1, 97, 1, 116, 0]⟩), ctx'), ⟨[], 3, false⟩) ∧
      toSCtx ctx' = ⟨some [1, 116, 0], some [1, 116, 0], some 9, some 1, none⟩ := by
  have hT : NameWF [1, 116, 0] := ⟨[[116]], by simp [LabelsOK], by decide, by decide⟩
  have hwf : WFRecord exRec :=
    ⟨(by intro n h; cases h), by decide, (by intro c hc; cases hc),
      ⟨mMx, by decide, by decide, by decide⟩,
      ⟨by decide, by unfold nA WFName; exact ⟨by decide, by simp [LabelsOK, labelOctets], by decide⟩⟩,
      gaps_ok_of_B _ (by decide)⟩
  exact C23_record_partial _ ⟨by intro o ho; cases ho; exact hT, by intro o ho; cases ho; exact hT⟩ exRec hwf
    1 [] ⟨1, [1, 116, 0], 9, 1, 15, [0, 10, 1, 97, 1, 116, 0]⟩ _ (by decide +kernel)

/-- a name field: `a\.b` relative to `t.` -/
example : parseName (some [1, 116, 0]) ⟨nameText (.rel [] [(97, .raw), (46, .esc), (98, .raw)]) ++ [10], 1, false⟩ =
    .ok ([3, 97, 46, 98, 1, 116, 0], ⟨[10], 1, false⟩) :=
  C23_name_field (some [1, 116, 0])
    (by intro o ho; cases ho; exact ⟨[[116]], by simp [LabelsOK], by decide, by decide⟩) _
    (by unfold WFName; exact ⟨by decide, by simp [LabelsOK, labelOctets], by decide⟩) _ (by decide) [10]
    (by decide) 1 false

/-- concrete witness beyond the proved subset (parentheses, comments inside them, quoted strings,
    mnemonics): `$ORIGIN t.` / `@ 5 IN NS ( a` / ` ) ; c` / ` TXT "x y" z` -/
theorem C23_witness :
    parseAll ("$ORIGIN t.\n@ 5 IN NS ( a\n ) ; c\n TXT \"x y\" z\n".toUTF8.toList) {} =
      [.item (.record 2 ⟨[1, 116, 0], 5, 1, 2, [1, 97, 1, 116, 0]⟩),
       .item (.record 4 ⟨[1, 116, 0], 5, 1, 16, [3, 120, 32, 121, 1, 122]⟩)] := by
  decide +kernel

end QV.C23
