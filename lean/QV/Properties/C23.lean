/-
  C23 — Zone files parse to exactly the records they describe.

  "Any zone file written in RFC 1035 §5 master-file syntax parses to exactly the records it
   denotes, in order, with their line numbers. This covers any mix of omitted or reordered TTL
   and class fields, omitted owners, relative names, '@', $ORIGIN and $TTL directives,
   parentheses across lines, comments, quoted and unquoted strings, escape sequences, RFC 3597
   generic RDATA and CRLF line endings."

  Model: `QV.Model.ZoneFile.*`.  Spec: `QV.Spec.ZoneFile` — a presentation AST with the
  writer's choices, `render…` to octets and `denote…` to records; nothing there mentions the
  parser.  The theorems have the shape  `WF p → parse (render p) = denote p`  and are staged
  bottom-up; every stage is a theorem for ALL presentations of its kind (no bounds).

  PROVED (full strength for the stated forms)
   * integer fields; `\X` and `\DDD` escapes; domain names in any mix of raw / `\X` / `\DDD`
     octet forms (incl. escaped dots, blanks, newlines, with the line count): absolute names,
     relative names completed with the origin, `@`; `CLASSnnn`, `TYPEnnn`; `\# len hex` RDATA for
     any class and type, checked against `Rdata::validate`; the lexical layer on blanks, comments
     and line ends;
   * records assembled from these, with TTL and class each written or omitted, in either order (context
     defaults: `$TTL` default before previous TTL; previous class), owner absolute / relative /
     `@` / omitted (leading blanks ⇒ previous owner); `$ORIGIN` and `$TTL` directive lines; blank
     and comment-only lines;
   * whole files of such entries: exactly the denoted records, in order, with line numbers
     (`C23_records_partial`).
  NOT PROVED (the gap; the name says `_partial`)
     type and class mnemonics, the typed RDATA syntaxes (A, AAAA, names,
     SOA, MX, TXT/HINFO strings quoted and unquoted, WKS, SRV, …), parentheses across lines,
     CRLF, a last line without newline.  These are covered on every run by the correspondence
     oracle, which is independent of these proofs: the harness's pretty-printer renders random
     record lists with random choices for *all* of the above and the expected parse is the
     generating record list (op `zfp`, spec column = expected records).
-/
import QV.Proofs.ZoneFile.Records

namespace QV.C23
open QV QV.ZF QV.Spec.ZF

/-! ### fields -/

/-- decimal integer fields read back (`u8`/`u16`/`u32::from_str` through `read_field`) -/
theorem C23_integer_field (max n : Nat) (hn : n ≤ max) (hmax : max < 10 ^ 10) (k : Kind)
    (rest : List UInt8) (hrest : atFieldEnd rest = true) (line : Nat) (paren : Bool) :
    readField (parseUInt max) k ⟨decimal n ++ rest, line, paren⟩ = .ok (n, ⟨rest, line, paren⟩) :=
  readField_decimal max n hn hmax k rest hrest line paren

/-- `\X` (X not a digit) and `\DDD` read back as the octet they stand for -/
theorem C23_escapes (b : UInt8) (rest : List UInt8) (line : Nat) :
    (isDigit b = false → parseEscapeL (b :: rest) line = .ok (b, rest, if b == 10 then line + 1 else line)) ∧
    parseEscapeL (digitOctet (b.toNat / 100) :: digitOctet (b.toNat / 10 % 10) :: digitOctet (b.toNat % 10) :: rest) line
      = .ok (b, rest, line) :=
  ⟨parseEscapeL_esc b rest line, parseEscapeL_dec b rest line⟩

/-- absolute domain names, every octet written raw (if harmless), as `\X` or as `\DDD` -/
theorem C23_absolute_name (origin : Option (List UInt8)) (ls : List PLabel) (hne : ls ≠ [])
    (hforms : ∀ l ∈ ls, ∀ x ∈ l, nameFormOK x.1 x.2 = true)
    (hLs : LabelsOK (ls.map labelOctets))
    (htotal : (flatLabels (ls.map labelOctets)).length + 1 ≤ 255)
    (rest : List UInt8) (hrest : atFieldEnd rest = true) (line : Nat) (paren : Bool) :
    parseName origin ⟨renderAbsName ls ++ rest, line, paren⟩ =
      .ok (wireName (ls.map labelOctets), ⟨rest, line + ownerLines (.abs ls), paren⟩) :=
  parseName_abs origin ls hne hforms hLs htotal rest hrest line paren

/-- `CLASSnnn` and `TYPEnnn` (RFC 3597 §5) -/
theorem C23_class_type_forms (n : Nat) (hn : n ≤ 65535) :
    parseClass (renderClass n) = some n ∧ parseType (renderType n) = some n :=
  ⟨parseClass_render n hn, parseType_render n hn⟩

/-- RFC 3597 generic RDATA, for any class and type -/
theorem C23_generic_rdata (ctx : Ctx) (cls ty : Nat) (h41 : ty ≠ 41) (h250 : ty ≠ 250)
    (sep rd ws cmt r : List UInt8) (hne : sep ≠ []) (hsep : ∀ x ∈ sep, isWs x = true)
    (hlen : rd.length ≤ 65535) (hvalid : Rdata.validate cls ty rd.toArray = .ok ())
    (hws : ∀ x ∈ ws, isWs x = true) (hc : commentOK cmt) (line : Nat) :
    parseRdata ctx cls ty ⟨sep ++ 92 :: 35 :: (genericTail sep rd ++ (ws ++ (cmt ++ 10 :: r))), line, false⟩ =
      .ok (rd, ⟨r, line + 1, false⟩) :=
  parseRdata_generic ctx cls ty h41 h250 sep rd ws cmt r hne hsep hlen hvalid hws hc line

/-- relative names are completed with the origin; `@` is the origin -/
theorem C23_relative_name (o : List UInt8) (ho : NameWF o) (ls : List PLabel) (l : PLabel)
    (hforms : ∀ l' ∈ ls ++ [l], ∀ x ∈ l', nameFormOK x.1 x.2 = true)
    (hLs : LabelsOK ((ls ++ [l]).map labelOctets))
    (htotal : (wireLabels ((ls ++ [l]).map labelOctets)).length + o.length ≤ 255)
    (hnotat : renderLabels (ls ++ [l]) ≠ [64])
    (rest : List UInt8) (hrest : atFieldEnd rest = true) (line : Nat) (paren : Bool) :
    parseName (some o) ⟨renderLabels (ls ++ [l]) ++ rest, line, paren⟩ =
      .ok (wireLabels ((ls ++ [l]).map labelOctets) ++ o, ⟨rest, line + ownerLines (.rel ls l), paren⟩) ∧
    parseName (some o) ⟨64 :: rest, line, paren⟩ = .ok (o, ⟨rest, line, paren⟩) :=
  ⟨parseName_rel o ho ls l hforms hLs htotal hnotat rest hrest line paren, parseName_at o rest hrest line paren⟩

/-! ### records and files -/

/-- one record line ↦ the record it denotes, and the context it leaves -/
theorem C23_record_partial (ctx : Ctx) (hctx : CtxWF ctx) (p : PRecord) (hwf : WFRecord p) (line : Nat)
    (r : List UInt8) (sr : SRecord) (sc' : SCtx) (hden : denoteRecord (toSCtx ctx) line p = some (sr, sc'))
    (hvalid : Rdata.validate sr.cls p.ty p.rdata.toArray = .ok ()) :
    ∃ ctx', parseLine ctx ⟨renderRecord p ++ r, line, false⟩ =
        .ok ((some (.record sr.line ⟨sr.owner, sr.ttl, sr.cls, sr.ty, sr.rdata⟩), ctx'),
             ⟨r, line + ownerLines p.owner + 1, false⟩) ∧
      toSCtx ctx' = sc' :=
  parseLine_record ctx hctx p hwf line r sr sc' hden hvalid

/-- **Whole files (the subset above).**  For every list of well-formed entries and every
    well-formed initial context in which the file denotes the records `srs` (each with RDATA valid
    for its class and type): the parser yields exactly `srs`, in order, with their line numbers,
    and nothing else. -/
theorem C23_records_partial (es : List PEntry) (hwf : ∀ e ∈ es, WFEntry e) (ctx : Ctx) (hctx : CtxWF ctx)
    (srs : List SRecord) (hden : denoteFile es (toSCtx ctx) 1 = some srs)
    (hvalid : ∀ sr ∈ srs, Rdata.validate sr.cls sr.ty sr.rdata.toArray = .ok ()) :
    parseAll (renderFile es) ctx = srs.map itemOf :=
  collect_file es hwf ctx hctx 1 srs hden hvalid

/-! ### non-vacuity -/

/-- `$ORIGIN t.` / `a\.b.\010c. CLASS1 5 TYPE1 \# 4 01020304 ;x` / (blank) / ` TYPE16 \# 2 0161`
    / `$TTL 9` / `w CLASS3 TYPE99 \# 0` / `@ TYPE2 \# 3 017800` -/
def exFile : List PEntry :=
  [.origin [[(116, .raw)]] [32] [] [],
   .record ⟨.abs [[(97, .raw), (46, .esc), (98, .raw)], [(10, .dec), (99, .raw)]], some 5, some 1, true, 1,
      [1, 2, 3, 4], [32], [32], [59, 120]⟩,
   .blank [9] [],
   .record ⟨.same, none, none, false, 16, [1, 97], [32, 9], [], []⟩,
   .ttl 9 [32] [] [],
   .record ⟨.rel [] [(119, .raw)], none, some 3, false, 99, [], [32], [], []⟩,
   .record ⟨.atSign, none, none, true, 2, [1, 120, 0], [32], [], []⟩]

/-- the example file is well-formed and denotes four records -/
theorem exFile_ok :
    (∀ e ∈ exFile, WFEntry e) ∧
    denoteFile exFile (toSCtx {}) 1 =
      some [⟨2, [3, 97, 46, 98, 2, 10, 99, 0], 5, 1, 1, [1, 2, 3, 4]⟩,
            ⟨4, [3, 97, 46, 98, 2, 10, 99, 0], 5, 1, 16, [1, 97]⟩,
            ⟨6, [1, 119, 1, 116, 0], 9, 3, 99, []⟩,
            ⟨7, [1, 116, 0], 9, 3, 2, [1, 120, 0]⟩] := by
  refine ⟨?_, by decide⟩
  have wfAbs1 : WFOwnerAbs [[(116, .raw)]] :=
    ⟨by simp, by decide, by simp [LabelsOK, labelOctets], by decide, by decide⟩
  have wfAbs2 : WFOwnerAbs [[(97, .raw), (46, .esc), (98, .raw)], [(10, .dec), (99, .raw)]] :=
    ⟨by simp, by decide, by simp [LabelsOK, labelOctets], by decide, by decide⟩
  intro e he
  simp only [exFile, List.mem_cons, List.mem_nil_iff, or_false] at he
  rcases he with rfl | rfl | rfl | rfl | rfl | rfl | rfl
  · exact ⟨wfAbs1, by simp, by decide, by decide, .inl rfl⟩
  · refine ⟨by simp, by decide, by decide, .inr ⟨[120], rfl, by decide⟩, ?_, ?_, by decide, by decide, by decide, by decide⟩
    · intro ls hls; cases hls; exact wfAbs2
    · intro ls l hls; cases hls
  · exact ⟨by decide, .inl rfl⟩
  · refine ⟨by simp, by decide, by decide, .inl rfl, ?_, ?_, by decide, by decide, by decide, by decide⟩
    · intro ls hls; cases hls
    · intro ls l hls; cases hls
  · exact ⟨by decide, by simp, by decide, by decide, .inl rfl⟩
  · refine ⟨by simp, by decide, by decide, .inl rfl, ?_, ?_, by decide, by decide, by decide, by decide⟩
    · intro ls hls; cases hls
    · intro ls l hls; cases hls
      exact ⟨by decide, by simp [LabelsOK, labelOctets], by decide, by decide⟩
  · refine ⟨by simp, by decide, by decide, .inl rfl, ?_, ?_, by decide, by decide, by decide, by decide⟩
    · intro ls hls; cases hls
    · intro ls l hls; cases hls

/-- … so the theorem applies to it -/
example : parseAll (renderFile exFile) {} =
    [.item (.record 2 ⟨[3, 97, 46, 98, 2, 10, 99, 0], 5, 1, 1, [1, 2, 3, 4]⟩),
     .item (.record 4 ⟨[3, 97, 46, 98, 2, 10, 99, 0], 5, 1, 16, [1, 97]⟩),
     .item (.record 6 ⟨[1, 119, 1, 116, 0], 9, 3, 99, []⟩),
     .item (.record 7 ⟨[1, 116, 0], 9, 3, 2, [1, 120, 0]⟩)] := by
  rw [C23_records_partial exFile exFile_ok.1 {} CtxWF_default _ exFile_ok.2 (by decide +kernel)]
  rfl

/-- concrete witness beyond the proved subset (parentheses, comments inside them, quoted strings,
    mnemonics): `$ORIGIN t.` / `@ 5 IN NS ( a` / ` ) ; c` / ` TXT "x y" z` -/
theorem C23_witness :
    parseAll ("$ORIGIN t.\n@ 5 IN NS ( a\n ) ; c\n TXT \"x y\" z\n".toUTF8.toList) {} =
      [.item (.record 2 ⟨[1, 116, 0], 5, 1, 2, [1, 97, 1, 116, 0]⟩),
       .item (.record 4 ⟨[1, 116, 0], 5, 1, 16, [3, 120, 32, 121, 1, 122]⟩)] := by
  decide +kernel

end QV.C23
