/-
  C23 — Zone files parse to exactly the records they describe.

  "Any zone file written in RFC 1035 §5 master-file syntax parses to exactly the records it
   denotes, in order, with their line numbers. This covers any mix of omitted or reordered TTL
   and class fields, omitted owners, relative names, '@', $ORIGIN and $TTL directives,
   parentheses across lines, comments, quoted and unquoted strings, escape sequences, RFC 3597
   generic RDATA and CRLF line endings."

  Model: `QV.Model.ZoneFile.*`.  Spec: `QV.Spec.ZoneFile` — a presentation AST with the
  writer's choices, `render…` to octets and `denote…` to records; nothing there mentions the
  parser.  The theorems have the shape  `WF p → parse (render p) = denote p`  and are staged
  bottom-up; every stage is a theorem for ALL presentations of its kind (no bounds on lengths,
  counts or nesting).

  ══ REPORT ══

  PROVED (18 theorems; `_partial` = for the presentation subset described here)
   * integer fields (`C23_integer_field`); `\X` and `\DDD` escapes (`C23_escapes`); domain names
     in any mix of raw / `\X` / `\DDD` octet forms, incl. escaped dots, blanks and newlines with
     the line count: absolute names, relative names completed with the origin, `@`
     (`C23_absolute_name`, `C23_relative_name`, `C23_name_field`);
   * TYPE and CLASS fields (`C23_class_type_forms`, `C23_mnemonics`): the mnemonics A NS MD MF
     CNAME SOA MB MG MR WKS PTR HINFO MINFO MX TXT AAAA SRV and IN CH HS in any mix of upper and
     lower case, and `TYPEnnn` / `CLASSnnn`;
   * RDATA (`C23_generic_rdata`, `C23_rdata_partial`): `\# len hex` for any class and type,
     checked against `Rdata::validate`; the typed syntaxes of A (IN), NS MD MF CNAME MB MG MR PTR,
     MX, SOA, MINFO, SRV (IN), TXT, HINFO, AAAA (IN: eight groups in full, `::` for a run of zero
     groups, and/or a dotted quad at the end), Chaosnet A (name and octal address), WKS (IN:
     address, `TCP` / `UDP` in any case or a number, any ports — `C23_wks_text`); names absolute,
     relative or `@` in any octet forms; character-strings quoted or unquoted, each octet raw,
     `\X` or `\DDD`, raw newlines inside quotes; all with the lines they span;
   * gaps and line ends (`C23_gaps`): between fields any mix of blanks, `(`, `)` and — inside
     parentheses — line ends (LF or CRLF) with optional comments; at the end of a record or
     directive such a gap that closes the parentheses, an optional comment, then LF, CRLF or the
     end of the file; line count and parenthesis state follow;
   * records (`C23_record_partial`): TTL and class each written or omitted, in either order
     (defaults: `$TTL` value before the previous TTL; the previous class), owner absolute /
     relative / `@` / omitted (leading blank ⇒ previous owner), every gap of the record general
     (so parentheses may open anywhere, the usual `SOA ( … )` layout included); TTLs above
     2^31 - 1 read as 0 (RFC 2181 §8);
   * whole files (`C23_records_partial`; `exFile_ok` is a 31-line instance with every kind):
     records, `$ORIGIN`, `$TTL` and `$INCLUDE` lines (the latter yield the include request:
     path as quoted or unquoted string, origin given or current), blank and comment-only lines,
     each line ending LF or CRLF, the last one possibly with the file — exactly the denoted
     records and include requests, in order, with their line numbers;
   * the WKS bit map (`C23_wks_bitmap`, `C23_wks_repository`, `C23_wks_bit_order_witness`): see
     FINDING below.

  ORACLE-ONLY (not in the presentation AST; exercised on every run by the correspondence
  check, whose oracle is independent of these proofs — the harness's pretty-printer renders
  random record lists with random choices and the expected parse is the generating list, ops
  `zfp` / `zfw`)
   * numbers written with a leading `+` or leading zeros (TTL, preferences, SOA counters, ports,
     the `\#` length, octal addresses); upper-case hexadecimal digits in `\#` data and in AAAA
     groups, AAAA groups with leading zeros; `$ORIGIN` / `$TTL` / `$INCLUDE` in lower or mixed
     case (the AST writes numbers canonically, hexadecimal in lower case, keywords in upper case);
   * the record lists of files that also contain malformed lines (what is yielded before the
     first error): C24 proves validity of whatever is yielded, not equality with a denotation.

  RESTRICTIONS of the proved subset (hypotheses `WF…` of the theorems)
   * the root name `.` on its own is not a `PName` (`.abs` needs a label); an owner's text does
     not begin with a raw `$` (it would be read as a directive: write `\$`);
   * unquoted strings are non-empty; strings have at most 255 octets, names at most 255 octets
     in wire form with labels of 1–63 octets (longer ones are errors, C24);
   * comments contain no CR; a line end occurs only inside parentheses or at the end of the
     entry; the file does not end inside parentheses;
   * typed RDATA does not start with the two octets `\#` (that selects the RFC 3597 form);
   * TYPE is not NULL, OPT or TSIG (rejected by the parser, C24); generic RDATA must pass
     `Rdata::validate` for its class and type, otherwise the line is an error;
   * WKS: see FINDING — `WksOrderOK`.
  Model assumptions: those of C24 (the Reader's buffer abstracted to "the remaining input";
  std's integer and address parsers re-implemented and compared on generated strings).

  FINDING D18 (known, not repaired — the repository's unit test pins the behaviour)
     `serialize_in_wks` (src/rr/rdata/std13.rs:415) sets `1 << (port % 8)`; RFC 1035 §3.4.2
     with the bit numbering of §2.3.2 asks for `0x80 >> (port % 8)`.  `C23_wks_bitmap`: for all
     port lists the code's bit map is the RFC's (`Spec.ZF.wksBitmap`, stated arithmetically from
     port membership) with every octet bit-reversed, and the repaired mask gives the RFC's;
     `C23_wks_bit_order_witness`: `a. 5 IN WKS 1.2.3.4 TCP 25` → `…00000002`, RFC `…00000040`.
     The model takes the order from the repository (extractor → `Gen.wksMaskMsbFirst`), so all
     theorems also check against a repaired tree.  `C23_rdata_partial` includes WKS under
     `WksOrderOK ports`: the repository's order is the RFC's, or the bit map reads the same in
     both orders (no ports; ports 0 and 7; …) — for the present code exactly the port lists on
     which parser and denotation agree.  Check: op `zfw` (group `zonewks`) suppresses only the
     pure bit-order difference; any other difference in a WKS record is a VIOLATION.
-/
import QV.Proofs.ZoneFile.Files
import QV.Proofs.ZoneFile.Wks

namespace QV.C23
open QV QV.ZF QV.Spec.ZF

/-! ### fields -/

/-- decimal integer fields read back (`u8`/`u16`/`u32::from_str` through `read_field`) -/
theorem C23_integer_field (max n : Nat) (hn : n ≤ max) (hmax : max < 10 ^ 10) (k : Kind)
    (rest : List UInt8) (hrest : atFieldEnd rest = true) (line : Nat) (paren : Bool) :
    readField (parseUInt max) k ⟨decimal n ++ rest, line, paren⟩ = .ok (n, ⟨rest, line, paren⟩) :=
  readField_decimal max n hn hmax k rest hrest line paren

/-- `\X` (X not a digit) and `\DDD` read back as the octet they stand for -/
theorem C23_escapes (b : UInt8) (rest : List UInt8) (line : Nat) :
    (isDigit b = false → parseEscapeL (b :: rest) line = .ok (b, rest, if b == 10 then line + 1 else line)) ∧
    parseEscapeL (digitOctet (b.toNat / 100) :: digitOctet (b.toNat / 10 % 10) :: digitOctet (b.toNat % 10) :: rest) line
      = .ok (b, rest, line) :=
  ⟨parseEscapeL_esc b rest line, parseEscapeL_dec b rest line⟩

/-- absolute domain names, every octet written raw (if harmless), as `\X` or as `\DDD` -/
theorem C23_absolute_name (origin : Option (List UInt8)) (ls : List PLabel) (hne : ls ≠ [])
    (hforms : ∀ l ∈ ls, ∀ x ∈ l, nameFormOK x.1 x.2 = true)
    (hLs : LabelsOK (ls.map labelOctets))
    (htotal : (flatLabels (ls.map labelOctets)).length + 1 ≤ 255)
    (rest : List UInt8) (hrest : atFieldEnd rest = true) (line : Nat) (paren : Bool) :
    parseName origin ⟨renderAbsName ls ++ rest, line, paren⟩ =
      .ok (wireName (ls.map labelOctets), ⟨rest, line + nameLines (.abs ls), paren⟩) :=
  parseName_abs origin ls hne hforms hLs htotal rest hrest line paren

/-- relative names are completed with the origin; `@` is the origin -/
theorem C23_relative_name (o : List UInt8) (ho : NameWF o) (ls : List PLabel) (l : PLabel)
    (hforms : ∀ l' ∈ ls ++ [l], ∀ x ∈ l', nameFormOK x.1 x.2 = true)
    (hLs : LabelsOK ((ls ++ [l]).map labelOctets))
    (htotal : (wireLabels ((ls ++ [l]).map labelOctets)).length + o.length ≤ 255)
    (hnotat : renderLabels (ls ++ [l]) ≠ [64])
    (rest : List UInt8) (hrest : atFieldEnd rest = true) (line : Nat) (paren : Bool) :
    parseName (some o) ⟨renderLabels (ls ++ [l]) ++ rest, line, paren⟩ =
      .ok (wireLabels ((ls ++ [l]).map labelOctets) ++ o, ⟨rest, line + nameLines (.rel ls l), paren⟩) ∧
    parseName (some o) ⟨64 :: rest, line, paren⟩ = .ok (o, ⟨rest, line, paren⟩) :=
  ⟨parseName_rel o ho ls l hforms hLs htotal hnotat rest hrest line paren, parseName_at o rest hrest line paren⟩

/-- a name field — absolute, relative or `@` — is read as the name it denotes, wherever a name
    is expected (owner, RDATA, `$ORIGIN`) -/
theorem C23_name_field (origin : Option (List UInt8)) (hO : ∀ o, origin = some o → NameWF o) (n : PName)
    (hwf : WFName n) (w : List UInt8) (hw : nameWire origin n = some w) (rest : List UInt8)
    (hrest : atFieldEnd rest = true) (line : Nat) (paren : Bool) :
    parseName origin ⟨nameText n ++ rest, line, paren⟩ = .ok (w, ⟨rest, line + nameLines n, paren⟩) :=
  (nameText_ok origin hO n hwf w hw).parse rest line paren hrest

/-- `CLASSnnn` and `TYPEnnn` (RFC 3597 §5) -/
theorem C23_class_type_forms (n : Nat) (hn : n ≤ 65535) :
    parseClass (renderClass n) = some n ∧ parseType (renderType n) = some n :=
  ⟨parseClass_render n hn, parseType_render n hn⟩

/-- TYPE and CLASS fields, mnemonic (any case) or numeric form: read as their value, and never
    mistaken for a TTL (or, a type, for a class) -/
theorem C23_mnemonics (c : PCode) :
    (WFType c → parseType (typeText c) = some c.value ∧ parseU32 (typeText c) = none ∧
      parseClass (typeText c) = none) ∧
    (WFClass c → parseClass (classText c) = some c.value ∧ parseU32 (classText c) = none) :=
  ⟨fun h => ⟨(typeText_ok c h).parse, (typeText_ok c h).notU32, (typeText_ok c h).notClass⟩,
   fun h => ⟨(classText_ok c h).parse, (classText_ok c h).notU32⟩⟩

/-- RFC 3597 generic RDATA, for any class and type -/
theorem C23_generic_rdata (ctx : Ctx) (cls ty : Nat) (h41 : ty ≠ 41) (h250 : ty ≠ 250)
    (sep rd ws cmt r : List UInt8) (hne : sep ≠ []) (hsep : ∀ x ∈ sep, isWs x = true)
    (hlen : rd.length ≤ 65535) (hvalid : Rdata.validate cls ty rd.toArray = .ok ())
    (hws : ∀ x ∈ ws, isWs x = true) (hc : commentOK cmt) (line : Nat) :
    parseRdata ctx cls ty ⟨sep ++ 92 :: 35 :: (genericTail sep rd ++ (ws ++ (cmt ++ 10 :: r))), line, false⟩ =
      .ok (rd, ⟨r, line + 1, false⟩) :=
  parseRdata_generic ctx cls ty h41 h250 sep rd ws cmt r hne hsep hlen hvalid hws hc line

/-- **RDATA**, generic or typed (the kinds of `PRdata`: `\#`, A, one-name types, MX, SOA, MINFO,
    SRV, TXT, HINFO, AAAA in any of its forms, Chaosnet A), with any well-formed gaps — blanks, parentheses, line ends and comments
    inside parentheses — before (`G 0`), inside (`G (i+1)`) and after it (`tg`), up to the end of
    the line (LF, CRLF, or the end of the file): the text is read as the RDATA it denotes; the line
    count advances by the line ends inside gaps, names and strings plus that of the line end, and
    the parentheses are closed.
    `S i` is "inside parentheses" before gap `i`. -/
theorem C23_rdata_partial (ctx : Ctx) (hctx : CtxWF ctx) (cls ty : Nat) (h41 : ty ≠ 41) (h250 : ty ≠ 250)
    (G : Nat → PGap) (S : Nat → Bool) (tg : PGap) (cmt : List UInt8) (eol : PEol) (r : List UInt8)
    (he : eol = .eof → r = []) (rd : PRdata) (hG : ∀ i, i ≤ rdataGaps rd → GapOK (G i) (S i) (S (i + 1)))
    (hT : TailOK tg cmt (S (rdataGaps rd + 1))) (hwf : WFRdata rd)
    (hk : kindOK cls ty rd = true) (w : List UInt8) (hw : rdataWire ctx.origin rd = some w)
    (hv : ∀ g, rd = .generic g → Rdata.validate cls ty g.toArray = .ok ()) (line : Nat) :
    parseRdata ctx cls ty
      ⟨gapText (G 0) ++ (rdataText (fun i => G (i + 1)) rd ++ (tailText tg cmt eol ++ r)), line, S 0⟩ =
      .ok (w, ⟨r, line + gapLines (G 0) + rdataLines (fun i => G (i + 1)) rd + gapLines tg + eolLines eol, false⟩) :=
  parseRdata_render ctx hctx cls ty h41 h250 G S tg cmt eol r he rd hG hT hwf hk w hw hv line

/-- **Gaps and line ends** (the lexical layer): a well-formed gap is skipped up to the next
    field, with the line count and parenthesis state it implies; the end of a record or line —
    a gap that leaves the parentheses, an optional comment, LF, CRLF or the end of the file — is
    recognised as such -/
theorem C23_gaps (thr : Bool) (g : PGap) (p p' : Bool) (hg : GapOK g p p') (X : List UInt8) (hX : Starts X)
    (tg : PGap) (cmt : List UInt8) (q : Bool) (hT : TailOK tg cmt q) (eol : PEol) (r : List UInt8)
    (he : eol = .eof → r = []) (line : Nat) :
    fieldOrEol thr (gapText g ++ X) line p = .ok (.Field, ⟨X, line + gapLines g, p'⟩) ∧
    fieldOrEol true (tailText tg cmt eol ++ r) line q = .ok (.Eol, ⟨r, line + gapLines tg + eolLines eol, false⟩) :=
  ⟨fieldOrEol_gapG thr g p p' hg.wf hg.run X hX line, fieldOrEol_tail tg cmt q hT eol r he line⟩

example : fieldOrEol false (gapText [.blank false, .openParen, .newline [59, 120] true, .blank true] ++ [97]) 1 false =
      .ok (.Field, ⟨[97], 2, true⟩) ∧
    fieldOrEol true (tailText [.newline [] false, .closeParen, .blank false] [59, 120] .crlf ++ [97]) 1 true =
      .ok (.Eol, ⟨[97], 3, false⟩) :=
  C23_gaps false [.blank false, .openParen, .newline [59, 120] true, .blank true] false true
    (GapOK_of_B (by decide)) [97] ⟨97, [], rfl, .inr (by decide)⟩
    [.newline [] false, .closeParen, .blank false] [59, 120] true (TailOK_of_B (by decide)) .crlf [97]
    (by intro h; cases h) 1

/-! ### records and files -/

/-- one record line ↦ the record it denotes, and the context it leaves -/
theorem C23_record_partial (ctx : Ctx) (hctx : CtxWF ctx) (p : PRecord) (hwf : WFRecord p) (line : Nat)
    (r : List UInt8) (he : p.eol = .eof → r = []) (sr : SRecord) (sc' : SCtx)
    (hden : denoteRecord validB (toSCtx ctx) line p = some (sr, sc')) :
    ∃ ctx', parseLine ctx ⟨renderRecord p ++ r, line, false⟩ =
        .ok ((some (.record sr.line ⟨sr.owner, sr.ttl, sr.cls, sr.ty, sr.rdata⟩), ctx'),
             ⟨r, line + recordLines p + eolLines p.eol, false⟩) ∧
      toSCtx ctx' = sc' :=
  parseLine_record ctx hctx p hwf line r he sr sc' hden

/-- **Whole files (the subset above).**  For every list of well-formed entries and every
    well-formed initial context in which the file denotes the records `srs` (`EolsOK`: only the
    last line may end with the file instead of a line end; `validB`: RDATA
    written in RFC 3597 form must be valid for its class and type, as RFC 3597 §5 asks): the
    parser yields exactly `srs`, in order, with their line numbers, and nothing else. -/
theorem C23_records_partial (es : List PEntry) (hwf : ∀ e ∈ es, WFEntry e) (heols : EolsOK es) (ctx : Ctx)
    (hctx : CtxWF ctx) (srs : List SItem) (hden : denoteFile validB es (toSCtx ctx) 1 = some srs) :
    parseAll (renderFile es) ctx = srs.map itemOf :=
  collect_file es hwf heols ctx hctx 1 srs hden

/-! ### non-vacuity -/

example : WFType (.mnemonic [110, 83] 2) ∧ WFClass (.mnemonic [105, 110] 1) :=
  ⟨⟨"NS", by decide, by decide +kernel⟩, ⟨"IN", by decide, by decide +kernel⟩⟩

private theorem mIN : WFClass (.mnemonic [105, 78] 1) := ⟨"IN", by decide, by decide +kernel⟩
private theorem mCH : WFClass (.mnemonic [99, 72] 3) := ⟨"CH", by decide, by decide +kernel⟩
private theorem mNs : WFType (.mnemonic [78, 115] 2) := ⟨"NS", by decide, by decide +kernel⟩
private theorem mMx : WFType (.mnemonic [109, 120] 15) := ⟨"MX", by decide, by decide +kernel⟩
private theorem mSoa : WFType (.mnemonic [83, 79, 65] 6) := ⟨"SOA", by decide, by decide +kernel⟩
private theorem mSrv : WFType (.mnemonic [83, 114, 118] 33) := ⟨"SRV", by decide, by decide +kernel⟩
private theorem mA : WFType (.mnemonic [97] 1) := ⟨"A", by decide, by decide +kernel⟩
private theorem mTxt : WFType (.mnemonic [116, 120, 116] 16) := ⟨"TXT", by decide, by decide +kernel⟩
private theorem mHinfo : WFType (.mnemonic [72, 105, 110, 102, 111] 13) := ⟨"HINFO", by decide, by decide +kernel⟩
private theorem mAaaa : WFType (.mnemonic [97, 65, 97, 65] 28) := ⟨"AAAA", by decide, by decide +kernel⟩
private theorem mWks : WFType (.mnemonic [87, 107, 115] 11) := ⟨"WKS", by decide, by decide +kernel⟩
private theorem mMinfo : WFType (.mnemonic [77, 73, 78, 70, 79] 14) := ⟨"MINFO", by decide, by decide +kernel⟩

private def nA : PName := .rel [] [(97, .raw)]
private def nMail : PName := .abs [[(109, .raw), (92, .esc), (10, .esc)], [(120, .dec)]]
/-- `"a<newline>b\""`, `c\;d`, `\100` -/
private def sQ : PString := ⟨true, [(97, .raw), (10, .raw), (98, .raw), (34, .esc)]⟩
private def sU : PString := ⟨false, [(99, .raw), (59, .esc), (100, .raw)]⟩
private def sD : PString := ⟨false, [(100, .dec)]⟩

/-- the text (`¶` = LF, `¬` = CRLF, `→` = tab):
    `$ORIGIN t.¶` `a\.b.\010c. iN 5 TYPE1 \# 4 01020304 ;x¬` `→¬` ` →TYPE16→\#(2;h¶ 0161)¶` `$TTL→(;x¶ 9 )¬`
    `w CLASS3 TYPE99 \# 0¶` `@ Ns a¶` ` mx 10 m\\\¶.\120.¶` ` SOA @ a ( 1 ;s¬ 2¶→3 4 4294967295 ) ;d¶`
    `a→( 7;¶→iN ) Srv 1 2 3 @¶` ` MINFO a m\\\¶.\120. ;¶` ` a (192.0.2.1)¬` ` (txt "a¶b\"" c\;d¬ \100)¶`
    ` Hinfo "" \100¶` ` aAaA 2001:db8:0:0:0:0:ff:ffff¶` ` aAaA fe80::1¶` ` aAaA ::ffff:192.0.2.1¶` ` aAaA 1:2:3:4:5:6:10.0.0.255¶` ` Wks 10.0.0.1 (tCp→0 7)¶` `a cH a @ 177777¶` `$INCLUDE "x y" (a)¶` `$INCLUDE→z ;` (no line end) -/
def exFile : List PEntry :=
  [.origin [[(116, .raw)]] [.blank false] [] [] .lf,
   .record ⟨.named (.abs [[(97, .raw), (46, .esc), (98, .raw)], [(10, .dec), (99, .raw)]]), some 5,
      some (.mnemonic [105, 78] 1), true, .generic 1, .generic [1, 2, 3, 4], [], [], [.blank false], [59, 120], .crlf⟩,
   .blank [9] [] .crlf,
   .record ⟨.same, none, none, false, .generic 16, .generic [1, 97], [[.blank false, .blank true]],
      [[.blank true], [.openParen], [.newline [59, 104] false, .blank false]], [.closeParen], [], .lf⟩,
   .ttl 9 [.blank true, .openParen, .newline [59, 120] false] [.blank false, .closeParen] [] .crlf,
   .record ⟨.named (.rel [] [(119, .raw)]), none, some (.generic 3), false, .generic 99, .generic [], [], [], [], [], .lf⟩,
   .record ⟨.named .atSign, none, none, true, .mnemonic [78, 115] 2, .name nA, [], [], [], [], .lf⟩,
   .record ⟨.same, none, none, true, .mnemonic [109, 120] 15, .mx 10 nMail, [], [], [], [], .lf⟩,
   .record ⟨.same, none, none, true, .mnemonic [83, 79, 65] 6, .soa .atSign nA 1 2 3 4 4294967295, [],
      [[.blank false], [.blank false], [.blank false, .openParen, .blank false],
       [.blank false, .newline [59, 115] true, .blank false], [.newline [] false, .blank true]],
      [.blank false, .closeParen, .blank false], [59, 100], .lf⟩,
   .record ⟨.named nA, some 7, some (.mnemonic [105, 78] 1), false, .mnemonic [83, 114, 118] 33,
      .srv 1 2 3 .atSign,
      [[.blank true, .openParen, .blank false], [.newline [59] false, .blank true], [.blank false, .closeParen, .blank false]],
      [], [], [], .lf⟩,
   .record ⟨.same, none, none, true, .mnemonic [77, 73, 78, 70, 79] 14, .minfo nA nMail, [], [], [.blank false], [59], .lf⟩,
   .record ⟨.same, none, none, true, .mnemonic [97] 1, .a 192 0 2 1, [], [[.blank false, .openParen]], [.closeParen], [], .crlf⟩,
   .record ⟨.same, none, none, true, .mnemonic [116, 120, 116] 16, .txt sQ [sU, sD], [[.blank false, .openParen]],
      [[.blank false], [.blank false], [.newline [] true, .blank false]], [.closeParen], [], .lf⟩,
   .record ⟨.same, none, none, true, .mnemonic [72, 105, 110, 102, 111] 13, .hinfo ⟨true, []⟩ sD, [], [], [], [], .lf⟩,
   .record ⟨.same, none, none, true, .mnemonic [97, 65, 97, 65] 28, .aaaa [8193, 3512, 0, 0, 0, 0, 255, 65535], [], [], [], [], .lf⟩,
   .record ⟨.same, none, none, true, .mnemonic [97, 65, 97, 65] 28, .aaaaC [65152] [1], [], [], [], [], .lf⟩,
   .record ⟨.same, none, none, true, .mnemonic [97, 65, 97, 65] 28, .aaaaV4 [] (some [65535]) 192 0 2 1, [], [], [], [], .lf⟩,
   .record ⟨.same, none, none, true, .mnemonic [97, 65, 97, 65] 28, .aaaaV4 [1, 2, 3, 4, 5, 6] none 10 0 0 255, [], [], [], [], .lf⟩,
   .record ⟨.same, none, none, true, .mnemonic [87, 107, 115] 11, .wks 10 0 0 1 (.mnemonic [116, 67, 112] 6) [0, 7], [],
      [[.blank false], [.blank false, .openParen], [.blank true]], [.closeParen], [], .lf⟩,
   .record ⟨.named nA, none, some (.mnemonic [99, 72] 3), false, .mnemonic [97] 1, .chA .atSign 65535, [], [], [], [], .lf⟩,
   .incl ⟨true, [(120, .raw), (32, .raw), (121, .raw)]⟩ (some nA) [.blank false] [.blank false, .openParen] [.closeParen] [] .lf,
   .incl ⟨false, [(122, .raw)]⟩ none [.blank true] [] [.blank false] [59] .eof]

/-- the example file is well-formed and denotes seventeen records and two include requests -/
theorem exFile_ok :
    (∀ e ∈ exFile, WFEntry e) ∧
    denoteFile validB exFile (toSCtx {}) 1 =
      some [.record ⟨2, [3, 97, 46, 98, 2, 10, 99, 0], 5, 1, 1, [1, 2, 3, 4]⟩,
            .record ⟨4, [3, 97, 46, 98, 2, 10, 99, 0], 5, 1, 16, [1, 97]⟩,
            .record ⟨8, [1, 119, 1, 116, 0], 9, 3, 99, []⟩,
            .record ⟨9, [1, 116, 0], 9, 3, 2, [1, 97, 1, 116, 0]⟩,
            .record ⟨10, [1, 116, 0], 9, 3, 15, [0, 10, 3, 109, 92, 10, 1, 120, 0]⟩,
            .record ⟨12, [1, 116, 0], 9, 3, 6, [1, 116, 0, 1, 97, 1, 116, 0, 0, 0, 0, 1, 0, 0, 0, 2, 0, 0, 0, 3,
              0, 0, 0, 4, 255, 255, 255, 255]⟩,
            .record ⟨15, [1, 97, 1, 116, 0], 7, 1, 33, [0, 1, 0, 2, 0, 3, 1, 116, 0]⟩,
            .record ⟨17, [1, 97, 1, 116, 0], 9, 1, 14, [1, 97, 1, 116, 0, 3, 109, 92, 10, 1, 120, 0]⟩,
            .record ⟨19, [1, 97, 1, 116, 0], 9, 1, 1, [192, 0, 2, 1]⟩,
            .record ⟨20, [1, 97, 1, 116, 0], 9, 1, 16, [4, 97, 10, 98, 34, 3, 99, 59, 100, 1, 100]⟩,
            .record ⟨23, [1, 97, 1, 116, 0], 9, 1, 13, [0, 1, 100]⟩,
            .record ⟨24, [1, 97, 1, 116, 0], 9, 1, 28, [32, 1, 13, 184, 0, 0, 0, 0, 0, 0, 0, 0, 0, 255, 255, 255]⟩,
            .record ⟨25, [1, 97, 1, 116, 0], 9, 1, 28, [254, 128, 0, 0, 0, 0, 0, 0, 0, 0, 0, 0, 0, 0, 0, 1]⟩,
            .record ⟨26, [1, 97, 1, 116, 0], 9, 1, 28, [0, 0, 0, 0, 0, 0, 0, 0, 0, 0, 255, 255, 192, 0, 2, 1]⟩,
            .record ⟨27, [1, 97, 1, 116, 0], 9, 1, 28, [0, 1, 0, 2, 0, 3, 0, 4, 0, 5, 0, 6, 10, 0, 0, 255]⟩,
            .record ⟨28, [1, 97, 1, 116, 0], 9, 1, 11, [10, 0, 0, 1, 6, 129]⟩,
            .record ⟨29, [1, 97, 1, 116, 0], 9, 3, 1, [1, 116, 0, 255, 255]⟩,
            .incl 30 [120, 32, 121] (some [1, 97, 1, 116, 0]),
            .incl 31 [122] (some [1, 116, 0])] := by
  refine ⟨?_, by decide +kernel⟩
  have wfA : WFName nA := by unfold nA WFName; exact ⟨by decide, by simp [LabelsOK, labelOctets], by decide⟩
  have wfMail : WFName nMail := by
    unfold nMail WFName; exact ⟨by simp, by decide, by simp [LabelsOK, labelOctets], by decide⟩
  have noOwner : ∀ n : PName, POwner.same = .named n → WFName n ∧ (nameText n).head? ≠ some 36 := by
    intro n h; cases h
  intro e he
  simp only [exFile, List.mem_cons, List.mem_nil_iff, or_false] at he
  rcases he with rfl | rfl | rfl | rfl | rfl | rfl | rfl | rfl | rfl | rfl | rfl | rfl | rfl | rfl | rfl | rfl | rfl | rfl | rfl | rfl | rfl | rfl
  · exact ⟨⟨by simp, by decide, by simp [LabelsOK, labelOctets], by decide⟩, false, GapOK_of_B (by decide),
      TailOK_of_B (by decide)⟩
  · refine ⟨?_, by decide, ?_,
      ⟨by simp [WFType], by decide, by decide, by decide⟩, by simp [WFRdata], gaps_ok_of_B _ (by decide)⟩
    · intro n hn; cases hn
      exact ⟨⟨by simp, by decide, by simp [LabelsOK, labelOctets], by decide⟩, by decide⟩
    · intro c hc; cases hc; exact mIN
  · exact ⟨by decide, .inl rfl, by decide⟩
  · exact ⟨noOwner, by decide, (by intro c hc; cases hc),
      ⟨by simp [WFType], by decide, by decide, by decide⟩, by simp [WFRdata], gaps_ok_of_B _ (by decide)⟩
  · exact ⟨by decide, true, GapOK_of_B (by decide), TailOK_of_B (by decide)⟩
  · refine ⟨?_, by decide, ?_,
      ⟨by simp [WFType], by decide, by decide, by decide⟩, by simp [WFRdata], gaps_ok_of_B _ (by decide)⟩
    · intro n hn; cases hn
      exact ⟨⟨by decide, by simp [LabelsOK, labelOctets], by decide⟩, by decide⟩
    · intro c hc; cases hc; exact (by decide : (3 : Nat) ≤ 65535)
  · refine ⟨?_, by decide, (by intro c hc; cases hc),
      ⟨mNs, by decide, by decide, by decide⟩, ⟨wfA, by decide⟩, gaps_ok_of_B _ (by decide)⟩
    intro n hn; cases hn; exact ⟨trivial, by decide⟩
  · exact ⟨noOwner, by decide, (by intro c hc; cases hc),
      ⟨mMx, by decide, by decide, by decide⟩, ⟨by decide, wfMail⟩, gaps_ok_of_B _ (by decide)⟩
  · exact ⟨noOwner, by decide, (by intro c hc; cases hc),
      ⟨mSoa, by decide, by decide, by decide⟩,
      ⟨trivial, wfA, by decide, by decide, by decide, by decide, by decide, by decide⟩, gaps_ok_of_B _ (by decide)⟩
  · refine ⟨?_, by decide, ?_,
      ⟨mSrv, by decide, by decide, by decide⟩, ⟨by decide, by decide, by decide, trivial⟩, gaps_ok_of_B _ (by decide)⟩
    · intro n hn; cases hn; exact ⟨wfA, by decide⟩
    · intro c hc; cases hc; exact mIN
  · exact ⟨noOwner, by decide, (by intro c hc; cases hc),
      ⟨mMinfo, by decide, by decide, by decide⟩, ⟨wfA, wfMail, by decide⟩, gaps_ok_of_B _ (by decide)⟩
  · exact ⟨noOwner, by decide, (by intro c hc; cases hc),
      ⟨mA, by decide, by decide, by decide⟩, ⟨by decide, by decide, by decide, by decide⟩, gaps_ok_of_B _ (by decide)⟩
  · refine ⟨noOwner, by decide, (by intro c hc; cases hc),
      ⟨mTxt, by decide, by decide, by decide⟩, ⟨?_, by decide, by decide⟩, gaps_ok_of_B _ (by decide)⟩
    intro x hx
    simp only [List.mem_cons, List.mem_nil_iff, or_false] at hx
    rcases hx with rfl | rfl | rfl <;> exact ⟨by decide, by decide, by decide⟩
  · exact ⟨noOwner, by decide, (by intro c hc; cases hc),
      ⟨mHinfo, by decide, by decide, by decide⟩,
      ⟨⟨by decide, by decide, by decide⟩, ⟨by decide, by decide, by decide⟩, by decide⟩, gaps_ok_of_B _ (by decide)⟩
  · exact ⟨noOwner, by decide, (by intro c hc; cases hc),
      ⟨mAaaa, by decide, by decide, by decide⟩, ⟨by decide, by decide⟩, gaps_ok_of_B _ (by decide)⟩
  · exact ⟨noOwner, by decide, (by intro c hc; cases hc),
      ⟨mAaaa, by decide, by decide, by decide⟩, ⟨by decide, by decide, by decide⟩, gaps_ok_of_B _ (by decide)⟩
  · exact ⟨noOwner, by decide, (by intro c hc; cases hc),
      ⟨mAaaa, by decide, by decide, by decide⟩, ⟨by decide, by decide, by decide, by decide, by decide, by decide, by decide⟩,
      gaps_ok_of_B _ (by decide)⟩
  · exact ⟨noOwner, by decide, (by intro c hc; cases hc),
      ⟨mAaaa, by decide, by decide, by decide⟩, ⟨by decide, by decide, by decide, by decide, by decide, by decide⟩,
      gaps_ok_of_B _ (by decide)⟩
  · exact ⟨noOwner, by decide, (by intro c hc; cases hc),
      ⟨mWks, by decide, by decide, by decide⟩,
      ⟨by decide, by decide, by decide, by decide, ⟨"TCP", by decide, by decide +kernel⟩, by decide, by decide, by decide⟩,
      gaps_ok_of_B _ (by decide)⟩
  · refine ⟨?_, by decide, ?_, ⟨mA, by decide, by decide, by decide⟩, ⟨trivial, by decide, by decide⟩,
      gaps_ok_of_B _ (by decide)⟩
    · intro n hn; cases hn; exact ⟨wfA, by decide⟩
    · intro c hc; cases hc; exact mCH
  · refine ⟨⟨by decide, by decide, by decide⟩, false, true, GapOK_of_B (by decide), ?_, (by intro h; cases h),
      TailOK_of_B (by decide)⟩
    intro n hn; cases hn; exact ⟨wfA, GapOK_of_B (by decide)⟩
  · exact ⟨⟨by decide, by decide, by decide⟩, false, false, GapOK_of_B (by decide), (by intro n hn; cases hn),
      (fun _ => rfl), TailOK_of_B (by decide)⟩

/-- … so the theorem applies to it -/
example : parseAll (renderFile exFile) {} =
    [.item (.record 2 ⟨[3, 97, 46, 98, 2, 10, 99, 0], 5, 1, 1, [1, 2, 3, 4]⟩),
     .item (.record 4 ⟨[3, 97, 46, 98, 2, 10, 99, 0], 5, 1, 16, [1, 97]⟩),
     .item (.record 8 ⟨[1, 119, 1, 116, 0], 9, 3, 99, []⟩),
     .item (.record 9 ⟨[1, 116, 0], 9, 3, 2, [1, 97, 1, 116, 0]⟩),
     .item (.record 10 ⟨[1, 116, 0], 9, 3, 15, [0, 10, 3, 109, 92, 10, 1, 120, 0]⟩),
     .item (.record 12 ⟨[1, 116, 0], 9, 3, 6, [1, 116, 0, 1, 97, 1, 116, 0, 0, 0, 0, 1, 0, 0, 0, 2, 0, 0, 0, 3,
              0, 0, 0, 4, 255, 255, 255, 255]⟩),
     .item (.record 15 ⟨[1, 97, 1, 116, 0], 7, 1, 33, [0, 1, 0, 2, 0, 3, 1, 116, 0]⟩),
     .item (.record 17 ⟨[1, 97, 1, 116, 0], 9, 1, 14, [1, 97, 1, 116, 0, 3, 109, 92, 10, 1, 120, 0]⟩),
     .item (.record 19 ⟨[1, 97, 1, 116, 0], 9, 1, 1, [192, 0, 2, 1]⟩),
     .item (.record 20 ⟨[1, 97, 1, 116, 0], 9, 1, 16, [4, 97, 10, 98, 34, 3, 99, 59, 100, 1, 100]⟩),
     .item (.record 23 ⟨[1, 97, 1, 116, 0], 9, 1, 13, [0, 1, 100]⟩),
     .item (.record 24 ⟨[1, 97, 1, 116, 0], 9, 1, 28, [32, 1, 13, 184, 0, 0, 0, 0, 0, 0, 0, 0, 0, 255, 255, 255]⟩),
     .item (.record 25 ⟨[1, 97, 1, 116, 0], 9, 1, 28, [254, 128, 0, 0, 0, 0, 0, 0, 0, 0, 0, 0, 0, 0, 0, 1]⟩),
     .item (.record 26 ⟨[1, 97, 1, 116, 0], 9, 1, 28, [0, 0, 0, 0, 0, 0, 0, 0, 0, 0, 255, 255, 192, 0, 2, 1]⟩),
     .item (.record 27 ⟨[1, 97, 1, 116, 0], 9, 1, 28, [0, 1, 0, 2, 0, 3, 0, 4, 0, 5, 0, 6, 10, 0, 0, 255]⟩),
     .item (.record 28 ⟨[1, 97, 1, 116, 0], 9, 1, 11, [10, 0, 0, 1, 6, 129]⟩),
     .item (.record 29 ⟨[1, 97, 1, 116, 0], 9, 3, 1, [1, 116, 0, 255, 255]⟩),
     .item (.incl 30 [120, 32, 121] (some [1, 97, 1, 116, 0])),
     .item (.incl 31 [122] (some [1, 116, 0]))] := by
  rw [C23_records_partial exFile exFile_ok.1 (by simp [exFile, EolsOK, entryEol]) {} CtxWF_default _ exFile_ok.2]
  rfl

/-- the same file, evaluated directly: the text is what it is meant to be and the parser yields
    seventeen records and two include requests -/
example : (parseAll (renderFile exFile) {}).length = 19 := by decide +kernel

/-- RDATA alone: ` ( 10 ;x<CRLF> a )` and then the end of the file, after the type field of an MX
    record, origin `t.` -/
example : parseRdata { origin := some [1, 116, 0] } 1 15
    ⟨gapText [.blank false, .openParen, .blank false] ++
      (rdataText (fun _ => [.blank false, .newline [59, 120] true, .blank false]) (.mx 10 nA) ++
        (tailText [.blank false, .closeParen] [] .eof ++ [])), 1, false⟩ =
    .ok ([0, 10, 1, 97, 1, 116, 0], ⟨[], 2, false⟩) := by
  have h := C23_rdata_partial { origin := some [1, 116, 0] }
    ⟨by intro o ho; cases ho; exact ⟨[[116]], by simp [LabelsOK], by decide, by decide⟩, by simp⟩
    1 15 (by decide) (by decide)
    (fun i => if i = 0 then [.blank false, .openParen, .blank false] else [.blank false, .newline [59, 120] true, .blank false])
    (fun i => decide (1 ≤ i)) [.blank false, .closeParen] [] .eof [] (fun _ => rfl) (.mx 10 nA)
    (by
      intro i hi
      have : i = 0 ∨ i = 1 := by simp [rdataGaps] at hi; omega
      rcases this with rfl | rfl <;> exact GapOK_of_B (by decide))
    (TailOK_of_B (by decide))
    ⟨by decide, by unfold nA WFName; exact ⟨by decide, by simp [LabelsOK, labelOctets], by decide⟩⟩
    (by decide) [0, 10, 1, 97, 1, 116, 0] (by decide) (by intro g hg; cases hg) 1
  simpa [rdataLines, gapLines, nameLines, nA, labelLines, eolLines] using h

private def exRec : PRecord :=
  ⟨.same, none, none, true, .mnemonic [109, 120] 15, .mx 10 nA, [], [[.blank false, .openParen]],
    [.newline [] true, .closeParen], [], .lf⟩

/-- one record: ` mx (10 a<CRLF>)<LF>` with previous owner `t.`, TTL 9, class 1 — two lines -/
example : ∃ ctx', parseLine { origin := some [1, 116, 0], prevOwner := some [1, 116, 0], prevTtl := some 9, prevClass := some 1 }
      ⟨renderRecord exRec ++ [], 1, false⟩ =
      .ok ((some (.record 1 ⟨[1, 116, 0], 9, 1, 15, [0, 10, 1, 97, 1, 116, 0]⟩), ctx'), ⟨[], 3, false⟩) ∧
      toSCtx ctx' = ⟨some [1, 116, 0], some [1, 116, 0], some 9, some 1, none⟩ := by
  have hT : NameWF [1, 116, 0] := ⟨[[116]], by simp [LabelsOK], by decide, by decide⟩
  have hwf : WFRecord exRec :=
    ⟨(by intro n h; cases h), by decide, (by intro c hc; cases hc),
      ⟨mMx, by decide, by decide, by decide⟩,
      ⟨by decide, by unfold nA WFName; exact ⟨by decide, by simp [LabelsOK, labelOctets], by decide⟩⟩,
      gaps_ok_of_B _ (by decide)⟩
  exact C23_record_partial _ ⟨by intro o ho; cases ho; exact hT, by intro o ho; cases ho; exact hT⟩ exRec hwf
    1 [] (by intro h; cases h) ⟨1, [1, 116, 0], 9, 1, 15, [0, 10, 1, 97, 1, 116, 0]⟩ _ (by decide +kernel)

/-- a name field: `a\.b` relative to `t.` -/
example : parseName (some [1, 116, 0]) ⟨nameText (.rel [] [(97, .raw), (46, .esc), (98, .raw)]) ++ [10], 1, false⟩ =
    .ok ([3, 97, 46, 98, 1, 116, 0], ⟨[10], 1, false⟩) :=
  C23_name_field (some [1, 116, 0])
    (by intro o ho; cases ho; exact ⟨[[116]], by simp [LabelsOK], by decide, by decide⟩) _
    (by unfold WFName; exact ⟨by decide, by simp [LabelsOK, labelOctets], by decide⟩) _ (by decide) [10]
    (by decide) 1 false

/-- concrete witness beyond the proved subset (parentheses, comments inside them, quoted strings,
    mnemonics): `$ORIGIN t.` / `@ 5 IN NS ( a` / ` ) ; c` / ` TXT "x y" z` -/
theorem C23_witness :
    parseAll ("$ORIGIN t.\n@ 5 IN NS ( a\n ) ; c\n TXT \"x y\" z\n".toUTF8.toList) {} =
      [.item (.record 2 ⟨[1, 116, 0], 5, 1, 2, [1, 97, 1, 116, 0]⟩),
       .item (.record 4 ⟨[1, 116, 0], 5, 1, 16, [3, 120, 32, 121, 1, 122]⟩)] := by
  decide +kernel

/-! ### WKS: the bit map (known finding D18) -/

/-- **`serialize_in_wks` against RFC 1035 §3.4.2**, for every address, protocol and port list:
    written with the most significant bit first (`0x80 >> (port % 8)`) the RDATA is the RFC's
    (`wksBitmap`: port `8 i + j` is the bit of value `2 ^ (7 - j)` of octet `i`, stated
    arithmetically from membership in the port list); written with the least significant bit
    first (`1 << (port % 8)`) every octet of the bit map has its bits in the opposite order. -/
theorem C23_wks_bitmap (msb : Bool) (addr : List UInt8) (proto : Nat) (ports : List Nat) :
    newInWksWith msb addr proto ports =
      addr ++ UInt8.ofNat proto :: (wksBitmap ports).map (if msb then id else revBits) :=
  newInWksWith_eq msb addr proto ports

/-- **WKS as written** (for the order of bits the repository has, whichever it is): the text
    `a.b.c.d  proto  port …` — protocol `TCP` / `UDP` in any mix of upper and lower case or a
    number, any number of decimal ports, with general gaps (parentheses, line ends, comments)
    between all fields and before the end of the line — is read as address, protocol and exactly
    the listed ports, handed to `serialize_in_wks` (`newInWks`; `C23_wks_bitmap` says what that
    is).  `C23_rdata_partial` contains the consequence: equal to the RFC's RDATA whenever
    `WksOrderOK`. -/
theorem C23_wks_text (ctx : Ctx) (G : Nat → PGap) (S : Nat → Bool) (tg : PGap) (cmt : List UInt8) (eol : PEol)
    (r : List UInt8) (he : eol = .eof → r = []) (line : Nat)
    (a b c d : Nat) (ha : a ≤ 255) (hb : b ≤ 255) (hc : c ≤ 255) (hd : d ≤ 255)
    (pr : PCode) (hpr : WFProto pr) (ports : List Nat) (hp : ∀ p ∈ ports, p ≤ 65535) (hlen : ports.length ≤ 65535)
    (hG : ∀ i, i ≤ 1 + ports.length → GapOK (G i) (S i) (S (i + 1))) (hT : TailOK tg cmt (S (1 + ports.length + 1))) :
    parseRdata ctx 1 11
      ⟨gapText (G 0) ++ (rdataText (fun i => G (i + 1)) (.wks a b c d pr ports) ++ (tailText tg cmt eol ++ r)), line, S 0⟩ =
      .ok (newInWks [UInt8.ofNat a, UInt8.ofNat b, UInt8.ofNat c, UInt8.ofNat d] pr.value ports,
        ⟨r, line + gapLines (G 0) + rdataLines (fun i => G (i + 1)) (.wks a b c d pr ports) + gapLines tg + eolLines eol,
          false⟩) := by
  have := parseRdata_wks_text ctx G S tg cmt eol r he line a b c d ha hb hc hd pr hpr ports hp hlen hG hT
  simpa [rdataText, rdataLines, Nat.add_assoc] using this

private def exG : Nat → PGap
  | 0 => [.blank false]
  | 1 => [.blank false, .openParen, .blank false]
  | 2 => [.blank false]
  | _ => [.blank false, .newline [59, 120] false, .blank false]

/-- ` 1.2.3.4 ( uDp 25 ;x<LF> 80 )<LF>`: address, protocol 17, ports 25 and 80 — two lines -/
example : parseRdata {} 1 11
    ⟨gapText (exG 0) ++ (rdataText (fun i => exG (i + 1)) (.wks 1 2 3 4 (.mnemonic [117, 68, 112] 17) [25, 80]) ++
      (tailText [.blank false, .closeParen] [] .lf ++ [])), 1, false⟩ =
    .ok (newInWks [1, 2, 3, 4] 17 [25, 80], ⟨[], 3, false⟩) := by
  have h := C23_wks_text {} exG (fun i => decide (2 ≤ i)) [.blank false, .closeParen] [] .lf [] (by intro h; cases h) 1
    1 2 3 4 (by decide) (by decide) (by decide) (by decide) (.mnemonic [117, 68, 112] 17)
    ⟨"UDP", by decide, by decide +kernel⟩ [25, 80] (by decide) (by decide)
    (by
      intro i hi
      have : i = 0 ∨ i = 1 ∨ i = 2 ∨ i = 3 := by simp at hi; omega
      rcases this with rfl | rfl | rfl | rfl <;> exact GapOK_of_B (by decide))
    (TailOK_of_B (by decide))
  simpa [rdataLines, portsLines, gapLines, exG, eolLines, PCode.value] using h

example : gapText (exG 0) ++ (rdataText (fun i => exG (i + 1)) (.wks 1 2 3 4 (.mnemonic [117, 68, 112] 17) [25, 80]) ++
      (tailText [.blank false, .closeParen] [] .lf ++ [])) = " 1.2.3.4 ( uDp 25 ;x\n 80 )\n".toUTF8.toList := by
  decide +kernel

/-- the repository under test (its mask expression is read by the extractor into
    `Gen.wksMaskMsbFirst`): with the RFC's order the parser's WKS RDATA is `wksWire`; with the
    other order it is `wksWire` with every bit-map octet bit-reversed -/
theorem C23_wks_repository (addr : List UInt8) (proto : Nat) (ports : List Nat) :
    (Gen.wksMaskMsbFirst = true → newInWks addr proto ports = wksWire addr proto ports) ∧
    (Gen.wksMaskMsbFirst = false →
      newInWks addr proto ports = addr ++ UInt8.ofNat proto :: (wksBitmap ports).map revBits) := by
  unfold newInWks wksWire
  rw [C23_wks_bitmap]
  constructor <;> intro h <;> simp [h]

/-- **known finding D18**, the witness: `a. 5 IN WKS 1.2.3.4 TCP 25` parses to the record whose
    RDATA is what `serialize_in_wks` makes of address 1.2.3.4, protocol 6, ports [25]; with
    `1 << (port % 8)` (src/rr/rdata/std13.rs:415) that is `01020304 06 00000002` — port 30 to
    every reader that follows the RFC — while RFC 1035 §3.4.2 denotes `01020304 06 00000040`. -/
theorem C23_wks_bit_order_witness :
    parseAll ("a. 5 IN WKS 1.2.3.4 TCP 25\n".toUTF8.toList) {} =
        [.item (.record 1 ⟨[1, 97, 0], 5, 1, 11, newInWks [1, 2, 3, 4] 6 [25]⟩)] ∧
      newInWksWith false [1, 2, 3, 4] 6 [25] = [1, 2, 3, 4, 6, 0, 0, 0, 2] ∧
      wksWire [1, 2, 3, 4] 6 [25] = [1, 2, 3, 4, 6, 0, 0, 0, 64] ∧
      wksWire [1, 2, 3, 4] 6 [30] = [1, 2, 3, 4, 6, 0, 0, 0, 2] := by
  decide +kernel

/-- the two orders agree exactly on the bit maps whose octets read the same in both directions
    (no ports; ports 0 and 7; …) -/
example : newInWksWith false [1, 2, 3, 4] 17 [0, 7] = wksWire [1, 2, 3, 4] 17 [0, 7] ∧
    newInWksWith false [1, 2, 3, 4] 6 [] = wksWire [1, 2, 3, 4] 6 [] := by decide +kernel

end QV.C23
