/-
  C24 — The zone-file parser is total and only yields valid records.

  "For any input bytes the zone-file parser terminates without panicking, and after its first
   error it yields nothing more. Every record it yields has an absolute owner, a type other than
   NULL, OPT or TSIG, and RDATA that passes validation for its class and type, including RDATA
   given in RFC 3597 generic form."

  Model: `QV.Model.ZoneFile.*` (mirrors src/zone_file/{mod,record,reader,name,character_string,
  escape,directive}.rs over "the remaining input"; tied to the source by the correspondence
  groups `zonefile`).  RDATA validity is `QV.Rdata.validate` (the shared model of
  `Rdata::validate`, C18).

  * Termination: every loop of the model is a Lean function accepted by the termination checker
    with a real measure (the length of the remaining input; structural recursion elsewhere).
    Four loops of the Rust code are loops "while something is left" around sub-parsers
    (`parse_lines_until_returnable_data_found`, the TXT and WKS loops, iteration itself); the
    model runs them on the measure with a run-time check that the round consumed input and
    reports the pseudo-error `ModelStuck` otherwise.  `C24_total` proves `ModelStuck` is never
    produced: every round consumes at least one octet, so the Rust loops terminate.
  * `parseAll input ctx` is everything `Iterator::next` yields until it returns `None`.
  * The hypothesis `CtxWF ctx` (the names in the *initial* context are well-formed) holds for
    `Parser::new` (`C24_*_default`) and is preserved by `new_for_include`
    (`C24_include_context`).

  ══ REPORT ══

  PROVED (14 theorems, none partial: every clause of the property, for ALL input octet strings)
   * no panic (`C24_no_panic`): no index out of range, no `unwrap`/`expect` on `None`/`Err`, no
     `ArrayVec` overflow, no RDATA above 65 535 octets handed to the boxing `unwrap`;
   * termination (`C24_total`): all loops on a decreasing measure, the non-progress marker of
     the four "while something is left" loops is unreachable;
   * after its first error it yields nothing more (`C24_latch` on whole runs;
     `C24_next_sets_latch`, `C24_latched_next` on single calls);
   * every yielded record has an absolute owner, a type other than NULL / OPT / TSIG and RDATA
     accepted by `Rdata::validate(class, type)`, typed or in RFC 3597 form (`C24_yield_valid`;
     `C24_rejected_types` ties the three numbers to the source's constants); the origin of a
     yielded `$INCLUDE` request is a valid absolute name (`C24_include_origin_valid`);
   * the same for the `RecordsOnly` iterator, which turns `$INCLUDE` into an error
     (`C24_records_only`);
   * the context hypothesis is an invariant (`C24_context_invariant`, `C24_include_context`,
     `C24_*_default`).
  ORACLE-ONLY: nothing at the level of the property.  What the correspondence check adds on
  every run is the tie of the model to the code: op `zf` (items and error lines, model ↔
  implementation), op `zfc` (the verdict of this property computed on the real output with the
  real `Rdata::validate` and `Name::validate_uncompressed_all`; spec = `ok`), `zfv` (error
  kinds, informational), `zf.*` (std's text parsers) — on pretty-printed files, mutations of
  them, token soups, random octets, boundary sizes (names, labels, strings, 65 535-octet RDATA,
  65 535 WKS ports), each through whole buffers and 1–7-octet chunked `Read`s.
  RESTRICTIONS / model assumptions
   * the Reader's refill/shift buffer is abstracted to "the remaining input" (exact while the
     underlying `Read` returns 0 only at the end of the input); I/O errors of the stream are
     outside the model;
   * std's `u8`/`u16`/`u32`/`Ipv4Addr`/`Ipv6Addr` `FromStr` and `str::from_utf8` are
     re-implemented in Lean and compared on generated strings;
   * RDATA validity is `QV.Rdata.validate`, the model of `Rdata::validate` of property C18.
  FINDINGS: none for this property (D18, the WKS bit order, yields valid RDATA: it is C23's).
-/
import QV.Proofs.ZoneFile.Parser

namespace QV.C24
open QV QV.ZF QV.Wire

/-- **No panic**, for every input and every well-formed initial context: no index out of range,
    no `unwrap` on `None`/`Err`, no `ArrayVec` overflow (`label_offsets`), no RDATA longer than
    65 535 octets, no panicking validator. -/
theorem C24_no_panic (input : List UInt8) (ctx : Ctx) (h : CtxWF ctx) :
    Yield.panic ∉ parseAll input ctx :=
  (collect_run _ h).no_panic

/-- **Totality**: no loop round of the parser consumes nothing (see the header): the model's
    divergence marker never appears among the yielded errors. -/
theorem C24_total (input : List UInt8) (ctx : Ctx) (h : CtxWF ctx) :
    ∀ e, Yield.err e ∈ parseAll input ctx → e.kind ≠ .ModelStuck :=
  (collect_run _ h).no_stuck

/-- **Error latch, on the whole run**: an error is the last thing the iterator yields. -/
theorem C24_latch (input : List UInt8) (ctx : Ctx) (h : CtxWF ctx) (pre : List Yield) (e : Err)
    (post : List Yield) (hrun : parseAll input ctx = pre ++ .err e :: post) : post = [] :=
  (collect_run _ h).err_last pre e post hrun

/-- **Error latch, on `next`**: the call that returns an error sets the flag … -/
theorem C24_next_sets_latch (p : Parser) (h : CtxWF p.ctx) (e : Err) (p' : Parser)
    (hn : p.next = (some (.err e), p')) : p'.error = true := by
  have g := next_spec h
  rw [hn] at g
  exact g.2

/-- … and with the flag set every further call returns `None` and changes nothing. -/
theorem C24_latched_next (p : Parser) (h : p.error = true) : p.next = (none, p) :=
  next_latched h

/-- **Yielded ⇒ valid**: every record the iterator yields has an absolute owner (a valid
    uncompressed wire-form name that fills its buffer, C14's `validateUncompressed`), a type other
    than NULL (10), OPT (41), TSIG (250), and RDATA that `Rdata::validate(class, type)` accepts —
    whether it was written in typed or in RFC 3597 `\#` form. -/
theorem C24_yield_valid (input : List UInt8) (ctx : Ctx) (h : CtxWF ctx) (line : Nat) (r : Rec)
    (hy : Yield.item (.record line r) ∈ parseAll input ctx) :
    validateUncompressed r.owner.toArray true = .ok r.owner.length ∧
    r.ty ≠ 10 ∧ r.ty ≠ 41 ∧ r.ty ≠ 250 ∧
    Rdata.validate r.cls r.ty r.rdata.toArray = .ok () := by
  have g := (collect_run _ h).items_ok _ hy
  exact ⟨validate_all g.1, g.2.1, g.2.2.1, g.2.2.2.1, g.2.2.2.2⟩

/-- the origin reported with an `$INCLUDE` directive is a valid absolute name as well -/
theorem C24_include_origin_valid (input : List UInt8) (ctx : Ctx) (h : CtxWF ctx) (line : Nat)
    (path o : List UInt8) (hy : Yield.item (.incl line path (some o)) ∈ parseAll input ctx) :
    validateUncompressed o.toArray true = .ok o.length :=
  validate_all ((collect_run _ h).items_ok _ hy o rfl)

/-- the `RecordsOnly` iterator (`Parser::records_only`) has the same guarantees — no panic, no
    divergence, error last, every record valid — and turns an `$INCLUDE` into an error instead
    of yielding it -/
theorem C24_records_only (input : List UInt8) (ctx : Ctx) (h : CtxWF ctx) :
    let ys := collectRecordsOnly (Parser.withContext input ctx)
    Yield.panic ∉ ys ∧ (∀ e, Yield.err e ∈ ys → e.kind ≠ .ModelStuck) ∧
    (∀ pre e post, ys = pre ++ .err e :: post → post = []) ∧
    (∀ l path o, Yield.item (.incl l path o) ∉ ys) ∧
    (∀ line r, Yield.item (.record line r) ∈ ys →
      validateUncompressed r.owner.toArray true = .ok r.owner.length ∧ r.ty ≠ 10 ∧ r.ty ≠ 41 ∧ r.ty ≠ 250 ∧
      Rdata.validate r.cls r.ty r.rdata.toArray = .ok ()) := by
  intro ys
  obtain ⟨hr, hi⟩ := collectRecordsOnly_run (Parser.withContext input ctx) h
  refine ⟨hr.no_panic, hr.no_stuck, hr.err_last, hi, ?_⟩
  intro line r hy
  have g := hr.items_ok _ hy
  exact ⟨validate_all g.1, g.2.1, g.2.2.1, g.2.2.2.1, g.2.2.2.2⟩

/-- the three excluded types are the ones named NULL, OPT, TSIG in src/rr/rr_type.rs, and they are
    exactly the types `parse_type` refuses (generated tables) -/
theorem C24_rejected_types :
    Gen.parseTypeRejected.map (·.1) = [10, 41, 250] ∧
    Gen.typeConsts.lookup "NULL" = some 10 ∧ Gen.typeConsts.lookup "OPT" = some 41 ∧
    Gen.typeConsts.lookup "TSIG" = some 250 := by decide

/-! ### the hypothesis `CtxWF` -/

/-- `Parser::new` starts from the default context, which is well-formed … -/
theorem C24_no_panic_default (input : List UInt8) : Yield.panic ∉ parseAll input {} :=
  C24_no_panic input {} CtxWF_default

theorem C24_yield_valid_default (input : List UInt8) (line : Nat) (r : Rec)
    (hy : Yield.item (.record line r) ∈ parseAll input {}) :
    validateUncompressed r.owner.toArray true = .ok r.owner.length ∧
    r.ty ≠ 10 ∧ r.ty ≠ 41 ∧ r.ty ≠ 250 ∧ Rdata.validate r.cls r.ty r.rdata.toArray = .ok () :=
  C24_yield_valid input {} CtxWF_default line r hy

/-- … every context a parser reaches is well-formed … -/
theorem C24_context_invariant (p : Parser) (h : CtxWF p.ctx) : CtxWF p.next.2.ctx := by
  have g := next_spec h
  unfold NextOK at g
  split at g
  · next p' heq => rw [heq]; exact g
  · next it p' heq => rw [heq]; exact g.2.1
  · next e p' heq =>
    -- on an error the context is the one before the call
    unfold Parser.next at heq ⊢
    split at heq
    · cases heq
    · split at heq <;> simp_all
      obtain ⟨_, rfl⟩ := heq
      exact h
  · exact absurd g (by simp)

/-- … and so is the context of a parser made by `new_for_include` from a well-formed context and
    the origin of a yielded `$INCLUDE` item. -/
theorem C24_include_context (p : Parser) (h : CtxWF p.ctx) (content : List UInt8)
    (origin : Option (List UInt8)) (ho : ∀ o, origin = some o → NameWF o) :
    CtxWF (p.newForInclude content origin).ctx := by
  unfold Parser.newForInclude
  split
  · next o => exact ⟨fun x hx => by simp [Parser.withContext] at hx; subst hx; exact ho _ rfl, h.2⟩
  · exact h

/-! ### non-vacuity -/

/-- `a. 5 IN A 1.2.3.4\n` -/
def exInput : List UInt8 := [97, 46, 32, 53, 32, 73, 78, 32, 65, 32, 49, 46, 50, 46, 51, 46, 52, 10]

/-- the parser does yield records: the conclusions above are about something -/
theorem exInput_parses :
    parseAll exInput {} = [.item (.record 1 ⟨[1, 97, 0], 5, 1, 1, [1, 2, 3, 4]⟩)] := by
  decide +kernel

example : Yield.item (.record 1 ⟨[1, 97, 0], 5, 1, 1, [1, 2, 3, 4]⟩) ∈ parseAll exInput {} := by
  rw [exInput_parses]; simp

/-- `b 5 IN NULL \# 0` + newline: NULL is refused, and the error is the only thing yielded -/
example : parseAll [98, 46, 32, 53, 32, 73, 78, 32, 78, 85, 76, 76, 32, 92, 35, 32, 48, 10] {} =
    [.err ⟨.NullNotAllowed, 1⟩] := by
  decide +kernel

/-- `b. 5 IN A \# 3 010203` + newline: generic RDATA that does not validate as an IN A record is
    refused -/
example : parseAll [98, 46, 32, 53, 32, 73, 78, 32, 65, 32, 92, 35, 32, 51, 32, 48, 49, 48, 50, 48, 51, 10] {} =
    [.err ⟨.InvalidRdataForType, 1⟩] := by
  decide +kernel

/-- a non-default well-formed context (origin `com.`) satisfies the hypothesis -/
example : CtxWF { origin := some [3, 99, 111, 109, 0] } :=
  ⟨fun o ho => by
      simp at ho; subst ho
      exact ⟨[[99, 111, 109]], by simp [LabelsOK], by simp [encodeName, flatLabels, encLabel], by simp⟩,
   by simp⟩

end QV.C24
